import KanidmModel.IndexMaint
import KanidmProofs.Lemmas.Filter
import KanidmProofs.Lemmas.FilterIdl
/-
Helper lemmas for C03 (index maintenance keeps every table equal to the rebuild from the entries).
-/
namespace Kanidm.Index
open Kanidm.Filter

/-! ### association maps -/

section AMap
variable {κ ν : Type} [DecidableEq κ]

theorem aget_adel (m : List (κ × ν)) (k k' : κ) :
    aget (adel m k) k' = if k' = k then none else aget m k' := by
  induction m with
  | nil => simp [adel, aget]
  | cons p r ih =>
    obtain ⟨pk, pv⟩ := p
    simp only [adel, List.filter_cons] at ih ⊢
    by_cases h : pk = k
    · subst h
      simp only [decide_true, Bool.not_true, Bool.false_eq_true, if_false, ih, aget]
      by_cases h2 : k' = pk
      · simp [h2]
      · have : ¬ pk = k' := fun e => h2 e.symm
        simp [h2, this]
    · simp only [h, decide_false, Bool.not_false, if_true, aget, ih]
      by_cases h2 : pk = k'
      · subst h2; simp [h]
      · simp [h2]

theorem aget_aset (m : List (κ × ν)) (k : κ) (v : ν) (k' : κ) :
    aget (aset m k v) k' = if k' = k then some v else aget m k' := by
  simp only [aset, aget, aget_adel]
  by_cases h : k = k'
  · subst h; simp
  · have : ¬ k' = k := fun e => h e.symm
    simp [h, this]

end AMap

/-! ### one index table row -/

/-- `id` is in the id set stored under `(a, it, k)` -/
def memIdl (t : Tables) (a : Nat) (it : IType) (k : Val) (id : Nat) : Prop :=
  ∃ l, getIdl t a it k = some l ∧ id ∈ l

/-- the table `idx_<it>_<a>` exists -/
def tblExists (t : Tables) (a : Nat) (it : IType) : Prop := (aget t.idx (a, it)).isSome = true

theorem getIdl_isSome (t : Tables) (a : Nat) (it : IType) (k : Val) :
    (getIdl t a it k).isSome = (aget t.idx (a, it)).isSome := by
  simp [getIdl]

theorem memIdl_exists {t : Tables} {a : Nat} {it : IType} {k : Val} {id : Nat}
    (h : memIdl t a it k id) : tblExists t a it := by
  obtain ⟨l, hl, _⟩ := h
  have := getIdl_isSome t a it k
  rw [hl] at this
  simpa [tblExists] using this.symm

theorem getIdl_writeIdl (t : Tables) (a : Nat) (it : IType) (k : Val) (ids : List Nat)
    (a' : Nat) (it' : IType) (k' : Val) :
    getIdl (writeIdl t a it k ids) a' it' k' =
      if (a', it') = (a, it) ∧ k' = k ∧ (aget t.idx (a, it)).isSome then some ids
      else getIdl t a' it' k' := by
  unfold writeIdl
  cases hr : aget t.idx (a, it) with
  | none => simp
  | some rows =>
    simp only [getIdl, aget_aset, Option.isSome_some, and_true]
    by_cases h1 : (a', it') = (a, it)
    · simp only [h1, if_true, Option.map_some, true_and]
      by_cases h2 : k' = k
      · simp [h2, aget_aset]
      · simp [h2, hr, aget_aset]
    · simp [h1]

theorem mem_insertId {id x : Nat} {l : List Nat} : x ∈ insertId id l ↔ x = id ∨ x ∈ l := by
  unfold insertId
  split
  · rename_i h
    have : id ∈ l := by simpa using h
    constructor
    · intro hx; exact Or.inr hx
    · rintro (rfl | hx)
      · exact this
      · exact hx
  · simp

theorem mem_removeId {id x : Nat} {l : List Nat} : x ∈ removeId id l ↔ x ≠ id ∧ x ∈ l := by
  simp [removeId, and_comm]

theorem applyAct_exists (id : Nat) (t : Tables) (act : Act) (a : Nat) (it : IType) :
    tblExists (applyAct id t act) a it ↔ tblExists t a it := by
  unfold applyAct
  cases hg : getIdl t act.a act.it act.k with
  | none => simp
  | some idl =>
    simp only
    unfold tblExists writeIdl
    cases hr : aget t.idx (act.a, act.it) with
    | none => simp
    | some rows =>
      simp only [aget_aset]
      by_cases h : (a, it) = (act.a, act.it)
      · simp [h, hr]
      · simp [h]

/-- the effect of one index change on one `(table, key, id)` -/
theorem applyAct_mem (id : Nat) (t : Tables) (act : Act) (a : Nat) (it : IType) (k : Val) (x : Nat) :
    memIdl (applyAct id t act) a it k x ↔
      if (act.a, act.it, act.k) = (a, it, k) ∧ x = id then (act.add = true ∧ tblExists t a it)
      else memIdl t a it k x := by
  unfold applyAct
  cases hg : getIdl t act.a act.it act.k with
  | none =>
    simp only
    have hne : ¬ tblExists t act.a act.it := by
      have := getIdl_isSome t act.a act.it act.k
      rw [hg] at this
      simp [tblExists, ← this]
    by_cases h : (act.a, act.it, act.k) = (a, it, k) ∧ x = id
    · obtain ⟨h1, h2⟩ := h
      simp only [Prod.mk.injEq] at h1
      obtain ⟨rfl, rfl, rfl⟩ := h1
      simp only [and_self, h2, if_true]
      constructor
      · intro hm; exact absurd (memIdl_exists hm) hne
      · intro ⟨_, he⟩; exact absurd he hne
    · rw [if_neg h]
  | some idl =>
    have hex : (aget t.idx (act.a, act.it)).isSome = true := by
      have := getIdl_isSome t act.a act.it act.k
      rw [hg] at this
      simpa using this.symm
    simp only [memIdl, getIdl_writeIdl, hex, and_true]
    by_cases hk : (a, it) = (act.a, act.it) ∧ k = act.k
    · obtain ⟨h1, h2⟩ := hk
      simp only [Prod.mk.injEq] at h1
      obtain ⟨rfl, rfl⟩ := h1
      subst h2
      simp only [and_self, if_true, Option.some.injEq, exists_eq_left', true_and]
      by_cases hx : x = id
      · subst hx
        simp only [if_true]
        cases act.add with
        | true => simp [mem_insertId, tblExists, hex]
        | false => simp [mem_removeId]
      · simp only [hx, if_false]
        cases act.add with
        | true => simp [mem_insertId, hx, hg]
        | false => simp [mem_removeId, hx, hg]
    · have h1 : ¬ ((act.a, act.it, act.k) = (a, it, k) ∧ x = id) := by
        intro ⟨h, _⟩
        simp only [Prod.mk.injEq] at h
        exact hk ⟨by simp [h.1, h.2.1], h.2.2.symm⟩
      rw [if_neg h1, if_neg hk]

theorem applyActs_cons (id : Nat) (x : Act) (xs : List Act) (t : Tables) :
    applyActs id (x :: xs) t = applyActs id xs (applyAct id t x) := rfl

theorem applyActs_exists (id : Nat) (acts : List Act) (t : Tables) (a : Nat) (it : IType) :
    tblExists (applyActs id acts t) a it ↔ tblExists t a it := by
  induction acts generalizing t with
  | nil => rfl
  | cons x xs ih => rw [applyActs_cons, ih, applyAct_exists]

theorem applyActs_mem_other (id : Nat) (acts : List Act) (t : Tables) (a : Nat) (it : IType) (k : Val)
    (x : Nat) (hx : x ≠ id) : memIdl (applyActs id acts t) a it k x ↔ memIdl t a it k x := by
  induction acts generalizing t with
  | nil => rfl
  | cons y ys ih =>
    rw [applyActs_cons, ih, applyAct_mem, if_neg (fun h => hx h.2)]

theorem act_eq_iff (x : Act) (b : Bool) (a : Nat) (it : IType) (k : Val) :
    x = ⟨b, a, it, k⟩ ↔ x.add = b ∧ (x.a, x.it, x.k) = (a, it, k) := by
  cases x
  simp

/-- the net effect of an `idx_diff` on the entry's own id, when no key is both added and removed -/
theorem applyActs_mem_self (id : Nat) (acts : List Act) (t : Tables) (a : Nat) (it : IType) (k : Val)
    (hclash : ¬ ((⟨true, a, it, k⟩ : Act) ∈ acts ∧ (⟨false, a, it, k⟩ : Act) ∈ acts))
    (hex : tblExists t a it) :
    memIdl (applyActs id acts t) a it k id ↔
      ((⟨true, a, it, k⟩ : Act) ∈ acts ∨ ((⟨false, a, it, k⟩ : Act) ∉ acts ∧ memIdl t a it k id)) := by
  induction acts generalizing t with
  | nil => simp [applyActs]
  | cons x xs ih =>
    have hex' : tblExists (applyAct id t x) a it := (applyAct_exists id t x a it).2 hex
    have hclash' : ¬ ((⟨true, a, it, k⟩ : Act) ∈ xs ∧ (⟨false, a, it, k⟩ : Act) ∈ xs) :=
      fun h => hclash ⟨List.mem_cons_of_mem _ h.1, List.mem_cons_of_mem _ h.2⟩
    rw [applyActs_cons, ih _ hclash' hex', applyAct_mem]
    by_cases hk : (x.a, x.it, x.k) = (a, it, k)
    · simp only [hk, true_and, if_true]
      cases hadd : x.add with
      | true =>
        have hx : x = ⟨true, a, it, k⟩ := (act_eq_iff x true a it k).2 ⟨hadd, hk⟩
        have hnr : (⟨false, a, it, k⟩ : Act) ∉ xs := fun h => hclash ⟨by simp [hx], List.mem_cons_of_mem _ h⟩
        simp [hx, hnr, hex]
      | false =>
        have hx : x = ⟨false, a, it, k⟩ := (act_eq_iff x false a it k).2 ⟨hadd, hk⟩
        have hna : (⟨true, a, it, k⟩ : Act) ∉ xs := fun h => hclash ⟨List.mem_cons_of_mem _ h, by simp [hx]⟩
        simp [hx, hna]
    · have h1 : ¬ ((x.a, x.it, x.k) = (a, it, k) ∧ id = id) := fun h => hk h.1
      have h2 : x ≠ ⟨true, a, it, k⟩ := fun h => hk (((act_eq_iff x true a it k).1 h).2)
      have h3 : x ≠ ⟨false, a, it, k⟩ := fun h => hk (((act_eq_iff x false a it k).1 h).2)
      rw [if_neg h1]
      simp only [List.mem_cons]
      constructor
      · rintro (h | ⟨h, hm⟩)
        · exact Or.inl (Or.inr h)
        · exact Or.inr ⟨fun h' => h'.elim (fun e => h3 e.symm) h, hm⟩
      · rintro ((h | h) | ⟨h, hm⟩)
        · exact absurd h.symm h2
        · exact Or.inl h
        · exact Or.inr ⟨fun h' => h (Or.inr h'), hm⟩

/-! ### the key order -/

theorem cmpNatList_eq : ∀ a b, cmpNatList a b = .eq → a = b
  | [], [], _ => rfl
  | [], _ :: _, h => by simp [cmpNatList] at h
  | _ :: _, [], h => by simp [cmpNatList] at h
  | x :: xs, y :: ys, h => by
    simp only [cmpNatList] at h
    by_cases h1 : x < y
    · simp [h1] at h
    · by_cases h2 : y < x
      · simp [h1, h2] at h
      · simp only [h1, h2, if_false] at h
        have : x = y := by omega
        rw [this, cmpNatList_eq xs ys h]

theorem vcmp_eq {a b : Val} (h : Val.cmp a b = .eq) : a = b := by
  cases a <;> cases b <;> simp only [Val.cmp] at h
  · rw [cmpNatList_eq _ _ h]
  · exact absurd h (by decide)
  · exact absurd h (by decide)
  · rename_i x y
    by_cases h1 : x < y
    · simp [h1] at h
    · by_cases h2 : y < x
      · simp [h1, h2] at h
      · have : x = y := by omega
        rw [this]

theorem vcmp_refl (a : Val) : Val.cmp a a = .eq := by
  cases a <;> simp [Val.cmp, cmpNatList_refl]

theorem vcmp_swap (a b : Val) : Val.cmp b a = (Val.cmp a b).swap := by
  cases a <;> cases b <;> simp only [Val.cmp, Ordering.swap]
  · exact cmpNatList_swap _ _
  · rename_i x y
    by_cases h1 : x < y
    · have : ¬ y < x := by omega
      simp [h1, this]
    · by_cases h2 : y < x
      · simp [h1, h2]
      · simp [h1, h2]

theorem vcmp_trans (a b c : Val) (h1 : Val.cmp a b ≠ .gt) (h2 : Val.cmp b c ≠ .gt) :
    Val.cmp a c ≠ .gt ∧ (Val.cmp a c = .eq → Val.cmp a b = .eq ∧ Val.cmp b c = .eq) := by
  cases a <;> cases b <;> cases c <;> simp only [Val.cmp] at h1 h2 ⊢
  · exact cmpNatList_trans _ _ _ h1 h2
  · simp
  · exact absurd rfl h2
  · simp
  · exact absurd rfl h1
  · exact absurd rfl h1
  · exact absurd rfl h2
  · rename_i x y z
    by_cases hxy : x < y
    · by_cases hyz : y < z
      · have : x < z := by omega
        simp [this]
      · by_cases hzy : z < y
        · simp [hyz, hzy] at h2
        · have : x < z := by omega
          simp [this]
    · by_cases hyx : y < x
      · simp [hxy, hyx] at h1
      · by_cases hyz : y < z
        · have : x < z := by omega
          simp [this]
        · by_cases hzy : z < y
          · simp [hyz, hzy] at h2
          · have h3 : ¬ x < z := by omega
            have h4 : ¬ z < x := by omega
            simp [hxy, hyx, hyz, hzy, h3, h4]

/-- strict order on keys -/
def keyLt (a b : Val) : Prop := Val.cmp a b = .lt

theorem keyLt_irrefl (a : Val) : ¬ keyLt a a := by simp [keyLt, vcmp_refl]

theorem keyLe_trans (a b c : Val) (h1 : keyLe a b = true) (h2 : keyLe b c = true) : keyLe a c = true := by
  simp only [keyLe, bne_iff_ne, ne_eq] at *
  exact (vcmp_trans a b c h1 h2).1

theorem keyLe_total (a b : Val) : (keyLe a b || keyLe b a) = true := by
  simp only [keyLe, vcmp_swap a b]
  cases Val.cmp a b <;> simp [Ordering.swap]

theorem keyLt_of_le_ne {a b : Val} (h : keyLe a b = true) (hne : a ≠ b) : keyLt a b := by
  simp only [keyLe, bne_iff_ne, ne_eq] at h
  unfold keyLt
  cases hc : Val.cmp a b with
  | lt => rfl
  | eq => exact absurd (vcmp_eq hc) hne
  | gt => exact absurd hc h

theorem keyLt_le_trans {a b c : Val} (h1 : keyLt a b) (h2 : keyLe b c = true) : keyLt a c := by
  simp only [keyLe, bne_iff_ne, ne_eq] at h2
  unfold keyLt at *
  have h := vcmp_trans a b c (by simp [h1]) h2
  cases hc : Val.cmp a c with
  | lt => rfl
  | eq => have := (h.2 hc).1; rw [h1] at this; exact absurd this (by decide)
  | gt => exact absurd hc h.1

theorem keyLt_trans {a b c : Val} (h1 : keyLt a b) (h2 : keyLt b c) : keyLt a c :=
  keyLt_le_trans h1 (by simp [keyLe, show Val.cmp b c = .lt from h2])

theorem keyLt_gt {a b : Val} (h : Val.cmp a b = .gt) : keyLt b a := by
  unfold keyLt; rw [vcmp_swap a b, h]; rfl

theorem not_mem_of_lt_head {a b : Val} {bs : List Val} (h : keyLt a b)
    (hs : (b :: bs).Pairwise keyLt) : a ∉ b :: bs := by
  intro hm
  rcases List.mem_cons.1 hm with rfl | hm
  · exact keyLt_irrefl _ h
  · have := keyLt_trans h ((List.pairwise_cons.1 hs).1 a hm)
    exact keyLt_irrefl _ this

/-- the two-pointer loop on strictly sorted lists computes the two set differences -/
theorem mergeLoop_spec_aux (k : Val) : ∀ (n : Nat) (xs ys : List Val), xs.length + ys.length ≤ n →
    xs.Pairwise keyLt → ys.Pairwise keyLt →
    (k ∈ (mergeLoop xs ys).1 ↔ (k ∈ xs ∧ k ∉ ys)) ∧ (k ∈ (mergeLoop xs ys).2 ↔ (k ∈ ys ∧ k ∉ xs)) := by
  intro n
  induction n with
  | zero =>
    intro xs ys hn _ _
    have h1 : xs = [] := List.eq_nil_of_length_eq_zero (by omega)
    have h2 : ys = [] := List.eq_nil_of_length_eq_zero (by omega)
    subst h1 h2
    simp [mergeLoop]
  | succ n ih =>
    intro xs ys hn hx hy
    match xs, ys with
    | [], [] => simp [mergeLoop]
    | a :: as, [] =>
      have ih := ih as [] (by simp at hn ⊢; omega) (List.pairwise_cons.1 hx).2 hy
      rw [mergeLoop]
      simp only [mergeTailPreRemoves, if_true, List.mem_cons, List.not_mem_nil, not_false_eq_true, and_true,
        false_and, iff_false]
      refine ⟨?_, ?_⟩
      · rw [ih.1]; simp
      · rw [ih.2]; simp
    | [], b :: bs =>
      have ih := ih [] bs (by simp at hn ⊢; omega) hx (List.pairwise_cons.1 hy).2
      rw [mergeLoop]
      simp only [mergeTailPostAdds, if_true, List.mem_cons, List.not_mem_nil, not_false_eq_true, and_true,
        false_and, iff_false]
      refine ⟨?_, ?_⟩
      · rw [ih.1]; simp
      · rw [ih.2]; simp
    | a :: as, b :: bs =>
      rw [mergeLoop]
      cases hc : Val.cmp a b with
      | lt =>
        have hlt : keyLt a b := hc
        have ih := ih as (b :: bs) (by simp at hn ⊢; omega) (List.pairwise_cons.1 hx).2 hy
        have ha : a ∉ b :: bs := not_mem_of_lt_head hlt hy
        simp only [mergeArm, List.mem_cons]
        refine ⟨?_, ?_⟩
        · rw [ih.1]
          constructor
          · rintro (rfl | ⟨h1, h2⟩)
            · exact ⟨Or.inl rfl, by simpa using ha⟩
            · exact ⟨Or.inr h1, by simpa using h2⟩
          · rintro ⟨rfl | h1, h2⟩
            · exact Or.inl rfl
            · exact Or.inr ⟨h1, by simpa using h2⟩
        · rw [ih.2]
          constructor
          · rintro ⟨h1, h2⟩
            refine ⟨by simpa using h1, ?_⟩
            rintro (rfl | h3)
            · exact ha h1
            · exact h2 h3
          · rintro ⟨h1, h2⟩
            exact ⟨by simpa using h1, fun h3 => h2 (Or.inr h3)⟩
      | eq =>
        have heq : a = b := vcmp_eq hc
        subst heq
        have ih := ih as bs (by simp at hn ⊢; omega) (List.pairwise_cons.1 hx).2 (List.pairwise_cons.1 hy).2
        have ha1 : a ∉ as := fun hm => keyLt_irrefl _ ((List.pairwise_cons.1 hx).1 a hm)
        have ha2 : a ∉ bs := fun hm => keyLt_irrefl _ ((List.pairwise_cons.1 hy).1 a hm)
        simp only [mergeArm, List.mem_cons]
        refine ⟨?_, ?_⟩
        · rw [ih.1]
          constructor
          · rintro ⟨h1, h2⟩
            exact ⟨Or.inr h1, fun h => h.elim (fun e => ha1 (e ▸ h1)) h2⟩
          · rintro ⟨h1 | h1, h2⟩
            · exact absurd (Or.inl h1) h2
            · exact ⟨h1, fun h => h2 (Or.inr h)⟩
        · rw [ih.2]
          constructor
          · rintro ⟨h1, h2⟩
            exact ⟨Or.inr h1, fun h => h.elim (fun e => ha2 (e ▸ h1)) h2⟩
          · rintro ⟨h1 | h1, h2⟩
            · exact absurd (Or.inl h1) h2
            · exact ⟨h1, fun h => h2 (Or.inr h)⟩
      | gt =>
        have hlt : keyLt b a := keyLt_gt hc
        have ih := ih (a :: as) bs (by simp at hn ⊢; omega) hx (List.pairwise_cons.1 hy).2
        have hb : b ∉ a :: as := not_mem_of_lt_head hlt hx
        simp only [mergeArm, List.mem_cons]
        refine ⟨?_, ?_⟩
        · rw [ih.1]
          constructor
          · rintro ⟨h1, h2⟩
            refine ⟨by simpa using h1, ?_⟩
            rintro (rfl | h3)
            · exact hb h1
            · exact h2 h3
          · rintro ⟨h1, h2⟩
            exact ⟨by simpa using h1, fun h3 => h2 (Or.inr h3)⟩
        · rw [ih.2]
          constructor
          · rintro (rfl | ⟨h1, h2⟩)
            · exact ⟨Or.inl rfl, by simpa using hb⟩
            · exact ⟨Or.inr h1, by simpa using h2⟩
          · rintro ⟨rfl | h1, h2⟩
            · exact Or.inl rfl
            · exact Or.inr ⟨h1, by simpa using h2⟩

theorem mergeLoop_spec (xs ys : List Val) (hx : xs.Pairwise keyLt) (hy : ys.Pairwise keyLt) (k : Val) :
    (k ∈ (mergeLoop xs ys).1 ↔ (k ∈ xs ∧ k ∉ ys)) ∧ (k ∈ (mergeLoop xs ys).2 ↔ (k ∈ ys ∧ k ∉ xs)) :=
  mergeLoop_spec_aux k _ xs ys (Nat.le_refl _) hx hy

/-! ### key lists -/

theorem mem_sortKeys {k : Val} {l : List Val} : k ∈ sortKeys l ↔ k ∈ l := List.mem_mergeSort

theorem sortKeys_sorted (l : List Val) : (sortKeys l).Pairwise (fun a b => keyLe a b = true) :=
  List.pairwise_mergeSort keyLe_trans keyLe_total l

theorem sortKeys_strict {l : List Val} (h : l.Nodup) : (sortKeys l).Pairwise keyLt := by
  have hn : (sortKeys l).Nodup := ((List.mergeSort_perm l keyLe).nodup_iff).2 h
  exact ((sortKeys_sorted l).and hn).imp (fun ⟨h1, h2⟩ => keyLt_of_le_ne h1 h2)

theorem mem_dedupAdj (k : Val) : ∀ l : List Val, k ∈ dedupAdj l ↔ k ∈ l
  | [] => by simp [dedupAdj]
  | [a] => by simp [dedupAdj]
  | a :: b :: r => by
    simp only [dedupAdj]
    have ih := mem_dedupAdj k (b :: r)
    by_cases h : a = b
    · subst h
      simp only [if_true, ih, List.mem_cons]
      constructor
      · intro h; exact Or.inr h
      · rintro (h | h)
        · exact Or.inl h
        · exact h
    · simp only [h, if_false, List.mem_cons] at ih ⊢
      rw [ih]

theorem dedupAdj_strict : ∀ l : List Val, l.Pairwise (fun a b => keyLe a b = true) → (dedupAdj l).Pairwise keyLt
  | [], _ => by simp [dedupAdj]
  | [a], _ => by simp [dedupAdj]
  | a :: b :: r, h => by
    simp only [dedupAdj]
    have hr := (List.pairwise_cons.1 h).2
    have ih := dedupAdj_strict (b :: r) hr
    by_cases hab : a = b
    · simp [hab, ih]
    · simp only [hab, if_false]
      refine List.pairwise_cons.2 ⟨?_, ih⟩
      intro x hx
      have hx' : x ∈ b :: r := (mem_dedupAdj x (b :: r)).1 hx
      have hlt : keyLt a b := keyLt_of_le_ne ((List.pairwise_cons.1 h).1 b (by simp)) hab
      rcases List.mem_cons.1 hx' with rfl | hxr
      · exact hlt
      · exact keyLt_le_trans hlt ((List.pairwise_cons.1 hr).1 x hxr)

theorem keyLt_nodup {l : List Val} (h : l.Pairwise keyLt) : l.Nodup := by
  unfold List.Nodup
  refine h.imp ?_
  intro a b hlt heq
  subst heq
  exact keyLt_irrefl _ hlt

theorem mem_subKeys {k : Val} {vs : List Val} :
    k ∈ subKeys vs ↔ ∃ s, k = .str s ∧ ∃ x ∈ vs, s ∈ subKeysOf x := by
  simp only [subKeys, mem_dedupAdj, mem_sortKeys, List.mem_map, List.mem_flatMap]
  constructor
  · rintro ⟨s, ⟨x, hx, hs⟩, rfl⟩; exact ⟨s, rfl, x, hx, hs⟩
  · rintro ⟨s, rfl, x, hx, hs⟩; exact ⟨s, ⟨x, hx, hs⟩, rfl⟩

theorem subKeys_nodup (vs : List Val) : (subKeys vs).Nodup :=
  keyLt_nodup (dedupAdj_strict _ (sortKeys_sorted _))

/-- the keys a value set is indexed under in a table of type `it` — the per-entry predicate of C01's `idxOf` -/
def hasKeyL (vs : List Val) (it : IType) (k : Val) : Prop :=
  match it with
  | .equality => k ∈ vs
  | .presence => k = presKey ∧ vs ≠ []
  | .substring => ∃ s, k = .str s ∧ ∃ x ∈ vs, s ∈ subKeysOf x
  | .ordering => False

def hasKey (e : Entry) (a : Nat) (it : IType) (k : Val) : Prop := hasKeyL (e a) it k

def hasKeyO (oe : Option SEnt) (a : Nat) (it : IType) (k : Val) : Prop :=
  ∃ e, oe = some e ∧ hasKey e.attrs a it k

theorem hasKeyL_nil (it : IType) (k : Val) : ¬ hasKeyL [] it k := by
  cases it <;> simp [hasKeyL]

/-- the generator every "all keys of this value set" arm must use -/
def allSrc : IType → KeySrc
  | .equality => .eq
  | .presence => .underscore
  | .substring => .sub
  | .ordering => .ord

theorem mem_keysOf_all {vs : List Val} (hvs : vs ≠ []) (it : IType) (k : Val) :
    k ∈ keysOf (allSrc it) vs ↔ hasKeyL vs it k := by
  cases it <;> simp only [allSrc, keysOf, hasKeyL]
  · exact mem_subKeys
  · simp [hvs]
  · simp

theorem mem_signed {arm : Bool × KeySrc} {a : Nat} {it : IType} {vs : List Val} (x : Act)
    (harm : arm.2 = allSrc it) :
    x ∈ signed arm a it vs ↔ x.add = arm.1 ∧ x.a = a ∧ x.it = it ∧ hasKeyL vs it x.k := by
  unfold signed
  by_cases hvs : vs = []
  · subst hvs
    simp only [List.isEmpty_nil, if_true, List.not_mem_nil, false_iff]
    intro h; exact hasKeyL_nil _ _ h.2.2.2
  · have he : vs.isEmpty = false := by simpa using hvs
    simp only [he, Bool.false_eq_true, if_false, List.mem_map, harm]
    constructor
    · rintro ⟨k, hk, rfl⟩
      exact ⟨rfl, rfl, rfl, (mem_keysOf_all hvs it k).1 hk⟩
    · rintro ⟨h1, h2, h3, h4⟩
      refine ⟨x.k, (mem_keysOf_all hvs it x.k).2 h4, ?_⟩
      cases x; simp_all

/-- `generate_idx_eq_keys` returned no key twice (true of every set-backed value set) -/
def KeysNodup (e : SEnt) : Prop := ∀ a, (e.attrs a).Nodup

theorem bothKeys_strict {vs : List Val} (hn : vs.Nodup) (it : IType) :
    (sortKeys (keysOf (armBothSrc it) vs)).Pairwise keyLt := by
  apply sortKeys_strict
  cases it <;> simp only [armBothSrc, keysOf]
  · exact hn
  · exact subKeys_nodup vs
  · exact List.nodup_nil
  · exact List.nodup_nil

theorem mem_bothKeys {vs : List Val} (_hvs : vs ≠ []) (it : IType) (hit : it ≠ .presence) (k : Val) :
    k ∈ sortKeys (keysOf (armBothSrc it) vs) ↔ hasKeyL vs it k := by
  rw [mem_sortKeys]
  cases it <;> simp only [armBothSrc, keysOf, hasKeyL]
  · exact mem_subKeys
  · exact absurd rfl hit
  · simp

/-- what `idx_diff` emits for one index key: exactly the keys gained and the keys lost -/
theorem mem_diffKey (pre post : Option SEnt) (a : Nat) (it : IType) (x : Act)
    (hpre : ∀ e, pre = some e → KeysNodup e) (hpost : ∀ e, post = some e → KeysNodup e) :
    x ∈ diffKey pre post a it ↔
      x.a = a ∧ x.it = it ∧
        (if x.add then hasKeyO post a it x.k ∧ ¬ hasKeyO pre a it x.k
         else hasKeyO pre a it x.k ∧ ¬ hasKeyO post a it x.k) := by
  have hER : ∀ it, (armEntryRemoved it).2 = allSrc it ∧ (armEntryRemoved it).1 = false := by
    intro it; cases it <;> exact ⟨rfl, rfl⟩
  have hEA : ∀ it, (armEntryAdded it).2 = allSrc it ∧ (armEntryAdded it).1 = true := by
    intro it; cases it <;> exact ⟨rfl, rfl⟩
  have hAR : ∀ it, (armAttrRemoved it).2 = allSrc it ∧ (armAttrRemoved it).1 = false := by
    intro it; cases it <;> exact ⟨rfl, rfl⟩
  have hAA : ∀ it, (armAttrAdded it).2 = allSrc it ∧ (armAttrAdded it).1 = true := by
    intro it; cases it <;> exact ⟨rfl, rfl⟩
  unfold diffKey
  cases pre with
  | none =>
    cases post with
    | none => simp [hasKeyO]
    | some q =>
      simp only [mem_signed x (hEA it).1, (hEA it).2, hasKeyO, Option.some.injEq, exists_eq_left', hasKey]
      cases x.add <;> simp
  | some p =>
    cases post with
    | none =>
      simp only [mem_signed x (hER it).1, (hER it).2, hasKeyO, Option.some.injEq, exists_eq_left', hasKey]
      cases x.add <;> simp
    | some q =>
      simp only [hasKeyO, Option.some.injEq, exists_eq_left', hasKey]
      by_cases hp : p.attrs a = []
      · by_cases hq : q.attrs a = []
        · simp only [hp, hq, List.isEmpty_nil, if_true, List.not_mem_nil, false_iff]
          intro h
          cases hx : x.add <;> simp [hx, hasKeyL_nil] at h
        · have hqe : (q.attrs a).isEmpty = false := by simpa using hq
          simp only [hp, List.isEmpty_nil, if_true, hqe, Bool.false_eq_true, if_false,
            mem_signed x (hAA it).1, (hAA it).2]
          cases x.add <;> simp [hasKeyL_nil]
      · have hpe : (p.attrs a).isEmpty = false := by simpa using hp
        by_cases hq : q.attrs a = []
        · simp only [hpe, Bool.false_eq_true, if_false, hq, List.isEmpty_nil, if_true,
            mem_signed x (hAR it).1, (hAR it).2]
          cases x.add <;> simp [hasKeyL_nil]
        · have hqe : (q.attrs a).isEmpty = false := by simpa using hq
          simp only [hpe, hqe, Bool.false_eq_true, if_false]
          by_cases hit : it = .presence
          · subst hit
            simp only [armBothEmits, Bool.false_eq_true, if_false, List.not_mem_nil, false_iff, hasKeyL]
            intro h
            cases hx : x.add <;> simp [hx, hp, hq] at h
          · have hem : armBothEmits it = true := by cases it <;> simp_all [armBothEmits]
            have hsp := bothKeys_strict (hpre p rfl a) it
            have hsq := bothKeys_strict (hpost q rfl a) it
            have hm := mergeLoop_spec _ _ hsp hsq x.k
            rw [mem_bothKeys hp it hit, mem_bothKeys hq it hit] at hm
            simp only [hem, if_true, List.mem_append, List.mem_map]
            constructor
            · rintro (⟨k, hk, rfl⟩ | ⟨k, hk, rfl⟩)
              · have := (mergeLoop_spec _ _ hsp hsq k).1.1 hk
                rw [mem_bothKeys hp it hit, mem_bothKeys hq it hit] at this
                simpa using this
              · have := (mergeLoop_spec _ _ hsp hsq k).2.1 hk
                rw [mem_bothKeys hp it hit, mem_bothKeys hq it hit] at this
                simpa using this
            · rintro ⟨h1, h2, h3⟩
              cases hx : x.add with
              | false =>
                simp only [hx, Bool.false_eq_true, if_false] at h3
                exact Or.inl ⟨x.k, hm.1.2 h3, by cases x; simp_all⟩
              | true =>
                simp only [hx, if_true] at h3
                exact Or.inr ⟨x.k, hm.2.2 h3, by cases x; simp_all⟩

theorem mem_idxDiff (idxmeta : List (Nat × IType)) (pre post : Option SEnt) (x : Act)
    (hpre : ∀ e, pre = some e → KeysNodup e) (hpost : ∀ e, post = some e → KeysNodup e) :
    x ∈ idxDiff idxmeta pre post ↔
      (x.a, x.it) ∈ idxmeta ∧
        (if x.add then hasKeyO post x.a x.it x.k ∧ ¬ hasKeyO pre x.a x.it x.k
         else hasKeyO pre x.a x.it x.k ∧ ¬ hasKeyO post x.a x.it x.k) := by
  simp only [idxDiff, List.mem_flatMap, mem_diffKey pre post _ _ x hpre hpost]
  constructor
  · rintro ⟨⟨a, it⟩, hm, h1, h2, h3⟩
    simp only at h1 h2 h3
    subst h1 h2
    exact ⟨hm, h3⟩
  · rintro ⟨hm, h3⟩
    exact ⟨(x.a, x.it), hm, rfl, rfl, h3⟩

/-! ### what changes between two entry lists -/

/-- `ents'` is `ents` with the entry of id `i` changed from `pre` to `post` (`none` = no such entry) -/
structure Change (ents ents' : List SEnt) (i : Nat) (pre post : Option SEnt) : Prop where
  hpre : ∀ e, (e ∈ ents ∧ e.id = i) ↔ pre = some e
  hpost : ∀ e, (e ∈ ents' ∧ e.id = i) ↔ post = some e
  hother : ∀ e, e.id ≠ i → (e ∈ ents ↔ e ∈ ents')

/-- table `(a, it)` holds exactly the keys of the stored entries -/
def Mirror (ents : List SEnt) (t : Tables) (a : Nat) (it : IType) : Prop :=
  ∀ k id, memIdl t a it k id ↔ ∃ e ∈ ents, e.id = id ∧ hasKey e.attrs a it k

theorem memIdl_congr {t t' : Tables} (h : t'.idx = t.idx) (a : Nat) (it : IType) (k : Val) (id : Nat) :
    memIdl t' a it k id ↔ memIdl t a it k id := by
  simp [memIdl, getIdl, h]

theorem tblExists_congr {t t' : Tables} (h : t'.idx = t.idx) (a : Nat) (it : IType) :
    tblExists t' a it ↔ tblExists t a it := by
  simp [tblExists, h]

/-- applying the `idx_diff` of a change keeps a configured, existing table exact -/
theorem mirror_step {ents ents' : List SEnt} {i : Nat} {pre post : Option SEnt}
    (hc : Change ents ents' i pre post) (idxmeta : List (Nat × IType)) (t : Tables) (a : Nat) (it : IType)
    (hpre : ∀ e, pre = some e → KeysNodup e) (hpost : ∀ e, post = some e → KeysNodup e)
    (hmeta : (a, it) ∈ idxmeta) (hex : tblExists t a it) (hm : Mirror ents t a it) :
    Mirror ents' (applyActs i (idxDiff idxmeta pre post) t) a it := by
  intro k id
  by_cases hid : id = i
  · subst hid
    have hclash : ¬ ((⟨true, a, it, k⟩ : Act) ∈ idxDiff idxmeta pre post ∧
        (⟨false, a, it, k⟩ : Act) ∈ idxDiff idxmeta pre post) := by
      rw [mem_idxDiff _ _ _ _ hpre hpost, mem_idxDiff _ _ _ _ hpre hpost]
      simp only [if_true, Bool.false_eq_true, if_false]
      intro ⟨⟨_, h1, h2⟩, ⟨_, h3, _⟩⟩
      exact h2 h3
    rw [applyActs_mem_self id _ t a it k hclash hex, mem_idxDiff _ _ _ _ hpre hpost,
      mem_idxDiff _ _ _ _ hpre hpost, hm k id]
    simp only [if_true, Bool.false_eq_true, if_false, hmeta, true_and]
    have hP : (∃ e ∈ ents, e.id = id ∧ hasKey e.attrs a it k) ↔ hasKeyO pre a it k := by
      constructor
      · rintro ⟨e, he, hid, hk⟩; exact ⟨e, (hc.hpre e).1 ⟨he, hid⟩, hk⟩
      · rintro ⟨e, he, hk⟩; have := (hc.hpre e).2 he; exact ⟨e, this.1, this.2, hk⟩
    have hQ : (∃ e ∈ ents', e.id = id ∧ hasKey e.attrs a it k) ↔ hasKeyO post a it k := by
      constructor
      · rintro ⟨e, he, hid, hk⟩; exact ⟨e, (hc.hpost e).1 ⟨he, hid⟩, hk⟩
      · rintro ⟨e, he, hk⟩; have := (hc.hpost e).2 he; exact ⟨e, this.1, this.2, hk⟩
    rw [hP, hQ]
    by_cases h1 : hasKeyO post a it k <;> by_cases h2 : hasKeyO pre a it k <;> simp [h1, h2]
  · rw [applyActs_mem_other i _ t a it k id hid, hm k id]
    constructor
    · rintro ⟨e, he, hei, hk⟩; exact ⟨e, (hc.hother e (hei ▸ hid)).1 he, hei, hk⟩
    · rintro ⟨e, he, hei, hk⟩; exact ⟨e, (hc.hother e (hei ▸ hid)).2 he, hei, hk⟩

/-! ### the name tables: one generic keyed table -/

section KV
variable {κ ν : Type} [DecidableEq κ]

/-- the table holds exactly the pairs the entries that are neither recycled nor tombstones produce -/
def KVInv (kv : SEnt → List (κ × ν)) (ents : List SEnt) (m : List (κ × ν)) : Prop :=
  ∀ k v, aget m k = some v ↔ ∃ e ∈ ents, masked e = false ∧ (k, v) ∈ kv e

/-- no two such entries produce the same key, and one entry produces a key once -/
def KVUniq (kv : SEnt → List (κ × ν)) (ents : List SEnt) : Prop :=
  ∀ e1 ∈ ents, ∀ e2 ∈ ents, masked e1 = false → masked e2 = false →
    ∀ k v1 v2, (k, v1) ∈ kv e1 → (k, v2) ∈ kv e2 → e1.id = e2.id ∧ v1 = v2

def kvO (kv : SEnt → List (κ × ν)) (oe : Option SEnt) : List (κ × ν) :=
  match oe with
  | none => []
  | some e => kv e

theorem bind_mask_eq_some {oe : Option SEnt} {e : SEnt} :
    oe.bind mask = some e ↔ oe = some e ∧ masked e = false := by
  cases oe with
  | none => simp
  | some x =>
    simp only [Option.bind_some, mask, Option.some.injEq]
    by_cases h : masked x = true
    · simp only [h, if_true]
      constructor
      · intro h'; exact absurd h' (by simp)
      · rintro ⟨rfl, h2⟩; rw [h] at h2; exact absurd h2 (by simp)
    · have h' : masked x = false := by simpa using h
      simp only [h', Bool.false_eq_true, if_false, Option.some.injEq]
      constructor
      · rintro rfl; exact ⟨rfl, h'⟩
      · rintro ⟨rfl, _⟩; rfl

omit [DecidableEq κ] in
theorem mem_kvO_mask (kv : SEnt → List (κ × ν)) (oe : Option SEnt) (p : κ × ν) :
    p ∈ kvO kv (oe.bind mask) ↔ ∃ e, oe = some e ∧ masked e = false ∧ p ∈ kv e := by
  cases h : oe.bind mask with
  | none =>
    simp only [kvO, List.not_mem_nil, false_iff]
    rintro ⟨e, he, hm, _⟩
    have := (bind_mask_eq_some (oe := oe) (e := e)).2 ⟨he, hm⟩
    rw [h] at this; exact absurd this (by simp)
  | some x =>
    have hx := (bind_mask_eq_some (oe := oe) (e := x)).1 h
    simp only [kvO]
    constructor
    · intro hp; exact ⟨x, hx.1, hx.2, hp⟩
    · rintro ⟨e, he, _, hp⟩
      rw [hx.1] at he
      cases he
      exact hp

/-- a keyed table stays exact across a change if the new pairs are set, the keys only the old
entry produced are removed and everything else is untouched -/
theorem kv_step (kv : SEnt → List (κ × ν)) {ents ents' : List SEnt} {i : Nat} {pre post : Option SEnt}
    (hc : Change ents ents' i pre post) {m m' : List (κ × ν)}
    (hinv : KVInv kv ents m) (hu : KVUniq kv ents) (hu' : KVUniq kv ents')
    (S1 : ∀ k v, (k, v) ∈ kvO kv (post.bind mask) → aget m' k = some v)
    (S2 : ∀ k, (∃ v, (k, v) ∈ kvO kv (pre.bind mask)) → (¬ ∃ v, (k, v) ∈ kvO kv (post.bind mask)) →
      aget m' k = none)
    (S3 : ∀ k, (¬ ∃ v, (k, v) ∈ kvO kv (pre.bind mask)) → (¬ ∃ v, (k, v) ∈ kvO kv (post.bind mask)) →
      aget m' k = aget m k) :
    KVInv kv ents' m' := by
  intro k v
  have hsplit : ∀ (es : List SEnt) (oe : Option SEnt), (∀ e, (e ∈ es ∧ e.id = i) ↔ oe = some e) → ∀ v,
      ((∃ e ∈ es, masked e = false ∧ (k, v) ∈ kv e) ↔
        ((k, v) ∈ kvO kv (oe.bind mask) ∨ ∃ e ∈ es, e.id ≠ i ∧ masked e = false ∧ (k, v) ∈ kv e)) := by
    intro es oe hoe v
    rw [mem_kvO_mask]
    constructor
    · rintro ⟨e, he, hm, hp⟩
      by_cases hid : e.id = i
      · exact Or.inl ⟨e, (hoe e).1 ⟨he, hid⟩, hm, hp⟩
      · exact Or.inr ⟨e, he, hid, hm, hp⟩
    · rintro (⟨e, he, hm, hp⟩ | ⟨e, he, _, hm, hp⟩)
      · exact ⟨e, ((hoe e).2 he).1, hm, hp⟩
      · exact ⟨e, he, hm, hp⟩
  have hO : ∀ v, (∃ e ∈ ents', e.id ≠ i ∧ masked e = false ∧ (k, v) ∈ kv e) ↔
      (∃ e ∈ ents, e.id ≠ i ∧ masked e = false ∧ (k, v) ∈ kv e) := by
    intro v
    constructor
    · rintro ⟨e, he, hid, h⟩; exact ⟨e, (hc.hother e hid).2 he, hid, h⟩
    · rintro ⟨e, he, hid, h⟩; exact ⟨e, (hc.hother e hid).1 he, hid, h⟩
  rw [hsplit ents' post hc.hpost v]
  by_cases hq : ∃ v', (k, v') ∈ kvO kv (post.bind mask)
  · obtain ⟨v', hv'⟩ := hq
    rw [S1 k v' hv']
    obtain ⟨q, hq1, hq2, hq3⟩ := (mem_kvO_mask kv post (k, v')).1 hv'
    have hqin := (hc.hpost q).2 hq1
    constructor
    · intro h; cases h; exact Or.inl hv'
    · rintro (h | ⟨e, he, hid, hm, hp⟩)
      · obtain ⟨q', hq1', hq2', hq3'⟩ := (mem_kvO_mask kv post (k, v)).1 h
        rw [hq1] at hq1'; cases hq1'
        rw [(hu' q hqin.1 q hqin.1 hq2 hq2 k v' v hq3 hq3').2]
      · have := (hu' q hqin.1 e he hq2 hm k v' v hq3 hp).1
        exact absurd (this ▸ hqin.2 : e.id = i) hid
  · by_cases hp : ∃ v', (k, v') ∈ kvO kv (pre.bind mask)
    · rw [S2 k hp hq]
      obtain ⟨v', hv'⟩ := hp
      obtain ⟨p, hp1, hp2, hp3⟩ := (mem_kvO_mask kv pre (k, v')).1 hv'
      have hpin := (hc.hpre p).2 hp1
      simp only [reduceCtorEq, false_iff, not_or]
      refine ⟨fun h => hq ⟨v, h⟩, ?_⟩
      rw [hO v]
      rintro ⟨e, he, hid, hm, hpp⟩
      have := (hu p hpin.1 e he hp2 hm k v' v hp3 hpp).1
      exact hid (this ▸ hpin.2)
    · rw [S3 k hp hq, hinv k v, hsplit ents pre hc.hpre v, hO v]
      constructor
      · rintro (h | h)
        · exact absurd ⟨v, h⟩ hp
        · exact Or.inr h
      · rintro (h | h)
        · exact absurd ⟨v, h⟩ hq
        · exact Or.inr h

end KV

/-! ### the four name tables -/

def kvN2U (e : SEnt) : List (List Nat × Nat) := (cands e).map (fun n => (n, e.uuid))
def kvE2U (e : SEnt) : List (List Nat × Nat) := (extId e).toList.map (fun n => (n, e.uuid))
def kvU2S (e : SEnt) : List (Nat × NameV) := [(e.uuid, spnOf e)]
def kvU2R (e : SEnt) : List (Nat × NameV) := [(e.uuid, rdnOf e)]

theorem aget_writeN2uAdd (u : Nat) (names : List (List Nat)) (m : List (List Nat × Nat)) (k : List Nat) :
    aget (writeN2uAdd u names m) k = if k ∈ names then some u else aget m k := by
  unfold writeN2uAdd
  induction names generalizing m with
  | nil => simp
  | cons n ns ih =>
    simp only [List.foldl_cons, ih, aget_aset, List.mem_cons]
    by_cases h1 : k ∈ ns
    · simp [h1]
    · by_cases h2 : k = n
      · simp [h2]
      · simp [h1, h2]

theorem aget_writeN2uRem (names : List (List Nat)) (m : List (List Nat × Nat)) (k : List Nat) :
    aget (writeN2uRem names m) k = if k ∈ names then none else aget m k := by
  unfold writeN2uRem
  induction names generalizing m with
  | nil => simp
  | cons n ns ih =>
    simp only [List.foldl_cons, ih, aget_adel, List.mem_cons]
    by_cases h1 : k ∈ ns
    · simp [h1]
    · by_cases h2 : k = n
      · simp [h2]
      · simp [h1, h2]

def candsO (oe : Option SEnt) : List (List Nat) :=
  match oe with
  | none => []
  | some e => cands e

theorem mem_n2u_add (mp mq : Option SEnt) (k : List Nat) :
    k ∈ optList (n2uDiff mp mq).1 ↔ k ∈ candsO mq ∧ k ∉ candsO mp := by
  cases mp <;> cases mq <;> simp [n2uDiff, optList, candsO, listDiff]

theorem mem_n2u_rem (mp mq : Option SEnt) (k : List Nat) :
    k ∈ optList (n2uDiff mp mq).2 ↔ k ∈ candsO mp ∧ k ∉ candsO mq := by
  cases mp <;> cases mq <;> simp [n2uDiff, optList, candsO, listDiff]

theorem mem_kvO_n2u (oe : Option SEnt) (k : List Nat) (v : Nat) :
    (k, v) ∈ kvO kvN2U oe ↔ k ∈ candsO oe ∧ ∃ e, oe = some e ∧ v = e.uuid := by
  cases oe with
  | none => simp [kvO, candsO]
  | some e =>
    simp only [kvO, kvN2U, candsO, List.mem_map, Prod.mk.injEq, Option.some.injEq, exists_eq_left']
    constructor
    · rintro ⟨n, hn, rfl, rfl⟩; exact ⟨hn, rfl⟩
    · rintro ⟨hn, rfl⟩; exact ⟨k, hn, rfl, rfl⟩

/-- the hypotheses every name-table step shares -/
structure StepCtx (ents ents' : List SEnt) (i u : Nat) (pre post : Option SEnt) : Prop where
  hc : Change ents ents' i pre post
  hpu : ∀ p, pre = some p → p.uuid = u
  hqu : ∀ q, post = some q → q.uuid = u

theorem masked_mem {ents ents' : List SEnt} {i u : Nat} {pre post : Option SEnt}
    (cx : StepCtx ents ents' i u pre post) {p : SEnt} (h : pre.bind mask = some p) :
    p ∈ ents ∧ masked p = false ∧ p.uuid = u := by
  have := bind_mask_eq_some.1 h
  exact ⟨((cx.hc.hpre p).2 this.1).1, this.2, cx.hpu p this.1⟩

theorem n2u_step {ents ents' : List SEnt} {i u : Nat} {pre post : Option SEnt}
    (cx : StepCtx ents ents' i u pre post) (t : Tables)
    (hinv : KVInv kvN2U ents t.n2u) (hu : KVUniq kvN2U ents) (hu' : KVUniq kvN2U ents') :
    KVInv kvN2U ents' (nameIndex (pre.bind mask) (post.bind mask) u t).n2u := by
  have hget : ∀ k, aget (nameIndex (pre.bind mask) (post.bind mask) u t).n2u k =
      if k ∈ candsO (pre.bind mask) ∧ k ∉ candsO (post.bind mask) then none
      else if k ∈ candsO (post.bind mask) ∧ k ∉ candsO (pre.bind mask) then some u else aget t.n2u k := by
    intro k
    simp only [nameIndex, aget_writeN2uRem, aget_writeN2uAdd, mem_n2u_add, mem_n2u_rem]
  refine kv_step kvN2U cx.hc hinv hu hu' ?_ ?_ ?_
  · intro k v hkv
    obtain ⟨hk, q, hq, rfl⟩ := (mem_kvO_n2u _ k v).1 hkv
    have hqu : q.uuid = u := cx.hqu q (bind_mask_eq_some.1 hq).1
    rw [hget k, if_neg (fun h => h.2 hk)]
    by_cases hp : k ∈ candsO (pre.bind mask)
    · rw [if_neg (fun h => h.2 hp)]
      cases hmp : pre.bind mask with
      | none => rw [hmp] at hp; simp [candsO] at hp
      | some p =>
        obtain ⟨h1, h2, h3⟩ := masked_mem cx hmp
        rw [hmp] at hp
        refine (hinv k q.uuid).2 ⟨p, h1, h2, ?_⟩
        simp only [kvN2U, List.mem_map, Prod.mk.injEq]
        exact ⟨k, hp, rfl, by rw [h3, hqu]⟩
    · rw [if_pos ⟨hk, hp⟩, hqu]
  · intro k ⟨v, hv⟩ hq
    have hk := ((mem_kvO_n2u _ k v).1 hv).1
    have hnq : k ∉ candsO (post.bind mask) := by
      intro hk'
      cases hmq : post.bind mask with
      | none => rw [hmq] at hk'; simp [candsO] at hk'
      | some q => exact hq ⟨q.uuid, (mem_kvO_n2u _ k q.uuid).2 ⟨hk', q, hmq, rfl⟩⟩
    rw [hget k, if_pos ⟨hk, hnq⟩]
  · intro k hp hq
    have hnp : k ∉ candsO (pre.bind mask) := by
      intro hk'
      cases hmp : pre.bind mask with
      | none => rw [hmp] at hk'; simp [candsO] at hk'
      | some p => exact hp ⟨p.uuid, (mem_kvO_n2u _ k p.uuid).2 ⟨hk', p, hmp, rfl⟩⟩
    have hnq : k ∉ candsO (post.bind mask) := by
      intro hk'
      cases hmq : post.bind mask with
      | none => rw [hmq] at hk'; simp [candsO] at hk'
      | some q => exact hq ⟨q.uuid, (mem_kvO_n2u _ k q.uuid).2 ⟨hk', q, hmq, rfl⟩⟩
    rw [hget k, if_neg (fun h => hnp h.1), if_neg (fun h => hnq h.1)]

def extO (oe : Option SEnt) : Option (List Nat) := oe.bind extId

theorem mem_kvO_e2u (oe : Option SEnt) (k : List Nat) (v : Nat) :
    (k, v) ∈ kvO kvE2U oe ↔ extO oe = some k ∧ ∃ e, oe = some e ∧ v = e.uuid := by
  cases oe with
  | none => simp [kvO, extO]
  | some e =>
    simp only [kvO, kvE2U, extO, Option.bind_some, List.mem_map, Option.mem_toList, Prod.mk.injEq,
      Option.some.injEq, exists_eq_left']
    constructor
    · rintro ⟨n, hn, rfl, rfl⟩; exact ⟨hn, rfl⟩
    · rintro ⟨hn, rfl⟩; exact ⟨k, hn, rfl, rfl⟩

theorem aget_writeE2u (u : Nat) (add rem : Option (List Nat)) (m : List (List Nat × Nat)) (k : List Nat) :
    aget (writeE2u u add rem m) k =
      if rem = some k then none else if add = some k then some u else aget m k := by
  cases add <;> cases rem <;> simp only [writeE2u, aget_adel, aget_aset, Option.some.injEq, reduceCtorEq, if_false]
  · rename_i kr
    by_cases h : k = kr
    · simp [h]
    · have : ¬ kr = k := fun e => h e.symm
      simp [h, this]
  · rename_i ka
    by_cases h : k = ka
    · simp [h]
    · have : ¬ ka = k := fun e => h e.symm
      simp [h, this]
  · rename_i ka kr
    by_cases h : k = kr
    · simp [h]
    · have h' : ¬ kr = k := fun e => h e.symm
      by_cases h2 : k = ka
      · subst h2
        simp [h, h']
      · have h2' : ¬ ka = k := fun e => h2 e.symm
        simp [h, h', h2, h2']

theorem e2uDiff_eq (mp mq : Option SEnt) :
    e2uDiff mp mq = if extO mp = extO mq then (none, none) else (extO mq, extO mp) := by
  cases mp with
  | none =>
    cases mq with
    | none => simp [e2uDiff, extO]
    | some b =>
      simp only [e2uDiff, extO, Option.bind_none, Option.bind_some]
      by_cases h : extId b = none
      · simp [h]
      · have : ¬ none = extId b := fun e => h e.symm
        simp [this]
  | some a =>
    cases mq with
    | none =>
      simp only [e2uDiff, extO, Option.bind_none, Option.bind_some]
      by_cases h : extId a = none
      · simp [h]
      · simp [h]
    | some b =>
      simp only [e2uDiff, extO, Option.bind_some]
      by_cases h : extId a = extId b
      · simp [h]
      · simp [h]

theorem aget_e2u (mp mq : Option SEnt) (u : Nat) (t : Tables) (k : List Nat) :
    aget (nameIndex mp mq u t).e2u k =
      if extO mp = extO mq then aget t.e2u k
      else if extO mp = some k then none
      else if extO mq = some k then some u else aget t.e2u k := by
  simp only [nameIndex, aget_writeE2u, e2uDiff_eq]
  by_cases h : extO mp = extO mq
  · simp [h]
  · simp [h]

theorem e2u_step {ents ents' : List SEnt} {i u : Nat} {pre post : Option SEnt}
    (cx : StepCtx ents ents' i u pre post) (t : Tables)
    (hinv : KVInv kvE2U ents t.e2u) (hu : KVUniq kvE2U ents) (hu' : KVUniq kvE2U ents') :
    KVInv kvE2U ents' (nameIndex (pre.bind mask) (post.bind mask) u t).e2u := by
  refine kv_step kvE2U cx.hc hinv hu hu' ?_ ?_ ?_
  · intro k v hkv
    obtain ⟨hk, q, hq, rfl⟩ := (mem_kvO_e2u _ k v).1 hkv
    have hqu : q.uuid = u := cx.hqu q (bind_mask_eq_some.1 hq).1
    rw [aget_e2u]
    by_cases hxy : extO (pre.bind mask) = extO (post.bind mask)
    · rw [if_pos hxy]
      cases hmp : pre.bind mask with
      | none => rw [hmp, hk] at hxy; simp [extO] at hxy
      | some p =>
        obtain ⟨h1, h2, h3⟩ := masked_mem cx hmp
        refine (hinv k q.uuid).2 ⟨p, h1, h2, ?_⟩
        rw [hmp, hk] at hxy
        simp only [extO, Option.bind_some] at hxy
        simp only [kvE2U, List.mem_map, Option.mem_toList, Prod.mk.injEq]
        exact ⟨k, hxy, rfl, by rw [h3, hqu]⟩
    · rw [if_neg hxy, if_neg (fun h => hxy (h.trans hk.symm)), if_pos hk, hqu]
  · intro k ⟨v, hv⟩ hq
    have hk := ((mem_kvO_e2u _ k v).1 hv).1
    have hnq : extO (post.bind mask) ≠ some k := by
      intro hk'
      cases hmq : post.bind mask with
      | none => rw [hmq] at hk'; simp [extO] at hk'
      | some q => exact hq ⟨q.uuid, (mem_kvO_e2u _ k q.uuid).2 ⟨hk', q, hmq, rfl⟩⟩
    rw [aget_e2u, if_neg (fun h => hnq (h.symm.trans hk)), if_pos hk]
  · intro k hp hq
    have hnp : extO (pre.bind mask) ≠ some k := by
      intro hk'
      cases hmp : pre.bind mask with
      | none => rw [hmp] at hk'; simp [extO] at hk'
      | some p => exact hp ⟨p.uuid, (mem_kvO_e2u _ k p.uuid).2 ⟨hk', p, hmp, rfl⟩⟩
    have hnq : extO (post.bind mask) ≠ some k := by
      intro hk'
      cases hmq : post.bind mask with
      | none => rw [hmq] at hk'; simp [extO] at hk'
      | some q => exact hq ⟨q.uuid, (mem_kvO_e2u _ k q.uuid).2 ⟨hk', q, hmq, rfl⟩⟩
    rw [aget_e2u]
    simp only [hnp, hnq, if_false, ite_self]

/-- `uuid2spn` / `uuid2rdn` for a name function `f` -/
theorem u2_step (f : SEnt → NameV) {ents ents' : List SEnt} {i u : Nat} {pre post : Option SEnt}
    (cx : StepCtx ents ents' i u pre post) (m : List (Nat × NameV))
    (hinv : KVInv (fun e => [(e.uuid, f e)]) ents m) (hu : KVUniq (fun e => [(e.uuid, f e)]) ents)
    (hu' : KVUniq (fun e => [(e.uuid, f e)]) ents') :
    KVInv (fun e => [(e.uuid, f e)]) ents' (writeU2 u (u2Diff f (pre.bind mask) (post.bind mask)) m) := by
  refine kv_step _ cx.hc hinv hu hu' ?_ ?_ ?_
  · intro k v hkv
    cases hmq : post.bind mask with
    | none => rw [hmq] at hkv; simp [kvO] at hkv
    | some q =>
      rw [hmq] at hkv
      simp only [kvO, List.mem_singleton, Prod.mk.injEq] at hkv
      obtain ⟨rfl, rfl⟩ := hkv
      have hqu : q.uuid = u := cx.hqu q (bind_mask_eq_some.1 hmq).1
      cases hmp : pre.bind mask with
      | none => simp [u2Diff, writeU2, aget_aset, hqu]
      | some p =>
        obtain ⟨h1, h2, h3⟩ := masked_mem cx hmp
        simp only [u2Diff]
        by_cases hf : f p = f q
        · simp only [hf, ne_eq, not_true_eq_false, if_false, writeU2]
          refine (hinv q.uuid (f q)).2 ⟨p, h1, h2, ?_⟩
          simp [h3, hqu, hf]
        · simp [hf, writeU2, aget_aset, hqu]
  · intro k ⟨v, hv⟩ hq
    cases hmp : pre.bind mask with
    | none => rw [hmp] at hv; simp [kvO] at hv
    | some p =>
      rw [hmp] at hv
      simp only [kvO, List.mem_singleton, Prod.mk.injEq] at hv
      obtain ⟨rfl, rfl⟩ := hv
      obtain ⟨_, _, h3⟩ := masked_mem cx hmp
      cases hmq : post.bind mask with
      | none => simp only [u2Diff, writeU2, aget_adel, h3, if_true]
      | some q =>
        exfalso
        apply hq
        have hqu : q.uuid = u := cx.hqu q (bind_mask_eq_some.1 hmq).1
        exact ⟨f q, by rw [hmq]; simp [kvO, h3, hqu]⟩
  · intro k hp hq
    have hku : (pre.bind mask).isSome ∨ (post.bind mask).isSome → k ≠ u := by
      rintro (h | h) rfl
      · obtain ⟨p, hmp⟩ := Option.isSome_iff_exists.1 h
        obtain ⟨_, _, h3⟩ := masked_mem cx hmp
        exact hp ⟨f p, by simp [hmp, kvO, h3]⟩
      · obtain ⟨q, hmq⟩ := Option.isSome_iff_exists.1 h
        have hqu : q.uuid = k := cx.hqu q (bind_mask_eq_some.1 hmq).1
        exact hq ⟨f q, by simp [hmq, kvO, hqu]⟩
    cases hmp : pre.bind mask with
    | none =>
      cases hmq : post.bind mask with
      | none => simp [u2Diff, writeU2]
      | some q =>
        have := hku (Or.inr (by simp [hmq]))
        simp [u2Diff, writeU2, aget_aset, this]
    | some p =>
      have hk := hku (Or.inl (by simp [hmp]))
      cases hmq : post.bind mask with
      | none => simp [u2Diff, writeU2, aget_adel, hk]
      | some q =>
        simp only [u2Diff]
        split
        · simp [writeU2, aget_aset, hk]
        · simp [writeU2]

/-! ### `entry_index` keeps every table exact -/

/-- all four name tables are exact -/
structure NInv (ents : List SEnt) (t : Tables) : Prop where
  n2u : KVInv kvN2U ents t.n2u
  e2u : KVInv kvE2U ents t.e2u
  u2s : KVInv kvU2S ents t.u2s
  u2r : KVInv kvU2R ents t.u2r

/-- what the layers above the backend guarantee about the entries that are neither recycled nor
tombstones: distinct uuids, pairwise disjoint name candidates, distinct external ids -/
structure NUniq (ents : List SEnt) : Prop where
  uuids : ∀ e1 ∈ ents, ∀ e2 ∈ ents, masked e1 = false → masked e2 = false → e1.uuid = e2.uuid → e1.id = e2.id
  names : ∀ e1 ∈ ents, ∀ e2 ∈ ents, masked e1 = false → masked e2 = false →
    ∀ n, n ∈ cands e1 → n ∈ cands e2 → e1.id = e2.id ∧ e1.uuid = e2.uuid
  ext : ∀ e1 ∈ ents, ∀ e2 ∈ ents, masked e1 = false → masked e2 = false →
    ∀ n, extId e1 = some n → extId e2 = some n → e1.id = e2.id ∧ e1.uuid = e2.uuid
  same : ∀ e1 ∈ ents, ∀ e2 ∈ ents, e1.id = e2.id → e1 = e2

theorem NUniq.subset {es es' : List SEnt} (h : ∀ e ∈ es', e ∈ es) (hu : NUniq es) : NUniq es' :=
  ⟨fun e1 h1 e2 h2 => hu.uuids e1 (h e1 h1) e2 (h e2 h2),
   fun e1 h1 e2 h2 => hu.names e1 (h e1 h1) e2 (h e2 h2),
   fun e1 h1 e2 h2 => hu.ext e1 (h e1 h1) e2 (h e2 h2),
   fun e1 h1 e2 h2 => hu.same e1 (h e1 h1) e2 (h e2 h2)⟩

theorem NUniq.kvN2U {ents : List SEnt} (hu : NUniq ents) : KVUniq kvN2U ents := by
  intro e1 h1 e2 h2 m1 m2 k v1 v2 hv1 hv2
  simp only [Index.kvN2U, List.mem_map, Prod.mk.injEq] at hv1 hv2
  obtain ⟨n1, hn1, hk1, hv1⟩ := hv1
  obtain ⟨n2, hn2, hk2, hv2⟩ := hv2
  subst hk1 hv1 hv2 hk2
  exact hu.names e1 h1 e2 h2 m1 m2 n2 hn1 hn2

theorem NUniq.kvE2U {ents : List SEnt} (hu : NUniq ents) : KVUniq kvE2U ents := by
  intro e1 h1 e2 h2 m1 m2 k v1 v2 hv1 hv2
  simp only [Index.kvE2U, List.mem_map, Option.mem_toList, Prod.mk.injEq] at hv1 hv2
  obtain ⟨n1, hn1, hk1, hv1⟩ := hv1
  obtain ⟨n2, hn2, hk2, hv2⟩ := hv2
  subst hk1 hv1 hv2 hk2
  exact hu.ext e1 h1 e2 h2 m1 m2 n2 hn1 hn2

theorem NUniq.kvU2 {ents : List SEnt} (hu : NUniq ents) (f : SEnt → NameV) :
    KVUniq (fun e => [(e.uuid, f e)]) ents := by
  intro e1 h1 e2 h2 m1 m2 k v1 v2 hv1 hv2
  simp only [List.mem_singleton, Prod.mk.injEq] at hv1 hv2
  obtain ⟨rfl, rfl⟩ := hv1
  obtain ⟨hk, rfl⟩ := hv2
  have hid := hu.uuids e1 h1 e2 h2 m1 m2 hk
  have := hu.same e1 h1 e2 h2 hid
  exact ⟨hid, by rw [this]⟩

theorem nameIndex_inv {ents ents' : List SEnt} {i u : Nat} {pre post : Option SEnt}
    (cx : StepCtx ents ents' i u pre post) (t : Tables) (hinv : NInv ents t)
    (hu : NUniq ents) (hu' : NUniq ents') :
    NInv ents' (nameIndex (pre.bind mask) (post.bind mask) u t) :=
  ⟨n2u_step cx t hinv.n2u hu.kvN2U hu'.kvN2U,
   e2u_step cx t hinv.e2u hu.kvE2U hu'.kvE2U,
   u2_step spnOf cx t.u2s hinv.u2s (hu.kvU2 spnOf) (hu'.kvU2 spnOf),
   u2_step rdnOf cx t.u2r hinv.u2r (hu.kvU2 rdnOf) (hu'.kvU2 rdnOf)⟩

theorem applyAct_names (id : Nat) (t : Tables) (act : Act) :
    (applyAct id t act).n2u = t.n2u ∧ (applyAct id t act).e2u = t.e2u ∧
    (applyAct id t act).u2s = t.u2s ∧ (applyAct id t act).u2r = t.u2r := by
  unfold applyAct
  split
  · unfold writeIdl
    split <;> simp
  · simp

theorem applyActs_names (id : Nat) (acts : List Act) (t : Tables) :
    (applyActs id acts t).n2u = t.n2u ∧ (applyActs id acts t).e2u = t.e2u ∧
    (applyActs id acts t).u2s = t.u2s ∧ (applyActs id acts t).u2r = t.u2r := by
  induction acts generalizing t with
  | nil => simp [applyActs]
  | cons x xs ih =>
    rw [applyActs_cons]
    obtain ⟨h1, h2, h3, h4⟩ := ih (applyAct id t x)
    obtain ⟨g1, g2, g3, g4⟩ := applyAct_names id t x
    exact ⟨h1.trans g1, h2.trans g2, h3.trans g3, h4.trans g4⟩

theorem NInv.congr {ents : List SEnt} {t t' : Tables} (h : NInv ents t)
    (h1 : t'.n2u = t.n2u) (h2 : t'.e2u = t.e2u) (h3 : t'.u2s = t.u2s) (h4 : t'.u2r = t.u2r) : NInv ents t' :=
  ⟨h1 ▸ h.n2u, h2 ▸ h.e2u, h3 ▸ h.u2s, h4 ▸ h.u2r⟩

/-- the table part of the invariant: every existing index table that is not stale is configured
and exact; the four name tables are exact -/
structure TInv (stale : Nat → IType → Prop) (idxmeta : List (Nat × IType)) (ents : List SEnt) (t : Tables) :
    Prop where
  idx : ∀ a it, tblExists t a it → ¬ stale a it → (a, it) ∈ idxmeta ∧ Mirror ents t a it
  names : NInv ents t

theorem nameIndex_idx (mp mq : Option SEnt) (u : Nat) (t : Tables) : (nameIndex mp mq u t).idx = t.idx := rfl

theorem retract_eq (p : SEnt) (t : Tables) : retract p t = nameIndex (some p) none p.uuid t := by
  simp [retract, nameIndex, writeN2uAdd, optList, n2uDiff, e2uDiff]

theorem mask_some_of_unmasked {p : SEnt} (h : masked p = false) : (some p).bind mask = some p := by
  simp [mask, h]

/-- `entry_index` for a change of one entry keeps every table exact -/
theorem entryIndex_inv {ents ents' : List SEnt} {i : Nat} {pre post : Option SEnt}
    (hc : Change ents ents' i pre post) {stale : Nat → IType → Prop} {idxmeta : List (Nat × IType)}
    {t t' : Tables} (hinv : TInv stale idxmeta ents t) (hu : NUniq ents) (hu' : NUniq ents')
    (hkp : ∀ e, pre = some e → KeysNodup e) (hkq : ∀ e, post = some e → KeysNodup e)
    (hrun : entryIndex idxmeta pre post t = some t') : TInv stale idxmeta ents' t' := by
  -- the ids
  have hpid : ∀ p, pre = some p → p.id = i := fun p h => ((hc.hpre p).2 h).2
  have hqid : ∀ q, post = some q → q.id = i := fun q h => ((hc.hpost q).2 h).2
  -- the index tables, given the intermediate table state `t1` (same index tables as `t`)
  have hidx : ∀ t1 : Tables, t1.idx = t.idx →
      ∀ a it, tblExists (applyActs i (idxDiff idxmeta pre post) t1) a it → ¬ stale a it →
        (a, it) ∈ idxmeta ∧ Mirror ents' (applyActs i (idxDiff idxmeta pre post) t1) a it := by
    intro t1 h1 a it hex hst
    have hex1 : tblExists t1 a it := (applyActs_exists _ _ _ _ _).1 hex
    have hex0 : tblExists t a it := (tblExists_congr h1 a it).1 hex1
    obtain ⟨hm, hmir⟩ := hinv.idx a it hex0 hst
    have hmir1 : Mirror ents t1 a it := fun k id => (memIdl_congr h1 a it k id).trans (hmir k id)
    exact ⟨hm, mirror_step hc idxmeta t1 a it hkp hkq hm hex1 hmir1⟩
  unfold entryIndex at hrun
  cases hh : indexHeader pre post with
  | none => rw [hh] at hrun; exact absurd hrun (by simp)
  | some hdr =>
    obtain ⟨u, id, same⟩ := hdr
    rw [hh] at hrun
    simp only at hrun
    -- the header
    have hid : id = i ∧ (∀ q, post = some q → q.uuid = u) ∧ (post = none → ∀ p, pre = some p → p.uuid = u) ∧
        (same = true → ∀ p, pre = some p → p.uuid = u) ∧
        (same = false → ∃ p q, pre = some p ∧ post = some q ∧ p.uuid ≠ q.uuid) := by
      cases pre with
      | none =>
        cases post with
        | none => simp [indexHeader] at hh
        | some q =>
          simp only [indexHeader, Option.some.injEq, Prod.mk.injEq] at hh
          obtain ⟨rfl, rfl, rfl⟩ := hh
          exact ⟨hqid q rfl, by simp, by simp, by simp, by simp⟩
      | some p =>
        cases post with
        | none =>
          simp only [indexHeader, Option.some.injEq, Prod.mk.injEq] at hh
          obtain ⟨rfl, rfl, rfl⟩ := hh
          exact ⟨hpid p rfl, by simp, by simp, by simp, by simp⟩
        | some q =>
          simp only [indexHeader] at hh
          split at hh
          · simp only [Option.some.injEq, Prod.mk.injEq] at hh
            obtain ⟨rfl, rfl, rfl⟩ := hh
            refine ⟨hqid q rfl, by simp, by simp, ?_, ?_⟩
            · intro hs p' hp'
              simp only [Option.some.injEq] at hp'
              subst hp'
              simpa using hs
            · intro hs
              exact ⟨p, q, rfl, rfl, by simpa using hs⟩
          · exact absurd hh (by simp)
    obtain ⟨rfl, hqu, hpu0, hsame, hdiff⟩ := hid
    cases hs : same with
    | true =>
      rw [hs] at hrun
      simp only [if_true, Option.some.injEq] at hrun
      subst hrun
      have cx : StepCtx ents ents' id u pre post := ⟨hc, hsame hs, hqu⟩
      have hn := nameIndex_inv cx t hinv.names hu hu'
      obtain ⟨g1, g2, g3, g4⟩ := applyActs_names id (idxDiff idxmeta pre post) (nameIndex (pre.bind mask) (post.bind mask) u t)
      exact ⟨hidx _ (nameIndex_idx _ _ _ _), hn.congr g1 g2 g3 g4⟩
    | false =>
      rw [hs] at hrun
      obtain ⟨p, q, rfl, rfl, hne⟩ := hdiff hs
      simp only [Bool.false_eq_true, if_false] at hrun
      cases hmp : (some p).bind mask with
      | none => rw [hmp] at hrun; exact absurd hrun (by simp)
      | some p' =>
        rw [hmp] at hrun
        simp only [Option.some.injEq] at hrun
        subst hrun
        have hp' := bind_mask_eq_some.1 hmp
        simp only [Option.some.injEq] at hp'
        obtain ⟨rfl, hpm⟩ := hp'
        -- first the old entry is retracted: an intermediate entry list without it
        let mid := ents.filter (fun e => !decide (e.id = id))
        have hc1 : Change ents mid id (some p) none := by
          refine ⟨hc.hpre, ?_, ?_⟩
          · intro e; simp [mid]
          · intro e he; simp [mid, he]
        have hc2 : Change mid ents' id none (some q) := by
          refine ⟨?_, hc.hpost, ?_⟩
          · intro e; simp [mid]
          · intro e he
            simp only [mid, List.mem_filter, he, decide_false, Bool.not_false, and_true]
            exact hc.hother e he
        have humid : NUniq mid := hu.subset (fun e he => (List.mem_filter.1 he).1)
        have cx1 : StepCtx ents mid id p.uuid (some p) none := ⟨hc1, by simp, by simp⟩
        have cx2 : StepCtx mid ents' id u none (some q) := ⟨hc2, by simp, hqu⟩
        have hn1 := nameIndex_inv cx1 t hinv.names hu humid
        rw [mask_some_of_unmasked hpm] at hn1
        have hn2 := nameIndex_inv cx2 (nameIndex (some p) none p.uuid t) hn1 humid hu'
        simp only [Option.bind_none] at hn1 hn2
        rw [retract_eq]
        obtain ⟨g1, g2, g3, g4⟩ := applyActs_names id (idxDiff idxmeta (some p) (some q))
          (nameIndex none ((some q).bind mask) u (nameIndex (some p) none p.uuid t))
        exact ⟨hidx _ rfl, hn2.congr g1 g2 g3 g4⟩

/-! ### lists of entries -/

theorem KVInv.congr_ents {κ ν : Type} [DecidableEq κ] {kv : SEnt → List (κ × ν)} {ents ents' : List SEnt}
    {m : List (κ × ν)} (h : ∀ e, e ∈ ents ↔ e ∈ ents') (hi : KVInv kv ents m) : KVInv kv ents' m := by
  intro k v
  rw [hi k v]
  constructor
  · rintro ⟨e, he, r⟩; exact ⟨e, (h e).1 he, r⟩
  · rintro ⟨e, he, r⟩; exact ⟨e, (h e).2 he, r⟩

theorem TInv.congr_ents {stale : Nat → IType → Prop} {idxmeta : List (Nat × IType)} {ents ents' : List SEnt}
    {t : Tables} (h : ∀ e, e ∈ ents ↔ e ∈ ents') (hi : TInv stale idxmeta ents t) :
    TInv stale idxmeta ents' t := by
  refine ⟨?_, ⟨hi.names.n2u.congr_ents h, hi.names.e2u.congr_ents h, hi.names.u2s.congr_ents h,
    hi.names.u2r.congr_ents h⟩⟩
  intro a it hex hst
  obtain ⟨hm, hmir⟩ := hi.idx a it hex hst
  refine ⟨hm, fun k id => (hmir k id).trans ?_⟩
  constructor
  · rintro ⟨e, he, r⟩; exact ⟨e, (h e).1 he, r⟩
  · rintro ⟨e, he, r⟩; exact ⟨e, (h e).2 he, r⟩

theorem change_add {ents : List SEnt} {e : SEnt} (hfresh : ∀ x ∈ ents, x.id ≠ e.id) :
    Change ents (ents ++ [e]) e.id none (some e) := by
  refine ⟨?_, ?_, ?_⟩
  · intro x
    simp only [reduceCtorEq, iff_false, not_and]
    exact fun hx => hfresh x hx
  · intro x
    simp only [List.mem_append, List.mem_singleton, Option.some.injEq]
    constructor
    · rintro ⟨hx | hx, hid⟩
      · exact absurd hid (hfresh x hx)
      · exact hx.symm
    · rintro rfl; exact ⟨Or.inr rfl, rfl⟩
  · intro x hx
    simp only [List.mem_append, List.mem_singleton]
    constructor
    · intro h; exact Or.inl h
    · rintro (h | rfl)
      · exact h
      · exact absurd rfl hx

theorem same_of_nodup_ids : ∀ {ents : List SEnt}, (ents.map (·.id)).Nodup →
    ∀ e1 ∈ ents, ∀ e2 ∈ ents, e1.id = e2.id → e1 = e2
  | [], _, e1, h1, _, _, _ => by simp at h1
  | x :: xs, h, e1, h1, e2, h2, hid => by
    simp only [List.map_cons, List.nodup_cons, List.mem_map, not_exists, not_and] at h
    rcases List.mem_cons.1 h1 with rfl | h1'
    · rcases List.mem_cons.1 h2 with rfl | h2'
      · rfl
      · exact absurd hid.symm (h.1 e2 h2')
    · rcases List.mem_cons.1 h2 with rfl | h2'
      · exact absurd hid (h.1 e1 h1')
      · exact same_of_nodup_ids h.2 e1 h1' e2 h2' hid

/-- `for e in c_entries { entry_index(None, Some(e)) }` keeps the tables exact for the growing entry list -/
theorem indexAll_inv {stale : Nat → IType → Prop} {idxmeta : List (Nat × IType)} :
    ∀ (c ents : List SEnt) (t t' : Tables), TInv stale idxmeta ents t → NUniq (ents ++ c) →
      ((ents ++ c).map (·.id)).Nodup →
      (∀ e ∈ c, KeysNodup e) → indexAll idxmeta c t = some t' → TInv stale idxmeta (ents ++ c) t'
  | [], ents, t, t', hinv, _, _, _, hrun => by
    simp only [indexAll, Option.some.injEq] at hrun
    subst hrun
    simpa using hinv
  | e :: es, ents, t, t', hinv, hu, hids, hk, hrun => by
    simp only [indexAll] at hrun
    cases h1 : entryIndex idxmeta none (some e) t with
    | none => rw [h1] at hrun; exact absurd hrun (by simp)
    | some t1 =>
      rw [h1] at hrun
      simp only at hrun
      have hfresh : ∀ x ∈ ents, x.id ≠ e.id := by
        intro x hx hid
        simp only [List.map_append, List.map_cons] at hids
        have hd := (List.nodup_append.1 hids).2.2
        exact hd x.id (List.mem_map.2 ⟨x, hx, rfl⟩) e.id (by simp) hid
      have hsub : ∀ x ∈ ents ++ [e], x ∈ ents ++ e :: es := by
        intro x hx
        simp only [List.mem_append, List.mem_singleton, List.mem_cons] at hx ⊢
        rcases hx with h | h
        · exact Or.inl h
        · exact Or.inr (Or.inl (by simpa using h))
      have hu0 : NUniq ents := hu.subset (fun x hx => by simp [hx])
      have hu1 : NUniq (ents ++ [e]) := hu.subset hsub
      have hinv1 : TInv stale idxmeta (ents ++ [e]) t1 :=
        entryIndex_inv (change_add hfresh) hinv hu0 hu1 (by simp)
          (by intro x hx; simp only [Option.some.injEq] at hx; subst hx; exact hk e (by simp)) h1
      have := indexAll_inv es (ents ++ [e]) t1 t' hinv1 (by simpa using hu) (by simpa using hids)
        (fun x hx => hk x (by simp [hx])) hrun
      simpa using this

theorem indexAll_isSome (idxmeta : List (Nat × IType)) : ∀ (c : List SEnt) (t : Tables),
    (indexAll idxmeta c t).isSome = true
  | [], t => by simp [indexAll]
  | e :: es, t => by
    simp only [indexAll, entryIndex, indexHeader, if_true]
    exact indexAll_isSome idxmeta es _

/-- `write_identries` of one entry that replaces a stored one -/
theorem mem_putEnt_replace {ents : List SEnt} {pre post : SEnt} (hpre : pre ∈ ents) (hid : post.id = pre.id)
    (x : SEnt) : x ∈ putEnt ents post ↔ (x = post ∨ (x ∈ ents ∧ x.id ≠ pre.id)) := by
  have hany : ents.any (fun y => decide (y.id = post.id)) = true := by
    simp only [List.any_eq_true, decide_eq_true_eq]
    exact ⟨pre, hpre, hid.symm⟩
  simp only [putEnt, hany, if_true, List.mem_map]
  constructor
  · rintro ⟨y, hy, rfl⟩
    by_cases h : y.id = post.id
    · simp [h]
    · simp only [h, if_false]
      exact Or.inr ⟨hy, fun e => h (e.trans hid.symm)⟩
  · rintro (rfl | ⟨hx, hne⟩)
    · exact ⟨pre, hpre, by simp [hid]⟩
    · have : ¬ x.id = post.id := fun e => hne (e.trans hid)
      exact ⟨x, hx, by simp [this]⟩

theorem putEnt_ids {ents : List SEnt} {pre post : SEnt} (hpre : pre ∈ ents) (hid : post.id = pre.id) :
    (putEnt ents post).map (·.id) = ents.map (·.id) := by
  have hany : ents.any (fun y => decide (y.id = post.id)) = true := by
    simp only [List.any_eq_true, decide_eq_true_eq]
    exact ⟨pre, hpre, hid.symm⟩
  simp only [putEnt, hany, if_true, List.map_map]
  apply List.map_congr_left
  intro y _
  by_cases h : y.id = post.id
  · simp [h]
  · simp [h]

theorem change_replace {ents : List SEnt} {pre post : SEnt} (hids : (ents.map (·.id)).Nodup)
    (hpre : pre ∈ ents) (hid : post.id = pre.id) :
    Change ents (putEnt ents post) pre.id (some pre) (some post) := by
  refine ⟨?_, ?_, ?_⟩
  · intro x
    simp only [Option.some.injEq]
    constructor
    · rintro ⟨hx, hxi⟩; exact (same_of_nodup_ids hids x hx pre hpre hxi).symm
    · rintro rfl; exact ⟨hpre, rfl⟩
  · intro x
    rw [mem_putEnt_replace hpre hid]
    simp only [Option.some.injEq]
    constructor
    · rintro ⟨rfl | ⟨_, hne⟩, hxi⟩
      · rfl
      · exact absurd hxi hne
    · rintro rfl; exact ⟨Or.inl rfl, hid⟩
  · intro x hx
    rw [mem_putEnt_replace hpre hid]
    constructor
    · intro h; exact Or.inr ⟨h, hx⟩
    · rintro (rfl | ⟨h, _⟩)
      · exact absurd hid hx
      · exact h

/-- every prefix of a modify batch leaves a well-formed entry list: `pre` is the stored entry, `post`
keeps its id, and the entry list after this pair respects the uniqueness the upper layers guarantee -/
def BatchOK : List SEnt → List (SEnt × SEnt) → Prop
  | _, [] => True
  | ents, (pre, post) :: ps =>
    pre ∈ ents ∧ post.id = pre.id ∧ KeysNodup pre ∧ KeysNodup post ∧
      NUniq (putEnt ents post) ∧ BatchOK (putEnt ents post) ps

theorem indexPairs_inv {stale : Nat → IType → Prop} {idxmeta : List (Nat × IType)} :
    ∀ (ps : List (SEnt × SEnt)) (ents : List SEnt) (t t' : Tables), TInv stale idxmeta ents t → NUniq ents →
      (ents.map (·.id)).Nodup → BatchOK ents ps → indexPairs idxmeta ps t = some t' →
      TInv stale idxmeta (ps.foldl (fun acc p => putEnt acc p.2) ents) t' ∧
        ((ps.foldl (fun acc p => putEnt acc p.2) ents).map (·.id)) = ents.map (·.id)
  | [], ents, t, t', hinv, _, _, _, hrun => by
    simp only [indexPairs, Option.some.injEq] at hrun
    subst hrun
    exact ⟨hinv, rfl⟩
  | (pre, post) :: ps, ents, t, t', hinv, hu, hids, hok, hrun => by
    obtain ⟨hpre, hid, hkp, hkq, hu1, hok'⟩ := hok
    simp only [indexPairs] at hrun
    cases h1 : entryIndex idxmeta (some pre) (some post) t with
    | none => rw [h1] at hrun; exact absurd hrun (by simp)
    | some t1 =>
      rw [h1] at hrun
      simp only at hrun
      have hinv1 : TInv stale idxmeta (putEnt ents post) t1 :=
        entryIndex_inv (change_replace hids hpre hid) hinv hu hu1
          (by intro x hx; simp only [Option.some.injEq] at hx; subst hx; exact hkp)
          (by intro x hx; simp only [Option.some.injEq] at hx; subst hx; exact hkq) h1
      have hids1 : ((putEnt ents post).map (·.id)).Nodup := by rw [putEnt_ids hpre hid]; exact hids
      obtain ⟨r1, r2⟩ := indexPairs_inv ps (putEnt ents post) t1 t' hinv1 hu1 hids1 hok' hrun
      simp only [List.foldl_cons]
      exact ⟨r1, r2.trans (putEnt_ids hpre hid)⟩

theorem change_remove {ents : List SEnt} {e : SEnt} (hids : (ents.map (·.id)).Nodup) (he : e ∈ ents) :
    Change ents (ents.filter (fun x => !decide (x.id = e.id))) e.id (some e) none := by
  refine ⟨?_, ?_, ?_⟩
  · intro x
    simp only [Option.some.injEq]
    constructor
    · rintro ⟨hx, hxi⟩; exact (same_of_nodup_ids hids x hx e he hxi).symm
    · rintro rfl; exact ⟨he, rfl⟩
  · intro x; simp
  · intro x hx; simp [hx]

theorem filter_ids_nodup {ents : List SEnt} (p : SEnt → Bool) (hids : (ents.map (·.id)).Nodup) :
    ((ents.filter p).map (·.id)).Nodup :=
  List.Nodup.sublist (List.Sublist.map _ List.filter_sublist) hids

/-- `tombstones.iter().try_for_each(|e| entry_index(Some(e), None))` -/
theorem unindexAll_inv {stale : Nat → IType → Prop} {idxmeta : List (Nat × IType)} :
    ∀ (dead ents : List SEnt) (t t' : Tables), TInv stale idxmeta ents t → NUniq ents →
      (ents.map (·.id)).Nodup → (∀ e ∈ dead, e ∈ ents) → (∀ e ∈ dead, KeysNodup e) → (dead.map (·.id)).Nodup →
      unindexAll idxmeta dead t = some t' →
      TInv stale idxmeta (ents.filter (fun x => !(dead.map (·.id)).contains x.id)) t'
  | [], ents, t, t', hinv, _, _, _, _, _, hrun => by
    simp only [unindexAll, Option.some.injEq] at hrun
    subst hrun
    refine hinv.congr_ents ?_
    intro x; simp
  | e :: es, ents, t, t', hinv, hu, hids, hin, hk, hdn, hrun => by
    simp only [unindexAll] at hrun
    cases h1 : entryIndex idxmeta (some e) none t with
    | none => rw [h1] at hrun; exact absurd hrun (by simp)
    | some t1 =>
      rw [h1] at hrun
      simp only at hrun
      let ents1 := ents.filter (fun x => !decide (x.id = e.id))
      have hu1 : NUniq ents1 := hu.subset (fun x hx => (List.mem_filter.1 hx).1)
      have hinv1 : TInv stale idxmeta ents1 t1 :=
        entryIndex_inv (change_remove hids (hin e (by simp))) hinv hu hu1
          (by intro x hx; simp only [Option.some.injEq] at hx; subst hx; exact hk e (by simp)) (by simp) h1
      have hdn' := List.nodup_cons.1 (by simpa using hdn : (e.id :: es.map (·.id)).Nodup)
      have hin1 : ∀ x ∈ es, x ∈ ents1 := by
        intro x hx
        refine List.mem_filter.2 ⟨hin x (by simp [hx]), ?_⟩
        have : x.id ≠ e.id := fun h => hdn'.1 (h ▸ List.mem_map.2 ⟨x, hx, rfl⟩)
        simp [this]
      have := unindexAll_inv es ents1 t1 t' hinv1 hu1 (filter_ids_nodup _ hids) hin1
        (fun x hx => hk x (by simp [hx])) hdn'.2 hrun
      refine this.congr_ents ?_
      intro x
      simp only [ents1, List.mem_filter, List.map_cons, List.contains_cons, Bool.not_or, Bool.and_eq_true,
        Bool.not_eq_true', beq_eq_false_iff_ne, ne_eq, decide_eq_false_iff_not, Bool.not_eq_eq_eq_not,
        Bool.not_true]
      constructor
      · rintro ⟨⟨h1, h2⟩, h3⟩; exact ⟨h1, h2, h3⟩
      · rintro ⟨h1, h2, h3⟩; exact ⟨⟨h1, h2⟩, h3⟩

end Kanidm.Index
