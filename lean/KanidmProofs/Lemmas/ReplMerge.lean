import KanidmModel.ReplMerge
/-! Helper lemmas for C08 / C09 (`KanidmProofs/C08.lean`, `KanidmProofs/C09.lean`). -/
namespace Kanidm.ReplMerge
open Kanidm.Cid (Cid cidLt)
open Kanidm.Gen.ReplMergeOps

/-! ## The derived order of `Cid` is a strict total order (over the generated field order) -/

theorem cidLt_iff (a b : Cid) :
    cidLt a b = true ↔ (a.ts < b.ts ∨ (a.ts = b.ts ∧ a.sUuid < b.sUuid)) := by
  simp only [cidLt, Kanidm.Gen.Cid.ordFields, Kanidm.Cid.lexLt, Kanidm.Cid.fieldVal, Bool.or_eq_true,
    Bool.and_eq_true, Bool.false_eq_true, and_false, or_false]
  constructor
  · rintro (h | ⟨h1, h2⟩)
    · exact Or.inl (of_decide_eq_true h)
    · exact Or.inr ⟨of_decide_eq_true h1, of_decide_eq_true h2⟩
  · rintro (h | ⟨h1, h2⟩)
    · exact Or.inl (decide_eq_true h)
    · exact Or.inr ⟨decide_eq_true h1, decide_eq_true h2⟩

theorem cidLt_irrefl (a : Cid) : cidLt a a = false := by
  cases h : cidLt a a
  · rfl
  · rw [cidLt_iff] at h; omega

theorem cidLt_trans {a b c : Cid} (h1 : cidLt a b = true) (h2 : cidLt b c = true) :
    cidLt a c = true := by
  rw [cidLt_iff] at *; omega

theorem cidLt_asymm {a b : Cid} (h : cidLt a b = true) : cidLt b a = false := by
  cases h' : cidLt b a
  · rfl
  · rw [cidLt_iff] at *; omega

theorem cidLt_connex {a b : Cid} (h1 : cidLt a b = false) (h2 : cidLt b a = false) : a = b := by
  have e1 : ¬ (a.ts < b.ts ∨ (a.ts = b.ts ∧ a.sUuid < b.sUuid)) := by
    rw [← cidLt_iff]; simp [h1]
  have e2 : ¬ (b.ts < a.ts ∨ (b.ts = a.ts ∧ b.sUuid < a.sUuid)) := by
    rw [← cidLt_iff]; simp [h2]
  cases a; cases b
  simp only [Cid.mk.injEq] at *
  omega

/-- `¬ a < b` and `a < c` give `b < c`. -/
theorem cidLt_of_not_lt_of_lt {a b c : Cid} (h1 : cidLt a b = false) (h2 : cidLt a c = true) :
    cidLt b c = true := by
  cases h : cidLt b a
  · have := cidLt_connex h1 h; subst this; exact h2
  · exact cidLt_trans h h2

/-! ## Association lists -/

theorem lookup_map_self {β : Type} (f : Nat → β) (ks : List Nat) (a : Nat) :
    lookup (ks.map (fun k => (k, f k))) a = if a ∈ ks then some (f a) else none := by
  induction ks with
  | nil => simp [lookup]
  | cons k tl ih =>
    simp only [List.map, lookup, List.mem_cons]
    by_cases h : a = k
    · subst h; simp
    · simp [h, ih]

theorem lookup_filterMap_cells {β γ : Type} (f : Nat → β) (g : β → Option γ) (ks : List Nat) (a : Nat) :
    lookup (ks.filterMap (fun k => (g (f k)).map (fun x => (k, x)))) a
      = if a ∈ ks then g (f a) else none := by
  induction ks with
  | nil => simp [lookup]
  | cons k tl ih =>
    rw [List.filterMap_cons]
    cases hg : g (f k) with
    | none =>
      simp only [Option.map_none, List.mem_cons]
      rw [ih]
      by_cases h : a = k
      · subst h; simp [hg]
      · simp [h]
    | some x =>
      simp only [Option.map_some, lookup, List.mem_cons]
      by_cases h : a = k
      · subst h; simp [hg]
      · simp only [h, if_false, false_or]; exact ih

theorem lookup_filter_key {β : Type} (p : Nat → Bool) (l : List (Nat × β)) (a : Nat) :
    lookup (l.filter (fun c => p c.1)) a = if p a then lookup l a else none := by
  induction l with
  | nil => simp [lookup]
  | cons hd tl ih =>
    obtain ⟨k, v⟩ := hd
    simp only [List.filter_cons]
    by_cases hp : p k = true
    · simp only [hp, if_true, lookup]
      by_cases h : a = k
      · subst h; simp [hp]
      · simp [h, ih]
    · simp only [hp, lookup]
      by_cases h : a = k
      · subst h
        simp only [Bool.not_eq_true] at hp
        simp [hp, ih]
      · simp [h, ih]

theorem mem_insertKey (x a : Nat) (l : List Nat) : a ∈ insertKey x l ↔ a = x ∨ a ∈ l := by
  induction l with
  | nil => simp [insertKey]
  | cons y ys ih =>
    unfold insertKey
    by_cases h1 : x < y
    · simp [h1]
    · by_cases h2 : x = y
      · subst h2; simp
      · simp only [h1, h2, if_false, List.mem_cons, ih]
        constructor
        · rintro (h | h | h) <;> simp [h]
        · rintro (h | h | h) <;> simp [h]

theorem mem_sortDedup (a : Nat) (l : List Nat) : a ∈ sortDedup l ↔ a ∈ l := by
  induction l with
  | nil => simp [sortDedup]
  | cons x xs ih =>
    have : sortDedup (x :: xs) = insertKey x (sortDedup xs) := rfl
    rw [this, mem_insertKey, ih]; simp

theorem mem_keys_iff {β : Type} (l : List (Nat × β)) (a : Nat) :
    a ∈ l.map (·.1) ↔ (lookup l a).isSome = true := by
  induction l with
  | nil => simp [lookup]
  | cons hd tl ih =>
    obtain ⟨k, v⟩ := hd
    simp only [List.map, List.mem_cons, lookup]
    by_cases h : a = k
    · subst h; simp
    · simp [h, ih]

theorem mem_attrSet (L R : Live) (a : Nat) :
    a ∈ attrSet L R ↔ ((lookup L.changes a).isSome = true ∨ (lookup R.changes a).isSome = true) := by
  unfold attrSet
  rw [mem_sortDedup, List.mem_append, mem_keys_iff, mem_keys_iff]

/-! ## The generated tables -/

/-- The generated inner match is exhaustive (a Rust `match` must be), so `mergeAttr`'s fallback
is never used. -/
theorem bothArms_total (ls rs tl : Bool) : (pickArm ls rs tl bothArms).isSome = true := by
  cases ls <;> cases rs <;> cases tl <;> decide

/-! ## `merge_state`, Live/Live, is attribute-level last-writer-wins on the replicated stratum -/

theorem lookup_changes_mergeLive (vm : Nat → Nat → Option Nat) (repl : Nat → Bool) (L R : Live) (a : Nat) :
    lookup (mergeLive vm repl L R).changes a = if repl a then (mergeAttr vm L R a).1 else none := by
  have hr : retainReplicated = true := rfl
  simp only [mergeLive, hr, if_true]
  rw [lookup_filter_key]
  by_cases hrep : repl a = true
  · simp only [hrep, if_true]
    unfold cellsOf
    rw [List.filterMap_map]
    simp only [Function.comp_def]
    rw [lookup_filterMap_cells (fun a => mergeAttr vm L R a) (fun c => c.1)]
    by_cases hm : a ∈ attrSet L R
    · simp [hm]
    · simp only [hm, if_false]
      rw [mem_attrSet] at hm
      have h1 : lookup L.changes a = none := by
        cases h : lookup L.changes a <;> simp_all
      have h2 : lookup R.changes a = none := by
        cases h : lookup R.changes a <;> simp_all
      simp [mergeAttr, h1, h2]
  · simp [hrep]

theorem lookup_attrs_mergeLive (vm : Nat → Nat → Option Nat) (repl : Nat → Bool) (L R : Live) (a : Nat) :
    lookup (mergeLive vm repl L R).attrs a = (mergeAttr vm L R a).2 := by
  simp only [mergeLive]
  unfold cellsOf
  rw [List.filterMap_map]
  simp only [Function.comp_def]
  rw [lookup_filterMap_cells (fun a => mergeAttr vm L R a) (fun c => c.2)]
  by_cases hm : a ∈ attrSet L R
  · simp [hm]
  · simp only [hm, if_false]
    rw [mem_attrSet] at hm
    have h1 : lookup L.changes a = none := by
      cases h : lookup L.changes a <;> simp_all
    have h2 : lookup R.changes a = none := by
      cases h : lookup R.changes a <;> simp_all
    simp [mergeAttr, h1, h2]

/-- The central lemma: with the default `repl_merge_valueset` (`None`), the replicated cell of the
merged entry is the last-writer-wins combination of the two cells.  This is where the generated
operator and arm tables are consumed: another `take_left`, a swapped arm, a wrong side in one of
the eleven arms or a dropped `retain` makes this statement false. -/
theorem rcell_mergeLive (vm : Nat → Nat → Option Nat) (hvm : ∀ n o, vm n o = none)
    (repl : Nat → Bool) (L R : Live) (a : Nat) :
    rcell repl (mergeLive vm repl L R) a = lww (rcell repl L a) (rcell repl R a) := by
  unfold rcell
  rw [lookup_changes_mergeLive, lookup_attrs_mergeLive]
  by_cases hrep : repl a = true
  · simp only [hrep, if_true]
    unfold mergeAttr
    cases hl : lookup L.changes a with
    | none =>
      cases hr : lookup R.changes a with
      | none => simp [lww]
      | some cr => simp [lww, rightOnlyArm, sideCid, pickVal]
    | some cl =>
      cases hr : lookup R.changes a with
      | none => simp [lww, leftOnlyArm, sideCid, pickVal]
      | some cr =>
        simp only [Option.map_some, lww, takeLeft]
        cases hlt : cidLt cr cl <;> cases hvl : lookup L.attrs a <;> cases hvr : lookup R.attrs a <;>
          simp [pickArm, bothArms, sideCid, pickVal, hvm]
  · simp [hrep, lww]

theorem crAt_mergeLive (vm : Nat → Nat → Option Nat) (repl : Nat → Bool) (L R : Live) :
    (mergeLive vm repl L R).crAt = L.crAt := rfl

/-! ## Last-writer-wins algebra -/

/-- History invariant H_cid_unique at one attribute: one change cid names one write. -/
def Agree (x y : Option (Cid × Option Nat)) : Prop :=
  ∀ c vx vy, x = some (c, vx) → y = some (c, vy) → vx = vy

theorem lww_idem (x : Option (Cid × Option Nat)) : lww x x = x := by
  rcases x with _ | ⟨c, v⟩ <;> simp [lww, cidLt_irrefl]

theorem lww_comm (x y : Option (Cid × Option Nat)) (h : Agree x y) : lww x y = lww y x := by
  rcases x with _ | ⟨cx, vx⟩ <;> rcases y with _ | ⟨cy, vy⟩ <;> simp only [lww]
  cases h1 : cidLt cy cx <;> cases h2 : cidLt cx cy
  · have e := cidLt_connex h1 h2; subst e
    have := h cy vx vy rfl rfl; subst this; simp
  · simp
  · simp
  · rw [cidLt_asymm h1] at h2; cases h2

theorem lww_assoc_some (cx cy cz : Cid) (vx vy vz : Option Nat) :
    lww (lww (some (cx, vx)) (some (cy, vy))) (some (cz, vz))
      = lww (some (cx, vx)) (lww (some (cy, vy)) (some (cz, vz))) := by
  cases h1 : cidLt cy cx <;> cases h2 : cidLt cz cy <;> cases h3 : cidLt cz cx
  all_goals first
    | (simp [lww, h1, h2, h3]; done)
    | (exfalso; have := cidLt_of_not_lt_of_lt h2 h3; simp [h1] at this)
    | (exfalso; have := cidLt_trans h2 h1; simp [h3] at this)

theorem lww_assoc (x y z : Option (Cid × Option Nat)) : lww (lww x y) z = lww x (lww y z) := by
  rcases x with _ | ⟨cx, vx⟩
  · rcases y with _ | ⟨cy, vy⟩ <;> rcases z with _ | ⟨cz, vz⟩ <;> simp only [lww]
    cases h : cidLt cz cy <;> simp
  · rcases y with _ | ⟨cy, vy⟩
    · rcases z with _ | ⟨cz, vz⟩ <;> simp only [lww]
    · rcases z with _ | ⟨cz, vz⟩
      · simp only [lww]
        cases h : cidLt cy cx <;> simp
      · exact lww_assoc_some cx cy cz vx vy vz

/-! ## The merge on views -/

/-- `merge_state` as seen on the replicated stratum (specification side: LWW per attribute, a tombstone
absorbs, of two tombstones the earlier survives). -/
def vmerge : View → View → View
  | .live a f, .live _ g => .live a (fun x => lww (f x) (g x))
  | .tomb a, .live _ _ => .tomb a
  | .live _ _, .tomb b => .tomb b
  | .tomb a, .tomb b => if cidLt a b then .tomb a else .tomb b

/-- `merge_state` acts on the replicated stratum as `vmerge` (consumes every generated definition of
the merge: operator, arm tables, tombstone sides, `retain`, `at`). -/
theorem view_mergeState (vm : Nat → Nat → Option Nat) (hvm : ∀ n o, vm n o = none)
    (repl : Nat → Bool) (s t : St) :
    view repl (mergeState vm repl s t) = vmerge (view repl s) (view repl t) := by
  cases s with
  | live L =>
    cases t with
    | live R =>
      simp only [mergeState, view, vmerge, crAt_mergeLive]
      congr 1
      funext a
      exact rcell_mergeLive vm hvm repl L R a
    | tomb b => simp [mergeState, view, vmerge, liveTombKeeps]
  | tomb a =>
    cases t with
    | live R => simp [mergeState, view, vmerge, tombLiveKeeps]
    | tomb b =>
      by_cases h : cidLt a b = true <;> simp [mergeState, view, vmerge, tombTombPickLeft, h]

def View.isTomb : View → Bool
  | .tomb _ => true
  | .live _ _ => false

theorem vmerge_idem (v : View) : vmerge v v = v := by
  cases v with
  | live a f => simp only [vmerge]; congr 1; funext x; exact lww_idem (f x)
  | tomb a => simp [vmerge, cidLt_irrefl]

/-- Two views are coherent: created by the same create (no uuid clash) and one cid names one write. -/
def VCoh : View → View → Prop
  | .live a f, .live b g => a = b ∧ ∀ x, Agree (f x) (g x)
  | _, _ => True

theorem vmerge_comm (v w : View) (h : VCoh v w) : vmerge v w = vmerge w v := by
  cases v with
  | live a f =>
    cases w with
    | live b g =>
      obtain ⟨hab, hag⟩ := h
      subst hab
      simp only [vmerge]; congr 1; funext x; exact lww_comm (f x) (g x) (hag x)
    | tomb b => simp [vmerge]
  | tomb a =>
    cases w with
    | live b g => simp [vmerge]
    | tomb b =>
      simp only [vmerge]
      cases h1 : cidLt a b <;> cases h2 : cidLt b a
      · have := cidLt_connex h1 h2; subst this; simp
      · simp
      · simp
      · rw [cidLt_asymm h1] at h2; cases h2

theorem tmin_assoc (a b c : Cid) :
    (if cidLt (if cidLt a b then a else b) c then (if cidLt a b then a else b) else c)
      = (if cidLt a (if cidLt b c then b else c) then a else (if cidLt b c then b else c)) := by
  cases h1 : cidLt a b <;> cases h2 : cidLt b c <;> cases h3 : cidLt a c
  all_goals first
    | (simp [h1, h2, h3]; done)
    | (exfalso; have := cidLt_trans h1 h2; simp [h3] at this)
    | (exfalso; have := cidLt_of_not_lt_of_lt h1 h3; simp [h2] at this)

theorem vmerge_assoc (u v w : View) : vmerge (vmerge u v) w = vmerge u (vmerge v w) := by
  cases u with
  | live a f =>
    cases v with
    | live b g =>
      cases w with
      | live c k => simp only [vmerge]; congr 1; funext x; exact lww_assoc (f x) (g x) (k x)
      | tomb c => simp [vmerge]
    | tomb b =>
      cases w with
      | live c k => simp [vmerge]
      | tomb c => simp only [vmerge]; cases cidLt b c <;> simp [vmerge]
  | tomb a =>
    cases v with
    | live b g =>
      cases w with
      | live c k => simp [vmerge]
      | tomb c => simp [vmerge]
    | tomb b =>
      cases w with
      | live c k => simp only [vmerge]; cases cidLt a b <;> simp [vmerge]
      | tomb c =>
        cases h1 : cidLt a b <;> cases h2 : cidLt b c <;> cases h3 : cidLt a c
        all_goals first
          | (simp [vmerge, h1, h2, h3]; done)
          | (exfalso; have := cidLt_trans h1 h2; simp [h3] at this)
          | (exfalso; have := cidLt_of_not_lt_of_lt h1 h3; simp [h2] at this)

/-! ## Delivery trees: the result is a function of the *set* of delivered states -/

def Tree.evalV (W : Nat → View) : Tree → View
  | .leaf i => W i
  | .node l r => vmerge (l.evalV W) (r.evalV W)

theorem view_eval (vm : Nat → Nat → Option Nat) (hvm : ∀ n o, vm n o = none) (repl : Nat → Bool)
    (w : Nat → St) (t : Tree) :
    view repl (t.eval vm repl w) = t.evalV (fun i => view repl (w i)) := by
  induction t with
  | leaf i => rfl
  | node l r ihl ihr => simp only [Tree.eval, Tree.evalV, view_mergeState vm hvm, ihl, ihr]

def cellOf : View → Nat → Option (Cid × Option Nat)
  | .live _ f, x => f x
  | .tomb _, _ => none

/-- `x` is the cell with the greatest change cid among the cells at attribute `a` of the states
selected by `P` (`none` iff none of them has a cell there). -/
def TopCell (W : Nat → View) (P : Nat → Prop) (a : Nat) : Option (Cid × Option Nat) → Prop
  | none => ∀ i, P i → cellOf (W i) a = none
  | some (c, v) => (∃ i, P i ∧ cellOf (W i) a = some (c, v)) ∧
      ∀ j c' v', P j → cellOf (W j) a = some (c', v') → cidLt c c' = false

theorem topCell_lww {W : Nat → View} {P Q : Nat → Prop} {a : Nat} {x y : Option (Cid × Option Nat)}
    (hx : TopCell W P a x) (hy : TopCell W Q a y) : TopCell W (fun i => P i ∨ Q i) a (lww x y) := by
  rcases x with _ | ⟨cx, vx⟩ <;> rcases y with _ | ⟨cy, vy⟩
  · intro i hi; rcases hi with hi | hi
    · exact hx i hi
    · exact hy i hi
  · obtain ⟨⟨i, hi, hc⟩, hmax⟩ := hy
    refine ⟨⟨i, Or.inr hi, hc⟩, ?_⟩
    intro j c' v' hj hcj
    rcases hj with hj | hj
    · rw [hx j hj] at hcj; cases hcj
    · exact hmax j c' v' hj hcj
  · obtain ⟨⟨i, hi, hc⟩, hmax⟩ := hx
    refine ⟨⟨i, Or.inl hi, hc⟩, ?_⟩
    intro j c' v' hj hcj
    rcases hj with hj | hj
    · exact hmax j c' v' hj hcj
    · rw [hy j hj] at hcj; cases hcj
  · obtain ⟨⟨i, hi, hci⟩, hmx⟩ := hx
    obtain ⟨⟨k, hk, hck⟩, hmy⟩ := hy
    simp only [lww]
    cases hlt : cidLt cy cx
    · -- the right cell wins: cx ≤ cy
      simp only [Bool.false_eq_true, if_false]
      refine ⟨⟨k, Or.inr hk, hck⟩, ?_⟩
      intro j c' v' hj hcj
      rcases hj with hj | hj
      · have h1 := hmx j c' v' hj hcj
        cases h2 : cidLt cy c'
        · rfl
        · have := cidLt_of_not_lt_of_lt hlt h2; rw [h1] at this; cases this
      · exact hmy j c' v' hj hcj
    · simp only [if_true]
      refine ⟨⟨i, Or.inl hi, hci⟩, ?_⟩
      intro j c' v' hj hcj
      rcases hj with hj | hj
      · exact hmx j c' v' hj hcj
      · have h1 := hmy j c' v' hj hcj
        cases h2 : cidLt cx c'
        · rfl
        · have := cidLt_trans hlt h2; rw [h1] at this; cases this

theorem topCell_unique {W : Nat → View} {P : Nat → Prop} {a : Nat} {x y : Option (Cid × Option Nat)}
    (hag : ∀ i j, Agree (cellOf (W i) a) (cellOf (W j) a))
    (hx : TopCell W P a x) (hy : TopCell W P a y) : x = y := by
  rcases x with _ | ⟨cx, vx⟩ <;> rcases y with _ | ⟨cy, vy⟩
  · rfl
  · obtain ⟨⟨i, hi, hc⟩, _⟩ := hy
    rw [hx i hi] at hc; cases hc
  · obtain ⟨⟨i, hi, hc⟩, _⟩ := hx
    rw [hy i hi] at hc; cases hc
  · obtain ⟨⟨i, hi, hci⟩, hmx⟩ := hx
    obtain ⟨⟨k, hk, hck⟩, hmy⟩ := hy
    have h1 := hmx k cy vy hk hck
    have h2 := hmy i cx vx hi hci
    have e := cidLt_connex h1 h2
    subst e
    have := hag i k cx vx vy hci hck
    subst this
    rfl

/-- What a delivery tree must evaluate to, stated over the set `P` of delivered states only. -/
def TreeSpec (W : Nat → View) (P : Nat → Prop) : View → Prop
  | .tomb c => (∃ i, P i ∧ W i = .tomb c) ∧ ∀ j c', P j → W j = .tomb c' → cidLt c' c = false
  | .live a F => (∃ i, P i) ∧ (∀ i, P i → ∃ f, W i = .live a f) ∧ ∀ x, TopCell W P x (F x)

theorem treeSpec_congr {W : Nat → View} {P Q : Nat → Prop} (h : ∀ i, P i ↔ Q i) {v : View}
    (hv : TreeSpec W P v) : TreeSpec W Q v := by
  have : P = Q := funext (fun i => propext (h i))
  subst this; exact hv

theorem treeSpec_leaf (W : Nat → View) (i : Nat) : TreeSpec W (fun j => j = i) (W i) := by
  cases h : W i with
  | tomb c =>
    refine ⟨⟨i, rfl, h⟩, ?_⟩
    intro j c' hj hw
    subst hj
    rw [h] at hw; cases hw; exact cidLt_irrefl _
  | live a f =>
    refine ⟨⟨i, rfl⟩, ?_, ?_⟩
    · intro j hj; subst hj; exact ⟨f, h⟩
    · intro x
      cases hx : f x with
      | none =>
        intro j hj; subst hj; simp [h, cellOf, hx]
      | some cv =>
        obtain ⟨c, v⟩ := cv
        refine ⟨⟨i, rfl, by simp [h, cellOf, hx]⟩, ?_⟩
        intro j c' v' hj hc
        subst hj
        simp only [h, cellOf, hx, Option.some.injEq, Prod.mk.injEq] at hc
        obtain ⟨e, _⟩ := hc
        subst e; exact cidLt_irrefl _

theorem treeSpec_vmerge {W : Nat → View} (hcoh : ∀ i j, VCoh (W i) (W j)) {P Q : Nat → Prop} {v w : View}
    (hv : TreeSpec W P v) (hw : TreeSpec W Q w) : TreeSpec W (fun i => P i ∨ Q i) (vmerge v w) := by
  cases v with
  | live a F =>
    cases w with
    | live b G =>
      obtain ⟨⟨i, hi⟩, hPl, hPt⟩ := hv
      obtain ⟨⟨k, hk⟩, hQl, hQt⟩ := hw
      obtain ⟨f, hf⟩ := hPl i hi
      obtain ⟨g, hg⟩ := hQl k hk
      have hab : a = b := by
        have := hcoh i k
        rw [hf, hg] at this
        exact this.1
      subst hab
      refine ⟨⟨i, Or.inl hi⟩, ?_, ?_⟩
      · intro j hj
        rcases hj with hj | hj
        · exact hPl j hj
        · exact hQl j hj
      · intro x; exact topCell_lww (hPt x) (hQt x)
    | tomb d =>
      obtain ⟨_, hPl, _⟩ := hv
      obtain ⟨⟨k, hk, hwk⟩, hmin⟩ := hw
      refine ⟨⟨k, Or.inr hk, hwk⟩, ?_⟩
      intro j c' hj hwj
      rcases hj with hj | hj
      · obtain ⟨f, hf⟩ := hPl j hj
        rw [hf] at hwj; cases hwj
      · exact hmin j c' hj hwj
  | tomb c =>
    cases w with
    | live b G =>
      obtain ⟨⟨i, hi, hwi⟩, hmin⟩ := hv
      obtain ⟨_, hQl, _⟩ := hw
      refine ⟨⟨i, Or.inl hi, hwi⟩, ?_⟩
      intro j c' hj hwj
      rcases hj with hj | hj
      · exact hmin j c' hj hwj
      · obtain ⟨f, hf⟩ := hQl j hj
        rw [hf] at hwj; cases hwj
    | tomb d =>
      obtain ⟨⟨i, hi, hwi⟩, hminc⟩ := hv
      obtain ⟨⟨k, hk, hwk⟩, hmind⟩ := hw
      simp only [vmerge]
      cases hlt : cidLt c d
      · simp only [Bool.false_eq_true, if_false]
        refine ⟨⟨k, Or.inr hk, hwk⟩, ?_⟩
        intro j c' hj hwj
        rcases hj with hj | hj
        · have h1 := hminc j c' hj hwj
          -- ¬ c' < c and ¬ c < d ⇒ ¬ c' < d
          cases h2 : cidLt c' d
          · rfl
          · cases h3 : cidLt d c
            · have e := cidLt_connex hlt h3; subst e; rw [h1] at h2; cases h2
            · have := cidLt_trans h2 h3; rw [h1] at this; cases this
        · exact hmind j c' hj hwj
      · simp only [if_true]
        refine ⟨⟨i, Or.inl hi, hwi⟩, ?_⟩
        intro j c' hj hwj
        rcases hj with hj | hj
        · exact hminc j c' hj hwj
        · have h1 := hmind j c' hj hwj
          cases h2 : cidLt c' c
          · rfl
          · have := cidLt_trans h2 hlt; rw [h1] at this; cases this

theorem agree_cellOf_of_vcoh {v w : View} (h : VCoh v w) (a : Nat) : Agree (cellOf v a) (cellOf w a) := by
  cases v with
  | live x f =>
    cases w with
    | live y g => exact h.2 a
    | tomb d => intro c vx vy _ h2; simp [cellOf] at h2
  | tomb c => intro c vx vy h1 _; simp [cellOf] at h1

theorem treeSpec_unique {W : Nat → View} (hcoh : ∀ i j, VCoh (W i) (W j)) {P : Nat → Prop} {v w : View}
    (hv : TreeSpec W P v) (hw : TreeSpec W P w) : v = w := by
  cases v with
  | live a F =>
    cases w with
    | live b G =>
      obtain ⟨⟨i, hi⟩, hPl, hPt⟩ := hv
      obtain ⟨_, hQl, hQt⟩ := hw
      obtain ⟨f, hf⟩ := hPl i hi
      obtain ⟨g, hg⟩ := hQl i hi
      rw [hf] at hg
      cases hg
      congr 1
      funext x
      exact topCell_unique (fun i j => agree_cellOf_of_vcoh (hcoh i j) x) (hPt x) (hQt x)
    | tomb d =>
      obtain ⟨_, hPl, _⟩ := hv
      obtain ⟨⟨k, hk, hwk⟩, _⟩ := hw
      obtain ⟨f, hf⟩ := hPl k hk
      rw [hf] at hwk; cases hwk
  | tomb c =>
    cases w with
    | live b G =>
      obtain ⟨⟨i, hi, hwi⟩, _⟩ := hv
      obtain ⟨_, hQl, _⟩ := hw
      obtain ⟨f, hf⟩ := hQl i hi
      rw [hf] at hwi; cases hwi
    | tomb d =>
      obtain ⟨⟨i, hi, hwi⟩, hminc⟩ := hv
      obtain ⟨⟨k, hk, hwk⟩, hmind⟩ := hw
      have h1 := hminc k d hk hwk
      have h2 := hmind i c hi hwi
      rw [cidLt_connex h1 h2]

theorem treeSpec_evalV {W : Nat → View} (hcoh : ∀ i j, VCoh (W i) (W j)) (t : Tree) :
    TreeSpec W (fun i => i ∈ t.leaves) (t.evalV W) := by
  induction t with
  | leaf i =>
    exact treeSpec_congr (by intro j; simp [Tree.leaves]) (treeSpec_leaf W i)
  | node l r ihl ihr =>
    exact treeSpec_congr (by intro j; simp [Tree.leaves]) (treeSpec_vmerge hcoh ihl ihr)

/-! ## The range-filtered delta -/

theorem rcell_delta (repl : Nat → Bool) (rg : Ranges) (e : Live) (a : Nat) :
    rcell repl { crAt := e.crAt
                 changes := e.changes.filter (fun c => keySent repl rg e c.1)
                 attrs := e.attrs.filter (fun v => keySent repl rg e v.1) } a
      = if keySent repl rg e a then rcell repl e a else none := by
  unfold rcell
  simp only [lookup_filter_key]
  by_cases hrep : repl a = true <;> by_cases hk : keySent repl rg e a = true <;> simp [hrep, hk]

/-- A cell of `S` that is not sent is already dominated on the consumer `K` (what the update vector
promises: the consumer has seen every change of that origin up to `ts_min`). -/
def Dominated (repl : Nat → Bool) (rg : Ranges) (S K : Live) : Prop :=
  ∀ a c v, rcell repl S a = some (c, v) → sent repl rg a c = false →
    ∃ c' v', rcell repl K a = some (c', v') ∧ cidLt c' c = false ∧ (c' = c → v' = v)

theorem keySent_eq_sent {repl : Nat → Bool} {rg : Ranges} {S : Live} {a : Nat} {c : Cid} {v : Option Nat}
    (h : rcell repl S a = some (c, v)) : keySent repl rg S a = sent repl rg a c := by
  unfold rcell at h
  by_cases hrep : repl a = true
  · simp only [hrep, if_true] at h
    cases hl : lookup S.changes a with
    | none => rw [hl] at h; cases h
    | some c0 =>
      rw [hl] at h
      simp only [Option.map_some, Option.some.injEq, Prod.mk.injEq] at h
      obtain ⟨e, _⟩ := h
      subst e
      simp [keySent, hl]
  · simp [hrep] at h

end Kanidm.ReplMerge
