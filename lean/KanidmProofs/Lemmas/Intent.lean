import KanidmModel.Intent
/-!
Helper lemmas for C37 (credential reset links): how every operation acts on the stored links and
on the session map, the well-formedness invariant, and the three trace invariants (`Dead`, `TtlIs`,
`Blocked`) the property theorems are induction steps of.
-/
namespace Kanidm.Intent
open Kanidm.Gen.Intent

/-! ## Event predicates and invariants -/

/-- The event is a successful commit of a session that originated from link `L`. -/
def isCommitFor (L : Nat) : Op × Res → Bool
  | (_, .committed (some l) _ _) => l == L
  | _ => false

/-- The event is a successful exchange of link `L`. -/
def isExchangeOk (L : Nat) : Op × Res → Bool
  | (.exchange l _ _, .token _) => l == L
  | _ => false

/-- Link ids are unique over all accounts and below the allocation counter (freshness of
`readable_password_from_random`). -/
def WF (s : State) : Prop :=
  (s.links.map (·.id)).Nodup ∧ ∀ l ∈ s.links, l.id < s.nextLink

/-- Link `L` has been allocated and every stored copy of it is `Consumed`. -/
def Dead (s : State) (L : Nat) : Prop :=
  L < s.nextLink ∧ ∀ l ∈ s.links, l.id = L → l.st.tag = .consumed

/-- Link `L` has been allocated and every stored copy of it expires at `M`. -/
def TtlIs (s : State) (L M : Nat) : Prop :=
  L < s.nextLink ∧ ∀ l ∈ s.links, l.id = L → l.st.maxTtl = M

/-! ## Basic facts -/

theorem mkState_maxTtl {t : Tag} {m : Nat} {se : SessId} {st : Nat} {x : LState}
    (h : mkState t m se st = some x) : x.maxTtl = m := by
  cases t <;> simp [mkState] at h <;> subst h <;> rfl

theorem mkState_tag {t : Tag} {m : Nat} {se : SessId} {st : Nat} {x : LState}
    (h : mkState t m se st = some x) : x.tag = t := by
  cases t <;> simp [mkState] at h <;> subst h <;> rfl

theorem mkState_sess {t : Tag} {m : Nat} {se : SessId} {st : Nat} {x : LState}
    (h : mkState t m se st = some x) : x.sess? = none ∨ x.sess? = some se := by
  cases t <;> simp [mkState] at h <;> subst h <;> simp [LState.sess?]

/-- What `setLink` does to one stored link. -/
theorem mem_setLink {a id : Nat} {t : Tag} {se : SessId} {st : Nat} {links : List Link} {l' : Link}
    (h : l' ∈ setLink a id t se st links) :
    ∃ l ∈ links, l'.id = l.id ∧ l'.acct = l.acct ∧ l'.st.maxTtl = l.st.maxTtl ∧
      ((l.id = id ∧ l.acct = a ∧ mkState t l.st.maxTtl se st = some l'.st) ∨
       (¬(l.id = id ∧ l.acct = a) ∧ l' = l)) := by
  unfold setLink at h
  rw [List.mem_filterMap] at h
  obtain ⟨l, hl, hf⟩ := h
  refine ⟨l, hl, ?_⟩
  by_cases hc : l.id = id ∧ l.acct = a
  · have hb : (l.id == id && l.acct == a) = true := by simp [hc.1, hc.2]
    rw [if_pos hb] at hf
    cases hm : mkState t l.st.maxTtl se st with
    | none => simp [hm] at hf
    | some x =>
      simp [hm] at hf
      subst hf
      exact ⟨rfl, rfl, mkState_maxTtl hm, Or.inl ⟨hc.1, hc.2, rfl⟩⟩
  · have hb : ¬ (l.id == id && l.acct == a) = true := by
      simp only [Bool.and_eq_true, beq_iff_eq]; exact hc
    rw [if_neg hb] at hf
    simp at hf
    subst hf
    exact ⟨rfl, rfl, rfl, Or.inr ⟨hc, rfl⟩⟩

theorem setLink_ids_sublist (a id : Nat) (t : Tag) (se : SessId) (st : Nat) (links : List Link) :
    ((setLink a id t se st links).map (·.id)).Sublist (links.map (·.id)) := by
  induction links with
  | nil => simp [setLink]
  | cons l ls ih =>
    unfold setLink at ih ⊢
    rw [List.filterMap_cons]
    split
    · exact (List.Sublist.cons _ ih)
    · rename_i x hx
      have : x.id = l.id := by
        split at hx
        · cases hm : mkState t l.st.maxTtl se st with
          | none => simp [hm] at hx
          | some y => simp [hm] at hx; subst hx; rfl
        · simp at hx; subst hx; rfl
      simp only [List.map_cons, this]
      exact List.Sublist.cons_cons _ ih

theorem eq_of_nodup_ids {links : List Link} (h : (links.map (·.id)).Nodup) {a b : Link}
    (ha : a ∈ links) (hb : b ∈ links) (hid : a.id = b.id) : a = b := by
  induction links with
  | nil => cases ha
  | cons x xs ih =>
    simp only [List.map_cons, List.nodup_cons, List.mem_map, not_exists, not_and] at h
    simp only [List.mem_cons] at ha hb
    rcases ha with rfl | ha <;> rcases hb with rfl | hb
    · rfl
    · exact absurd hid.symm (h.1 b hb)
    · exact absurd hid (h.1 a ha)
    · exact ih h.2 ha hb

/-- A link found by `linkOf` is a stored link with that id and account. -/
theorem linkOf_some {links : List Link} {a id : Nat} {l : Link} (h : linkOf links a id = some l) :
    l ∈ links ∧ l.id = id ∧ l.acct = a := by
  unfold linkOf at h
  have h1 := List.mem_of_find?_eq_some h
  have h2 := List.find?_some h
  simp only [Bool.and_eq_true, beq_iff_eq] at h2
  exact ⟨h1, h2.1, h2.2⟩

theorem linkOf_none {links : List Link} {a id : Nat} (h : linkOf links a id = none) :
    ∀ l ∈ links, ¬(l.id = id ∧ l.acct = a) := by
  unfold linkOf at h
  rw [List.find?_eq_none] at h
  intro l hl hc
  have := h l hl
  simp [hc.1, hc.2] at this

/-- `filter (id = L) = [l]`: `l` is stored and is the only stored link with that id. -/
theorem filter_singleton {links : List Link} {id : Nat} {l : Link}
    (h : links.filter (fun x => x.id == id) = [l]) :
    l ∈ links ∧ l.id = id ∧ ∀ x ∈ links, x.id = id → x = l := by
  have hl : l ∈ links.filter (fun x => x.id == id) := by rw [h]; simp
  rw [List.mem_filter] at hl
  refine ⟨hl.1, by simpa using hl.2, ?_⟩
  intro x hx hid
  have : x ∈ links.filter (fun x => x.id == id) := by
    rw [List.mem_filter]; exact ⟨hx, by simp [hid]⟩
  rw [h] at this
  simpa using this

/-! ## Case lemmas: each operation either fails and leaves the state alone, or succeeds with an
explicitly described new state -/

theorem doInit_eq (s : State) (a : Nat) (ttl : Option Nat) (ct : Nat) :
    doInit s a ttl ct =
      ({ s with links := s.links.filter (fun l => !(l.acct == a && purgeOld ct l.st.maxTtl)) ++
                  [⟨s.nextLink, a, .valid (intentMaxTtl ct (clampTtl ttl))⟩],
                nextLink := s.nextLink + 1 },
       .link s.nextLink (intentMaxTtl ct (clampTtl ttl))) := rfl

/-- The session id an exchange at `ct` in a transaction with `sid` creates. -/
def xSess (ct sid : Nat) : SessId := ⟨exchangeSessTime ct credUpdateTtl, sid⟩

theorem doExchange_cases (s : State) (id ct sid : Nat) :
    (∃ e, doExchange s id ct sid = (s, .err e)) ∨
    (∃ l, s.links.filter (fun x => x.id == id) = [l] ∧ gate (exchangeArm l.st.tag) false = none ∧
      intentExpired ct l.st.maxTtl = false ∧
      doExchange s id ct sid =
        ({ s with links := setLink l.acct id exchangeWrites (xSess ct sid) (exchangeSessTtl ct credUpdateTtl) s.links,
                  sessions := (createSession s (xSess ct sid) (some id) l.acct ct sid).1 },
         .token (createSession s (xSess ct sid) (some id) l.acct ct sid).2)) := by
  unfold doExchange xSess
  split
  · exact Or.inl ⟨_, rfl⟩
  · rename_i l hl
    split
    · exact Or.inl ⟨_, rfl⟩
    · rename_i hg
      split
      · exact Or.inl ⟨_, rfl⟩
      · rename_i hx
        refine Or.inr ⟨l, hl, hg, by simpa using hx, rfl⟩
  · exact Or.inl ⟨_, rfl⟩

theorem doDirect_eq (s : State) (a ct sid : Nat) :
    doDirect s a ct sid =
      ({ s with sessions := (createSession s ⟨directSessTime ct credUpdateTtl, sid⟩ none a ct sid).1 },
       .token (createSession s ⟨directSessTime ct credUpdateTtl, sid⟩ none a ct sid).2) := rfl

theorem doSetpw_cases (s : State) (tok : Token) (v ct : Nat) :
    (∃ e, doSetpw s tok v ct = (s, .err e)) ∨
    doSetpw s tok v ct =
      ({ s with sessions := s.sessions.map (fun se =>
          if se.id == tok.sess then { se with primary := some v } else se) }, .pwset) := by
  unfold doSetpw
  split
  · exact Or.inl ⟨_, rfl⟩
  · split
    · exact Or.inl ⟨_, rfl⟩
    · exact Or.inr rfl

theorem commitCommon_ok {s : State} {tok : Token} {ct : Nat} {se : Sess} {rest : List Sess}
    (h : commitCommon s tok ct = .ok (se, rest)) :
    tokenExpired ct tok.maxTtl = false ∧ s.sessions.find? (fun x => x.id == tok.sess) = some se ∧
      rest = s.sessions.filter (fun x => x.id != tok.sess) := by
  unfold commitCommon at h
  split at h
  · cases h
  · rename_i hx
    split at h
    · cases h
    · rename_i se' hf
      cases h
      exact ⟨by simpa using hx, hf, rfl⟩

theorem doCommit_cases (s : State) (tok : Token) (ct : Nat) :
    (∃ e, doCommit s tok ct = (s, .err e)) ∨
    (∃ se, s.sessions.find? (fun x => x.id == tok.sess) = some se ∧ se.link = none ∧
      doCommit s tok ct =
        ({ s with sessions := s.sessions.filter (fun x => x.id != tok.sess),
                  creds := setCred se.acct se.primary s.creds },
         .committed none se.acct se.primary)) ∨
    (∃ se lid, s.sessions.find? (fun x => x.id == tok.sess) = some se ∧ se.link = some lid ∧
      gate (commitArm (tagOf (linkOf s.links se.acct lid)))
        (conflictOf commitConflict (linkOf s.links se.acct lid) tok.sess) = none ∧
      doCommit s tok ct =
        ({ s with sessions := s.sessions.filter (fun x => x.id != tok.sess),
                  links := setLink se.acct lid commitWrites tok.sess 0 s.links,
                  creds := setCred se.acct se.primary s.creds },
         .committed (some lid) se.acct se.primary)) := by
  unfold doCommit
  split
  · exact Or.inl ⟨_, rfl⟩
  · rename_i se rest hc
    obtain ⟨_, hf, hr⟩ := commitCommon_ok hc
    subst hr
    split
    · exact Or.inl ⟨_, rfl⟩
    · split
      · rename_i hl
        exact Or.inr (Or.inl ⟨se, hf, hl, rfl⟩)
      · rename_i lid hl
        cases hg : gate (commitArm (tagOf (linkOf s.links se.acct lid)))
            (conflictOf commitConflict (linkOf s.links se.acct lid) tok.sess) with
        | some e => exact Or.inl ⟨e, by simp only [hg]⟩
        | none => exact Or.inr (Or.inr ⟨se, lid, hf, hl, hg, by simp only [hg]⟩)

theorem doCancel_cases (s : State) (tok : Token) (ct : Nat) :
    (∃ e, doCancel s tok ct = (s, .err e)) ∨
    (∃ se, s.sessions.find? (fun x => x.id == tok.sess) = some se ∧ se.link = none ∧
      doCancel s tok ct =
        ({ s with sessions := s.sessions.filter (fun x => x.id != tok.sess) }, .cancelled none)) ∨
    (∃ se lid, s.sessions.find? (fun x => x.id == tok.sess) = some se ∧ se.link = some lid ∧
      gate (cancelArm (tagOf (linkOf s.links se.acct lid)))
        (conflictOf cancelConflict (linkOf s.links se.acct lid) tok.sess) = none ∧
      doCancel s tok ct =
        ({ s with sessions := s.sessions.filter (fun x => x.id != tok.sess),
                  links := setLink se.acct lid cancelWrites tok.sess 0 s.links },
         .cancelled (some lid))) := by
  unfold doCancel
  split
  · exact Or.inl ⟨_, rfl⟩
  · rename_i se rest hc
    obtain ⟨_, hf, hr⟩ := commitCommon_ok hc
    subst hr
    split
    · rename_i hl
      exact Or.inr (Or.inl ⟨se, hf, hl, rfl⟩)
    · rename_i lid hl
      cases hg : gate (cancelArm (tagOf (linkOf s.links se.acct lid)))
          (conflictOf cancelConflict (linkOf s.links se.acct lid) tok.sess) with
      | some e => exact Or.inl ⟨e, by simp only [hg]⟩
      | none => exact Or.inr (Or.inr ⟨se, lid, hf, hl, hg, by simp only [hg]⟩)

theorem doRevoke_cases (s : State) (id : Nat) :
    doRevoke s id = (s, .err .emptyRequest) ∨
    doRevoke s id =
      ({ s with links := s.links.filterMap (fun l =>
          if revokeTouches l id then
            (mkState revokeWrites l.st.maxTtl ⟨0, 0⟩ 0).map (fun st => { l with st := st })
          else some l) }, .revoked) := by
  unfold doRevoke
  split
  · exact Or.inr rfl
  · exact Or.inl rfl

/-! ## What the generated arm tables say (re-proved against the regenerated tables) -/

/-- Exchange goes on only from `Valid` or `InProgress`. -/
theorem exchange_gate_none {t : Tag} (h : gate (exchangeArm t) false = none) :
    t = .valid ∨ t = .inProgress := by
  cases t <;> simp [exchangeArm, gate] at h ⊢

/-- Commit goes on only from `InProgress` with the token's own session id. -/
theorem commit_gate_none {l? : Option Link} {x : SessId}
    (h : gate (commitArm (tagOf l?)) (conflictOf commitConflict l? x) = none) :
    ∃ l m t, l? = some l ∧ l.st = .inProgress m x t := by
  cases l? with
  | none => simp [tagOf, commitArm, gate] at h
  | some l =>
    cases hs : l.st with
    | valid m => simp [tagOf, hs, LState.tag, commitArm, gate] at h
    | consumed m => simp [tagOf, hs, LState.tag, commitArm, gate] at h
    | inProgress m y t =>
      simp [tagOf, hs, LState.tag, commitArm, gate, conflictOf, LState.sess?, commitConflict] at h
      exact ⟨l, m, t, rfl, by rw [hs, h]⟩

/-- Cancel goes on only from `InProgress` with the token's own session id. -/
theorem cancel_gate_none {l? : Option Link} {x : SessId}
    (h : gate (cancelArm (tagOf l?)) (conflictOf cancelConflict l? x) = none) :
    ∃ l m t, l? = some l ∧ l.st = .inProgress m x t := by
  cases l? with
  | none => simp [tagOf, cancelArm, gate] at h
  | some l =>
    cases hs : l.st with
    | valid m => simp [tagOf, hs, LState.tag, cancelArm, gate] at h
    | consumed m => simp [tagOf, hs, LState.tag, cancelArm, gate] at h
    | inProgress m y t =>
      simp [tagOf, hs, LState.tag, cancelArm, gate, conflictOf, LState.sess?, cancelConflict] at h
      exact ⟨l, m, t, rfl, by rw [hs, h]⟩

theorem revoke_not_consumed {l : Link} {id : Nat} (h : revokeTouches l id = true) :
    l.id = id ∧ l.st.tag ≠ .consumed := by
  unfold revokeTouches at h
  simp only [Bool.and_eq_true, beq_iff_eq] at h
  refine ⟨h.1, ?_⟩
  intro hc
  rw [hc] at h
  simp [revokeArm] at h

theorem writes_tags : exchangeWrites = .inProgress ∧ commitWrites = .consumed ∧
    cancelWrites = .valid ∧ revokeWrites = .consumed := by decide

/-! ## Frame lemmas over all operations -/

theorem filterMap_ids_sublist (f : Link → Option Link) (hf : ∀ l x, f l = some x → x.id = l.id)
    (links : List Link) : ((links.filterMap f).map (·.id)).Sublist (links.map (·.id)) := by
  induction links with
  | nil => simp
  | cons l ls ih =>
    rw [List.filterMap_cons]
    split
    · exact List.Sublist.cons _ ih
    · rename_i x hx
      simp only [List.map_cons, hf l x hx]
      exact List.Sublist.cons_cons _ ih

/-- The rewrite `revoke` applies to one stored link. -/
def revokeF (id : Nat) (l : Link) : Option Link :=
  if revokeTouches l id then
    (mkState revokeWrites l.st.maxTtl ⟨0, 0⟩ 0).map (fun st => { l with st := st })
  else some l

theorem revokeF_some {id : Nat} {l x : Link} (h : revokeF id l = some x) :
    x.id = l.id ∧ x.acct = l.acct ∧ x.st.maxTtl = l.st.maxTtl ∧
      ((revokeTouches l id = true ∧ x.st.tag = revokeWrites) ∨ x = l) := by
  unfold revokeF at h
  split at h
  · rename_i ht
    cases hm : mkState revokeWrites l.st.maxTtl ⟨0, 0⟩ 0 with
    | none => simp [hm] at h
    | some y =>
      simp [hm] at h
      subst h
      exact ⟨rfl, rfl, mkState_maxTtl hm, Or.inl ⟨ht, mkState_tag hm⟩⟩
  · simp at h
    subst h
    exact ⟨rfl, rfl, rfl, Or.inr rfl⟩

/-- Every stored link after a step descends from a stored link with the same id, account and
expiry, or is the link a successful `init` has just allocated. -/
theorem step_link_origin (s : State) (op : Op) {l' : Link} (h : l' ∈ (step s op).1.links) :
    (∃ l ∈ s.links, l'.id = l.id ∧ l'.acct = l.acct ∧ l'.st.maxTtl = l.st.maxTtl) ∨
    (∃ a ttl ct, op = .init a ttl ct ∧
      l' = ⟨s.nextLink, a, .valid (intentMaxTtl ct (clampTtl ttl))⟩) := by
  have keep : l' ∈ s.links →
      (∃ l ∈ s.links, l'.id = l.id ∧ l'.acct = l.acct ∧ l'.st.maxTtl = l.st.maxTtl) :=
    fun h => ⟨l', h, rfl, rfl, rfl⟩
  have viaSet : ∀ a id t se st, l' ∈ setLink a id t se st s.links →
      (∃ l ∈ s.links, l'.id = l.id ∧ l'.acct = l.acct ∧ l'.st.maxTtl = l.st.maxTtl) := by
    intro a id t se st hm
    obtain ⟨l, hl, h1, h2, h3, _⟩ := mem_setLink hm
    exact ⟨l, hl, h1, h2, h3⟩
  cases op with
  | init a ttl ct =>
    simp only [step, doInit_eq, List.mem_append, List.mem_filter, List.mem_singleton] at h
    rcases h with h | h
    · exact Or.inl (keep h.1)
    · exact Or.inr ⟨a, ttl, ct, rfl, h⟩
  | exchange id ct sid =>
    simp only [step] at h
    rcases doExchange_cases s id ct sid with ⟨e, he⟩ | ⟨l, _, _, _, he⟩
    · rw [he] at h; exact Or.inl (keep h)
    · rw [he] at h; exact Or.inl (viaSet _ _ _ _ _ h)
  | direct a ct sid =>
    simp only [step, doDirect_eq] at h
    exact Or.inl (keep h)
  | setpw tok v ct =>
    simp only [step] at h
    rcases doSetpw_cases s tok v ct with ⟨e, he⟩ | he
    · rw [he] at h; exact Or.inl (keep h)
    · rw [he] at h; exact Or.inl (keep h)
  | commit tok ct =>
    simp only [step] at h
    rcases doCommit_cases s tok ct with ⟨e, he⟩ | ⟨se, _, _, he⟩ | ⟨se, lid, _, _, _, he⟩
    · rw [he] at h; exact Or.inl (keep h)
    · rw [he] at h; exact Or.inl (keep h)
    · rw [he] at h; exact Or.inl (viaSet _ _ _ _ _ h)
  | cancel tok ct =>
    simp only [step] at h
    rcases doCancel_cases s tok ct with ⟨e, he⟩ | ⟨se, _, _, he⟩ | ⟨se, lid, _, _, _, he⟩
    · rw [he] at h; exact Or.inl (keep h)
    · rw [he] at h; exact Or.inl (keep h)
    · rw [he] at h; exact Or.inl (viaSet _ _ _ _ _ h)
  | revoke id ct =>
    simp only [step] at h
    rcases doRevoke_cases s id with he | he
    · rw [he] at h; exact Or.inl (keep h)
    · rw [he] at h
      simp only [List.mem_filterMap] at h
      obtain ⟨l, hl, hf⟩ := h
      obtain ⟨h1, h2, h3, _⟩ := revokeF_some (id := id) hf
      exact Or.inl ⟨l, hl, h1, h2, h3⟩

theorem step_nextLink (s : State) (op : Op) :
    (step s op).1.nextLink = s.nextLink ∨
      (∃ a ttl ct, op = .init a ttl ct ∧ (step s op).1.nextLink = s.nextLink + 1) := by
  cases op with
  | init a ttl ct => exact Or.inr ⟨a, ttl, ct, rfl, rfl⟩
  | exchange id ct sid =>
    left; simp only [step]
    rcases doExchange_cases s id ct sid with ⟨e, he⟩ | ⟨l, _, _, _, he⟩ <;> rw [he]
  | direct a ct sid => left; rfl
  | setpw tok v ct =>
    left; simp only [step]
    rcases doSetpw_cases s tok v ct with ⟨e, he⟩ | he <;> rw [he]
  | commit tok ct =>
    left; simp only [step]
    rcases doCommit_cases s tok ct with ⟨e, he⟩ | ⟨se, _, _, he⟩ | ⟨se, lid, _, _, _, he⟩ <;> rw [he]
  | cancel tok ct =>
    left; simp only [step]
    rcases doCancel_cases s tok ct with ⟨e, he⟩ | ⟨se, _, _, he⟩ | ⟨se, lid, _, _, _, he⟩ <;> rw [he]
  | revoke id ct =>
    left; simp only [step]
    rcases doRevoke_cases s id with he | he <;> rw [he]

theorem step_nextLink_le (s : State) (op : Op) : s.nextLink ≤ (step s op).1.nextLink := by
  rcases step_nextLink s op with h | ⟨_, _, _, _, h⟩ <;> omega

/-- The ids stored after a step: a sublist of the old ids, plus the fresh id after `init`. -/
theorem step_ids (s : State) (op : Op) :
    ((step s op).1.links.map (·.id)).Sublist (s.links.map (·.id)) ∨
    (∃ a ttl ct, op = .init a ttl ct ∧ ∃ ls : List Link,
      (ls.map (·.id)).Sublist (s.links.map (·.id)) ∧
      (step s op).1.links.map (·.id) = ls.map (·.id) ++ [s.nextLink]) := by
  cases op with
  | init a ttl ct =>
    refine Or.inr ⟨a, ttl, ct, rfl, s.links.filter (fun l => !(l.acct == a && purgeOld ct l.st.maxTtl)), ?_, ?_⟩
    · exact List.Sublist.map _ List.filter_sublist
    · simp [step, doInit_eq]
  | exchange id ct sid =>
    left; simp only [step]
    rcases doExchange_cases s id ct sid with ⟨e, he⟩ | ⟨l, _, _, _, he⟩ <;> rw [he]
    · exact List.Sublist.refl _
    · exact setLink_ids_sublist _ _ _ _ _ _
  | direct a ct sid => left; exact List.Sublist.refl _
  | setpw tok v ct =>
    left; simp only [step]
    rcases doSetpw_cases s tok v ct with ⟨e, he⟩ | he <;> rw [he] <;> exact List.Sublist.refl _
  | commit tok ct =>
    left; simp only [step]
    rcases doCommit_cases s tok ct with ⟨e, he⟩ | ⟨se, _, _, he⟩ | ⟨se, lid, _, _, _, he⟩ <;> rw [he]
    · exact List.Sublist.refl _
    · exact List.Sublist.refl _
    · exact setLink_ids_sublist _ _ _ _ _ _
  | cancel tok ct =>
    left; simp only [step]
    rcases doCancel_cases s tok ct with ⟨e, he⟩ | ⟨se, _, _, he⟩ | ⟨se, lid, _, _, _, he⟩ <;> rw [he]
    · exact List.Sublist.refl _
    · exact List.Sublist.refl _
    · exact setLink_ids_sublist _ _ _ _ _ _
  | revoke id ct =>
    left; simp only [step]
    rcases doRevoke_cases s id with he | he <;> rw [he]
    · exact List.Sublist.refl _
    · exact filterMap_ids_sublist (revokeF id) (fun l x h => (revokeF_some h).1) _

theorem wf_empty : WF State.empty := by
  simp [WF, State.empty]

/-- Well-formedness is preserved by every operation. -/
theorem wf_step {s : State} (h : WF s) (op : Op) : WF (step s op).1 := by
  refine ⟨?_, ?_⟩
  · rcases step_ids s op with hs | ⟨a, ttl, ct, _, ls, hls, heq⟩
    · exact List.Nodup.sublist hs h.1
    · rw [heq, List.nodup_append]
      refine ⟨List.Nodup.sublist hls h.1, by simp, ?_⟩
      intro x hx y hy
      simp only [List.mem_singleton] at hy
      subst hy
      have hx' := hls.subset hx
      simp only [List.mem_map] at hx'
      obtain ⟨l, hl, rfl⟩ := hx'
      have := h.2 l hl
      omega
  · intro l' hl'
    have hn := step_nextLink_le s op
    rcases step_link_origin s op hl' with ⟨l, hl, hid, _, _⟩ | ⟨a, ttl, ct, hop, heq⟩
    · have := h.2 l hl
      omega
    · subst hop; subst heq
      simp [step, doInit_eq]

/-! ## `Dead`: a consumed link stays consumed and is refused everywhere -/

/-- A step from a state where `L` is dead keeps it dead, and the step is neither a successful
exchange of `L` nor a successful commit for `L`. -/
theorem dead_step {s : State} {L : Nat} (h : Dead s L) (op : Op) :
    Dead (step s op).1 L ∧ isExchangeOk L (op, (step s op).2) = false ∧
      isCommitFor L (op, (step s op).2) = false := by
  obtain ⟨hlt, hall⟩ := h
  have hn := step_nextLink_le s op
  -- a stored link rewritten by `setLink … id …` with `id ≠ L` keeps every `L`-link as it was
  have viaSet : ∀ a id t se st, id ≠ L → ∀ l' ∈ setLink a id t se st s.links, l'.id = L →
      l'.st.tag = .consumed := by
    intro a id t se st hne l' hm hid
    obtain ⟨l, hl, h1, _, _, hc | hc⟩ := mem_setLink hm
    · exact absurd (hc.1.symm.trans (h1.symm.trans hid)) hne
    · rw [hc.2]; exact hall l hl (by rw [← hc.2]; exact hid)
  cases op with
  | init a ttl ct =>
    refine ⟨⟨by simp only [step, doInit_eq]; omega, ?_⟩, rfl, rfl⟩
    intro l' hl' hid
    simp only [step, doInit_eq, List.mem_append, List.mem_filter, List.mem_singleton] at hl'
    rcases hl' with hl' | hl'
    · exact hall l' hl'.1 hid
    · subst hl'; simp at hid; omega
  | exchange id ct sid =>
    simp only [step]
    rcases doExchange_cases s id ct sid with ⟨e, he⟩ | ⟨l, hone, hg, _, he⟩
    · rw [he]; exact ⟨⟨hlt, hall⟩, rfl, rfl⟩
    · obtain ⟨hl, hlid, _⟩ := filter_singleton hone
      have hne : id ≠ L := by
        intro heq
        have := hall l hl (hlid.trans heq)
        rcases exchange_gate_none hg with h | h <;> rw [this] at h <;> cases h
      rw [he]
      refine ⟨⟨hlt, fun l' hl' hid => viaSet _ _ _ _ _ hne l' hl' hid⟩, ?_, rfl⟩
      simp [isExchangeOk, hne]
  | direct a ct sid =>
    simp only [step, doDirect_eq]
    exact ⟨⟨hlt, hall⟩, rfl, rfl⟩
  | setpw tok v ct =>
    simp only [step]
    rcases doSetpw_cases s tok v ct with ⟨e, he⟩ | he <;> rw [he] <;> exact ⟨⟨hlt, hall⟩, rfl, rfl⟩
  | commit tok ct =>
    simp only [step]
    rcases doCommit_cases s tok ct with ⟨e, he⟩ | ⟨se, _, _, he⟩ | ⟨se, lid, _, _, hg, he⟩
    · rw [he]; exact ⟨⟨hlt, hall⟩, rfl, rfl⟩
    · rw [he]; exact ⟨⟨hlt, hall⟩, rfl, rfl⟩
    · obtain ⟨l, m, t, hl?, hst⟩ := commit_gate_none hg
      obtain ⟨hl, hlid, _⟩ := linkOf_some hl?
      have hne : lid ≠ L := by
        intro heq
        have := hall l hl (hlid.trans heq)
        rw [hst] at this; cases this
      rw [he]
      refine ⟨⟨hlt, fun l' hl' hid => viaSet _ _ _ _ _ hne l' hl' hid⟩, rfl, ?_⟩
      simp [isCommitFor, hne]
  | cancel tok ct =>
    simp only [step]
    rcases doCancel_cases s tok ct with ⟨e, he⟩ | ⟨se, _, _, he⟩ | ⟨se, lid, _, _, hg, he⟩
    · rw [he]; exact ⟨⟨hlt, hall⟩, rfl, rfl⟩
    · rw [he]; exact ⟨⟨hlt, hall⟩, rfl, rfl⟩
    · obtain ⟨l, m, t, hl?, hst⟩ := cancel_gate_none hg
      obtain ⟨hl, hlid, _⟩ := linkOf_some hl?
      have hne : lid ≠ L := by
        intro heq
        have := hall l hl (hlid.trans heq)
        rw [hst] at this; cases this
      rw [he]
      exact ⟨⟨hlt, fun l' hl' hid => viaSet _ _ _ _ _ hne l' hl' hid⟩, rfl, rfl⟩
  | revoke id ct =>
    simp only [step]
    rcases doRevoke_cases s id with he | he
    · rw [he]; exact ⟨⟨hlt, hall⟩, rfl, rfl⟩
    · rw [he]
      refine ⟨⟨hlt, ?_⟩, rfl, rfl⟩
      intro l' hl' hid
      simp only [List.mem_filterMap] at hl'
      obtain ⟨l, hl, hf⟩ := hl'
      obtain ⟨h1, _, _, hc | hc⟩ := revokeF_some (id := id) hf
      · rw [hc.2]; exact writes_tags.2.2.2
      · rw [hc]; exact hall l hl (by rw [← hc]; exact hid)

/-- From a state where `L` is dead, no event of any continuation is a successful exchange of `L`
or a successful commit for `L`. -/
theorem dead_trace {s : State} {L : Nat} (h : Dead s L) (ops : List Op) :
    ∀ ev ∈ trace s ops, isExchangeOk L ev = false ∧ isCommitFor L ev = false := by
  induction ops generalizing s with
  | nil => intro ev hev; simp [trace] at hev
  | cons op ops ih =>
    intro ev hev
    simp only [trace, List.mem_cons] at hev
    obtain ⟨hd, hx, hc⟩ := dead_step h op
    rcases hev with rfl | hev
    · exact ⟨hx, hc⟩
    · exact ih hd ev hev

/-- A successful commit for `L` leaves `L` dead. -/
theorem commit_dead {s : State} (hwf : WF s) {L : Nat} {op : Op}
    (h : isCommitFor L (op, (step s op).2) = true) : Dead (step s op).1 L := by
  cases op with
  | commit tok ct =>
    simp only [step] at h ⊢
    rcases doCommit_cases s tok ct with ⟨e, he⟩ | ⟨se, _, _, he⟩ | ⟨se, lid, _, _, hg, he⟩
    · rw [he] at h; simp [isCommitFor] at h
    · rw [he] at h; simp [isCommitFor] at h
    · rw [he] at h ⊢
      simp only [isCommitFor, beq_iff_eq] at h
      subst h
      obtain ⟨l, m, t, hl?, hst⟩ := commit_gate_none hg
      obtain ⟨hl, hlid, hacct⟩ := linkOf_some hl?
      refine ⟨by have := hwf.2 l hl; simp only; omega, ?_⟩
      intro l' hl' hid
      obtain ⟨l0, hl0, h1, _, _, hc | hc⟩ := mem_setLink hl'
      · exact (mkState_tag hc.2.2).trans writes_tags.2.1
      · -- `l0` has id `lid`, so by uniqueness of ids it is `l`, whose account is the session's
        exfalso
        have hid0 : l0.id = l.id := by rw [← h1, hid, hlid]
        have : l0 = l := by
          have hnd := hwf.1
          exact eq_of_nodup_ids hnd hl0 hl hid0
        exact hc.1 ⟨by rw [this]; exact hlid, by rw [this]; exact hacct⟩
  | init a ttl ct => simp [step, doInit_eq, isCommitFor] at h
  | exchange id ct sid =>
    simp only [step] at h
    rcases doExchange_cases s id ct sid with ⟨e, he⟩ | ⟨l, _, _, _, he⟩ <;> rw [he] at h <;>
      simp [isCommitFor] at h
  | direct a ct sid => simp [step, doDirect_eq, isCommitFor] at h
  | setpw tok v ct =>
    simp only [step] at h
    rcases doSetpw_cases s tok v ct with ⟨e, he⟩ | he <;> rw [he] at h <;> simp [isCommitFor] at h
  | cancel tok ct =>
    simp only [step] at h
    rcases doCancel_cases s tok ct with ⟨e, he⟩ | ⟨se, _, _, he⟩ | ⟨se, lid, _, _, _, he⟩ <;>
      rw [he] at h <;> simp [isCommitFor] at h
  | revoke id ct =>
    simp only [step] at h
    rcases doRevoke_cases s id with he | he <;> rw [he] at h <;> simp [isCommitFor] at h

/-! ## `TtlIs`: a link's expiry never moves -/

theorem ttl_step {s : State} {L M : Nat} (h : TtlIs s L M) (op : Op) : TtlIs (step s op).1 L M := by
  refine ⟨by have := step_nextLink_le s op; have := h.1; omega, ?_⟩
  intro l' hl' hid
  rcases step_link_origin s op hl' with ⟨l, hl, h1, _, h3⟩ | ⟨a, ttl, ct, _, heq⟩
  · rw [h3]; exact h.2 l hl (h1.symm.trans hid)
  · subst heq; simp at hid; have := h.1; omega

theorem ttl_run {s : State} {L M : Nat} (h : TtlIs s L M) (ops : List Op) : TtlIs (run s ops) L M := by
  induction ops generalizing s with
  | nil => exact h
  | cons op ops ih => exact ih (ttl_step h op)

/-- An exchange that succeeds happens strictly before the link's expiry. -/
theorem ttl_exchange {s : State} {L M ct sid : Nat} {k : Token} (h : TtlIs s L M)
    (hr : (step s (.exchange L ct sid)).2 = .token k) : ct < M := by
  simp only [step] at hr
  rcases doExchange_cases s L ct sid with ⟨e, he⟩ | ⟨l, hone, _, hx, _⟩
  · rw [he] at hr; cases hr
  · obtain ⟨hl, hlid, _⟩ := filter_singleton hone
    rw [h.2 l hl hlid] at hx
    simpa [intentExpired] using hx

/-- `init` announces the expiry it stores: afterwards the fresh link expires exactly then. -/
theorem init_ttl {s : State} (hwf : WF s) {a : Nat} {ttl : Option Nat} {ct L M : Nat}
    (hr : (step s (.init a ttl ct)).2 = .link L M) : TtlIs (step s (.init a ttl ct)).1 L M := by
  simp only [step, doInit_eq, Res.link.injEq] at hr ⊢
  obtain ⟨rfl, rfl⟩ := hr
  refine ⟨by simp, ?_⟩
  intro l' hl' hid
  simp only [List.mem_append, List.mem_filter, List.mem_singleton] at hl'
  rcases hl' with hl' | hl'
  · have := hwf.2 l' hl'.1; omega
  · subst hl'; rfl

/-! ## `Blocked`: a superseded session id can neither commit nor cancel -/

/-- Every session stored under id `X` originated from link `L`. -/
def SessOwned (s : State) (X : SessId) (L : Nat) : Prop :=
  ∀ se ∈ s.sessions, se.id = X → se.link = some L

/-- Sessions under id `X` belong to link `L`, and no stored copy of `L` is in progress under `X`. -/
def Blocked (s : State) (X : SessId) (L : Nat) : Prop :=
  SessOwned s X L ∧ ∀ l ∈ s.links, l.id = L → l.st.sess? ≠ some X

/-- The event hands out a token for session id `X` (an exchange or a link-less session start). -/
def mintsSess (X : SessId) : Op × Res → Bool
  | (_, .token k) => k.sess == X
  | _ => false

theorem sess_none_of_tag {st : LState} (h : st.tag ≠ .inProgress) : st.sess? = none := by
  cases st <;> simp [LState.tag, LState.sess?] at h ⊢

theorem mem_createSession {s : State} {id : SessId} {link : Option Nat} {a ct sid : Nat} {se : Sess}
    (h : se ∈ (createSession s id link a ct sid).1) :
    (se ∈ s.sessions ∧ se.id ≠ id) ∨ se = ⟨id, link, a, getCred a s.creds⟩ := by
  simp only [createSession, insertSess, expire, List.mem_append, List.mem_filter,
    List.mem_singleton] at h
  rcases h with h | h
  · exact Or.inl ⟨h.1.1, by simpa using h.2⟩
  · exact Or.inr h

theorem createSession_tok (s : State) (id : SessId) (link : Option Nat) (a ct sid : Nat) :
    (createSession s id link a ct sid).2.sess = id := rfl

/-- After a successful exchange of `L`, the sessions under the new token's id belong to `L`. -/
theorem owned_after_exchange {s : State} {L ct sid : Nat} {k : Token}
    (hr : (step s (.exchange L ct sid)).2 = .token k) :
    SessOwned (step s (.exchange L ct sid)).1 k.sess L := by
  simp only [step] at hr ⊢
  rcases doExchange_cases s L ct sid with ⟨e, he⟩ | ⟨l, _, _, _, he⟩
  · rw [he] at hr; cases hr
  · rw [he] at hr ⊢
    simp only [Res.token.injEq] at hr
    subst hr
    intro se hse hid
    rcases mem_createSession hse with h | h
    · exact absurd hid h.2
    · rw [h]

/-- Session ownership survives every step that does not hand out a token for `X`. -/
theorem owned_step {s : State} {X : SessId} {L : Nat} (h : SessOwned s X L) (op : Op)
    (hm : mintsSess X (op, (step s op).2) = false) : SessOwned (step s op).1 X L := by
  have sub : ∀ p : Sess → Bool, ∀ se ∈ s.sessions.filter p, se.id = X → se.link = some L :=
    fun p se hse hid => h se (List.mem_filter.mp hse).1 hid
  cases op with
  | init a ttl ct => exact h
  | exchange id ct sid =>
    simp only [step] at hm ⊢
    rcases doExchange_cases s id ct sid with ⟨e, he⟩ | ⟨l, _, _, _, he⟩
    · rw [he]; exact h
    · rw [he] at hm ⊢
      simp only [mintsSess, createSession_tok, beq_eq_false_iff_ne, ne_eq] at hm
      intro se hse hid
      rcases mem_createSession hse with h' | h'
      · exact h se h'.1 hid
      · rw [h'] at hid; exact absurd hid hm
  | direct a ct sid =>
    simp only [step, doDirect_eq] at hm ⊢
    simp only [mintsSess, createSession_tok, beq_eq_false_iff_ne, ne_eq] at hm
    intro se hse hid
    rcases mem_createSession hse with h' | h'
    · exact h se h'.1 hid
    · rw [h'] at hid; exact absurd hid hm
  | setpw tok v ct =>
    simp only [step]
    rcases doSetpw_cases s tok v ct with ⟨e, he⟩ | he
    · rw [he]; exact h
    · rw [he]
      intro se hse hid
      simp only [List.mem_map] at hse
      obtain ⟨se0, hse0, heq⟩ := hse
      split at heq
      · subst heq; exact h se0 hse0 hid
      · subst heq; exact h se0 hse0 hid
  | commit tok ct =>
    simp only [step]
    rcases doCommit_cases s tok ct with ⟨e, he⟩ | ⟨se, _, _, he⟩ | ⟨se, lid, _, _, _, he⟩ <;> rw [he]
    · exact h
    · exact sub _
    · exact sub _
  | cancel tok ct =>
    simp only [step]
    rcases doCancel_cases s tok ct with ⟨e, he⟩ | ⟨se, _, _, he⟩ | ⟨se, lid, _, _, _, he⟩ <;> rw [he]
    · exact h
    · exact sub _
    · exact sub _
  | revoke id ct =>
    simp only [step]
    rcases doRevoke_cases s id with he | he <;> rw [he] <;> exact h

/-- Once `L` has been exchanged again under another session id, `X` is blocked. -/
theorem blocked_after_exchange {s : State} {X : SessId} {L ct sid : Nat} {k : Token}
    (h : SessOwned s X L) (hr : (step s (.exchange L ct sid)).2 = .token k) (hne : k.sess ≠ X) :
    Blocked (step s (.exchange L ct sid)).1 X L := by
  refine ⟨owned_step h _ (by rw [hr]; simpa [mintsSess] using hne), ?_⟩
  simp only [step] at hr ⊢
  rcases doExchange_cases s L ct sid with ⟨e, he⟩ | ⟨l, hone, _, _, he⟩
  · rw [he] at hr; cases hr
  · rw [he] at hr ⊢
    simp only [Res.token.injEq] at hr
    subst hr
    obtain ⟨_, _, huniq⟩ := filter_singleton hone
    intro l' hl' hid
    obtain ⟨l0, hl0, h1, _, _, hc | hc⟩ := mem_setLink hl'
    · rcases mkState_sess hc.2.2 with hs | hs
      · rw [hs]; simp
      · rw [hs]; simpa [createSession_tok] using hne
    · exfalso
      have h0 : l0.id = L := h1.symm.trans hid
      have := huniq l0 hl0 h0
      exact hc.1 ⟨h0, by rw [this]⟩

/-- Blocking survives every step that does not hand out a token for `X`. -/
theorem blocked_step {s : State} {X : SessId} {L : Nat} (h : Blocked s X L) (op : Op)
    (hm : mintsSess X (op, (step s op).2) = false) : Blocked (step s op).1 X L := by
  refine ⟨owned_step h.1 op hm, ?_⟩
  have hall := h.2
  -- a link rewritten to a state that is not in progress, or in progress under another id
  have viaSet : ∀ a id t se st, (t = .inProgress → se ≠ X) →
      ∀ l' ∈ setLink a id t se st s.links, l'.id = L → l'.st.sess? ≠ some X := by
    intro a id t se st hse l' hl' hid
    obtain ⟨l0, hl0, h1, _, _, hc | hc⟩ := mem_setLink hl'
    · by_cases ht : t = .inProgress
      · rcases mkState_sess hc.2.2 with hs | hs
        · rw [hs]; simp
        · rw [hs]; simpa using hse ht
      · rw [sess_none_of_tag (by rw [mkState_tag hc.2.2]; exact ht)]; simp
    · rw [hc.2]; exact hall l0 hl0 (by rw [← hc.2]; exact hid)
  cases op with
  | init a ttl ct =>
    intro l' hl' hid
    simp only [step, doInit_eq, List.mem_append, List.mem_filter, List.mem_singleton] at hl'
    rcases hl' with hl' | hl'
    · exact hall l' hl'.1 hid
    · subst hl'; simp [LState.sess?]
  | exchange id ct sid =>
    simp only [step] at hm ⊢
    rcases doExchange_cases s id ct sid with ⟨e, he⟩ | ⟨l, _, _, _, he⟩
    · rw [he]; exact hall
    · rw [he] at hm ⊢
      simp only [mintsSess, createSession_tok, beq_eq_false_iff_ne, ne_eq] at hm
      exact viaSet _ _ _ _ _ (fun _ => hm)
  | direct a ct sid => exact hall
  | setpw tok v ct =>
    simp only [step]
    rcases doSetpw_cases s tok v ct with ⟨e, he⟩ | he <;> rw [he] <;> exact hall
  | commit tok ct =>
    simp only [step]
    rcases doCommit_cases s tok ct with ⟨e, he⟩ | ⟨se, _, _, he⟩ | ⟨se, lid, _, _, _, he⟩ <;> rw [he]
    · exact hall
    · exact hall
    · exact viaSet _ _ _ _ _ (fun ht => by rw [writes_tags.2.1] at ht; cases ht)
  | cancel tok ct =>
    simp only [step]
    rcases doCancel_cases s tok ct with ⟨e, he⟩ | ⟨se, _, _, he⟩ | ⟨se, lid, _, _, _, he⟩ <;> rw [he]
    · exact hall
    · exact hall
    · exact viaSet _ _ _ _ _ (fun ht => by rw [writes_tags.2.2.1] at ht; cases ht)
  | revoke id ct =>
    simp only [step]
    rcases doRevoke_cases s id with he | he <;> rw [he]
    · exact hall
    · intro l' hl' hid
      simp only [List.mem_filterMap] at hl'
      obtain ⟨l0, hl0, hf⟩ := hl'
      obtain ⟨h1, _, _, hc | hc⟩ := revokeF_some (id := id) hf
      · rw [sess_none_of_tag (by rw [hc.2, writes_tags.2.2.2]; decide)]; simp
      · rw [hc]; exact hall l0 hl0 (by rw [← hc]; exact hid)

theorem find_sess {sessions : List Sess} {X : SessId} {se : Sess}
    (h : sessions.find? (fun x => x.id == X) = some se) : se ∈ sessions ∧ se.id = X := by
  have h1 := List.mem_of_find?_eq_some h
  have h2 := List.find?_some h
  exact ⟨h1, by simpa using h2⟩

/-- A blocked session id is refused by commit and by cancel. -/
theorem blocked_refuses {s : State} {X : SessId} {L : Nat} (h : Blocked s X L) (k : Token)
    (hk : k.sess = X) (ct : Nat) :
    (∃ e, (step s (.commit k ct)).2 = .err e) ∧ (∃ e, (step s (.cancel k ct)).2 = .err e) := by
  constructor
  · simp only [step]
    rcases doCommit_cases s k ct with ⟨e, he⟩ | ⟨se, hf, hl, _⟩ | ⟨se, lid, hf, hl, hg, _⟩
    · exact ⟨e, by rw [he]⟩
    · obtain ⟨hse, hid⟩ := find_sess hf
      have := h.1 se hse (hid.trans hk)
      rw [hl] at this; cases this
    · exfalso
      obtain ⟨hse, hid⟩ := find_sess hf
      have hL := h.1 se hse (hid.trans hk)
      rw [hl] at hL
      simp only [Option.some.injEq] at hL
      subst hL
      obtain ⟨l, m, t, hl?, hst⟩ := commit_gate_none hg
      obtain ⟨hlm, hlid, _⟩ := linkOf_some hl?
      apply h.2 l hlm hlid
      rw [hst, hk]; rfl
  · simp only [step]
    rcases doCancel_cases s k ct with ⟨e, he⟩ | ⟨se, hf, hl, _⟩ | ⟨se, lid, hf, hl, hg, _⟩
    · exact ⟨e, by rw [he]⟩
    · obtain ⟨hse, hid⟩ := find_sess hf
      have := h.1 se hse (hid.trans hk)
      rw [hl] at this; cases this
    · exfalso
      obtain ⟨hse, hid⟩ := find_sess hf
      have hL := h.1 se hse (hid.trans hk)
      rw [hl] at hL
      simp only [Option.some.injEq] at hL
      subst hL
      obtain ⟨l, m, t, hl?, hst⟩ := cancel_gate_none hg
      obtain ⟨hlm, hlid, _⟩ := linkOf_some hl?
      apply h.2 l hlm hlid
      rw [hst, hk]; rfl

/-! ## Traces -/

theorem trace_append (s : State) (a b : List Op) :
    trace s (a ++ b) = trace s a ++ trace (run s a) b := by
  induction a generalizing s with
  | nil => rfl
  | cons op a ih => simp [trace, run, ih]

theorem run_append (s : State) (a b : List Op) : run s (a ++ b) = run (run s a) b := by
  induction a generalizing s with
  | nil => rfl
  | cons op a ih => simp [run, ih]

theorem ttl_trace {s : State} {L M : Nat} (h : TtlIs s L M) (ops : List Op) :
    ∀ ev ∈ trace s ops, ∀ ct sid k, ev = (.exchange L ct sid, .token k) → ct < M := by
  induction ops generalizing s with
  | nil => intro ev hev; simp [trace] at hev
  | cons op ops ih =>
    intro ev hev ct sid k heq
    simp only [trace, List.mem_cons] at hev
    rcases hev with rfl | hev
    · simp only [Prod.mk.injEq] at heq
      obtain ⟨hop, hres⟩ := heq
      subst hop
      exact ttl_exchange h hres
    · exact ih (ttl_step h op) ev hev ct sid k heq

theorem res_link_init {s : State} {op : Op} {L M : Nat} (h : (step s op).2 = .link L M) :
    ∃ a ttl ct, op = .init a ttl ct := by
  cases op with
  | init a ttl ct => exact ⟨a, ttl, ct, rfl⟩
  | exchange id ct sid =>
    simp only [step] at h
    rcases doExchange_cases s id ct sid with ⟨e, he⟩ | ⟨l, _, _, _, he⟩ <;> rw [he] at h <;> cases h
  | direct a ct sid => simp [step, doDirect_eq] at h
  | setpw tok v ct =>
    simp only [step] at h
    rcases doSetpw_cases s tok v ct with ⟨e, he⟩ | he <;> rw [he] at h <;> cases h
  | commit tok ct =>
    simp only [step] at h
    rcases doCommit_cases s tok ct with ⟨e, he⟩ | ⟨se, _, _, he⟩ | ⟨se, lid, _, _, _, he⟩ <;>
      rw [he] at h <;> cases h
  | cancel tok ct =>
    simp only [step] at h
    rcases doCancel_cases s tok ct with ⟨e, he⟩ | ⟨se, _, _, he⟩ | ⟨se, lid, _, _, _, he⟩ <;>
      rw [he] at h <;> cases h
  | revoke id ct =>
    simp only [step] at h
    rcases doRevoke_cases s id with he | he <;> rw [he] at h <;> cases h

theorem owned_run {s : State} {X : SessId} {L : Nat} (h : SessOwned s X L) (ops : List Op)
    (hm : ∀ ev ∈ trace s ops, mintsSess X ev = false) : SessOwned (run s ops) X L := by
  induction ops generalizing s with
  | nil => exact h
  | cons op ops ih =>
    simp only [trace, List.mem_cons, forall_eq_or_imp] at hm
    exact ih (owned_step h op hm.1) hm.2

theorem blocked_trace {s : State} {X : SessId} {L : Nat} (h : Blocked s X L) (ops : List Op)
    (hm : ∀ ev ∈ trace s ops, mintsSess X ev = false) :
    ∀ ev ∈ trace s ops, ∀ k ct, k.sess = X → (ev.1 = .commit k ct ∨ ev.1 = .cancel k ct) →
      ∃ e, ev.2 = .err e := by
  induction ops generalizing s with
  | nil => intro ev hev; simp [trace] at hev
  | cons op ops ih =>
    simp only [trace, List.mem_cons, forall_eq_or_imp] at hm
    intro ev hev k ct hk hop
    simp only [trace, List.mem_cons] at hev
    rcases hev with rfl | hev
    · rcases hop with hop | hop <;> simp only at hop <;> subst hop
      · exact (blocked_refuses h k hk ct).1
      · exact (blocked_refuses h k hk ct).2
    · exact ih (blocked_step h op hm.1) hm.2 ev hev k ct hk hop

/-- The instant of an operation that can create a session. -/
def mintInstant : Op → Option Nat
  | .exchange _ ct _ => some ct
  | .direct _ ct _ => some ct
  | _ => none

/-- A token's session id carries the instant of the operation that created it. -/
theorem mint_time {s : State} {op : Op} {k : Token} (h : (step s op).2 = .token k) :
    ∃ ct, mintInstant op = some ct ∧ k.sess.t = ct + credUpdateTtl := by
  cases op with
  | init a ttl ct => simp [step, doInit_eq] at h
  | exchange id ct sid =>
    simp only [step] at h
    rcases doExchange_cases s id ct sid with ⟨e, he⟩ | ⟨l, _, _, _, he⟩ <;> rw [he] at h
    · cases h
    · simp only [Res.token.injEq] at h
      subst h
      exact ⟨ct, rfl, rfl⟩
  | direct a ct sid =>
    simp only [step, doDirect_eq, Res.token.injEq] at h
    subst h
    exact ⟨ct, rfl, rfl⟩
  | setpw tok v ct =>
    simp only [step] at h
    rcases doSetpw_cases s tok v ct with ⟨e, he⟩ | he <;> rw [he] at h <;> cases h
  | commit tok ct =>
    simp only [step] at h
    rcases doCommit_cases s tok ct with ⟨e, he⟩ | ⟨se, _, _, he⟩ | ⟨se, lid, _, _, _, he⟩ <;>
      rw [he] at h <;> cases h
  | cancel tok ct =>
    simp only [step] at h
    rcases doCancel_cases s tok ct with ⟨e, he⟩ | ⟨se, _, _, he⟩ | ⟨se, lid, _, _, _, he⟩ <;>
      rw [he] at h <;> cases h
  | revoke id ct =>
    simp only [step] at h
    rcases doRevoke_cases s id with he | he <;> rw [he] at h <;> cases h

/-- Operations whose instants all differ from `t` never hand out a token for a session id made
at `t`. -/
theorem no_mint_of_distinct_instants (s : State) (ops : List Op) (X : SessId) (t : Nat)
    (hX : X.t = t + credUpdateTtl) (hd : ∀ op ∈ ops, mintInstant op ≠ some t) :
    ∀ ev ∈ trace s ops, mintsSess X ev = false := by
  induction ops generalizing s with
  | nil => intro ev hev; simp [trace] at hev
  | cons op ops ih =>
    intro ev hev
    simp only [trace, List.mem_cons] at hev
    rcases hev with rfl | hev
    · cases hr : (step s op).2 with
      | token k =>
        obtain ⟨ct, hct, hk⟩ := mint_time hr
        have hne : ct ≠ t := by
          intro heq; subst heq
          exact hd op (by simp) hct
        simp only [mintsSess, beq_eq_false_iff_ne, ne_eq]
        intro heq
        rw [heq, hX] at hk
        omega
      | _ => simp [mintsSess]
    · exact ih (step s op).1 (fun op' hop' => hd op' (by simp [hop'])) ev hev

/-! ## Stored credentials -/

theorem getCred_setCred (a : Nat) (c : Option Nat) (creds : List (Nat × Nat)) :
    getCred a (setCred a c creds) = c := by
  cases c with
  | none =>
    simp only [setCred, getCred, Option.map_eq_none_iff, List.find?_eq_none]
    intro p hp
    simp only [List.mem_filter, bne_iff_ne, ne_eq] at hp
    simpa using hp.2
  | some x => simp [setCred, getCred]

/-- The stored credentials change only in a successful commit, and then to the session's value. -/
theorem creds_step (s : State) (op : Op) :
    (step s op).1.creds = s.creds ∨
      ∃ l a c, (step s op).2 = .committed l a c ∧ (step s op).1.creds = setCred a c s.creds := by
  cases op with
  | init a ttl ct => exact Or.inl rfl
  | exchange id ct sid =>
    simp only [step]
    rcases doExchange_cases s id ct sid with ⟨e, he⟩ | ⟨l, _, _, _, he⟩ <;> rw [he] <;> exact Or.inl rfl
  | direct a ct sid => exact Or.inl rfl
  | setpw tok v ct =>
    simp only [step]
    rcases doSetpw_cases s tok v ct with ⟨e, he⟩ | he <;> rw [he] <;> exact Or.inl rfl
  | commit tok ct =>
    simp only [step]
    rcases doCommit_cases s tok ct with ⟨e, he⟩ | ⟨se, _, _, he⟩ | ⟨se, lid, _, _, _, he⟩ <;> rw [he]
    · exact Or.inl rfl
    · exact Or.inr ⟨_, _, _, rfl, rfl⟩
    · exact Or.inr ⟨_, _, _, rfl, rfl⟩
  | cancel tok ct =>
    simp only [step]
    rcases doCancel_cases s tok ct with ⟨e, he⟩ | ⟨se, _, _, he⟩ | ⟨se, lid, _, _, _, he⟩ <;>
      rw [he] <;> exact Or.inl rfl
  | revoke id ct =>
    simp only [step]
    rcases doRevoke_cases s id with he | he <;> rw [he] <;> exact Or.inl rfl

/-! ## Cancel -/

theorem setLink_mem {a id : Nat} {t : Tag} {se : SessId} {st : Nat} {links : List Link} {l : Link}
    {x : LState} (hl : l ∈ links) (hid : l.id = id) (ha : l.acct = a)
    (hm : mkState t l.st.maxTtl se st = some x) :
    { l with st := x } ∈ setLink a id t se st links := by
  unfold setLink
  rw [List.mem_filterMap]
  refine ⟨l, hl, ?_⟩
  simp [hid, ha, hm]

theorem filter_id_of_nodup {links : List Link} (h : (links.map (·.id)).Nodup) {l : Link}
    (hl : l ∈ links) : links.filter (fun x => x.id == l.id) = [l] := by
  induction links with
  | nil => cases hl
  | cons x xs ih =>
    simp only [List.map_cons, List.nodup_cons, List.mem_map, not_exists, not_and] at h
    simp only [List.mem_cons] at hl
    rcases hl with rfl | hl
    · have : xs.filter (fun y => y.id == l.id) = [] := by
        rw [List.filter_eq_nil_iff]
        intro y hy
        have := h.1 y hy
        simpa using this
      simp [this]
    · have hne : ¬ (x.id == l.id) = true := by
        simpa using fun heq => h.1 l hl heq.symm
      rw [List.filter_cons, if_neg hne]
      exact ih h.2 hl

/-! ## Revoke -/

/-- The event is a successful revocation of link `L`. -/
def isRevokeOk (L : Nat) : Op × Res → Bool
  | (.revoke l _, .revoked) => l == L
  | _ => false

/-- A successful revocation of `L` leaves `L` dead. -/
theorem revoke_dead {s : State} (hwf : WF s) {L : Nat} {op : Op}
    (h : isRevokeOk L (op, (step s op).2) = true) : Dead (step s op).1 L := by
  cases op with
  | revoke id ct =>
    simp only [step] at h ⊢
    rcases doRevoke_cases s id with he | he
    · rw [he] at h; simp [isRevokeOk] at h
    · have hany : s.links.any (fun l => revokeTouches l id) = true := by
        unfold doRevoke at he
        split at he
        · assumption
        · simp at he
      rw [he] at h ⊢
      simp only [isRevokeOk, beq_iff_eq] at h
      subst h
      rw [List.any_eq_true] at hany
      obtain ⟨l0, hl0, ht0⟩ := hany
      refine ⟨by have := hwf.2 l0 hl0; have := (revoke_not_consumed ht0).1; simp only; omega, ?_⟩
      intro l' hl' hid
      simp only [List.mem_filterMap] at hl'
      obtain ⟨l, hl, hf⟩ := hl'
      obtain ⟨h1, _, _, hc | hc⟩ := revokeF_some (id := id) hf
      · rw [hc.2]; exact writes_tags.2.2.2
      · -- untouched although it carries the id: its arm is not `proceed`, so it is Consumed
        subst hc
        have hnt : revokeTouches l' id = false := by
          cases hb : revokeTouches l' id with
          | false => rfl
          | true =>
            exfalso
            rw [if_pos hb] at hf
            cases hm : mkState revokeWrites l'.st.maxTtl ⟨0, 0⟩ 0 with
            | none => simp [hm] at hf
            | some y =>
              simp [hm] at hf
              have ht := mkState_tag hm
              rw [writes_tags.2.2.2] at ht
              have := (revoke_not_consumed hb).2
              apply this
              have hy : y = l'.st := congrArg Link.st hf
              rw [← hy]
              exact ht
        unfold revokeTouches at hnt
        simp only [hid, beq_self_eq_true, Bool.true_and] at hnt
        cases hs : l'.st <;> simp [hs, LState.tag, revokeArm] at hnt ⊢
  | init a ttl ct => simp [isRevokeOk] at h
  | exchange id ct sid =>
    simp only [step] at h
    rcases doExchange_cases s id ct sid with ⟨e, he⟩ | ⟨l, _, _, _, he⟩ <;> rw [he] at h <;>
      simp [isRevokeOk] at h
  | direct a ct sid => simp [isRevokeOk] at h
  | setpw tok v ct =>
    simp only [step] at h
    rcases doSetpw_cases s tok v ct with ⟨e, he⟩ | he <;> rw [he] at h <;> simp [isRevokeOk] at h
  | commit tok ct =>
    simp only [step] at h
    rcases doCommit_cases s tok ct with ⟨e, he⟩ | ⟨se, _, _, he⟩ | ⟨se, lid, _, _, _, he⟩ <;>
      rw [he] at h <;> simp [isRevokeOk] at h
  | cancel tok ct =>
    simp only [step] at h
    rcases doCancel_cases s tok ct with ⟨e, he⟩ | ⟨se, _, _, he⟩ | ⟨se, lid, _, _, _, he⟩ <;>
      rw [he] at h <;> simp [isRevokeOk] at h

theorem wf_run {s : State} (h : WF s) (ops : List Op) : WF (run s ops) := by
  induction ops generalizing s with
  | nil => exact h
  | cons op ops ih => exact ih (wf_step h op)

end Kanidm.Intent
