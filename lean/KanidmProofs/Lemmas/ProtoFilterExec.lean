import KanidmProofs.Lemmas.ProtoFilter
import KanidmProofs.C01
import KanidmModel.ProtoFilterExec
/-!
C41 helper lemmas, part 2: the executed search (C02's `resolveIdx`/`optimise`, C01's `search`)
returns the standard answer whenever the translated filter means the standard meaning on every
entry and the finally resolved filter is safe.
-/
namespace Kanidm.ProtoFilter
open Kanidm.Filter

theorem lowerByte_eq : lowerByte = lowerNat := rfl

/-- the case-folding substring comparisons are compatible with the (lower-cased) trigraph index -/
theorem subSem_foldLower : SubSem (foldSem lowerNat) := by
  intro x n key h hk w hw
  cases x with
  | num a => cases n <;> simp [foldSem] at h
  | str xs =>
    cases n with
    | num b => simp [foldSem] at h
    | str ns =>
      simp only [subKey, Option.some.injEq] at hk
      subst hk
      simp only [subKeysOf]
      have hin : ns.map lowerNat <:+: xs.map lowerNat := by
        simp only [foldSem] at h
        rcases h with h | h | h
        · exact (isInfix_iff _ _).mp h
        · exact (List.isPrefixOf_iff_prefix.mp h).isInfix
        · exact (List.isSuffixOf_iff_suffix.mp h).isInfix
      exact mem_trigraphs_infix hin hw

theorem ignoreHidden_matches (S : ValSem) (self : Val) (uuidA : Nat) (e : Entry) (classA : Nat)
    (tomb recy : Val) (fc : FC) :
    (ignoreHidden classA tomb recy fc).matches S self uuidA e =
      (visible classA tomb recy e && fc.matches S self uuidA e) := by
  simp [ignoreHidden, FC.matches, FC.matchesAll, FC.matchesAny, visible]

/-- executed answer = standard answer, given that the translated filter means `sem` on every entry
and the finally resolved filter is safe (C01) -/
theorem exec_exact (S : ValSem) (hS : SubSem S) (w : World) (idx : Idx) (rep : Rep)
    (hI : IdxSound w idx) (lim : Limits) (c : AttrConsts) (self : Val) (m : Nat → IType → Option Nat)
    (sa sd : List F → List F) (hp : IsPerm sa) (hq : IsPerm sd) (classA : Nat) (tomb recy : Val)
    (fc : FC) (sem : Entry → Bool) (hsem : ∀ e, fc.matches S self c.uuidA e = sem e)
    (g : F) (hg : (ignoreHidden classA tomb recy fc).resolveIdx c self m = some g)
    (hsafe : (g.optimise sa sd).safe = true) :
    execSearch S lim w idx rep c self m sa sd classA tomb recy fc = some resLimit ∨
    execSearch S lim w idx rep c self m sa sd classA tomb recy fc =
      some (.ok (stdAnswer w classA tomb recy sem)) := by
  unfold execSearch
  rw [hg]
  simp only [Option.map]
  have hans : answer S w (g.optimise sa sd) = stdAnswer w classA tomb recy sem := by
    unfold answer stdAnswer
    apply List.filter_congr
    intro id _
    rw [optimise_preserves S (w.ent id) sa sd hp hq, resolveIdx_preserves S (w.ent id) c self m _ g hg,
      ignoreHidden_matches, hsem]
  rcases search_exact_partial S hS w idx rep hI lim _ hsafe with h | h
  · exact Or.inl (by rw [h])
  · exact Or.inr (by rw [h, hans])
end Kanidm.ProtoFilter
