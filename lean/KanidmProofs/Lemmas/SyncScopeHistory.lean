import KanidmProofs.Lemmas.SyncScopeApply
/-
C50: lemmas about user modifications, yield changes and histories of operations.
-/
namespace Kanidm.SyncScope
open Kanidm.Access.Write
open Kanidm.Gen.Access
open Kanidm.Gen.SyncScope

/-! ### what a user modification never changes -/

theorem applyUserMod_inv (e e' : Entry) (m : Mod) (h : applyUserMod e m = some e') :
    e'.uuid = e.uuid ∧ e'.cookie = e.cookie ∧ e'.yieldAuth = e.yieldAuth ∧ e'.life = e.life := by
  unfold applyUserMod at h
  split at h
  · split at h
    · injection h with h; subst h; exact ⟨rfl, rfl, rfl, rfl⟩
    · cases h
  · split at h
    · cases hf : applyField e.syncParent m with
      | none => simp [hf] at h
      | some p =>
        simp only [hf, Option.map] at h
        injection h with h; subst h; exact ⟨rfl, rfl, rfl, rfl⟩
    · split at h
      · cases hf : applyField e.extId m with
        | none => simp [hf] at h
        | some p =>
          simp only [hf, Option.map] at h
          injection h with h; subst h; exact ⟨rfl, rfl, rfl, rfl⟩
      · split at h
        · injection h with h; subst h; exact ⟨rfl, rfl, rfl, rfl⟩
        · split at h
          · injection h with h; subst h; exact ⟨rfl, rfl, rfl, rfl⟩
          · injection h with h; subst h; exact ⟨rfl, rfl, rfl, rfl⟩

theorem applyUserMods_inv : ∀ (ml : List Mod) (e e' : Entry), applyUserMods e ml = some e' →
    e'.uuid = e.uuid ∧ e'.cookie = e.cookie ∧ e'.yieldAuth = e.yieldAuth ∧ e'.life = e.life := by
  intro ml
  induction ml with
  | nil =>
    intro e e' h
    simp only [applyUserMods] at h
    injection h with h
    subst h
    exact ⟨rfl, rfl, rfl, rfl⟩
  | cons m rest ih =>
    intro e e' h
    simp only [applyUserMods] at h
    cases h1 : applyUserMod e m with
    | none => simp [h1] at h
    | some e1 =>
      simp only [h1] at h
      obtain ⟨a1, a2, a3, a4⟩ := applyUserMod_inv e e1 m h1
      obtain ⟨b1, b2, b3, b4⟩ := ih e1 e' h
      exact ⟨by rw [b1, a1], by rw [b2, a2], by rw [b3, a3], by rw [b4, a4]⟩

/-- every entry of the state after a user modification has the uuid of the entry at its place -/
theorem userModify_uuids (id : Ident) (acps : List AcpModify) (st st' : State) (target : Nat)
    (ml : List Mod) (h : userModify id acps st target ml = .ok st') :
    Rel2 (fun e e' => e'.uuid = e.uuid) st st' := by
  unfold userModify at h
  split at h
  · cases h
  · simp only at h
    split at h
    · cases h
    · split at h
      · cases h
      · split at h
        · cases h
        · injection h with h
          subst h
          apply Rel2.map_right
          intro x _
          split
          · cases hm : applyUserMods x ml with
            | none => simp
            | some x' => simp [(applyUserMods_inv ml x x' hm).1]
          · rfl

theorem setYield_uuids (st st' : State) (su : Nat) (y : Option (List Nat))
    (h : setYield st su y = .ok st') : Rel2 (fun e e' => e'.uuid = e.uuid) st st' := by
  unfold setYield at h
  split at h
  · cases h
  · injection h with h
    subst h
    apply Rel2.map_right
    intro x _
    split <;> rfl

/-- the part of an entry named by attribute `a` is the same in `e` and `e'` -/
structure SameAt (a : Nat) (e e' : Entry) : Prop where
  attrs : getA e'.attrs a = getA e.attrs a
  parent : a = A.SyncParentUuid → e'.syncParent = e.syncParent
  ext : a = A.SyncExternalId → e'.extId = e.extId
  cls : a = A.Class → e'.classes = e.classes
  sc : a = A.SyncClass → e'.syncClasses = e.syncClasses

theorem SameAt.refl (a : Nat) (e : Entry) : SameAt a e e :=
  ⟨rfl, fun _ => rfl, fun _ => rfl, fun _ => rfl, fun _ => rfl⟩

theorem SameAt.trans {a : Nat} {e e' e'' : Entry} (f : SameAt a e e') (g : SameAt a e' e'') :
    SameAt a e e'' :=
  ⟨by rw [g.attrs, f.attrs], fun h => by rw [g.parent h, f.parent h],
   fun h => by rw [g.ext h, f.ext h], fun h => by rw [g.cls h, f.cls h],
   fun h => by rw [g.sc h, f.sc h]⟩

theorem getA_applyAttr (k : Nat) (m : List (Nat × List Nat)) (md : Mod) (a : Nat) (h : k ≠ a) :
    getA (applyAttr k m md) a = getA m a := by
  have h' : a ≠ k := fun x => h x.symm
  cases md with
  | present _ v => simp [applyAttr, getA_addA, h']
  | removed _ v => simp [applyAttr, remA, getA_setA, h']
  | purged _ => simp [applyAttr, getA_purgeA, h']
  | set _ vs => simp [applyAttr, getA_setA, h']
  | assert _ _ => rfl

/-- a modification leaves everything it does not name alone -/
theorem applyUserMod_same (e e' : Entry) (m : Mod) (a : Nat) (hne : umodAttr m ≠ a)
    (h : applyUserMod e m = some e') : SameAt a e e' := by
  unfold applyUserMod at h
  split at h
  · split at h
    · injection h with h; subst h; exact SameAt.refl _ _
    · cases h
  · split at h
    · rename_i hk
      have hk' : umodAttr m = A.SyncParentUuid := by simpa using hk
      cases hf : applyField e.syncParent m with
      | none => simp [hf] at h
      | some p =>
        simp only [hf, Option.map] at h
        injection h with h; subst h
        exact ⟨rfl, fun ha => absurd (hk'.trans ha.symm) hne, fun _ => rfl, fun _ => rfl, fun _ => rfl⟩
    · split at h
      · rename_i hk
        have hk' : umodAttr m = A.SyncExternalId := by simpa using hk
        cases hf : applyField e.extId m with
        | none => simp [hf] at h
        | some p =>
          simp only [hf, Option.map] at h
          injection h with h; subst h
          exact ⟨rfl, fun _ => rfl, fun ha => absurd (hk'.trans ha.symm) hne, fun _ => rfl, fun _ => rfl⟩
      · split at h
        · rename_i hk
          have hk' : umodAttr m = A.Class := by simpa using hk
          injection h with h; subst h
          exact ⟨rfl, fun _ => rfl, fun _ => rfl, fun ha => absurd (hk'.trans ha.symm) hne, fun _ => rfl⟩
        · split at h
          · rename_i hk
            have hk' : umodAttr m = A.SyncClass := by simpa using hk
            injection h with h; subst h
            exact ⟨rfl, fun _ => rfl, fun _ => rfl, fun _ => rfl, fun ha => absurd (hk'.trans ha.symm) hne⟩
          · injection h with h; subst h
            exact ⟨getA_applyAttr _ _ _ _ hne, fun _ => rfl, fun _ => rfl, fun _ => rfl, fun _ => rfl⟩

theorem applyUserMods_same (a : Nat) : ∀ (ml : List Mod) (e e' : Entry),
    (∀ m, m ∈ ml → umodAttr m ≠ a) → applyUserMods e ml = some e' → SameAt a e e' := by
  intro ml
  induction ml with
  | nil =>
    intro e e' _ h
    simp only [applyUserMods] at h
    injection h with h
    subst h
    exact SameAt.refl _ _
  | cons m rest ih =>
    intro e e' hn h
    simp only [applyUserMods] at h
    cases h1 : applyUserMod e m with
    | none => simp [h1] at h
    | some e1 =>
      simp only [h1] at h
      exact (applyUserMod_same e e1 m a (hn m List.mem_cons_self) h1).trans
        (ih e1 e' (fun x hx => hn x (List.mem_cons_of_mem _ hx)) h)

/-- an asserting modification changes nothing -/
theorem applyUserMod_assert_same (e e' : Entry) (k v a : Nat)
    (h : applyUserMod e (.assert k v) = some e') : SameAt a e e' := by
  unfold applyUserMod at h
  simp only [umodAttr, isAssert, applyField, applyList, applyAttr, Option.map, if_true] at h
  have : e' = e := by
    by_cases c0 : frozenAttrs.contains k = true
    · simpa [c0] using h.symm
    · by_cases c1 : (k == A.SyncParentUuid) = true
      · simpa [c0, c1] using h.symm
      · by_cases c2 : (k == A.SyncExternalId) = true
        · simpa [c0, c1, c2] using h.symm
        · by_cases c3 : (k == A.Class) = true
          · simpa [c0, c1, c2, c3] using h.symm
          · by_cases c4 : (k == A.SyncClass) = true
            · simpa [c0, c1, c2, c3, c4] using h.symm
            · simpa [c0, c1, c2, c3, c4] using h.symm
  subst this
  exact SameAt.refl _ _

/-- modifications that do not name `a`, or only assert, leave the part named by `a` alone -/
theorem applyUserMods_same' (a : Nat) : ∀ (ml : List Mod) (e e' : Entry),
    (∀ m, m ∈ ml → isAssert m = true ∨ umodAttr m ≠ a) → applyUserMods e ml = some e' →
    SameAt a e e' := by
  intro ml
  induction ml with
  | nil =>
    intro e e' _ h
    simp only [applyUserMods] at h
    injection h with h
    subst h
    exact SameAt.refl _ _
  | cons m rest ih =>
    intro e e' hn h
    simp only [applyUserMods] at h
    cases h1 : applyUserMod e m with
    | none => simp [h1] at h
    | some e1 =>
      simp only [h1] at h
      have first : SameAt a e e1 := by
        rcases hn m List.mem_cons_self with ha | hne
        · cases m with
          | assert k v => exact applyUserMod_assert_same e e1 k v a h1
          | present _ _ => cases ha
          | removed _ _ => cases ha
          | purged _ => cases ha
          | set _ _ => cases ha
        · exact applyUserMod_same e e1 m a hne h1
      exact first.trans (ih e1 e' (fun x hx => hn x (List.mem_cons_of_mem _ hx)) h)

/-! ### steps -/

theorem step_cases (sch : Schema) (st : State) (op : Op) :
    step sch st op = st ∨ ∃ st', stepRes sch st op = .ok st' ∧ step sch st op = st' := by
  unfold step
  cases h : stepRes sch st op with
  | error e => exact .inl rfl
  | ok st' => exact .inr ⟨st', rfl, rfl⟩

theorem stepRes_sync_ok {sch : Schema} {st st' : State} {id : Ident} {req : Request} {later : Bool}
    (h : stepRes sch st (.sync id req later) = .ok st') : apply sch id st req = .ok st' := by
  unfold stepRes at h
  cases ha : apply sch id st req with
  | error e => simp [ha] at h
  | ok s =>
    simp only [ha] at h
    split at h
    · exact h
    · cases h

theorem stepRes_user_ok {sch : Schema} {st st' : State} {id : Ident} {acps : List AcpModify}
    {target : Nat} {ml : List Mod} {later : Bool}
    (h : stepRes sch st (.user id acps target ml later) = .ok st') :
    userModify id acps st target ml = .ok st' := by
  unfold stepRes at h
  cases ha : userModify id acps st target ml with
  | error e => simp [ha] at h
  | ok s =>
    simp only [ha] at h
    split at h
    · exact h
    · cases h

theorem run_cons (sch : Schema) (st : State) (op : Op) (ops : List Op) :
    run sch st (op :: ops) = run sch (step sch st op) ops := rfl

theorem run_nil (sch : Schema) (st : State) : run sch st [] = st := rfl

end Kanidm.SyncScope
