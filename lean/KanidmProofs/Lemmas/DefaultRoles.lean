import KanidmProofs.C24
import KanidmModel.Access.DefaultRoles
/-
Helper lemmas for C25: the upward closure stays inside every set that is closed under the
nesting; the three-valued reading `hpEval` of a target filter is sound for every entry that is a
member of the high-privilege group and is not the caller.
-/
namespace Kanidm.Access.Default
open Kanidm.Filter
open Kanidm.Access.Write
open Kanidm.Gen.Access
open Kanidm.Gen

/-! ### closure -/

/-- `mo` is closed under the nesting `gs`: with a group it contains every group that group is a
`member` of — what `memberof` is (plugins/memberof.rs; C17). -/
def Closed (gs : List (Nat × List Nat)) (mo : List Nat) : Prop :=
  ∀ g, g ∈ mo → ∀ p ms, (p, ms) ∈ gs → g ∈ ms → p ∈ mo

theorem mem_parentsOf {gs : List (Nat × List Nat)} {x p : Nat} :
    p ∈ parentsOf gs x ↔ ∃ ms, (p, ms) ∈ gs ∧ x ∈ ms := by
  unfold parentsOf
  simp only [List.mem_map, List.mem_filter, List.contains_iff_mem]
  constructor
  · rintro ⟨⟨q, ms⟩, ⟨hmem, hx⟩, rfl⟩
    exact ⟨ms, hmem, hx⟩
  · rintro ⟨ms, hmem, hx⟩
    exact ⟨(p, ms), ⟨hmem, hx⟩, rfl⟩

theorem mem_addNew {x : Nat} : ∀ (l acc : List Nat), x ∈ addNew acc l → x ∈ acc ∨ x ∈ l
  | [], acc, h => Or.inl h
  | p :: ps, acc, h => by
    unfold addNew at h
    rcases mem_addNew ps _ h with h' | h'
    · split at h'
      · exact Or.inl h'
      · rcases List.mem_append.mp h' with h'' | h''
        · exact Or.inl h''
        · rw [List.mem_singleton] at h''
          exact Or.inr (h'' ▸ List.mem_cons_self)
    · exact Or.inr (List.mem_cons_of_mem _ h')

theorem closeStep_subset {gs : List (Nat × List Nat)} {mo s : List Nat} (hc : Closed gs mo)
    (hs : ∀ x, x ∈ s → x ∈ mo) : ∀ x, x ∈ closeStep gs s → x ∈ mo := by
  intro x hx
  unfold closeStep at hx
  rcases mem_addNew _ _ hx with h | h
  · exact hs x h
  · rw [List.mem_flatMap] at h
    obtain ⟨g, hg, hp⟩ := h
    obtain ⟨ms, hmem, hgm⟩ := mem_parentsOf.mp hp
    exact hc g (hs g hg) x ms hmem hgm

theorem closeN_subset {gs : List (Nat × List Nat)} {mo : List Nat} (hc : Closed gs mo) :
    ∀ (n : Nat) (s : List Nat), (∀ x, x ∈ s → x ∈ mo) → ∀ x, x ∈ closeN gs n s → x ∈ mo
  | 0, _, hs, x, hx => hs x hx
  | n + 1, s, hs, x, hx => by
    unfold closeN at hx
    simp only [] at hx
    split at hx
    · exact hs x hx
    · exact closeN_subset hc n _ (closeStep_subset hc hs) x hx

/-- **The closure is the least closed set**: whatever the model computes as `memberof` for the
direct memberships `direct` is contained in every closed set that contains `direct`. -/
theorem memberofClosure_subset {gs : List (Nat × List Nat)} {mo direct : List Nat}
    (hc : Closed gs mo) (hd : ∀ x, x ∈ direct → x ∈ mo) :
    ∀ x, x ∈ memberofClosure gs direct → x ∈ mo :=
  closeN_subset hc _ _ hd

/-- A member of a group of the high-privilege closure has the high-privilege group in its
`memberof`. -/
theorem hp_of_mem_hpGroups {gs : List (Nat × List Nat)} {mo : List Nat} {hp g : Nat}
    (hc : Closed gs mo) (hg : g ∈ mo) (hh : g ∈ hpGroupsOf gs hp) : hp ∈ mo := by
  unfold hpGroupsOf at hh
  rw [List.mem_filter] at hh
  obtain ⟨_, hh⟩ := hh
  rw [Bool.or_eq_true] at hh
  rcases hh with h | h
  · have : g = hp := by simpa using h
    exact this ▸ hg
  · rw [List.contains_iff_mem] at h
    refine memberofClosure_subset hc ?_ hp h
    intro x hx
    rw [List.mem_singleton] at hx
    exact hx ▸ hg

/-! ### three-valued target evaluation -/

theorem kleeneAnd_sound {a b : Option Bool} {x y r : Bool}
    (ha : ∀ v, a = some v → x = v) (hb : ∀ v, b = some v → y = v)
    (h : kleeneAnd a b = some r) : (x && y) = r := by
  rcases a with _ | _ | _ <;> rcases b with _ | _ | _ <;> cases x <;> cases y <;> cases r <;>
    simp_all [kleeneAnd]

theorem kleeneOr_sound {a b : Option Bool} {x y r : Bool}
    (ha : ∀ v, a = some v → x = v) (hb : ∀ v, b = some v → y = v)
    (h : kleeneOr a b = some r) : (x || y) = r := by
  rcases a with _ | _ | _ <;> rcases b with _ | _ | _ <;> cases x <;> cases y <;> cases r <;>
    simp_all [kleeneOr]

section
variable (S : ValSem) (hp : Nat) (self : Val) (fe : Filter.Entry)
  (hhp : (fe A.MemberOf).contains (Val.num hp) = true)
  (hns : (fe A.Uuid).contains self = false)
include hhp hns

omit hhp hns in
theorem hpEvalAny_sound (l : List FC)
    (ih : ∀ f, f ∈ l → ∀ b, hpEval hp f = some b → f.matches S self A.Uuid fe = b) :
    ∀ b, hpEvalAny hp l = some b → FC.matchesAny S self A.Uuid fe l = b := by
  induction l with
  | nil =>
    intro b h
    simp [hpEvalAny] at h
    simp [FC.matchesAny, h]
  | cons f fs ihl =>
    intro b h
    unfold hpEvalAny at h
    unfold FC.matchesAny
    exact kleeneOr_sound (ih f List.mem_cons_self)
      (ihl (fun g hg => ih g (List.mem_cons_of_mem _ hg))) h

omit hhp hns in
theorem hpEvalAll_sound (l : List FC)
    (ih : ∀ f, f ∈ l → ∀ b, hpEval hp f = some b → f.matches S self A.Uuid fe = b) :
    ∀ b, hpEvalAll hp l = some b → FC.matchesAll S self A.Uuid fe l = b := by
  induction l with
  | nil =>
    intro b h
    simp [hpEvalAll] at h
    simp [FC.matchesAll, h]
  | cons f fs ihl =>
    intro b h
    unfold hpEvalAll at h
    unfold FC.matchesAll
    exact kleeneAnd_sound (ih f List.mem_cons_self)
      (ihl (fun g hg => ih g (List.mem_cons_of_mem _ hg))) h

/-- **Soundness of the three-valued reading.** On an entry whose `memberof` contains `hp` and
whose `uuid` is not the caller's, a target filter evaluates to what `hpEval` says whenever
`hpEval` commits to a value. -/
theorem hpEval_sound :
    ∀ (f : FC) (b : Bool), hpEval hp f = some b → f.matches S self A.Uuid fe = b := by
  intro f
  induction f using FC.ind with
  | heq a v =>
    intro b h
    unfold hpEval at h
    split at h
    · rename_i hc
      rw [Bool.and_eq_true] at hc
      have ha : a = A.MemberOf := by simpa using hc.1
      have hv : v = Val.num hp := by simpa using hc.2
      cases h
      subst ha; subst hv
      simpa [FC.matches] using hhp
    · cases h
  | hcnt a v => intro b h; simp [hpEval] at h
  | hstw a v => intro b h; simp [hpEval] at h
  | henw a v => intro b h; simp [hpEval] at h
  | hpres a =>
    intro b h
    unfold hpEval at h
    split at h
    · rename_i hc
      have ha : a = A.MemberOf := by simpa using hc
      cases h
      subst ha
      have : fe A.MemberOf ≠ [] := by
        intro he
        rw [he] at hhp
        simp at hhp
      simp [FC.matches, this]
    · cases h
  | hlt a v => intro b h; simp [hpEval] at h
  | hor l ih =>
    intro b h
    unfold hpEval at h
    unfold FC.matches
    exact hpEvalAny_sound S hp self fe l ih b h
  | hand l ih =>
    intro b h
    unfold hpEval at h
    unfold FC.matches
    exact hpEvalAll_sound S hp self fe l ih b h
  | hinc l _ =>
    intro b h
    simp [hpEval] at h
    simp [FC.matches, h]
  | hnot f ih =>
    intro b h
    unfold hpEval at h
    unfold FC.matches
    cases hf : hpEval hp f with
    | none => simp [hf, kleeneNot] at h
    | some v =>
      simp [hf, kleeneNot] at h
      rw [ih v hf, h]
      simp
  | hself =>
    intro b h
    simp [hpEval] at h
    have : self ∉ fe A.Uuid := by
      intro hm
      rw [← List.contains_iff_mem, hns] at hm
      cases hm
    simp [FC.matches, this, h]
  | hinv a =>
    intro b h
    simp [hpEval] at h
    simp [FC.matches, h]

end

end Kanidm.Access.Default
