import KanidmProofs.Lemmas.SyncScope
/-
C50: one frame lemma per phase of `scim_sync_apply` (`Kanidm.SyncScope.apply`).
-/
namespace Kanidm.SyncScope
open Kanidm.Access.Write
open Kanidm.Gen.Access
open Kanidm.Gen.SyncScope

theorem live_of_not_masked {e : Entry} (h : e.masked = false) : e.life = .live := by
  unfold Entry.masked at h
  simpa using h

/-! ### deletes -/

theorem deleteWhere_frame (sch : Schema) (su : Nat) (auth : List Nat) (p : Entry → Bool)
    (hp : ∀ e, p e = true → e.syncParent = some su) (st : State) :
    Rel2 (Frame sch su auth (okIn su st)) st (deleteWhere sch p st) := by
  unfold deleteWhere
  apply Rel2.map_right
  intro x hx
  by_cases h1 : (!x.masked && p x) = true
  · simp only [h1, if_true]
    have h1' : x.masked = false ∧ p x = true := by simpa using h1
    exact
      { uuid := rfl, parent := rfl, yld := rfl, cookie := .inl rfl
        life := .inr ⟨hp x h1'.2, live_of_not_masked h1'.1, rfl⟩
        ext := .inl rfl, sc := .inl rfl
        clsKeep := fun _ h => h, clsNew := fun _ h => .inl h
        attrs := ⟨[], by simp, fun a h => absurd (stripped_nil _ _ a).symm h⟩ }
  · have h1' : (!x.masked && p x) = false := by simpa using h1
    simp only [h1']
    by_cases h2 : (!x.masked) = true
    · simp only [h2, if_true]
      refine
        { uuid := rfl, parent := rfl, yld := rfl, cookie := .inl rfl, life := .inl rfl
          ext := .inl rfl, sc := .inl rfl
          clsKeep := fun _ h => h, clsNew := fun _ h => .inl h
          attrs := ⟨(st.filter fun e => !e.masked && p e).map (·.uuid), ?_, ?_⟩ }
      · intro d hd
        obtain ⟨y, hy, rfl⟩ := List.mem_map.mp hd
        have hy' := List.mem_filter.mp hy
        have : y.masked = false ∧ p y = true := by simpa using hy'.2
        exact ⟨y, hy'.1, rfl, hp y this.2⟩
      · intro a h
        exact absurd (getA_stripAttrs _ _ _ a) h
    · have h2' : (!x.masked) = false := by simpa using h2
      simp only [h2']
      exact Frame.refl _ _ _ _ _

/-! ### phase 5 -/

theorem phase5_frame (sch : Schema) (su : Nat) (auth : List Nat) (ok : Nat → Prop) (st st' : State)
    (to : SyncState) (h : phase5 st su to = .ok st') : Rel2 (Frame sch su auth ok) st st' := by
  unfold phase5 at h
  split at h
  · cases h
  · injection h with h
    subst h
    apply Rel2.map_right
    intro x _
    by_cases hc : (x.uuid == su && !x.masked) = true
    · simp only [hc, if_true]
      have : x.uuid = su := by
        have := (Bool.and_eq_true _ _).mp hc
        simpa using this.1
      exact
        { uuid := rfl, parent := rfl, yld := rfl, cookie := .inr this, life := .inl rfl
          ext := .inl rfl, sc := .inl rfl
          clsKeep := fun _ h => h, clsNew := fun _ h => .inl h
          attrs := ⟨[], by simp, fun a h => absurd (stripped_nil _ _ a).symm h⟩ }
    · have hc' : (x.uuid == su && !x.masked) = false := by simpa using hc
      simp only [hc']
      exact Frame.refl _ _ _ _ _

/-! ### refresh clean-up, phase 4 -/

theorem refreshCleanup_frame (sch : Schema) (su : Nat) (auth : List Nat) (st st' : State)
    (ce : List ScimEntry) (h : refreshCleanup sch st ce su = .ok st') :
    Rel2 (Frame sch su auth (okIn su st)) st st' := by
  unfold refreshCleanup at h
  injection h with h
  subst h
  apply deleteWhere_frame
  intro e he
  have := (Bool.and_eq_true _ _).mp he
  simpa using this.1

theorem phase4_frame (sch : Schema) (su : Nat) (auth : List Nat) (st st' : State) (r : Retention)
    (h : phase4 sch st r su = .ok st') : Rel2 (Frame sch su auth (okIn su st)) st st' := by
  unfold phase4 at h
  cases r with
  | ignore =>
    injection h with h
    subst h
    exact Rel2.refl (Frame.refl _ _ _ _) _
  | retain ids =>
    injection h with h
    subst h
    apply deleteWhere_frame
    intro e he
    have := (Bool.and_eq_true _ _).mp he
    simpa using this.1
  | delete ids =>
    simp only at h
    split at h
    · injection h with h
      subst h
      exact Rel2.refl (Frame.refl _ _ _ _) _
    · split at h
      · cases h
      · injection h with h
        subst h
        apply deleteWhere_frame
        intro e he
        have := (Bool.and_eq_true _ _).mp he
        simpa using this.1

/-! ### phase 2 -/

/-- what phase 2 guarantees about an entry it creates -/
structure IsNew (su : Nat) (st : State) (x : Entry) : Prop where
  parent : x.syncParent = some su
  fresh : ∀ e, e ∈ st → e.uuid ≠ x.uuid
  range : stubRangeCmp x.uuid dynamicRangeMinimum = false
  cls : C.SyncObject ∈ x.classes

theorem stub_cls (su u : Nat) : C.SyncObject ∈ (stub su u).classes := by
  show C.SyncObject ∈ stubClasses
  decide

theorem lookup_some_mem_fst {pairs : List (Nat × Nat)} {k v : Nat} (h : pairs.lookup k = some v) :
    k ∈ pairs.map (·.1) := by
  induction pairs with
  | nil => simp [List.lookup] at h
  | cons p rest ih =>
    obtain ⟨a, b⟩ := p
    by_cases hk : k = a
    · subst hk; simp
    · have : (k == a) = false := by simpa using hk
      simp only [List.lookup, this] at h
      simp only [List.map, List.mem_cons]
      exact .inr (ih h)

theorem phase2_frame (sch : Schema) (su : Nat) (auth : List Nat) (ok : Nat → Prop) (st out : State)
    (ce : List ScimEntry) (h : phase2 st ce su = .ok out) :
    (∃ pre' news, out = pre' ++ news ∧ Rel2 (Frame sch su auth ok) st pre' ∧
      ∀ x, x ∈ news → IsNew su st x) ∧
    (∀ e, e ∈ st → e.uuid ∈ ceIds ce → e.masked = false) := by
  unfold phase2 at h
  split at h
  · rename_i hemp
    injection h with h
    subst h
    refine ⟨⟨st, [], by simp, Rel2.refl (Frame.refl _ _ _ _) _, by simp⟩, ?_⟩
    intro e _ hin
    have : ce = [] := List.isEmpty_iff.mp hemp
    subst this
    simp [ceIds] at hin
  · simp only at h
    split at h
    · cases h
    · rename_i hmask
      split at h
      · cases h
      · rename_i hrange
        split at h
        · cases h
        · split at h
          · cases h
          · rename_i hassert
            injection h with h
            subst h
            refine ⟨?_, ?_⟩
            · rw [List.map_append]
              refine ⟨_, _, rfl, ?_, ?_⟩
              · apply Rel2.map_right
                intro x hx
                cases hl : (extIdPairs ce).lookup x.uuid with
                | none => simp only []; exact Frame.refl _ _ _ _ _
                | some v =>
                  simp only []
                  have hmem := lookup_some_mem_fst hl
                  have ha : assertOwned (st ++ (missingIds st ce).map (stub su))
                      ((extIdPairs ce).map (·.1)) su = true := by simpa using hassert
                  unfold assertOwned at ha
                  have hx' := (List.all_eq_true.mp ha) x (List.mem_append_left _ hx)
                  have howned : x.syncParent = some su := by
                    rcases (Bool.or_eq_true _ _).mp hx' with h1 | h1
                    · have : ((extIdPairs ce).map (·.1)).contains x.uuid = true :=
                        List.contains_iff_mem.mpr hmem
                      rw [this] at h1
                      cases h1
                    · simpa using h1
                  exact
                    { uuid := rfl, parent := rfl, yld := rfl, cookie := .inl rfl, life := .inl rfl
                      ext := .inr howned, sc := .inl rfl
                      clsKeep := fun _ h => h, clsNew := fun _ h => .inl h
                      attrs := ⟨[], by simp, fun a h => absurd (stripped_nil _ _ a).symm h⟩ }
              · intro x hx
                obtain ⟨y, hy, rfl⟩ := List.mem_map.mp hx
                obtain ⟨u, hu, rfl⟩ := List.mem_map.mp hy
                have hu' := List.mem_filter.mp hu
                have hfresh : ∀ e, e ∈ st → e.uuid ≠ u := by
                  intro e he heq
                  have : (st.any fun e => e.uuid == u) = true :=
                    List.any_eq_true.mpr ⟨e, he, by simp [heq]⟩
                  simp [this] at hu'
                have hr : stubRangeCmp u dynamicRangeMinimum = false := by
                  have hr' : ((missingIds st ce).any fun u => stubRangeCmp u dynamicRangeMinimum) = false := by
                    simpa using hrange
                  have := List.any_eq_false.mp hr' u hu
                  simpa using this
                cases hl : (extIdPairs ce).lookup (stub su u).uuid with
                | none =>
                  simp only []
                  exact ⟨rfl, hfresh, hr, stub_cls su u⟩
                | some v =>
                  simp only []
                  exact ⟨rfl, hfresh, hr, stub_cls su u⟩
            · intro e he hin
              have hm : (st.any fun e => (ceIds ce).contains e.uuid && e.masked) = false := by
                simpa using hmask
              have := List.any_eq_false.mp hm e he
              have hc : (ceIds ce).contains e.uuid = true := List.contains_iff_mem.mpr hin
              rw [hc] at this
              simpa using this

/-! ### phase 3 -/

theorem reqClasses_ok (sch : Schema) : ∀ (l : List (Option Nat)) (ds : List ClassDef),
    reqClasses sch l = .ok ds → ∀ d, d ∈ ds → d ∈ sch.classes ∧ d.syncAllowed = true := by
  intro l
  induction l with
  | nil =>
    intro ds h d hd
    simp only [reqClasses] at h
    injection h with h
    subst h
    cases hd
  | cons x rest ih =>
    intro ds h d hd
    cases x with
    | none => simp [reqClasses] at h
    | some c =>
      simp only [reqClasses] at h
      cases hc : syncClass? sch c with
      | none => simp [hc] at h
      | some d0 =>
        simp only [hc] at h
        cases hr : reqClasses sch rest with
        | error e => simp [hr] at h
        | ok ds' =>
          simp only [hr] at h
          injection h with h
          subst h
          rcases List.mem_cons.mp hd with rfl | hd'
          · unfold syncClass? at hc
            have h1 := List.mem_of_find?_eq_some hc
            have h2 := List.find?_some hc
            have := (Bool.and_eq_true _ _).mp h2
            exact ⟨h1, this.2⟩
          · exact ih ds' hr d hd'

theorem reqSets_ok (owned : List Nat) : ∀ (l : List (Nat × Option (List Nat)))
    (sets : List (Nat × List Nat)), reqSets owned l = .ok sets → ∀ x, x ∈ sets → x.1 ∈ owned := by
  intro l
  induction l with
  | nil =>
    intro sets h x hx
    simp only [reqSets] at h
    injection h with h
    subst h
    cases hx
  | cons y rest ih =>
    intro sets h x hx
    obtain ⟨a, v⟩ := y
    simp only [reqSets] at h
    split at h
    · cases h
    · rename_i hown
      cases v with
      | none => simp at h
      | some vs =>
        simp only at h
        cases hr : reqSets owned rest with
        | error e => simp [hr] at h
        | ok r =>
          simp only [hr] at h
          injection h with h
          subst h
          rcases List.mem_cons.mp hx with rfl | hx'
          · have : owned.contains a = true := by simpa using hown
            exact List.contains_iff_mem.mp this
          · exact ih r hr x hx'

/-- attributes a request may name: synchronisable and not yielded, or a synchronisable phantom -/
def OwnedA (sch : Schema) (auth : List Nat) (a : Nat) : Prop :=
  a ∈ syncAllowAttrSet sch auth ∨ a ∈ phantomAttrSet sch

theorem syncOwned_sub (sch : Schema) (auth : List Nat) (ds : List ClassDef) (a : Nat)
    (h : a ∈ syncOwnedAttrs sch auth ds) : OwnedA sch auth a := by
  unfold syncOwnedAttrs at h
  rcases List.mem_append.mp h with h | h
  · have := (List.mem_filter.mp h).2
    exact .inl (List.contains_iff_mem.mp this)
  · exact .inr h

structure PlanOK (sch : Schema) (auth : List Nat) (p : Plan) : Prop where
  cls : ∀ c, c ∈ p.classes → SyncClassOf sch c
  purge : ∀ a, a ∈ p.purge → a ∈ syncAllowAttrSet sch auth
  sets : ∀ x, x ∈ p.sets → OwnedA sch auth x.1

theorem entryToMod_ok (sch : Schema) (auth : List Nat) (s : ScimEntry) (p : Plan)
    (h : entryToMod sch auth s = .ok p) : p.id = s.id ∧ PlanOK sch auth p := by
  unfold entryToMod at h
  cases hc : reqClasses sch s.schemas with
  | error e => simp [hc] at h
  | ok ds =>
    simp only [hc] at h
    cases hs : reqSets (syncOwnedAttrs sch auth ds) s.attrs with
    | error e => simp [hs] at h
    | ok sets =>
      simp only [hs] at h
      injection h with h
      subst h
      refine ⟨rfl, ?_, ?_, ?_⟩
      · intro c hcm
        obtain ⟨d, hd, rfl⟩ := List.mem_map.mp hcm
        have := reqClasses_ok sch _ _ hc d hd
        exact ⟨d, this.1, rfl, this.2⟩
      · intro a ha
        have ha' := List.mem_filter.mp ha
        rcases syncOwned_sub sch auth ds a ha'.1 with h1 | h1
        · exact h1
        · have hnp : ¬ a ∈ phantomAttrSet sch := by simpa using ha'.2
          exact absurd h1 hnp
      · intro x hx
        exact syncOwned_sub sch auth ds x.1 (reqSets_ok _ _ _ hs x hx)

theorem plans_ok (sch : Schema) (auth : List Nat) : ∀ (ce : List ScimEntry) (ps : List Plan),
    plans sch auth ce = .ok ps → ∀ p, p ∈ ps → ∃ s, s ∈ ce ∧ entryToMod sch auth s = .ok p := by
  intro ce
  induction ce with
  | nil =>
    intro ps h p hp
    simp only [plans] at h
    injection h with h
    subst h
    cases hp
  | cons s rest ih =>
    intro ps h p hp
    simp only [plans] at h
    cases he : entryToMod sch auth s with
    | error e => simp [he] at h
    | ok p0 =>
      simp only [he] at h
      cases hr : plans sch auth rest with
      | error e => simp [hr] at h
      | ok ps' =>
        simp only [hr] at h
        injection h with h
        subst h
        rcases List.mem_cons.mp hp with rfl | hp'
        · exact ⟨s, List.mem_cons_self, he⟩
        · obtain ⟨s', hs', h'⟩ := ih ps' hr p hp'
          exact ⟨s', List.mem_cons_of_mem _ hs', h'⟩

theorem getA_foldl_purge (l : List Nat) : ∀ (m : List (Nat × List Nat)) (b : Nat),
    getA (l.foldl (fun m a => purgeA a m) m) b = if b ∈ l then [] else getA m b := by
  induction l with
  | nil => intro m b; simp
  | cons a rest ih =>
    intro m b
    simp only [List.foldl]
    rw [ih, getA_purgeA]
    by_cases h1 : b ∈ rest
    · simp [h1]
    · by_cases h2 : b = a
      · simp [h2]
      · simp [h1, h2]

theorem lookup_some_mem {l : List (Nat × Nat)} {a t : Nat} (h : l.lookup a = some t) :
    (a, t) ∈ l := by
  induction l with
  | nil => simp [List.lookup] at h
  | cons p rest ih =>
    obtain ⟨k, v⟩ := p
    by_cases hk : a = k
    · subst hk
      simp [List.lookup] at h
      subst h
      exact List.mem_cons_self
    · have : (a == k) = false := by simpa using hk
      simp only [List.lookup, this] at h
      exact List.mem_cons_of_mem _ (ih h)

theorem presentA_changes (sch : Schema) (auth : List Nat) (a : Nat) (vs : List Nat)
    (m m' : List (Nat × List Nat)) (ho : OwnedA sch auth a) (h : presentA sch a vs m = some m') :
    ∀ b, getA m' b ≠ getA m b → Changeable sch auth b := by
  intro b hne
  unfold presentA at h
  cases hl : credImportTargets.lookup a with
  | some t =>
    simp only [hl] at h
    injection h with h
    subst h
    rw [getA_setA] at hne
    by_cases hb : b = t
    · subst hb
      refine .inr ⟨a, lookup_some_mem hl, ?_⟩
      rcases ho with h1 | h1
      · exact .inr h1
      · exact .inl h1
    · simp [hb] at hne
  | none =>
    simp only [hl] at h
    split at h
    · cases h
    · rename_i hph
      injection h with h
      subst h
      rw [getA_addA] at hne
      by_cases hb : b = a
      · subst hb
        rcases ho with h1 | h1
        · exact .inl h1
        · have : (phantomAttrSet sch).contains b = true := List.contains_iff_mem.mpr h1
          exact absurd this hph
      · simp [hb] at hne

theorem presentAll_changes (sch : Schema) (auth : List Nat) : ∀ (sets : List (Nat × List Nat))
    (m m' : List (Nat × List Nat)), (∀ x, x ∈ sets → OwnedA sch auth x.1) →
    presentAll sch sets m = some m' → ∀ b, getA m' b ≠ getA m b → Changeable sch auth b := by
  intro sets
  induction sets with
  | nil =>
    intro m m' _ h b hne
    simp only [presentAll] at h
    injection h with h
    subst h
    exact absurd rfl hne
  | cons x rest ih =>
    intro m m' ho h b hne
    obtain ⟨a, vs⟩ := x
    simp only [presentAll] at h
    cases hp : presentA sch a vs m with
    | none => simp [hp] at h
    | some m1 =>
      simp only [hp] at h
      by_cases h1 : getA m1 b = getA m b
      · exact ih m1 m' (fun y hy => ho y (List.mem_cons_of_mem _ hy)) h b (by rw [h1]; exact hne)
      · exact presentA_changes sch auth a vs m m1 (ho (a, vs) List.mem_cons_self) hp b h1

theorem applyPlan_frame (sch : Schema) (su : Nat) (auth : List Nat) (ok : Nat → Prop) (p : Plan)
    (e e' : Entry) (hown : e.syncParent = some su) (hp : PlanOK sch auth p)
    (h : applyPlan sch p e = some e') : Frame sch su auth ok e e' := by
  unfold applyPlan at h
  cases hm : presentAll sch p.sets (p.purge.foldl (fun m a => purgeA a m) e.attrs) with
  | none => simp [hm] at h
  | some m =>
    simp only [hm] at h
    injection h with h
    subst h
    refine
      { uuid := rfl, parent := rfl, yld := rfl, cookie := .inl rfl, life := .inl rfl
        ext := .inl rfl, sc := .inr hown
        clsKeep := ?_, clsNew := ?_, attrs := ⟨[], by simp, ?_⟩ }
    · intro c hc
      show c ∈ union e.classes p.classes
      unfold union
      exact List.mem_append_left _ hc
    · intro c hc
      have hc' : c ∈ union e.classes p.classes := hc
      unfold union at hc'
      rcases List.mem_append.mp hc' with h1 | h1
      · exact .inl h1
      · exact .inr ⟨hown, hp.cls c (List.mem_filter.mp h1).1⟩
    · intro a hne
      rw [stripped_nil] at hne
      refine ⟨hown, ?_⟩
      have hne' : getA m a ≠ getA e.attrs a := hne
      by_cases h1 : getA m a = getA (p.purge.foldl (fun m a => purgeA a m) e.attrs) a
      · rw [h1, getA_foldl_purge] at hne'
        by_cases h2 : a ∈ p.purge
        · exact .inl (hp.purge a h2)
        · simp [h2] at hne'
      · exact presentAll_changes sch auth p.sets _ m hp.sets hm a h1

theorem planFor_some {ps : List Plan} {u : Nat} {p : Plan} (h : planFor ps u = some p) :
    p ∈ ps ∧ p.id = u := by
  unfold planFor at h
  have h1 := List.mem_of_find?_eq_some h
  have h2 := List.find?_some h
  exact ⟨h1, by simpa using h2⟩

theorem applyPlans_frame (sch : Schema) (su : Nat) (auth : List Nat) (ok : Nat → Prop)
    (ps : List Plan) : ∀ (st st' : State),
    (∀ e, e ∈ st → ∀ p, planFor ps e.uuid = some p → e.syncParent = some su ∧ PlanOK sch auth p) →
    applyPlans sch ps st = some st' → Rel2 (Frame sch su auth ok) st st' := by
  intro st
  induction st with
  | nil =>
    intro st' _ h
    simp only [applyPlans] at h
    injection h with h
    subst h
    exact .nil
  | cons e rest ih =>
    intro st' hall h
    simp only [applyPlans] at h
    cases hr : applyPlans sch ps rest with
    | none =>
      simp only [hr] at h
      split at h <;> simp_all
    | some r =>
      simp only [hr] at h
      cases hpf : planFor ps e.uuid with
      | none =>
        simp only [hpf] at h
        injection h with h
        subst h
        exact .cons (Frame.refl _ _ _ _ _) (ih r (fun x hx => hall x (List.mem_cons_of_mem _ hx)) hr)
      | some p =>
        simp only [hpf] at h
        cases ha : applyPlan sch p e with
        | none => simp [ha] at h
        | some e' =>
          simp only [ha] at h
          injection h with h
          subst h
          obtain ⟨ho, hp⟩ := hall e List.mem_cons_self p hpf
          exact .cons (applyPlan_frame sch su auth ok p e e' ho hp ha)
            (ih r (fun x hx => hall x (List.mem_cons_of_mem _ hx)) hr)

theorem phase3_frame (sch : Schema) (su : Nat) (auth : List Nat) (ok : Nat → Prop) (st st' : State)
    (ce : List ScimEntry) (h : phase3 sch st ce su auth = .ok st') :
    Rel2 (Frame sch su auth ok) st st' := by
  unfold phase3 at h
  split at h
  · injection h with h
    subst h
    exact Rel2.refl (Frame.refl _ _ _ _) _
  · cases hp : plans sch auth ce with
    | error e => simp [hp] at h
    | ok ps =>
      simp only [hp] at h
      split at h
      · cases h
      · split at h
        · cases h
        · rename_i hassert
          cases ha : applyPlans sch ps st with
          | none => simp [ha] at h
          | some out =>
            simp only [ha] at h
            injection h with h
            subst h
            apply applyPlans_frame sch su auth ok ps st _ _ ha
            intro e he p hpf
            obtain ⟨hmem, hid⟩ := planFor_some hpf
            obtain ⟨s, hs, hem⟩ := plans_ok sch auth ce ps hp p hmem
            obtain ⟨hid', hok⟩ := entryToMod_ok sch auth s p hem
            refine ⟨?_, hok⟩
            have hao : assertOwned st (ceIds ce) su = true := by simpa using hassert
            unfold assertOwned at hao
            have hx := (List.all_eq_true.mp hao) e he
            have hin : (ceIds ce).contains e.uuid = true := by
              apply List.contains_iff_mem.mpr
              unfold ceIds
              exact List.mem_map.mpr ⟨s, hs, by rw [← hid', hid]⟩
            rw [hin] at hx
            simpa using hx

end Kanidm.SyncScope
