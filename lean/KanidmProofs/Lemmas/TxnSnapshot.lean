import KanidmModel.TxnSnapshot
import KanidmProofs.Lemmas.TxnCommit
/-! Helper lemmas for C06. -/
namespace Kanidm.TxnSnapshot
open Kanidm.Gen.CommitOrder Kanidm.Gen.ReadOrder Kanidm.TxnCommit

theorem cellObsF_congr (v1 v2 : Cell → Nat → Nat) : ∀ (as : List Acq) (ks : List Nat),
    (∀ c, ∀ k ∈ ks, v1 c k = v2 c k) → cellObsF v1 as ks = cellObsF v2 as ks := by
  intro as
  induction as with
  | nil => intro ks _; cases ks <;> rfl
  | cons a rest ih =>
    intro ks h
    cases ks with
    | nil => cases a <;> rfl
    | cons k ks =>
      have hrest : ∀ c, ∀ k' ∈ ks, v1 c k' = v2 c k' := fun c k' hk' => h c k' (List.mem_cons_of_mem _ hk')
      cases a with
      | cell c =>
        simp only [cellObsF]
        rw [h c k (List.mem_cons_self ..), ih ks hrest]
      | dbBegin =>
        simp only [cellObsF]
        exact ih ks hrest

/-- Before the first publication the world is the staged state itself. -/
theorem during_before (t : St) (k : Nat) (hk : k ≤ firstPublish flatSteps) : during t k = t :=
  applyAll_nopublish _ (take_firstPublish_nopublish flatSteps k hk) t

/-- After the last step everything is published. -/
theorem during_after_cell (t : St) (k : Nat) (hk : flatSteps.length ≤ k) (c : Cell)
    (hc : c ∈ publishedCells flatSteps) : (during t k).cells c = (t.cells c).publish := by
  unfold during
  rw [List.take_of_length_le hk, applyAll_cell]
  simp [hc]

theorem during_after_db (t : St) (k : Nat) (hk : flatSteps.length ≤ k)
    (hd : flatSteps.any isDbCommit = true) : (during t k).db = t.db.publish := by
  unfold during
  rw [List.take_of_length_le hk, applyAll_db]
  simp [hd]

theorem beginPos_mem (as : List Acq) : ∀ (ks : List Nat), as.length = ks.length → .dbBegin ∈ as →
    beginPos as ks ∈ ks := by
  induction as with
  | nil => intro ks _ h; simp at h
  | cons a rest ih =>
    intro ks hl hm
    cases ks with
    | nil => simp at hl
    | cons k ks =>
      cases a with
      | dbBegin => simp [beginPos]
      | cell c =>
        simp only [beginPos]
        have : Acq.dbBegin ∈ rest := by simpa using hm
        exact List.mem_cons_of_mem _ (ih ks (by simpa using hl) this)

/-- `dbCommit` executed within the first `k` steps stays executed for every later `k'`. -/
theorem any_take_mono {α : Type} (p : α → Bool) (l : List α) : ∀ (k k' : Nat), k ≤ k' →
    (l.take k).any p = true → (l.take k').any p = true := by
  induction l with
  | nil => intro k k' _ h; simp at h
  | cons x rest ih =>
    intro k k' hkk h
    cases k with
    | zero => simp at h
    | succ k =>
      cases k' with
      | zero => omega
      | succ k' =>
        simp only [List.take_succ_cons, List.any_cons, Bool.or_eq_true] at h ⊢
        rcases h with h | h
        · exact Or.inl h
        · exact Or.inr (ih k k' (by omega) h)

/-- If a cell is published only after the SQLite commit, seeing it new implies the commit ran. -/
theorem late_cell_new_imp_db (steps : List CStep) : ∀ (k : Nat) (c : Cell),
    c ∉ publishedCells (steps.take (steps.findIdx isDbCommit + 1)) →
    c ∈ publishedCells (steps.take k) → (steps.take k).any isDbCommit = true := by
  induction steps with
  | nil => intro k c _ h; simp [publishedCells] at h
  | cons x rest ih =>
    intro k c hn h
    cases k with
    | zero => simp [publishedCells] at h
    | succ k =>
      simp only [List.take_succ_cons, List.any_cons, Bool.or_eq_true]
      cases hx : isDbCommit x with
      | true => exact Or.inl rfl
      | false =>
        right
        have hfi : (x :: rest).findIdx isDbCommit = rest.findIdx isDbCommit + 1 := by
          simp [List.findIdx_cons, hx]
        rw [hfi, List.take_succ_cons] at hn
        rw [List.take_succ_cons] at h
        cases hk : x.kind with
        | publish d =>
          simp only [publishedCells, hk, List.mem_cons, not_or] at hn h
          rcases h with h | h
          · exact absurd h hn.1
          · exact ih k c hn.2 h
        | stage => simp only [publishedCells, hk] at hn h; exact ih k c hn h
        | dbWrite => simp only [publishedCells, hk] at hn h; exact ih k c hn h
        | dbCommit => simp [isDbCommit, hk] at hx
        | call l => simp only [publishedCells, hk] at hn h; exact ih k c hn h

theorem mem_cellObsF (val : Cell → Nat → Nat) : ∀ (as : List Acq) (ks : List Nat) (c : Cell) (v : Nat),
    (c, v) ∈ cellObsF val as ks → ∃ k ∈ ks, v = val c k := by
  intro as
  induction as with
  | nil => intro ks c v h; cases ks <;> simp [cellObsF] at h
  | cons a rest ih =>
    intro ks c v h
    cases ks with
    | nil => cases a <;> simp [cellObsF] at h
    | cons k ks =>
      cases a with
      | cell d =>
        simp only [cellObsF, List.mem_cons, Prod.mk.injEq] at h
        rcases h with ⟨h1, h2⟩ | h
        · subst h1; exact ⟨k, List.mem_cons_self .., h2⟩
        · obtain ⟨k', hk', hv⟩ := ih ks c v h
          exact ⟨k', List.mem_cons_of_mem _ hk', hv⟩
      | dbBegin =>
        simp only [cellObsF] at h
        obtain ⟨k', hk', hv⟩ := ih ks c v h
        exact ⟨k', List.mem_cons_of_mem _ hk', hv⟩

end Kanidm.TxnSnapshot
