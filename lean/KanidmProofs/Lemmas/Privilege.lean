import KanidmModel.Privilege
/-!
Helper lemmas for C33: what the generated token functions produce, what the wire round trip
keeps, and the history invariant `Inv` preserved by every `step`.
-/
namespace Kanidm.Privilege
open Kanidm.Gen.AuthTypes

theorem floorSec_le (t : Nat) : floorSec t ≤ t := by
  unfold floorSec nsPerSec; omega

theorem floorSec_idem (t : Nat) : floorSec (floorSec t) = floorSec t := by
  unfold floorSec nsPerSec; omega

/-- `Account::to_userauthtoken`: what a produced token looks like. -/
theorem toUat_spec {sid : Nat} {anon : Bool} {scope : SessionScope} {ct : Nat} {pol : Policy}
    {u : Uat} (h : toUat sid anon scope ct pol = some u) :
    u.sessionId = sid ∧ u.anon = anon ∧
    (∃ x, u.expiry = some x ∧ x ≤ ct + pol.sessSecs * nsPerSec) ∧
    (∀ y, u.purpose = .readWrite (some y) →
      scope = .readWrite ∧ y ≤ ct + min pol.sessSecs limitedExpirySecs * nsPerSec) := by
  unfold toUat at h
  cases scope <;> simp only [issueOf] at h
  · -- readOnly
    injection h with h; subst h
    refine ⟨rfl, rfl, ⟨_, rfl, ?_⟩, ?_⟩
    · simp only [issueExpiry, issueCt, nsPerSec]; omega
    · intro y hy; cases hy
  · -- readWrite
    injection h with h; subst h
    refine ⟨rfl, rfl, ⟨_, rfl, ?_⟩, ?_⟩
    · simp only [issueExpiry, issueLimitedExpiry, issueCt, nsPerSec]; omega
    · intro y hy
      injection hy with hy; injection hy with hy; subst hy
      refine ⟨rfl, ?_⟩
      simp only [issueExpiry, issueLimitedExpiry, issueCt, nsPerSec, limitedExpirySecs]; omega
  · -- privilegeCapable
    injection h with h; subst h
    refine ⟨rfl, rfl, ⟨_, rfl, ?_⟩, ?_⟩
    · simp only [issueExpiry, issueCt, nsPerSec]; omega
    · intro y hy; injection hy with hy; cases hy
  · cases h

/-- `Account::to_reissue_userauthtoken`: what a produced token looks like. -/
theorem toReissue_spec {sid : Nat} {anon : Bool} {se : Option Nat} {scope : SessionScope}
    {rw : Bool} {ct : Nat} {pol : Policy} {u : Uat}
    (h : toReissueUat sid anon se scope rw ct pol = some u) :
    u.sessionId = sid ∧ u.anon = anon ∧ u.expiry = se ∧ scope = .privilegeCapable ∧
    (∀ y, u.purpose = .readWrite (some y) → rw = true ∧ y = ct + pol.privSecs * nsPerSec) := by
  unfold toReissueUat at h
  cases scope <;> cases rw <;> simp [reissueOf] at h
  · subst h
    refine ⟨rfl, rfl, rfl, rfl, ?_⟩
    intro y hy; injection hy with hy; cases hy
  · subst h
    refine ⟨rfl, rfl, rfl, rfl, ?_⟩
    intro y hy; injection hy with hy; injection hy with hy; subst hy
    refine ⟨rfl, ?_⟩
    simp only [reissuePrivExpiry]; omega

theorem wire_sessionId (u : Uat) : (wire u).sessionId = u.sessionId := rfl
theorem wire_anon (u : Uat) : (wire u).anon = u.anon := rfl
theorem wire_expiry (u : Uat) : (wire u).expiry = u.expiry.map floorSec := rfl

theorem wire_rw {u : Uat} {x : Nat} (h : (wire u).purpose = .readWrite (some x)) :
    ∃ y, u.purpose = .readWrite (some y) ∧ x = floorSec y := by
  unfold wire at h
  cases hp : u.purpose with
  | readOnly => simp [hp] at h
  | readWrite e =>
    cases e with
    | none => simp [hp] at h
    | some y => simp [hp] at h; exact ⟨y, rfl, h.symm⟩

/-- A bearer token that maps to `ReadWrite` carries an inner privilege expiry strictly in the
future (`cot < expiry`, regenerated from `process_uat_to_identity`). -/
theorem useUat_ok {sessions : List (Nat × Session)} {u : Uat} {ct : Nat} {s : AccessScope}
    (h : useUat sessions u ct = .ok s) :
    expiredAt u ct = false ∧ tokenValid sessions u ct = true ∧ s = uatAccessScope u.purpose ct := by
  unfold useUat processUat at h
  cases h1 : expiredAt u ct <;> cases h2 : tokenValid sessions u ct <;> simp [h1, h2] at h
  exact ⟨rfl, rfl, h.symm⟩

/-- A bearer token that maps to `ReadWrite` carries an inner privilege expiry strictly in the
future (`cot < expiry`, regenerated from `process_uat_to_identity`). -/
theorem useUat_rw {sessions : List (Nat × Session)} {u : Uat} {ct : Nat}
    (h : useUat sessions u ct = .ok .readWrite) :
    ∃ x, u.purpose = .readWrite (some x) ∧ ct < x := by
  obtain ⟨_, _, h⟩ := useUat_ok h
  cases hp : u.purpose with
  | readOnly => simp [hp, uatAccessScope] at h
  | readWrite e =>
    cases e with
    | none => simp [hp, uatAccessScope] at h
    | some x =>
      refine ⟨x, rfl, ?_⟩
      simp only [hp, uatAccessScope] at h
      by_cases hc : ct < x
      · exact hc
      · simp [hc] at h

/-- A bearer token accepted at `ct` is not past its session expiry (`exp < ct_odt` ⇒ refused). -/
theorem useUat_not_expired {sessions : List (Nat × Session)} {u : Uat} {ct : Nat} {s : AccessScope}
    (h : useUat sessions u ct = .ok s) : ∀ e, u.expiry = some e → ct ≤ e := by
  intro e he
  obtain ⟨h1, _, _⟩ := useUat_ok h
  -- holds for either strictness of the regenerated comparison (`exp < ct` or `exp <= ct`)
  simp only [expiredAt, he, uatExpired, decide_eq_false_iff_not] at h1
  omega

theorem lookup_mem {sid : Nat} {l : List (Nat × Session)} {s : Session}
    (h : lookup sid l = some s) : (sid, s) ∈ l := by
  induction l with
  | nil => cases h
  | cons hd tl ih =>
    obtain ⟨k, v⟩ := hd
    unfold lookup at h
    by_cases hk : k = sid
    · simp only [hk, if_true] at h; injection h with h; subst h; subst hk; exact List.mem_cons_self
    · simp only [hk, if_false] at h; exact List.mem_cons_of_mem _ (ih h)

theorem mem_revokeIn {sid : Nat} {l : List (Nat × Session)} {p : Nat × Session}
    (h : p ∈ revokeIn sid l) :
    ∃ q ∈ l, q.1 = p.1 ∧ q.2.scope = p.2.scope ∧ (p.2.state = .revokedAt ∨ p.2.state = q.2.state) := by
  induction l with
  | nil => cases h
  | cons hd tl ih =>
    obtain ⟨k, v⟩ := hd
    unfold revokeIn at h
    by_cases hk : k = sid
    · simp only [hk, if_true] at h
      rcases List.mem_cons.mp h with h | h
      · subst h; exact ⟨(k, v), List.mem_cons_self, hk, rfl, Or.inl rfl⟩
      · obtain ⟨q, hq, hr⟩ := ih h; exact ⟨q, List.mem_cons_of_mem _ hq, hr⟩
    · simp only [hk, if_false] at h
      rcases List.mem_cons.mp h with h | h
      · subst h; exact ⟨(k, v), List.mem_cons_self, rfl, rfl, Or.inr rfl⟩
      · obtain ⟨q, hq, hr⟩ := ih h; exact ⟨q, List.mem_cons_of_mem _ hq, hr⟩

/-- The history invariant. `log` is the ghost list of successful (re)authentications. -/
structure Inv (w : World) : Prop where
  sidTok : ∀ u ∈ w.tokens, u.sessionId < w.nextSid
  sidSess : ∀ p ∈ w.sessions, p.1 < w.nextSid
  sidLog : ∀ e ∈ w.log, e.sessionId < w.nextSid
  timeLog : ∀ e ∈ w.log, e.time ≤ w.now
  /-- a token with an inner privilege expiry was produced by a granting event, and the expiry
  lies inside that event's window -/
  rwTok : ∀ u ∈ w.tokens, ∀ x, u.purpose = .readWrite (some x) →
    ∃ e ∈ w.log, e.sessionId = u.sessionId ∧ e.grants = true ∧ x ≤ e.time + e.window
  /-- every token carries the expiry fixed by the login that created its session -/
  origTok : ∀ u ∈ w.tokens, ∃ e ∈ w.log, e.reauth = false ∧ e.sessionId = u.sessionId ∧
    u.expiry = e.expiry
  /-- every stored session stems from a login, keeps that login's scope, and its state is that
  login's expiry or revoked -/
  origSess : ∀ p ∈ w.sessions, ∃ e ∈ w.log, e.reauth = false ∧ e.sessionId = p.1 ∧
    p.2.scope = initialScope e.authType e.flag ∧
    (p.2.state = .revokedAt ∨ ∃ se, p.2.state = .expiresAt se ∧ e.expiry = some (floorSec se))
  /-- a login fixes a session expiry no later than `authsession_expiry` after the login -/
  origExp : ∀ e ∈ w.log, e.reauth = false →
    ∃ x, e.expiry = some x ∧ x ≤ e.time + e.pol.sessSecs * nsPerSec
  /-- a re-authentication happened on a `PrivilegeCapable` session with a credential
  `issue_uat` accepts for re-issue, and produced the login's expiry again -/
  reauthLog : ∀ e ∈ w.log, e.reauth = true →
    (reauthScope e.authType).isSome = true ∧
    ∃ e0 ∈ w.log, e0.reauth = false ∧ e0.sessionId = e.sessionId ∧
      reauthAllowed (initialScope e0.authType e0.flag) = true ∧ e.expiry = e0.expiry
  /-- session ids are fresh: one login per session id -/
  uniq : ∀ e1 ∈ w.log, ∀ e2 ∈ w.log, e1.reauth = false → e2.reauth = false →
    e1.sessionId = e2.sessionId → e1 = e2

theorem Inv.init (now : Nat) : Inv (World.init now) := by
  constructor <;> intro x hx <;> cases hx

theorem mem_snoc {α : Type} {a b : α} {l : List α} : a ∈ l ++ [b] ↔ a ∈ l ∨ a = b := by
  simp

theorem window_mk_auth (tm sid : Nat) (ty : AuthType) (fl : Bool) (pol : Policy) (ex : Option Nat) :
    Event.window ⟨tm, sid, false, ty, fl, pol, ex⟩ = min pol.sessSecs limitedExpirySecs * nsPerSec := by
  simp [Event.window]

theorem window_mk_reauth (tm sid : Nat) (ty : AuthType) (fl : Bool) (pol : Policy) (ex : Option Nat) :
    Event.window ⟨tm, sid, true, ty, fl, pol, ex⟩ = pol.privSecs * nsPerSec := by
  simp [Event.window]

theorem issueUat_initial {p : Bool} {t : AuthType} {now : Nat} {pol : Policy} {sid : Nat}
    {anon : Bool} {uat : Uat} {rec : Option (Nat × Session)}
    (h : issueUat (.initialAuth p) t now pol sid anon = .ok (uat, rec)) :
    toUat sid anon (initialScope t p) now pol = some uat ∧
    (rec = none ∨ rec = some (sid, recordOf uat (initialScope t p) t)) := by
  unfold issueUat at h
  simp only at h
  cases ht : toUat sid anon (initialScope t p) now pol with
  | none => simp [ht] at h
  | some u =>
    simp only [ht] at h
    split at h
    · injection h with h; injection h with h1 h2; subst h1; subst h2; exact ⟨rfl, Or.inr rfl⟩
    · injection h with h; injection h with h1 h2; subst h1; subst h2; exact ⟨rfl, Or.inl rfl⟩

theorem issueUat_reauth {rw : Bool} {sid : Nat} {se : Option Nat} {t : AuthType} {now : Nat}
    {pol : Policy} {nsid : Nat} {anon : Bool} {uat : Uat} {rec : Option (Nat × Session)}
    (h : issueUat (.reauth rw sid se) t now pol nsid anon = .ok (uat, rec)) :
    ∃ scope, reauthScope t = some scope ∧ toReissueUat sid anon se scope rw now pol = some uat := by
  unfold issueUat at h
  simp only at h
  cases hs : reauthScope t with
  | none => simp [hs] at h
  | some scope =>
    simp only [hs] at h
    cases hr : toReissueUat sid anon se scope rw now pol with
    | none => simp [hr] at h
    | some u =>
      simp only [hr] at h
      injection h with h; injection h with h1 h2; subst h1
      exact ⟨scope, rfl, hr⟩

theorem mem_authSessions {sessions : List (Nat × Session)} {persist : Bool}
    {rec : Option (Nat × Session)} {q : Nat × Session}
    (hq : q ∈ authSessions sessions persist rec) : q ∈ sessions ∨ rec = some q := by
  cases rec with
  | none => exact Or.inl hq
  | some r =>
    cases persist with
    | false => exact Or.inl hq
    | true =>
      simp only [authSessions, if_true, List.mem_append, List.mem_singleton] at hq
      rcases hq with hq | hq
      · exact Or.inl hq
      · exact Or.inr (by rw [hq])

theorem Inv.stepAuth {w : World} (hw : Inv w) (t : AuthType) (p a ps : Bool) (pol : Policy) :
    Inv (stepAuth w t p a ps pol).1 := by
  unfold Privilege.stepAuth
  cases hi : issueUat (.initialAuth p) t w.now pol w.nextSid a with
  | error e => exact hw
  | ok r =>
    obtain ⟨uat, rec⟩ := r
    obtain ⟨hu, hrec⟩ := issueUat_initial hi
    obtain ⟨hsid, _, ⟨x, hx, hxle⟩, hrw⟩ := toUat_spec hu
    have hwx : (wire uat).expiry = some (floorSec x) := by rw [wire_expiry, hx]; rfl
    have hfx : floorSec x ≤ x := floorSec_le x
    simp only
    refine { sidTok := ?_, sidSess := ?_, sidLog := ?_, timeLog := ?_, rwTok := ?_, origTok := ?_,
             origSess := ?_, origExp := ?_, reauthLog := ?_, uniq := ?_ }
    · intro u hu'
      simp only [List.mem_append, List.mem_singleton] at hu'
      rcases hu' with hu' | hu'
      · exact Nat.lt_succ_of_lt (hw.sidTok u hu')
      · subst hu'; show (wire uat).sessionId < w.nextSid + 1; rw [wire_sessionId, hsid]; omega
    · intro q hq
      rcases mem_authSessions hq with hq | hq
      · exact Nat.lt_succ_of_lt (hw.sidSess q hq)
      · rcases hrec with hrec | hrec <;> rw [hrec] at hq
        · cases hq
        · injection hq with hq; subst hq; exact Nat.lt_succ_self _
    · intro e he
      simp only [List.mem_append, List.mem_singleton] at he
      rcases he with he | he
      · exact Nat.lt_succ_of_lt (hw.sidLog e he)
      · subst he; exact Nat.lt_succ_self _
    · intro e he
      simp only [List.mem_append, List.mem_singleton] at he
      rcases he with he | he
      · exact hw.timeLog e he
      · subst he; exact Nat.le_refl _
    · intro u hu' x' hp
      simp only [List.mem_append, List.mem_singleton] at hu'
      rcases hu' with hu' | hu'
      · obtain ⟨e, he, h1, h2, h3⟩ := hw.rwTok u hu' x' hp
        exact ⟨e, List.mem_append_left _ he, h1, h2, h3⟩
      · subst hu'
        obtain ⟨y, hy, hxy⟩ := wire_rw hp
        obtain ⟨hsc, hyle⟩ := hrw y hy
        refine ⟨_, List.mem_append_right _ (List.mem_singleton.mpr rfl), ?_, ?_, ?_⟩
        · show w.nextSid = (wire uat).sessionId; rw [wire_sessionId, hsid]
        · simp [Event.grants, hsc]
        · have := floorSec_le y
          rw [window_mk_auth]
          show x' ≤ w.now + _
          omega
    · intro u hu'
      simp only [List.mem_append, List.mem_singleton] at hu'
      rcases hu' with hu' | hu'
      · obtain ⟨e, he, h1, h2, h3⟩ := hw.origTok u hu'
        exact ⟨e, List.mem_append_left _ he, h1, h2, h3⟩
      · subst hu'
        refine ⟨_, List.mem_append_right _ (List.mem_singleton.mpr rfl), rfl, ?_, rfl⟩
        show w.nextSid = (wire uat).sessionId; rw [wire_sessionId, hsid]
    · intro q hq
      rcases mem_authSessions hq with hq | hq
      · obtain ⟨e, he, h1, h2, h3, h4⟩ := hw.origSess q hq
        exact ⟨e, List.mem_append_left _ he, h1, h2, h3, h4⟩
      · rcases hrec with hrec | hrec <;> rw [hrec] at hq
        · cases hq
        · injection hq with hq; subst hq
          refine ⟨_, List.mem_append_right _ (List.mem_singleton.mpr rfl), rfl, rfl, rfl, Or.inr ⟨x, ?_, hwx⟩⟩
          simp [recordOf, hx]
    · intro e he hr
      simp only [List.mem_append, List.mem_singleton] at he
      rcases he with he | he
      · exact hw.origExp e he hr
      · subst he
        exact ⟨floorSec x, hwx, by show floorSec x ≤ w.now + pol.sessSecs * nsPerSec; omega⟩
    · intro e he hr
      simp only [List.mem_append, List.mem_singleton] at he
      rcases he with he | he
      · obtain ⟨h0, e0, he0, h1, h2, h3, h4⟩ := hw.reauthLog e he hr
        exact ⟨h0, e0, List.mem_append_left _ he0, h1, h2, h3, h4⟩
      · subst he; cases hr
    · intro e1 he1 e2 he2 h1 h2 h12
      simp only [List.mem_append, List.mem_singleton] at he1 he2
      rcases he1 with he1 | he1 <;> rcases he2 with he2 | he2
      · exact hw.uniq e1 he1 e2 he2 h1 h2 h12
      · subst he2
        have := hw.sidLog e1 he1
        simp only at h12; omega
      · subst he1
        have := hw.sidLog e2 he2
        simp only at h12; omega
      · subst he1; subst he2; rfl

theorem Inv.stepReauth {w : World} (hw : Inv w) (tok : Nat) (req : ReauthRequest) (t : AuthType)
    (pol : Policy) : Inv (stepReauth w tok req t pol).1 := by
  unfold Privilege.stepReauth
  cases htok : w.tokens[tok]? with
  | none => exact hw
  | some u =>
    simp only
    have hmem : u ∈ w.tokens := List.mem_of_getElem? htok
    cases huse : useUat w.sessions u w.now with
    | error e => exact hw
    | ok sc =>
      simp only
      cases hl : lookup u.sessionId w.sessions with
      | none => exact hw
      | some s =>
        simp only
        by_cases hal : reauthAllowed s.scope = true
        · simp only [hal, Bool.not_true, Bool.false_eq_true, if_false]
          cases hse : reauthSessionExpiry s.state with
          | none => exact hw
          | some sessionExpiry =>
            simp only
            cases hi : issueUat (.reauth (reauthRequestRw req) u.sessionId sessionExpiry) t w.now pol
                        w.nextSid u.anon with
            | error e => exact hw
            | ok r =>
              obtain ⟨uat, rec⟩ := r
              simp only
              obtain ⟨scope, hscope, hre⟩ := issueUat_reauth hi
              obtain ⟨hsid, _, hexp, hpc, hrw⟩ := toReissue_spec hre
              subst hpc
              have hsmem := lookup_mem hl
              obtain ⟨e0, he0, h01, h02, h03, h04⟩ := hw.origSess _ hsmem
              -- the re-issued token carries the login's expiry
              have hexp' : (wire uat).expiry = e0.expiry := by
                rcases h04 with h04 | ⟨se, h04, h05⟩
                · simp only at h04; rw [h04] at hse; simp [reauthSessionExpiry] at hse
                · simp only at h04; rw [h04] at hse
                  simp only [reauthSessionExpiry] at hse
                  injection hse with hse; subst hse
                  rw [wire_expiry, hexp, h05]; rfl
              refine { sidTok := ?_, sidSess := hw.sidSess, sidLog := ?_, timeLog := ?_, rwTok := ?_,
                       origTok := ?_, origSess := ?_, origExp := ?_, reauthLog := ?_, uniq := ?_ }
              · intro u' hu'
                simp only [List.mem_append, List.mem_singleton] at hu'
                rcases hu' with hu' | hu'
                · exact hw.sidTok u' hu'
                · subst hu'; show (wire uat).sessionId < w.nextSid
                  rw [wire_sessionId, hsid]; exact hw.sidTok u hmem
              · intro e he
                simp only [List.mem_append, List.mem_singleton] at he
                rcases he with he | he
                · exact hw.sidLog e he
                · subst he; exact hw.sidTok u hmem
              · intro e he
                simp only [List.mem_append, List.mem_singleton] at he
                rcases he with he | he
                · exact hw.timeLog e he
                · subst he; exact Nat.le_refl _
              · intro u' hu' x' hp
                simp only [List.mem_append, List.mem_singleton] at hu'
                rcases hu' with hu' | hu'
                · obtain ⟨e, he, h1, h2, h3⟩ := hw.rwTok u' hu' x' hp
                  exact ⟨e, List.mem_append_left _ he, h1, h2, h3⟩
                · subst hu'
                  obtain ⟨y, hy, hxy⟩ := wire_rw hp
                  obtain ⟨hflag, hyeq⟩ := hrw y hy
                  refine ⟨_, List.mem_append_right _ (List.mem_singleton.mpr rfl), ?_, ?_, ?_⟩
                  · show u.sessionId = (wire uat).sessionId; rw [wire_sessionId, hsid]
                  · simp [Event.grants, hflag, hscope]
                  · have := floorSec_le y
                    rw [window_mk_reauth]
                    show x' ≤ w.now + _
                    omega
              · intro u' hu'
                simp only [List.mem_append, List.mem_singleton] at hu'
                rcases hu' with hu' | hu'
                · obtain ⟨e, he, h1, h2, h3⟩ := hw.origTok u' hu'
                  exact ⟨e, List.mem_append_left _ he, h1, h2, h3⟩
                · subst hu'
                  refine ⟨e0, List.mem_append_left _ he0, h01, ?_, hexp'⟩
                  rw [wire_sessionId, hsid]; exact h02
              · intro q hq
                obtain ⟨e, he, h1, h2, h3, h4⟩ := hw.origSess q hq
                exact ⟨e, List.mem_append_left _ he, h1, h2, h3, h4⟩
              · intro e he hr
                simp only [List.mem_append, List.mem_singleton] at he
                rcases he with he | he
                · exact hw.origExp e he hr
                · subst he; cases hr
              · intro e he hr
                simp only [List.mem_append, List.mem_singleton] at he
                rcases he with he | he
                · obtain ⟨h0, e', he', h1, h2, h3, h4⟩ := hw.reauthLog e he hr
                  exact ⟨h0, e', List.mem_append_left _ he', h1, h2, h3, h4⟩
                · subst he
                  refine ⟨by simp [hscope], e0, List.mem_append_left _ he0, h01, h02, ?_, hexp'⟩
                  rw [← h03]; exact hal
              · intro e1 he1 e2 he2 h1 h2 h12
                simp only [List.mem_append, List.mem_singleton] at he1 he2
                rcases he1 with he1 | he1 <;> rcases he2 with he2 | he2
                · exact hw.uniq e1 he1 e2 he2 h1 h2 h12
                · subst he2; cases h2
                · subst he1; cases h1
                · subst he1; cases h1
        · simp only [hal, Bool.not_false, if_true]
          exact hw

theorem Inv.step {w : World} (hw : Inv w) (op : Op) : Inv (step w op).1 := by
  cases op with
  | auth t p a ps pol => exact hw.stepAuth t p a ps pol
  | reauth tok req t pol => exact hw.stepReauth tok req t pol
  | advance dt =>
    exact { hw with timeLog := fun e he => Nat.le_trans (hw.timeLog e he) (Nat.le_add_right _ _) }
  | use tok =>
    have : (Privilege.step w (.use tok)).1 = w := by
      simp only [Privilege.step]
      cases w.tokens[tok]? with
      | none => rfl
      | some u =>
        simp only
        cases useUat w.sessions u w.now <;> rfl
    rw [this]; exact hw
  | revoke sid =>
    refine { hw with sidSess := ?_, origSess := ?_ }
    · intro q hq
      obtain ⟨q', hq', h1, _, _⟩ := mem_revokeIn hq
      rw [← h1]; exact hw.sidSess q' hq'
    · intro q hq
      obtain ⟨q', hq', h1, h2, h3⟩ := mem_revokeIn hq
      obtain ⟨e, he, g1, g2, g3, g4⟩ := hw.origSess q' hq'
      refine ⟨e, he, g1, by rw [g2, h1], by rw [← h2, g3], ?_⟩
      rcases h3 with h3 | h3
      · exact Or.inl h3
      · rw [h3]; exact g4

theorem Inv.run {w : World} (hw : Inv w) (ops : List Op) : Inv (run w ops) := by
  induction ops generalizing w with
  | nil => exact hw
  | cons op rest ih => exact ih (hw.step op)

end Kanidm.Privilege
