import KanidmProofs.C01
import KanidmModel.DynGroup
/-
Helper lemmas for C18 (`KanidmProofs/C18.lean`): the two evaluation paths of a dyngroup filter
(reusing C01's `search_exact_partial` and C02's rewriting theorems), the function-update algebra of
the model's reference attributes, and one preservation lemma per operation.
-/
namespace Kanidm.DynGroup
open Kanidm.Filter

theorem goodB_fcOk {env : Env} {fc : FC} (h : goodB env fc = true) : fcOk fc = true := by
  unfold goodB resolvedFull at h
  cases hk : fcOk fc with
  | true => rfl
  | false => simp [hk] at h

/-! ### the incremental path means `M` -/

theorem matchB_eq (env : Env) (fc : FC) (e : Entry) (h : fcOk fc = true) :
    matchB env fc e = M env fc e := by
  obtain ⟨g, hg⟩ := (resolve_total env.c env.self (fun _ _ => none) fc).2
  simp only [matchB, incMatch, h, if_true, hg, Option.map, Option.getD]
  rw [fastOptimise_preserves ValSem.std e sortAsc sortAsc_perm,
    resolveNoIdx_preserves ValSem.std e env.c env.self fc g hg]
  rfl

/-- the guarded incremental test: the entry is live and satisfies the filter -/
theorem testB_eq (env : Env) (fc : FC) (e : Ent) (h : fcOk fc = true) :
    testB true env fc e = (env.live e && M env fc e.entry) := by
  simp [testB, matchB_eq env fc _ h]

/-! ### the full path means `M` on the unmasked stored entries, for good filters -/

theorem fullEval_spec (env : Env) (w : World) (fc : FC) (ms : List Nat)
    (hg : goodB env fc = true) (h : fullEval env w fc = some ms) :
    ∀ u, u ∈ ms ↔ (u ∈ w.live ∧ env.masked (w.ent u) = false ∧ M env fc (w.ent u) = true) := by
  unfold goodB at hg
  unfold fullEval at h
  cases hr : resolvedFull env fc with
  | none => simp [hr] at hg
  | some f =>
    simp only [hr] at hg h
    have hmean : ∀ e, f.matches ValSem.std e = M env fc e := by
      intro e
      unfold resolvedFull at hr
      split at hr
      · obtain ⟨g, hg'⟩ := (resolve_total env.c env.self (metaOf env.cfg) fc).1
        simp only [hg', Option.map] at hr
        injection hr with hr
        subst hr
        rw [optimise_preserves ValSem.std e sortAsc sortDesc sortAsc_perm sortDesc_perm,
          resolveIdx_preserves ValSem.std e env.c env.self (metaOf env.cfg) fc g hg']
        rfl
      · cases hr
    have hs := search_exact_partial ValSem.std sub_trigraph_superset w (idxOf w env.cfg) sparse
      (idxOf_sound w env.cfg) unlimited f hg
    rcases hs with hs | hs
    · rw [hs] at h
      simp [resLimit] at h
    · rw [hs] at h
      simp only [fullMask, if_true] at h
      injection h with h
      subst h
      intro u
      simp only [answer, List.mem_filter, hmean]
      constructor
      · rintro ⟨⟨h1, h2⟩, h3⟩
        exact ⟨h1, by simpa using h3, h2⟩
      · rintro ⟨h1, h2, h3⟩
        exact ⟨⟨h1, h3⟩, by simp [h2]⟩


/-! ### lists of entries with distinct uuids -/

def Uniq (ents : List Ent) : Prop := (ents.map (·.id)).Nodup

theorem find_of_mem {ents : List Ent} (hu : Uniq ents) {e : Ent} (he : e ∈ ents) :
    ents.find? (fun x => x.id == e.id) = some e := by
  induction ents with
  | nil => cases he
  | cons x xs ih =>
    simp only [Uniq, List.map_cons, List.nodup_cons] at hu
    rcases List.mem_cons.mp he with rfl | he'
    · simp [List.find?]
    · have hne : x.id ≠ e.id := by
        intro hx
        exact hu.1 (hx ▸ List.mem_map_of_mem he')
      simp only [List.find?, beq_iff_eq, hne, ↓reduceIte]
      have : (x.id == e.id) = false := by simp [hne]
      simp only [this]
      exact ih hu.2 he'

theorem find_none_of_not_mem {ents : List Ent} {u : Nat} (h : u ∉ ents.map (·.id)) :
    ents.find? (fun x => x.id == u) = none := by
  rw [List.find?_eq_none]
  intro x hx
  simp only [beq_iff_eq]
  intro hxu
  exact h (hxu ▸ List.mem_map_of_mem hx)

theorem find_mem {ents : List Ent} {u : Nat} {e : Ent}
    (h : ents.find? (fun x => x.id == u) = some e) : e ∈ ents ∧ e.id = u := by
  have h1 := List.mem_of_find?_eq_some h
  have h2 := List.find?_some h
  exact ⟨h1, by simpa using h2⟩

theorem worldOf_live (ents : List Ent) (u : Nat) :
    u ∈ (worldOf ents).live ↔ ∃ e ∈ ents, e.id = u := by
  simp [worldOf]

theorem worldOf_ent {ents : List Ent} (hu : Uniq ents) {e : Ent} (he : e ∈ ents) :
    (worldOf ents).ent e.id = e.entry := by
  simp [worldOf, find_of_mem hu he]

/-- `u` is the uuid of a live stored entry that satisfies `fc` -/
def Matches (env : Env) (ents : List Ent) (fc : FC) (u : Nat) : Prop :=
  ∃ e ∈ ents, e.id = u ∧ env.live e = true ∧ M env fc e.entry = true

/-- **The full path is exact** for good filters: `apply_dyngroup_change` computes exactly the live
stored entries satisfying the filter. -/
theorem fullEval_matches (env : Env) {ents : List Ent} (hu : Uniq ents) (fc : FC) (ms : List Nat)
    (hg : goodB env fc = true) (h : fullEval env (worldOf ents) fc = some ms) :
    ∀ u, u ∈ ms ↔ Matches env ents fc u := by
  intro u
  rw [fullEval_spec env _ fc ms hg h u, worldOf_live]
  constructor
  · rintro ⟨⟨e, he, rfl⟩, h2, h3⟩
    rw [worldOf_ent hu he] at h2 h3
    exact ⟨e, he, rfl, by simp [Env.live, h2], h3⟩
  · rintro ⟨e, he, rfl, h2, h3⟩
    refine ⟨⟨e, he, rfl⟩, ?_, ?_⟩
    · rw [worldOf_ent hu he]; simpa [Env.live] using h2
    · rw [worldOf_ent hu he]; exact h3

/-! ### the cache -/

theorem lookup_cacheSet_same (c : List (Nat × FC)) (u : Nat) (fc : FC) :
    lookup (cacheSet c u fc) u = some fc := by
  simp [lookup, cacheSet, List.find?]

theorem find_filter_ne (c : List (Nat × FC)) {u u' : Nat} (h : u' ≠ u) :
    (c.filter (fun p => !(p.1 == u))).find? (fun p => p.1 == u') = c.find? (fun p => p.1 == u') := by
  induction c with
  | nil => rfl
  | cons x xs ih =>
    by_cases hx : x.1 = u
    · have h2 : (u == u') = false := by simp [Ne.symm h]
      simp only [List.filter, hx, beq_self_eq_true, Bool.not_true, List.find?, h2]
      exact ih
    · have h3 : (x.1 == u) = false := by simp [hx]
      simp only [List.filter, h3, Bool.not_false, List.find?]
      split
      · rfl
      · exact ih

theorem lookup_cacheSet_other (c : List (Nat × FC)) {u u' : Nat} (fc : FC) (h : u' ≠ u) :
    lookup (cacheSet c u fc) u' = lookup c u' := by
  have h1 : (u == u') = false := by simp [Ne.symm h]
  simp only [lookup, cacheSet, List.find?, h1, find_filter_ne c h]

theorem upd_same (f : Nat → List Nat) (u : Nat) (v : List Nat) : upd f u v u = v := by
  simp [upd]

theorem upd_other (f : Nat → List Nat) {u u' : Nat} (v : List Nat) (h : u' ≠ u) :
    upd f u v u' = f u' := by
  simp [upd, h]

/-! ### `apply_dyngroup_change` -/

theorem applyDynLoop_spec (env : Env) (w : World) (expect : Bool) :
    ∀ (ws : List Ent) (st st' : State), applyDynLoop env w expect ws st = some st' →
      st'.ents = st.ents ∧ st'.mem = st.mem ∧ st'.rdmo = st.rdmo ∧
      (∀ u, u ∉ ws.map (·.id) → st'.dyn u = st.dyn u ∧ lookup st'.cache u = lookup st.cache u) ∧
      (Uniq ws → ∀ g ∈ ws, ∃ fc ms, g.filt = some fc ∧ fullEval env w fc = some ms ∧
        st'.dyn g.id = ms ∧ lookup st'.cache g.id = some fc) := by
  intro ws
  induction ws with
  | nil =>
    intro st st' h
    simp only [applyDynLoop] at h
    injection h with h
    subst h
    exact ⟨rfl, rfl, rfl, fun _ _ => ⟨rfl, rfl⟩, fun _ g hg => by cases hg⟩
  | cons g gs ih =>
    intro st st' h
    simp only [applyDynLoop] at h
    cases hf : g.filt with
    | none => simp [hf] at h
    | some fc =>
      simp only [hf] at h
      cases he : fullEval env w fc with
      | none => simp [he] at h
      | some ms =>
        simp only [he] at h
        split at h
        · cases h
        · obtain ⟨h1, h2, h3, h4, h5⟩ := ih _ _ h
          refine ⟨h1, h2, h3, ?_, ?_⟩
          · intro u hu
            simp only [List.map_cons, List.mem_cons, not_or] at hu
            obtain ⟨ha, hb⟩ := h4 u hu.2
            exact ⟨by rw [ha]; exact upd_other _ _ hu.1, by rw [hb]; exact lookup_cacheSet_other _ _ hu.1⟩
          · intro hq g' hg'
            have hq' : g.id ∉ gs.map (·.id) ∧ Uniq gs := by
              simpa [Uniq, List.nodup_cons] using hq
            rcases List.mem_cons.mp hg' with rfl | hg''
            · obtain ⟨ha, hb⟩ := h4 g'.id hq'.1
              exact ⟨fc, ms, hf, he, by rw [ha]; exact upd_same _ _ _, by rw [hb]; exact lookup_cacheSet_same _ _ _⟩
            · exact h5 hq'.2 g' hg''


theorem mem_addAll {s xs : List Nat} {u : Nat} : u ∈ addAll s xs ↔ u ∈ s ∨ u ∈ xs := by
  simp only [addAll, List.mem_append, List.mem_filter]
  constructor
  · rintro (h | h)
    · exact Or.inl h
    · exact Or.inr h.1
  · rintro (h | h)
    · exact Or.inl h
    · by_cases hs : u ∈ s
      · exact Or.inl hs
      · exact Or.inr ⟨h, by simpa using hs⟩

theorem mem_remAll {s xs : List Nat} {u : Nat} : u ∈ remAll s xs ↔ u ∈ s ∧ u ∉ xs := by
  simp [remAll, List.mem_filter]

theorem hasDup_false : ∀ {l : List Nat}, hasDup l = false → l.Nodup
  | [], _ => List.nodup_nil
  | x :: xs, h => by
    simp only [hasDup, Bool.or_eq_false_iff] at h
    exact List.nodup_cons.mpr ⟨by simpa using h.1, hasDup_false h.2⟩

theorem liveId_of_mem (env : Env) {st : State} (hu : Uniq st.ents) {e : Ent} (he : e ∈ st.ents) :
    st.liveId env e.id = env.live e := by
  simp [State.liveId, State.find, find_of_mem hu he]

theorem liveId_true (env : Env) {st : State} {u : Nat} (h : st.liveId env u = true) :
    ∃ e ∈ st.ents, e.id = u ∧ env.live e = true := by
  unfold State.liveId State.find at h
  split at h
  · rename_i e he
    exact ⟨e, (find_mem he).1, (find_mem he).2, h⟩
  · cases h

theorem Uniq.filter {ents : List Ent} (hu : Uniq ents) (p : Ent → Bool) : Uniq (ents.filter p) :=
  List.Nodup.sublist (List.Sublist.map _ List.filter_sublist) hu

theorem Uniq.eq_of_id {ents : List Ent} (hu : Uniq ents) {a b : Ent} (ha : a ∈ ents) (hb : b ∈ ents)
    (h : a.id = b.id) : a = b := by
  have h1 := find_of_mem hu ha
  have h2 := find_of_mem hu hb
  rw [h] at h1
  rw [h1] at h2
  injection h2

/-- what one call of `apply_dyngroup_change` does -/
theorem applyDyn_spec (env : Env) (st st' : State) (targets : List Nat) (expect : Bool)
    (hu : Uniq st.ents) (h : applyDyn env st targets expect = some st') :
    st'.ents = st.ents ∧ st'.mem = st.mem ∧ st'.rdmo = st.rdmo ∧
    (∀ u, ¬ (u ∈ targets ∧ st.liveId env u = true) →
      st'.dyn u = st.dyn u ∧ lookup st'.cache u = lookup st.cache u) ∧
    (∀ g ∈ st.ents, g.id ∈ targets → env.live g = true →
      ∃ fc ms, g.filt = some fc ∧ fullEval env (worldOf st.ents) fc = some ms ∧
        st'.dyn g.id = ms ∧ lookup st'.cache g.id = some fc) := by
  unfold applyDyn at h
  obtain ⟨h1, h2, h3, h4, h5⟩ := applyDynLoop_spec env _ expect _ st st' h
  refine ⟨h1, h2, h3, ?_, ?_⟩
  · intro u hu'
    apply h4
    intro hmem
    obtain ⟨e, he, rfl⟩ := List.mem_map.mp hmem
    obtain ⟨he1, he2⟩ := List.mem_filter.mp he
    simp only [Bool.and_eq_true, List.contains_eq_mem, decide_eq_true_eq] at he2
    exact hu' ⟨he2.1, by rw [liveId_of_mem env hu he1]; exact he2.2⟩
  · intro g hg hgt hgl
    exact h5 (hu.filter _) g (List.mem_filter.mpr ⟨hg, by simp [hgt, hgl]⟩)


/-! ### the invariant -/

/-- the property for the groups whose uuid satisfies `ok` -/
def ExactOn (env : Env) (st : State) (ok : Nat → Prop) : Prop :=
  ∀ g ∈ st.ents, env.live g = true → env.isDyn g.entry = true → ok g.id → ∀ fc, g.filt = some fc →
    ∀ u, u ∈ st.dyn g.id ↔ Matches env st.ents fc u

/-- **The property**: every live dynamic group lists exactly the live entries satisfying its filter. -/
def Exact (env : Env) (st : State) : Prop := ExactOn env st (fun _ => True)

/-- no live dynamic group satisfies the filter of a live dynamic group (finding F1 otherwise) -/
def NoDynMatch (env : Env) (ents : List Ent) : Prop :=
  ∀ g ∈ ents, env.live g = true → env.isDyn g.entry = true → ∀ fc, g.filt = some fc →
    ∀ e ∈ ents, env.live e = true → env.isDyn e.entry = true → M env fc e.entry = false

structure InvOn (env : Env) (st : State) (ok : Nat → Prop) : Prop where
  uniq : Uniq st.ents
  /-- every live dyngroup is in the plugin's cache, with its current filter -/
  cached : ∀ g ∈ st.ents, env.live g = true → env.isDyn g.entry = true →
    ∃ fc, g.filt = some fc ∧ lookup st.cache g.id = some fc
  good : ∀ g ∈ st.ents, ∀ fc, g.filt = some fc → goodB env fc = true
  nodyn : NoDynMatch env st.ents
  exact : ExactOn env st ok

def Inv (env : Env) (st : State) : Prop := InvOn env st (fun _ => True)

theorem find_isSome_false {ents : List Ent} {u : Nat}
    (h : (ents.find? (fun e => e.id == u)).isSome = false) : u ∉ ents.map (·.id) := by
  intro hm
  obtain ⟨e, he, rfl⟩ := List.mem_map.mp hm
  have : (ents.find? (fun x => x.id == e.id)).isSome = true := by
    rw [List.find?_isSome]
    exact ⟨e, he, by simp⟩
  rw [this] at h
  cases h

theorem uniq_append {a b : List Ent} (ha : Uniq a) (hb : Uniq b)
    (hd : ∀ e ∈ b, e.id ∉ a.map (·.id)) : Uniq (a ++ b) := by
  unfold Uniq at *
  rw [List.map_append, List.nodup_append]
  refine ⟨ha, hb, ?_⟩
  intro x hx y hy hxy
  obtain ⟨e, he, rfl⟩ := List.mem_map.mp hy
  exact hd e he (hxy ▸ hx)

theorem live_of_not_masked {env : Env} {e : Ent} (h : env.masked e.entry = false) :
    env.live e = true := by simp [Env.live, h]

/-- `post_create` after a create that passed the request checks -/
theorem postCreate_preserves (env : Env) (st st0 st' : State) (news : List Ent) (hI : Inv env st)
    (hids : (news.map (·.id)).Nodup) (hfresh : ∀ e ∈ news, e.id ∉ st.ents.map (·.id))
    (hlive : ∀ e ∈ news, env.live e = true)
    (hgood : ∀ e ∈ news, ∀ fc, e.filt = some fc → goodB env fc = true)
    (hents0 : st0.ents = st.ents ++ news) (hcache0 : st0.cache = st.cache)
    (hdyn0 : ∀ g ∈ st.ents, st0.dyn g.id = st.dyn g.id)
    (h : postCreate env st0 news = some st')
    (hnd : NoDynMatch env st'.ents) : Inv env st' := by
  have hU : Uniq (st.ents ++ news) := uniq_append hI.uniq hids hfresh
  have hU0 : Uniq st0.ents := hents0 ▸ hU
  simp only [postCreate, createIncFirst, if_true] at h
  split at h
  · cases h
  · simp only [Option.bind] at h
    -- the state after the incremental half
    generalize hst1 : ({ st0 with dyn := incCreate env st0 (news.filter (fun e => !env.isDyn e.entry)) } : State) = st1 at h
    have hents1 : st1.ents = st.ents ++ news := by rw [← hst1]; exact hents0
    have hcache1 : st1.cache = st.cache := by rw [← hst1]; exact hcache0
    have hU1 : Uniq st1.ents := hents1 ▸ hU
    -- what the full half leaves
    have hfull : st'.ents = st.ents ++ news ∧
        (∀ u, ¬ (u ∈ (news.filter (fun e => env.isDyn e.entry)).map (·.id)) →
          st'.dyn u = st1.dyn u ∧ lookup st'.cache u = lookup st.cache u) ∧
        (∀ g ∈ news, env.isDyn g.entry = true →
          ∃ fc ms, g.filt = some fc ∧ fullEval env (worldOf (st.ents ++ news)) fc = some ms ∧
            st'.dyn g.id = ms ∧ lookup st'.cache g.id = some fc) := by
      split at h
      · rename_i hemp
        injection h with h
        subst h
        refine ⟨hents1, fun u _ => ⟨rfl, by rw [hcache1]⟩, ?_⟩
        intro g hg hgd
        have : g.id ∈ (news.filter (fun e => env.isDyn e.entry)).map (·.id) :=
          List.mem_map_of_mem (List.mem_filter.mpr ⟨hg, hgd⟩)
        simp only [List.isEmpty_iff] at hemp
        rw [hemp] at this
        cases this
      · obtain ⟨h1, _, _, h4, h5⟩ := applyDyn_spec env st1 st' _ _ hU1 h
        refine ⟨by rw [h1, hents1], ?_, ?_⟩
        · intro u hu
          obtain ⟨ha, hb⟩ := h4 u (fun hc => hu hc.1)
          exact ⟨ha, by rw [hb, hcache1]⟩
        · intro g hg hgd
          have hg1 : g ∈ st1.ents := by rw [hents1]; exact List.mem_append_right _ hg
          have := h5 g hg1 (List.mem_map_of_mem (List.mem_filter.mpr ⟨hg, hgd⟩)) (hlive g hg)
          rw [hents1] at this
          exact this
    obtain ⟨hE, hold, hnew⟩ := hfull
    have hnotnew : ∀ g ∈ st.ents, g.id ∉ (news.filter (fun e => env.isDyn e.entry)).map (·.id) := by
      intro g hg hm
      obtain ⟨e, he, hid⟩ := List.mem_map.mp hm
      exact hfresh e (List.mem_filter.mp he).1 (hid ▸ List.mem_map_of_mem hg)
    refine ⟨hE ▸ hU, ?_, ?_, hnd, ?_⟩
    · -- cached
      intro g hg hgl hgd
      rw [hE] at hg
      rcases List.mem_append.mp hg with hg | hg
      · obtain ⟨fc, hf, hc⟩ := hI.cached g hg hgl hgd
        exact ⟨fc, hf, by rw [(hold g.id (hnotnew g hg)).2]; exact hc⟩
      · obtain ⟨fc, ms, hf, _, _, hc⟩ := hnew g hg hgd
        exact ⟨fc, hf, hc⟩
    · -- good
      intro g hg fc hf
      rw [hE] at hg
      rcases List.mem_append.mp hg with hg | hg
      · exact hI.good g hg fc hf
      · exact hgood g hg fc hf
    · -- exact
      intro g hg hgl hgd _ fc hf u
      rw [hE] at hg ⊢
      rcases List.mem_append.mp hg with hg | hg
      · -- an existing group: the incremental half
        obtain ⟨fc', hf', hc⟩ := hI.cached g hg hgl hgd
        rw [hf] at hf'
        injection hf' with hf'
        subst hf'
        have hok : fcOk fc = true := goodB_fcOk (hI.good g hg fc hf)
        rw [(hold g.id (hnotnew g hg)).1, ← hst1]
        have hgl' : st0.liveId env g.id = true := by
          rw [liveId_of_mem env hU0 (by rw [hents0]; exact List.mem_append_left _ hg)]
          exact hgl
        simp only [incCreate, hcache0, hc, hgl', if_true, mem_addAll, hdyn0 g hg]
        rw [hI.exact g hg hgl hgd trivial fc hf u]
        constructor
        · rintro (⟨e, he, h1, h2, h3⟩ | hx)
          · exact ⟨e, List.mem_append_left _ he, h1, h2, h3⟩
          · obtain ⟨e, he, rfl⟩ := List.mem_map.mp hx
            obtain ⟨he1, he2⟩ := List.mem_filter.mp he
            obtain ⟨he3, _⟩ := List.mem_filter.mp he1
            have he2' : testB true env fc e = true := he2
            rw [testB_eq env fc e hok, Bool.and_eq_true] at he2'
            exact ⟨e, List.mem_append_right _ he3, rfl, hlive e he3, he2'.2⟩
        · rintro ⟨e, he, h1, h2, h3⟩
          rcases List.mem_append.mp he with he | he
          · exact Or.inl ⟨e, he, h1, h2, h3⟩
          · right
            have hnd' : env.isDyn e.entry = false := by
              cases hd : env.isDyn e.entry with
              | false => rfl
              | true =>
                have := hnd g (by rw [hE]; exact List.mem_append_left _ hg) hgl hgd fc hf e
                  (by rw [hE]; exact List.mem_append_right _ he) h2 hd
                rw [this] at h3
                cases h3
            rw [← h1]
            refine List.mem_map_of_mem (List.mem_filter.mpr ⟨List.mem_filter.mpr ⟨he, by simp [hnd']⟩, ?_⟩)
            show testB true env fc e = true
            rw [testB_eq env fc e hok, h2, h3]
            rfl
      · -- a new group: the full half
        obtain ⟨fc', ms, hf', hev, hd, _⟩ := hnew g hg hgd
        rw [hf] at hf'
        injection hf' with hf'
        subst hf'
        rw [hd]
        exact fullEval_matches env hU fc ms (hgood g hg fc hf) hev u


/-! ### `post_modify` -/

theorem replaceEnts_ids (ents post : List Ent) :
    (replaceEnts ents post).map (·.id) = ents.map (·.id) := by
  simp only [replaceEnts, List.map_map]
  apply List.map_congr_left
  intro e _
  simp only [Function.comp]
  split
  · rename_i p hp
    have := List.find?_some hp
    simpa using this
  · rfl

theorem find_map_pre {pre : List Ent} {f : Ent → Ent} (hid : ∀ e, (f e).id = e.id) (u : Nat) :
    (pre.map f).find? (fun p => p.id == u) = (pre.find? (fun p => p.id == u)).map f := by
  rw [List.find?_map]
  have : ((fun p : Ent => p.id == u) ∘ f) = fun p => p.id == u := by
    funext x
    simp [Function.comp, hid]
  rw [this]

theorem find_pre_in {pre : List Ent} {f : Ent → Ent} (hid : ∀ e, (f e).id = e.id) (hu : Uniq pre)
    {e : Ent} (he : e ∈ pre) : (pre.map f).find? (fun p => p.id == e.id) = some (f e) := by
  rw [find_map_pre hid, find_of_mem hu he]
  rfl

theorem find_pre_out {pre : List Ent} {f : Ent → Ent} (hid : ∀ e, (f e).id = e.id)
    {u : Nat} (he : u ∉ pre.map (·.id)) : (pre.map f).find? (fun p => p.id == u) = none := by
  rw [find_map_pre hid, find_none_of_not_mem he]
  rfl

/-- the entries after a modify: the modified ones replaced, in place -/
theorem mem_replaceEnts {ents pre : List Ent} {f : Ent → Ent} (hid : ∀ e, (f e).id = e.id)
    (hu : Uniq ents) (hpre : ∀ e ∈ pre, e ∈ ents) (hupre : Uniq pre) (x : Ent) :
    x ∈ replaceEnts ents (pre.map f) ↔
      (∃ e ∈ pre, x = f e) ∨ (x ∈ ents ∧ x.id ∉ pre.map (·.id)) := by
  unfold replaceEnts
  rw [List.mem_map]
  constructor
  · rintro ⟨e, he, rfl⟩
    by_cases hin : e.id ∈ pre.map (·.id)
    · obtain ⟨e', he', hid'⟩ := List.mem_map.mp hin
      have : e' = e := hu.eq_of_id (hpre e' he') he hid'
      subst this
      simp only [find_pre_in hid hupre he']
      exact Or.inl ⟨e', he', rfl⟩
    · simp only [find_pre_out hid hin]
      exact Or.inr ⟨he, hin⟩
  · rintro (⟨e, he, rfl⟩ | ⟨hx, hout⟩)
    · exact ⟨e, hpre e he, by simp only [find_pre_in hid hupre he]⟩
    · exact ⟨x, hx, by simp only [find_pre_out hid hout]⟩

theorem zip_filter_map {α : Type} (l : List α) (f : α → α) (p : α → Bool)
    (h : ∀ x ∈ l, p (f x) = p x) :
    (l.filter p).zip ((l.map f).filter p) = (l.filter p).map (fun x => (x, f x)) := by
  induction l with
  | nil => rfl
  | cons x xs ih =>
    have hx := h x (List.mem_cons_self ..)
    have ih' := ih (fun y hy => h y (List.mem_cons_of_mem _ hy))
    simp only [List.map_cons, List.filter_cons, hx]
    split
    · simp [ih']
    · exact ih'

theorem mem_incModifyOne (env : Env) (fc : FC) (pairs : List (Ent × Ent)) (D : List Nat) (x : Nat) :
    x ∈ incModifyOne env fc pairs D ↔
      (x ∈ D ∨ ∃ p ∈ pairs, addTest (testB maskPost env fc p.2) (testB maskPre env fc p.1) false = true ∧
          p.2.id = x) ∧
        ¬ ∃ p ∈ pairs, (addTest (testB maskPost env fc p.2) (testB maskPre env fc p.1) false = false ∧
          remTest (testB maskPost env fc p.2) (testB maskPre env fc p.1) false = true) ∧ p.2.id = x := by
  simp only [incModifyOne, mem_remAll, mem_addAll, List.mem_map, List.mem_filter, Bool.and_eq_true,
    Bool.not_eq_true']
  constructor
  · rintro ⟨h1, h2⟩
    refine ⟨?_, ?_⟩
    · rcases h1 with h1 | ⟨p, ⟨hp, hadd⟩, rfl⟩
      · exact Or.inl h1
      · exact Or.inr ⟨p, hp, hadd, rfl⟩
    · rintro ⟨p, hp, hc, rfl⟩
      exact h2 ⟨p, ⟨hp, hc⟩, rfl⟩
  · rintro ⟨h1, h2⟩
    refine ⟨?_, ?_⟩
    · rcases h1 with h1 | ⟨p, hp, hadd, rfl⟩
      · exact Or.inl h1
      · exact Or.inr ⟨p, ⟨hp, hadd⟩, rfl⟩
    · rintro ⟨p, ⟨hp, hc⟩, rfl⟩
      exact h2 ⟨p, hp, hc, rfl⟩

/-- the add / remove tests of `post_modify` on one changed entry, for a group that was exact on
the old entry: the entry ends up a member iff its new form is live and satisfies the filter
(`lp`, `lq` = old / new form is live; `mp`, `mq` = old / new form satisfies the filter) -/
theorem inc_logic_old (lp lq mp mq : Bool) (inD : Prop)
    (hD : inD ↔ (lp = true ∧ mp = true)) :
    ((inD ∨ addTest (lq && mq) (lp && mp) false = true) ∧
      ¬ (addTest (lq && mq) (lp && mp) false = false ∧ remTest (lq && mq) (lp && mp) false = true)) ↔
      (lq = true ∧ mq = true) := by
  rw [hD]
  cases lp <;> cases lq <;> cases mp <;> cases mq <;> simp_all [addTest, remTest]

/-- the same for a group that has just been re-evaluated on the new entries: nothing changes -/
theorem inc_logic_new (lp lq mp mq : Bool) (inD : Prop)
    (hD : inD ↔ (lq = true ∧ mq = true)) :
    ((inD ∨ addTest (lq && mq) (lp && mp) false = true) ∧
      ¬ (addTest (lq && mq) (lp && mp) false = false ∧ remTest (lq && mq) (lp && mp) false = true)) ↔
      (lq = true ∧ mq = true) := by
  rw [hD]
  cases lp <;> cases lq <;> cases mp <;> cases mq <;> simp_all [addTest, remTest]

theorem matches_self {env : Env} {ents : List Ent} (hu : Uniq ents) {e : Ent} (he : e ∈ ents) (fc : FC) :
    Matches env ents fc e.id ↔ (env.live e = true ∧ M env fc e.entry = true) := by
  constructor
  · rintro ⟨y, hy, hyid, hl, hm⟩
    have : y = e := hu.eq_of_id hy he hyid
    subst this
    exact ⟨hl, hm⟩
  · rintro ⟨hl, hm⟩
    exact ⟨e, he, rfl, hl, hm⟩

/-- **`DynGroup::post_modify`**, for any set of changed entries (`pre` ↦ `pre.map f`): every live
dyngroup that was exact stays exact — the changed dyngroups by full re-evaluation, the others by the
add / remove tests on the hidden-state-guarded matches. -/
theorem postModify_spec (env : Env) (st st1 st' : State) (ok : Nat → Prop) (pre : List Ent)
    (f : Ent → Ent) (hI : InvOn env st ok)
    (hpre : ∀ e ∈ pre, e ∈ st.ents) (hupre : Uniq pre)
    (hid : ∀ e, (f e).id = e.id)
    (hkind : ∀ e ∈ pre, env.isDyn (f e).entry = env.isDyn e.entry)
    (hgoodf : ∀ e ∈ pre, ∀ fc, (f e).filt = some fc → goodB env fc = true)
    (hents1 : st1.ents = replaceEnts st.ents (pre.map f)) (hdyn1 : st1.dyn = st.dyn)
    (hcache1 : st1.cache = st.cache)
    (h : postModify env st1 pre (pre.map f) = some st')
    (hnd : NoDynMatch env st1.ents) :
    st'.ents = st1.ents ∧ st'.mem = st1.mem ∧ st'.rdmo = st1.rdmo ∧
      InvOn env st' (fun u => (∃ e ∈ pre, e.id = u ∧ env.isDyn e.entry = true) ∨ ok u) := by
  have hU1 : Uniq st1.ents := by
    unfold Uniq
    rw [hents1, replaceEnts_ids]
    exact hI.uniq
  have hmem1 : ∀ x, x ∈ st1.ents ↔
      (∃ e ∈ pre, x = f e) ∨ (x ∈ st.ents ∧ x.id ∉ pre.map (·.id)) := by
    intro x
    rw [hents1]
    exact mem_replaceEnts hid hI.uniq hpre hupre x
  have hfe1 : ∀ e ∈ pre, f e ∈ st1.ents := fun e he => (hmem1 _).mpr (Or.inl ⟨e, he, rfl⟩)
  -- matching on the new entry list
  have hMA : ∀ e ∈ pre, ∀ fc, Matches env st1.ents fc e.id ↔
      (env.live (f e) = true ∧ M env fc (f e).entry = true) := by
    intro e he fc
    have := matches_self (env := env) hU1 (hfe1 e he) fc
    rwa [hid] at this
  have hMB : ∀ x, x ∉ pre.map (·.id) → ∀ fc, Matches env st1.ents fc x ↔ Matches env st.ents fc x := by
    intro x hx fc
    constructor
    · rintro ⟨y, hy, hyid, hl, hm⟩
      rcases (hmem1 y).mp hy with ⟨e, he, rfl⟩ | ⟨hy', _⟩
      · exact absurd (by rw [← hyid, hid]; exact List.mem_map_of_mem he) hx
      · exact ⟨y, hy', hyid, hl, hm⟩
    · rintro ⟨y, hy, hyid, hl, hm⟩
      exact ⟨y, (hmem1 y).mpr (Or.inr ⟨hy, by rw [hyid]; exact hx⟩), hyid, hl, hm⟩
  simp only [postModify, modifyFullFirst, if_true] at h
  obtain ⟨st2, hfull, hinc⟩ := Option.bind_eq_some_iff.mp h
  -- the full half
  have hnDyn : ∀ u, u ∈ ((pre.map f).filter (fun e => env.isDyn e.entry)).map (·.id) ↔
      ∃ e ∈ pre, e.id = u ∧ env.isDyn e.entry = true := by
    intro u
    simp only [List.mem_map, List.mem_filter]
    constructor
    · rintro ⟨y, ⟨⟨e, he, rfl⟩, hd⟩, rfl⟩
      exact ⟨e, he, (hid e).symm, by rw [← hkind e he]; exact hd⟩
    · rintro ⟨e, he, rfl, hd⟩
      exact ⟨f e, ⟨⟨e, he, rfl⟩, by rw [hkind e he]; exact hd⟩, hid e⟩
  have hF : st2.ents = st1.ents ∧ st2.mem = st1.mem ∧ st2.rdmo = st1.rdmo ∧
      (∀ u, ¬ (∃ e ∈ pre, e.id = u ∧ env.isDyn e.entry = true) →
        st2.dyn u = st.dyn u ∧ lookup st2.cache u = lookup st.cache u) ∧
      (∀ e ∈ pre, env.isDyn e.entry = true → env.live (f e) = true →
        ∃ fc ms, (f e).filt = some fc ∧ fullEval env (worldOf st1.ents) fc = some ms ∧
          st2.dyn e.id = ms ∧ lookup st2.cache e.id = some fc) := by
    split at hfull
    · rename_i hemp
      injection hfull with hfull
      subst hfull
      refine ⟨rfl, rfl, rfl, fun u _ => ⟨by rw [hdyn1], by rw [hcache1]⟩, ?_⟩
      intro e he hd _
      have := (hnDyn e.id).mpr ⟨e, he, rfl, hd⟩
      simp only [List.isEmpty_iff] at hemp
      rw [hemp] at this
      cases this
    · obtain ⟨h1, h2, h3, h4, h5⟩ := applyDyn_spec env st1 st2 _ _ hU1 hfull
      refine ⟨h1, h2, h3, ?_, ?_⟩
      · intro u hu
        obtain ⟨ha, hb⟩ := h4 u (fun hc => hu ((hnDyn u).mp hc.1))
        exact ⟨by rw [ha, hdyn1], by rw [hb, hcache1]⟩
      · intro e he hd hl
        have := h5 (f e) (hfe1 e he) ((hnDyn _).mpr ⟨e, he, (hid e).symm, hd⟩) hl
        rwa [hid] at this
  obtain ⟨hE2, hM2, hR2, hF4, hF5⟩ := hF
  -- the incremental half
  split at hinc
  · cases hinc
  injection hinc with hinc
  have hE' : st'.ents = st1.ents := by rw [← hinc]; exact hE2
  have hcache' : st'.cache = st2.cache := by rw [← hinc]
  have hpairs : (pre.filter (fun e => !env.isDyn e.entry)).zip
      ((pre.map f).filter (fun e => !env.isDyn e.entry)) =
      (pre.filter (fun e => !env.isDyn e.entry)).map (fun x => (x, f x)) :=
    zip_filter_map pre f _ (fun x hx => by simp only [hkind x hx])
  rw [hpairs] at hinc
  refine ⟨hE', by rw [← hinc]; exact hM2, by rw [← hinc]; exact hR2, ?_⟩
  -- the cache entry of every live dyngroup of the new state
  have hcached : ∀ g ∈ st1.ents, env.live g = true → env.isDyn g.entry = true →
      ∃ fc, g.filt = some fc ∧ lookup st2.cache g.id = some fc := by
    intro g hg hgl hgd
    rcases (hmem1 g).mp hg with ⟨e, he, rfl⟩ | ⟨hg', hout⟩
    · obtain ⟨fc, ms, hf, _, _, hc⟩ := hF5 e he (by rw [← hkind e he]; exact hgd) hgl
      exact ⟨fc, hf, by rw [hid]; exact hc⟩
    · obtain ⟨fc, hf, hc⟩ := hI.cached g hg' hgl hgd
      refine ⟨fc, hf, ?_⟩
      rw [(hF4 g.id ?_).2]
      · exact hc
      · rintro ⟨e, he, hid', _⟩
        exact hout (hid' ▸ List.mem_map_of_mem he)
  refine ⟨hE' ▸ hU1, ?_, ?_, hE' ▸ hnd, ?_⟩
  · intro g hg hgl hgd
    rw [hE'] at hg
    rw [hcache']
    exact hcached g hg hgl hgd
  · intro g hg fc hf
    rw [hE'] at hg
    rcases (hmem1 g).mp hg with ⟨e, he, rfl⟩ | ⟨hg', _⟩
    · exact hgoodf e he fc hf
    · exact hI.good g hg' fc hf
  · -- exactness
    intro g hg hgl hgd hok fc hf x
    rw [hE'] at hg ⊢
    obtain ⟨fc', hf', hc⟩ := hcached g hg hgl hgd
    rw [hf] at hf'
    injection hf' with hf'
    subst hf'
    have hgood : goodB env fc = true := by
      rcases (hmem1 g).mp hg with ⟨e, he, rfl⟩ | ⟨hg', _⟩
      · exact hgoodf e he fc hf
      · exact hI.good g hg' fc hf
    have hfok : fcOk fc = true := goodB_fcOk hgood
    have hlive2 : st2.liveId env g.id = true := by
      rw [liveId_of_mem env (hE2 ▸ hU1) (hE2 ▸ hg)]
      exact hgl
    have hdyn' : st'.dyn g.id = incModifyOne env fc
        ((pre.filter (fun e => !env.isDyn e.entry)).map (fun x => (x, f x))) (st2.dyn g.id) := by
      rw [← hinc]
      simp only [incModify, hc, hlive2, if_true]
    rw [hdyn', mem_incModifyOne]
    -- what the group holds before the incremental half
    by_cases hxpre : x ∈ pre.map (·.id)
    · obtain ⟨e, he, rfl⟩ := List.mem_map.mp hxpre
      cases hed : env.isDyn e.entry with
      | true =>
        -- a changed dyngroup as a candidate: never in the pairs
        have hnop : ∀ p ∈ (pre.filter (fun e => !env.isDyn e.entry)).map (fun x => (x, f x)),
            p.2.id ≠ e.id := by
          intro p hp hpe
          obtain ⟨y, hy, rfl⟩ := List.mem_map.mp hp
          obtain ⟨hy1, hy2⟩ := List.mem_filter.mp hy
          have : y = e := hupre.eq_of_id hy1 he (by rw [← hid y]; exact hpe)
          subst this
          simp [hed] at hy2
        have hrhs : ¬ Matches env st1.ents fc e.id := by
          rw [hMA e he fc]
          rintro ⟨hl, hm⟩
          have := hnd g hg hgl hgd fc hf (f e) (hfe1 e he) hl (by rw [hkind e he]; exact hed)
          rw [this] at hm
          cases hm
        have hlhs : e.id ∉ st2.dyn g.id := by
          rcases (hmem1 g).mp hg with ⟨e', he', rfl⟩ | ⟨hg', hout⟩
          · -- g itself re-evaluated
            obtain ⟨fc'', ms, hf'', hev, hd, _⟩ := hF5 e' he' (by rw [← hkind e' he']; exact hgd) hgl
            rw [hf] at hf''
            injection hf'' with hf''
            subst hf''
            rw [hid] at hdyn'
            rw [hid, hd, fullEval_matches env hU1 fc ms hgood hev]
            exact hrhs
          · have hnot : ¬ (∃ e ∈ pre, e.id = g.id ∧ env.isDyn e.entry = true) := by
              rintro ⟨e', he', hid', _⟩
              exact hout (hid' ▸ List.mem_map_of_mem he')
            rw [(hF4 g.id hnot).1]
            have hokg : ok g.id := by
              rcases hok with ⟨e', he', hid', _⟩ | hok
              · exact absurd (hid' ▸ List.mem_map_of_mem he') hout
              · exact hok
            rw [hI.exact g hg' hgl hgd hokg fc hf e.id, matches_self hI.uniq (hpre e he) fc]
            rintro ⟨hl, hm⟩
            have := hI.nodyn g hg' hgl hgd fc hf e (hpre e he) hl hed
            rw [this] at hm
            cases hm
        constructor
        · rintro ⟨h1 | ⟨p, hp, _, hpe⟩, _⟩
          · exact absurd h1 hlhs
          · exact absurd hpe (hnop p hp)
        · intro hm
          exact absurd hm hrhs
      | false =>
        -- a changed candidate: exactly one pair
        have hpair : ∀ (P : Ent × Ent → Prop),
            (∃ p ∈ (pre.filter (fun e => !env.isDyn e.entry)).map (fun x => (x, f x)), P p ∧ p.2.id = e.id) ↔
              P (e, f e) := by
          intro P
          constructor
          · rintro ⟨p, hp, hP, hpe⟩
            obtain ⟨y, hy, rfl⟩ := List.mem_map.mp hp
            have : y = e := hupre.eq_of_id (List.mem_filter.mp hy).1 he (by rw [← hid y]; exact hpe)
            subst this
            exact hP
          · intro hP
            exact ⟨(e, f e), List.mem_map.mpr ⟨e, List.mem_filter.mpr ⟨he, by simp [hed]⟩, rfl⟩, hP, hid e⟩
        rw [hpair (fun p => addTest (testB maskPost env fc p.2) (testB maskPre env fc p.1) false = true),
          hpair (fun p => addTest (testB maskPost env fc p.2) (testB maskPre env fc p.1) false = false ∧
            remTest (testB maskPost env fc p.2) (testB maskPre env fc p.1) false = true)]
        simp only [maskPost, maskPre, testB_eq env fc _ hfok]
        rw [hMA e he fc]
        rcases (hmem1 g).mp hg with ⟨e', he', rfl⟩ | ⟨hg', hout⟩
        · obtain ⟨fc'', ms, hf'', hev, hd, _⟩ := hF5 e' he' (by rw [← hkind e' he']; exact hgd) hgl
          rw [hf] at hf''
          injection hf'' with hf''
          subst hf''
          have hD : e.id ∈ st2.dyn (f e').id ↔ (env.live (f e) = true ∧ M env fc (f e).entry = true) := by
            rw [hid, hd, fullEval_matches env hU1 fc ms hgood hev, hMA e he fc]
          exact inc_logic_new (env.live e) (env.live (f e)) (M env fc e.entry) (M env fc (f e).entry) _ hD
        · have hnot : ¬ (∃ e ∈ pre, e.id = g.id ∧ env.isDyn e.entry = true) := by
            rintro ⟨e', he', hid', _⟩
            exact hout (hid' ▸ List.mem_map_of_mem he')
          have hokg : ok g.id := by
            rcases hok with ⟨e', he', hid', _⟩ | hok
            · exact absurd (hid' ▸ List.mem_map_of_mem he') hout
            · exact hok
          have hD : e.id ∈ st2.dyn g.id ↔ (env.live e = true ∧ M env fc e.entry = true) := by
            rw [(hF4 g.id hnot).1, hI.exact g hg' hgl hgd hokg fc hf e.id,
              matches_self hI.uniq (hpre e he) fc]
          exact inc_logic_old (env.live e) (env.live (f e)) (M env fc e.entry) (M env fc (f e).entry) _ hD
    · -- an entry the operation did not touch
      have hnop : ∀ p ∈ (pre.filter (fun e => !env.isDyn e.entry)).map (fun x => (x, f x)),
          p.2.id ≠ x := by
        intro p hp hpe
        obtain ⟨y, hy, rfl⟩ := List.mem_map.mp hp
        exact hxpre (by rw [← hpe, hid]; exact List.mem_map_of_mem (List.mem_filter.mp hy).1)
      have hD : x ∈ st2.dyn g.id ↔ Matches env st1.ents fc x := by
        rcases (hmem1 g).mp hg with ⟨e', he', rfl⟩ | ⟨hg', hout⟩
        · obtain ⟨fc'', ms, hf'', hev, hd, _⟩ := hF5 e' he' (by rw [← hkind e' he']; exact hgd) hgl
          rw [hf] at hf''
          injection hf'' with hf''
          subst hf''
          rw [hid, hd, fullEval_matches env hU1 fc ms hgood hev]
        · have hnot : ¬ (∃ e ∈ pre, e.id = g.id ∧ env.isDyn e.entry = true) := by
            rintro ⟨e', he', hid', _⟩
            exact hout (hid' ▸ List.mem_map_of_mem he')
          have hokg : ok g.id := by
            rcases hok with ⟨e', he', hid', _⟩ | hok
            · exact absurd (hid' ▸ List.mem_map_of_mem he') hout
            · exact hok
          rw [(hF4 g.id hnot).1, hI.exact g hg' hgl hgd hokg fc hf x, hMB x hxpre fc]
      constructor
      · rintro ⟨h1 | ⟨p, hp, _, hpe⟩, _⟩
        · exact hD.mp h1
        · exact absurd hpe (hnop p hp)
      · intro hm
        refine ⟨Or.inl (hD.mpr hm), ?_⟩
        rintro ⟨p, hp, _, hpe⟩
        exact hnop p hp hpe


theorem applyDyn_ents (env : Env) (st st' : State) (targets : List Nat) (expect : Bool)
    (h : applyDyn env st targets expect = some st') :
    st'.ents = st.ents ∧ st'.mem = st.mem ∧ st'.rdmo = st.rdmo := by
  unfold applyDyn at h
  obtain ⟨h1, h2, h3, _, _⟩ := applyDynLoop_spec env _ expect _ st st' h
  exact ⟨h1, h2, h3⟩

/-- the dyngroup hooks never touch the entry list, `member` or `recycled_directmemberof` -/
theorem postModify_ents (env : Env) (st1 st' : State) (pre post : List Ent)
    (h : postModify env st1 pre post = some st') :
    st'.ents = st1.ents ∧ st'.mem = st1.mem ∧ st'.rdmo = st1.rdmo := by
  simp only [postModify, modifyFullFirst, if_true] at h
  obtain ⟨st2, hfull, hinc⟩ := Option.bind_eq_some_iff.mp h
  have h2 : st2.ents = st1.ents ∧ st2.mem = st1.mem ∧ st2.rdmo = st1.rdmo := by
    split at hfull
    · injection hfull with hfull
      subst hfull
      exact ⟨rfl, rfl, rfl⟩
    · exact applyDyn_ents env _ _ _ _ hfull
  split at hinc
  · cases hinc
  · injection hinc with hinc
    subst hinc
    exact h2

theorem postCreate_ents (env : Env) (st0 st' : State) (news : List Ent)
    (h : postCreate env st0 news = some st') : st'.ents = st0.ents := by
  simp only [postCreate, createIncFirst, if_true] at h
  obtain ⟨st1, hinc, hfull⟩ := Option.bind_eq_some_iff.mp h
  split at hinc
  · cases hinc
  · injection hinc with hinc
    subst hinc
    split at hfull
    · injection hfull with hfull
      subst hfull
      rfl
    · exact (applyDyn_ents env _ _ _ _ hfull).1

theorem InvOn.mono {env : Env} {st : State} {ok ok' : Nat → Prop} (h : InvOn env st ok)
    (hsub : ∀ u, ok' u → ok u) : InvOn env st ok' :=
  ⟨h.uniq, h.cached, h.good, h.nodyn,
    fun g hg hgl hgd hok fc hf u => h.exact g hg hgl hgd (hsub _ hok) fc hf u⟩

/-! ### the filter-visible attributes -/

theorem find_filter_ne' {β : Type} (c : List (Nat × β)) {u u' : Nat} (h : u' ≠ u) :
    (c.filter (fun p => !(p.1 == u))).find? (fun p => p.1 == u') = c.find? (fun p => p.1 == u') := by
  induction c with
  | nil => rfl
  | cons x xs ih =>
    by_cases hx : x.1 = u
    · have h2 : (u == u') = false := by simp [Ne.symm h]
      simp only [List.filter, hx, beq_self_eq_true, Bool.not_true, List.find?, h2]
      exact ih
    · have h3 : (x.1 == u) = false := by simp [hx]
      simp only [List.filter, h3, Bool.not_false, List.find?]
      split
      · rfl
      · exact ih

theorem ofList_setAttr_same (attrs : List (Nat × List Val)) (a : Nat) (vals : List Val) :
    Entry.ofList (setAttr attrs a vals) a = vals := by
  simp [Entry.ofList, setAttr, List.find?]

theorem ofList_setAttr_other (attrs : List (Nat × List Val)) {a b : Nat} (vals : List Val) (h : b ≠ a) :
    Entry.ofList (setAttr attrs a vals) b = Entry.ofList attrs b := by
  have h1 : (a == b) = false := by simp [Ne.symm h]
  simp only [Entry.ofList, setAttr, List.find?, h1, find_filter_ne' attrs h]

/-- a change of attributes other than `class` keeps the classes -/
theorem attrs_keep_class (env : Env) (l : List (Nat × List Val)) (hl : ∀ p ∈ l, p.1 ≠ env.classA)
    (attrs : List (Nat × List Val)) :
    Entry.ofList (l.foldl (fun acc p => setAttr acc p.1 p.2) attrs) env.classA =
      Entry.ofList attrs env.classA := by
  induction l generalizing attrs with
  | nil => rfl
  | cons p ps ih =>
    simp only [List.foldl]
    rw [ih (fun q hq => hl q (List.mem_cons_of_mem _ hq)),
      ofList_setAttr_other _ _ (Ne.symm (hl p (List.mem_cons_self ..)))]

/-- the changes of the modelled operations that keep an entry's kind (dyngroup or not) and its
hidden state: everything but a change of `class` -/
def Change.keepsClass (env : Env) : Change → Prop
  | .attrs l => ∀ p ∈ l, p.1 ≠ env.classA
  | .filt _ => True

theorem Change.apply_class (env : Env) (ch : Change) (h : ch.keepsClass env) (e : Ent) :
    (ch.apply e).entry env.classA = e.entry env.classA := by
  cases ch with
  | attrs l => exact attrs_keep_class env l h e.attrs
  | filt fc => rfl

theorem Change.apply_id (ch : Change) (e : Ent) : (ch.apply e).id = e.id := by
  cases ch <;> rfl

/-- **Modify** (candidates and / or dyngroups; attributes or the filter). -/
theorem modify_preserves (env : Env) (st st' : State) (ids : List Nat) (ch : Change)
    (hI : Inv env st) (h : step env st (.modify ids ch) = some st')
    (hch : ∀ fc, ch = .filt fc → goodB env fc = true) (hkeep : ch.keepsClass env)
    (hnd : NoDynMatch env st'.ents) : Inv env st' := by
  simp only [step] at h
  split at h
  · injection h with h
    subst h
    exact hI
  split at h
  · cases h
  split at h
  · cases h
  rename_i hne hvalid hmask
  generalize hst1 : ({ st with ents := (replaceEnts st.ents ((st.ents.filter (fun e => ids.contains e.id && env.live e)).map ch.apply)) } : State) = st1 at h
  have hents := (postModify_ents env _ _ _ _ h).1
  have hpre : ∀ e ∈ st.ents.filter (fun e => ids.contains e.id && env.live e), e ∈ st.ents :=
    fun e he => (List.mem_filter.mp he).1
  have hprelive : ∀ e ∈ st.ents.filter (fun e => ids.contains e.id && env.live e), env.live e = true := by
    intro e he
    have := (List.mem_filter.mp he).2
    simp only [Bool.and_eq_true] at this
    exact this.2
  have hclass := Change.apply_class env ch hkeep
  have := postModify_spec env st st1 st' (fun _ => True) _ ch.apply hI hpre (hI.uniq.filter _)
    ch.apply_id
    (fun e _ => by simp only [Env.isDyn, hclass])
    (by
      intro e he fc hf
      cases ch with
      | attrs l => exact hI.good e (hpre e he) fc hf
      | filt fc0 =>
        simp only [Change.apply] at hf
        injection hf with hf
        subst hf
        exact hch _ rfl)
    (by rw [← hst1]) (by rw [← hst1]) (by rw [← hst1]) h (hents ▸ hnd)
  exact this.2.2.2.mono (fun u _ => Or.inr trivial)


/-- **Create** (candidates and / or dyngroups, in one request). -/
theorem create_preserves (env : Env) (st st' : State) (news : List Ent)
    (hI : Inv env st) (h : step env st (.create news) = some st')
    (hgood : ∀ e ∈ news, ∀ fc, e.filt = some fc → goodB env fc = true)
    (hnd : NoDynMatch env st'.ents) : Inv env st' := by
  simp only [step] at h
  split at h
  · cases h
  split at h
  · cases h
  split at h
  · cases h
  rename_i h1 h2 h3
  simp only [Bool.or_eq_true, not_or, Bool.not_eq_true] at h1
  have hfresh : ∀ e ∈ news, e.id ∉ st.ents.map (·.id) := by
    intro e he
    have := h1.2
    rw [List.any_eq_false] at this
    have := this e.id (List.mem_map_of_mem he)
    simp only [Bool.not_eq_true] at this
    exact find_isSome_false this
  have hlive : ∀ e ∈ news, env.live e = true := by
    intro e he
    simp only [Bool.not_eq_true] at h2
    rw [List.any_eq_false] at h2
    have := h2 e he
    simp only [Bool.not_eq_true] at this
    exact live_of_not_masked this
  generalize hst0 : ({ st with ents := st.ents ++ news, dyn := (fun u => if (news.map (·.id)).contains u then [] else st.dyn u), mem := (fun u => if (news.map (·.id)).contains u then [] else st.mem u), rdmo := (fun u => if (news.map (·.id)).contains u then [] else st.rdmo u) } : State) = st0 at h
  refine postCreate_preserves env st st0 st' news hI (hasDup_false h1.1) hfresh hlive hgood
    (by rw [← hst0]) (by rw [← hst0]) ?_ h hnd
  intro g hg
  rw [← hst0]
  have : (news.map (·.id)).contains g.id = false := by
    simp only [List.contains_eq_mem, decide_eq_false_iff_not]
    intro hm
    obtain ⟨e, he, hid⟩ := List.mem_map.mp hm
    exact hfresh e he (hid ▸ List.mem_map_of_mem hg)
  simp only [this]
  rfl

theorem masked_addClass (env : Env) (e : Ent) :
    env.masked (addClass env e env.vRecycled).entry = true := by
  simp [Env.masked, addClass, Ent.entry, ofList_setAttr_same]

/-- **Delete** (no dyngroup hook runs: referential integrity removes the uuids). -/
theorem delete_preserves (env : Env) (st st' : State) (ids : List Nat)
    (hI : Inv env st) (h : step env st (.delete ids) = some st')
    (hnd : NoDynMatch env st'.ents) : Inv env st' := by
  simp only [step] at h
  split at h
  · cases h
  injection h with h
  generalize hdel : (st.ents.filter (fun e => ids.contains e.id && env.live e)).map (·.id) = del at h
  have hE : st'.ents = st.ents.map (fun e => if del.contains e.id then addClass env e env.vRecycled else e) := by
    rw [← h]
  have hD : ∀ u, st'.dyn u = remAll (st.dyn u) del := by
    intro u
    rw [← h]
  have hC : st'.cache = st.cache := by rw [← h]
  -- a live entry of the new state is an untouched entry of the old one
  have hback : ∀ y ∈ st'.ents, env.live y = true → y ∈ st.ents ∧ y.id ∉ del := by
    intro y hy hl
    rw [hE] at hy
    obtain ⟨e, he, rfl⟩ := List.mem_map.mp hy
    by_cases hc : del.contains e.id = true
    · simp only [hc, if_true] at hl
      simp [Env.live, masked_addClass] at hl
    · simp only [hc] at hl ⊢
      exact ⟨he, by simpa using hc⟩
  have hfwd : ∀ e ∈ st.ents, e.id ∉ del → e ∈ st'.ents := by
    intro e he hd
    rw [hE]
    refine List.mem_map.mpr ⟨e, he, ?_⟩
    have : del.contains e.id = false := by simpa using hd
    simp only [this]
    rfl
  refine ⟨?_, ?_, ?_, hnd, ?_⟩
  · unfold Uniq
    rw [hE, List.map_map]
    have : ((fun x : Ent => x.id) ∘ fun e => if del.contains e.id then addClass env e env.vRecycled else e) =
        fun x => x.id := by
      funext e
      simp only [Function.comp]
      split <;> rfl
    rw [this]
    exact hI.uniq
  · intro g hg hgl hgd
    obtain ⟨hg', _⟩ := hback g hg hgl
    rw [hC]
    exact hI.cached g hg' hgl hgd
  · intro g hg fc hf
    rw [hE] at hg
    obtain ⟨e, he, rfl⟩ := List.mem_map.mp hg
    split at hf
    · exact hI.good e he fc hf
    · exact hI.good e he fc hf
  · intro g hg hgl hgd _ fc hf u
    obtain ⟨hg', _⟩ := hback g hg hgl
    rw [hD, mem_remAll, hI.exact g hg' hgl hgd trivial fc hf u]
    constructor
    · rintro ⟨⟨e, he, rfl, hl, hm⟩, hnot⟩
      exact ⟨e, hfwd e he hnot, rfl, hl, hm⟩
    · rintro ⟨y, hy, rfl, hl, hm⟩
      obtain ⟨hy', hnot⟩ := hback y hy hl
      exact ⟨⟨y, hy', rfl, hl, hm⟩, hnot⟩


/-! ### revive -/

theorem InvOn.congr {env : Env} {st st2 : State} {ok : Nat → Prop} (h : InvOn env st ok)
    (he : st2.ents = st.ents) (hd : st2.dyn = st.dyn) (hc : st2.cache = st.cache) : InvOn env st2 ok := by
  refine ⟨he ▸ h.uniq, ?_, ?_, he ▸ h.nodyn, ?_⟩
  · intro g hg hgl hgd
    rw [he] at hg
    rw [hc]
    exact h.cached g hg hgl hgd
  · intro g hg fc hf
    rw [he] at hg
    exact h.good g hg fc hf
  · intro g hg hgl hgd hok fc hf u
    rw [he] at hg ⊢
    rw [hd]
    exact h.exact g hg hgl hgd hok fc hf u

theorem InvOn.mono' {env : Env} {st : State} {ok ok' : Nat → Prop} (h : InvOn env st ok)
    (hsub : ∀ g ∈ st.ents, env.live g = true → env.isDyn g.entry = true → ok' g.id → ok g.id) :
    InvOn env st ok' :=
  ⟨h.uniq, h.cached, h.good, h.nodyn,
    fun g hg hgl hgd hok fc hf u => h.exact g hg hgl hgd (hsub g hg hgl hgd hok) fc hf u⟩

theorem replaceEnts_self {ents : List Ent} (hu : Uniq ents) {ge : Ent} (hge : ge ∈ ents) :
    replaceEnts ents ([ge].map id) = ents := by
  unfold replaceEnts
  conv => rhs; rw [← List.map_id ents]
  apply List.map_congr_left
  intro e he
  simp only [List.map_cons, List.map_nil, id, List.find?]
  by_cases h : ge.id = e.id
  · have : ge = e := hu.eq_of_id hge he h
    subst this
    simp
  · have : (ge.id == e.id) = false := by simp [h]
    simp [this]

theorem contains_filter_ne (l : List Val) {v w : Val} (h : w ≠ v) :
    (l.filter (fun x => !(x == v))).contains w = l.contains w := by
  have : ∀ b : Bool, ((l.filter (fun x => !(x == v))).contains w = true ↔ l.contains w = true) →
      (l.filter (fun x => !(x == v))).contains w = l.contains w := by
    intro _ hiff
    cases h1 : (l.filter (fun x => !(x == v))).contains w <;> cases h2 : l.contains w <;> simp_all
  apply this true
  simp only [List.contains_eq_mem, decide_eq_true_eq, List.mem_filter, Bool.not_eq_true',
    beq_eq_false_iff_ne, ne_eq]
  exact ⟨fun hh => hh.1, fun hh => ⟨hh, h⟩⟩

theorem isDyn_dropClass (env : Env) (hwf : env.vDynGroup ≠ env.vRecycled) (e : Ent) :
    env.isDyn (dropClass env e env.vRecycled).entry = env.isDyn e.entry := by
  simp only [Env.isDyn, dropClass, Ent.entry, ofList_setAttr_same]
  exact contains_filter_ne _ hwf

/-- the `Present(member, u)` modifies of `revive_recycled`: every group they reach is fully
re-evaluated, nothing else changes -/
theorem reviveLoop_spec (env : Env) (u : Nat) :
    ∀ (gs : List Nat) (st st' : State) (ok : Nat → Prop), InvOn env st ok →
      reviveLoop env u gs st = some st' →
      st'.ents = st.ents ∧ InvOn env st' (fun x => ok x ∨ x ∈ gs) := by
  intro gs
  induction gs with
  | nil =>
    intro st st' ok hI h
    simp only [reviveLoop] at h
    injection h with h
    subst h
    exact ⟨rfl, hI.mono (fun x hx => by simpa using hx)⟩
  | cons g gs ih =>
    intro st st' ok hI h
    simp only [reviveLoop] at h
    cases hfind : st.find g with
    | none =>
      simp only [hfind] at h
      obtain ⟨h1, h2⟩ := ih st st' ok hI h
      refine ⟨h1, h2.mono' ?_⟩
      intro e he _ _ hok
      rcases hok with hok | hok
      · exact Or.inl hok
      · rcases List.mem_cons.mp hok with hg | hg
        · exfalso
          rw [h1] at he
          unfold State.find at hfind
          rw [List.find?_eq_none] at hfind
          have := hfind e he
          simp [hg] at this
        · exact Or.inr hg
    | some ge =>
      simp only [hfind] at h
      obtain ⟨hge, hgeid⟩ := find_mem hfind
      generalize hstm : ({ st with mem := upd st.mem g (addAll (st.mem g) [u]) } : State) = stm at h
      have hIm : InvOn env stm ok := hI.congr (by rw [← hstm]) (by rw [← hstm]) (by rw [← hstm])
      have hem : stm.ents = st.ents := by rw [← hstm]
      cases hpm : postModify env stm [ge] [ge] with
      | none => simp [hpm] at h
      | some st2 =>
        simp only [hpm] at h
        have hents2 := (postModify_ents env _ _ _ _ hpm).1
        have hspec := postModify_spec env stm stm st2 ok [ge] id hIm
          (by intro e he; rw [List.mem_singleton.mp he, hem]; exact hge)
          (by simp [Uniq])
          (fun _ => rfl) (fun _ _ => rfl)
          (by
            intro e he fc hf
            rw [List.mem_singleton.mp he] at hf
            exact hI.good ge hge fc hf)
          (by rw [replaceEnts_self (hem ▸ hI.uniq) (hem ▸ hge)]) rfl rfl hpm hIm.nodyn
        obtain ⟨h1, h2⟩ := ih st2 st' _ hspec.2.2.2 h
        refine ⟨by rw [h1, hents2, hem], h2.mono' ?_⟩
        intro e he hel hed hok
        rw [h1, hents2, hem] at he
        rcases hok with hok | hok
        · left; right
          exact hok
        · rcases List.mem_cons.mp hok with hg | hg
          · left; left
            have : e = ge := hI.uniq.eq_of_id he hge (by rw [hg, hgeid])
            subst this
            exact ⟨e, List.mem_singleton.mpr rfl, rfl, hed⟩
          · exact Or.inr hg

/-- **Revive** (a candidate or a dyngroup): `post_modify` sees the recycled form as "not a
member" (the guard on `pre`), so the revived entry joins every group whose filter it satisfies. -/
theorem revive_preserves (env : Env) (st st' : State) (id : Nat)
    (hwf : env.vDynGroup ≠ env.vRecycled)
    (hI : Inv env st) (h : step env st (.revive id) = some st')
    (hnd : NoDynMatch env st'.ents) : Inv env st' := by
  simp only [step] at h
  cases hfind : st.find id with
  | none =>
    simp only [hfind] at h
    injection h with h
    subst h
    exact hI
  | some pre =>
    simp only [hfind] at h
    obtain ⟨hpre, hpreid⟩ := find_mem hfind
    split at h
    · injection h with h
      subst h
      exact hI
    split at h
    · cases h
    generalize hst1 : ({ st with ents := (replaceEnts st.ents [dropClass env pre env.vRecycled]), rdmo := (upd st.rdmo id []) } : State) = st1 at h
    cases hpm : postModify env st1 [pre] [dropClass env pre env.vRecycled] with
    | none => simp [hpm] at h
    | some stA =>
      simp only [hpm] at h
      have hentsA := (postModify_ents env _ _ _ _ hpm).1
      have hspec := postModify_spec env st st1 stA (fun _ => True) [pre]
        (fun e => dropClass env e env.vRecycled) hI
        (by intro e he; rw [List.mem_singleton.mp he]; exact hpre)
        (by simp [Uniq])
        (fun _ => rfl) (fun e _ => isDyn_dropClass env hwf e)
        (by
          intro e he fc hf
          rw [List.mem_singleton.mp he] at hf
          exact hI.good pre hpre fc hf)
        (by rw [← hst1]; rfl) (by rw [← hst1]) (by rw [← hst1]) hpm
      have hE' : st'.ents = st1.ents := by
        have hloop : ∀ (gs : List Nat) (s s' : State), reviveLoop env id gs s = some s' → s'.ents = s.ents := by
          intro gs
          induction gs with
          | nil => intro s s' hh; simp only [reviveLoop] at hh; injection hh with hh; rw [hh]
          | cons g gs ih =>
            intro s s' hh
            simp only [reviveLoop] at hh
            split at hh
            · exact ih s s' hh
            · split at hh
              · cases hh
              · rename_i s2 hs2
                rw [ih _ _ hh, (postModify_ents env _ _ _ _ hs2).1]
        rw [hloop _ _ _ h, hentsA]
      have hIA := (hspec (hE' ▸ hnd)).2.2.2
      obtain ⟨_, hfin⟩ := reviveLoop_spec env id _ stA st' _ hIA h
      exact hfin.mono (fun u _ => Or.inl (Or.inr trivial))

/-! ### the executable tests are sound -/

theorem matches_iff_spec (env : Env) (ents : List Ent) (fc : FC) (u : Nat) :
    Matches env ents fc u ↔ u ∈ specMembers env ents fc := by
  simp only [Matches, specMembers, List.mem_map, List.mem_filter, Bool.and_eq_true]
  constructor
  · rintro ⟨e, he, rfl, hl, hm⟩
    exact ⟨e, ⟨he, hl, hm⟩, rfl⟩
  · rintro ⟨e, ⟨he, hl, hm⟩, rfl⟩
    exact ⟨e, he, rfl, hl, hm⟩

theorem all_contains_iff (a b : List Nat) :
    (a.all (fun u => b.contains u) && b.all (fun u => a.contains u)) = true ↔ ∀ u, u ∈ a ↔ u ∈ b := by
  simp only [Bool.and_eq_true, List.all_eq_true, List.contains_eq_mem, decide_eq_true_eq]
  exact ⟨fun ⟨h1, h2⟩ u => ⟨h1 u, h2 u⟩, fun h => ⟨fun u => (h u).mp, fun u => (h u).mpr⟩⟩

theorem exactB_iff (env : Env) (st : State) : exactB env st = true ↔ Exact env st := by
  unfold exactB Exact ExactOn
  rw [List.all_eq_true]
  constructor
  · intro h g hg hgl hgd _ fc hf u
    have := h g hg
    simp only [hgl, hgd, Bool.and_self, Bool.not_true, Bool.false_or, hf] at this
    rw [matches_iff_spec]
    exact (all_contains_iff _ _).mp this u
  · intro h g hg
    cases hgl : env.live g with
    | false => simp
    | true =>
      cases hgd : env.isDyn g.entry with
      | false => simp
      | true =>
        simp only [Bool.and_self, Bool.not_true, Bool.false_or]
        cases hf : g.filt with
        | none => rfl
        | some fc =>
          simp only
          apply (all_contains_iff _ _).mpr
          intro u
          rw [← matches_iff_spec]
          exact h g hg hgl hgd trivial fc hf u

theorem noDynB_sound (env : Env) (ents : List Ent) (h : noDynB env ents = true) :
    NoDynMatch env ents := by
  unfold noDynB at h
  rw [List.all_eq_true] at h
  intro g hg hgl hgd fc hf e he hel hed
  have := h g hg
  simp only [hgl, hgd, Bool.and_self, Bool.not_true, Bool.false_or, hf, List.all_eq_true] at this
  have := this e he
  simp only [hel, hed, Bool.true_and, Bool.not_eq_true'] at this
  exact this

theorem cacheOf_lookup (env : Env) :
    ∀ {ents : List Ent}, Uniq ents → ∀ g ∈ ents, env.live g = true → env.isDyn g.entry = true →
      ∀ fc, g.filt = some fc → lookup (cacheOf env ents) g.id = some fc := by
  intro ents
  induction ents with
  | nil => intro _ g hg; cases hg
  | cons x xs ih =>
    intro hu g hg hgl hgd fc hf
    have hu' : x.id ∉ xs.map (·.id) ∧ Uniq xs := by simpa [Uniq, List.nodup_cons] using hu
    rcases List.mem_cons.mp hg with rfl | hg'
    · simp [cacheOf, List.filterMap, hgl, hgd, hf, lookup, List.find?]
    · have hne : x.id ≠ g.id := by
        intro hx
        exact hu'.1 (hx ▸ List.mem_map_of_mem hg')
      have ih' := ih hu'.2 g hg' hgl hgd fc hf
      unfold cacheOf at ih' ⊢
      simp only [List.filterMap]
      split
      · exact ih'
      · rename_i p hp
        have hp1 : p.1 = x.id := by
          split at hp
          · cases hfx : x.filt with
            | none => simp [hfx] at hp
            | some fcx =>
              simp only [hfx, Option.map] at hp
              injection hp with hp
              rw [← hp]
          · cases hp
        have : (p.1 == g.id) = false := by simp [hp1, hne]
        simp only [lookup, List.find?, this]
        exact ih'

theorem init_inv (env : Env) (ents : List Ent) (dyn mem rdmo : Nat → List Nat)
    (h : initB env (State.load env ents dyn mem rdmo) = true) :
    Inv env (State.load env ents dyn mem rdmo) := by
  unfold initB at h
  simp only [Bool.and_eq_true, Bool.not_eq_true'] at h
  obtain ⟨⟨⟨⟨h1, h2⟩, h3⟩, h4⟩, h5⟩ := h
  have hu : Uniq ents := hasDup_false h1
  rw [List.all_eq_true] at h2 h3
  refine ⟨hu, ?_, ?_, noDynB_sound env _ h4, (exactB_iff env _).mp h5⟩
  · intro g hg hgl hgd
    have := h2 g hg
    simp only [hgl, hgd, Bool.and_self, Bool.not_true, Bool.false_or] at this
    cases hf : g.filt with
    | none => simp [hf] at this
    | some fc => exact ⟨fc, rfl, cacheOf_lookup env hu g hg hgl hgd fc hf⟩
  · intro g hg fc hf
    have := h3 g hg
    simp only [hf] at this
    exact this

end Kanidm.DynGroup
