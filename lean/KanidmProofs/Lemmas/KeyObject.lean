import KanidmModel.KeyObject
import KanidmProofs.Lemmas.SessionMerge
/-!
Helper lemmas for C34: `lookup` characterisations of the `BTreeMap` operations, of
`get_valid_signer`, of `load_key_object`, of the plugin pipeline and of the entry merge.
-/
namespace Kanidm.KeyObject
open Kanidm.Gen.SessionOrd
open Kanidm.Gen.KeyObjectOps
open Kanidm.SessionMerge

variable {α : Type}

/-! ### Maps -/

theorem lookup_mapInsert (m : List (Nat × α)) (k : Nat) (v : α) (j : Nat) :
    lookup (mapInsert m k v) j = if j = k then some v else lookup m j := by
  unfold mapInsert
  rw [lookup_mergeOne]
  by_cases h : j = k
  · simp only [h, if_true]
    cases lookup m k <;> simp [pickOpt, pick]
  · simp [h]

theorem keysNodup_mapInsert (m : List (Nat × α)) (k : Nat) (v : α) (h : KeysNodup m) :
    KeysNodup (mapInsert m k v) := keysNodup_mergeOne _ m k v h

theorem lookup_mapRemove (m : List (Nat × α)) (k j : Nat) :
    lookup (mapRemove m k) j = if j = k then none else lookup m j := by
  unfold mapRemove
  induction m with
  | nil => simp [lookup]
  | cons hd tl ih =>
    obtain ⟨k', v⟩ := hd
    by_cases hk : k' = k
    · have hb : (k' == k) = true := by simpa using hk
      rw [List.filter_cons]
      simp only [hb, Bool.not_true, Bool.false_eq_true, if_false]
      rw [ih]
      subst hk
      by_cases hj : j = k' <;> simp [lookup, hj]
    · have hb : (k' == k) = false := by simpa using hk
      rw [List.filter_cons]
      simp only [hb, Bool.not_false, if_true, lookup]
      rw [ih]
      by_cases hj' : j = k'
      · subst hj'; simp [hk]
      · simp [hj']

theorem keysNodup_mapRemove (m : List (Nat × α)) (k : Nat) (h : KeysNodup m) :
    KeysNodup (mapRemove m k) := keysNodup_filter _ m h

theorem lookup_of_mem {m : List (Nat × α)} (h : KeysNodup m) {k : Nat} {v : α}
    (hm : (k, v) ∈ m) : lookup m k = some v := by
  induction m with
  | nil => cases hm
  | cons hd tl ih =>
    obtain ⟨k', v'⟩ := hd
    have hnd : k' ∉ tl.map (·.1) ∧ KeysNodup tl := by simpa [KeysNodup] using h
    rcases List.mem_cons.1 hm with he | ht
    · cases he; simp [lookup]
    · have hk : k ≠ k' := by
        intro hkk; subst hkk
        exact hnd.1 (List.mem_map.2 ⟨(k, v), ht, rfl⟩)
      simp [lookup, hk, ih hnd.2 ht]

theorem mem_of_lookup {m : List (Nat × α)} {k : Nat} {v : α} (h : lookup m k = some v) :
    (k, v) ∈ m := by
  induction m with
  | nil => simp [lookup] at h
  | cons hd tl ih =>
    obtain ⟨k', v'⟩ := hd
    by_cases hk : k = k'
    · subst hk
      simp only [lookup, if_true, Option.some.injEq] at h
      subst h; simp
    · simp only [lookup, hk, if_false] at h
      exact List.mem_cons_of_mem _ (ih h)

/-! ### `sortByKey` only reorders -/

theorem keys_insertByKey (e : Nat × α) (l : List (Nat × α)) :
    List.Perm ((insertByKey e l).map (·.1)) (e.1 :: l.map (·.1)) := by
  induction l with
  | nil => simp [insertByKey]
  | cons x tl ih =>
    by_cases h : e.1 ≤ x.1
    · simp [insertByKey, h]
    · simp only [insertByKey, h, if_false, List.map_cons]
      exact (List.Perm.cons _ ih).trans (List.Perm.swap _ _ _)

theorem lookup_insertByKey (e : Nat × α) (l : List (Nat × α)) (hn : e.1 ∉ l.map (·.1)) (j : Nat) :
    lookup (insertByKey e l) j = if j = e.1 then some e.2 else lookup l j := by
  induction l with
  | nil => obtain ⟨k, v⟩ := e; simp [insertByKey, lookup]
  | cons x tl ih =>
    obtain ⟨k, v⟩ := e
    obtain ⟨k', v'⟩ := x
    simp only [List.map_cons, List.mem_cons, not_or] at hn
    by_cases h : k ≤ k'
    · simp [insertByKey, h, lookup]
    · simp only [insertByKey, h, if_false, lookup, ih hn.2]
      by_cases hj : j = k'
      · subst hj
        have : ¬ j = k := fun hh => hn.1 hh.symm
        simp [this]
      · simp [hj]

theorem sortByKey_spec (m : List (Nat × α)) (h : KeysNodup m) :
    KeysNodup (sortByKey m) ∧ List.Perm ((sortByKey m).map (·.1)) (m.map (·.1)) ∧
      ∀ j, lookup (sortByKey m) j = lookup m j := by
  induction m with
  | nil => simp [sortByKey, KeysNodup]
  | cons hd tl ih =>
    obtain ⟨k, v⟩ := hd
    have hnd : k ∉ tl.map (·.1) ∧ KeysNodup tl := by simpa [KeysNodup] using h
    obtain ⟨ih1, ih2, ih3⟩ := ih hnd.2
    have hs : sortByKey ((k, v) :: tl) = insertByKey (k, v) (sortByKey tl) := rfl
    have hk : k ∉ (sortByKey tl).map (·.1) := fun hh => hnd.1 (ih2.mem_iff.1 hh)
    have hp := keys_insertByKey (k, v) (sortByKey tl)
    refine ⟨?_, ?_, ?_⟩
    · unfold KeysNodup
      rw [hs, hp.nodup_iff]
      exact List.nodup_cons.2 ⟨hk, ih1⟩
    · rw [hs]
      exact hp.trans (List.Perm.cons _ ih2)
    · intro j
      rw [hs, lookup_insertByKey _ _ hk, ih3]
      by_cases hj : j = k <;> simp [lookup, hj]

/-! ### `get_valid_signer` -/

theorem better_spec (t : Nat) (best : Option (Nat × Nat)) (e : Nat × Nat) :
    better t best e = best ∨ (better t best e = some e ∧ e.1 ≤ t) := by
  unfold better signerStarted
  by_cases h : e.1 ≤ t
  · have hd : decide (e.1 ≤ t) = true := decide_eq_true h
    simp only [hd, if_true]
    cases best with
    | none => exact Or.inr ⟨rfl, h⟩
    | some b =>
      by_cases hb : b.1 < e.1
      · right; exact ⟨by simp [hb], h⟩
      · left; simp [hb]
  · have hd : decide (e.1 ≤ t) = false := decide_eq_false h
    left; simp [hd]

/-- Closed form of the fold: started, maximal, a member. -/
theorem pickSigner_fold (t : Nat) (a : List (Nat × Nat)) (best : Option (Nat × Nat)) :
    (∀ r, a.foldl (better t) best = some r →
        (best = some r ∨ (r ∈ a ∧ r.1 ≤ t)) ∧
        (∀ b, best = some b → b.1 ≤ r.1) ∧ (∀ e ∈ a, e.1 ≤ t → e.1 ≤ r.1)) ∧
    (a.foldl (better t) best = none → best = none ∧ ∀ e ∈ a, ¬ e.1 ≤ t) := by
  induction a generalizing best with
  | nil =>
    refine ⟨?_, ?_⟩
    · intro r hr
      simp only [List.foldl_nil] at hr
      refine ⟨Or.inl hr, ?_, ?_⟩
      · intro b hb; rw [hr] at hb; cases hb; exact Nat.le_refl _
      · intro e he; cases he
    · intro h
      simp only [List.foldl_nil] at h
      exact ⟨h, fun e he => by cases he⟩
  | cons x tl ih =>
    simp only [List.foldl_cons]
    obtain ⟨ih1, ih2⟩ := ih (better t best x)
    have hb : ∀ b, best = some b → ∃ b', better t best x = some b' ∧ b.1 ≤ b'.1 := by
      intro b hbe
      subst hbe
      unfold better
      by_cases hs : signerStarted x.1 t = true
      · by_cases hlt : b.1 < x.1
        · exact ⟨x, by simp [hs, hlt], Nat.le_of_lt hlt⟩
        · exact ⟨b, by simp [hs, hlt], Nat.le_refl _⟩
      · exact ⟨b, by simp [hs], Nat.le_refl _⟩
    have hx : x.1 ≤ t → ∃ b', better t best x = some b' ∧ x.1 ≤ b'.1 := by
      intro hxt
      unfold better signerStarted
      simp only [hxt, decide_true, if_true]
      cases best with
      | none => exact ⟨x, rfl, Nat.le_refl _⟩
      | some b =>
        by_cases hlt : b.1 < x.1
        · exact ⟨x, by simp [hlt], Nat.le_refl _⟩
        · exact ⟨b, by simp [hlt], Nat.le_of_not_lt hlt⟩
    constructor
    · intro r hr
      obtain ⟨h1, h2, h3⟩ := ih1 r hr
      refine ⟨?_, ?_, ?_⟩
      · rcases h1 with h1 | ⟨hm, hle⟩
        · rcases better_spec t best x with hbs | ⟨hbs, hle⟩
          · left; rw [← hbs]; exact h1
          · right
            rw [hbs] at h1; cases h1
            exact ⟨by simp, hle⟩
        · right; exact ⟨List.mem_cons_of_mem _ hm, hle⟩
      · intro b hbe
        obtain ⟨b', hb', hle⟩ := hb b hbe
        exact Nat.le_trans hle (h2 b' hb')
      · intro e he hle
        rcases List.mem_cons.1 he with he | he
        · subst he
          obtain ⟨b', hb', hle'⟩ := hx hle
          exact Nat.le_trans hle' (h2 b' hb')
        · exact h3 e he hle
    · intro hn
      obtain ⟨h1, h2⟩ := ih2 hn
      have hbn : best = none := by
        cases hbe : best with
        | none => rfl
        | some b =>
          obtain ⟨b', hb', _⟩ := hb b hbe
          rw [h1] at hb'; cases hb'
      refine ⟨hbn, ?_⟩
      intro e he hle
      rcases List.mem_cons.1 he with he | he
      · subst he
        obtain ⟨b', hb', _⟩ := hx hle
        rw [h1] at hb'; cases hb'
      · exact h2 e he hle

theorem pickSigner_some {a : List (Nat × Nat)} (ha : KeysNodup a) {t : Nat} {r : Nat × Nat}
    (h : pickSigner a t = some r) :
    lookup a r.1 = some r.2 ∧ r.1 ≤ t ∧
      ∀ vf kid, lookup a vf = some kid → vf ≤ t → vf ≤ r.1 := by
  obtain ⟨h1, _, h3⟩ := (pickSigner_fold t a none).1 r h
  rcases h1 with h1 | ⟨hm, hle⟩
  · cases h1
  · refine ⟨lookup_of_mem ha hm, hle, ?_⟩
    intro vf kid hl hvt
    exact h3 (vf, kid) (mem_of_lookup hl) hvt

theorem pickSigner_none {a : List (Nat × Nat)} {t : Nat} (h : pickSigner a t = none) :
    ∀ vf kid, lookup a vf = some kid → ¬ vf ≤ t := by
  intro vf kid hl
  exact ((pickSigner_fold t a none).2 h).2 (vf, kid) (mem_of_lookup hl)


/-! ### Observations of a key object -/

/-- The slot of key `k` in the key set of usage `u`. -/
def allOf (o : KeyObj) (u : Usage) (k : Nat) : Option Slot := (o u).bind (fun x => lookup x.all k)

/-- The `active` map of usage `u` (empty when the usage is not provisioned). -/
def activeOf (o : KeyObj) (u : Usage) : List (Nat × Nat) := ((o u).map (·.active)).getD []

def slotOf (r : KRec) : Slot := ⟨r.validFrom, r.status, r.statusCid⟩
def recOf (u : Usage) (s : Slot) : KRec := ⟨u, s.validFrom, s.status, s.statusCid⟩

/-- Both maps of every key set are maps. -/
def WF (o : KeyObj) : Prop := ∀ u x, o u = some x → KeysNodup x.all ∧ KeysNodup x.active

theorem KeyObj.empty_get (u : Usage) : KeyObj.empty u = none := by cases u <;> rfl

theorem KeyObj.set_get (o : KeyObj) (u : Usage) (x : UObj) (v : Usage) :
    (o.set u x) v = if v = u then some x else o v := by
  cases u <;> cases v <;> rfl

theorem wf_empty : WF KeyObj.empty := by
  intro u x h; rw [KeyObj.empty_get] at h; cases h

theorem wf_set {o : KeyObj} (h : WF o) (u : Usage) (x : UObj)
    (hx : KeysNodup x.all ∧ KeysNodup x.active) : WF (o.set u x) := by
  intro v y hv
  rw [KeyObj.set_get] at hv
  by_cases hvu : v = u
  · simp only [hvu, if_true, Option.some.injEq] at hv; subst hv; exact hx
  · simp only [hvu, if_false] at hv; exact h v y hv

theorem getD_empty_nodup {o : KeyObj} (h : WF o) (u : Usage) :
    KeysNodup ((o u).getD UObj.empty).all ∧ KeysNodup ((o u).getD UObj.empty).active := by
  cases hu : o u with
  | none => simp [UObj.empty, KeysNodup]
  | some x => simpa using h u x hu

theorem lookup_getD_all (o : KeyObj) (u : Usage) (k : Nat) :
    lookup ((o u).getD UObj.empty).all k = allOf o u k := by
  unfold allOf
  cases o u <;> simp [UObj.empty, lookup]

theorem getD_active (o : KeyObj) (u : Usage) :
    ((o u).getD UObj.empty).active = activeOf o u := by
  unfold activeOf
  cases o u <;> simp [UObj.empty]

theorem allOf_set (o : KeyObj) (u : Usage) (x : UObj) (v : Usage) (k : Nat) :
    allOf (o.set u x) v k = if v = u then lookup x.all k else allOf o v k := by
  unfold allOf
  rw [KeyObj.set_get]
  by_cases h : v = u <;> simp [h]

theorem activeOf_set (o : KeyObj) (u : Usage) (x : UObj) (v : Usage) :
    activeOf (o.set u x) v = if v = u then x.active else activeOf o v := by
  unfold activeOf
  rw [KeyObj.set_get]
  by_cases h : v = u <;> simp [h]

/-! ### `load_key_object` -/

/-- One iteration of the loop of `load_key_object`. -/
def stepL (o : KeyObj) (e : Nat × KRec) : KeyObj :=
  o.set e.2.usage (((o e.2.usage).getD UObj.empty).load e.2.usage e.1 e.2)

theorem loadObj_eq (m : KMap) : loadObj m = (sortByKey m).foldl stepL KeyObj.empty := rfl

theorem wf_stepL {o : KeyObj} (h : WF o) (e : Nat × KRec) : WF (stepL o e) := by
  unfold stepL
  apply wf_set h
  obtain ⟨h1, h2⟩ := getD_empty_nodup h e.2.usage
  unfold UObj.load
  refine ⟨keysNodup_mapInsert _ _ _ h1, ?_⟩
  by_cases ha : loadActivates e.2.usage e.2.status = true
  · simp only [ha, if_true]; exact keysNodup_mapInsert _ _ _ h2
  · simp only [ha]; exact h2

theorem wf_foldl_stepL (l : List (Nat × KRec)) {o : KeyObj} (h : WF o) : WF (l.foldl stepL o) := by
  induction l generalizing o with
  | nil => exact h
  | cons e tl ih => exact ih (wf_stepL h e)

theorem wf_loadObj (m : KMap) : WF (loadObj m) := wf_foldl_stepL _ wf_empty

theorem allOf_stepL (o : KeyObj) (e : Nat × KRec) (u : Usage) (k : Nat) :
    allOf (stepL o e) u k = if u = e.2.usage ∧ k = e.1 then some (slotOf e.2) else allOf o u k := by
  unfold stepL
  rw [allOf_set]
  by_cases hu : u = e.2.usage
  · subst hu
    simp only [if_true, UObj.load, lookup_mapInsert, lookup_getD_all, true_and]
    rfl
  · simp [hu]

theorem allOf_foldl_stepL (l : List (Nat × KRec)) (hl : KeysNodup l) (o : KeyObj) (u : Usage)
    (k : Nat) :
    allOf (l.foldl stepL o) u k =
      match lookup l k with
      | some r => if u = r.usage then some (slotOf r) else allOf o u k
      | none => allOf o u k := by
  induction l generalizing o with
  | nil => simp [lookup]
  | cons e tl ih =>
    obtain ⟨k', r'⟩ := e
    have hnd : k' ∉ tl.map (·.1) ∧ KeysNodup tl := by simpa [KeysNodup] using hl
    simp only [List.foldl_cons]
    rw [ih hnd.2, allOf_stepL]
    by_cases hk : k = k'
    · subst hk
      simp [lookup, lookup_eq_none_of_not_mem tl k hnd.1]
    · simp only [lookup, hk, if_false, and_false]

theorem allOf_loadObj (m : KMap) (hm : KeysNodup m) (u : Usage) (k : Nat) :
    allOf (loadObj m) u k =
      match lookup m k with
      | some r => if u = r.usage then some (slotOf r) else none
      | none => none := by
  obtain ⟨h1, _, h3⟩ := sortByKey_spec m hm
  rw [loadObj_eq, allOf_foldl_stepL _ h1, h3]
  have : allOf KeyObj.empty u k = none := by unfold allOf; rw [KeyObj.empty_get]; rfl
  simp only [this]

theorem lookup_append_single (p : List (Nat × α)) (e : Nat × α) (hn : e.1 ∉ p.map (·.1)) (j : Nat) :
    lookup (p ++ [e]) j = if j = e.1 then some e.2 else lookup p j := by
  induction p with
  | nil => obtain ⟨k, v⟩ := e; simp [lookup]
  | cons x tl ih =>
    obtain ⟨k', v'⟩ := x
    simp only [List.map_cons, List.mem_cons, not_or] at hn
    simp only [List.cons_append, lookup, ih hn.2]
    by_cases hj : j = k'
    · subst hj
      have : ¬ j = e.1 := fun hh => hn.1 hh.symm
      simp [this]
    · simp [hj]

/-- What the `active` map of usage `u` holds after loading the records `p`. -/
structure ActInv (p : List (Nat × KRec)) (o : KeyObj) (u : Usage) : Prop where
  sound : ∀ vf kid, lookup (activeOf o u) vf = some kid →
    ∃ r, lookup p kid = some r ∧ r.usage = u ∧ loadActivates u r.status = true ∧ r.validFrom = vf
  complete : ∀ kid r, lookup p kid = some r → r.usage = u → loadActivates u r.status = true →
    ∃ kid', lookup (activeOf o u) r.validFrom = some kid'

theorem activeOf_stepL (o : KeyObj) (e : Nat × KRec) (u : Usage) :
    activeOf (stepL o e) u =
      if u = e.2.usage ∧ loadActivates u e.2.status = true
      then mapInsert (activeOf o u) e.2.validFrom e.1 else activeOf o u := by
  unfold stepL
  rw [activeOf_set]
  by_cases hu : u = e.2.usage
  · subst hu
    simp only [if_true, UObj.load, getD_active, true_and]
  · simp [hu]

theorem actInv_foldl (l : List (Nat × KRec)) (p : List (Nat × KRec)) (o : KeyObj) (u : Usage)
    (hpl : KeysNodup (p ++ l)) (h : ActInv p o u) : ActInv (p ++ l) (l.foldl stepL o) u := by
  induction l generalizing p o with
  | nil => simpa using h
  | cons e tl ih =>
    have hassoc : p ++ e :: tl = (p ++ [e]) ++ tl := by simp
    rw [hassoc] at hpl ⊢
    simp only [List.foldl_cons]
    apply ih _ _ hpl
    have hpe : KeysNodup (p ++ [e]) := by
      unfold KeysNodup at hpl ⊢
      rw [List.map_append] at hpl
      exact (List.nodup_append.1 hpl).1
    have hne : e.1 ∉ p.map (·.1) := by
      unfold KeysNodup at hpe
      rw [List.map_append, List.nodup_append] at hpe
      intro hmem
      exact hpe.2.2 _ hmem _ (by simp) rfl
    have hkeep : ∀ kid r, lookup p kid = some r → lookup (p ++ [e]) kid = some r := by
      intro kid r hr
      rw [lookup_append_single _ _ hne]
      have : kid ≠ e.1 := by
        intro hk; subst hk
        exact hne (mem_keys_of_lookup hr)
      simp [this, hr]
    by_cases hc : u = e.2.usage ∧ loadActivates u e.2.status = true
    · have hact : activeOf (stepL o e) u = mapInsert (activeOf o u) e.2.validFrom e.1 := by
        rw [activeOf_stepL, if_pos hc]
      constructor
      · intro vf kid hl
        rw [hact, lookup_mapInsert] at hl
        by_cases hv : vf = e.2.validFrom
        · rw [if_pos hv] at hl
          cases hl
          refine ⟨e.2, ?_, hc.1.symm, hc.2, hv.symm⟩
          rw [lookup_append_single _ _ hne]; simp
        · rw [if_neg hv] at hl
          obtain ⟨r, hr, h2, h3, h4⟩ := h.sound vf kid hl
          exact ⟨r, hkeep _ _ hr, h2, h3, h4⟩
      · intro kid r hr hu ha
        rw [lookup_append_single _ _ hne] at hr
        rw [hact, lookup_mapInsert]
        by_cases hv : r.validFrom = e.2.validFrom
        · exact ⟨e.1, by rw [if_pos hv]⟩
        · rw [if_neg hv]
          by_cases hk : kid = e.1
          · rw [if_pos hk] at hr
            cases hr
            exact absurd rfl hv
          · rw [if_neg hk] at hr
            exact h.complete kid r hr hu ha
    · have hact : activeOf (stepL o e) u = activeOf o u := by
        rw [activeOf_stepL, if_neg hc]
      constructor
      · intro vf kid hl
        rw [hact] at hl
        obtain ⟨r, hr, h2, h3, h4⟩ := h.sound vf kid hl
        exact ⟨r, hkeep _ _ hr, h2, h3, h4⟩
      · intro kid r hr hu ha
        rw [lookup_append_single _ _ hne] at hr
        rw [hact]
        by_cases hk : kid = e.1
        · rw [if_pos hk] at hr
          cases hr
          exact absurd ⟨hu.symm, ha⟩ hc
        · rw [if_neg hk] at hr
          exact h.complete kid r hr hu ha

theorem actInv_loadObj (m : KMap) (hm : KeysNodup m) (u : Usage) :
    ActInv m (loadObj m) u := by
  obtain ⟨h1, _, h3⟩ := sortByKey_spec m hm
  have h0 : ActInv [] KeyObj.empty u := by
    constructor
    · intro vf kid hl; simp [activeOf, KeyObj.empty_get, lookup] at hl
    · intro kid r hr; simp [lookup] at hr
  have := actInv_foldl (sortByKey m) [] KeyObj.empty u (by simpa using h1) h0
  rw [loadObj_eq]
  simp only [List.nil_append] at this
  constructor
  · intro vf kid hl
    obtain ⟨r, hr, rest⟩ := this.sound vf kid hl
    exact ⟨r, by rw [← h3]; exact hr, rest⟩
  · intro kid r hr
    exact this.complete kid r (by rw [h3]; exact hr)


/-! ### Per-usage folds (`rotate_keys`, `revoke_keys`) -/

/-- `if let Some(x) = &mut self.<u> { g(x) }`. -/
def setMap (g : Usage → UObj → UObj) (o : KeyObj) (u : Usage) : KeyObj :=
  match o u with
  | some x => o.set u (g u x)
  | none => o

theorem setMap_get (g : Usage → UObj → UObj) (o : KeyObj) (u w : Usage) :
    setMap g o u w = if w = u then (o u).map (g u) else o w := by
  unfold setMap
  cases hu : o u with
  | none => by_cases hw : w = u <;> simp [hw, hu]
  | some x => by_cases hw : w = u <;> simp [KeyObj.set_get, hw]

theorem foldSet_get (g : Usage → UObj → UObj) (l : List Usage) (hl : l.Nodup) (o : KeyObj)
    (v : Usage) :
    (l.foldl (setMap g) o) v = if v ∈ l then (o v).map (g v) else o v := by
  induction l generalizing o with
  | nil => simp
  | cons u tl ih =>
    have hnd := List.nodup_cons.1 hl
    simp only [List.foldl_cons]
    rw [ih hnd.2, setMap_get]
    by_cases hv : v = u
    · subst hv; simp [hnd.1]
    · simp [hv]

theorem allOf_foldSet_rel (R : Option Slot → Option Slot → Prop) (hrefl : ∀ a, R a a)
    (g : Usage → UObj → UObj) (k : Nat)
    (hg : ∀ u x, R (lookup x.all k) (lookup (g u x).all k))
    (l : List Usage) (hl : l.Nodup) (o : KeyObj) (v : Usage) :
    R (allOf o v k) (allOf (l.foldl (setMap g) o) v k) := by
  unfold allOf
  rw [foldSet_get g l hl]
  by_cases hv : v ∈ l
  · simp only [hv, if_true]
    cases o v with
    | none => exact hrefl _
    | some x => exact hg v x
  · simp only [hv, if_false]; exact hrefl _

theorem wf_foldSet (g : Usage → UObj → UObj)
    (hg : ∀ u x, KeysNodup x.all ∧ KeysNodup x.active →
      KeysNodup (g u x).all ∧ KeysNodup (g u x).active)
    (l : List Usage) (hl : l.Nodup) (o : KeyObj) (h : WF o) : WF (l.foldl (setMap g) o) := by
  intro v y hy
  rw [foldSet_get g l hl] at hy
  by_cases hv : v ∈ l
  · simp only [hv, if_true] at hy
    cases hov : o v with
    | none => rw [hov] at hy; cases hy
    | some x =>
      rw [hov] at hy
      simp only [Option.map_some, Option.some.injEq] at hy
      subst hy
      exact hg v x (h v x hov)
  · simp only [hv, if_false] at hy; exact h v y hy

/-! ### How a slot may change inside the plugin -/

/-- Unchanged, or revoked at `cid` (only when `can`). -/
def Evolves (cid : Nat) (can : Prop) (a b : Option Slot) : Prop :=
  a = b ∨ ∃ s s', a = some s ∧ b = some s' ∧ s'.validFrom = s.validFrom ∧
    s'.status = .revoked ∧ s'.statusCid = cid ∧ can

theorem Evolves.refl (cid : Nat) (can : Prop) (a : Option Slot) : Evolves cid can a a := Or.inl rfl

theorem Evolves.trans {cid : Nat} {can : Prop} {a b c : Option Slot}
    (h1 : Evolves cid can a b) (h2 : Evolves cid can b c) : Evolves cid can a c := by
  rcases h1 with h1 | ⟨s, s', ha, hb, hv, hs, hc, hcan⟩
  · subst h1; exact h2
  · rcases h2 with h2 | ⟨t, t', hb', hc', hv', hs', hcc, _⟩
    · subst h2; exact Or.inr ⟨s, s', ha, hb, hv, hs, hc, hcan⟩
    · rw [hb] at hb'; cases hb'
      exact Or.inr ⟨s, t', ha, hc', by rw [hv', hv], hs', hcc, hcan⟩

theorem Evolves.mono {cid : Nat} {can can' : Prop} (hi : can → can') {a b : Option Slot}
    (h : Evolves cid can a b) : Evolves cid can' a b := by
  rcases h with h | ⟨s, s', ha, hb, hv, hs, hc, hcan⟩
  · exact Or.inl h
  · exact Or.inr ⟨s, s', ha, hb, hv, hs, hc, hi hcan⟩

theorem revoke_evolves (x : UObj) (u : Usage) (kid cid k : Nat) :
    Evolves cid (k = kid) (lookup x.all k) (lookup (x.revoke u kid cid).1.all k) := by
  unfold UObj.revoke
  cases h : lookup x.all kid with
  | none => exact Or.inl rfl
  | some s =>
    by_cases hc : (revokeSkipsRevoked u && decide (s.status = .revoked)) = true
    · simp only [hc, if_true]; exact Or.inl rfl
    · simp only [hc]
      simp only [Bool.false_eq_true, if_false, lookup_mapInsert]
      by_cases hk : k = kid
      · subst hk
        simp only [if_true]
        exact Or.inr ⟨s, { s with status := .revoked, statusCid := cid }, h, rfl, rfl, rfl, rfl, trivial⟩
      · simp only [hk, if_false]; exact Or.inl rfl

theorem revoke_nodup (x : UObj) (u : Usage) (kid cid : Nat)
    (h : KeysNodup x.all ∧ KeysNodup x.active) :
    KeysNodup (x.revoke u kid cid).1.all ∧ KeysNodup (x.revoke u kid cid).1.active := by
  unfold UObj.revoke
  cases hl : lookup x.all kid with
  | none => exact h
  | some s =>
    by_cases hc : (revokeSkipsRevoked u && decide (s.status = .revoked)) = true
    · simp only [hc, if_true]; exact h
    · simp only [hc]
      exact ⟨keysNodup_mapInsert _ _ _ h.1, keysNodup_mapRemove _ _ h.2⟩

theorem newActive_nodup (x : UObj) (u : Usage) (vf cid kid : Nat)
    (h : KeysNodup x.all ∧ KeysNodup x.active) :
    KeysNodup (x.newActive u vf cid kid).all ∧ KeysNodup (x.newActive u vf cid kid).active :=
  ⟨keysNodup_mapInsert _ _ _ h.1, keysNodup_mapInsert _ _ _ h.2⟩

theorem newActive_all (x : UObj) (u : Usage) (vf cid kid k : Nat) (hk : k ≠ kid) :
    lookup (x.newActive u vf cid kid).all k = lookup x.all k := by
  unfold UObj.newActive
  simp [lookup_mapInsert, hk]

/-- No key generated in this modify has id `k`. -/
def NotFresh (fresh : Fresh) (k : Nat) : Prop := ∀ u vf, fresh u vf ≠ k

theorem rotate_eq (o : KeyObj) (t cid : Nat) (fresh : Fresh) :
    o.rotate t cid fresh =
      rotateOrder.foldl (setMap (fun u x => x.newActive u t cid (fresh u t))) o := rfl

theorem rotateOrder_nodup : rotateOrder.Nodup := by decide
theorem revokeOrder_nodup : revokeOrder.Nodup := by decide

theorem rotate_allOf (o : KeyObj) (t cid : Nat) (fresh : Fresh) (k : Nat) (hk : NotFresh fresh k)
    (v : Usage) : allOf (o.rotate t cid fresh) v k = allOf o v k := by
  rw [rotate_eq]
  exact (allOf_foldSet_rel (fun a b => b = a) (fun _ => rfl) _ k
    (fun u x => newActive_all x u t cid (fresh u t) k (fun h => hk u t h.symm))
    rotateOrder rotateOrder_nodup o v)

theorem rotate_wf (o : KeyObj) (t cid : Nat) (fresh : Fresh) (h : WF o) :
    WF (o.rotate t cid fresh) := by
  rw [rotate_eq]
  exact wf_foldSet _ (fun u x hx => newActive_nodup x u t cid _ hx) _ rotateOrder_nodup o h

theorem revokeOne_fst_aux (kid cid : Nat) (l : List Usage) (o : KeyObj) (b : Bool) :
    (l.foldl (fun (acc : KeyObj × Bool) u =>
      match acc.1 u with
      | some x => ((acc.1.set u (x.revoke u kid cid).1), (acc.2 || (x.revoke u kid cid).2))
      | none => acc) (o, b)).1 =
    l.foldl (setMap (fun u x => (x.revoke u kid cid).1)) o := by
  induction l generalizing o b with
  | nil => rfl
  | cons u tl ih =>
    simp only [List.foldl_cons]
    cases hu : o u with
    | none =>
      have : setMap (fun u x => (x.revoke u kid cid).1) o u = o := by simp [setMap, hu]
      rw [this]; exact ih o b
    | some x =>
      have : setMap (fun u x => (x.revoke u kid cid).1) o u = o.set u (x.revoke u kid cid).1 := by
        simp [setMap, hu]
      rw [this]; exact ih _ _

theorem revokeOne_fst (o : KeyObj) (kid cid : Nat) :
    (o.revokeOne kid cid).1 = revokeOrder.foldl (setMap (fun u x => (x.revoke u kid cid).1)) o :=
  revokeOne_fst_aux kid cid revokeOrder o false

theorem revokeOne_evolves (o : KeyObj) (kid cid k : Nat) (v : Usage) :
    Evolves cid (k = kid) (allOf o v k) (allOf (o.revokeOne kid cid).1 v k) := by
  rw [revokeOne_fst]
  exact allOf_foldSet_rel (Evolves cid (k = kid)) (Evolves.refl _ _) _ k
    (fun u x => revoke_evolves x u kid cid k) revokeOrder revokeOrder_nodup o v

theorem revokeOne_wf (o : KeyObj) (kid cid : Nat) (h : WF o) : WF (o.revokeOne kid cid).1 := by
  rw [revokeOne_fst]
  exact wf_foldSet _ (fun u x hx => revoke_nodup x u kid cid hx) _ revokeOrder_nodup o h

theorem revokeKeys_evolves (ks : List Nat) (o ko : KeyObj) (cid k : Nat)
    (h : o.revokeKeys ks cid = some ko) (v : Usage) :
    Evolves cid (k ∈ ks) (allOf o v k) (allOf ko v k) ∧ (WF o → WF ko) := by
  induction ks generalizing o with
  | nil =>
    simp only [KeyObj.revokeKeys, Option.some.injEq] at h
    subst h; exact ⟨Evolves.refl _ _ _, id⟩
  | cons kd tl ih =>
    simp only [KeyObj.revokeKeys] at h
    by_cases hr : (o.revokeOne kd cid).2 = true
    · simp only [hr, if_true] at h
      obtain ⟨h1, h2⟩ := ih _ h
      refine ⟨?_, fun hw => h2 (revokeOne_wf o kd cid hw)⟩
      exact ((revokeOne_evolves o kd cid k v).mono (fun hh => by simp [hh])).trans
        (h1.mono (fun hh => by simp [hh]))
    · simp [hr] at h

theorem assertUsage_allOf (o : KeyObj) (u : Usage) (cid : Nat) (fresh : Fresh) (k : Nat)
    (hk : NotFresh fresh k) (v : Usage) :
    allOf (o.assertUsage u cid fresh) v k = allOf o v k := by
  unfold KeyObj.assertUsage
  rw [allOf_set]
  by_cases hv : v = u
  · subst hv
    simp only [if_true]
    unfold UObj.assertActive
    by_cases hn : (pickSigner ((o v).getD UObj.empty).active assertTime).isNone = true
    · simp only [hn, if_true]
      rw [newActive_all _ _ _ _ _ _ (fun h => hk v assertTime h.symm), lookup_getD_all]
    · simp only [hn]; exact lookup_getD_all o v k
  · simp [hv]

theorem assertUsage_wf (o : KeyObj) (u : Usage) (cid : Nat) (fresh : Fresh) (h : WF o) :
    WF (o.assertUsage u cid fresh) := by
  unfold KeyObj.assertUsage
  apply wf_set h
  have hx := getD_empty_nodup h u
  unfold UObj.assertActive
  by_cases hn : (pickSigner ((o u).getD UObj.empty).active assertTime).isNone = true
  · simp only [hn, if_true]; exact newActive_nodup _ _ _ _ _ hx
  · simp only [hn]; exact hx

/-- The key may be revoked by this action. -/
def CanRevoke (a : Action) (k : Nat) : Prop := ∃ ks, a.revoke = some ks ∧ k ∈ ks

theorem pluginStep_evolves (classes : List Usage) (a : Action) (now cid : Nat) (fresh : Fresh)
    (k : Nat) (hk : NotFresh fresh k) (ko ko' : KeyObj) (st : PluginStep)
    (h : pluginStep classes a now cid fresh (some ko) st = some ko') (v : Usage) :
    Evolves cid (CanRevoke a k) (allOf ko v k) (allOf ko' v k) ∧ (WF ko → WF ko') := by
  unfold pluginStep at h
  cases st with
  | importEs256 => simp only [Option.some.injEq] at h; subst h; exact ⟨Evolves.refl _ _ _, id⟩
  | importRs256 => simp only [Option.some.injEq] at h; subst h; exact ⟨Evolves.refl _ _ _, id⟩
  | revoke =>
    simp only at h
    cases hr : a.revoke with
    | none => rw [hr] at h; simp only [Option.some.injEq] at h; subst h; exact ⟨Evolves.refl _ _ _, id⟩
    | some ks =>
      rw [hr] at h
      obtain ⟨h1, h2⟩ := revokeKeys_evolves ks ko ko' cid k h v
      exact ⟨h1.mono (fun hh => ⟨ks, hr, hh⟩), h2⟩
  | rotate =>
    simp only at h
    cases hr : a.rotate with
    | none => rw [hr] at h; simp only [Option.some.injEq] at h; subst h; exact ⟨Evolves.refl _ _ _, id⟩
    | some secs =>
      rw [hr] at h
      simp only [Option.some.injEq] at h
      subst h
      exact ⟨Or.inl (rotate_allOf ko _ cid fresh k hk v).symm, rotate_wf ko _ cid fresh⟩
  | assert u =>
    simp only at h
    by_cases hc : classes.contains u = true
    · simp only [hc, if_true, Option.some.injEq] at h
      subst h
      exact ⟨Or.inl (assertUsage_allOf ko u cid fresh k hk v).symm, assertUsage_wf ko u cid fresh⟩
    · simp only [hc] at h
      simp only [Bool.false_eq_true, if_false, Option.some.injEq] at h
      subst h; exact ⟨Evolves.refl _ _ _, id⟩

theorem pluginFold_none (classes : List Usage) (a : Action) (now cid : Nat) (fresh : Fresh)
    (steps : List PluginStep) :
    steps.foldl (pluginStep classes a now cid fresh) none = none := by
  induction steps with
  | nil => rfl
  | cons st tl ih => simpa [pluginStep] using ih

theorem pluginFold_evolves (classes : List Usage) (a : Action) (now cid : Nat) (fresh : Fresh)
    (k : Nat) (hk : NotFresh fresh k) (steps : List PluginStep) (ko ko' : KeyObj)
    (h : steps.foldl (pluginStep classes a now cid fresh) (some ko) = some ko') (v : Usage) :
    Evolves cid (CanRevoke a k) (allOf ko v k) (allOf ko' v k) ∧ (WF ko → WF ko') := by
  induction steps generalizing ko with
  | nil => simp only [List.foldl_nil, Option.some.injEq] at h; subst h; exact ⟨Evolves.refl _ _ _, id⟩
  | cons st tl ih =>
    simp only [List.foldl_cons] at h
    cases hs : pluginStep classes a now cid fresh (some ko) st with
    | none => rw [hs, pluginFold_none] at h; cases h
    | some k1 =>
      rw [hs] at h
      obtain ⟨e1, w1⟩ := pluginStep_evolves classes a now cid fresh k hk ko k1 st hs v
      obtain ⟨e2, w2⟩ := ih k1 h
      exact ⟨e1.trans e2, fun hw => w2 (w1 hw)⟩


/-! ### `as_valuesets` -/

theorem lookup_insAll (u : Usage) (all : List (Nat × Slot)) (hnd : KeysNodup all) (m0 : KMap)
    (k : Nat) :
    lookup (all.foldl (fun m e => mapInsert m e.1 ⟨u, e.2.validFrom, e.2.status, e.2.statusCid⟩) m0) k =
      match lookup all k with
      | some s => some (recOf u s)
      | none => lookup m0 k := by
  induction all generalizing m0 with
  | nil => simp [lookup]
  | cons e tl ih =>
    obtain ⟨k', s'⟩ := e
    have hn : k' ∉ tl.map (·.1) ∧ KeysNodup tl := by simpa [KeysNodup] using hnd
    simp only [List.foldl_cons]
    rw [ih hn.2, lookup_mapInsert]
    by_cases hk : k = k'
    · subst hk
      simp [lookup, lookup_eq_none_of_not_mem tl k hn.1, recOf]
    · simp [lookup, hk]

theorem keysNodup_insAll (u : Usage) (all : List (Nat × Slot)) (m0 : KMap) (h : KeysNodup m0) :
    KeysNodup (all.foldl (fun m e => mapInsert m e.1 ⟨u, e.2.validFrom, e.2.status, e.2.statusCid⟩) m0) := by
  induction all generalizing m0 with
  | nil => exact h
  | cons e tl ih => exact ih _ (keysNodup_mapInsert _ _ _ h)

/-- One step of the chain of `as_valuesets`. -/
def chainStep (o : KeyObj) (m : KMap) (u : Usage) : KMap :=
  match o u with
  | some x => x.all.foldl (fun m e => mapInsert m e.1 ⟨u, e.2.validFrom, e.2.status, e.2.statusCid⟩) m
  | none => m

theorem toMap_eq (o : KeyObj) : o.toMap = valuesetOrder.foldl (chainStep o) [] := rfl

/-- The record `as_valuesets` yields for key `k`: the last usage of the chain that has it. -/
def pickUsage (o : KeyObj) (k : Nat) : List Usage → Option KRec → Option KRec
  | [], acc => acc
  | u :: tl, acc =>
    pickUsage o k tl (match allOf o u k with
                      | some s => some (recOf u s)
                      | none => acc)

theorem lookup_chain (o : KeyObj) (hwf : WF o) (l : List Usage) (m0 : KMap) (k : Nat) :
    lookup (l.foldl (chainStep o) m0) k = pickUsage o k l (lookup m0 k) := by
  induction l generalizing m0 with
  | nil => rfl
  | cons u tl ih =>
    simp only [List.foldl_cons, pickUsage]
    rw [ih]
    congr 1
    unfold chainStep allOf
    cases hu : o u with
    | none => rfl
    | some x => simpa using lookup_insAll u x.all (hwf u x hu).1 m0 k

theorem keysNodup_chain (o : KeyObj) (l : List Usage) (m0 : KMap) (h : KeysNodup m0) :
    KeysNodup (l.foldl (chainStep o) m0) := by
  induction l generalizing m0 with
  | nil => exact h
  | cons u tl ih =>
    apply ih
    unfold chainStep
    cases o u with
    | none => exact h
    | some x => exact keysNodup_insAll u x.all m0 h

theorem keysNodup_toMap (o : KeyObj) : KeysNodup o.toMap := by
  rw [toMap_eq]; exact keysNodup_chain o _ [] (by simp [KeysNodup])

theorem lookup_toMap (o : KeyObj) (hwf : WF o) (k : Nat) :
    lookup o.toMap k = pickUsage o k valuesetOrder none := by
  rw [toMap_eq, lookup_chain o hwf]; rfl

/-- Unchanged, or revoked at `cid` (only when `can`), same usage and `valid_from`. -/
def EvolvesR (cid : Nat) (can : Prop) (a b : Option KRec) : Prop :=
  a = b ∨ ∃ r r', a = some r ∧ b = some r' ∧ r'.usage = r.usage ∧ r'.validFrom = r.validFrom ∧
    r'.status = .revoked ∧ r'.statusCid = cid ∧ can

theorem pickUsage_evolves {cid : Nat} {can : Prop} {o o' : KeyObj} {k : Nat}
    (h : ∀ u, Evolves cid can (allOf o u k) (allOf o' u k)) (l : List Usage)
    (acc acc' : Option KRec) (hacc : EvolvesR cid can acc acc') :
    EvolvesR cid can (pickUsage o k l acc) (pickUsage o' k l acc') := by
  induction l generalizing acc acc' with
  | nil => exact hacc
  | cons u tl ih =>
    simp only [pickUsage]
    apply ih
    rcases h u with he | ⟨s, s', ha, hb, hv, hs, hc, hcan⟩
    · rw [← he]
      cases allOf o u k with
      | none => exact hacc
      | some s => exact Or.inl rfl
    · rw [ha, hb]
      exact Or.inr ⟨recOf u s, recOf u s', rfl, rfl, rfl, hv, hs, hc, hcan⟩

theorem pickUsage_none (o : KeyObj) (k : Nat) (h : ∀ u, allOf o u k = none) (l : List Usage)
    (acc : Option KRec) : pickUsage o k l acc = acc := by
  induction l generalizing acc with
  | nil => rfl
  | cons u tl ih => simp only [pickUsage, h u]; exact ih acc

theorem pickUsage_single (o : KeyObj) (k : Nat) (u0 : Usage) (s : Slot)
    (h : ∀ u, allOf o u k = if u = u0 then some s else none) (l : List Usage)
    (acc : Option KRec) :
    pickUsage o k l acc = if u0 ∈ l then some (recOf u0 s) else acc := by
  induction l generalizing acc with
  | nil => simp [pickUsage]
  | cons u tl ih =>
    simp only [pickUsage, h u]
    by_cases hu : u = u0
    · subst hu
      simp only [if_true]
      rw [ih]
      by_cases hm : u ∈ tl <;> simp [hm]
    · simp only [hu, if_false]
      rw [ih]
      have : (u0 ∈ u :: tl) ↔ u0 ∈ tl := by
        constructor
        · intro hh
          rcases List.mem_cons.1 hh with hh | hh
          · exact absurd hh.symm hu
          · exact hh
        · exact List.mem_cons_of_mem _
      by_cases hm : u0 ∈ tl <;> simp [hm, this]

theorem mem_valuesetOrder (u : Usage) : u ∈ valuesetOrder := by
  cases u <;> simp [valuesetOrder]

/-- `as_valuesets ∘ load_key_object` is the identity on the stored map. -/
theorem lookup_toMap_loadObj (m : KMap) (hm : KeysNodup m) (k : Nat) :
    lookup (loadObj m).toMap k = lookup m k := by
  rw [lookup_toMap _ (wf_loadObj m)]
  cases hl : lookup m k with
  | none =>
    apply pickUsage_none
    intro u
    rw [allOf_loadObj m hm, hl]
  | some r =>
    rw [pickUsage_single (loadObj m) k r.usage (slotOf r)]
    · simp only [mem_valuesetOrder, if_true]
      cases r; rfl
    · intro u
      rw [allOf_loadObj m hm, hl]

/-- The staged object of the plugin, seen through `as_valuesets`, per key that is not freshly
generated: what the loaded object stored, unchanged or revoked now. -/
theorem plugin_evolves (m : KMap) (hm : KeysNodup m) (classes : List Usage) (a : Action)
    (now cid : Nat) (fresh : Fresh) (ko : KeyObj)
    (h : pluginObj (loadObj m) classes a now cid fresh = some ko) (k : Nat)
    (hk : NotFresh fresh k) :
    EvolvesR cid (CanRevoke a k) (lookup m k) (lookup ko.toMap k) := by
  unfold pluginObj at h
  have hw : WF ko := (pluginFold_evolves classes a now cid fresh k hk _ _ _ h .jwsEs256).2 (wf_loadObj m)
  rw [← lookup_toMap_loadObj m hm k, lookup_toMap _ (wf_loadObj m), lookup_toMap _ hw]
  exact pickUsage_evolves
    (fun u => (pluginFold_evolves classes a now cid fresh k hk _ _ _ h u).1) _ _ _ (Or.inl rfl)

/-! ### Status order facts (from the generated rank) -/

theorem rank_le_two (s : KeyStatus) : s.rank ≤ 2 := by cases s <;> simp [KeyStatus.rank]

theorem rank_two_iff (s : KeyStatus) : s.rank = 2 ↔ s = .revoked := by
  cases s <;> simp [KeyStatus.rank]

/-- Both merges keep one of their inputs and never lower a status to below `Revoked`. -/
theorem pickOpt_revoked_left {repl : KRec → KRec → Bool}
    (hrepl : ∀ o n, repl o n = true → o.status.rank > n.status.rank)
    {x y : Option KRec} {r : KRec} (hx : x = some r) (hr : r.status = .revoked) :
    ∃ r', pickOpt repl x y = some r' ∧ r'.status = .revoked ∧ (x = some r' ∨ y = some r') := by
  subst hx
  cases y with
  | none => exact ⟨r, rfl, hr, Or.inl rfl⟩
  | some o =>
    simp only [pickOpt, pick]
    by_cases hc : repl o r = true
    · have := hrepl o r hc
      have h2 := rank_le_two o.status
      have hr2 : r.status.rank = 2 := by rw [hr]; rfl
      omega
    · simp only [hc]
      exact ⟨r, rfl, hr, Or.inl rfl⟩

theorem pickOpt_revoked_right {repl : KRec → KRec → Bool}
    (hrepl : ∀ o n, repl o n = decide (o.status.rank > n.status.rank))
    {x y : Option KRec} {r : KRec} (hy : y = some r) (hr : r.status = .revoked) :
    ∃ r', pickOpt repl x y = some r' ∧ r'.status = .revoked ∧ (x = some r' ∨ y = some r') := by
  subst hy
  cases x with
  | none => exact ⟨r, rfl, hr, Or.inr rfl⟩
  | some n =>
    simp only [pickOpt, pick]
    by_cases hc : repl r n = true
    · simp only [hc, if_true]; exact ⟨r, rfl, hr, Or.inr rfl⟩
    · simp only [hc]
      refine ⟨n, rfl, ?_, Or.inl rfl⟩
      rw [hrepl] at hc
      simp only [decide_eq_true_eq] at hc
      have hr2 : r.status.rank = 2 := by rw [hr]; rfl
      have := rank_le_two n.status
      exact (rank_two_iff _).1 (by omega)

theorem pickOpt_mem' (repl : KRec → KRec → Bool) (x y : Option KRec) (r : KRec)
    (h : pickOpt repl x y = some r) : x = some r ∨ y = some r := by
  cases x with
  | none => cases y with
    | none => simp [pickOpt] at h
    | some o => simp only [pickOpt, Option.some.injEq] at h; subst h; exact Or.inr rfl
  | some n => cases y with
    | none => simp only [pickOpt, Option.some.injEq] at h; subst h; exact Or.inl rfl
    | some o =>
      simp only [pickOpt, pick, Option.some.injEq] at h
      by_cases hc : repl o n = true
      · simp only [hc, if_true] at h; subst h; exact Or.inr rfl
      · simp only [hc] at h; subst h; exact Or.inl rfl

theorem entryRepl_spec (o n : KRec) : entryRepl o n = decide (o.status.rank > n.status.rank) := rfl
theorem replRepl_spec (o n : KRec) : replRepl o n = decide (o.status.rank > n.status.rank) := rfl


/-! ### The entry before the plugin (`invalidate` trim, or the retain device) -/

/-- The stored map the plugin merges into. -/
def preMap (_a : Action) (trim : Nat) (m : KMap) : KMap := trimMap trim m

theorem keys_retainMap (m : KMap) (j : Nat) : (retainMap m j).map (·.1) = m.map (·.1) := by
  unfold retainMap
  induction m with
  | nil => rfl
  | cons e tl ih =>
    simp only [List.map_cons, ih]
    by_cases hc : e.1 = j ∧ e.2.status = .valid <;> simp [hc]

theorem lookup_retainMap (m : KMap) (j k : Nat) :
    lookup (retainMap m j) k =
      (lookup m k).map (fun r => if k = j ∧ r.status = .valid then { r with status := .retained } else r) := by
  unfold retainMap
  induction m with
  | nil => simp [lookup]
  | cons e tl ih =>
    obtain ⟨k', r'⟩ := e
    simp only [List.map_cons]
    by_cases hk : k = k'
    · subst hk
      by_cases hc : k = j ∧ r'.status = .valid
      · rw [if_pos hc]; simp [lookup, hc]
      · rw [if_neg hc]; simp [lookup, hc]
    · by_cases hc : k' = j ∧ r'.status = .valid
      · rw [if_pos hc]; simp only [lookup, hk, if_false]; exact ih
      · rw [if_neg hc]; simp only [lookup, hk, if_false]; exact ih

theorem keysNodup_preMap (a : Action) (trim : Nat) (m : KMap) (h : KeysNodup m) :
    KeysNodup (preMap a trim m) := keysNodup_filter _ m h

/-- Per key: dropped (only a `Revoked` record can be) or kept. -/
theorem preMap_cases (a : Action) (trim : Nat) (m : KMap) (h : KeysNodup m) (k : Nat) :
    (lookup (preMap a trim m) k = none ∧
        (lookup m k = none ∨ ∃ r, lookup m k = some r ∧ r.status = .revoked)) ∨
    (∃ r, lookup m k = some r ∧ lookup (preMap a trim m) k = some r) := by
  unfold preMap
  simp only [trimMap]
  rw [lookup_filter (keepRec trim) m h]
  cases hl : lookup m k with
  | none => exact Or.inl ⟨rfl, Or.inl rfl⟩
  | some r =>
    by_cases hk : keepRec trim r = true
    · exact Or.inr ⟨r, rfl, by simp [Option.filter, hk]⟩
    · refine Or.inl ⟨by simp [Option.filter, hk], Or.inr ⟨r, rfl, ?_⟩⟩
      unfold keepRec at hk
      cases hs : r.status <;> simp [hs] at hk ⊢

/-- One modify, per key that is not freshly generated. -/
theorem modifyEntry_lookup (m0 mi m' : KMap) (h0 : KeysNodup m0) (hi : KeysNodup mi)
    (classes : List Usage) (a : Action) (now cid trim : Nat) (fresh : Fresh)
    (h : modifyEntry (loadObj m0) classes mi a now cid trim fresh = some m') :
    KeysNodup m' ∧ ∀ k, NotFresh fresh k →
      ∃ y, EvolvesR cid (CanRevoke a k) (lookup m0 k) y ∧
        lookup m' k = pickOpt entryRepl (lookup (preMap a trim mi) k) y := by
  unfold modifyEntry at h
  cases hp : pluginObj (loadObj m0) classes a now cid fresh with
  | none => rw [hp] at h; cases h
  | some ko =>
    rw [hp] at h
    simp only [Option.some.injEq] at h
    subst h
    have hpre : KeysNodup (preMap a trim mi) := keysNodup_preMap a trim mi hi
    refine ⟨keysNodup_coreMerge _ _ _ hpre, ?_⟩
    intro k hk
    refine ⟨lookup ko.toMap k, plugin_evolves m0 h0 classes a now cid fresh ko hp k hk, ?_⟩
    exact lookup_coreMerge entryRepl _ _ (keysNodup_toMap ko) k

/-- Invariants of the modifies of one transaction. -/
theorem txnMap_inv (P : KMap → Prop) (m0 : KMap) (h0 : KeysNodup m0) (classes : List Usage)
    (now cid trim : Nat) (acts : List (Action × Fresh)) (Q : Action × Fresh → Prop)
    (hstep : ∀ mi m' a f, Q (a, f) → KeysNodup mi → P mi →
      modifyEntry (loadObj m0) classes mi a now cid trim f = some m' → P m')
    (hq : ∀ af ∈ acts, Q af) (mi m' : KMap) (hi : KeysNodup mi) (hp : P mi)
    (h : txnMap (loadObj m0) classes now cid trim mi acts = some m') : KeysNodup m' ∧ P m' := by
  induction acts generalizing mi with
  | nil => simp only [txnMap, Option.some.injEq] at h; subst h; exact ⟨hi, hp⟩
  | cons af tl ih =>
    obtain ⟨a, f⟩ := af
    simp only [txnMap] at h
    cases hm : modifyEntry (loadObj m0) classes mi a now cid trim f with
    | none => rw [hm] at h; cases h
    | some m1 =>
      rw [hm] at h
      have hq1 := hq (a, f) (by simp)
      exact ih (fun af haf => hq af (List.mem_cons_of_mem _ haf)) m1
        (modifyEntry_lookup m0 mi m1 h0 hi classes a now cid trim f hm).1
        (hstep mi m1 a f hq1 hi hp hm) h

/-! ### The predicates of the property -/

def Revoked (m : KMap) (k : Nat) : Prop := ∃ r, lookup m k = some r ∧ r.status = .revoked

/-- Absent or revoked: a token made with this key is refused. -/
def Dead (m : KMap) (k : Nat) : Prop := lookup m k = none ∨ Revoked m k

/-- Present with usage `u` and not revoked. -/
def Usable (m : KMap) (u : Usage) (k : Nat) : Prop :=
  ∃ r, lookup m k = some r ∧ r.usage = u ∧ r.status ≠ .revoked

theorem verify_eq_allOf (o : KeyObj) (u : Usage) (k : Nat) :
    o.verify u k = match allOf o u k with
                   | some s => verifyArm u s.status
                   | none => false := by
  unfold KeyObj.verify allOf UObj.verify
  cases o u with
  | none => rfl
  | some x => simp only [Option.bind_some]; cases lookup x.all k <;> rfl

theorem sign_eq_activeOf (o : KeyObj) (u : Usage) (t : Nat) :
    o.sign u t = (pickSigner (activeOf o u) t).map (·.2) := by
  unfold KeyObj.sign activeOf UObj.sign
  cases o u with
  | none => rfl
  | some x => rfl

theorem activeOf_nodup {o : KeyObj} (h : WF o) (u : Usage) : KeysNodup (activeOf o u) := by
  unfold activeOf
  cases hu : o u with
  | none => simp [KeysNodup]
  | some x => simpa using (h u x hu).2


/-! ### Admissible operations (the hypotheses of the history theorems) -/

/-- Key generation never yields the id `k` again (kid = truncated hash of a new random key). -/
def OpFresh (k : Nat) : Op → Prop
  | .txn acts _ _ _ => ∀ af ∈ acts, NotFresh af.2 k
  | .restart => True
  | .replIn sup _ => KeysNodup sup.map

/-- …and every replication partner has `k` absent or revoked. -/
def OpDead (k : Nat) : Op → Prop
  | .txn acts _ _ _ => ∀ af ∈ acts, NotFresh af.2 k
  | .restart => True
  | .replIn sup _ => KeysNodup sup.map ∧ Dead sup.map k

/-- …and nobody revokes `k`: no modify names it, no partner has it revoked; a partner that
knows `k` knows it with usage `u` (same key id ⇒ same key). -/
def OpKeeps (u : Usage) (k : Nat) : Op → Prop
  | .txn acts _ _ _ => ∀ af ∈ acts, NotFresh af.2 k ∧ ¬ CanRevoke af.1 k
  | .restart => True
  | .replIn sup _ => KeysNodup sup.map ∧ ¬ Revoked sup.map k ∧
      ∀ r, lookup sup.map k = some r → r.usage = u

theorem replMergeMap_lookup (n o : KMap) (hn : KeysNodup n) (ho : KeysNodup o) (t k : Nat) :
    KeysNodup (replMergeMap n o t) ∧
    lookup (replMergeMap n o t) k = (pickOpt replRepl (lookup n k) (lookup o k)).filter (keepRec t) :=
  ⟨keysNodup_filtMerge replRepl (keepRec t) n o hn, lookup_filtMerge replRepl (keepRec t) n o hn ho k⟩

theorem keepRec_of_not_revoked (t : Nat) (r : KRec) (h : r.status ≠ .revoked) : keepRec t r = true := by
  unfold keepRec
  cases hs : r.status <;> simp_all


/-! ### A requested revocation takes effect -/

theorem Evolves.keeps_some {cid : Nat} {can : Prop} {a b : Option Slot} (h : Evolves cid can a b)
    {s : Slot} (ha : a = some s) : ∃ s', b = some s' := by
  rcases h with h | ⟨_, s', _, hb, _⟩
  · exact ⟨s, by rw [← h, ha]⟩
  · exact ⟨s', hb⟩

theorem Evolves.keeps_none {cid : Nat} {can : Prop} {a b : Option Slot} (h : Evolves cid can a b)
    (ha : a = none) : b = none := by
  rcases h with h | ⟨s, _, h1, _⟩
  · rw [← h, ha]
  · rw [ha] at h1; cases h1

theorem Evolves.keeps_revoked {cid : Nat} {can : Prop} {a b : Option Slot} (h : Evolves cid can a b)
    (ha : ∃ s, a = some s ∧ s.status = .revoked) : ∃ s', b = some s' ∧ s'.status = .revoked := by
  obtain ⟨s, hs, hr⟩ := ha
  rcases h with h | ⟨_, s', _, hb, _, hrev, _⟩
  · exact ⟨s, by rw [← h, hs], hr⟩
  · exact ⟨s', hb, hrev⟩

theorem revoke_sets (x : UObj) (u : Usage) (kid cid : Nat) (s : Slot)
    (h : lookup x.all kid = some s) :
    ∃ s', lookup (x.revoke u kid cid).1.all kid = some s' ∧ s'.status = .revoked := by
  unfold UObj.revoke
  rw [h]
  by_cases hc : (revokeSkipsRevoked u && decide (s.status = .revoked)) = true
  · simp only [hc, if_true]
    refine ⟨s, h, ?_⟩
    simp only [Bool.and_eq_true, decide_eq_true_eq] at hc
    exact hc.2
  · simp only [hc]
    simp only [Bool.false_eq_true, if_false, lookup_mapInsert, if_true]
    exact ⟨_, rfl, rfl⟩

theorem mem_revokeOrder (u : Usage) : u ∈ revokeOrder := by cases u <;> simp [revokeOrder]

theorem revokeOne_sets (o : KeyObj) (kid cid : Nat) (v : Usage) (s : Slot)
    (h : allOf o v kid = some s) :
    ∃ s', allOf (o.revokeOne kid cid).1 v kid = some s' ∧ s'.status = .revoked := by
  rw [revokeOne_fst]
  unfold allOf at h ⊢
  rw [foldSet_get _ _ revokeOrder_nodup]
  simp only [mem_revokeOrder, if_true]
  cases hov : o v with
  | none => rw [hov] at h; cases h
  | some x =>
    rw [hov] at h
    simp only [Option.bind_some] at h
    simp only [Option.map_some, Option.bind_some]
    exact revoke_sets x v kid cid s h

theorem revokeKeys_sets (ks : List Nat) (o ko : KeyObj) (cid k : Nat) (v : Usage) (s : Slot)
    (h : o.revokeKeys ks cid = some ko) (hk : k ∈ ks) (hs : allOf o v k = some s) :
    ∃ s', allOf ko v k = some s' ∧ s'.status = .revoked := by
  induction ks generalizing o s with
  | nil => cases hk
  | cons kd tl ih =>
    simp only [KeyObj.revokeKeys] at h
    by_cases hr : (o.revokeOne kd cid).2 = true
    · simp only [hr, if_true] at h
      by_cases hkd : k = kd
      · subst hkd
        have h1 := revokeOne_sets o k cid v s hs
        exact ((revokeKeys_evolves tl _ ko cid k h v).1).keeps_revoked h1
      · have hmem : k ∈ tl := by
          rcases List.mem_cons.1 hk with hh | hh
          · exact absurd hh hkd
          · exact hh
        obtain ⟨s1, hs1⟩ := (revokeOne_evolves o kd cid k v).keeps_some hs
        exact ih _ s1 h hmem hs1
    · simp [hr] at h

theorem pluginFold_revokes (classes : List Usage) (a : Action) (now cid : Nat) (fresh : Fresh)
    (k : Nat) (hk : NotFresh fresh k) (ks : List Nat) (ha : a.revoke = some ks) (hmem : k ∈ ks)
    (steps : List PluginStep) (hst : PluginStep.revoke ∈ steps) (ko ko' : KeyObj)
    (h : steps.foldl (pluginStep classes a now cid fresh) (some ko) = some ko') (v : Usage)
    (s : Slot) (hs : allOf ko v k = some s) :
    ∃ s', allOf ko' v k = some s' ∧ s'.status = .revoked := by
  induction steps generalizing ko s with
  | nil => cases hst
  | cons st tl ih =>
    simp only [List.foldl_cons] at h
    cases hstep : pluginStep classes a now cid fresh (some ko) st with
    | none => rw [hstep, pluginFold_none] at h; cases h
    | some k1 =>
      rw [hstep] at h
      by_cases hrev : st = .revoke
      · subst hrev
        have hk1 : ko.revokeKeys ks cid = some k1 := by
          simpa [pluginStep, ha] using hstep
        have h1 := revokeKeys_sets ks ko k1 cid k v s hk1 hmem hs
        exact ((pluginFold_evolves classes a now cid fresh k hk tl k1 ko' h v).1).keeps_revoked h1
      · have hin : PluginStep.revoke ∈ tl := by
          rcases List.mem_cons.1 hst with hh | hh
          · exact absurd hh.symm hrev
          · exact hh
        obtain ⟨s1, hs1⟩ :=
          ((pluginStep_evolves classes a now cid fresh k hk ko k1 st hstep v).1).keeps_some hs
        exact ih hin k1 h s1 hs1

theorem revoke_in_pluginOrder : PluginStep.revoke ∈ pluginOrder := by decide

/-- The staged object lists a key named by `KeyActionRevoke` as `Revoked`. -/
theorem plugin_revokes (m : KMap) (hm : KeysNodup m) (classes : List Usage) (a : Action)
    (now cid : Nat) (fresh : Fresh) (ko : KeyObj)
    (h : pluginObj (loadObj m) classes a now cid fresh = some ko) (k : Nat)
    (hk : NotFresh fresh k) (ks : List Nat) (ha : a.revoke = some ks) (hmem : k ∈ ks)
    (r : KRec) (hr : lookup m k = some r) :
    ∃ r', lookup ko.toMap k = some r' ∧ r'.status = .revoked := by
  unfold pluginObj at h
  have hw : WF ko := (pluginFold_evolves classes a now cid fresh k hk _ _ _ h .jwsEs256).2 (wf_loadObj m)
  have hload : ∀ u, allOf (loadObj m) u k = if u = r.usage then some (slotOf r) else none := by
    intro u; rw [allOf_loadObj m hm, hr]
  obtain ⟨s', hs', hrev⟩ := pluginFold_revokes classes a now cid fresh k hk ks ha hmem pluginOrder
    revoke_in_pluginOrder _ ko h r.usage (slotOf r) (by rw [hload]; simp)
  have hko : ∀ u, allOf ko u k = if u = r.usage then some s' else none := by
    intro u
    by_cases hu : u = r.usage
    · subst hu; simp [hs']
    · simp only [hu, if_false]
      exact ((pluginFold_evolves classes a now cid fresh k hk _ _ _ h u).1).keeps_none
        (by rw [hload]; simp [hu])
  refine ⟨recOf r.usage s', ?_, hrev⟩
  rw [lookup_toMap _ hw, pickUsage_single ko k r.usage s' hko]
  simp [mem_valuesetOrder]

end Kanidm.KeyObject
