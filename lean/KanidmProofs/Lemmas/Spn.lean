import KanidmModel.Spn
/-!
Helper lemmas for C22 (SPNs are always name@domain).
-/
namespace Kanidm.Spn
open Kanidm.Gen

/-! ## the invariants -/

/-- What the property demands of one entry: a live account or group has exactly one spn
value; when it has a (single) name that value is (name, domain). -/
def EntryOk (dom : Str) (e : Entry) : Prop :=
  e.live = true → (e.grp = true ∨ e.acct = true) →
    match single? e.name with
    | some n => e.spn = some (.spn [(n, dom)])
    | none => ∃ p, e.spn = some (.spn [p])

/-- The state invariant: the transaction's in-memory domain name is the stored one and every
entry is fine with respect to it. -/
def Inv (s : State) : Prop :=
  s.domMem = s.domDb ∧ ∀ e ∈ s.entries, EntryOk s.domDb e

/-- Accounts and groups (live or recycled) carry exactly one name. -/
def Named (e : Entry) : Prop := (e.grp = true ∨ e.acct = true) → ∃ n, e.name = [n]

def AllNamed (s : State) : Prop := ∀ e ∈ s.entries, Named e

/-- Modlists of the property's histories: renames (`purge name; present name n`) and any
attempt to write `spn` directly. -/
def nameSafe : List Mod → Bool
  | [] => true
  | .purgeName :: .presentName _ :: rest => nameSafe rest
  | .purgeSpn :: rest => nameSafe rest
  | .presentSpn _ :: rest => nameSafe rest
  | .removedSpn _ :: rest => nameSafe rest
  | _ => false

/-- The operations the property quantifies over: creates of named entries, renames, direct
spn writes, domain renames, deletes and revives. -/
def Op.inScope : Op → Bool
  | .create cands => cands.all (fun c => decide (c.name.length = 1))
  | .modify _ mods => nameSafe mods
  | .domainRename _ => true
  | .delete _ => true
  | .revive _ => true

/-! ## mapOpt -/

theorem mapOpt_mem {α β : Type} {f : α → Option β} {l : List α} {l' : List β}
    (h : mapOpt f l = some l') {y : β} (hy : y ∈ l') : ∃ x ∈ l, f x = some y := by
  induction l generalizing l' with
  | nil => simp [mapOpt] at h; subst h; simp at hy
  | cons a l ih =>
    unfold mapOpt at h
    cases hfa : f a with
    | none => simp [hfa] at h
    | some b =>
      cases hrest : mapOpt f l with
      | none => simp [hfa, hrest] at h
      | some ys =>
        simp [hfa, hrest] at h
        subst h
        rcases List.mem_cons.mp hy with rfl | hy'
        · exact ⟨a, List.mem_cons_self, hfa⟩
        · obtain ⟨x, hx, hfx⟩ := ih hrest hy'
          exact ⟨x, List.mem_cons_of_mem _ hx, hfx⟩

theorem mapOpt_mem_fwd {α β : Type} {f : α → Option β} {l : List α} {l' : List β}
    (h : mapOpt f l = some l') {x : α} (hx : x ∈ l) {y : β} (hfx : f x = some y) : y ∈ l' := by
  induction l generalizing l' with
  | nil => simp at hx
  | cons a l ih =>
    unfold mapOpt at h
    cases hfa : f a with
    | none => simp [hfa] at h
    | some b =>
      cases hrest : mapOpt f l with
      | none => simp [hfa, hrest] at h
      | some ys =>
        simp [hfa, hrest] at h
        subst h
        rcases List.mem_cons.mp hx with rfl | hx'
        · rw [hfa] at hfx; cases hfx; exact List.mem_cons_self
        · exact List.mem_cons_of_mem _ (ih hrest hx')

/-- `mapOpt` succeeds when the function does on every element. -/
theorem mapOpt_isSome {α β : Type} {f : α → Option β} {l : List α}
    (h : ∀ x ∈ l, ∃ y, f x = some y) : ∃ l', mapOpt f l = some l' := by
  induction l with
  | nil => exact ⟨[], rfl⟩
  | cons a l ih =>
    obtain ⟨b, hb⟩ := h a List.mem_cons_self
    obtain ⟨ys, hys⟩ := ih (fun x hx => h x (List.mem_cons_of_mem _ hx))
    exact ⟨b :: ys, by simp [mapOpt, hb, hys]⟩

/-! ## generate_spn and the hook -/

theorem generateSpn_named {e : Entry} {n : Str} (dom : Str) (h : e.name = [n]) :
    generateSpn e dom = some (.spn [(n, dom)]) := by
  simp [generateSpn, h, single?, SpnOps.nameArmReadsName, SpnOps.nameArmFirst, SpnOps.namePair]

theorem generateSpn_nameless {e : Entry} (dom : Str) (h : single? e.name = none) :
    generateSpn e dom =
      match e.spn with
      | none => none
      | some (.spn vs) => some (.spn vs)
      | some (.iname n) => some (.spn [(n, dom)])
      | some .other => none := by
  simp only [generateSpn, h, SpnOps.nameArmReadsName, SpnOps.nameArmFirst,
    SpnOps.keepArmWhenSpnSyntax, SpnOps.stashPair]
  cases e.spn with
  | none => rfl
  | some v => cases v <;> rfl

theorem managed_iff (e : Entry) : managed e = true ↔ (e.grp = true ∨ e.acct = true) := by
  simp [managed, SpnOps.managed]

/-- The hook only writes the spn attribute. -/
theorem spnHook_fields {dom : Str} {e e' : Entry} (h : spnHook dom e = some e') :
    e'.id = e.id ∧ e'.grp = e.grp ∧ e'.acct = e.acct ∧ e'.live = e.live ∧ e'.name = e.name := by
  simp only [spnHook, SpnOps.hooksWired, SpnOps.pluginRegistered, Bool.and_self, if_true,
    spnTransform] at h
  by_cases hm : managed e = true
  · simp only [hm, if_true] at h
    cases hg : generateSpn e dom with
    | none => simp [hg, SpnOps.failOnUngeneratable] at h
    | some v =>
      simp only [hg, writeSpn, SpnOps.writeReplaces, if_true, Option.some.injEq] at h
      subst h; simp
  · simp only [hm] at h
    simp at h
    subst h; simp

/-- After the hook, a managed entry with a single name has exactly (name, dom). -/
theorem spnHook_named {dom : Str} {e e' : Entry} {n : Str} (h : spnHook dom e = some e')
    (hm : e.grp = true ∨ e.acct = true) (hn : e.name = [n]) :
    e'.spn = some (.spn [(n, dom)]) := by
  simp only [spnHook, SpnOps.hooksWired, SpnOps.pluginRegistered, Bool.and_self, if_true,
    spnTransform, (managed_iff e).mpr hm, generateSpn_named dom hn, writeSpn,
    SpnOps.writeReplaces, Option.some.injEq] at h
  subst h; rfl

/-- The hook followed by schema validation establishes the per-entry property. -/
theorem spnHook_entryOk {dom : Str} {e e' : Entry} (h : spnHook dom e = some e')
    (hs : schemaOk e' = true) : EntryOk dom e' := by
  intro _ hm
  obtain ⟨_, hg, ha, _, hname⟩ := spnHook_fields h
  have hm' : e.grp = true ∨ e.acct = true := by rw [← hg, ← ha]; exact hm
  cases hsn : single? e'.name with
  | some n =>
    simp only
    have hn : e.name = [n] := by
      rw [← hname]
      revert hsn
      cases e'.name with
      | nil => simp [single?]
      | cons a t =>
        cases t with
        | nil => simp [single?]
        | cons b t => simp [single?]
    exact spnHook_named h hm' hn
  | none =>
    simp only
    have hmb : (e'.grp || e'.acct) = true := by
      rcases hm with h1 | h1 <;> simp [h1]
    simp only [schemaOk, hmb, if_true, Bool.and_eq_true] at hs
    obtain ⟨_, hspn⟩ := hs
    revert hspn
    cases e'.spn with
    | none => simp
    | some v =>
      cases v with
      | spn vs =>
        cases vs with
        | nil => simp
        | cons p t =>
          cases t with
          | nil => intro _; exact ⟨p, rfl⟩
          | cons q t => simp
      | iname n => simp
      | other => simp

theorem entryOk_of_not_live {dom : Str} {e : Entry} (h : e.live = false) : EntryOk dom e := by
  intro hl; rw [h] at hl; cases hl

/-! ## modify -/

theorem modifyCore_doms {s s' : State} {sel : Entry → Bool} {mods : List Mod}
    (h : modifyCore s sel mods = .ok s') : s'.domMem = s.domMem ∧ s'.domDb = s.domDb := by
  unfold modifyCore at h
  split at h
  · cases h; exact ⟨rfl, rfl⟩
  · split at h
    · cases h
    · split at h
      · cases h
      · split at h
        · cases h
        · split at h
          · cases h
          · cases h; exact ⟨rfl, rfl⟩

/-- Core lemma: a successful modify leaves every entry fine for the transaction's domain
name, provided the entries it does not touch already were. -/
theorem modifyCore_entries {s s' : State} {sel : Entry → Bool} {mods : List Mod}
    (hun : ∀ e ∈ s.entries, (e.live && sel e) = false → EntryOk s.domMem e)
    (h : modifyCore s sel mods = .ok s') : ∀ e ∈ s'.entries, EntryOk s.domMem e := by
  unfold modifyCore at h
  split at h
  · next hnone =>
    cases h
    intro e he
    apply hun e he
    simp only [Bool.not_eq_true', List.any_eq_false, Bool.not_eq_true] at hnone
    have := hnone e he
    simpa using this
  · split at h
    · cases h
    · next es hes =>
      split at h
      · cases h
      · next cs hcs =>
        split at h
        · cases h
        · split at h
          · cases h
          · next hschema =>
            cases h
            intro y hy
            obtain ⟨x, hx, hfx⟩ := mapOpt_mem hes hy
            by_cases hsel : (x.live && sel x) = true
            · have hxf : x ∈ s.entries.filter (fun e => e.live && sel e) := by
                simp [List.mem_filter, hx, hsel]
              have hyc : y ∈ cs := mapOpt_mem_fwd hcs hxf hfx
              have hys : schemaOk y = true := by
                simp only [Bool.not_eq_true', Bool.not_eq_false] at hschema
                exact (List.all_eq_true.mp hschema) y hyc
              simp only [modifyEntry, hsel, if_true] at hfx
              exact spnHook_entryOk hfx hys
            · have hsel' : (x.live && sel x) = false := by simpa using hsel
              simp only [modifyEntry, hsel'] at hfx
              simp at hfx
              subst hfx
              exact hun x hx hsel'

/-! ## names under modlists -/

theorem applyMod_spn_name (e : Entry) (m : Mod)
    (hm : m = .purgeSpn ∨ (∃ p, m = .presentSpn p) ∨ (∃ p, m = .removedSpn p)) :
    (applyMod e m).name = e.name ∧ (applyMod e m).grp = e.grp ∧ (applyMod e m).acct = e.acct := by
  rcases hm with rfl | ⟨p, rfl⟩ | ⟨p, rfl⟩
  · simp [applyMod]
  · simp only [applyMod]
    cases e.spn with
    | none => simp
    | some v => cases v <;> simp
  · simp only [applyMod]
    cases e.spn with
    | none => simp
    | some v => cases v <;> simp

theorem applyMod_classes (e : Entry) (m : Mod) :
    (applyMod e m).grp = e.grp ∧ (applyMod e m).acct = e.acct ∧ (applyMod e m).live = e.live
      ∧ (applyMod e m).id = e.id := by
  cases m with
  | purgeName => simp [applyMod]
  | presentName n => simp [applyMod]
  | removedName n => simp [applyMod]
  | purgeSpn => simp [applyMod]
  | presentSpn p =>
    simp only [applyMod]
    cases e.spn with
    | none => simp
    | some v => cases v <;> simp
  | removedSpn p =>
    simp only [applyMod]
    cases e.spn with
    | none => simp
    | some v => cases v <;> simp

theorem applyMods_classes (e : Entry) (mods : List Mod) :
    (applyMods e mods).grp = e.grp ∧ (applyMods e mods).acct = e.acct ∧
      (applyMods e mods).live = e.live ∧ (applyMods e mods).id = e.id := by
  induction mods generalizing e with
  | nil => simp [applyMods]
  | cons m ms ih =>
    have h1 := applyMod_classes e m
    have h2 := ih (applyMod e m)
    simp only [applyMods, List.foldl_cons] at h2 ⊢
    obtain ⟨a, b, c, d⟩ := h1
    obtain ⟨a', b', c', d'⟩ := h2
    exact ⟨a'.trans a, b'.trans b, c'.trans c, d'.trans d⟩

/-- A rename-or-spn modlist keeps exactly one name. -/
theorem nameSafe_named : ∀ (mods : List Mod) (e : Entry), nameSafe mods = true →
    (∃ n, e.name = [n]) → ∃ n, (applyMods e mods).name = [n]
  | [], e, _, hn => by simpa [applyMods] using hn
  | .purgeName :: .presentName n :: rest, e, hs, _ => by
    have hs' : nameSafe rest = true := by simpa [nameSafe] using hs
    have := nameSafe_named rest (applyMod (applyMod e .purgeName) (.presentName n)) hs'
      ⟨n, by simp [applyMod]⟩
    simpa [applyMods] using this
  | .purgeSpn :: rest, e, hs, hn => by
    have hs' : nameSafe rest = true := by simpa [nameSafe] using hs
    have hname := (applyMod_spn_name e .purgeSpn (Or.inl rfl)).1
    have := nameSafe_named rest (applyMod e .purgeSpn) hs' (by rw [hname]; exact hn)
    simpa [applyMods] using this
  | .presentSpn p :: rest, e, hs, hn => by
    have hs' : nameSafe rest = true := by simpa [nameSafe] using hs
    have hname := (applyMod_spn_name e (.presentSpn p) (Or.inr (Or.inl ⟨p, rfl⟩))).1
    have := nameSafe_named rest (applyMod e (.presentSpn p)) hs' (by rw [hname]; exact hn)
    simpa [applyMods] using this
  | .removedSpn p :: rest, e, hs, hn => by
    have hs' : nameSafe rest = true := by simpa [nameSafe] using hs
    have hname := (applyMod_spn_name e (.removedSpn p) (Or.inr (Or.inr ⟨p, rfl⟩))).1
    have := nameSafe_named rest (applyMod e (.removedSpn p)) hs' (by rw [hname]; exact hn)
    simpa [applyMods] using this
  | [.purgeName], _, hs, _ => by simp [nameSafe] at hs
  | .purgeName :: .purgeName :: _, _, hs, _ => by simp [nameSafe] at hs
  | .purgeName :: .removedName _ :: _, _, hs, _ => by simp [nameSafe] at hs
  | .purgeName :: .purgeSpn :: _, _, hs, _ => by simp [nameSafe] at hs
  | .purgeName :: .presentSpn _ :: _, _, hs, _ => by simp [nameSafe] at hs
  | .purgeName :: .removedSpn _ :: _, _, hs, _ => by simp [nameSafe] at hs
  | .presentName _ :: _, _, hs, _ => by simp [nameSafe] at hs
  | .removedName _ :: _, _, hs, _ => by simp [nameSafe] at hs

/-! ## the driver's Boolean checks are the invariants -/

theorem entryOkB_iff (dom : Str) (e : Entry) : entryOkB dom e = true ↔ EntryOk dom e := by
  unfold entryOkB EntryOk
  cases hl : e.live <;> cases hg : e.grp <;> cases ha : e.acct <;> simp
  all_goals
    cases hsn : single? e.name with
    | some n => simp
    | none =>
      simp only
      cases e.spn with
      | none => simp
      | some v =>
        cases v with
        | spn vs =>
          cases vs with
          | nil => simp
          | cons p t =>
            cases t with
            | nil => simp; exact ⟨p.1, p.2, rfl⟩
            | cons q t => simp
        | iname n => simp
        | other => simp

theorem invB_iff (s : State) : invB s = true ↔ Inv s := by
  simp only [invB, Inv, Bool.and_eq_true, beq_iff_eq, List.all_eq_true, entryOkB_iff]

theorem namedB_iff (s : State) : namedB s = true ↔ AllNamed s := by
  simp only [namedB, AllNamed, Named, List.all_eq_true]
  constructor
  · intro h e he hm
    have := h e he
    have hmb : (e.grp || e.acct) = true := by rcases hm with h1 | h1 <;> simp [h1]
    simp only [hmb, Bool.not_true, Bool.false_or, decide_eq_true_eq] at this
    revert this
    cases e.name with
    | nil => simp
    | cons a t =>
      cases t with
      | nil => intro _; exact ⟨a, rfl⟩
      | cons b t => simp
  · intro h e he
    by_cases hmb : (e.grp || e.acct) = true
    · have hm : e.grp = true ∨ e.acct = true := by simpa using hmb
      obtain ⟨n, hn⟩ := h e he hm
      simp [hn]
    · have : (e.grp || e.acct) = false := by simpa using hmb
      simp [this]

end Kanidm.Spn
