import KanidmProofs.Lemmas.RefintOps
/-!
C16: the replication fix-up (`opRepl`: `incremental_apply` of **arbitrary** merged candidates, then
`post_repl_incremental_conflict` and `post_repl_incremental`) preserves `Inv`.
-/
namespace Kanidm.Refint
open Kanidm.Gen.Refint

/-! ## upsert -/

theorem mem_upsert {s : State} {c e : Entry} (h : e ∈ upsert s c) : e = c ∨ (e ∈ s ∧ e.uuid ≠ c.uuid) := by
  unfold upsert at h
  split at h
  · obtain ⟨x, hx, rfl⟩ := List.mem_map.mp h
    split
    · exact Or.inl rfl
    · rename_i hne; exact Or.inr ⟨hx, by simpa using hne⟩
  · rename_i hidx
    rcases List.mem_append.mp h with h1 | h1
    · right
      refine ⟨h1, fun heq => hidx (inIndex_iff.mpr ⟨e, h1, heq⟩)⟩
    · exact Or.inl (List.mem_singleton.mp h1)

theorem self_mem_upsert (s : State) (c : Entry) : c ∈ upsert s c := by
  unfold upsert
  split
  · rename_i hidx
    obtain ⟨x, hx, hxu⟩ := inIndex_iff.mp hidx
    exact List.mem_map.mpr ⟨x, hx, by simp [hxu]⟩
  · exact List.mem_append_right _ (List.mem_singleton.mpr rfl)

theorem keep_mem_upsert {s : State} {c e : Entry} (he : e ∈ s) (hne : e.uuid ≠ c.uuid) : e ∈ upsert s c := by
  unfold upsert
  split
  · exact List.mem_map.mpr ⟨e, he, by simp [hne]⟩
  · exact List.mem_append_left _ he

theorem nodup_upsert {s : State} (hn : (s.map (·.uuid)).Nodup) (c : Entry) :
    ((upsert s c).map (·.uuid)).Nodup := by
  unfold upsert
  split
  · rw [map_fields_uuid]
    · exact hn
    · intro x _; split
      · rename_i h; simp only [beq_iff_eq] at h; exact h.symm
      · rfl
  · rename_i hidx
    rw [List.map_append]
    refine List.nodup_append.mpr ⟨hn, by simp, ?_⟩
    intro a ha b hb hab
    obtain ⟨x, hx, rfl⟩ := List.mem_map.mp ha
    simp only [List.map_cons, List.map_nil, List.mem_singleton] at hb
    exact hidx (inIndex_iff.mpr ⟨x, hx, hab.trans hb⟩)

theorem nodup_upsertAll {s : State} (hn : (s.map (·.uuid)).Nodup) (cs : List Entry) :
    ((upsertAll s cs).map (·.uuid)).Nodup := by
  unfold upsertAll
  induction cs generalizing s with
  | nil => exact hn
  | cons c cs ih => simp only [List.foldl_cons]; exact ih (nodup_upsert hn c)

theorem mem_upsertAll {s : State} {cs : List Entry} {e : Entry} (h : e ∈ upsertAll s cs) :
    e ∈ cs ∨ e ∈ s := by
  unfold upsertAll at h
  induction cs generalizing s with
  | nil => exact Or.inr h
  | cons c cs ih =>
    simp only [List.foldl_cons] at h
    rcases ih h with h1 | h1
    · exact Or.inl (List.mem_cons_of_mem _ h1)
    · rcases mem_upsert h1 with rfl | ⟨h2, _⟩
      · exact Or.inl (List.mem_cons_self ..)
      · exact Or.inr h2

theorem keep_mem_upsertAll {s : State} {cs : List Entry} {e : Entry} (he : e ∈ s)
    (hne : ∀ c ∈ cs, c.uuid ≠ e.uuid) : e ∈ upsertAll s cs := by
  unfold upsertAll
  induction cs generalizing s with
  | nil => exact he
  | cons c cs ih =>
    simp only [List.foldl_cons]
    exact ih (keep_mem_upsert he (fun h => hne c (List.mem_cons_self ..) h.symm))
      (fun c' hc' => hne c' (List.mem_cons_of_mem _ hc'))

/-- Some candidate carrying uuid `r` ends up stored (the last one written). -/
theorem last_mem_upsertAll {s : State} {cs : List Entry} {r : Nat} (h : ∃ c ∈ cs, c.uuid = r) :
    ∃ c ∈ cs, c.uuid = r ∧ c ∈ upsertAll s cs := by
  unfold upsertAll
  induction cs generalizing s with
  | nil => obtain ⟨c, hc, _⟩ := h; simp at hc
  | cons c cs ih =>
    simp only [List.foldl_cons]
    by_cases hlater : ∃ c' ∈ cs, c'.uuid = r
    · obtain ⟨c', hc', hu, hm⟩ := ih (s := upsert s c) hlater
      exact ⟨c', List.mem_cons_of_mem _ hc', hu, hm⟩
    · obtain ⟨c0, hc0, hu0⟩ := h
      have : c0 = c := by
        rcases List.mem_cons.mp hc0 with h1 | h1
        · exact h1
        · exact absurd ⟨c0, h1, hu0⟩ hlater
      subst this
      refine ⟨c0, List.mem_cons_self .., hu0, ?_⟩
      have := keep_mem_upsertAll (s := upsert s c0) (cs := cs) (self_mem_upsert s c0)
        (fun c' hc' heq => hlater ⟨c', hc', heq.trans hu0⟩)
      unfold upsertAll at this
      exact this

theorem uuid_mem_upsertAll {s : State} {cs : List Entry} {c : Entry} (hc : c ∈ cs) :
    c.uuid ∈ (upsertAll s cs).map (·.uuid) := by
  obtain ⟨c', _, hu, hm⟩ := last_mem_upsertAll (s := s) ⟨c, hc, rfl⟩
  exact List.mem_map.mpr ⟨c', hm, hu⟩

/-! ## the fix-up -/

theorem preOf_cases (s : State) (c : Entry) : preOf s c ∈ s ∨ (preOf s c).attrs = [] := by
  unfold preOf
  split
  · rename_i e h; exact Or.inl (find_some h).1
  · exact Or.inr rfl

theorem toConflict_propRefs (e : Entry) : (toConflict e).propRefs = e.propRefs := rfl

theorem inv_repl {s : State} (hinv : Inv s) (cand : List Entry) (conflicts : List Nat)
    (hok : stepOk s (.repl cand conflicts) = true) : Inv (apply s (.repl cand conflicts)) := by
  simp only [stepOk] at hok
  generalize hs1 : upsertAll s cand = s1 at hok
  generalize hhit : conflictHits s1 conflicts = hit
  generalize hrm : replRemoveSet s (conflictState s1 hit) cand (conflicts ++ hit) = rm
  have hn1 : (s1.map (·.uuid)).Nodup := hs1 ▸ nodup_upsertAll hinv.1 cand
  have hfu : ∀ x ∈ s1, ((fun e : Entry => if hit.contains e.uuid = true then toConflict e else e) x).uuid = x.uuid := by
    intro x _; simp only; split <;> rfl
  have hn2 : ((conflictState s1 hit).map (·.uuid)).Nodup := by
    unfold conflictState
    rw [map_fields_uuid hfu]; exact hn1
  have hhit_sub : ∀ u ∈ hit, u ∈ s1.map (·.uuid) := by
    intro u hu; subst hhit
    unfold conflictHits at hu
    split at hu
    · simp at hu
    · obtain ⟨x, hx, rfl⟩ := List.mem_map.mp hu
      exact List.mem_map.mpr ⟨x, (List.mem_filter.mp hx).1, rfl⟩
  -- what goes into the removal set
  have hrm_conf : ∀ u ∈ conflicts ++ hit, u ∈ rm := by
    intro u hu; subst hrm
    unfold replRemoveSet
    simp only [replRemovesConflicts, if_true]
    exact List.mem_append_left _ (List.mem_append_right _ hu)
  have hrm_inactive : ∀ c ∈ cand, (preOf s c).st = .live → c.st ≠ .live → c.uuid ∈ rm := by
    intro c hc hp hcs; subst hrm
    unfold replRemoveSet
    simp only [replRemovesInactive, if_true]
    apply List.mem_append_right
    simp only [List.mem_filterMap]
    refine ⟨c, hc, ?_⟩
    have : (c.st == St.live) = false := by simpa using hcs
    simp [becameInactive, hp, this]
  have hrm_missing : ∀ r ∈ newRefs (some (cand.map (preOf s))) cand,
      isLive (conflictState s1 hit) r = true ∨ r ∈ rm := by
    intro r hr
    by_cases hf : existFast (conflictState s1 hit) (newRefs (some (cand.map (preOf s))) cand) = true
    · exact Or.inl (existFast_sound hn2 hf hr)
    · rcases existSlow_complete (s := conflictState s1 hit) hr with h | h
      · exact Or.inl h
      · right; subst hrm
        unfold replRemoveSet
        simp only [replRemovesMissing, if_true, hf]
        exact List.mem_append_left _ (List.mem_append_left _ h)
  have hrm_sub : ∀ u ∈ rm, u ∈ (s1.map (·.uuid)) ++ refSet cand ++ conflicts ++ cand.map (·.uuid) := by
    intro u hu; subst hrm
    unfold replRemoveSet at hu
    simp only [replRemovesMissing, replRemovesConflicts, replRemovesInactive, if_true, List.mem_append] at hu
    simp only [List.mem_append]
    rcases hu with (h | h | h) | h
    · -- missing ⊆ new references ⊆ references of the candidates
      have : u ∈ newRefs (some (cand.map (preOf s))) cand := by
        split at h
        · simp at h
        · exact (List.mem_filter.mp h).1
      unfold newRefs at this
      simp only [newRefsAreDifference, if_true] at this
      exact Or.inl (Or.inl (Or.inr (List.mem_filter.mp this).1))
    · exact Or.inl (Or.inr h)
    · exact Or.inl (Or.inl (Or.inl (hhit_sub u h)))
    · right
      simp only [List.mem_filterMap] at h
      obtain ⟨c, hc, hcu⟩ := h
      split at hcu
      · simp only [Option.some.injEq] at hcu; exact List.mem_map.mpr ⟨c, hc, hcu⟩
      · simp at hcu
  -- liveness carried across the apply + conflict steps, or scheduled for removal
  have hlive : ∀ r, isLive s r = true → isLive (conflictState s1 hit) r = true ∨ r ∈ rm := by
    intro r hr
    have step2 : isLive s1 r = true → isLive (conflictState s1 hit) r = true ∨ r ∈ rm := by
      intro h1
      obtain ⟨x, hx, hxu, hxl⟩ := isLive_iff.mp h1
      by_cases hh : hit.contains r = true
      · right; exact hrm_conf r (List.mem_append_right _ (by simpa using hh))
      · left
        unfold conflictState
        refine isLive_iff.mpr ⟨_, List.mem_map_of_mem hx, (hfu x hx).trans hxu, ?_⟩
        simp only [hxu, hh, Bool.false_eq_true, if_false]
        exact hxl
    obtain ⟨x, hx, hxu, hxl⟩ := isLive_iff.mp hr
    by_cases hc : ∃ c ∈ cand, c.uuid = r
    · obtain ⟨c', hc', hcu, hcm⟩ := last_mem_upsertAll (s := s) hc
      rw [hs1] at hcm
      by_cases hcl : c'.st = .live
      · exact step2 (isLive_iff.mpr ⟨c', hcm, hcu, hcl⟩)
      · right
        obtain ⟨y, hy, hyl⟩ := find_of_live hinv.1 hr
        have : (preOf s c').st = .live := by
          unfold preOf; rw [hcu, hy]; exact hyl
        exact hcu ▸ hrm_inactive c' hc' this hcl
    · have : x ∈ s1 := hs1 ▸ keep_mem_upsertAll hx (fun c hcm heq => hc ⟨c, hcm, heq.trans hxu⟩)
      exact step2 (isLive_iff.mpr ⟨x, this, hxu, hxl⟩)
  have hweak : WeakInv rm (conflictState s1 hit) := by
    refine ⟨hn2, ?_⟩
    intro e2 he2 r hr
    unfold conflictState at he2
    obtain ⟨e1, he1, rfl⟩ := List.mem_map.mp he2
    have hr1 : r ∈ e1.propRefs := by
      split at hr
      · exact hr
      · exact hr
    rcases mem_upsertAll (hs1 ▸ he1) with hc | hsm
    · -- a replicated candidate
      have hpost : r ∈ refSet cand := mem_refSet.mpr ⟨e1, hc, hr1⟩
      by_cases hprev : r ∈ refSet (cand.map (preOf s))
      · obtain ⟨p, hp, hrp⟩ := mem_refSet.mp hprev
        obtain ⟨c, _, rfl⟩ := List.mem_map.mp hp
        rcases preOf_cases s c with h | h
        · exact hlive r (hinv.2 _ h r hrp)
        · simp [Entry.propRefs, h] at hrp
      · apply hrm_missing
        unfold newRefs
        simp only [newRefsAreDifference, if_true, List.mem_filter]
        exact ⟨hpost, by simpa using hprev⟩
    · exact hlive r (hinv.2 e1 hsm r hr1)
  have hsidfree : SidFree rm (conflictState s1 hit) := by
    intro e2 he2 p hp u hu hmem
    unfold conflictState at he2
    obtain ⟨e1, he1, rfl⟩ := List.mem_map.mp he2
    have hp1 : p ∈ e1.attrs := by
      split at hp
      · exact hp
      · exact hp
    have hs : u ∈ stateSids s1 := mem_stateSids.mpr ⟨e1, he1, p, hp1, hmem⟩
    simp only [List.all_eq_true, Bool.not_eq_true', List.contains_eq_mem, decide_eq_false_iff_not] at hok
    exact hok u hs (hrm_sub u hu)
  unfold apply step opRepl
  simp only [hs1, hhit, hrm]
  split
  · rename_i hempty
    simp only [Res.state]
    refine ⟨hweak.1, fun e he r hr => ?_⟩
    rcases hweak.2 e he r hr with h | h
    · exact h
    · have : rm = [] := by simpa using hempty
      simp [this] at h
  · cases hrr : removeReferences (conflictState s1 hit) rm with
    | none => simp only [Res.state]; exact hinv
    | some s3 =>
      simp only [Res.state]
      unfold removeReferences at hrr
      split at hrr
      · simp at hrr
      · simp only [Option.some.injEq] at hrr; exact hrr ▸ inv_removeRefs hweak hsidfree

end Kanidm.Refint
