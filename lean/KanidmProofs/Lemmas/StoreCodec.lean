import KanidmModel.StoreCodec
/-! Helper lemmas for C12: soundness of the decidable table checks, `gather`, attribute maps,
the rehydrate loop. -/
namespace Kanidm.StoreCodec

/-! ### Tag tables -/

theorem TagPair.ok_sound {p : TagPair} (h : p.ok = true) {a : Nat} (ha : a < p.nMem) :
    p.roundtrip a = some a := by
  unfold TagPair.ok at h
  have := (List.all_eq_true.mp h) a (List.mem_range.mpr ha)
  simpa using this

/-- A round trip through a checked table splits into an encoder step and a decoder step. -/
theorem TagPair.roundtrip_split {p : TagPair} {a : Nat} (h : p.roundtrip a = some a) :
    ∃ c, p.encode a = some c ∧ p.decode c = some a := by
  unfold TagPair.roundtrip at h
  cases hc : p.encode a with
  | none => simp [hc] at h
  | some c => exact ⟨c, rfl, by simpa [hc] using h⟩

theorem TagPair.serdeOk_sound {p : TagPair} (h : p.serdeOk = true) {i j : Nat}
    (hi : i < p.nDb) (hj : j < p.nDb) (hne : i ≠ j) : p.dbSerdeIds[i]? ≠ p.dbSerdeIds[j]? := by
  unfold TagPair.serdeOk at h
  simp only [Bool.and_eq_true, List.all_eq_true, List.mem_range, Bool.or_eq_true, beq_iff_eq,
    bne_iff_ne] at h
  rcases h.2 i hi j hj with h' | h'
  · exact absurd h' hne
  · exact h'

/-! ### gather -/

theorem gather_length : ∀ {xs js r : List Nat}, gather xs js = some r → r.length = js.length
  | _, [], r, h => by simp [gather] at h; subst h; rfl
  | xs, j :: js, r, h => by
    unfold gather at h
    split at h
    · rename_i x r' hx hr
      injection h with h; subst h
      simp [gather_length hr]
    · exact absurd h (by simp)

theorem gather_get : ∀ {xs js r : List Nat}, gather xs js = some r →
    ∀ i : Nat, r[i]? = (js[i]?).bind (fun j => xs[j]?)
  | _, [], r, h, i => by simp [gather] at h; subst h; simp
  | xs, j :: js, r, h, i => by
    unfold gather at h
    split at h
    · rename_i x r' hx hr
      injection h with h; subst h
      cases i with
      | zero => simp [hx]
      | succ i => simpa using gather_get hr i
    · exact absurd h (by simp)

theorem gather_some : ∀ {xs js : List Nat}, (∀ j ∈ js, j < xs.length) → ∃ r, gather xs js = some r
  | _, [], _ => ⟨[], rfl⟩
  | xs, j :: js, h => by
    obtain ⟨r, hr⟩ := gather_some (xs := xs) (js := js) (fun k hk => h k (List.mem_cons_of_mem _ hk))
    have hj : j < xs.length := h j (List.mem_cons_self)
    refine ⟨xs[j] :: r, ?_⟩
    unfold gather
    simp [hr, List.getElem?_eq_getElem hj]

/-! ### Record tables -/

theorem RecPair.roundtrip_of_ok {p : RecPair} (h : p.ok = true) (v : RVal) (hv : p.wf v) :
    p.roundtrip v = some v := by
  unfold RecPair.wf at hv
  have hlt : v.tag < p.memArity.length := by
    rcases List.getElem?_eq_some_iff.mp hv with ⟨hl, _⟩
    exact hl
  have hok := (List.all_eq_true.mp h) v.tag (List.mem_range.mpr hlt)
  unfold RecPair.armOk at hok
  split at hok
  · exact absurd hok (by simp)
  rename_i e he
  split at hok
  · exact absurd hok (by simp)
  rename_i d hd
  simp only [Bool.and_eq_true, beq_iff_eq, List.all_eq_true, decide_eq_true_eq,
    List.mem_range] at hok
  obtain ⟨⟨⟨⟨h1, h2⟩, h3⟩, h4⟩, h5⟩ := hok
  have hn : d.flow.length = v.fields.length := by
    rw [hv] at h3
    exact (Option.some.inj h3).symm
  -- the decoder's flow points into the encoder's
  have h5' : ∀ s, s < d.flow.length → ∃ t, d.flow[s]? = some t ∧ e.flow[t]? = some s := by
    intro s hs
    have := h5 s hs
    cases ht : d.flow[s]? with
    | none => simp [ht] at this
    | some t => exact ⟨t, rfl, by simpa [ht] using this⟩
  have hdin : ∀ j ∈ d.flow, j < e.flow.length := by
    intro j hj
    obtain ⟨s, hs, hsj⟩ := List.mem_iff_getElem.mp hj
    obtain ⟨t, ht, het⟩ := h5' s hs
    have : t = j := by
      rw [List.getElem?_eq_getElem hs] at ht
      exact (Option.some.inj ht).symm.trans hsj
    subst this
    rcases List.getElem?_eq_some_iff.mp het with ⟨hl, _⟩
    exact hl
  -- encode
  obtain ⟨fs, hfs⟩ := gather_some (xs := v.fields) (js := e.flow)
    (fun j hj => by have := h4 j hj; omega)
  have hfl : fs.length = e.flow.length := gather_length hfs
  have henc : p.encode v = some ⟨e.dst, fs⟩ := by
    simp [RecPair.encode, conv, he, hv, hfs]
  -- decode
  obtain ⟨r, hr⟩ := gather_some (xs := fs) (js := d.flow)
    (fun j hj => by have := hdin j hj; omega)
  have hrv : r = v.fields := by
    apply List.ext_getElem?
    intro i
    rw [gather_get hr i]
    by_cases hi : i < d.flow.length
    · obtain ⟨t, ht, het⟩ := h5' i hi
      rw [ht]
      simp only [Option.bind_some]
      rw [gather_get hfs t, het]
      simp
    · have h1' : d.flow[i]? = none := List.getElem?_eq_none (by omega)
      have h2' : v.fields[i]? = none := List.getElem?_eq_none (by omega)
      rw [h1', h2']
      rfl
  have hdec : p.decode ⟨e.dst, fs⟩ = some ⟨d.dst, r⟩ := by
    have : p.dbArity[e.dst]? = some fs.length := by rw [h2, hfl]
    simp [RecPair.decode, conv, hd, this, hr]
  unfold RecPair.roundtrip
  rw [henc]
  simp only [Option.bind_some]
  rw [hdec, h1, hrv]

/-! ### Valuesets and attribute maps -/

theorem vs_roundtrip {disp : TagPair} (h : disp.ok = true) (v : VS) (hk : v.kind < disp.nMem) :
    (toDbVS disp v).bind (fromDbVS disp) = some v := by
  obtain ⟨c, hc, hd⟩ := TagPair.roundtrip_split (TagPair.ok_sound h hk)
  simp [toDbVS, fromDbVS, hc, hd]

theorem toDbVS_elems {disp : TagPair} {v : VS} {d : DbVS} (h : toDbVS disp v = some d) :
    d.elems = v.elems := by
  unfold toDbVS at h
  cases hc : disp.encode v.kind with
  | none => simp [hc] at h
  | some c => simp [hc] at h; subst h; rfl

def nonEmptyVS (kv : Nat × VS) : Bool := !kv.2.elems.isEmpty
def nonEmptyDb (kv : Nat × DbVS) : Bool := !kv.2.elems.isEmpty

/-- `to_dbentry`'s attribute map followed by `from_dbentry`'s: the non-empty valuesets come back
identically, the empty ones are dropped. -/
theorem attrs_roundtrip {disp : TagPair} (h : disp.ok = true) :
    ∀ (l : List (Nat × VS)), (∀ kv ∈ l, kv.2.kind < disp.nMem) →
    ∃ l', mapAttrs (toDbVS disp) l = some l' ∧
      mapAttrs (fromDbVS disp) (l'.filter nonEmptyDb) = some (l.filter nonEmptyVS)
  | [], _ => ⟨[], rfl, rfl⟩
  | (k, v) :: rest, hk => by
    obtain ⟨r', hr1, hr2⟩ := attrs_roundtrip h rest (fun kv hkv => hk kv (List.mem_cons_of_mem _ hkv))
    have hv := vs_roundtrip h v (hk (k, v) List.mem_cons_self)
    cases hd : toDbVS disp v with
    | none => simp [hd] at hv
    | some d =>
      have hback : fromDbVS disp d = some v := by simpa [hd] using hv
      have hel := toDbVS_elems hd
      refine ⟨(k, d) :: r', ?_, ?_⟩
      · simp [mapAttrs, hd, hr1]
      · by_cases he : v.elems.isEmpty
        · have : nonEmptyDb (k, d) = false := by simp [nonEmptyDb, hel, he]
          have h2 : nonEmptyVS (k, v) = false := by simp [nonEmptyVS, he]
          simp [List.filter, this, h2, hr2]
        · have : nonEmptyDb (k, d) = true := by simp [nonEmptyDb, hel, he]
          have h2 : nonEmptyVS (k, v) = true := by simp [nonEmptyVS, he]
          simp [List.filter, this, h2, mapAttrs, hback, hr2]

theorem lookup_mem {β : Type} : ∀ {l : List (Nat × β)} {k : Nat} {v : β},
    l.lookup k = some v → (k, v) ∈ l
  | [], _, _, h => by simp [List.lookup] at h
  | (k', v') :: r, k, v, h => by
    by_cases hk : k = k'
    · subst hk
      simp [List.lookup] at h
      subst h
      exact List.mem_cons_self
    · have : (k == k') = false := by simpa using hk
      simp [List.lookup, this] at h
      exact List.mem_cons_of_mem _ (lookup_mem h)

/-! ### The rehydrate loop -/

/-- what `ReplEntryV1::new` sends for one `(attr, cid)` of the change state -/
def sendOne (disp : TagPair) (within : Nat → Nat → Bool) (attrs : List (Nat × VS))
    (kc : Nat × Nat) : Option (Nat × ReplAttr) :=
  if within kc.1 kc.2 then some (kc.1, ⟨kc.2, replValue disp attrs kc.1⟩) else none

/-- what the consumer should end up with for that `(attr, cid)` -/
def expectOne (within : Nat → Nat → Bool) (attrs : List (Nat × VS))
    (kc : Nat × Nat) : Option (Nat × VS) :=
  if within kc.1 kc.2 then
    ((attrs.lookup kc.1).filter fun vs => !vs.elems.isEmpty).map fun vs => (kc.1, vs)
  else none

theorem replValue_decode {disp : TagPair} (h : disp.ok = true) {attrs : List (Nat × VS)}
    (hk : ∀ kv ∈ attrs, kv.2.kind < disp.nMem) (k : Nat) :
    (replValue disp attrs k = none ∧
        ((attrs.lookup k).filter fun vs => !vs.elems.isEmpty) = none) ∨
    (∃ d v, replValue disp attrs k = some d ∧ fromDbVS disp d = some v ∧
        ((attrs.lookup k).filter fun vs => !vs.elems.isEmpty) = some v) := by
  unfold replValue
  cases hl : attrs.lookup k with
  | none => left; simp
  | some vs =>
    by_cases he : vs.elems.isEmpty
    · left
      have he' : vs.elems = [] := by simpa using he
      simp [he', Option.filter]
    · right
      have he' : ¬ vs.elems = [] := by simpa using he
      have hv := vs_roundtrip h vs (hk (k, vs) (lookup_mem hl))
      cases hd : toDbVS disp vs with
      | none => simp [hd] at hv
      | some d =>
        refine ⟨d, vs, ?_, by simpa [hd] using hv, ?_⟩
        · simp [he', hd]
        · simp [Option.filter, he']

theorem rehydrate_filterMap {disp : TagPair} (h : disp.ok = true) (within : Nat → Nat → Bool)
    {attrs : List (Nat × VS)} (hk : ∀ kv ∈ attrs, kv.2.kind < disp.nMem) :
    ∀ (changes : List (Nat × Nat)), (changes.map (·.1)).Nodup →
    rehydrateAttrs disp (changes.filterMap (sendOne disp within attrs)) =
      some (changes.filter (fun kc => within kc.1 kc.2),
            changes.filterMap (expectOne within attrs))
  | [], _ => rfl
  | (k, cid) :: rest, hnd => by
    have hnd' : (rest.map (·.1)).Nodup := (List.nodup_cons.mp hnd).2
    have hnotin : k ∉ rest.map (·.1) := (List.nodup_cons.mp hnd).1
    have ih := rehydrate_filterMap h within hk rest hnd'
    by_cases hw : within k cid
    · have hs : sendOne disp within attrs (k, cid) = some (k, ⟨cid, replValue disp attrs k⟩) := by
        simp [sendOne, hw]
      have hnodup : (rest.filter (fun kc => within kc.1 kc.2)).any (fun kc => kc.1 == k) = false := by
        rw [List.any_eq_false]
        intro kc hkc
        have hmem : kc ∈ rest := (List.mem_filter.mp hkc).1
        have : kc.1 ≠ k := by
          intro heq
          exact hnotin (heq ▸ List.mem_map_of_mem (f := (·.1)) hmem)
        simpa using this
      rw [List.filterMap_cons, hs]
      simp only []
      unfold rehydrateAttrs
      rw [ih]
      simp only [hnodup]
      rcases replValue_decode h hk k with ⟨h1, h2⟩ | ⟨d, v, h1, h2, h3⟩
      · simp [h1, List.filter, hw, List.filterMap_cons, expectOne, h2]
      · simp [h1, h2, List.filter, hw, List.filterMap_cons, expectOne, h3]
    · have hs : sendOne disp within attrs (k, cid) = none := by simp [sendOne, hw]
      rw [List.filterMap_cons, hs]
      simp only []
      rw [ih]
      simp [List.filter, hw, List.filterMap_cons, expectOne]

/-! ## Accumulator fields of decoders (bit-mask pre-filters such as `rs_filter`) -/

theorem and_or_self_right (c acc : Nat) : c &&& (acc ||| c) = c := by
  apply Nat.eq_of_testBit_eq; intro i
  simp only [Nat.testBit_and, Nat.testBit_or]
  cases c.testBit i <;> simp

theorem and_or_mono (c acc d : Nat) (h : c &&& acc = c) : c &&& (acc ||| d) = c := by
  apply Nat.eq_of_testBit_eq; intro i
  have hi := congrArg (fun n => n.testBit i) h
  simp only [Nat.testBit_and, Nat.testBit_or] at hi ⊢
  cases hc : c.testBit i <;> simp_all

theorem DecodeField.step_mono (f : DecodeField) (c acc : Nat) (e : Nat × Nat) (h : c &&& acc = c) :
    c &&& f.step acc e = c := by
  unfold DecodeField.step
  split
  · split
    · exact and_or_mono c acc e.2 h
    · exact h
  · split
    · exact and_or_mono c acc e.2 h
    · exact h

theorem DecodeField.foldl_mono (f : DecodeField) (c : Nat) : ∀ (els : List (Nat × Nat)) (acc : Nat),
    c &&& acc = c → c &&& els.foldl f.step acc = c
  | [], _, h => h
  | e :: es, acc, h => foldl_mono f c es (f.step acc e) (f.step_mono c acc e h)

/-- A kept element's bits are in the mask right after its own step. -/
theorem DecodeField.step_covers (f : DecodeField)
    (hok : decide (f.uniform > 0) = true ∨ ∀ a ∈ f.arms, a.yields = true → a.updates = true)
    (acc : Nat) (e : Nat × Nat) (hk : f.keeps e = true) : e.2 &&& f.step acc e = e.2 := by
  unfold DecodeField.keeps at hk
  unfold DecodeField.step
  split at hk
  · rename_i a ha
    have : (decide (f.uniform > 0) || a.updates) = true := by
      rcases hok with hu | harms
      · simp [hu]
      · have hm : a ∈ f.arms := List.mem_of_getElem? ha
        simp [harms a hm hk]
    simp only [this, if_true]
    exact and_or_self_right _ _
  · exact absurd hk (by simp)

theorem DecodeField.foldl_covers (f : DecodeField)
    (hok : decide (f.uniform > 0) = true ∨ ∀ a ∈ f.arms, a.yields = true → a.updates = true) :
    ∀ (els : List (Nat × Nat)) (acc : Nat) (e : Nat × Nat), e ∈ f.kept els →
      e.2 &&& els.foldl f.step acc = e.2
  | [], _, e, h => by simp [DecodeField.kept] at h
  | x :: xs, acc, e, h => by
    simp only [List.foldl_cons]
    unfold DecodeField.kept at h
    by_cases hx : f.keeps x = true
    · rw [List.filter_cons_of_pos hx] at h
      rcases List.mem_cons.mp h with rfl | h'
      · exact f.foldl_mono _ xs _ (f.step_covers hok acc _ hx)
      · exact foldl_covers f hok xs _ e h'
    · rw [List.filter_cons_of_neg hx] at h
      exact foldl_covers f hok xs _ e h

/-- From the decidable check to the hypothesis of `foldl_covers`. -/
theorem DecodeField.ok_acc {f : DecodeField} (hk : f.kind = 1) (h : f.ok = true) :
    decide (f.uniform > 0) = true ∨ ∀ a ∈ f.arms, a.yields = true → a.updates = true := by
  unfold DecodeField.ok at h
  simp only [hk] at h
  simp only [Bool.or_eq_true, Bool.and_eq_true, List.all_eq_true] at h
  rcases h with h | ⟨_, h⟩
  · exact absurd h (by decide)
  · rcases h with h | ⟨_, h⟩
    · exact Or.inl h
    · refine Or.inr fun a ha hy => ?_
      have := h a ha
      simp [DecodeArm.ok, hy] at this
      exact this


end Kanidm.StoreCodec
