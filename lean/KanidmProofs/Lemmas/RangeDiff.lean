import KanidmModel.RangeDiff
/-! Helper lemmas for C10: closed form of the `range_diff` loop. -/
namespace Kanidm.RangeDiff
open Kanidm.Gen.RangeDiff

def c0 (c s : Range) : Bool := cond0 c.tsMin c.tsMax s.tsMin s.tsMax
def c1 (c s : Range) : Bool := cond1 c.tsMin c.tsMax s.tsMin s.tsMax
def c2 (c s : Range) : Bool := cond2 c.tsMin c.tsMax s.tsMin s.tsMax

def sharedOf (consumer : Ruv) (e : Nat × Range) : Bool := (lookup consumer e.1).isSome

def lagOf (consumer : Ruv) (e : Nat × Range) : Option (Nat × Range) :=
  match lookup consumer e.1 with
  | some c => if c0 c e.2 then some (e.1, ⟨e.2.tsMin, c.tsMax⟩) else none
  | none => none

def advOf (consumer : Ruv) (e : Nat × Range) : Option (Nat × Range) :=
  match lookup consumer e.1 with
  | some c => if !c0 c e.2 && c1 c e.2 then some (e.1, ⟨e.2.tsMax, c.tsMin⟩) else none
  | none => none

def diffOf (consumer : Ruv) (e : Nat × Range) : Option (Nat × Range) :=
  match lookup consumer e.1 with
  | some c => if !c0 c e.2 && !c1 c e.2 && c2 c e.2 then some (e.1, ⟨c.tsMax, e.2.tsMax⟩) else none
  | none => some (e.1, ⟨0, e.2.tsMax⟩)

theorem stepOne_eq (consumer : Ruv) (acc : Acc) (e : Nat × Range) :
    stepOne consumer acc e =
      { diff := acc.diff ++ (diffOf consumer e).toList,
        lag := acc.lag ++ (lagOf consumer e).toList,
        adv := acc.adv ++ (advOf consumer e).toList,
        consumerLagging := acc.consumerLagging || (lagOf consumer e).isSome,
        supplierLagging := acc.supplierLagging || (advOf consumer e).isSome,
        overlap := acc.overlap || sharedOf consumer e } := by
  unfold stepOne diffOf lagOf advOf sharedOf c0 c1 c2
  cases h : lookup consumer e.1 with
  | none => simp
  | some c =>
    simp only []
    by_cases h0 : cond0 c.tsMin c.tsMax e.2.tsMin e.2.tsMax = true
    · simp [h0]
    · by_cases h1 : cond1 c.tsMin c.tsMax e.2.tsMin e.2.tsMax = true
      · simp [h0, h1]
      · by_cases h2 : cond2 c.tsMin c.tsMax e.2.tsMin e.2.tsMax = true
        · simp [h0, h1, h2]
        · simp [h0, h1, h2]

theorem fold_eq (consumer : Ruv) (l : Ruv) (acc : Acc) :
    l.foldl (stepOne consumer) acc =
      { diff := acc.diff ++ l.filterMap (diffOf consumer),
        lag := acc.lag ++ l.filterMap (lagOf consumer),
        adv := acc.adv ++ l.filterMap (advOf consumer),
        consumerLagging := acc.consumerLagging || l.any (fun e => (lagOf consumer e).isSome),
        supplierLagging := acc.supplierLagging || l.any (fun e => (advOf consumer e).isSome),
        overlap := acc.overlap || l.any (sharedOf consumer) } := by
  induction l generalizing acc with
  | nil => simp
  | cons e l ih =>
    rw [List.foldl_cons, ih, stepOne_eq]
    cases h1 : diffOf consumer e <;> cases h2 : lagOf consumer e <;> cases h3 : advOf consumer e <;>
      simp [h1, h2, h3, Bool.or_assoc]

theorem rangeDiff_eq (consumer supplier : Ruv) :
    rangeDiff consumer supplier =
      finish { diff := supplier.filterMap (diffOf consumer),
               lag := supplier.filterMap (lagOf consumer),
               adv := supplier.filterMap (advOf consumer),
               consumerLagging := supplier.any (fun e => (lagOf consumer e).isSome),
               supplierLagging := supplier.any (fun e => (advOf consumer e).isSome),
               overlap := supplier.any (sharedOf consumer) } := by
  unfold rangeDiff
  rw [fold_eq]
  simp

/-- `finish` on explicit components. -/
def classify (ov cl sl : Bool) (d l a : Ruv) : Status :=
  if !ov then .noOverlap
  else match cl, sl with
    | false, false => .ok d
    | true, false => .refresh l
    | false, true => .unwilling a
    | true, true => .critical l a

theorem rangeDiff_classify (consumer supplier : Ruv) :
    rangeDiff consumer supplier =
      classify (supplier.any (sharedOf consumer))
        (supplier.any (fun e => (lagOf consumer e).isSome))
        (supplier.any (fun e => (advOf consumer e).isSome))
        (supplier.filterMap (diffOf consumer))
        (supplier.filterMap (lagOf consumer))
        (supplier.filterMap (advOf consumer)) := by
  rw [rangeDiff_eq]; rfl

theorem lookup_of_mem_nodup {m : Ruv} (hnd : (m.map (·.1)).Nodup) {k : Nat} {r : Range}
    (hmem : (k, r) ∈ m) : lookup m k = some r := by
  induction m with
  | nil => cases hmem
  | cons hd tl ih =>
    obtain ⟨k', r'⟩ := hd
    simp only [List.map_cons, List.nodup_cons] at hnd
    simp only [List.mem_cons] at hmem
    unfold lookup
    rcases hmem with h | h
    · cases h; simp
    · have : k' ≠ k := by
        intro hk; subst hk
        exact hnd.1 (List.mem_map.mpr ⟨(k', r), h, rfl⟩)
      simp [this, ih hnd.2 h]

theorem mem_of_lookup {m : Ruv} {k : Nat} {r : Range} (h : lookup m k = some r) : (k, r) ∈ m := by
  induction m with
  | nil => simp [lookup] at h
  | cons hd tl ih =>
    obtain ⟨k', r'⟩ := hd
    unfold lookup at h
    split at h
    · rename_i hk; cases h; subst hk; simp
    · exact List.mem_cons_of_mem _ (ih h)

end Kanidm.RangeDiff
