import KanidmModel.Access.Search
import KanidmProofs.C02
/-
Helper lemmas for C23: the reference reading of a read grant (`MayRead`) and the closed forms of
the transcribed search access functions.
-/
namespace Kanidm.Access
open Kanidm.Filter
open Kanidm.Gen

/-! ### The reference model of the grant rules (what the property calls a read grant) -/

/-- The profile's receiver matches the identity (for this entry): the identity is a member of one
of the receiver groups, or — entry-manager receiver — the entry names the identity or one of its
groups as its manager. -/
def ReceiverMatches (id : Identity) (p : Profile) (e : DbEntry) : Prop :=
  match p.receiver with
  | .group gs => ∃ mo, id.memberOf = some mo ∧ ∃ g, g ∈ mo ∧ g ∈ gs
  | .entryManager =>
    ∃ m, m ∈ e.attrs Attr.EntryManagedBy ∧ (m = id.uuid ∨ ∃ mo, id.memberOf = some mo ∧ m ∈ mo)
  | .none => False

/-- The profile's target filter, read for this identity (`self` = its uuid), matches the entry. -/
def TargetMatches (id : Identity) (p : Profile) (e : DbEntry) : Prop :=
  match p.target with
  | .scope f => f.matches ValSem.std id.uuid Attr.Uuid e.attrs = true
  | .none => False

/-- An access control profile grants `a` on `e` to `id`. -/
def AcpGrants (acps : List SearchAcp) (id : Identity) (e : DbEntry) (a : Nat) : Prop :=
  ∃ acs, acs ∈ acps ∧ ReceiverMatches id acs.acp e ∧ TargetMatches id acs.acp e ∧ a ∈ acs.attrs

/-- Built-in rule: OAuth2 client visibility for (non-anonymous) users holding one of its scopes. -/
def OAuth2Grants (id : Identity) (ue e : DbEntry) (a : Nat) : Prop :=
  ue.uuid ≠ AccessSearch.uuidAnonymous ∧ AccessSearch.oauth2Class0 ∈ e.classes ∧
  (∃ mo, id.memberOf = some mo ∧ ∃ g, g ∈ e.attrs Attr.OAuth2RsScopeMap ∧ g ∈ mo) ∧
  a ∈ AccessSearch.oauth2Released

/-- Built-in rule: application visibility for (non-anonymous) members of its linked group. -/
def ApplicationGrants (id : Identity) (ue e : DbEntry) (a : Nat) : Prop :=
  ue.uuid ≠ AccessSearch.uuidAnonymous ∧ AccessSearch.applicationClass0 ∈ e.classes ∧
  (∃ g mo, e.attrs Attr.LinkedGroup = [g] ∧ id.memberOf = some mo ∧ g ∈ mo) ∧
  a ∈ AccessSearch.applicationReleased

/-- Built-in rule: a synchronised account sees the sync account it comes from. -/
def SyncAccountGrants (ue e : DbEntry) (a : Nat) : Prop :=
  AccessSearch.syncAccountClass0 ∈ ue.classes ∧ AccessSearch.syncAccountClass1 ∈ ue.classes ∧
  AccessSearch.syncAccountClass2 ∈ e.classes ∧ ue.attrs Attr.SyncParentUuid = [e.uuid] ∧
  a ∈ AccessSearch.syncAccountReleased

/-- `id` may read attribute `a` of entry `e`: it is a user identity whose scope is not
`Synchronise`, and an ACP or a built-in visibility rule whose receiver and target both match
covers `a`. -/
def MayRead (acps : List SearchAcp) (id : Identity) (e : DbEntry) (a : Nat) : Prop :=
  ∃ ue, id.origin = .user ue ∧ id.scope ≠ .synchronise ∧
    (AcpGrants acps id e a ∨ OAuth2Grants id ue e a ∨ ApplicationGrants id ue e a ∨
      SyncAccountGrants ue e a)

/-! ### Small list facts -/

theorem intersects_iff (a b : List Val) : intersects a b = true ↔ ∃ g, g ∈ a ∧ g ∈ b := by
  simp [intersects, List.any_eq_true]

theorem subset_iff (a b : List Nat) : subset a b = true ↔ ∀ x ∈ a, x ∈ b := by
  simp [subset, List.all_eq_true]

theorem mem_inter (a b : List Nat) (x : Nat) : x ∈ inter a b ↔ x ∈ a ∧ x ∈ b := by
  simp [inter, List.mem_filter]

/-! ### resolve_access_conditions and the per-entry conditions -/

theorem resolveFilter_matches (id : Identity) (f : FC) (t : F) (e : Entry)
    (h : FC.resolveNoIdx consts id.uuid f = some t) :
    t.matches ValSem.std e = f.matches ValSem.std id.uuid Attr.Uuid e :=
  resolveNoIdx_preserves ValSem.std e consts id.uuid f t h

theorem resolveFilter_total (id : Identity) (f : FC) : ∃ t, FC.resolveNoIdx consts id.uuid f = some t :=
  (resolve_total consts id.uuid (fun _ _ => none) f).2

/-- The entry-manager test is exactly "the entry names me or one of my groups as manager". -/
theorem entryManagerCheck_iff (id : Identity) (e : DbEntry) :
    entryManagerCheck id e = true ↔
      ∃ m, m ∈ e.attrs Attr.EntryManagedBy ∧ (m = id.uuid ∨ ∃ mo, id.memberOf = some mo ∧ m ∈ mo) := by
  unfold entryManagerCheck
  cases hmo : id.memberOf with
  | none =>
    by_cases hem : (e.attrs Attr.EntryManagedBy).isEmpty = true
    · simp [List.isEmpty_iff.mp hem]
    · simp [hem]
  | some mo =>
    by_cases hem : (e.attrs Attr.EntryManagedBy).isEmpty = true
    · simp [List.isEmpty_iff.mp hem]
    · simp [hem, intersects_iff]
      constructor
      · rintro (⟨g, hg1, hg2⟩ | h)
        · exact ⟨g, hg2, Or.inr hg1⟩
        · exact ⟨id.uuid, h, Or.inl rfl⟩
      · rintro ⟨m, hm, (rfl | h)⟩
        · exact Or.inr hm
        · exact Or.inl ⟨m, h, hm⟩

/-- A profile survives `resolve_access_conditions` and then passes the per-entry receiver and
target tests iff its receiver and target match in the reference sense. -/
theorem conditions_iff (id : Identity) (p : Profile) (e : DbEntry) :
    (∃ rc t, resolveAccessConditions id p = some (rc, t) ∧ rc.holds id e = true ∧
        t.matches ValSem.std e.attrs = true) ↔
      ReceiverMatches id p e ∧ TargetMatches id p e := by
  unfold resolveAccessConditions ReceiverMatches TargetMatches
  cases hr : p.receiver with
  | none => simp
  | entryManager =>
    cases ht : p.target with
    | none => simp
    | scope f =>
      obtain ⟨t0, ht0⟩ := resolveFilter_total id f
      simp only [ht0, Option.map_some, Option.some.injEq, Prod.mk.injEq]
      constructor
      · rintro ⟨rc, t, ⟨rfl, rfl⟩, h1, h2⟩
        refine ⟨(entryManagerCheck_iff id e).mp (by simpa [ReceiverCond.holds] using h1), ?_⟩
        rw [← resolveFilter_matches id f t0 e.attrs ht0]; exact h2
      · rintro ⟨h1, h2⟩
        refine ⟨.entryManager, t0, ⟨rfl, rfl⟩, ?_, ?_⟩
        · simpa [ReceiverCond.holds] using (entryManagerCheck_iff id e).mpr h1
        · rw [resolveFilter_matches id f t0 e.attrs ht0]; exact h2
  | group gs =>
    cases ht : p.target with
    | none =>
      cases hmo : id.memberOf <;> simp
      split <;> simp
    | scope f =>
      obtain ⟨t0, ht0⟩ := resolveFilter_total id f
      cases hmo : id.memberOf with
      | none => simp
      | some mo =>
        simp only [Option.map_some, Option.getD_some]
        by_cases hi : intersects mo gs = true
        · simp only [hi, if_true, ht0, Option.map_some, Option.some.injEq, Prod.mk.injEq]
          constructor
          · rintro ⟨rc, t, ⟨rfl, rfl⟩, _, h2⟩
            refine ⟨⟨mo, rfl, (intersects_iff mo gs).mp hi⟩, ?_⟩
            rw [← resolveFilter_matches id f t0 e.attrs ht0]; exact h2
          · rintro ⟨_, h2⟩
            refine ⟨.groupChecked, t0, ⟨rfl, rfl⟩, by simp [ReceiverCond.holds], ?_⟩
            rw [resolveFilter_matches id f t0 e.attrs ht0]; exact h2
        · have hi' : ¬ ∃ g, g ∈ mo ∧ g ∈ gs := fun h => hi ((intersects_iff mo gs).mpr h)
          simp [hi]
          intro g hg1 hg2
          exact absurd ⟨g, hg1, hg2⟩ hi'

/-! ### The ACP module -/

/-- Attributes released by the ACP module for the related set computed with request `req`. -/
def acpAllowed (id : Identity) (acps : List SearchAcp) (req : Option (List Nat)) (e : DbEntry) :
    List Nat :=
  ((searchRelatedAcp id acps req).filterMap (acpRelease id e)).flatten

theorem mem_acpAllowed (id : Identity) (acps : List SearchAcp) (req : Option (List Nat))
    (e : DbEntry) (a : Nat) :
    a ∈ acpAllowed id acps req e ↔
      ∃ acs, acs ∈ acps ∧ (∀ r, req = some r → AccessSearch.relatedKeeps acs.attrs r = true) ∧
        ReceiverMatches id acs.acp e ∧ TargetMatches id acs.acp e ∧ a ∈ acs.attrs := by
  unfold acpAllowed
  simp only [List.mem_flatten, List.mem_filterMap]
  constructor
  · rintro ⟨l, ⟨sr, hsr, hrel⟩, hal⟩
    have hsr' : ∃ acs, acs ∈ acps ∧ (∀ r, req = some r → AccessSearch.relatedKeeps acs.attrs r = true) ∧
        ∃ ct, resolveAccessConditions id acs.acp = some ct ∧ sr = ⟨acs.attrs, ct.1, ct.2⟩ := by
      unfold searchRelatedAcp at hsr
      cases req with
      | none =>
        simp only [List.mem_filterMap, Option.map_eq_some_iff] at hsr
        obtain ⟨acs, hacs, ct, hct, rfl⟩ := hsr
        exact ⟨acs, hacs, by simp, ct, hct, rfl⟩
      | some r =>
        simp only [List.mem_filter, List.mem_filterMap, Option.map_eq_some_iff] at hsr
        obtain ⟨⟨acs, hacs, ct, hct, rfl⟩, hk⟩ := hsr
        exact ⟨acs, hacs, by intro r' hr'; cases hr'; exact hk, ct, hct, rfl⟩
    obtain ⟨acs, hacs, hkeep, ct, hct, rfl⟩ := hsr'
    unfold acpRelease at hrel
    by_cases h1 : ct.1.holds id e = true
    · by_cases h2 : ct.2.matches ValSem.std e.attrs = true
      · simp [h1, h2] at hrel
        subst hrel
        have := (conditions_iff id acs.acp e).mp ⟨ct.1, ct.2, by simpa using hct, h1, h2⟩
        exact ⟨acs, hacs, hkeep, this.1, this.2, hal⟩
      · simp [h1, h2] at hrel
    · simp [h1] at hrel
  · rintro ⟨acs, hacs, hkeep, hr, ht, ha⟩
    obtain ⟨rc, t, hres, h1, h2⟩ := (conditions_iff id acs.acp e).mpr ⟨hr, ht⟩
    refine ⟨acs.attrs, ⟨⟨acs.attrs, rc, t⟩, ?_, ?_⟩, ha⟩
    · unfold searchRelatedAcp
      cases req with
      | none =>
        simp only [List.mem_filterMap, Option.map_eq_some_iff]
        exact ⟨acs, hacs, (rc, t), hres, rfl⟩
      | some r =>
        simp only [List.mem_filter, List.mem_filterMap, Option.map_eq_some_iff]
        exact ⟨⟨acs, hacs, (rc, t), hres, rfl⟩, hkeep r rfl⟩
    · simp [acpRelease, h1, h2]

/-! ### The combination -/

/-- `Allow` / `Ignore`: results that neither deny nor grant. -/
def SrchResult.soft : SrchResult → Bool
  | .allow _ | .ignore => true
  | _ => false

/-- The attributes a module result contributes. -/
def SrchResult.released : SrchResult → List Nat
  | .allow l => l
  | _ => []

def SrchResult.isDeny : SrchResult → Bool
  | .deny => true
  | _ => false

theorem foldl_step_denied (l : List SrchResult) (a : Acc) :
    (l.foldl Acc.step a).denied = (a.denied || l.any SrchResult.isDeny) := by
  induction l generalizing a with
  | nil => simp
  | cons x xs ih =>
    simp only [List.foldl_cons, List.any_cons, ih]
    cases x <;> simp [Acc.step, SrchResult.isDeny]

theorem apply_soft (r1 r2 r3 r4 : SrchResult) (h1 : r1.soft = true) (h2 : r2.soft = true)
    (h3 : r3.soft = true) (h4 : r4.soft = true) :
    (([r1, r2, r3, r4] : List SrchResult).foldl Acc.step ⟨false, false, []⟩).finish =
      .allow (r1.released ++ r2.released ++ r3.released ++ r4.released) := by
  cases r1 <;> cases r2 <;> cases r3 <;> cases r4 <;>
    simp_all [SrchResult.soft, SrchResult.released, Acc.step, Acc.finish]

theorem oauth2_soft (id : Identity) (e : DbEntry) : (searchOauth2FilterEntry id e).soft = true := by
  unfold searchOauth2FilterEntry
  split <;> (try rfl)
  split <;> (try rfl)
  dsimp only
  split <;> (split <;> rfl)

theorem applications_soft (id : Identity) (e : DbEntry) :
    (searchApplicationsFilterEntry id e).soft = true := by
  unfold searchApplicationsFilterEntry
  split <;> (try rfl)
  split <;> (try rfl)
  dsimp only
  split <;> (split <;> rfl)

theorem syncAccount_soft (id : Identity) (e : DbEntry) :
    (searchSyncAccountFilterEntry id e).soft = true := by
  unfold searchSyncAccountFilterEntry
  split <;> (try rfl)
  split <;> (try rfl)
  split <;> (dsimp only; split <;> (try rfl); split <;> (try rfl); (try dsimp only); (try (split <;> rfl)))

theorem searchFilterEntry_user (id : Identity) (ue : DbEntry) (related : List SearchResolved)
    (e : DbEntry) (ho : id.origin = .user ue) (hs : id.scope ≠ .synchronise) :
    searchFilterEntry id related e = .allow ((related.filterMap (acpRelease id e)).flatten) := by
  unfold searchFilterEntry
  rw [ho]
  cases hsc : id.scope <;> simp_all

/-- For a user whose scope is not `Synchronise` the decision is always `Allow`, of the union of
what the four modules release. -/
theorem apply_user (id : Identity) (ue : DbEntry) (acps : List SearchAcp) (req : Option (List Nat))
    (e : DbEntry) (ho : id.origin = .user ue) (hs : id.scope ≠ .synchronise) :
    applySearchAccess id (searchRelatedAcp id acps req) e =
      .allow (acpAllowed id acps req e ++ (searchOauth2FilterEntry id e).released ++
        (searchApplicationsFilterEntry id e).released ++
        (searchSyncAccountFilterEntry id e).released) := by
  unfold applySearchAccess moduleResults
  rw [apply_soft _ _ _ _ (by rw [searchFilterEntry_user id ue _ e ho hs]; rfl) (oauth2_soft id e)
    (applications_soft id e) (syncAccount_soft id e)]
  rw [searchFilterEntry_user id ue _ e ho hs]
  rfl

/-! ### The built-in rules, characterised -/

theorem mem_oauth2_released (id : Identity) (ue e : DbEntry) (a : Nat) (ho : id.origin = .user ue) :
    a ∈ (searchOauth2FilterEntry id e).released ↔ OAuth2Grants id ue e a := by
  unfold searchOauth2FilterEntry OAuth2Grants
  rw [ho]
  simp only [AccessSearch.oauth2ExcludesAnonymous, Bool.true_and]
  by_cases hanon : ue.uuid = AccessSearch.uuidAnonymous
  · simp [hanon, SrchResult.released]
  · have hne : (ue.uuid == AccessSearch.uuidAnonymous) = false := by simpa using hanon
    simp only [hne, Bool.false_eq_true, if_false]
    cases hmo : id.memberOf with
    | none => simp [SrchResult.released]
    | some mo =>
      by_cases hc : e.classes.contains AccessSearch.oauth2Class0 = true
      · by_cases hm : (e.attrs Attr.OAuth2RsScopeMap).any (fun k => mo.contains k) = true
        · simp only [hc, hm, Bool.and_self, if_true, SrchResult.released]
          have hc' : AccessSearch.oauth2Class0 ∈ e.classes := by simpa using hc
          have hm' : ∃ g, g ∈ e.attrs Attr.OAuth2RsScopeMap ∧ g ∈ mo := by
            simpa [List.any_eq_true] using hm
          constructor
          · intro ha; exact ⟨hanon, hc', ⟨mo, rfl, hm'⟩, ha⟩
          · intro h; exact h.2.2.2
        · simp only [hc, hm, Bool.and_false, Bool.false_eq_true, if_false, SrchResult.released]
          constructor
          · intro h; cases h
          · rintro ⟨_, _, ⟨mo', hmo', g, hg1, hg2⟩, _⟩
            cases hmo'
            exact absurd (by simpa [List.any_eq_true] using ⟨g, hg1, hg2⟩) hm
      · simp only [hc, Bool.false_and, Bool.false_eq_true, if_false, SrchResult.released]
        constructor
        · intro h; cases h
        · rintro ⟨_, h, _⟩; exact absurd (by simpa using h) hc

theorem mem_applications_released (id : Identity) (ue e : DbEntry) (a : Nat)
    (ho : id.origin = .user ue) :
    a ∈ (searchApplicationsFilterEntry id e).released ↔ ApplicationGrants id ue e a := by
  unfold searchApplicationsFilterEntry ApplicationGrants
  rw [ho]
  simp only [AccessSearch.applicationExcludesAnonymous, Bool.true_and]
  by_cases hanon : ue.uuid = AccessSearch.uuidAnonymous
  · simp [hanon, SrchResult.released]
  · have hne : (ue.uuid == AccessSearch.uuidAnonymous) = false := by simpa using hanon
    simp only [hne, Bool.false_eq_true, if_false]
    by_cases hc : e.classes.contains AccessSearch.applicationClass0 = true
    · have hc' : AccessSearch.applicationClass0 ∈ e.classes := by simpa using hc
      cases hl : e.attrs Attr.LinkedGroup with
      | nil => simp [SrchResult.released]
      | cons g rest =>
        cases rest with
        | cons g2 rest2 => simp [SrchResult.released]
        | nil =>
          cases hmo : id.memberOf with
          | none => simp [SrchResult.released]
          | some mo =>
            by_cases hg : mo.contains g = true
            · have hg' : g ∈ mo := by simpa using hg
              simp only [hc, Option.map_some, Option.getD_some, hg, Bool.and_self, if_true,
                SrchResult.released]
              constructor
              · intro ha; exact ⟨hanon, hc', ⟨g, mo, rfl, rfl, hg'⟩, ha⟩
              · intro h; exact h.2.2.2
            · simp only [hc, Option.map_some, Option.getD_some, hg, Bool.and_false,
                Bool.false_eq_true, if_false, SrchResult.released]
              constructor
              · intro h; cases h
              · rintro ⟨_, _, ⟨g', mo', hg1, hmo', hg2⟩, _⟩
                cases hmo'
                cases hg1
                exact absurd (by simpa using hg2) hg
    · simp only [hc, Bool.false_and, Bool.false_eq_true, if_false, SrchResult.released]
      constructor
      · intro h; cases h
      · rintro ⟨_, h, _⟩; exact absurd (by simpa using h) hc

theorem mem_syncAccount_released (id : Identity) (ue e : DbEntry) (a : Nat)
    (ho : id.origin = .user ue) :
    a ∈ (searchSyncAccountFilterEntry id e).released ↔ SyncAccountGrants ue e a := by
  unfold searchSyncAccountFilterEntry SyncAccountGrants
  rw [ho]
  simp only [AccessSearch.syncAccountExcludesAnonymous, Bool.false_and, Bool.false_eq_true, if_false]
  by_cases h0 : ue.classes.contains AccessSearch.syncAccountClass0 = true
  · by_cases h1 : ue.classes.contains AccessSearch.syncAccountClass1 = true
    · by_cases h2 : e.classes.contains AccessSearch.syncAccountClass2 = true
      · have h0' : AccessSearch.syncAccountClass0 ∈ ue.classes := by simpa using h0
        have h1' : AccessSearch.syncAccountClass1 ∈ ue.classes := by simpa using h1
        have h2' : AccessSearch.syncAccountClass2 ∈ e.classes := by simpa using h2
        simp only [h0, h1, h2, Bool.and_self, if_true]
        cases hp : ue.attrs Attr.SyncParentUuid with
        | nil => simp [SrchResult.released]
        | cons p rest =>
          cases rest with
          | cons p2 rest2 => simp [SrchResult.released]
          | nil =>
            by_cases hpe : p = e.uuid
            · subst hpe
              simp only [beq_self_eq_true, if_true, SrchResult.released]
              constructor
              · intro ha; exact ⟨h0', h1', h2', by simp, ha⟩
              · intro h; exact h.2.2.2.2
            · have : (p == e.uuid) = false := by simpa using hpe
              simp only [this, Bool.false_eq_true, if_false, SrchResult.released]
              constructor
              · intro h; cases h
              · rintro ⟨_, _, _, h, _⟩
                simp at h
                exact absurd h hpe
      · simp only [h0, h1, h2, Bool.and_self, if_true, Bool.false_eq_true, if_false,
          SrchResult.released]
        constructor
        · intro h; cases h
        · rintro ⟨_, _, h, _⟩; exact absurd (by simpa using h) h2
    · simp only [h0, h1, Bool.and_false, Bool.false_eq_true, if_false, SrchResult.released]
      constructor
      · intro h; cases h
      · rintro ⟨_, h, _⟩; exact absurd (by simpa using h) h1
  · simp only [h0, Bool.false_and, Bool.false_eq_true, if_false, SrchResult.released]
    constructor
    · intro h; cases h
    · rintro ⟨h, _⟩; exact absurd (by simpa using h) h0

end Kanidm.Access
