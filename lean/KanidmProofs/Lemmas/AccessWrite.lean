import KanidmModel.Access.Write
import KanidmProofs.C02
/-
Helper lemmas for C24 (write access). No Mathlib.
-/
namespace Kanidm.Access.Write
open Kanidm.Filter
open Kanidm.Gen.Access

/-! ### sets as lists -/

theorem subset_iff (a b : List Nat) : subset a b = true ↔ ∀ x ∈ a, x ∈ b := by
  simp [subset, List.all_eq_true]

theorem disjoint_iff (a b : List Nat) : disjoint a b = true ↔ ∀ x ∈ a, x ∉ b := by
  simp [disjoint, List.all_eq_true]

theorem not_disjoint_of_mem {a b : List Nat} {x : Nat} (ha : x ∈ a) (hb : x ∈ b) :
    disjoint a b = false := by
  cases h : disjoint a b with
  | false => rfl
  | true => exact absurd hb ((disjoint_iff a b).mp h x ha)

theorem mem_inter (a b : List Nat) (x : Nat) : x ∈ inter a b ↔ x ∈ a ∧ x ∈ b := by
  simp [inter, List.mem_filter]

theorem mem_minus (a b : List Nat) (x : Nat) : x ∈ minus a b ↔ x ∈ a ∧ x ∉ b := by
  simp [minus, List.mem_filter]

theorem intersects_iff (a b : List Nat) : intersects a b = true ↔ ∃ g, g ∈ a ∧ g ∈ b := by
  simp [intersects, List.any_eq_true]

theorem mem_constrainWith {c a : List Nat} {x : Nat} (h : x ∈ constrainWith c a) : x ∈ a := by
  unfold constrainWith at h
  split at h
  · exact ((mem_inter c a x).mp h).2
  · exact h

theorem mem_constrainWith_con {c a : List Nat} {x : Nat} (hc : c ≠ [])
    (h : x ∈ constrainWith c a) : x ∈ c := by
  unfold constrainWith at h
  have : (!c.isEmpty) = true := by
    cases c with
    | nil => exact absurd rfl hc
    | cons _ _ => rfl
  rw [if_pos this] at h
  exact ((mem_inter c a x).mp h).1

/-! ### identities -/

/-- The identity is a user account (of any scope). -/
def IsUser (id : Ident) : Prop := ∃ u mo, id.origin = .user u mo

/-- The identity is a synchronisation agreement. -/
def IsSynch (id : Ident) : Prop := ∃ u, id.origin = .synch u

theorem user_code {id : Ident} (h : IsUser id) : id.origin.code = 5 := by
  obtain ⟨u, mo, h⟩ := h
  simp [h, Origin.code]

theorem synch_code {id : Ident} (h : IsSynch id) : id.origin.code = 4 := by
  obtain ⟨u, h⟩ := h
  simp [h, Origin.code]

/-! ### resolve_access_conditions -/

/-- The receiver of a profile matches the identity (and, for entry managers, the entry). -/
def ReceiverMatches (id : Ident) (p : Profile) (managedBy : Option (List Nat)) : Prop :=
  match p.receiver with
  | .group gs => ∃ mo, id.memberof = some mo ∧ ∃ g, g ∈ mo ∧ g ∈ gs
  | .entryManager =>
    ∃ ems, managedBy = some ems ∧
      ((∃ mo, id.memberof = some mo ∧ ∃ g, g ∈ mo ∧ g ∈ ems) ∨ id.uuid ∈ ems)
  | .none => False

/-- The target of a profile matches the entry: the *unresolved* scope filter, read with
`SelfUuid` = "the entry is the caller", holds on the entry. -/
def TargetMatches (id : Ident) (p : Profile) (fe : Filter.Entry) : Prop :=
  ∃ f, p.target = some f ∧ f.matches ValSem.std (.num id.uuid) A.Uuid fe = true

/-- An access control profile matches this identity and this entry. -/
def ProfileMatches (id : Ident) (p : Profile) (managedBy : Option (List Nat))
    (fe : Filter.Entry) : Prop :=
  ReceiverMatches id p managedBy ∧ TargetMatches id p fe

theorem entryManagerCheck_iff (id : Ident) (mb : Option (List Nat)) :
    entryManagerCheck id mb = true ↔
      ∃ ems, mb = some ems ∧
        ((∃ mo, id.memberof = some mo ∧ ∃ g, g ∈ mo ∧ g ∈ ems) ∨ id.uuid ∈ ems) := by
  unfold entryManagerCheck
  cases mb with
  | none => simp
  | some ems =>
    cases hmo : id.memberof with
    | none => simp
    | some mo => simp [intersects_iff]

theorem resolve_spec {id : Ident} {p : Profile} {rc : RCond} {t : F}
    (h : resolveAccessConditions id p = some (rc, t)) :
    (∃ f, p.target = some f ∧ FC.resolveNoIdx attrConsts (.num id.uuid) f = some t) ∧
    ((rc = .groupChecked ∧ ∃ gs, p.receiver = .group gs ∧
        ∃ mo, id.memberof = some mo ∧ ∃ g, g ∈ mo ∧ g ∈ gs)
      ∨ (rc = .entryManager ∧ p.receiver = .entryManager)) := by
  unfold resolveAccessConditions at h
  cases hr : p.receiver with
  | none => simp [hr] at h
  | entryManager =>
    simp only [hr] at h
    cases ht : p.target with
    | none => simp [ht] at h
    | some f =>
      simp only [ht, Option.map_eq_some_iff] at h
      obtain ⟨t', ht', heq⟩ := h
      cases heq
      exact ⟨⟨f, rfl, ht'⟩, Or.inr ⟨rfl, rfl⟩⟩
  | group gs =>
    simp only [hr] at h
    cases hmo : id.memberof with
    | none => simp [hmo] at h
    | some mo =>
      simp only [hmo, Option.map_some, Option.getD_some] at h
      by_cases hi : intersects mo gs = true
      · simp only [hi, if_true] at h
        cases ht : p.target with
        | none => simp [ht] at h
        | some f =>
          simp only [ht, Option.map_eq_some_iff] at h
          obtain ⟨t', ht', heq⟩ := h
          cases heq
          obtain ⟨g, hg1, hg2⟩ := (intersects_iff mo gs).mp hi
          exact ⟨⟨f, rfl, ht'⟩, Or.inl ⟨rfl, gs, rfl, mo, rfl, g, hg1, hg2⟩⟩
      · simp [hi] at h

theorem mem_related {α : Type} {prof : α → Profile} {id : Ident} {acps : List α}
    {r : Resolved α} (h : r ∈ related prof id acps) :
    r.acp ∈ acps ∧ resolveAccessConditions id (prof r.acp) = some (r.rcond, r.target) := by
  unfold related at h
  rw [List.mem_filterMap] at h
  obtain ⟨a, ha, hm⟩ := h
  rw [Option.map_eq_some_iff] at hm
  obtain ⟨c, hc, hr⟩ := hm
  subst hr
  exact ⟨ha, by simpa using hc⟩

/-- A related profile whose per-entry conditions hold matches identity and entry. -/
theorem scoped_matches {α : Type} {prof : α → Profile} {id : Ident} {acps : List α}
    {r : Resolved α} (hrel : r ∈ related prof id acps) (mb : Option (List Nat))
    (fe : Filter.Entry)
    (hrc : (match r.rcond with
            | .groupChecked => true
            | .entryManager => entryManagerCheck id mb) = true)
    (ht : targetMatches r.target fe = true) :
    r.acp ∈ acps ∧ ProfileMatches id (prof r.acp) mb fe := by
  obtain ⟨hmem, hres⟩ := mem_related hrel
  obtain ⟨⟨f, hf, hresf⟩, hrcv⟩ := resolve_spec hres
  refine ⟨hmem, ?_, ⟨f, hf, ?_⟩⟩
  · unfold ReceiverMatches
    rcases hrcv with ⟨hg, gs, hgs, mo, hmo, g, hg1, hg2⟩ | ⟨hm, hrm⟩
    · rw [hgs]; exact ⟨mo, hmo, g, hg1, hg2⟩
    · rw [hrm]
      rw [hm] at hrc
      exact (entryManagerCheck_iff id mb).mp hrc
  · have := resolveNoIdx_preserves ValSem.std fe attrConsts (.num id.uuid) f r.target hresf
    unfold targetMatches at ht
    rw [this] at ht
    exact ht


/-! ### modify: the modules for a user identity -/

theorem scope_denied_of_not_rw (s : Scope) (h : s ≠ .readWrite) :
    modifyScopeDenied s.code = true ∧ createScopeDenied s.code = true ∧
      deleteScopeDenied s.code = true := by
  cases s with
  | readWrite => exact absurd rfl h
  | readOnly => exact ⟨rfl, rfl, rfl⟩
  | synchronise => exact ⟨rfl, rfl, rfl⟩

theorem modifyIdentTest_user {id : Ident} (hu : IsUser id) :
    modifyIdentTest id = if modifyScopeDenied id.scope.code then .deny else .ignore := by
  simp [modifyIdentTest, user_code hu, modifyOriginGate]

theorem modifyIdentTest_synch {id : Ident} (hs : IsSynch id) : modifyIdentTest id = .deny := by
  simp [modifyIdentTest, synch_code hs, modifyOriginGate]

theorem modifyMigration_user {id : Ident} (hu : IsUser id) (e : Ent) :
    modifyMigrationAttrs id e = .ignore := by
  obtain ⟨u, mo, h⟩ := hu
  simp [modifyMigrationAttrs, h]

theorem protectedEntry_shape (classes : List Nat) :
    modifyProtectedEntryAttrs classes = .deny ∨
      (protectedOpenAttrs classes ≠ [] ∧ disjoint classes lockedEntryClasses = true ∧
        modifyProtectedEntryAttrs classes =
          .constrain (protectedOpenAttrs classes) (protectedOpenAttrs classes) none none) := by
  unfold modifyProtectedEntryAttrs
  by_cases hl : disjoint classes lockedEntryClasses = true
  · by_cases he : (protectedOpenAttrs classes).isEmpty = true
    · left; simp [hl, he]
    · right
      refine ⟨?_, hl, by simp [hl, he]⟩
      intro h; rw [h] at he; exact he rfl
  · left
    simp [hl]

theorem modifyProtected_shape (id : Ident) (e : Ent) :
    modifyProtectedAttrs id e = .deny ∨ modifyProtectedAttrs id e = .ignore ∨
      ∃ c, c ≠ [] ∧ modifyProtectedAttrs id e = .constrain c c none none := by
  unfold modifyProtectedAttrs
  split
  · exact Or.inr (Or.inl rfl)
  · exact Or.inr (Or.inl rfl)
  · split
    · rename_i classes _
      split
      · exact Or.inr (Or.inl rfl)
      · rcases protectedEntry_shape classes with h | ⟨h1, _, h2⟩
        · exact Or.inl h
        · exact Or.inr (Or.inr ⟨_, h1, h2⟩)
    · exact Or.inr (Or.inl rfl)

theorem modifySync_shape (id : Ident) (e : Ent) (ag : List (Nat × List Nat)) :
    modifySyncConstrain id e ag = .deny ∨ modifySyncConstrain id e ag = .ignore ∨
      ∃ c, modifySyncConstrain id e ag = .constrain c c none none := by
  unfold modifySyncConstrain
  split
  · exact Or.inr (Or.inl rfl)
  · exact Or.inr (Or.inl rfl)
  · simp only []
    split
    · exact Or.inr (Or.inl rfl)
    · split
      · exact Or.inr (Or.inr ⟨_, rfl⟩)
      · exact Or.inl rfl

/-- The profiles that apply to this identity and entry. -/
def scopedModify (id : Ident) (rel : List (Resolved AcpModify)) (e : Ent) : List AcpModify :=
  (rel.filter (modifyScoped id e)).map (·.acp)

/-- the present/remove constraint a module result contributes -/
def conOf : ModRes → List Nat
  | .constrain p _ _ _ => p
  | _ => []

/-- For a read-write user, if neither the protected module nor the sync module denies, the answer
of `apply_modify_access` is this `Allow`. -/
theorem applyModify_user_eq {id : Ident} (hu : IsUser id) (hsc : id.scope = .readWrite)
    (rel : List (Resolved AcpModify)) (ag : List (Nat × List Nat)) (e : Ent)
    (hp : modifyProtectedAttrs id e ≠ .deny) (hs : modifySyncConstrain id e ag ≠ .deny) :
    applyModifyAccess id rel ag e = .allow
      { pres := constrainWith (conOf (modifyProtectedAttrs id e) ++ conOf (modifySyncConstrain id e ag))
          ((scopedModify id rel e).flatMap (·.presAttrs))
        rem := constrainWith (conOf (modifyProtectedAttrs id e) ++ conOf (modifySyncConstrain id e ag))
          ((scopedModify id rel e).flatMap (·.remAttrs))
        presCls := minus ((scopedModify id rel e).flatMap (·.presClasses)) modifyStripPres
        remCls := minus ((scopedModify id rel e).flatMap (·.remClasses)) modifyStripRem } := by
  have hnd : modifyScopeDenied id.scope.code = false := by rw [hsc]; rfl
  have hident : modifyIdentTest id = .ignore := by rw [modifyIdentTest_user hu, hnd]; rfl
  have hmig := modifyMigration_user hu e
  rcases modifyProtected_shape id e with hp' | hp' | ⟨c, _, hp'⟩
  · exact absurd hp' hp
  · rcases modifySync_shape id e ag with hs' | hs' | ⟨s, hs'⟩
    · exact absurd hs' hs
    · simp [applyModifyAccess, hident, hmig, hp', hs', conOf, scopedModify, constrainWith]
    · simp [applyModifyAccess, hident, hmig, hp', hs', conOf, scopedModify, constrainWith]
  · rcases modifySync_shape id e ag with hs' | hs' | ⟨s, hs'⟩
    · exact absurd hs' hs
    · simp [applyModifyAccess, hident, hmig, hp', hs', conOf, scopedModify, constrainWith]
    · simp [applyModifyAccess, hident, hmig, hp', hs', conOf, scopedModify, constrainWith]

/-- What `apply_modify_access` can answer for a user: never `Grant`; an `Allow` only for a
read-write scope, and every allowed attribute / class comes from a profile that applies. -/
theorem applyModify_user {id : Ident} (hu : IsUser id) (rel : List (Resolved AcpModify))
    (ag : List (Nat × List Nat)) (e : Ent) :
    applyModifyAccess id rel ag e = .deny ∨
    ∃ a, applyModifyAccess id rel ag e = .allow a ∧ id.scope = .readWrite ∧
      (∀ x, x ∈ a.pres → ∃ p, p ∈ scopedModify id rel e ∧ x ∈ p.presAttrs) ∧
      (∀ x, x ∈ a.rem → ∃ p, p ∈ scopedModify id rel e ∧ x ∈ p.remAttrs) ∧
      (∀ x, x ∈ a.presCls → x ∉ modifyStripPres ∧ ∃ p, p ∈ scopedModify id rel e ∧ x ∈ p.presClasses) ∧
      (∀ x, x ∈ a.remCls → x ∉ modifyStripRem ∧ ∃ p, p ∈ scopedModify id rel e ∧ x ∈ p.remClasses) ∧
      modifyProtectedAttrs id e ≠ .deny ∧
      (∀ c, modifyProtectedAttrs id e = .constrain c c none none →
        (∀ x, x ∈ a.pres → x ∈ c ∨ x ∈ conOf (modifySyncConstrain id e ag)) ∧
        (∀ x, x ∈ a.rem → x ∈ c ∨ x ∈ conOf (modifySyncConstrain id e ag))) := by
  have hnd' : ∀ h : id.scope ≠ .readWrite, applyModifyAccess id rel ag e = .deny := by
    intro h
    have hd := (scope_denied_of_not_rw id.scope h).1
    simp [applyModifyAccess, modifyIdentTest_user hu, hd]
  by_cases hsc : id.scope = .readWrite
  case neg => exact Or.inl (hnd' hsc)
  case pos =>
    have hnd : modifyScopeDenied id.scope.code = false := by rw [hsc]; rfl
    have hident : modifyIdentTest id = .ignore := by rw [modifyIdentTest_user hu, hnd]; rfl
    have hmig := modifyMigration_user hu e
    by_cases hp : modifyProtectedAttrs id e = .deny
    · left; simp [applyModifyAccess, hident, hmig, hp]
    by_cases hs : modifySyncConstrain id e ag = .deny
    · left
      rcases modifyProtected_shape id e with hp' | hp' | ⟨c, _, hp'⟩
      · exact absurd hp' hp
      · simp [applyModifyAccess, hident, hmig, hp', hs]
      · simp [applyModifyAccess, hident, hmig, hp', hs]
    right
    refine ⟨_, applyModify_user_eq hu hsc rel ag e hp hs, hsc, ?_, ?_, ?_, ?_, hp, ?_⟩
    · intro x hx
      have := mem_constrainWith hx
      rw [List.mem_flatMap] at this
      exact this
    · intro x hx
      have := mem_constrainWith hx
      rw [List.mem_flatMap] at this
      exact this
    · intro x hx
      obtain ⟨h1, h2⟩ := (mem_minus _ _ _).mp hx
      rw [List.mem_flatMap] at h1
      exact ⟨h2, h1⟩
    · intro x hx
      obtain ⟨h1, h2⟩ := (mem_minus _ _ _).mp hx
      rw [List.mem_flatMap] at h1
      exact ⟨h2, h1⟩
    · intro c hc
      rcases modifyProtected_shape id e with hp' | hp' | ⟨c', hc', hp'⟩
      · exact absurd hp' hp
      · rw [hp'] at hc; cases hc
      · rw [hp'] at hc
        injection hc with h1 _ _ _
        subst h1
        have hne : conOf (modifyProtectedAttrs id e) ++ conOf (modifySyncConstrain id e ag) ≠ [] := by
          intro h
          have := (List.append_eq_nil_iff.mp h).1
          rw [hp'] at this
          exact hc' this
        constructor
        · intro x hx
          have := mem_constrainWith_con hne hx
          rw [hp'] at this
          exact List.mem_append.mp this
        · intro x hx
          have := mem_constrainWith_con hne hx
          rw [hp'] at this
          exact List.mem_append.mp this

end Kanidm.Access.Write
