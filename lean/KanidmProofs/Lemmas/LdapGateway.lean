import KanidmModel.LdapGateway
/-!
Helper lemmas for C40 (the LDAP gateway).  Facts about the generated tables are proved by
exhaustive case analysis of the finite enumerations, so an edit of the source that changes a
table re-runs them on the new table.
-/
deriving instance DecidableEq for Except

namespace Kanidm.Ldap
open Kanidm.Ldap.Gen

/-- Every transaction a handler reachable from `do_op` opens is a read transaction. -/
theorem handler_txns_read (h : Handler) (t : TxnCtor) (ht : t ∈ handlerTxns h) : txnQs t = .read := by
  cases h <;> simp [handlerTxns] at ht <;> subst ht <;> rfl

theorem commitTxn_read {DB Mod : Type} (apply : DB → Mod → DB) (db : DB) (mods : List Mod) :
    commitTxn apply db .read mods = db := rfl

theorem foldl_const {α β : Type} (f : α → β → α) (l : List β) (a : α)
    (h : ∀ a b, b ∈ l → f a b = a) : l.foldl f a = a := by
  induction l generalizing a with
  | nil => rfl
  | cons x xs ih =>
    simp only [List.foldl_cons]
    rw [h a x (List.mem_cons_self ..)]
    exact ih a (fun a b hb => h a b (List.mem_cons_of_mem _ hb))

theorem runHandler_id {DB Mod : Type} (apply : DB → Mod → DB) (beh : Behaviour DB Mod) (w : World)
    (m : Msg) (db : DB) (h : Handler) : runHandler apply beh w m db h = db := by
  unfold runHandler
  apply foldl_const
  intro a t ht
  rw [handler_txns_read h t ht]
  rfl

/-- The token of an outcome is stored exactly when the wire layer's arm for its response state
stores one; other states leave the session alone. -/
theorem step_session (c : Conn) (w : World) (m : Msg) :
    (c.step w m).1.session =
      (match (c.step w m).2.1.token with | some t => some t | none => c.session) := by
  unfold Conn.step
  generalize handleRequest w c.session m = r
  obtain ⟨o, d⟩ := r
  cases o <;> simp [Outcome.kind, Outcome.token, respEffect]
  all_goals (rename_i i; cases i <;> simp [Outcome.kind, respEffect])

theorem step_closed (c : Conn) (w : World) (m : Msg) :
    (c.step w m).1.closed = (respEffect (c.step w m).2.1.kind).2 := by
  unfold Conn.step
  generalize handleRequest w c.session m = r
  obtain ⟨o, d⟩ := r
  rfl

theorem acct_uuid {w : World} {u : Nat} {a : Acct} (h : w.acct u = some a) : a.uuid = u := by
  unfold World.acct at h
  have := List.find?_some h
  simpa using this

@[simp] theorem mkSession_anonymous (w : World) (a : Nat) (t : Option TokenInfo) :
    mkSession .anonymous w a t = .unixBind w.anonymous := by
  simp [mkSession, bindSession, bindSessionIsAnonymousConst]
@[simp] theorem mkSession_unix (w : World) (a : Nat) (t : Option TokenInfo) :
    mkSession .unix w a t = .unixBind a := by
  simp [mkSession, bindSession, bindSessionIsAnonymousConst]
@[simp] theorem mkSession_application (w : World) (a : Nat) (t : Option TokenInfo) :
    mkSession .application w a t = .unixBind a := by
  simp [mkSession, bindSession, bindSessionIsAnonymousConst]
@[simp] theorem mkSession_uat (w : World) (x a s : Nat) (e : Option Nat) (pu : UatPurpose) :
    mkSession .tokenUat w x (some (.uat a s e pu)) = .userAuthToken a s e pu := by
  simp [mkSession, bindSession]
@[simp] theorem mkSession_apit (w : World) (x a t i : Nat) (e : Option Nat) (pu : ApiPurpose) :
    mkSession .tokenApi w x (some (.apit a t i e pu)) = .apiToken a t i e pu := by
  simp [mkSession, bindSession]

theorem authWithUnixPass_some {w : World} {id pw : Nat} {sl : Bool} {a : Acct} {up : Bool}
    (h : authWithUnixPass w id pw sl = (.ok (some a), up)) :
    w.acct id = some a ∧ a.isAccount = true ∧ a.withinValidTime w.ct = true ∧ a.unixPw = some pw ∧
      sl = false ∧ up = a.unixNeedsUpgrade := by
  unfold authWithUnixPass at h
  split at h
  · simp at h
  · rename_i a' ha
    split at h
    · simp at h
    · split at h
      · simp at h
      · split at h
        · simp at h
        · rename_i good hg
          split at h
          · simp at h
          · split at h
            · simp at h
            · simp at h
              obtain ⟨h1, h2⟩ := h
              subst h1
              simp_all

/-- What a successful `auth_ldap` means. -/
theorem authLdap_ok {w : World} {target pw : Nat} {sl : Bool} {t : Token}
    (h : (authLdap w target pw sl).res = .ok (some t)) :
    (target = w.anonymous ∧ ∃ a, w.acct target = some a ∧ a.withinValidTime w.ct = true ∧
        t = ⟨target, .unixBind w.anonymous⟩ ∧ (authLdap w target pw sl).delayed = []) ∨
    (target ≠ w.anonymous ∧ w.allowUnixPwBind = true ∧ ∃ a, w.acct target = some a ∧
        a.isAccount = true ∧ a.withinValidTime w.ct = true ∧ a.unixPw = some pw ∧ sl = false ∧
        t = ⟨target, .unixBind target⟩ ∧
        (authLdap w target pw sl).delayed = if a.unixNeedsUpgrade then [(.unixPwUpgrade, target, pw)] else []) := by
  unfold authLdap at h ⊢
  simp only [anonymousTestIsUuidEq, Bool.true_and] at h ⊢
  by_cases ht : target = w.anonymous
  · left
    subst ht
    refine ⟨rfl, ?_⟩
    simp only [beq_self_eq_true, if_true] at h ⊢
    split at h
    · simp at h
    · rename_i a ha
      split at h
      · simp at h
      · split at h
        · simp at h
        · simp at h
          have := acct_uuid ha
          refine ⟨a, ha, by simp_all, ?_, by simp_all⟩
          rw [← h, this]
  · right
    have hne : (target == w.anonymous) = false := by simpa using ht
    simp only [hne] at h ⊢
    refine ⟨ht, ?_⟩
    by_cases hf : w.allowUnixPwBind = true
    · refine ⟨hf, ?_⟩
      simp only [unixFlagGuard, hf, Bool.not_true, Bool.and_false] at h ⊢
      simp only [Bool.false_eq_true, if_false] at h ⊢
      split at h
      · simp at h
      · simp at h
      · rename_i a up hu
        obtain ⟨h1, h2, h3, h4, h5, h6⟩ := authWithUnixPass_some hu
        have := acct_uuid h1
        simp at h
        refine ⟨a, h1, h2, h3, h4, h5, ?_, ?_⟩
        · rw [← h, this]
        · simp [h6, this]
    · simp [unixFlagGuard, hf] at h

/-- With the flag off no non-anonymous account binds with a password. -/
theorem authLdap_flag_off {w : World} {target pw : Nat} {sl : Bool}
    (hf : w.allowUnixPwBind = false) (ht : target ≠ w.anonymous) :
    (authLdap w target pw sl).res = .ok none ∧ (authLdap w target pw sl).delayed = [] := by
  have hne : (target == w.anonymous) = false := by simpa using ht
  simp [authLdap, anonymousTestIsUuidEq, hne, unixFlagGuard, hf]

theorem tokenGate_delayed (r : Except Err Ident) (t : Token) : (tokenGate r t).delayed = [] := by
  cases r <;> rfl

theorem tokenGate_ok {r : Except Err Ident} {t t' : Token} (h : (tokenGate r t).res = .ok (some t')) :
    t' = t ∧ ∃ id, r = .ok id := by
  cases r with
  | error e => simp [tokenGate] at h
  | ok id => simp [tokenGate] at h; exact ⟨h.symm, id, rfl⟩

theorem not_uatExpired {w : World} {e : Option Nat} (h : uatExpired w e = false) :
    ∀ x, e = some x → w.ct < x := by
  intro x hx; subst hx; simp [uatExpired] at h; omega

theorem not_apitExpired {w : World} {e : Option Nat} (h : apitExpired w e = false) :
    ∀ x, e = some x → w.ct < x := by
  intro x hx; subst hx; simp [apitExpired] at h; omega

theorem tokenAuthLdap_delayed (w : World) (pw : Nat) : (tokenAuthLdap w pw).delayed = [] := by
  unfold tokenAuthLdap
  repeat' split
  all_goals first | rfl | exact tokenGate_delayed _ _

theorem applicationAuthLdap_delayed (w : World) (n : List Char) (u pw : Nat) :
    (applicationAuthLdap w n u pw).delayed = [] := by
  unfold applicationAuthLdap
  split
  · rfl
  · split <;> rfl

/-- What a successful `token_auth_ldap` means: the secret verifies as a token of the domain, is
not expired, the identity builder of its kind accepts it now (account window, stored session),
and the session carries exactly that token. -/
theorem tokenAuthLdap_ok {w : World} {pw : Nat} {t : Token}
    (h : (tokenAuthLdap w pw).res = .ok (some t)) :
    ((∃ a s e pu, lookup pw w.tokens = some (.uat a s e pu) ∧ t = ⟨a, .userAuthToken a s e pu⟩ ∧
        (∀ x, e = some x → w.ct < x) ∧ ∃ id, processUat w a s pu = .ok id) ∨
     (∃ a ti i e pu, lookup pw w.tokens = some (.apit a ti i e pu) ∧ t = ⟨a, .apiToken a ti i e pu⟩ ∧
        (∀ x, e = some x → w.ct < x) ∧ (w.acct a).isSome = true ∧
        ∃ id, processApit w a ti i pu = .ok id)) := by
  unfold tokenAuthLdap at h
  cases hl : lookup pw w.tokens with
  | none => simp [hl] at h
  | some info =>
    cases info with
    | uat a s e pu =>
      simp only [hl, tokenBindValidatesUat, if_true] at h
      cases he : uatExpired w e with
      | true => simp [he] at h
      | false =>
        simp only [he, Bool.false_eq_true, if_false] at h
        obtain ⟨h1, id, h2⟩ := tokenGate_ok h
        rw [mkSession_uat] at h1
        exact Or.inl ⟨a, s, e, pu, rfl, h1, not_uatExpired he, id, h2⟩
    | apit a ti i e pu =>
      simp only [hl, tokenBindValidatesApit, if_true] at h
      cases he : apitExpired w e with
      | true => simp [he] at h
      | false =>
        simp only [he, Bool.false_eq_true, if_false] at h
        cases hacc : w.acct a with
        | none => simp [hacc] at h
        | some acc =>
          simp only [hacc] at h
          obtain ⟨h1, id, h2⟩ := tokenGate_ok h
          rw [mkSession_apit] at h1
          exact Or.inr ⟨a, ti, i, e, pu, rfl, h1, not_apitExpired he, by simp [hacc], id, h2⟩

/-- What a successful `application_auth_ldap` means. -/
theorem applicationAuthLdap_ok {w : World} {appName : List Char} {usr pw : Nat} {t : Token}
    (h : (applicationAuthLdap w appName usr pw).res = .ok (some t)) :
    ∃ a app, w.acct usr = some a ∧ a.isAccount = true ∧ usr ≠ w.anonymous ∧
      a.withinValidTime w.ct = true ∧ w.apps.find? (·.name == appName) = some app ∧
      a.memberOf.contains app.linkedGroup = true ∧
      a.appPws.any (fun p => p.1 == app.uuid && p.2 == pw) = true ∧
      t = ⟨usr, .unixBind usr⟩ := by
  unfold applicationAuthLdap at h
  split at h
  · simp at h
  · rename_i a ha
    have hu := acct_uuid ha
    split at h
    · simp at h
    · rename_i hacc
      refine ⟨a, ?_⟩
      simp only [appBindChecks, runAppChecks, appCheck, appMemberOfReadsLinkedGroup] at h
      cases happ : w.apps.find? (·.name == appName) with
      | none =>
        simp only [happ] at h
        by_cases h1 : a.uuid == w.anonymous
        · simp [h1] at h
        · by_cases h2 : a.withinValidTime w.ct <;> simp [h1, h2] at h
      | some app =>
        simp only [happ] at h
        by_cases h1 : a.uuid == w.anonymous
        · simp [h1] at h
        · by_cases h2 : a.withinValidTime w.ct
          · by_cases h3 : a.memberOf.contains app.linkedGroup
            · have h3' : app.linkedGroup ∈ a.memberOf := by simpa using h3
              by_cases h4 : a.appPws.any (fun p => p.1 == app.uuid && p.2 == pw)
              · simp [h1, h2, h3', h4] at h
                refine ⟨app, ha, by simpa using hacc, ?_, h2, rfl, h3, h4, ?_⟩
                · intro he; rw [hu] at h1; simp [he] at h1
                · rw [← h, hu]
              · simp [h1, h2, h3', h4] at h
            · have h3' : ¬ app.linkedGroup ∈ a.memberOf := by simpa using h3
              simp [h1, h2, h3'] at h
          · simp [h1, h2] at h

/-- `process_ldap_uuid_to_identity` only ever yields the anonymous entry, read-only, and only
while the bound account still exists and is inside its validity window. -/
theorem processLdapUuid_ok {w : World} {u : Nat} {id : Ident} (h : processLdapUuid w u = .ok id) :
    id = ⟨w.anonymous, .readOnly⟩ ∧ ∃ a, w.acct u = some a ∧ a.isAccount = true ∧
      a.withinValidTime w.ct = true := by
  unfold processLdapUuid at h
  cases ha : w.acct u with
  | none => simp [ha] at h
  | some a =>
    simp only [ha, ldapUuidChecksValidity, ldapUuidEntryAnonymous, ldapUuidScope, Bool.true_and, if_true] at h
    by_cases h1 : a.isAccount
    · by_cases h2 : a.withinValidTime w.ct
      · simp only [h1, h2, Bool.not_true, Bool.false_eq_true, if_false] at h
        refine ⟨?_, a, rfl, h1, h2⟩
        by_cases h3 : u == w.anonymous
        · simp only [h3, if_true] at h
          have : u = w.anonymous := by simpa using h3
          cases h; rw [this]
        · simp only [h3] at h
          cases hb : w.acct w.anonymous with
          | none => simp [hb] at h
          | some b => simp [hb] at h; exact h.symm
      · simp [h1, h2] at h
    · simp [h1] at h

theorem validate_unixBind (w : World) (u : Nat) :
    validateLdapSession w (.unixBind u) = processLdapUuid w u := by
  simp [validateLdapSession, sessionIdent, Session.kind, Session.subject]

theorem validate_appPw (w : World) (x u : Nat) :
    validateLdapSession w (.applicationPasswordBind x u) = processLdapUuid w u := by
  simp [validateLdapSession, sessionIdent, Session.kind, Session.subject]

theorem validate_uat (w : World) (a s : Nat) (e : Option Nat) (pu : UatPurpose) :
    validateLdapSession w (.userAuthToken a s e pu) = processUat w a s pu := by
  simp [validateLdapSession, sessionIdent, Session.kind]

theorem validate_apit (w : World) (a t i : Nat) (e : Option Nat) (pu : ApiPurpose) :
    validateLdapSession w (.apiToken a t i e pu) = processApit w a t i pu := by
  simp [validateLdapSession, sessionIdent, Session.kind]

theorem processApit_ok {w : World} {a t i : Nat} {pu : ApiPurpose} {id : Ident}
    (h : processApit w a t i pu = .ok id) :
    id = ⟨a, apitScope pu⟩ ∧ ∃ acc, w.acct a = some acc ∧ acc.withinValidTime w.ct = true ∧
      (w.apiSessions.contains t = true ∨ w.ct < i + w.grace) := by
  unfold processApit at h
  cases ha : w.acct a with
  | none => simp [ha] at h
  | some acc =>
    simp only [ha, apitEntryIsAccounts, apitScopeFromPurpose, if_true] at h
    by_cases h1 : acc.withinValidTime w.ct
    · by_cases h2 : (w.apiSessions.contains t || decide (w.ct < i + w.grace))
      · simp only [h1, h2, Bool.not_true, Bool.false_eq_true, if_false] at h
        cases h
        refine ⟨rfl, acc, rfl, h1, ?_⟩
        simpa using h2
      · have h2' := Bool.eq_false_iff.mpr h2
        simp only [h1, Bool.not_true, Bool.false_eq_true, if_false] at h
        rw [h2'] at h
        simp at h
    · simp [h1] at h

theorem processUat_ok {w : World} {a s : Nat} {pu : UatPurpose} {id : Ident}
    (h : processUat w a s pu = .ok id) :
    id.entry = a ∧ (id.scope = .readOnly ∨ (id.scope = .readWrite ∧ ∃ e, pu = .readWrite (some e) ∧ w.ct < e)) ∧
      ∃ acc, w.acct a = some acc ∧ acc.withinValidTime w.ct = true ∧ w.uatValid.contains s = true := by
  unfold processUat at h
  cases ha : w.acct a with
  | none => simp [ha] at h
  | some acc =>
    simp only [ha] at h
    by_cases h1 : (acc.withinValidTime w.ct && w.uatValid.contains s)
    · simp only [h1, Bool.not_true, Bool.false_eq_true, if_false] at h
      have h1' : acc.withinValidTime w.ct = true ∧ w.uatValid.contains s = true := by simpa using h1
      cases h
      refine ⟨rfl, ?_, acc, rfl, h1'.1, h1'.2⟩
      cases pu with
      | readOnly => left; rfl
      | readWrite e =>
        cases e with
        | none => left; rfl
        | some e =>
          by_cases he : w.ct < e
          · right; simp [he]
          · left; simp [he]
    · have h1' := Bool.eq_false_iff.mpr h1
      rw [h1'] at h
      simp at h

/-- `do_bind` by target. -/
theorem doBind_cases (w : World) (dn : List Char) (pw : Nat) (sl : Bool) :
    (∃ e, bindTarget w dn pw = .error e ∧ doBind w dn pw sl = { res := .error e }) ∨
    (∃ u, bindTarget w dn pw = .ok (.account u) ∧ doBind w dn pw sl = authLdap w u pw sl) ∨
    (bindTarget w dn pw = .ok .apiToken ∧ doBind w dn pw sl = tokenAuthLdap w pw) ∨
    (∃ a u, bindTarget w dn pw = .ok (.application a u) ∧ doBind w dn pw sl = applicationAuthLdap w a u pw) := by
  unfold doBind
  cases h : bindTarget w dn pw with
  | error e => exact Or.inl ⟨e, rfl, rfl⟩
  | ok t =>
    cases t with
    | account u => exact Or.inr (Or.inl ⟨u, rfl, rfl⟩)
    | apiToken => exact Or.inr (Or.inr (Or.inl ⟨rfl, rfl⟩))
    | application a u => exact Or.inr (Or.inr (Or.inr ⟨a, u, rfl, rfl⟩))

/-- A password bind (anything but the token path) yields a `UnixBind` session. -/
theorem doBind_password_session {w : World} {dn : List Char} {pw : Nat} {sl : Bool} {t : Token}
    (h : (doBind w dn pw sl).res = .ok (some t)) (hk : bindTarget w dn pw ≠ .ok .apiToken) :
    ∃ u, t.session = .unixBind u := by
  rcases doBind_cases w dn pw sl with ⟨e, _, hd⟩ | ⟨u, _, hd⟩ | ⟨ht, _⟩ | ⟨a, u, _, hd⟩
  · rw [hd] at h; simp at h
  · rw [hd] at h
    rcases authLdap_ok h with ⟨_, a, _, _, ht, _⟩ | ⟨_, _, a, _, _, _, _, _, ht, _⟩
    · exact ⟨_, by rw [ht]⟩
    · exact ⟨_, by rw [ht]⟩
  · exact absurd ht hk
  · rw [hd] at h
    obtain ⟨_, _, _, _, _, _, _, _, _, ht⟩ := applicationAuthLdap_ok h
    exact ⟨_, by rw [ht]⟩

theorem doSearch_query {w : World} {t : Token} {imp : Option Token} {base : List Char} {sc : SScope}
    {n : Nat} {late : Option Code} {o : Outcome} (ho : doSearch w t imp base sc n late = o) :
    (∀ id ext imp', o = .query id ext imp' → validateLdapSession w t.session = .ok id) ∧
    (∀ id imp', o ≠ .compare id imp') := by
  unfold doSearch at ho
  subst ho
  constructor
  · intro id ext imp' h
    repeat' split at h
    all_goals simp_all [errRespond]
  · intro id imp' h
    repeat' split at h
    all_goals simp_all [errRespond]

theorem doCompare_query {w : World} {t : Token} {imp : Option Token} {entry : List Char}
    {late : Option Code} {o : Outcome} (ho : doCompare w t imp entry late = o) :
    (∀ id imp', o = .compare id imp' → validateLdapSession w t.session = .ok id) ∧
    (∀ id ext imp', o ≠ .query id ext imp') := by
  unfold doCompare at ho
  subst ho
  constructor
  · intro id imp' h
    repeat' split at h
    all_goals simp_all [errRespond]
  · intro id ext imp' h
    repeat' split at h
    all_goals simp_all [errRespond]

theorem implicit_bind_session {w : World} {lbt : Token}
    (h : (doBind w [] 0 false).res = .ok (some lbt)) : lbt.session = .unixBind w.anonymous := by
  have hb : bindTarget w [] 0 = .ok (.account w.anonymous) := by simp [bindTarget]
  rcases doBind_cases w [] 0 false with ⟨e, hb', _⟩ | ⟨u', hb', hd⟩ | ⟨hb', _⟩ | ⟨a, u', hb', _⟩
  · rw [hb] at hb'; cases hb'
  · rw [hb] at hb'; cases hb'
    rw [hd] at h
    rcases authLdap_ok h with ⟨_, a, _, _, h3, _⟩ | ⟨hne, _⟩
    · rw [h3]
    · exact absurd rfl hne
  · rw [hb] at hb'; cases hb'
  · rw [hb] at hb'; cases hb'


/-! ### Example world for the non-vacuity examples of `C40.lean` -/

def exAcct (u : Nat) : Acct :=
  { uuid := u, isAccount := true, validFrom := none, expire := none, unixPw := none,
    unixNeedsUpgrade := false, memberOf := [], appPws := [] }

/-- anonymous = 0; alice = 10 (unix password 42, old hash, member of group 20, application
password 43 for application 30); bob = 11 (application password 44 but not a member); service
account 7 with api token secret 5 (read-write, expires at 100). -/
def exWorld (ct : Nat) (flag : Bool) : World :=
  { ct := ct, basedn := "dc=example,dc=com".toList, anonymous := 0,
    names := [("alice".toList, 10), ("bob".toList, 11), ("anonymous".toList, 0)],
    accts := [exAcct 0,
      { exAcct 10 with unixPw := some 42, unixNeedsUpgrade := true, memberOf := [20], appPws := [(30, 43)] },
      { exAcct 11 with expire := some 50, unixPw := some 45, appPws := [(30, 44)] }, exAcct 7],
    apps := [⟨"mail".toList, 30, 20⟩], allowUnixPwBind := flag,
    tokens := [(5, .apit 7 9 50 (some 100) .readWrite)], apiSessions := [9], uatValid := [] }


end Kanidm.Ldap
