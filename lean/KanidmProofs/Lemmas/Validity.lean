import KanidmModel.Validity
/-! Helper lemmas for C49: gate specifications and soundness of `passes` over any table. -/
namespace Kanidm.Validity
open Kanidm.Gen.Validity

/-- The property's reading of "inside the window": valid-from has arrived and expiry has not passed. -/
def InWindow (w : Window) (ct : Nat) : Prop :=
  (∀ v, w.vf = some v → v ≤ ct) ∧ (∀ e, w.ex = some e → ct ≤ e)

/-- Strictly inside. -/
def StrictlyInWindow (w : Window) (ct : Nat) : Prop :=
  (∀ v, w.vf = some v → v < ct) ∧ (∀ e, w.ex = some e → ct < e)

theorem strict_imp (w : Window) (ct : Nat) (h : StrictlyInWindow w ct) : InWindow w ct :=
  ⟨fun v hv => Nat.le_of_lt (h.1 v hv), fun e he => Nat.le_of_lt (h.2 e he)⟩

theorem accountGate_iff (w : Window) (ct : Nat) : accountGate w ct = true ↔ InWindow w ct := by
  obtain ⟨vf, ex⟩ := w
  unfold accountGate InWindow acctMix acctVfOk acctExOk acctCot
  cases vf <;> cases ex <;> simp

instance (w : Window) (ct : Nat) : Decidable (InWindow w ct) :=
  decidable_of_iff (accountGate w ct = true) (accountGate_iff w ct)

theorem radiusGate_iff (w : Window) (ct : Nat) : radiusGate w ct = true ↔ StrictlyInWindow w ct := by
  obtain ⟨vf, ex⟩ := w
  unfold radiusGate StrictlyInWindow radMix radVfOk radExOk radCot
  cases vf <;> cases ex <;> simp

theorem gateOf_sound (g : GateKind) (w : Window) (ct : Nat) (h : gateOf g w ct = true) :
    InWindow w ct := by
  cases g with
  | account => exact (accountGate_iff w ct).mp h
  | radius => exact strict_imp w ct ((radiusGate_iff w ct).mp h)

/-- Soundness of the table walk: a gated row lets nothing through outside the window. -/
theorem passes_sound : ∀ (fuel : Nat) (s : Sid), gated fuel s = true →
    ∀ (fuel' : Nat) (a : Acl) (w : Window) (ct : Nat), passes fuel' s a w ct = true → InWindow w ct := by
  intro fuel
  induction fuel with
  | zero => intro s h; simp [gated] at h
  | succ n ih =>
    intro s hg fuel' a w ct hp
    cases fuel' with
    | zero => simp [passes] at hp
    | succ m =>
      unfold gated at hg
      unfold passes at hp
      cases hr : rowOf s with
      | none => simp [hr] at hg
      | some r =>
        simp only [hr] at hg hp
        cases hgate : r.gate with
        | some g =>
          simp only [hgate] at hg hp
          have hv : r.view = .stored := by simpa using hg
          simp only [hv, viewOf, Bool.and_eq_true] at hp
          exact gateOf_sound g w ct hp.1
        | none =>
          simp only [hgate, Bool.and_eq_true, Bool.not_eq_true', List.all_eq_true] at hg
          obtain ⟨hne, hall⟩ := hg
          simp only [hgate, hne, Bool.true_and, Bool.false_eq_true, if_false] at hp
          by_cases hany : r.anyCall = true
          · simp only [hany, if_true, List.any_eq_true] at hp
            obtain ⟨c, hc, hpc⟩ := hp
            exact ih c (hall c hc) m a w ct hpc
          · simp only [hany, Bool.false_eq_true, if_false, List.all_eq_true] at hp
            cases hcs : r.calls with
            | nil => simp [hcs] at hne
            | cons c cs =>
              have hc : c ∈ r.calls := by simp [hcs]
              exact ih c (hall c hc) m a w ct (hp c hc)

theorem rowOf_mem (s : Sid) (r : Row) (h : rowOf s = some r) : r ∈ rows := by
  unfold rowOf at h
  exact List.mem_of_find?_eq_some h

/-- When every gate of the table reads the stored entry, the asking identity's read rights do
not enter any decision. -/
theorem passes_acl_irrelevant (hall : ∀ r ∈ rows, r.gate.isSome = true → r.view = .stored) :
    ∀ (fuel : Nat) (s : Sid) (a a' : Acl) (w : Window) (ct : Nat),
      passes fuel s a w ct = passes fuel s a' w ct := by
  intro fuel
  induction fuel with
  | zero => intros; rfl
  | succ n ih =>
    intro s a a' w ct
    unfold passes
    cases hr : rowOf s with
    | none => rfl
    | some r =>
      have hmem := rowOf_mem s r hr
      have hsub : ∀ c, passes n c a w ct = passes n c a' w ct := fun c => ih c a a' w ct
      have hfun : (fun c => passes n c a w ct) = (fun c => passes n c a' w ct) := funext hsub
      cases hgate : r.gate with
      | none => simp only [hfun, hgate]
      | some g =>
        have hv : r.view = .stored := hall r hmem (by simp [hgate])
        simp only [hgate, hv, viewOf, hfun]

end Kanidm.Validity
