import KanidmProofs.Lemmas.ReplReap
import KanidmProofs.C10
import KanidmProofs.C08
/-!
# C09 — deleted entries are never resurrected by replication

`vm` is `repl_merge_valueset`, `repl` is `schema.is_replicated` (C08).  The supplier's decision is
C10's `supplierDecide`, imported with its characterisation theorems.
-/
namespace Kanidm.ReplReap
open Kanidm.Cid (Cid cidLt)
open Kanidm.ReplMerge hiding lookup
open Kanidm.RangeDiff
open Kanidm.Gen.ReapOps Kanidm.Gen.ReplMergeOps Kanidm.Gen.SupplierMap

/-! ## The regenerated operators are the specified ones -/

/-- A tombstone may be reaped iff it is strictly older than the trim cid, a live entry never; a cid
leaves the update vector iff it is strictly below the trim cid; the supplier's view drops a server iff
its newest change is strictly older than the trim timestamp; the anchor is inserted before the trim;
the trim cid is the transaction cid minus the changelog window under the nil server; a recycled entry
expires iff its last modification is strictly before the cutoff; both windows are seven days. -/
theorem reap_ops_are_spec :
    (∀ a t : Cid, canDeleteTomb cidLt a t = cidLt a t) ∧ canDeleteLive = false
    ∧ (∀ c t : Cid, trimRemoves cidLt c t = cidLt c t) ∧ trimDropsEmptyServers = true
    ∧ (∀ last t : Nat, filterDrops last t = true ↔ last < t)
    ∧ anchorBeforeTrim = true ∧ reapTestsTrimCid = true ∧ purgeAnchorsAtTxnCid = true
    ∧ trimFromChangelogMaxAge = true ∧ subSecsServer = 0
    ∧ changelogMaxAge = 7 * 86400 ∧ recyclebinMaxAge = 7 * 86400
    ∧ (∀ m c : Cid, recycleExpired cidLt m c = cidLt m c) ∧ purgeRecycledTombstonesAtTxnCid = true := by
  refine ⟨fun _ _ => rfl, rfl, fun _ _ => rfl, rfl, ?_, rfl, rfl, rfl, rfl, rfl, rfl, rfl, fun _ _ => rfl, rfl⟩
  intro last t
  simp [filterDrops]

/-! ## A tombstone is final -/

/-- Whatever arrives, an entry that is a tombstone on the consumer stays a tombstone (with an `at` that
is not later); whatever the consumer holds, an arriving tombstone makes it a tombstone. -/
theorem tombstone_never_revived (vm : Nat → Nat → Option Nat) (repl : Nat → Bool) (txn a : Cid) (s : St) :
    (∃ b, applyEntry vm repl txn s (.tomb a) = .tomb b ∧ cidLt a b = false)
      ∧ (∃ b, applyEntry vm repl txn (.tomb a) s = .tomb b ∧ cidLt a b = false) := by
  have h := tombstone_dominates vm repl a s
  obtain ⟨⟨b1, h1, hb1⟩, ⟨b2, h2, hb2⟩⟩ := h
  constructor
  · refine ⟨b2, ?_, hb2⟩
    cases s with
    | live e => simp only [applyEntry]; rw [h2]; rfl
    | tomb c => simp only [applyEntry]; rw [h2]; rfl
  · refine ⟨b1, ?_, hb1⟩
    cases s with
    | live e => simp only [applyEntry]; rw [h1]; rfl
    | tomb c => simp only [applyEntry]; rw [h1]; rfl

/-- Two tombstones of one entry settle on the earlier `at` on both sides: the reaping time does not
depend on the replica. -/
theorem tombstones_settle_on_earliest (vm : Nat → Nat → Option Nat) (repl : Nat → Bool) (a b : Cid)
    (h : cidLt a b = true) :
    mergeState vm repl (.tomb a) (.tomb b) = .tomb a ∧ mergeState vm repl (.tomb b) (.tomb a) = .tomb a := by
  simp [mergeState, tombTombPickLeft, h, cidLt_asymm h]

/-! ## Purging the recycle bin, reaping, trimming -/

/-- `purge_recycled`: exactly the recycled entries last modified strictly before the cutoff become
tombstones, at the transaction cid; everything else is untouched. -/
theorem purge_recycled_exact (recycled : St → Bool) (now cutoff : Cid) (st : St) :
    purgeRecycledEntry recycled now cutoff st =
      (match st with
       | .tomb a => .tomb a
       | .live e => if recycled (.live e) = true ∧ cidLt (lastMod (.live e)) cutoff = true then .tomb now else .live e) := by
  cases st with
  | tomb a => rfl
  | live e =>
    simp only [purgeRecycledEntry, recycleExpired, purgeRecycledTombstonesAtTxnCid, Bool.and_eq_true, if_true]

/-- `reap_tombstones` deletes exactly the tombstones strictly older than the trim cid. -/
theorem reap_exact (now trim : Cid) (s : Server) (u : Nat) (st : St) :
    (u, st) ∈ (reap now trim s).ents ↔
      ((u, st) ∈ s.ents ∧ ¬ ∃ a, st = .tomb a ∧ cidLt a trim = true) := by
  simp only [reap, List.mem_filter, Bool.not_eq_true']
  constructor
  · rintro ⟨hm, hc⟩
    refine ⟨hm, ?_⟩
    rintro ⟨a, rfl, ha⟩
    simp [canDelete, canDeleteTomb, ha] at hc
  · rintro ⟨hm, hn⟩
    refine ⟨hm, ?_⟩
    cases st with
    | live e => simp [canDelete, canDeleteLive]
    | tomb a =>
      cases ha : cidLt a trim
      · simp [canDelete, canDeleteTomb, ha]
      · exact absurd ⟨a, rfl, ha⟩ hn

/-- `trim_moves_min`: after a reap at trim cid `t` every cid left in the update vector is at or after
`t`, every range the server reports starts at or after `t`, and a server all of whose changes were
older is no longer listed. -/
theorem trim_moves_min (now t : Cid) (s : Server) :
    (∀ c ∈ (reap now t s).ruv, cidLt c t = false)
      ∧ (∀ k r, lookup (rangesOf (reap now t s).ruv) k = some r → t.ts ≤ r.tsMin)
      ∧ (∀ k, (∀ c ∈ insertCid now s.ruv, c.sUuid = k → cidLt c t = true) →
              lookup (rangesOf (reap now t s).ruv) k = none) := by
  have hruv : (reap now t s).ruv = trimUpTo t (insertCid now s.ruv) := by
    simp [reap, purgeAnchorsAtTxnCid, anchorBeforeTrim]
  rw [hruv]
  refine ⟨fun c hc => ((mem_trimUpTo t _ c).mp hc).2, fun k r h => trimmed_min_ge h, ?_⟩
  intro k hk
  rw [lookup_rangesOf]
  have : k ∉ (trimUpTo t (insertCid now s.ruv)).map (·.sUuid) := by
    intro hm
    obtain ⟨c, hc, hck⟩ := List.mem_map.mp hm
    have h1 := (mem_trimUpTo t _ c).mp hc
    have := hk c h1.1 hck
    rw [h1.2] at this; cases this
  simp [this]

/-- `anchor_advances`: a reap leaves the server's own origin listed, reaching the transaction cid
(`debug_assert!(cid > trim_cid)`), and no later view of a supplier whose trim timestamp is not beyond
that transaction drops it: every other server can always tell how recently this one was alive. -/
theorem anchor_advances (now t : Cid) (s : Server) (hnow : cidLt now t = false) :
    ∃ r, lookup (rangesOf (reap now t s).ruv) now.sUuid = some r ∧ now.ts ≤ r.tsMax
      ∧ ∀ t' : Cid, t'.ts ≤ now.ts →
          lookup (filterView t' (rangesOf (reap now t s).ruv)) now.sUuid = some r := by
  have hruv : (reap now t s).ruv = trimUpTo t (insertCid now s.ruv) := by
    simp [reap, purgeAnchorsAtTxnCid, anchorBeforeTrim]
  rw [hruv]
  have hmem : now ∈ trimUpTo t (insertCid now s.ruv) := by
    rw [mem_trimUpTo]
    refine ⟨?_, hnow⟩
    unfold insertCid
    by_cases hc : now ∈ s.ruv
    · simp [hc]
    · simp [hc]
  have hk : now.sUuid ∈ (trimUpTo t (insertCid now s.ruv)).map (·.sUuid) := List.mem_map.mpr ⟨now, hmem, rfl⟩
  refine ⟨⟨minList (tsOf (trimUpTo t (insertCid now s.ruv)) now.sUuid), maxList (tsOf (trimUpTo t (insertCid now s.ruv)) now.sUuid)⟩, ?_, ?_, ?_⟩
  · rw [lookup_rangesOf]; simp only [hk, if_true]
  · apply mem_le_maxList
    rw [mem_tsOf]; exact hmem
  · intro t' ht'
    rw [lookup_filterView (nodup_rangesOf _)]
    refine ⟨by rw [lookup_rangesOf]; simp only [hk, if_true], ?_⟩
    have : now.ts ≤ maxList (tsOf (trimUpTo t (insertCid now s.ruv)) now.sUuid) := by
      apply mem_le_maxList; rw [mem_tsOf]; exact hmem
    simp only
    omega

/-! ## The refusal protocol (decision = C10's `supplierDecide`) -/

/-- **A lagging consumer is refused.**  The supplier reaped at trim cid `t`.  A consumer whose newest
change of some server the supplier still lists is older than `t` is neither supplied nor told "no
changes": the reply is `RefreshRequired`, or `UnwillingToSupply` when it is also ahead somewhere. -/
theorem lagging_consumer_refused (consumer : Ruv) (now t view : Cid) (s : Server)
    (k : Nat) (c : Range) (hc : lookup consumer k = some c) (hold : c.tsMax < t.ts)
    (hlisted : (lookup (filterView view (rangesOf (reap now t s).ruv)) k).isSome) :
    supplyDecision consumer (reap now t s).ruv view = .reply .refreshRequired
      ∨ supplyDecision consumer (reap now t s).ruv view = .reply .unwillingToSupply := by
  unfold supplyDecision
  have hn := nodup_filterView view _ (nodup_rangesOf (reap now t s).ruv)
  cases hv : lookup (filterView view (rangesOf (reap now t s).ruv)) k with
  | none => rw [hv] at hlisted; cases hlisted
  | some sr =>
    have hraw := ((lookup_filterView (nodup_rangesOf _)).mp hv).1
    have hmin := (trim_moves_min now t s).2.1 k sr hraw
    have hlag : ∃ k, LagOn consumer (filterView view (rangesOf (reap now t s).ruv)) k :=
      ⟨k, c, sr, hc, hv, by omega⟩
    by_cases hadv : ∃ k, AdvOn consumer (filterView view (rangesOf (reap now t s).ruv)) k
    · exact Or.inr ((supplier_refuse_iff _ _ hn).mpr (Or.inl hadv))
    · exact Or.inl ((supplier_refresh_iff _ _ hn).mpr ⟨hlag, hadv⟩)

/-- **A lagging supplier is refused.**  The consumer reaped at trim cid `t`.  A supplier whose newest
change of some server both still list is older than `t` gets `UnwillingToSupply`: it cannot push its
stale live entries into a replica that has already forgotten their tombstones. -/
theorem lagging_supplier_refused (now t view : Cid) (c : Server) (supplierRuv : RuvData)
    (k : Nat) (cr sr : Range)
    (hc : lookup (rangesOf (reap now t c).ruv) k = some cr)
    (hs : lookup (filterView view (rangesOf supplierRuv)) k = some sr) (hold : sr.tsMax < t.ts) :
    supplyDecision (rangesOf (reap now t c).ruv) supplierRuv view = .reply .unwillingToSupply := by
  unfold supplyDecision
  have hn := nodup_filterView view _ (nodup_rangesOf supplierRuv)
  have hmin := (trim_moves_min now t c).2.1 k cr hc
  have hcw := rangesOf_min_le_max hc
  have hsw := rangesOf_min_le_max ((lookup_filterView (nodup_rangesOf _)).mp hs).1
  exact (supplier_refuse_iff _ _ hn).mpr (Or.inl ⟨k, cr, sr, hc, hs, by omega, by omega⟩)

/-- **No resurrection through an accepted supply.**  The consumer reaped the tombstone of an entry: it
trimmed at `t`, and the tombstone's cid `at_` (written by server `d`) was older.  If a supplier's
changes are accepted (`V1`) and `d` is listed by both, then the supplier has seen `d` beyond `at_`; a
supplier whose update vector keeps its promise (`hsound`: having seen `d` up to a timestamp it holds
every change of `d` up to there) therefore does not hold the entry live — nothing live can arrive. -/
theorem no_resurrection_through_accepted_supply (now t view at_ : Cid) (c : Server) (supplierRuv : RuvData)
    (d : Nat) (cr sr : Range) (ranges : Ruv) (supplierHoldsLive : Prop)
    (hat : at_.ts < t.ts)
    (hc : lookup (rangesOf (reap now t c).ruv) d = some cr)
    (hs : lookup (filterView view (rangesOf supplierRuv)) d = some sr)
    (hacc : supplyDecision (rangesOf (reap now t c).ruv) supplierRuv view = .supply ranges)
    (hsound : at_.ts ≤ sr.tsMax → ¬ supplierHoldsLive) :
    ¬ supplierHoldsLive := by
  apply hsound
  have hn := nodup_filterView view _ (nodup_rangesOf supplierRuv)
  have hov := (supplier_supplies_only_if_all_overlap _ _ hn ranges hacc).2 d cr sr hc hs
  have hmin := (trim_moves_min now t c).2.1 d cr hc
  have := hov.2
  omega

/-- The dual, **no deletion is dropped**: the supplier reaped at `t` (so it no longer has the
tombstone to send); a consumer that still holds the entry live because it never saw the deletion
(`hstale`: its newest change of the deleting server `d` predates the deletion, which predates `t`) is
never answered `V1` or `NoChangesAvailable`. -/
theorem stale_consumer_never_served (consumer : Ruv) (now t view at_ : Cid) (s : Server)
    (d : Nat) (c : Range) (hc : lookup consumer d = some c) (hstale : c.tsMax < at_.ts) (hat : at_.ts < t.ts)
    (hlisted : (lookup (filterView view (rangesOf (reap now t s).ruv)) d).isSome) :
    (∀ r, supplyDecision consumer (reap now t s).ruv view ≠ .supply r)
      ∧ supplyDecision consumer (reap now t s).ruv view ≠ .reply .noChangesAvailable := by
  have h := lagging_consumer_refused consumer now t view s d c hc (by omega) hlisted
  constructor
  · intro r hr
    rcases h with h | h <;> rw [h] at hr <;> cases hr
  · intro hr
    rcases h with h | h <;> rw [h] at hr <;> cases hr

/-! ## The first sentence is false for the recycle-bin stage -/

/-- "Once an entry has been deleted … no replication schedule makes it live again" (`recycled_is_final`
below): a delete is a write
of the `class` attribute (value `rec` = a class set containing `recycled`); whatever arrives for the
same creation, the entry stays recycled or becomes a tombstone. -/
def stillDeleted (cls rec : Nat) : St → Bool
  | .tomb _ => true
  | .live e => Kanidm.ReplMerge.lookup e.attrs cls == some rec

def recycled_is_final : Prop :=
  ∀ (cls rec : Nat) (txn : Cid) (db inc : Live), inc.crAt = db.crAt →
    Kanidm.ReplMerge.lookup db.attrs cls = some rec →
    stillDeleted cls rec (applyEntry (fun _ _ => none) (fun _ => true) txn (.live inc) (.live db)) = true

/-- It is not: the delete is only a value of a last-writer-wins attribute; a later `class` write from a
replica that has not seen the delete (a posix extension, say) replaces it and the entry is live again
on the replica that deleted it (finding D52, class `recycled-revived-by-concurrent-class-write`). -/
theorem recycled_is_final_false : ¬ recycled_is_final := by
  intro h
  have := h 0 101 ⟨9, 1⟩
    ⟨⟨1, 1⟩, [(0, ⟨3, 1⟩), (1, ⟨1, 1⟩)], [(0, 101), (1, 7)]⟩
    ⟨⟨1, 1⟩, [(0, ⟨4, 2⟩), (1, ⟨1, 1⟩)], [(0, 102), (1, 7)]⟩ rfl (by decide)
  revert this
  decide

/-- Exactly what protects a recycled entry: it stays recycled under every arrival whose `class` write is
not later than the delete. -/
theorem recycled_kept_unless_later_class_write (vm : Nat → Nat → Option Nat) (hvm : ∀ n o, vm n o = none)
    (repl : Nat → Bool) (cls : Nat) (db inc : Live) (c : Cid) (rec : Option Nat)
    (hdb : rcell repl db cls = some (c, rec))
    (hnl : ∀ c' v', rcell repl inc cls = some (c', v') → cidLt c c' = false) :
    rcell repl (mergeLive vm repl inc db) cls = some (c, rec) := by
  rw [rcell_mergeLive vm hvm, hdb]
  cases hi : rcell repl inc cls with
  | none => rfl
  | some cv =>
    obtain ⟨c', v'⟩ := cv
    have := hnl c' v' hi
    simp [lww, this]

/-! ## The refusal sentence as given is false of the code -/

/-- "A replica that has been out of contact for longer than the changelog window is refused": all the
consumer ever held of server `k` predates the supplier's trim `t` — whatever the consumer has meanwhile
trimmed from its own update vector (`ownTrim`) — and the supplier still lists `k`; then the reply is a
refusal. -/
def lagging_always_refused : Prop :=
  ∀ (held : RuvData) (ownTrim now t view : Cid) (s : Server) (k : Nat),
    (∃ c ∈ held, c.sUuid = k) → (∀ c ∈ held, c.sUuid = k → c.ts < t.ts) →
    (lookup (filterView view (rangesOf (reap now t s).ruv)) k).isSome = true →
    (supplyDecision (rangesOf (trimUpTo ownTrim held)) (reap now t s).ruv view = .reply .refreshRequired
      ∨ supplyDecision (rangesOf (trimUpTo ownTrim held)) (reap now t s).ruv view = .reply .unwillingToSupply)

/-- It is not (finding D51, class `D46:lagging-consumer-forgot-origin-served`): the consumer's own trim removes the stale origin from its update vector
(`trim_up_to` drops a server left without timestamps); the supplier then takes it for a server the
consumer has never seen and supplies `[0, max]` — of which its trimmed index holds only the anchor. -/
theorem lagging_always_refused_false : ¬ lagging_always_refused := by
  intro h
  have := h [⟨86400000000000, 1⟩, ⟨86400000000000, 2⟩, ⟨1036800000000000, 2⟩]
    ⟨950400000000000, 0⟩ ⟨1555200000000000, 1⟩ ⟨950400000000000, 0⟩ ⟨950400000000000, 0⟩
    ⟨1, [], [⟨86400000000000, 1⟩, ⟨172800000000000, 1⟩, ⟨1036800000000000, 2⟩]⟩ 1
    (by decide) (by decide) (by decide)
  revert this
  decide

/-- What remains true is exact: a consumer that lags on a server the supplier lists is served only if it
no longer lists that server itself. -/
theorem served_though_lagging_only_if_forgotten (consumer : Ruv) (now t view : Cid) (s : Server)
    (k : Nat) (r : Ruv)
    (hlisted : (lookup (filterView view (rangesOf (reap now t s).ruv)) k).isSome)
    (hserved : supplyDecision consumer (reap now t s).ruv view = .supply r
      ∨ supplyDecision consumer (reap now t s).ruv view = .reply .noChangesAvailable) :
    ∀ c, lookup consumer k = some c → t.ts ≤ c.tsMax := by
  intro c hc
  cases hlt : decide (c.tsMax < t.ts) with
  | false => simpa using hlt
  | true =>
    have hold : c.tsMax < t.ts := by simpa using hlt
    have h := lagging_consumer_refused consumer now t view s k c hc hold hlisted
    rcases hserved with hs | hs <;> rcases h with h | h <;> rw [h] at hs <;> cases hs

/-! ## Non-vacuity -/

/-- server 2 reaped at day 11 (it wrote at day 18); the consumer last heard of server 2 at day 9:
refresh required; a consumer that heard of it at day 12 is supplied -/
example :
    let day : Nat := 86400 * 1000000000
    let s : Server := ⟨2, [(7, .tomb ⟨10 * day, 2⟩), (8, .tomb ⟨15 * day, 2⟩)],
      [⟨9 * day, 2⟩, ⟨10 * day, 2⟩, ⟨12 * day, 2⟩, ⟨15 * day, 2⟩, ⟨9 * day, 1⟩]⟩
    let now : Cid := ⟨18 * day, 2⟩
    let t : Cid := ⟨11 * day, 0⟩
    trimCid now = some t
      ∧ (reap now t s).ents = [(8, .tomb ⟨15 * day, 2⟩)]
      ∧ rangesOf (reap now t s).ruv = [(2, ⟨12 * day, 18 * day⟩)]
      ∧ supplyDecision [(1, ⟨day, 9 * day⟩), (2, ⟨day, 9 * day⟩)] (reap now t s).ruv t = .reply .refreshRequired
      ∧ supplyDecision [(1, ⟨day, 9 * day⟩), (2, ⟨day, 12 * day⟩)] (reap now t s).ruv t
          = .supply [(2, ⟨12 * day, 18 * day⟩)] := by
  decide

end Kanidm.ReplReap
