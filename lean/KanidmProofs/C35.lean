import KanidmProofs.Lemmas.AccountPolicy
/-!
# C35 — Account policy resolution is order-independent and strictest

Property theorems only (helper lemmas: `Lemmas/AccountPolicy.lean`).  `foldFrom` is the
transcription of `ResolvedAccountPolicy::fold_from`; its initial accumulator, its comparison
operators, the NIST post-step condition and the `From<&Entry>` defaults are regenerated from the
source on every run (`KanidmModel/Generated/AccountPolicyOps.lean`).

CA lists are compared by what they *trust* (`caOptTrusts l k g`: device `g` attested by CA `k`
is acceptable; `none` = no attestation requirement).  Hypothesis `optWF p.caList` is the
`BTreeMap` invariant of `AttestationCaList` (one entry per CA key id).
-/
namespace Kanidm.AccountPolicy
open Kanidm.Gen.AccountPolicy

/-- Two resolved policies mean the same: every scalar field equal, the CA requirement present in
both or in neither, and the same (CA, device) pairs trusted. -/
def Resolved.Same (r₁ r₂ : Resolved) : Prop :=
  r₁.privilegeExpiry = r₂.privilegeExpiry ∧ r₁.authsessionExpiry = r₂.authsessionExpiry ∧
  r₁.pwMinLength = r₂.pwMinLength ∧ r₁.pwMaxLength = r₂.pwMaxLength ∧
  r₁.credentialPolicy = r₂.credentialPolicy ∧ r₁.limitFilterTest = r₂.limitFilterTest ∧
  r₁.limitResults = r₂.limitResults ∧ r₁.allowFallback = r₂.allowFallback ∧
  r₁.caList.isSome = r₂.caList.isSome ∧ ∀ k g, caOptTrusts r₁.caList k g = caOptTrusts r₂.caList k g

/-- **fold_perm_invariant**: for all lists of group policies of any length and every permutation
of them, the resolved policy is the same. -/
theorem fold_perm_invariant (l₁ l₂ : List AccountPolicy) (h : l₁.Perm l₂)
    (hwf : ∀ p ∈ l₁, optWF p.caList) : (foldFrom l₁).Same (foldFrom l₂) := by
  have hwf₂ : ∀ p ∈ l₂, optWF p.caList := fun p hp => hwf p (h.mem_iff.mpr hp)
  have e1 : (l₁.foldl step init).privilegeExpiry = (l₂.foldl step init).privilegeExpiry := by
    rw [fold_priv, fold_priv]; exact selFold_perm (sel_comm_of_min priv_isMin) _ h _
  have e2 : (l₁.foldl step init).authsessionExpiry = (l₂.foldl step init).authsessionExpiry := by
    rw [fold_sess, fold_sess]; exact selFold_perm (sel_comm_of_min sess_isMin) _ h _
  have e3 : (l₁.foldl step init).pwMinLength = (l₂.foldl step init).pwMinLength := by
    rw [fold_pwMin, fold_pwMin]; exact selFold_perm (sel_comm_of_max pwMin_isMax) _ h _
  have e4 : (l₁.foldl step init).credentialPolicy = (l₂.foldl step init).credentialPolicy := by
    rw [fold_cred, fold_cred]; exact selFold_perm (sel_comm_of_max cred_isMax) _ h _
  have e5 : (l₁.foldl step init).limitFilterTest = (l₂.foldl step init).limitFilterTest := by
    rw [fold_limFilter, fold_limFilter]
    exact perm_foldl (fun m (p : AccountPolicy) => limStep limFilterTakes m p.limitFilterTest)
      (fun b p q => limStep_comm limFilter_isMax b _ _) h _
  have e6 : (l₁.foldl step init).limitResults = (l₂.foldl step init).limitResults := by
    rw [fold_limResults, fold_limResults]
    exact perm_foldl (fun m (p : AccountPolicy) => limStep limResultsTakes m p.limitResults)
      (fun b p q => limStep_comm limResults_isMax b _ _) h _
  have e7 : (l₁.foldl step init).allowFallback = (l₂.foldl step init).allowFallback := by
    rw [fold_fb, fold_fb]
    exact perm_foldl (fun m (p : AccountPolicy) => fbStep m p.allowFallback)
      (fun b p q => fbStep_comm b _ _) h _
  have e8 : (l₁.foldl step init).caList.isSome = (l₂.foldl step init).caList.isSome := by
    rw [fold_ca, fold_ca, caFold_isSome, caFold_isSome, perm_any _ h]
  have e9 : ∀ k g, caOptTrusts (l₁.foldl step init).caList k g = caOptTrusts (l₂.foldl step init).caList k g := by
    intro k g
    have hi : optWF init.caList := by simp [init, optWF]
    rw [fold_ca, fold_ca, caFold_trusts l₁ _ k g hi hwf, caFold_trusts l₂ _ k g hi hwf₂,
      perm_all _ h]
  have o1 := finish_other (l₁.foldl step init)
  have o2 := finish_other (l₂.foldl step init)
  unfold Resolved.Same foldFrom
  refine ⟨?_, ?_, ?_, ?_, ?_, ?_, ?_, ?_, ?_, ?_⟩
  · rw [o1.1, o2.1, e1]
  · rw [o1.2.1, o2.2.1, e2]
  · rw [finish_pwMin, finish_pwMin, e3, e4]
  · rw [o1.2.2.1, o2.2.2.1, fold_pwMax, fold_pwMax]
  · rw [o1.2.2.2.1, o2.2.2.2.1, e4]
  · rw [o1.2.2.2.2.2.1, o2.2.2.2.2.2.1, e5]
  · rw [o1.2.2.2.2.2.2.1, o2.2.2.2.2.2.2.1, e6]
  · rw [o1.2.2.2.2.2.2.2, o2.2.2.2.2.2.2.2, e7]
  · rw [o1.2.2.2.2.1, o2.2.2.2.2.1, e8]
  · intro k g; rw [o1.2.2.2.2.1, o2.2.2.2.2.1, e9]

/-- Non-vacuity: the repo's unit-test pair in both orders (a genuine permutation, two CA lists). -/
def polA : AccountPolicy :=
  { privilegeExpiry := 100, authsessionExpiry := 100, pwMinLength := 11, credentialPolicy := 10,
    caList := some [(1, .devices [1, 2, 3]), (2, .devices [4])], limitFilterTest := some 10,
    limitResults := some 10, allowFallback := none }
def polB : AccountPolicy :=
  { privilegeExpiry := 150, authsessionExpiry := 50, pwMinLength := 15, credentialPolicy := 20,
    caList := some [(1, .devices [2]), (2, .devices [5])], limitFilterTest := some 5,
    limitResults := some 15, allowFallback := some false }

example : [polA, polB].Perm [polB, polA] ∧ (∀ p ∈ [polA, polB], optWF p.caList) ∧
    foldFrom [polA, polB] = foldFrom [polB, polA] ∧
    (foldFrom [polA, polB]).caList = some [(1, .devices [2])] := by
  refine ⟨List.Perm.swap _ _ _, ?_, by decide, by decide⟩
  intro p hp
  simp only [List.mem_cons, List.mem_nil_iff, or_false] at hp
  rcases hp with rfl | rfl <;> simp [polA, polB, optWF, caWF, caFind]

/-- **strictest**: the result is at most each group's session and privilege expiry and at least
each group's minimum password length and minimum credential type — and at least as strict as the
built-in maxima it starts from. -/
theorem strictest (l : List AccountPolicy) :
    (∀ p ∈ l, (foldFrom l).privilegeExpiry ≤ p.privilegeExpiry ∧
              (foldFrom l).authsessionExpiry ≤ p.authsessionExpiry ∧
              p.pwMinLength ≤ (foldFrom l).pwMinLength ∧
              p.credentialPolicy ≤ (foldFrom l).credentialPolicy) ∧
    (foldFrom l).privilegeExpiry ≤ initPrivilegeExpiry ∧
    (foldFrom l).authsessionExpiry ≤ initAuthsessionExpiry ∧
    initPwMinLength ≤ (foldFrom l).pwMinLength ∧
    initCredentialPolicy ≤ (foldFrom l).credentialPolicy := by
  have o := finish_other (l.foldl step init)
  have h1 := selFold_le priv_isMin (·.privilegeExpiry) l init.privilegeExpiry
  have h2 := selFold_le sess_isMin (·.authsessionExpiry) l init.authsessionExpiry
  have h3 := selFold_ge pwMin_isMax (·.pwMinLength) l init.pwMinLength
  have h4 := selFold_ge cred_isMax (·.credentialPolicy) l init.credentialPolicy
  have hp : (l.foldl step init).pwMinLength ≤ (foldFrom l).pwMinLength := by
    unfold foldFrom
    rw [finish_pwMin]
    split
    · rename_i hn
      simp only [nistApplies, Bool.and_eq_true, decide_eq_true_eq] at hn
      simp only [pwSfaMin]; omega
    · exact Nat.le_refl _
  unfold foldFrom at *
  rw [o.1, o.2.1, o.2.2.2.1, fold_priv, fold_sess, fold_cred]
  rw [fold_pwMin] at hp
  refine ⟨fun p hpm => ⟨h1.2 p hpm, h2.2 p hpm, Nat.le_trans (h3.2 p hpm) hp, h4.2 p hpm⟩,
    h1.1, h2.1, Nat.le_trans h3.1 hp, h4.1⟩

/-- **ca_subset_of_each**: the result trusts only attestation authorities (and devices) trusted by
every group, and requires attestation as soon as one group does. -/
theorem ca_subset_of_each (l : List AccountPolicy) (hwf : ∀ p ∈ l, optWF p.caList) :
    (∀ k g, caOptTrusts (foldFrom l).caList k g = true → ∀ p ∈ l, caOptTrusts p.caList k g = true) ∧
    ((foldFrom l).caList.isSome = l.any fun p => p.caList.isSome) := by
  have o := finish_other (l.foldl step init)
  unfold foldFrom
  rw [o.2.2.2.2.1, fold_ca]
  refine ⟨fun k g ht p hp => ?_, ?_⟩
  · rw [caFold_trusts l _ k g (by simp [init, optWF]) hwf] at ht
    simp only [Bool.and_eq_true, List.all_eq_true] at ht
    exact ht.2 p hp
  · rw [caFold_isSome]; simp [init]

/-- **sfa_min_enforced**: whenever second factors are optional (resolved credential type below
`Mfa`), the resolved minimum password length is at least the single-factor minimum. -/
theorem sfa_min_enforced (l : List AccountPolicy) :
    (foldFrom l).credentialPolicy < credMfa → pwSfaMin ≤ (foldFrom l).pwMinLength := by
  have o := finish_other (l.foldl step init)
  unfold foldFrom
  rw [o.2.2.2.1, finish_pwMin]
  intro hc
  split
  · exact Nat.le_refl _
  · rename_i hn
    simp only [nistApplies, Bool.and_eq_true, decide_eq_true_eq, credMfa, pwSfaMin] at hn hc ⊢
    omega

/-- The values the property calls "the single-factor minimum" and "MFA" are the ones of the source. -/
theorem sfa_constants : pwSfaMin = 15 ∧ credMfa = 10 ∧ credDiscriminants = [0, 5, 10, 20, 30, 40, 65535] := by
  decide

example : (foldFrom [{ polA with credentialPolicy := 5 }]).credentialPolicy < credMfa ∧
    (foldFrom [{ polA with credentialPolicy := 5 }]).pwMinLength = 15 := by decide

/-- **defaults_neutral**: a group whose policy entry sets nothing (every attribute absent, so
every field is its default) changes nothing, wherever it stands. -/
theorem defaults_neutral (l₁ l₂ : List AccountPolicy) (hwf : ∀ p ∈ l₁ ++ l₂, optWF p.caList) :
    let d := fromEntry ⟨none, none, none, none, none, none, none, none⟩
    (foldFrom (l₁ ++ d :: l₂)).Same (foldFrom (l₁ ++ l₂)) := by
  intro d
  have hperm : (l₁ ++ d :: l₂).Perm (d :: (l₁ ++ l₂)) := List.perm_middle
  have hd : optWF d.caList := trivial
  have h1 := fold_perm_invariant _ _ hperm (by
    intro p hp
    rcases List.mem_append.mp hp with h | h
    · exact hwf p (List.mem_append.mpr (Or.inl h))
    · rcases List.mem_cons.mp h with rfl | h
      · exact hd
      · exact hwf p (List.mem_append.mpr (Or.inr h)))
  have h2 : foldFrom (d :: (l₁ ++ l₂)) = foldFrom (l₁ ++ l₂) := by
    unfold foldFrom
    simp only [List.foldl_cons]
    have : step init d = init := by decide
    rw [this]
  rw [h2] at h1
  exact h1

end Kanidm.AccountPolicy
