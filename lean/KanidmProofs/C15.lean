import KanidmProofs.Lemmas.SchemaCheck
/-!
# C15 — Every stored entry satisfies the schema

Property theorems only (lemmas in `Lemmas/SchemaCheck.lean`).  `validate`, `validateAva`,
`validateInvalid`, `validateRepl`, `sealEntry` and the store paths (`runSteps`, step lists
`Gen.pipelines`) transcribe the code; their operators, class / attribute names, field chains and the
order of calls on every path that writes to the backend are regenerated from the source on every
run (`Generated/SchemaCheckOps.lean`).  `Conforms` is the declarative specification written from
the property text: only allowed attributes, every required attribute present, single-valued
attributes with at most one value, every value valid for its syntax — plus the supplements /
excludes rules and the two exemptions the code has (conflict entries; recycled entries may miss
required attributes).
-/
namespace Kanidm.SchemaCheck
open Gen

/-- The regenerated operators, names, field chains and exit order of `validate`, `validate_ava`,
`validate_repl` and `seal` are the ones the proofs below are about. -/
theorem ops_as_modelled :
    exemptClass = .conflict ∧ recycledFlagClass = .recycled ∧ extensibleFlagClass = .extensibleObject
    ∧ missingMustSoftenedByRecycled = true ∧ supplementsEmptyOk = true ∧ supplementsQuant = .any
    ∧ supplementsFields = [.systemsupplements, .supplements]
    ∧ excludesFields = [.systemexcludes, .excludes]
    ∧ mustFields = [.systemmust, .must]
    ∧ mayFields = [.systemmust, .must, .systemmay, .may]
    ∧ extensibleRejectsPhantom = true
    ∧ (∀ m n, singleValueViolated m n = (!m && decide (n > 1)))
    ∧ avaRequiresSyntaxEq = true ∧ avaRequiresValuesValid = true
    ∧ invalidChecksUuidFirst = true ∧ refreshChecksUuidFirst = true
    ∧ replFailClasses = [.recycled, .conflict] ∧ replFailAttr = .sourceUuid
    ∧ sealAttrs = [.lastModifiedCid, .createdAtCid]
    ∧ validateReturns = [.noClassFound, .okConflict, .noClassFound, .noClassFound, .invalidClass,
        .supplementsNotSatisfied, .excludesNotSatisfied, .corrupted, .missingMustAttribute,
        .phantomAttribute, .avaCheck, .invalidAttribute, .corrupted, .avaCheck,
        .attributeNotValidForClass, .okEnd] :=
  ops_as_modelled_lemma

/-- `validate_ava` accepts exactly: cardinality respected, syntax equal, every value valid. -/
theorem validate_ava_iff (sa : SAttr) (a : Nat) (ava : Ava) :
    validateAva sa a ava = .ok () ↔
      (sa.multivalue = true ∨ ava.vals.length ≤ 1) ∧ sa.syn = ava.syn ∧ ∀ v ∈ ava.vals, v.ok = true :=
  validateAva_ok_iff sa a ava

/-- `validate` accepts exactly the entries that satisfy the schema (soundness and completeness). -/
theorem validate_iff_conforms (s : Schema) (e : Entry) :
    validate s e = .ok () ↔ Conforms s e :=
  validate_ok_iff_conforms s e

/-- The four conditions of the statement, for a live (not conflict, not recycled) entry that is
not an extensible object: only allowed attributes; every required attribute present;
single-valued attributes hold at most one value; every value is of the attribute's syntax and
valid for it. -/
theorem validate_ok_statement {s : Schema} {e : Entry} {ecs : List Nat}
    (h : validate s e = .ok ()) (hcs : classSet e = some ecs)
    (hnc : cConflict ∉ ecs) (hnr : cRecycled ∉ ecs) (hnx : cExtensible ∉ ecs) :
    (∀ p ∈ e, Allowed s ecs p.1)
    ∧ (∀ a, Required s ecs a → ∃ ava, getAva e a = some ava)
    ∧ (∀ p ∈ e, ∀ sa, findAttr s p.1 = some sa → sa.multivalue = false → p.2.vals.length ≤ 1)
    ∧ (∀ p ∈ e, ∃ sa, findAttr s p.1 = some sa ∧ sa.syn = p.2.syn ∧ ∀ v ∈ p.2.vals, v.ok = true) := by
  obtain ⟨ecs', hcs', hb⟩ := (validate_ok_iff_conforms s e).1 h
  rw [hcs] at hcs'; cases hcs'
  rcases hb with hb | hb
  · exact absurd hb hnc
  rcases hb.attrs with ⟨hx, _⟩ | ⟨_, _, ha⟩
  · exact absurd hx hnx
  refine ⟨fun p hp => (ha p hp).1, ?_, ?_, ?_⟩
  · rcases hb.requiredPresent with hr | hr
    · exact absurd hr hnr
    · exact hr
  · intro p hp sa hsa hmv
    obtain ⟨_, sa', hsa', hok⟩ := ha p hp
    rw [hsa] at hsa'; cases hsa'
    rcases hok.1 with h1 | h1
    · rw [hmv] at h1; cases h1
    · exact h1
  · intro p hp
    obtain ⟨_, sa, hsa, hok⟩ := ha p hp
    exact ⟨sa, hsa, hok.2.1, hok.2.2⟩

/-- The create / modify / refresh entry point first insists on a single uuid, then validates. -/
theorem validate_invalid_iff (s : Schema) (e : Entry) :
    validateInvalid s e = .ok () ↔ uuidSingle e = true ∧ Conforms s e := by
  unfold validateInvalid
  simp only [invalidChecksUuidFirst, Bool.true_and]
  cases hu : uuidSingle e with
  | false => simp
  | true => simp [validate_ok_iff_conforms]

/-- Every path that writes to the backend (regenerated list of all call sites outside `be/`)
validates its candidates after the last rewrite and only seals between validation and the write. -/
theorem pipelines_well_ordered : ∀ p ∈ pipelines, wellOrdered p.2 = true := by
  decide

/-- What a store path writes: whatever the plugins, modlists and the replication merge do to the
candidates (`env` is arbitrary), every entry that reaches the backend is `Checked`: it passed the
schema check after the last rewrite and was only sealed afterwards (or, on the replication path
only, its class attribute is not a set of class names, which `validate_repl` cannot refuse). -/
theorem store_path_writes_only_checked {s : Schema} (env : Env)
    (hcc : ∀ e ∈ env.conflictCopies, ∃ ecs, classSet e = some ecs ∧ cConflict ∈ ecs)
    (p : String × List Step) (hp : p ∈ pipelines) (cands out : List Entry)
    (hr : runSteps env s p.2 cands [] = .ok out) :
    ∀ e ∈ out, Checked s e :=
  runSteps_checked env (fun e he => checked_of_conflict (hcc e he)) p.2 false cands [] out
    (pipelines_well_ordered p hp) (fun h => by cases h) (fun e he => by cases he) hr

/-- Sealing a validated candidate that carries its two cid attributes keeps it valid. -/
theorem seal_keeps_valid {s : Schema} {e : Entry} (cid : Nat) (h : validate s e = .ok ())
    (hc : HasCid e) : validate s (sealEntry cid e) = .ok () :=
  (validate_ok_iff_conforms _ _).2 (conforms_seal cid ((validate_ok_iff_conforms _ _).1 h) hc)

/-- A refused operation leaves the database as it was. -/
theorem rejected_leaves_nothing {s : Schema} {db : Db} {o : Op}
    (h : (applyOp s db o).2 = false) : (applyOp s db o).1 = db :=
  applyOp_rejected h

/-- Adding attributes and classes (and `may` attributes to a class) keeps valid entries valid. -/
theorem schema_extension_keeps_valid {s s' : Schema} {e : Entry} (hx : SchemaExt s s')
    (h : validate s e = .ok ()) : validate s' e = .ok () :=
  (validate_ok_iff_conforms s' e).2 (conforms_mono hx ((validate_ok_iff_conforms s e).1 h))

/-- The invariant of the property: over any history of operations through the store paths and of
schema reloads that only extend, every stored entry is `Checked` against the schema in force. -/
theorem stored_entries_checked (h : List HStep) (s : Schema) (db : Db)
    (hdb : ∀ e ∈ db, Checked s e) (hok : HistoryOk s h) :
    ∀ e ∈ (runHistory s db h).2, Checked (runHistory s db h).1 e :=
  runHistory_checked h s db hdb hok

/-- … hence every stored LIVE entry (class attribute without `conflict` / `recycled`; class
`object`, which the Base plugin puts on every entry) satisfies the schema in force exactly as
stored, the two attributes `seal` rewrites included. `SchemaCidFacts`: `object` requires
`last_modified_cid` and `created_at_cid` and both are cid-typed (true of the shipped schema,
checked by the harness on every schema it dumps). -/
theorem stored_live_entries_valid (h : List HStep) (s : Schema) (db : Db)
    (hdb : ∀ e ∈ db, Checked s e) (hok : HistoryOk s h)
    (hf : SchemaCidFacts (runHistory s db h).1) :
    ∀ e ∈ (runHistory s db h).2, ∀ ecs, classSet e = some ecs → cObject ∈ ecs →
      cConflict ∉ ecs → cRecycled ∉ ecs → validate (runHistory s db h).1 e = .ok () :=
  fun e he => checked_live_valid hf (runHistory_checked h s db hdb hok e he)

/-- Replication: a merged entry that fails the schema is not refused but becomes a recycled
conflict entry — it is no longer live, and as a conflict entry it is exempt. -/
theorem repl_invalid_becomes_conflict {s : Schema} {u : Nat} {e : Entry}
    (h : validate s e ≠ .ok ()) (hwt : ClassWellTyped e) :
    (∃ ecs, classSet (validateRepl s u e) = some ecs ∧ cConflict ∈ ecs ∧ cRecycled ∈ ecs)
    ∧ validate s (validateRepl s u e) = .ok () := by
  cases hv : validate s e with
  | ok _ => exact absurd hv h
  | error x =>
    obtain ⟨ecs, h1, h2, h3⟩ := validateRepl_of_err (u := u) hv hwt
    exact ⟨⟨ecs, h1, h2, h3⟩, (validate_ok_iff_conforms _ _).2 ⟨ecs, h1, Or.inl h2⟩⟩

/-- … and a merged entry that passes is stored as it is. -/
theorem repl_valid_unchanged {s : Schema} {u : Nat} {e : Entry} (h : validate s e = .ok ()) :
    validateRepl s u e = e :=
  validateRepl_of_ok h

/-! ## Narrowing schema edits are outside the invariant (as the quantifier says)

A reload never revalidates stored entries, so the invariant over *arbitrary* reloads is false. -/

/-- the invariant claimed for histories whose reloads are arbitrary -/
def stored_live_entries_valid_full : Prop :=
  ∀ (s s' : Schema) (db : Db), SchemaCidFacts s' → (∀ e ∈ db, Checked s e) →
    ∀ e ∈ (runHistory s db [.reload s']).2, ∀ ecs, classSet e = some ecs → cObject ∈ ecs →
      cConflict ∉ ecs → cRecycled ∉ ecs → validate (runHistory s db [.reload s']).1 e = .ok ()

def demoAttrs : List SAttr :=
  [⟨aClass, synIutf8, true, false⟩, ⟨aUuid, synUuid, false, false⟩,
   ⟨aLastMod, synCid, false, false⟩, ⟨aCreatedAt, synCid, false, false⟩,
   ⟨16, 5, false, false⟩, ⟨17, 6, true, false⟩, ⟨18, 5, false, false⟩]

def demoObject : SClass := ⟨cObject, [aClass, aUuid, aLastMod, aCreatedAt], [], [], [], [], [], [], []⟩
def demoGroup : SClass := ⟨16, [16], [], [17], [18], [], [], [], []⟩
/-- the same class after an administrator removed `may: 18` -/
def demoGroupNarrow : SClass := ⟨16, [16], [], [17], [], [], [], [], []⟩

def demoSchema : Schema := ⟨demoAttrs, [demoObject, demoGroup, ⟨cRecycled, [], [], [], [], [], [], [], []⟩]⟩
def demoNarrow : Schema := ⟨demoAttrs, [demoObject, demoGroupNarrow, ⟨cRecycled, [], [], [], [], [], [], [], []⟩]⟩
/-- pure addition: a new attribute 19 and a new class 17 that may carry it -/
def demoWide : Schema :=
  ⟨demoAttrs ++ [⟨19, 5, true, false⟩],
   [demoObject, demoGroup, ⟨cRecycled, [], [], [], [], [], [], [], []⟩, ⟨17, [], [], [19], [], [16], [], [], []⟩]⟩

/-- a create request after `assign_cid` -/
def demoEntry : Entry :=
  [(aClass, ⟨synIutf8, [⟨cObject, true⟩, ⟨16, true⟩]⟩), (aUuid, ⟨synUuid, [⟨100, true⟩]⟩),
   (aLastMod, ⟨synCid, [⟨9, true⟩]⟩), (aCreatedAt, ⟨synCid, [⟨9, true⟩]⟩),
   (16, ⟨5, [⟨7, true⟩]⟩), (18, ⟨5, [⟨8, true⟩]⟩)]

theorem demo_valid : validate demoSchema demoEntry = .ok () := by rfl
theorem demo_narrow_invalid :
    validate demoNarrow demoEntry = .error (.attributeNotValidForClass 18) := by rfl

theorem demo_facts (s : Schema) (hs : s = demoSchema ∨ s = demoNarrow ∨ s.classes.head? = some demoObject ∧ s.attrs.take 7 = demoAttrs) :
    SchemaCidFacts s := by
  have hobj : findClass s cObject = some demoObject := by
    rcases hs with rfl | rfl | ⟨h1, _⟩
    · rfl
    · rfl
    · unfold findClass
      cases hc : s.classes with
      | nil => rw [hc] at h1; cases h1
      | cons x r => rw [hc] at h1; simp at h1; subst h1; rfl
  refine ⟨⟨demoObject, hobj, Or.inl (by decide), Or.inl (by decide)⟩, ?_⟩
  intro a sa ha hfa
  have key : ∀ l : List SAttr, l.take 7 = demoAttrs → ∀ a, (a = aLastMod ∨ a = aCreatedAt) →
      ∀ sa, l.find? (fun x => x.name == a) = some sa → sa.syn = synCid := by
    intro l hl a ha sa hfa
    rw [← List.take_append_drop 7 l, hl, List.find?_append] at hfa
    rcases ha with rfl | rfl
    · have : List.find? (fun x => x.name == aLastMod) demoAttrs = some ⟨aLastMod, synCid, false, false⟩ := by rfl
      rw [this] at hfa; simp at hfa; subst hfa; rfl
    · have : List.find? (fun x => x.name == aCreatedAt) demoAttrs = some ⟨aCreatedAt, synCid, false, false⟩ := by rfl
      rw [this] at hfa; simp at hfa; subst hfa; rfl
  rcases hs with rfl | rfl | ⟨_, h2⟩
  · exact key demoAttrs rfl a ha sa hfa
  · exact key demoAttrs rfl a ha sa hfa
  · exact key s.attrs h2 a ha sa hfa

theorem stored_live_entries_valid_full_false : ¬ stored_live_entries_valid_full := by
  intro h
  have hg : ∀ e ∈ [demoEntry], Checked demoSchema e := by
    intro e he
    simp only [List.mem_singleton] at he
    subst he
    exact .passed demo_valid
  have := h demoSchema demoNarrow [demoEntry] (demo_facts _ (Or.inr (Or.inl rfl))) hg
    demoEntry (by simp [runHistory]) [cObject, 16] (by rfl) (by decide) (by decide) (by decide)
  simp only [runHistory] at this
  rw [demo_narrow_invalid] at this
  cases this

/-! ## Non-vacuity -/

/-- a create through the regenerated `create` path: the plugins add class `object`, the entry is
validated, sealed and stored -/
def demoEnv : Env :=
  { rewrite := fun _ e => e, refuse := fun _ _ => false, conflictCopies := [], cid := 9,
    uuidOf := fun _ => 100 }

def demoCreate : Op := ⟨(pipelines.lookup "create").getD [], demoEnv, fun _ => false, [demoEntry]⟩

example : (applyOp demoSchema [] demoCreate).2 = true := by decide
example : (applyOp demoSchema [] demoCreate).1 = [sealEntry 9 demoEntry] := by decide
example : validate demoSchema (sealEntry 9 demoEntry) = .ok () := by rfl
example : HasCid demoEntry := ⟨⟨_, rfl, rfl⟩, ⟨_, rfl, rfl⟩⟩

/-- an ill-typed request (two values on the single-valued attribute 16) is refused, nothing stored -/
def demoBad : Entry :=
  [(aClass, ⟨synIutf8, [⟨cObject, true⟩, ⟨16, true⟩]⟩), (aUuid, ⟨synUuid, [⟨101, true⟩]⟩),
   (aLastMod, ⟨synCid, [⟨9, true⟩]⟩), (aCreatedAt, ⟨synCid, [⟨9, true⟩]⟩),
   (16, ⟨5, [⟨7, true⟩, ⟨8, true⟩]⟩)]
example : validate demoSchema demoBad = .error (.invalidAttributeSyntax 16) := by rfl
example : applyOp demoSchema [sealEntry 9 demoEntry]
    ⟨(pipelines.lookup "create").getD [], demoEnv, fun _ => false, [demoBad]⟩
    = ([sealEntry 9 demoEntry], false) := by decide

/-- a missing required attribute is refused for a live entry and tolerated for a recycled one -/
def demoMissing (recycled : Bool) : Entry :=
  [(aClass, ⟨synIutf8, [⟨cObject, true⟩, ⟨16, true⟩] ++ (if recycled then [⟨cRecycled, true⟩] else [])⟩),
   (aUuid, ⟨synUuid, [⟨102, true⟩]⟩), (aLastMod, ⟨synCid, [⟨9, true⟩]⟩), (aCreatedAt, ⟨synCid, [⟨9, true⟩]⟩)]
example : validate demoSchema (demoMissing false) = .error (.missingMustAttribute [16]) := by rfl
example : validate demoSchema (demoMissing true) = .ok () := by rfl

/-- replication: the merge of two individually valid edits (one side dropped class 16, the other
set attribute 16) fails the schema and becomes a recycled conflict entry -/
def demoMerged : Entry :=
  [(aClass, ⟨synIutf8, [⟨cObject, true⟩]⟩), (aUuid, ⟨synUuid, [⟨103, true⟩]⟩),
   (aLastMod, ⟨synCid, [⟨9, true⟩]⟩), (aCreatedAt, ⟨synCid, [⟨9, true⟩]⟩), (16, ⟨5, [⟨7, true⟩]⟩)]
example : validate demoSchema demoMerged = .error (.attributeNotValidForClass 16) := by rfl
example : classSet (validateRepl demoSchema 103 demoMerged) = some [cObject, cRecycled, cConflict] := by
  decide
example : ClassWellTyped demoMerged := by
  intro ava h
  have : getAva demoMerged aClass = some ⟨synIutf8, [⟨cObject, true⟩]⟩ := by decide
  rw [this] at h; cases h; rfl

/-- the hypotheses of `stored_entries_checked` are satisfiable by a history with a create and an
extending reload (new attribute 19, new class 17) -/
theorem demo_ext : SchemaExt demoSchema demoWide := by
  refine ⟨?_, ?_, ?_⟩
  · intro a sa h
    have h' : List.find? (fun x => x.name == a) demoAttrs = some sa := h
    show List.find? (fun x => x.name == a) (demoAttrs ++ _) = some sa
    rw [List.find?_append, h']; rfl
  · intro c sc h
    have hm := List.mem_of_find?_eq_some h
    have hn : sc.name = c := by simpa using List.find?_some h
    simp only [demoSchema, List.mem_cons, List.not_mem_nil, or_false] at hm
    rcases hm with rfl | rfl | rfl <;> subst hn <;>
      exact ⟨_, by decide, rfl, rfl, fun _ h => h, fun _ h => h, rfl, rfl, rfl, rfl⟩
  · intro c sc' h a ha
    have hm : sc' ∈ demoWide.classes := List.mem_of_find?_eq_some h
    have hall : ∀ sc ∈ demoWide.classes, ∀ a ∈ sc.systemmust ++ sc.must ++ sc.systemmay ++ sc.may,
        (findAttr demoWide a).isSome = true := by decide
    refine Option.isSome_iff_exists.1 (hall sc' hm a ?_)
    simp only [List.mem_append]
    rcases ha with ha | ha | ha | ha
    · exact Or.inl (Or.inl (Or.inl ha))
    · exact Or.inl (Or.inl (Or.inr ha))
    · exact Or.inl (Or.inr ha)
    · exact Or.inr ha

example : HistoryOk demoSchema [.op demoCreate, .reload demoWide] :=
  ⟨⟨by decide, fun e he => by cases he⟩, demo_ext, trivial⟩

example : SchemaCidFacts demoWide := demo_facts _ (Or.inr (Or.inr ⟨rfl, rfl⟩))

example : (runHistory demoSchema [] [.op demoCreate, .reload demoWide]).2 = [sealEntry 9 demoEntry] := by
  decide

end Kanidm.SchemaCheck
