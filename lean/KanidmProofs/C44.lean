import KanidmProofs.Lemmas.OfflineCache
/-!
C44 — Offline login accepts only the last password verified online.

Model: `KanidmModel/OfflineCache.lean` (+ `Generated/OfflineCacheOps.lean`, `PwFormatTables.lean`,
`HostAuthzOps.lean`, all regenerated from the source).  Vocabulary (`sealed`, `lastVerified`,
`expected`, `Reachable`, `NotSealedHere`, …) in `Lemmas/OfflineCache.lean`.  `H_kdf` (hashes and
HMAC never collide on the values in play) is built into `verifyCtx`; see the model's header.
-/
namespace Kanidm.OfflineCache
open Kanidm.Gen.PwFormat (KdfTag)
open Kanidm.Gen.OfflineCache

/-! ## The two helpers (`kanidm_update_cached_password`, `kanidm_check_cached_password`) -/

/-- A cached credential accepts a password iff it is the HMAC-bound Argon2id credential of
exactly that password under exactly this machine's key — for every stored value (none, junk, any
hash kind, any key). -/
theorem check_accepts_iff_sealed_here (hostKey cred : Nat) (b : Option Blob) :
    checkCached hostKey b cred = true ↔ b = some (sealed hostKey cred) :=
  checkCached_iff hostKey cred b

/-- A credential sealed with another machine's key is refused for every password. -/
theorem sealed_elsewhere_rejected (hostKey key pw cred : Nat) (h : key ≠ hostKey) :
    checkCached hostKey (some (sealed key pw)) cred = false := by
  simp [sealed, checkCached_tpm, h]

/-- A credential that is not HMAC-bound (plain Argon2id, PBKDF2, …) is refused for every password. -/
theorem unsealed_rejected (hostKey pw key cred : Nat) (t : KdfTag) (h : t ≠ .TPM_ARGON2ID) :
    checkCached hostKey (some (.kdf t pw key)) cred = false :=
  checkCached_other hostKey pw key cred t h

/-- What a successful online verification stores accepts exactly the verified password, on this
machine only. -/
theorem update_then_check (hostKey key p cred : Nat) (old : Option Blob) :
    checkCached key (updateCached hostKey true p old) cred = true ↔ p = cred ∧ hostKey = key := by
  rw [updateCached_ok, checkCached_iff]
  simp [sealed]

/-- KDF / TPM failure while storing clears the cached credential; without one nothing is accepted. -/
theorem kdf_failure_clears (hostKey p : Nat) (old : Option Blob) :
    updateCached hostKey false p old = none :=
  updateCached_fail hostKey p old

theorem no_cache_no_offline (hostKey cred : Nat) : checkCached hostKey none cred = false :=
  checkCached_none hostKey cred

example : checkCached 7 (updateCached 7 true 5 none) 5 = true := by decide
example : checkCached 7 (updateCached 7 true 5 none) 6 = false := by decide
example : checkCached 8 (updateCached 7 true 5 none) 5 = false := by decide
example : checkCached 7 (some (.kdf .ARGON2ID 5 7)) 5 = false := by decide

/-! ## Histories -/

/-- In every state a sequential history can reach, the credential held for every account is what
the events say: the sealed hash of the most recently verified password, unless the KDF failed,
the row was purged (account gone), the cache was cleared, or somebody overwrote it since. -/
theorem cache_tracks_history {hostKey : Nat} {w : World} {st : St} {evs : List Ev}
    (hr : Reachable hostKey w st evs) (id : Nat) :
    credOf st id = expected hostKey id evs :=
  reachable_inv hr id

/-- A login attempt that takes the offline path succeeds iff the credential the history left for
the account is the one this machine sealed from the offered password. -/
theorem offline_accept_iff_expected {hostKey : Nat} {w w' : World} {st st' : St} {evs e : List Ev}
    {id cred : Nat} {i : InitRes} {res : PamOut}
    (hr : Reachable hostKey w st evs)
    (h : step hostKey w st (.auth id cred) = (w', st', .auth i .offline (some res), e)) :
    res = .success ↔ expected hostKey id (evs ++ e) = some (sealed hostKey cred) := by
  obtain ⟨_, htr, _, hoff, _, _⟩ := auth_spec hostKey w st id cred h
  have hinv := (reachable_inv hr).step htr
  rw [(hoff i res rfl).2, checkCached_iff, hinv id]

/-- THE PROPERTY.  A password accepted on the offline path (a) is the most recent password the
directory verified for that account on this machine, (b) was checked against a credential sealed
with this machine's key, and the provider was not online — for every sequential history of
logins, server-side changes, outages, invalidations, clears, lookups and tampering, as long as
nobody planted a credential sealed with this very machine's key (which only this machine's TPM can
produce; re-planting an old row of the same machine is the one thing the cache cannot notice). -/
theorem offline_accept_only_last_verified_same_key {hostKey : Nat} {w w' : World} {st st' : St}
    {evs e : List Ev} {id cred : Nat} {i : InitRes}
    (hr : Reachable hostKey w st evs)
    (h : step hostKey w st (.auth id cred) = (w', st', .auth i .offline (some .success), e))
    (hplant : ∀ j b, Ev.planted j b ∈ evs ++ e → NotSealedHere hostKey b) :
    lastVerified id (evs ++ e) = some cred ∧ credOf st' id = some (sealed hostKey cred) ∧
      st'.net ≠ .online := by
  obtain ⟨_, htr, _, hoff, _, _⟩ := auth_spec hostKey w st id cred h
  have hexp := (offline_accept_iff_expected hr h).mp rfl
  have hinv := (reachable_inv hr).step htr
  exact ⟨expected_sealed_is_last hplant hexp, by rw [hinv id, hexp], (hoff i .success rfl).1⟩

/-- Clause (b) alone needs no assumption about tampering. -/
theorem accepted_credential_is_sealed_here {hostKey : Nat} {w w' : World} {st st' : St}
    {evs e : List Ev} {id cred : Nat} {i : InitRes}
    (hr : Reachable hostKey w st evs)
    (h : step hostKey w st (.auth id cred) = (w', st', .auth i .offline (some .success), e)) :
    credOf st' id = some (sealed hostKey cred) := by
  obtain ⟨_, htr, _, _, _, _⟩ := auth_spec hostKey w st id cred h
  rw [(reachable_inv hr).step htr id, (offline_accept_iff_expected hr h).mp rfl]

/-- An attempt accepted on the online path was verified by the directory in that very attempt;
an attempt without a session is never accepted. -/
theorem online_accept_is_verified_now {hostKey : Nat} {w w' : World} {st st' : St} {e : List Ev}
    {id cred : Nat} {i : InitRes}
    (h : step hostKey w st (.auth id cred) = (w', st', .auth i .online (some .success), e)) :
    Ev.auth id cred true ∈ e :=
  (auth_spec hostKey w st id cred h).2.2.2.2.1 i rfl

theorem no_session_no_accept {hostKey : Nat} {w w' : World} {st st' : St} {e : List Ev}
    {id cred : Nat} {i : InitRes} {res : PamOut}
    (h : step hostKey w st (.auth id cred) = (w', st', .auth i .none (some res), e)) :
    res ≠ .success :=
  (auth_spec hostKey w st id cred h).2.2.2.2.2 i res rfl

/-- An offline session is only opened while the provider is not online, for an account that
holds a credential, and it snapshots the cached row. -/
theorem offline_session_only_when_not_online (w : World) (st : St) (id : Nat)
    {st' : St} {i : Nat} {snap : Tok} {r : InitRes} {e : List Ev}
    (h : authInit w st id = (st', some (.offline i snap), r, e)) :
    i = id ∧ st'.net ≠ .online ∧ snap.cred.isSome = true ∧
      ∃ row, st'.cache id = some row ∧ row.tok = snap := by
  have hs := authInit_spec 0 w st id
  rw [h] at hs
  obtain ⟨_, _, hoff, _⟩ := hs
  obtain ⟨h1, h2, h3, _, h5⟩ := hoff i snap rfl
  exact ⟨h1, h2, h3, h5⟩

/-- As coded: a login refused online (wrong or former password, any error reply) leaves the
cache — and so the offline credential — untouched. -/
theorem online_denial_keeps_cache (hostKey : Nat) (w : World) (st : St) (id cred : Nat)
    (h : (w.auth id cred).1 ≠ .token) :
    (onlineStep hostKey w st id cred).1 = st ∧ (onlineStep hostKey w st id cred).2.1 ≠ .success := by
  have hs := onlineStep_spec hostKey w st id cred
  rcases ho : onlineStep hostKey w st id cred with ⟨st', r, e⟩
  rw [ho] at hs
  exact hs.2.2.2.2 h

/-! ## Non-vacuity: concrete histories (host key 0, account 1) -/

/-- verified online with 5, server changes to 6, host forced offline: 5 accepted, 6 refused -/
def hist1 : List Op :=
  [.srv 1 (some ⟨5, true⟩), .auth 1 5, .srv 1 (some ⟨6, true⟩), .auth 1 5, .markOffline]

example : ∀ op ∈ hist1, op.sequential = true := by decide

example : (run 0 (hist1 ++ [.auth 1 5, .auth 1 6])).map (·.2.1) =
    [.ok, .auth .password .online (some .success), .ok, .auth .password .online (some .denied), .ok,
     .auth .password .offline (some .success), .auth .password .offline (some .denied)] := by decide

example : lastVerified 1 (exec 0 hist1).2.2 = some 5 ∧
    expected 0 1 (exec 0 hist1).2.2 = some (sealed 0 5) := by decide

/-- the same, but the directory then says the account is gone: the row is purged, nothing accepted -/
example : (run 0 [.srv 1 (some ⟨5, true⟩), .auth 1 5, .srv 1 none, .invalidate, .lookup 1,
      .markOffline, .auth 1 5]).map (·.2.1) =
    [.ok, .auth .password .online (some .success), .ok, .ok, .look none, .ok,
     .auth .unknown .none none] := by decide

/-- a credential sealed elsewhere (key 9) or not sealed at all, planted for the right password, is refused -/
example : (run 0 [.srv 1 (some ⟨5, true⟩), .auth 1 5, .markOffline, .plant 1 (some (sealed 9 5)),
      .auth 1 5, .plant 1 (some (.kdf .PBKDF2 5 0)), .auth 1 5]).map (·.2.1) =
    [.ok, .auth .password .online (some .success), .ok, .ok,
     .auth .password .offline (some .denied), .ok, .auth .password .offline (some .denied)] := by decide

/-! ## Outside the quantifier: a login attempt left open while another one completes

`AuthSession::Offline` snapshots the token at `init`; `unix_user_offline_auth_step` checks the
offered password against that snapshot.  So an attempt opened offline and answered after another
login verified a new password online still accepts the superseded one (observed on the real code
by the `interleaved` stream).  Sequential histories (`Reachable`) exclude it. -/
theorem stale_session_accepts_superseded_password :
    (run 0 [.srv 1 (some ⟨5, true⟩), .auth 1 5, .markOffline, .init 0 1, .markNextCheck, .invalidate,
        .srv 1 (some ⟨6, true⟩), .auth 1 6, .stepS 0 5]).map (·.2.1) =
      [.ok, .auth .password .online (some .success), .ok, .init .password .offline, .ok, .ok, .ok,
       .auth .password .online (some .success), .step .success .offline] ∧
    lastVerified 1 (exec 0 [.srv 1 (some ⟨5, true⟩), .auth 1 5, .markOffline, .init 0 1,
        .markNextCheck, .invalidate, .srv 1 (some ⟨6, true⟩), .auth 1 6, .stepS 0 5]).2.2 = some 6 := by
  decide

end Kanidm.OfflineCache
