import KanidmProofs.C28
import KanidmModel.SoftLockPolicy
/-!
# C28 — which policy a credential gets (`Credential::softlock_policy`)

The decision trees are regenerated from `credential/mod.rs` on every run; the theorems compose them
with the lock theorems of `KanidmProofs/C28.lean`.
-/
namespace Kanidm.SoftLock
open Kanidm.Gen.SoftLock Kanidm.Gen.SoftLockPolicy

theorem pickStep_min : ∀ (l : List Nat), l ≠ [] →
    ∃ m, pickStep true l = some m ∧ m ∈ l ∧ ∀ x ∈ l, m ≤ x
  | [], h => absurd rfl h
  | [x], _ => ⟨x, rfl, by simp, by simp⟩
  | x :: y :: ys, _ => by
    obtain ⟨m, hm, hmem, hle⟩ := pickStep_min (y :: ys) (by simp)
    unfold pickStep
    rw [hm]
    by_cases h : m < x
    · refine ⟨m, by simp [h], List.mem_cons_of_mem _ hmem, ?_⟩
      intro z hz
      cases hz with
      | head => omega
      | tail _ hz => exact hle z hz
    · refine ⟨x, by simp [h], List.mem_cons_self, ?_⟩
      intro z hz
      cases hz with
      | head => omega
      | tail _ hz => have := hle z hz; omega

/-- **every_credential_type_rate_limited**: for every credential (any `CredentialType` variant,
any token maps with positive TOTP steps) `softlock_policy` is never `Unrestricted`, is well formed,
and therefore a recorded failure at any time from any lock state leaves the credential `Locked`
with `ct < unlock_at ≤ reset_at` and refused at every time up to `unlock_at`. -/
theorem every_credential_type_rate_limited (c : CredShape) (hpos : ∀ st ∈ c.totpSteps, 0 < st) :
    softlockPolicy c ≠ .unrestricted ∧ (softlockPolicy c).WF ∧
    ∀ (s : SoftLock) (ct : Nat), s.policy = softlockPolicy c →
      ∃ n r u, (recordFailure s ct).state = .locked n r u ∧ ct < u ∧ u ≤ r ∧
        ∀ t, t ≤ u → isValid (applyTimeStep (recordFailure s ct) t none) = false := by
  have hne : softlockPolicy c ≠ .unrestricted := by
    unfold softlockPolicy
    cases c.kind <;> simp only [policyTree, evalTree] <;> (repeat' split) <;> simp
  have hwf : (softlockPolicy c).WF := by
    unfold softlockPolicy
    cases c.kind <;> simp only [policyTree, evalTree] <;> (repeat' split) <;>
      simp only [Policy.WF]
    rename_i hc
    have hl : c.totpSteps ≠ [] := by
      intro h; simp [evalCond, h] at hc
    obtain ⟨m, hm, hmem, _⟩ := pickStep_min c.totpSteps hl
    have : minStep c = m := by
      simp [minStep, show totpStepIsMin = true from rfl, hm]
    rw [this]; exact hpos m hmem
  refine ⟨hne, hwf, ?_⟩
  intro s ct hs
  obtain ⟨n, r, u, h1, h2, h3, h4⟩ := locked_until_unlock s ct (hs ▸ hwf) (hs ▸ hne)
  refine ⟨n, r, u, h1, h2, h3, fun t ht => ?_⟩
  have := (h4 [t] (by simpa using ht)).2
  simpa using this

/-- Non-vacuity: a password+TOTP credential with steps 60 and 30 gets `Totp(30)`; its first
failure at 100 s locks until 101 s. -/
example :
    softlockPolicy { kind := .passwordMfa, totpSteps := [60, 30], wanKeys := 0 } = .totp 30 ∧
    (recordFailure (new (.totp 30)) (fromSecs 100)).state = .locked 1 (fromSecs 120) (fromSecs 101) := by
  decide

/-- **password_only_credential_budget**: a password-only credential (`Password`,
`GeneratedPassword`, or `PasswordMfa` with no token left) gets the Password policy, hence at most
100 recorded failures per UTC day from any lock state. -/
theorem password_only_credential_budget (c : CredShape)
    (hk : c.kind = .password ∨ c.kind = .generatedPassword ∨
      (c.kind = .passwordMfa ∧ c.totpSteps = [] ∧ c.wanKeys = 0)) :
    softlockPolicy c = .password ∧
    ∀ (s : SoftLock), s.policy = softlockPolicy c → ∀ (es : List Event) (now day : Nat),
      Mono now es → NoAdmin es → Protocol es → failsIn 86400 day s es ≤ 100 := by
  have hp : softlockPolicy c = .password := by
    unfold softlockPolicy
    rcases hk with h | h | ⟨h, h1, h2⟩
    · rw [h]; simp [policyTree, evalTree]
    · rw [h]; simp [policyTree, evalTree]
    · rw [h]; simp [policyTree, evalTree, evalCond, h1, h2]
  refine ⟨hp, fun s hs es now day hm hna hpr => ?_⟩
  exact password_at_most_100_per_utc_day s (hs.trans hp) es now day hm hna hpr

example : softlockPolicy { kind := .generatedPassword, totpSteps := [], wanKeys := 0 } = .password := by
  decide

/-- **totp_credential_budget**: a TOTP-protected credential (`PasswordMfa` with at least one
token, all steps positive) gets `Totp(step)` where `step` is the step of one of its tokens and no
token has a shorter one; hence at most 3 recorded failures per such TOTP step. -/
theorem totp_credential_budget (c : CredShape) (hk : c.kind = .passwordMfa)
    (hl : c.totpSteps ≠ []) (hpos : ∀ st ∈ c.totpSteps, 0 < st) :
    ∃ step, step ∈ c.totpSteps ∧ (∀ st ∈ c.totpSteps, step ≤ st) ∧
      softlockPolicy c = .totp step ∧
      ∀ (s : SoftLock), s.policy = softlockPolicy c → ∀ (es : List Event) (now k : Nat),
        Mono now es → NoAdmin es → Protocol es → failsIn step k s es ≤ 3 := by
  obtain ⟨m, hm, hmem, hle⟩ := pickStep_min c.totpSteps hl
  have hp : softlockPolicy c = .totp m := by
    unfold softlockPolicy
    rw [hk]
    have : c.totpSteps.isEmpty = false := by
      cases h : c.totpSteps with
      | nil => exact absurd h hl
      | cons _ _ => rfl
    simp [policyTree, evalTree, evalCond, this, minStep, show totpStepIsMin = true from rfl, hm]
  refine ⟨m, hmem, hle, hp, fun s hs es now k hmo hna hpr => ?_⟩
  exact totp_at_most_3_per_step s m (hpos m hmem) (hs.trans hp) es now k hmo hna hpr

example : ∃ c : CredShape, c.kind = .passwordMfa ∧ c.totpSteps ≠ [] ∧ (∀ st ∈ c.totpSteps, 0 < st) ∧
    softlockPolicy c = .totp 30 :=
  ⟨{ kind := .passwordMfa, totpSteps := [30, 45], wanKeys := 2 }, by decide⟩

end Kanidm.SoftLock
