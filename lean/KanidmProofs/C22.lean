import KanidmProofs.Lemmas.Spn
/-!
# C22 — SPNs are always name@domain

Every live account or group has exactly one SPN, equal to its name followed by '@' and the
current domain name, after any create or rename and after the domain itself is renamed.

The theorems are about `Kanidm.Spn.step` / `stepRes` — the functions the driver `km_c22` runs
against the real server — and depend on the operators regenerated from the source into
`KanidmModel/Generated/SpnOps.lean`.
-/
namespace Kanidm.Spn
open Kanidm.Gen

/-! ## generate_spn -/

/-- `Entry::generate_spn` on an entry with a single name returns exactly {(name, domain)},
whatever the entry's spn attribute held before. -/
theorem generate_spn_of_name (e : Entry) (n dom : Str) (h : e.name = [n]) :
    generateSpn e dom = some (.spn [(n, dom)]) := generateSpn_named dom h

/-- The string form of a generated value is the name, '@', the domain. -/
theorem render_is_name_at_domain (n dom : Str) : render (n, dom) = n ++ '@' :: dom := by
  simp [render, SpnOps.render]

/-! ## every operation preserves the invariant -/

theorem create_inv {s s' : State} {cands : List Entry} (hi : Inv s)
    (h : create s cands = .ok s') : Inv s' := by
  unfold create at h
  split at h
  · cases h
  · split at h
    · cases h
    · split at h
      · cases h
      · next cs hcs =>
        split at h
        · cases h
        · split at h
          · cases h
          · next hschema =>
            cases h
            refine ⟨hi.1, ?_⟩
            intro e he
            simp only [List.mem_append] at he
            rcases he with he | he
            · exact hi.2 e he
            · obtain ⟨x, _, hfx⟩ := mapOpt_mem hcs he
              have hs : schemaOk e = true := by
                simp only [Bool.not_eq_true', Bool.not_eq_false] at hschema
                exact (List.all_eq_true.mp hschema) e he
              have := spnHook_entryOk hfx hs
              rw [hi.1] at this
              exact this

theorem modify_inv {s s' : State} {sel : Entry → Bool} {mods : List Mod} (hi : Inv s)
    (h : modifyCore s sel mods = .ok s') : Inv s' := by
  obtain ⟨hm, hd⟩ := modifyCore_doms h
  have := modifyCore_entries (s := s) (fun e he _ => by rw [hi.1]; exact hi.2 e he) h
  refine ⟨by rw [hm, hd]; exact hi.1, ?_⟩
  intro e he
  rw [hd, ← hi.1]
  exact this e he

theorem domainRename_inv {s s' : State} {d : Str} (hi : Inv s)
    (h : domainRename s d = .ok s') : Inv s' := by
  simp only [domainRename, SpnOps.domainRenameSetsDomainName, SpnOps.hooksWired,
    SpnOps.pluginRegistered, SpnOps.domainChanged, SpnOps.reloadBeforeRegen,
    SpnOps.regenPurgesAllSpnHolders, if_true, Bool.and_self, Bool.true_and] at h
  by_cases hne : (d != s.domDb) = true
  · simp only [hne, if_true] at h
    split at h
    · next s3 h3 =>
      cases h
      obtain ⟨_, hd⟩ := modifyCore_doms h3
      have hall := modifyCore_entries (s := { s with domDb := d, domMem := d })
        (sel := fun e => e.spn.isSome) (mods := [.purgeSpn]) (s' := s3) (by
          intro e he hsel
          -- an untouched entry is recycled, unmanaged, or had no spn (impossible for a live
          -- managed one under the invariant)
          intro hl hm
          have hok := hi.2 e he hl hm
          have hnone : e.spn.isSome = false := by simpa [hl] using hsel
          cases hsn : single? e.name with
          | some n => rw [hsn] at hok; simp only at hok; rw [hok] at hnone; simp at hnone
          | none =>
            rw [hsn] at hok; simp only at hok
            obtain ⟨p, hp⟩ := hok
            rw [hp] at hnone; simp at hnone) h3
      refine ⟨rfl, ?_⟩
      intro e he
      simp only at hd
      simp only [hd]
      exact hall e he
    · cases h
  · have heq : d = s.domDb := by simpa using hne
    simp only [hne] at h
    simp at h
    subst h
    refine ⟨rfl, ?_⟩
    simp only
    rw [heq]
    exact hi.2

theorem delete_inv {s s' : State} {ids : List Nat} (hi : Inv s)
    (h : delete s ids = .ok s') : Inv s' := by
  unfold delete at h
  split at h
  · cases h
  · cases h
    refine ⟨hi.1, ?_⟩
    intro e he
    simp only [List.mem_map] at he
    obtain ⟨x, hx, rfl⟩ := he
    split
    · exact entryOk_of_not_live rfl
    · exact hi.2 x hx

theorem revive_inv {s s' : State} {ids : List Nat} (hi : Inv s)
    (h : revive s ids = .ok s') : Inv s' := by
  unfold revive at h
  split at h
  · cases h
  · split at h
    · cases h
    · next es hes =>
      split at h
      · cases h
      · next cs hcs =>
        split at h
        · cases h
        · split at h
          · cases h
          · next hschema =>
            cases h
            refine ⟨hi.1, ?_⟩
            intro y hy
            obtain ⟨x, hx, hfx⟩ := mapOpt_mem hes hy
            by_cases hsel : (!x.live && ids.contains x.id) = true
            · have hxf : x ∈ s.entries.filter (fun e => !e.live && ids.contains e.id) := by
                simp only [List.mem_filter]; exact ⟨hx, hsel⟩
              have hyc : y ∈ cs := mapOpt_mem_fwd hcs hxf hfx
              have hys : schemaOk y = true := by
                simp only [Bool.not_eq_true', Bool.not_eq_false] at hschema
                exact (List.all_eq_true.mp hschema) y hyc
              simp only [reviveEntry, hsel, if_true, SpnOps.reviveRunsPreModify] at hfx
              have := spnHook_entryOk hfx hys
              rw [hi.1] at this
              exact this
            · have hsel' : (!x.live && ids.contains x.id) = false := by simpa using hsel
              simp only [reviveEntry, hsel'] at hfx
              simp at hfx
              subst hfx
              exact hi.2 x hx

/-- **Invariant step.** Whatever the operation (create, rename, direct write of spn or name,
domain rename, delete, revive) and whether it succeeds or fails, the state after the
transaction satisfies the invariant again. -/
theorem spn_inv_step (s : State) (op : Op) (hi : Inv s) : Inv (step s op) := by
  unfold step
  cases hres : stepRes s op with
  | err k => exact hi
  | ok s' =>
    simp only
    cases op with
    | create cands => exact create_inv hi hres
    | modify ids mods => exact modify_inv hi hres
    | domainRename d => exact domainRename_inv hi hres
    | delete ids => exact delete_inv hi hres
    | revive ids => exact revive_inv hi hres

/-- **Invariant over histories**, by induction over the list of operations. -/
theorem spn_inv_history (ops : List Op) (s : State) (hi : Inv s) : Inv (run s ops) := by
  induction ops generalizing s with
  | nil => exact hi
  | cons op ops ih => exact ih (step s op) (spn_inv_step s op hi)

/-- **Exactly one spn.** In a state satisfying the invariant every live account or group has
an spn attribute holding exactly one value. -/
theorem exactly_one_spn (s : State) (hi : Inv s) (e : Entry) (he : e ∈ s.entries)
    (hl : e.live = true) (hm : e.grp = true ∨ e.acct = true) :
    ∃ p, e.spn = some (.spn [p]) := by
  have hok := hi.2 e he hl hm
  cases hsn : single? e.name with
  | some n => rw [hsn] at hok; exact ⟨_, hok⟩
  | none => rw [hsn] at hok; exact hok

/-- **name@domain.** … and when the entry has its name, that value is (name, current domain),
whose string form is name ++ "@" ++ domain. -/
theorem spn_is_name_at_domain (s : State) (hi : Inv s) (e : Entry) (he : e ∈ s.entries)
    (hl : e.live = true) (hm : e.grp = true ∨ e.acct = true) (n : Str) (hn : e.name = [n]) :
    e.spn = some (.spn [(n, s.domDb)]) ∧ render (n, s.domDb) = n ++ '@' :: s.domDb ∧
      s.domMem = s.domDb := by
  have hok := hi.2 e he hl hm
  simp only [hn, single?] at hok
  exact ⟨hok, render_is_name_at_domain _ _, hi.1⟩

/-! ## names stay in place over the property's histories -/

theorem mapOpt_named {f : Entry → Option Entry} {l l' : List Entry}
    (h : mapOpt f l = some l') (hf : ∀ x ∈ l, ∀ y, f x = some y → Named x → Named y)
    (hl : ∀ x ∈ l, Named x) : ∀ y ∈ l', Named y := by
  intro y hy
  obtain ⟨x, hx, hfx⟩ := mapOpt_mem h hy
  exact hf x hx y hfx (hl x hx)

theorem spnHook_named_pres {dom : Str} {e e' : Entry} (h : spnHook dom e = some e')
    (hn : Named e) : Named e' := by
  obtain ⟨_, hg, ha, _, hname⟩ := spnHook_fields h
  intro hm
  rw [hg, ha] at hm
  rw [hname]
  exact hn hm

/-- Operations of the property's histories keep every account and group (live or recycled)
with exactly one name. -/
theorem named_step (s : State) (op : Op) (hn : AllNamed s) (hop : op.inScope = true) :
    AllNamed (step s op) := by
  unfold step
  cases hres : stepRes s op with
  | err k => exact hn
  | ok s' =>
    simp only
    cases op with
    | create cands =>
      simp only [stepRes] at hres
      unfold create at hres
      split at hres
      · cases hres
      · split at hres
        · cases hres
        · split at hres
          · cases hres
          · next cs hcs =>
            split at hres
            · cases hres
            · split at hres
              · cases hres
              · cases hres
                intro e he
                simp only [List.mem_append] at he
                rcases he with he | he
                · exact hn e he
                · obtain ⟨x, hx, hfx⟩ := mapOpt_mem hcs he
                  apply spnHook_named_pres hfx
                  intro _
                  simp only [List.mem_map] at hx
                  obtain ⟨c, hc, rfl⟩ := hx
                  simp only [Op.inScope, List.all_eq_true, decide_eq_true_eq] at hop
                  have hlen := hop c hc
                  simp only
                  revert hlen
                  cases c.name with
                  | nil => simp
                  | cons a t =>
                    cases t with
                    | nil => intro _; exact ⟨a, rfl⟩
                    | cons b t => simp
    | modify ids mods =>
      simp only [stepRes] at hres
      unfold modifyCore at hres
      split at hres
      · cases hres; exact hn
      · split at hres
        · cases hres
        · next es hes =>
          split at hres
          · cases hres
          · split at hres
            · cases hres
            · split at hres
              · cases hres
              · cases hres
                apply mapOpt_named hes _ hn
                intro x _ y hfx hnx
                simp only [modifyEntry] at hfx
                split at hfx
                · apply spnHook_named_pres hfx
                  intro hm
                  obtain ⟨hg, ha, _, _⟩ := applyMods_classes x mods
                  rw [hg, ha] at hm
                  exact nameSafe_named mods x (by simpa [Op.inScope] using hop) (hnx hm)
                · simp at hfx; subst hfx; exact hnx
    | domainRename d =>
      simp only [stepRes, domainRename, SpnOps.domainRenameSetsDomainName, SpnOps.hooksWired,
        SpnOps.pluginRegistered, SpnOps.domainChanged, SpnOps.reloadBeforeRegen,
        SpnOps.regenPurgesAllSpnHolders, if_true, Bool.and_self, Bool.true_and] at hres
      split at hres
      · split at hres
        · next s3 h3 =>
          cases hres
          unfold modifyCore at h3
          split at h3
          · cases h3; exact hn
          · split at h3
            · cases h3
            · next es hes =>
              split at h3
              · cases h3
              · split at h3
                · cases h3
                · split at h3
                  · cases h3
                  · cases h3
                    apply mapOpt_named hes _ hn
                    intro x _ y hfx hnx
                    simp only [modifyEntry] at hfx
                    split at hfx
                    · apply spnHook_named_pres hfx
                      intro hm
                      obtain ⟨hg, ha, _, _⟩ := applyMods_classes x [.purgeSpn]
                      rw [hg, ha] at hm
                      exact nameSafe_named [.purgeSpn] x rfl (hnx hm)
                    · simp at hfx; subst hfx; exact hnx
        · cases hres
      · cases hres; exact hn
    | delete ids =>
      simp only [stepRes] at hres
      unfold delete at hres
      split at hres
      · cases hres
      · cases hres
        intro e he
        simp only [List.mem_map] at he
        obtain ⟨x, hx, rfl⟩ := he
        split
        · exact hn x hx
        · exact hn x hx
    | revive ids =>
      simp only [stepRes] at hres
      unfold revive at hres
      split at hres
      · cases hres
      · split at hres
        · cases hres
        · next es hes =>
          split at hres
          · cases hres
          · split at hres
            · cases hres
            · split at hres
              · cases hres
              · cases hres
                apply mapOpt_named hes _ hn
                intro x _ y hfx hnx
                simp only [reviveEntry, SpnOps.reviveRunsPreModify, if_true] at hfx
                split at hfx
                · exact spnHook_named_pres hfx hnx
                · simp at hfx; subst hfx; exact hnx

theorem named_history (ops : List Op) (s : State) (hn : AllNamed s)
    (hops : ∀ op ∈ ops, op.inScope = true) : AllNamed (run s ops) := by
  induction ops generalizing s with
  | nil => exact hn
  | cons op ops ih =>
    exact ih (step s op) (named_step s op hn (hops op List.mem_cons_self))
      (fun o ho => hops o (List.mem_cons_of_mem _ ho))

/-- **The property.** From any state that satisfies the invariant and in which accounts and
groups are named, after any history of creates, renames, direct spn writes, domain renames,
deletes and revives (each succeeding or failing): every live account or group has exactly
one spn value; it is (name, current domain); its string form is name ++ "@" ++ domain. -/
theorem spn_always_name_at_domain (s : State) (ops : List Op) (hi : Inv s) (hn : AllNamed s)
    (hops : ∀ op ∈ ops, op.inScope = true) (e : Entry) (he : e ∈ (run s ops).entries)
    (hl : e.live = true) (hm : e.grp = true ∨ e.acct = true) :
    ∃ n, e.name = [n] ∧ e.spn = some (.spn [(n, (run s ops).domDb)]) ∧
      render (n, (run s ops).domDb) = n ++ '@' :: (run s ops).domDb := by
  obtain ⟨n, hname⟩ := named_history ops s hn hops e he hm
  obtain ⟨h1, h2, _⟩ := spn_is_name_at_domain _ (spn_inv_history ops s hi) e he hl hm n hname
  exact ⟨n, hname, h1, h2⟩

/-- **Domain rename takes effect.** A successful domain rename makes `d` the current domain
name, in the database and in memory; with `spn_inv_step` every live named account or group
then has (name, d). -/
theorem domain_rename_current {s s' : State} {d : Str} (h : domainRename s d = .ok s') :
    s'.domDb = d ∧ s'.domMem = d := by
  simp only [domainRename, SpnOps.domainRenameSetsDomainName, SpnOps.hooksWired,
    SpnOps.pluginRegistered, SpnOps.domainChanged, SpnOps.reloadBeforeRegen,
    SpnOps.regenPurgesAllSpnHolders, if_true, Bool.and_self, Bool.true_and] at h
  split at h
  · split at h
    · next s3 h3 =>
      cases h
      obtain ⟨_, hd⟩ := modifyCore_doms h3
      simp only at hd
      exact ⟨hd, hd⟩
    · cases h
  · cases h; exact ⟨rfl, rfl⟩

/-! ## the hypotheses are what the driver evaluates on the real server's state -/

/-- The `inv=` flag printed by the driver (`invB`) decides `Inv`. -/
theorem driver_inv_flag (s : State) : invB s = true ↔ Inv s := invB_iff s

/-- The `named=` flag printed by the driver (`namedB`) decides `AllNamed`. -/
theorem driver_named_flag (s : State) : namedB s = true ↔ AllNamed s := namedB_iff s

/-! ## beyond the property's histories: nameless groups (observation, see notes/C22.md) -/

/-- A live group whose name was purged keeps whatever spn it had, and from then on every
domain rename to a different name fails (`InvalidEntryState` out of `Spn::modify_inner`):
the purge leaves the group with neither name nor spn. -/
theorem nameless_blocks_domain_rename (s : State) (d : Str) (e : Entry) (he : e ∈ s.entries)
    (hl : e.live = true) (hm : e.grp = true ∨ e.acct = true) (hname : e.name = [])
    (hspn : e.spn.isSome = true) (hd : d ≠ s.domDb) : domainRename s d = .err .spn := by
  have hne : (d != s.domDb) = true := by simpa using hd
  simp only [domainRename, SpnOps.domainRenameSetsDomainName, SpnOps.hooksWired,
    SpnOps.pluginRegistered, SpnOps.domainChanged, SpnOps.reloadBeforeRegen,
    SpnOps.regenPurgesAllSpnHolders, if_true, Bool.and_self, hne]
  have hsel : (e.live && e.spn.isSome) = true := by simp [hl, hspn]
  have hfail : modifyEntry d (fun e => e.spn.isSome) [.purgeSpn] e = none := by
    have hmg : managed (applyMods e [.purgeSpn]) = true := by
      simp [applyMods, applyMod, managed, SpnOps.managed]
      exact hm
    simp only [modifyEntry, hsel, if_true, spnHook, SpnOps.hooksWired, SpnOps.pluginRegistered,
      Bool.and_self, spnTransform, hmg]
    have : generateSpn (applyMods e [.purgeSpn]) d = none := by
      rw [generateSpn_nameless]
      · simp [applyMods, applyMod]
      · simp [applyMods, applyMod, hname, single?]
    simp [this, SpnOps.failOnUngeneratable]
  have hany : s.entries.any (fun e => e.live && e.spn.isSome) = true :=
    List.any_eq_true.mpr ⟨e, he, hsel⟩
  have hnone : mapOpt (modifyEntry d (fun e => e.spn.isSome) [.purgeSpn]) s.entries = none := by
    cases hmo : mapOpt (modifyEntry d (fun e => e.spn.isSome) [.purgeSpn]) s.entries with
    | none => rfl
    | some es =>
      exfalso
      have : ∀ (l : List Entry) (es : List Entry), e ∈ l →
          mapOpt (modifyEntry d (fun e => e.spn.isSome) [.purgeSpn]) l = some es → False := by
        intro l
        induction l with
        | nil => intro _ h; simp at h
        | cons a l ih =>
          intro es hmem h
          unfold mapOpt at h
          rcases List.mem_cons.mp hmem with rfl | hmem'
          · simp [hfail] at h
          · cases hfa : modifyEntry d (fun e => e.spn.isSome) [.purgeSpn] a with
            | none => simp [hfa] at h
            | some b =>
              cases hrest : mapOpt (modifyEntry d (fun e => e.spn.isSome) [.purgeSpn]) l with
              | none => simp [hfa, hrest] at h
              | some ys => exact ih ys hmem' hrest
      exact this s.entries es he hmo
  simp [modifyCore, hany, hnone]

/-! ## non-vacuity: concrete states and histories -/

def exDom : Str := "example.com".toList
def exDom2 : Str := "new.example.com".toList

/-- admin-like account, a group, a recycled person whose spn still names an older domain. -/
def exState : State :=
  { domMem := exDom, domDb := exDom,
    entries := [
      ⟨1, false, true, true, ["alice".toList], some (.spn [("alice".toList, exDom)])⟩,
      ⟨2, true, false, true, ["staff".toList], some (.spn [("staff".toList, exDom)])⟩,
      ⟨3, false, true, false, ["bob".toList], some (.spn [("bob".toList, "old.example".toList)])⟩] }

example : Inv exState := by
  refine ⟨rfl, ?_⟩
  intro e he
  simp only [exState, List.mem_cons, List.mem_nil_iff, or_false] at he
  rcases he with rfl | rfl | rfl <;> intro hl _ <;> first | rfl | cases hl

example : AllNamed exState := by
  intro e he
  simp only [exState, List.mem_cons, List.mem_nil_iff, or_false] at he
  rcases he with rfl | rfl | rfl <;> intro _ <;> exact ⟨_, rfl⟩

/-- create a service account (caller supplies a wrong spn), rename alice, try to overwrite the
group's spn, rename the domain, revive bob. -/
def exOps : List Op :=
  [ .create [⟨4, false, true, true, ["svc".toList], some (.spn [("svc".toList, "evil.example".toList)])⟩],
    .modify [1] [.purgeName, .presentName "alice2".toList],
    .modify [2] [.purgeSpn, .presentSpn ("root".toList, exDom)],
    .domainRename exDom2,
    .revive [3] ]

example : ∀ op ∈ exOps, op.inScope = true := by decide

/-- every operation of the example succeeds, and the result is as the property says -/
example : run exState exOps =
    { domMem := exDom2, domDb := exDom2,
      entries := [
        ⟨1, false, true, true, ["alice2".toList], some (.spn [("alice2".toList, exDom2)])⟩,
        ⟨2, true, false, true, ["staff".toList], some (.spn [("staff".toList, exDom2)])⟩,
        ⟨3, false, true, true, ["bob".toList], some (.spn [("bob".toList, exDom2)])⟩,
        ⟨4, false, true, true, ["svc".toList], some (.spn [("svc".toList, exDom2)])⟩] } := by
  decide

example : render ("alice2".toList, exDom2) = "alice2@new.example.com".toList := by decide

/-- a duplicate name is refused (uniqueness), the state is unchanged -/
example : stepRes exState (.create [⟨5, true, false, true, ["staff".toList], none⟩]) = .err .unique := by
  decide

/-- the nameless-group observation is not vacuous -/
def exNameless : State :=
  { exState with entries := exState.entries ++
      [⟨6, true, false, true, [], some (.spn [("ghost".toList, "elsewhere.example".toList)])⟩] }

example : Inv exNameless := by
  refine ⟨rfl, ?_⟩
  intro e he
  simp only [exNameless, exState, List.cons_append, List.nil_append, List.mem_cons,
    List.mem_nil_iff, or_false] at he
  rcases he with rfl | rfl | rfl | rfl
  · intro _ _; rfl
  · intro _ _; rfl
  · intro hl; cases hl
  · intro _ _
    show ∃ p, some (SpnVs.spn [("ghost".toList, "elsewhere.example".toList)]) = some (SpnVs.spn [p])
    exact ⟨_, rfl⟩

example : domainRename exNameless exDom2 = .err .spn := by decide

end Kanidm.Spn
