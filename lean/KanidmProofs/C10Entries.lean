import KanidmModel.RangeEntries
/-! C10 (extension): entry selection and per-entry change filtering of the supplier. -/
namespace Kanidm.RangeEntries
open Kanidm.RangeDiff Kanidm.Gen.RangeEntries

theorem lookup_mem {m : Ruv} {k : Nat} {r : Range} (h : lookup m k = some r) : (k, r) ∈ m := by
  induction m with
  | nil => simp [lookup] at h
  | cons p rest ih =>
    obtain ⟨k', r'⟩ := p
    simp only [lookup] at h
    split at h
    · rename_i hk; subst hk; simp at h; subst h; simp
    · exact List.mem_cons_of_mem _ (ih h)

theorem lookupCid_mem {m : RuvIdx} {c : Cid} {ids : List Nat} (h : lookupCid m c = some ids) :
    (c, ids) ∈ m := by
  induction m with
  | nil => simp [lookupCid] at h
  | cons p rest ih =>
    obtain ⟨k', r'⟩ := p
    simp only [lookupCid] at h
    split at h
    · rename_i hk; subst hk; simp at h; subst h; simp
    · exact List.mem_cons_of_mem _ (ih h)

/-- The generated bound kinds and window test are the property's: strictly newer than the consumer's
newest change, up to and including the supplier's newest; a server outside the ranges is not sent. -/
theorem entry_ops_are_spec (ts rmin rmax : Nat) :
    idlLower ts rmin = decide (rmin < ts) ∧ (idlUpper ts rmax = true ∨ idlUpper ts rmax = decide (ts ≤ rmax)) ∧
    attrWithin ts rmin rmax = decide (rmin < ts ∧ ts ≤ rmax) ∧ attrMissingRange = false := by
  refine ⟨rfl, Or.inl rfl, ?_, rfl⟩
  simp only [attrWithin, Bool.decide_and, gt_iff_lt]
  exact Bool.and_comm _ _

example : idlLower 5 5 = false ∧ idlLower 6 5 = true ∧ attrWithin 7 5 7 = true ∧ attrWithin 8 5 7 = false := by decide

theorem within_iff (ctx : Ruv) (c : Cid) : within ctx c = true ↔ InRange ctx c := by
  unfold within InRange
  cases h : lookup ctx c.s with
  | none => simp [(entry_ops_are_spec 0 0 0).2.2.2]
  | some r => simp [(entry_ops_are_spec c.ts r.tsMin r.tsMax).2.2.1]

theorem mem_idl_iff (ranged : Ranged) (ruv : RuvIdx) (ctx : Ruv) (id : Nat) :
    id ∈ rangeToIdl ranged ruv ctx ↔
      ∃ p ∈ ctx, ∃ ts ∈ (lookupTs ranged p.1).getD [], idlLower ts p.2.tsMin = true ∧
        idlUpper ts p.2.tsMax = true ∧ id ∈ (lookupCid ruv ⟨p.1, ts⟩).getD [] := by
  unfold rangeToIdl
  simp only [List.mem_flatMap]
  constructor
  · rintro ⟨p, hp, h⟩
    refine ⟨p, hp, ?_⟩
    cases hl : lookupTs ranged p.1 with
    | none => simp [hl] at h
    | some tss =>
      simp only [hl, List.mem_flatMap, List.mem_filter, Bool.and_eq_true] at h
      obtain ⟨ts, ⟨hts, hlo, hhi⟩, hid⟩ := h
      refine ⟨ts, by simpa using hts, hlo, hhi, ?_⟩
      cases hc : lookupCid ruv ⟨p.1, ts⟩ with
      | none => simp [hc] at hid
      | some ids => simpa [hc] using hid
  · rintro ⟨p, hp, ts, hts, hlo, hhi, hid⟩
    refine ⟨p, hp, ?_⟩
    cases hl : lookupTs ranged p.1 with
    | none => simp [hl] at hts
    | some tss =>
      simp only [hl, Option.getD_some] at hts
      simp only [List.mem_flatMap, List.mem_filter, Bool.and_eq_true]
      refine ⟨ts, ⟨hts, hlo, hhi⟩, ?_⟩
      cases hc : lookupCid ruv ⟨p.1, ts⟩ with
      | none => simp [hc] at hid
      | some ids => simpa [hc] using hid

/-- An entry is sent iff it has a change in a supplied range (given the RUV-index invariant). -/
theorem entry_sent_iff (ranged : Ranged) (ruv : RuvIdx) (entries : List Entry) (ctx : Ruv)
    (hs : IndexSound ruv entries) (hc : IndexComplete ranged ruv entries)
    (hcap : Capped ranged ctx) (hm : MapLike ctx) (e : Entry) :
    e ∈ retrieveRange ranged ruv entries ctx ↔ e ∈ entries ∧ HasChangeIn ctx e := by
  unfold retrieveRange
  simp only [List.mem_filter, List.contains_iff_mem, mem_idl_iff]
  constructor
  · rintro ⟨he, p, hp, ts, hts, hlo, _, hid⟩
    refine ⟨he, ⟨p.1, ts⟩, ?_, p.2, hm p hp, ?_, hcap p hp ts hts⟩
    · cases hl : lookupCid ruv ⟨p.1, ts⟩ with
      | none => simp [hl] at hid
      | some ids =>
        simp only [hl, Option.getD_some] at hid
        exact hs _ (lookupCid_mem hl) _ hid e he rfl
    · simpa [(entry_ops_are_spec ts p.2.tsMin 0).1] using hlo
  · rintro ⟨he, c, hcm, r, hl, hlo, hhi⟩
    obtain ⟨h1, h2⟩ := hc e he c hcm
    refine ⟨he, (c.s, r), lookup_mem hl, c.ts, h1, ?_, ?_, h2⟩
    · simpa [(entry_ops_are_spec c.ts r.tsMin 0).1] using hlo
    · rcases (entry_ops_are_spec c.ts 0 r.tsMax).2.1 with h | h
      · exact h
      · simpa [h] using hhi

/-- Hence the selection is exactly the filter "has a change in a supplied range", in order. -/
theorem supplied_entries_exact (ranged : Ranged) (ruv : RuvIdx) (entries : List Entry) (ctx : Ruv)
    (hs : IndexSound ruv entries) (hc : IndexComplete ranged ruv entries)
    (hcap : Capped ranged ctx) (hm : MapLike ctx) (s : Sent) :
    s ∈ supplyEntries ranged ruv entries ctx ↔
      ∃ e ∈ entries, HasChangeIn ctx e ∧ s = incrEntry ctx e := by
  unfold supplyEntries
  simp only [List.mem_map, entry_sent_iff ranged ruv entries ctx hs hc hcap hm]
  constructor
  · rintro ⟨e, ⟨he, hh⟩, rfl⟩; exact ⟨e, he, hh, rfl⟩
  · rintro ⟨e, he, hh, rfl⟩; exact ⟨e, ⟨he, hh⟩, rfl⟩

/-- For a live entry every replicated change in range is included and nothing else is. -/
theorem sent_changes_exact (ctx : Ruv) (id : Nat) (at_ : Cid) (changes : List (Nat × Cid × Bool)) :
    ∃ attrs, incrEntry ctx ⟨id, .live at_ changes⟩ = .live id at_ attrs ∧
      ∀ a c, (a, c) ∈ attrs ↔ ((a, c, true) ∈ changes ∧ InRange ctx c) := by
  refine ⟨_, rfl, ?_⟩
  intro a c
  simp only [List.mem_map, List.mem_filter, Bool.and_eq_true, within_iff]
  constructor
  · rintro ⟨⟨a', c', b⟩, ⟨hmem, hb, hin⟩, heq⟩
    simp only [Prod.mk.injEq] at heq
    obtain ⟨rfl, rfl⟩ := heq
    simp only at hb hin
    subst hb
    exact ⟨hmem, hin⟩
  · rintro ⟨hmem, hin⟩
    exact ⟨(a, c, true), ⟨hmem, rfl, hin⟩, rfl⟩

/-- A tombstone is sent as a tombstone at its cid, and only when that cid is in a supplied range. -/
theorem tombstone_sent_iff (ranged : Ranged) (ruv : RuvIdx) (entries : List Entry) (ctx : Ruv)
    (hs : IndexSound ruv entries) (hc : IndexComplete ranged ruv entries)
    (hcap : Capped ranged ctx) (hm : MapLike ctx) (id : Nat) (at_ : Cid)
    (he : (⟨id, .tombstone at_⟩ : Entry) ∈ entries) :
    (incrEntry ctx ⟨id, .tombstone at_⟩ = .tombstone id at_) ∧
    ((⟨id, .tombstone at_⟩ : Entry) ∈ retrieveRange ranged ruv entries ctx ↔ InRange ctx at_) := by
  refine ⟨rfl, ?_⟩
  rw [entry_sent_iff ranged ruv entries ctx hs hc hcap hm]
  simp [HasChangeIn, cids, he]

/-! ### Non-vacuity: a concrete index satisfying the invariant, with entries in and out of range -/
def exEntries : List Entry :=
  [⟨1, .live ⟨0, 2⟩ [(10, ⟨0, 2⟩, true), (11, ⟨0, 5⟩, true), (12, ⟨1, 7⟩, false)]⟩,
   ⟨2, .live ⟨0, 3⟩ [(10, ⟨0, 3⟩, true)]⟩,
   ⟨3, .tombstone ⟨1, 9⟩⟩, ⟨4, .tombstone ⟨0, 1⟩⟩]
def exRanged : Ranged := [(0, [1, 2, 3, 5]), (1, [7, 9])]
def exRuv : RuvIdx := [(⟨0, 1⟩, [4]), (⟨0, 2⟩, [1]), (⟨0, 3⟩, [2]), (⟨0, 5⟩, [1]), (⟨1, 7⟩, [1]), (⟨1, 9⟩, [3])]
def exCtx : Ruv := [(0, ⟨3, 5⟩), (1, ⟨7, 9⟩)]

example : IndexSound exRuv exEntries ∧ IndexComplete exRanged exRuv exEntries ∧ Capped exRanged exCtx ∧
    MapLike exCtx := by decide
example : supplyEntries exRanged exRuv exEntries exCtx =
    [.live 1 ⟨0, 2⟩ [(11, ⟨0, 5⟩)], .tombstone 3 ⟨1, 9⟩] := by decide
example : HasChangeIn exCtx ⟨1, .live ⟨0, 2⟩ [(10, ⟨0, 2⟩, true), (11, ⟨0, 5⟩, true), (12, ⟨1, 7⟩, false)]⟩ :=
  ⟨⟨0, 5⟩, by decide, ⟨3, 5⟩, by decide, by decide, by decide⟩
example : ¬ InRange exCtx ⟨0, 3⟩ := by
  rintro ⟨r, h, h1, _⟩
  have : r = ⟨3, 5⟩ := by simpa [exCtx, lookup] using h.symm
  subst this; exact absurd h1 (by decide)

end Kanidm.RangeEntries
