import KanidmProofs.Lemmas.HostAuthz
/-!
# C45 — Host login requires membership of an allowed group

Property theorems only (helpers in `Lemmas/HostAuthz.lean`).  `unixUserAuthorise` transcribes
`KanidmProvider::unix_user_authorise`, `pamAccountAllowed` transcribes
`Resolver::pam_account_allowed` including the system-provider short-circuit and the
cache / nxcache / refresh logic that selects *which* account record is judged
(`KanidmModel/HostAuthz.lean`).  The empty-list guard and answer, the keys a group contributes,
the final boolean expression, the short-circuit answers, the `UserTokenState → record` table and
the directory-reply table are regenerated from the source on every run
(`Generated/HostAuthzOps.lean`), so every theorem is re-proved about the code as it is now.
`Member allow t` is the declarative reading of "belongs, by name or UUID, to at least one group
in the host's allowed-login list".
-/
namespace Kanidm.HostAuthz
open Kanidm.Gen.HostAuthz

/-- **The decision.**  The provider answers "allowed" iff the record is valid and some group
of the record is named in the allowed-login list by name or by uuid. -/
theorem authorise_true_iff (allow : List Nat) (t : UserTok) :
    unixUserAuthorise allow t = some true ↔ t.valid = true ∧ Member allow t := by
  unfold unixUserAuthorise
  rw [dedup_isEmpty]
  cases allow with
  | nil => simp [emptyGuard, emptyAnswer, Member]
  | cons a as =>
    rw [← inter_iff_member, ← intersectionCount_pos]
    simp only [List.isEmpty_cons, emptyGuard, Bool.false_eq_true, if_false, decision,
      Option.some.injEq, Bool.and_eq_true, decide_eq_true_eq]
    constructor
    · rintro ⟨h1, h2⟩; exact ⟨h2, h1⟩
    · rintro ⟨h1, h2⟩; exact ⟨h2, h1⟩

/-- The provider never answers "unknown user": it always decides. -/
theorem authorise_decides (allow : List Nat) (t : UserTok) :
    ∃ b, unixUserAuthorise allow t = some b := by
  unfold unixUserAuthorise
  by_cases h : emptyGuard (dedup allow).isEmpty = true
  · exact ⟨false, by simp [h, emptyAnswer]⟩
  · exact ⟨_, by simp only [h, if_false]; rfl⟩

/-- **An empty allowed-login list admits nobody.** -/
theorem empty_allows_nobody (t : UserTok) : unixUserAuthorise [] t = some false := by
  simp [unixUserAuthorise, dedup, emptyGuard, emptyAnswer]

/-- **A record that is not valid is denied**, whatever its groups. -/
theorem invalid_token_denied (allow : List Nat) (t : UserTok) (h : t.valid = false) :
    unixUserAuthorise allow t = some false := by
  obtain ⟨b, hb⟩ := authorise_decides allow t
  cases b with
  | false => exact hb
  | true => have := ((authorise_true_iff allow t).mp hb).1; rw [h] at this; cases this

/-- A record none of whose groups is listed is denied. -/
theorem non_member_denied (allow : List Nat) (t : UserTok) (h : ¬ Member allow t) :
    unixUserAuthorise allow t = some false := by
  obtain ⟨b, hb⟩ := authorise_decides allow t
  cases b with
  | false => exact hb
  | true => exact absurd ((authorise_true_iff allow t).mp hb).2 h

/-- **The property at the PAM entry point.**  `pam_account_allowed` answers "allowed" iff the
account is a local system account, or the resolver's current record of the account (cached, or
just fetched from the directory) comes from a known provider, is valid, and is a member of an
allowed group.  Holds for every configuration, directory, cache state and account id. -/
theorem pam_allowed_iff (cfg : Cfg) (w : World) (st : St) (id : Nat) :
    (pamAccountAllowed cfg w st id).2 = .ok (some true) ↔
      id ∈ cfg.sys ∨
      (id ∉ cfg.sys ∧ ∃ t, (getUsertoken w st id).2 = some t ∧ t.known = true ∧
        t.valid = true ∧ Member cfg.allow t) := by
  unfold pamAccountAllowed sysAuthorise
  by_cases hs : id ∈ cfg.sys
  · simp [hs, sysKnown]
  · simp only [List.contains_iff_mem, hs, if_false, sysUnknown, false_or, not_false_eq_true, true_and]
    cases hg : getUsertoken w st id with
    | mk st' tok =>
      cases tok with
      | none => simp [noTokenAnswer]
      | some t =>
        by_cases hk : t.known = true
        · simp only [hk, if_true, Res.ok.injEq, Option.some.injEq, exists_eq_left', true_and]
          exact authorise_true_iff cfg.allow t
        · simp [hk]

/-- **Only-if direction, as the statement reads**: a directory user (not a local system
account) is let in only if the record is valid and a member of an allowed group. -/
theorem directory_user_needs_valid_member (cfg : Cfg) (w : World) (st : St) (id : Nat)
    (hdir : id ∉ cfg.sys) (h : (pamAccountAllowed cfg w st id).2 = .ok (some true)) :
    ∃ t, (getUsertoken w st id).2 = some t ∧ t.valid = true ∧ Member cfg.allow t := by
  rcases (pam_allowed_iff cfg w st id).mp h with hs | ⟨_, t, h1, _, h2, h3⟩
  · exact absurd hs hdir
  · exact ⟨t, h1, h2, h3⟩

/-- **An empty list admits no directory users** — in any cache state, online or offline. -/
theorem empty_list_admits_no_directory_user (sys : List Nat) (w : World) (st : St) (id : Nat)
    (hdir : id ∉ sys) :
    (pamAccountAllowed { sys := sys, allow := [] } w st id).2 ≠ .ok (some true) := by
  intro h
  obtain ⟨t, _, _, g, _, hg⟩ := directory_user_needs_valid_member _ w st id hdir h
  simp at hg

/-! ## Which record is judged ("the user's current account record") -/

/-- The record handed to the decision is the resolver's cached row for the account or the token
the directory serves for it right now — never anything else. -/
theorem record_is_cached_or_fresh (w : World) (st : St) (id : Nat) (t : UserTok)
    (h : (getUsertoken w st id).2 = some t) :
    (∃ e, cacheGet st.cache id = some e ∧ e.tok = t) ∨
    (∃ gs v, w.dir id = .tok gs v ∧ t = ⟨true, gs, v⟩) := by
  rcases (getUsertoken_spec w st id).1 with h0 | ⟨e, he, h1⟩ | ⟨gs, v, hd, h1⟩
  · rw [h0] at h; cases h
  · rw [h1] at h; cases h; exact Or.inl ⟨e, he, rfl⟩
  · rw [h1] at h; cases h; exact Or.inr ⟨gs, v, hd, rfl⟩

/-- **Freshness.**  When the cached row is missing or expired and the directory is reachable,
the decision is taken on the token the directory serves *now*: a user whose record has just
become invalid, or who has just left the allowed groups, is denied. -/
theorem fresh_record_decides (cfg : Cfg) (w : World) (st : St) (id : Nat) (gs : List GroupTok) (v : Bool)
    (hdir : id ∉ cfg.sys) (hnx : id ∉ st.nx)
    (hc : cacheGet st.cache id = none ∨
          ∃ e, cacheGet st.cache id = some e ∧ e.expired = true ∧ e.tok.known = true)
    (hon : (checkOnline w st.net).2 = true) (hd : w.dir id = .tok gs v) :
    (pamAccountAllowed cfg w st id).2 = .ok (unixUserAuthorise cfg.allow ⟨true, gs, v⟩) := by
  have hu : ∃ n, unixUserGet w st.net id = (n, .update, some ⟨true, gs, v⟩) := by
    unfold unixUserGet
    cases hco : checkOnline w st.net with
    | mk n b =>
      rw [hco] at hon
      simp only at hon
      subst hon
      exact ⟨n, by simp [hd]⟩
  obtain ⟨n, hu⟩ := hu
  have hg : (getUsertoken w st id).2 = some ⟨true, gs, v⟩ := by
    rcases hc with hc | ⟨e, hc, hex, hk⟩
    · simp [getUsertoken, getCached, hnx, hc, refreshUsertoken, hu, refreshAction]
    · simp [getUsertoken, getCached, hnx, hc, hex, refreshUsertoken, hu, refreshAction, hk]
  unfold pamAccountAllowed sysAuthorise
  simp only [List.contains_iff_mem, hdir, if_false, sysUnknown]
  cases hgu : getUsertoken w st id with
  | mk st' tok =>
    rw [hgu] at hg
    simp only at hg
    subst hg
    simp

/-- When the directory says the record is gone, the account is unknown (PAM falls through to
the next module), the row is purged and the account is remembered as non-existent. -/
theorem gone_record_means_no_such_user (cfg : Cfg) (w : World) (st : St) (id : Nat) (r : DirReply)
    (hdir : id ∉ cfg.sys) (hnx : id ∉ st.nx)
    (hc : cacheGet st.cache id = none ∨
          ∃ e, cacheGet st.cache id = some e ∧ e.expired = true ∧ e.tok.known = true)
    (hon : (checkOnline w st.net).2 = true) (hd : w.dir id = .other r) (hr : replyState r = .notFound) :
    (pamAccountAllowed cfg w st id).2 = .ok none ∧
    id ∈ (pamAccountAllowed cfg w st id).1.nx ∧
    cacheGet (pamAccountAllowed cfg w st id).1.cache id = none := by
  have hu : ∃ n, unixUserGet w st.net id = (n, .notFound, none) := by
    unfold unixUserGet
    cases hco : checkOnline w st.net with
    | mk n b =>
      rw [hco] at hon
      simp only at hon
      subst hon
      exact ⟨_, by simp only [hd, hr]; rfl⟩
  obtain ⟨n, hu⟩ := hu
  have hg : getUsertoken w st id = ({ net := n, cache := cacheErase st.cache id, nx := id :: st.nx }, none) := by
    rcases hc with hc | ⟨e, hc, hex, hk⟩
    · simp [getUsertoken, getCached, hnx, hc, refreshUsertoken, hu, refreshAction]
    · simp [getUsertoken, getCached, hnx, hc, hex, refreshUsertoken, hu, refreshAction, hk]
  unfold pamAccountAllowed sysAuthorise
  simp only [List.contains_iff_mem, hdir, if_false, sysUnknown, hg, noTokenAnswer]
  simp [cacheGet_erase]

/-! ## All histories -/

/-- One answered query in a state satisfying the invariant. -/
theorem query_justified (cfg : Cfg) (hist : List Op) (w : World) (st : St) (id : Nat)
    (h : Inv hist w st) (hdir : id ∉ cfg.sys)
    (ha : (pamAccountAllowed cfg w st id).2 = .ok (some true)) :
    ∃ t, Published hist id t ∧ t.valid = true ∧ Member cfg.allow t := by
  rcases (pam_allowed_iff cfg w st id).mp ha with hs | ⟨_, t, hg, _, hv, hm⟩
  · exact absurd hs hdir
  · refine ⟨t, ?_, hv, hm⟩
    rcases (getUsertoken_spec w st id).1 with h0 | ⟨e, he, h1⟩ | ⟨gs, v, hd, h1⟩
    · rw [h0] at hg; cases hg
    · rw [h1] at hg; cases hg; exact h.1 id e he
    · rw [h1] at hg; cases hg; exact Or.inr ⟨gs, v, h.2 id gs v hd, rfl⟩

/-- Generalisation of `history_sound` to any state satisfying the invariant. -/
theorem run_sound (cfg : Cfg) : ∀ (ops hist : List Op) (w : World) (st : St), Inv hist w st →
    ∀ id, (id, Res.ok (some true)) ∈ run cfg w st ops → id ∉ cfg.sys →
      ∃ t, Published (hist ++ ops) id t ∧ t.valid = true ∧ Member cfg.allow t := by
  intro ops
  induction ops with
  | nil => intro hist w st _ id h; simp [run] at h
  | cons op rest ih =>
    intro hist w st hinv id h hdir
    have hinv' := step_inv cfg hist w st op hinv
    have happ : hist ++ op :: rest = (hist ++ [op]) ++ rest := by simp
    rw [happ]
    unfold run at h
    cases hs : step cfg w st op with
    | mk w' p =>
      obtain ⟨st', r⟩ := p
      rw [hs] at hinv' h
      cases r with
      | none => exact ih _ w' st' hinv' id h hdir
      | some r =>
        simp only [List.mem_cons, Prod.mk.injEq] at h
        rcases h with ⟨hid, hr⟩ | h
        · -- this very step answered
          cases op with
          | query i =>
            simp only [Op.subject] at hid
            subst hid
            have hr' : (pamAccountAllowed cfg w st id).2 = .ok (some true) := by
              have : (step cfg w st (.query id)).2.2 = some (pamAccountAllowed cfg w st id).2 := rfl
              rw [hs] at this
              simp only [Option.some.injEq] at this
              rw [← this, ← hr]
            obtain ⟨t, hp, hv, hm⟩ := query_justified cfg hist w st id hinv hdir hr'
            exact ⟨t, (hp.mono [Op.query id]).mono rest, hv, hm⟩
          | setDir i d => simp [step] at hs
          | setSelf b => simp [step] at hs
          | invalidate => simp [step] at hs
          | markOffline => simp [step] at hs
          | markNextCheck => simp [step] at hs
          | seed i e => simp [step] at hs
        · exact ih _ w' st' hinv' id h hdir

/-- **The property over whole histories.**  Start the daemon with an empty cache and a
directory that has published no token yet; let the directory, the administrator and PAM act in
any order (`Op`), any number of times.  Whenever a directory user is let in, a record of that
very account that is valid and a member of an allowed group was seeded or published at some
point of the history — no interleaving of cache expiry, invalidation, offline periods,
directory errors, unknown-provider rows or removals lets anyone else in. -/
theorem history_sound (cfg : Cfg) (w0 : World) (st0 : St)
    (hw : ∀ id gs v, w0.dir id ≠ .tok gs v) (hs : st0.cache = [])
    (ops : List Op) (id : Nat)
    (h : (id, Res.ok (some true)) ∈ run cfg w0 st0 ops) (hdir : id ∉ cfg.sys) :
    ∃ t, Published ops id t ∧ t.valid = true ∧ Member cfg.allow t := by
  have hinv : Inv [] w0 st0 := by
    refine ⟨?_, fun id gs v h => absurd h (hw id gs v)⟩
    intro j e he
    rw [hs] at he
    cases he
  simpa using run_sound cfg ops [] w0 st0 hinv id h hdir

/-! ## Non-vacuity: concrete configurations meeting the hypotheses -/

private def staff : GroupTok := ⟨10, 11⟩
private def other : GroupTok := ⟨20, 21⟩
private def w0 : World := { selfOk := true, dir := fun _ => .other .gone }

example : unixUserAuthorise [10] ⟨true, [other, staff], true⟩ = some true := by decide
example : unixUserAuthorise [7, 11] ⟨true, [other, staff], true⟩ = some true := by decide   -- by uuid
example : unixUserAuthorise [10] ⟨true, [other, staff], false⟩ = some false := by decide
example : unixUserAuthorise [12] ⟨true, [other, staff], true⟩ = some false := by decide
example : Member [7, 11] ⟨true, [other, staff], true⟩ := by decide
example : ¬ Member [12] ⟨true, [other, staff], true⟩ := by decide
/-- system account short-circuit, unknown user, member, and the stale-then-refreshed sequence -/
example :
    run ⟨[99], [10]⟩ w0 St.init
      [.query 99, .query 1, .invalidate, .setDir 1 (.tok [staff] true), .query 1,
       .setDir 1 (.tok [staff] false), .query 1, .invalidate, .query 1,
       .setDir 2 (.tok [other] true), .query 2, .markOffline, .invalidate, .query 1,
       .setDir 1 (.other .gone), .markNextCheck, .query 1] =
      [(99, .ok (some true)), (1, .ok none), (1, .ok (some true)), (1, .ok (some true)),
       (1, .ok (some false)), (2, .ok (some false)), (1, .ok (some false)), (1, .ok none)] := by
  decide
/-- hypotheses of `fresh_record_decides` / `gone_record_means_no_such_user` are satisfiable -/
example : (checkOnline w0 St.init.net).2 = true ∧ cacheGet St.init.cache 1 = none ∧ 1 ∉ St.init.nx ∧
    replyState .gone = .notFound := by decide
/-- a seeded row of a provider the resolver has no client for ends in `Err` -/
example : run ⟨[], [10]⟩ w0 St.init [.seed 1 ⟨⟨false, [staff], true⟩, false⟩, .query 1] = [(1, .err)] := by
  decide

end Kanidm.HostAuthz
