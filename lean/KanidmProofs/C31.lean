import KanidmProofs.Lemmas.PwQuality
import KanidmProofs.C35
/-!
# C31 — Weak or badlisted passwords can never be set

Property theorems only (helper lemmas: `Lemmas/PwQuality.lean`).  `cuCheck` / `posixCheck` are
the transcriptions of the two `check_password_quality` functions; their gate order, length
comparisons (with operands), score threshold and "badlist key is lower-cased" are regenerated
from the source on every run (`KanidmModel/Generated/PwQualityOps.lean`), so the statements below
are about the code as it is now.  `lower` (= `str::to_lowercase`) is a parameter: every theorem
except the `casefold_*` ones holds for every function `lower`.

"Effective minimum" = the minimum of the account's resolved policy (C35's `foldFrom`), for the
direct POSIX change additionally at least the single-factor minimum.  The resolved policy of a
credential update session is the one resolved when the session was created.
-/
namespace Kanidm.PwQuality
open Kanidm.Gen.PwQuality
open Kanidm.AccountPolicy (Resolved AccountPolicy foldFrom)

/-- What C31 demands of a password `i` accepted under policy `pol` while the stored badlist was
`bl`: not shorter than the minimum, not longer than the maximum, not in the badlist. -/
def Good (lower : List Nat → List Nat) (pol : Resolved) (i : Input) (bl : List (List Nat)) : Prop :=
  pol.pwMinLength ≤ i.graphemes ∧ i.graphemes ≤ pol.pwMaxLength ∧ lower i.text ∉ bl

/-- **gates_present**: both functions (as regenerated) still contain the length gate, the score
gate and the badlist gate, the credential-update one also the two containment gates; both look
the *lower-cased* cleartext up; all three setters were shape-checked by the translator. -/
theorem gates_present :
    0 ∈ cuGates ∧ 1 ∈ cuGates ∧ 2 ∈ cuGates ∧ 3 ∈ cuGates ∧ 4 ∈ cuGates ∧
    0 ∈ posixGates ∧ 3 ∈ posixGates ∧ 4 ∈ posixGates ∧
    cuKeyLowered = true ∧ posixKeyLowered = true ∧ checkedSetters = 3 := by decide

/-- **cu_accept_implies**: whatever the credential-update gate accepts is at least the policy
minimum and at most the policy maximum in graphemes, and its lower-cased form is not in the
stored badlist. -/
theorem cu_accept_implies (lower : List Nat → List Nat) (ctx : Ctx) (pol : Resolved) (i : Input)
    (h : cuCheck lower ctx pol i = none) : Good lower pol i ctx.badlist := by
  have hg := firstReject_none h
  have gp := gates_present
  have h0 := lengthGate_none (by rw [← cuGate_zero lower ctx]; exact hg 0 gp.1)
  have h4 := badlistGate_none (by rw [← cuGate_four]; exact hg 4 gp.2.2.2.2.1)
  rw [gp.2.2.2.2.2.2.2.2.1] at h4
  exact ⟨cu_short_sound _ _ _ _ h0.1, cu_long_sound _ _ _ _ h0.2, by simpa [lookupKey] using h4⟩

/-- **cu_accept_extras**: it also has the top zxcvbn score, does not contain the account's RADIUS
secret and contains none of the account's related inputs (names, mail, spn). -/
theorem cu_accept_extras (lower : List Nat → List Nat) (ctx : Ctx) (pol : Resolved) (i : Input)
    (h : cuCheck lower ctx pol i = none) :
    4 ≤ i.score ∧ (∀ r, ctx.radius = some r → containsSub i.text r = false) ∧
    (∀ r ∈ ctx.related, containsSub i.text r = false) := by
  have hg := firstReject_none h
  have gp := gates_present
  exact ⟨cu_weak_sound _ (scoreGate_none (by rw [← cuGate_three lower ctx pol]; exact hg 3 gp.2.2.2.1)),
    radiusGate_none (by rw [← cuGate_one lower ctx pol]; exact hg 1 gp.2.1),
    relatedGate_none (by rw [← cuGate_two lower ctx pol]; exact hg 2 gp.2.2.1)⟩

/-- **posix_accept_implies**: whatever the direct POSIX gate accepts is at least the policy
minimum *and* the single-factor minimum in graphemes, at most `PW_MAX_LENGTH_NIST` in bytes —
hence (a grapheme has at least one scalar value, a scalar value at least one byte) also in
graphemes, i.e. at most the policy maximum —, has the top score and is not badlisted. -/
theorem posix_accept_implies (lower : List Nat → List Nat) (ctx : Ctx) (pol : Resolved) (i : Input)
    (h : posixCheck lower ctx pol i = none) :
    pol.pwMinLength ≤ i.graphemes ∧ pwSfaMin ≤ i.graphemes ∧ utf8Len i.text ≤ pwMaxNist ∧
    (i.graphemes ≤ i.text.length → i.graphemes ≤ pwMaxNist) ∧
    4 ≤ i.score ∧ lower i.text ∉ ctx.badlist := by
  have hg := firstReject_none h
  have gp := gates_present
  have h0 := lengthGate_none (by rw [← posixGate_zero lower ctx]; exact hg 0 gp.2.2.2.2.2.1)
  have h3 := scoreGate_none (by rw [← posixGate_three lower ctx pol]; exact hg 3 gp.2.2.2.2.2.2.1)
  have h4 := badlistGate_none (by rw [← posixGate_four]; exact hg 4 gp.2.2.2.2.2.2.2.1)
  rw [gp.2.2.2.2.2.2.2.2.2.1] at h4
  have hs := posix_short_sound _ _ _ _ h0.1
  have hl := posix_long_sound _ _ _ _ h0.2
  refine ⟨hs.1, hs.2, hl, fun hw => ?_, posix_weak_sound _ h3, by simpa [lookupKey] using h4⟩
  have := length_le_utf8Len i.text
  omega

/-- **badlist_case_insensitive**: with the badlist stored the way the server stores it
(`Value::new_iutf8` lower-cases every submitted entry), an accepted password differs from every
*submitted* entry even after lower-casing both — through either gate. -/
theorem badlist_case_insensitive (lower : List Nat → List Nat) (ctx : Ctx) (pol : Resolved) (i : Input)
    (raw : List (List Nat)) (hb : ctx.badlist = storeBadlist lower raw)
    (h : cuCheck lower ctx pol i = none ∨ posixCheck lower ctx pol i = none) :
    ∀ b ∈ raw, lower b ≠ lower i.text := by
  have hn : lower i.text ∉ ctx.badlist := by
    rcases h with h | h
    · exact (cu_accept_implies lower ctx pol i h).2.2
    · exact (posix_accept_implies lower ctx pol i h).2.2.2.2.2
  intro b hbm heq
  apply hn
  rw [hb, storeBadlist, ← heq]
  exact List.mem_map_of_mem hbm

/-- **badlist_caseless_partial** (known finding D28 excluded by hypothesis): if lower-casing acts
character by character (`f`) on the cleartext and on the submitted entries — i.e. no
context-sensitive mapping such as the Greek final sigma applies to them — an accepted password
differs from every submitted entry modulo `f`. -/
theorem badlist_caseless_partial (lower : List Nat → List Nat) (f : Nat → Nat) (ctx : Ctx)
    (pol : Resolved) (i : Input) (raw : List (List Nat))
    (hb : ctx.badlist = storeBadlist lower raw)
    (hcf : lower i.text = i.text.map f ∧ ∀ b ∈ raw, lower b = b.map f)
    (h : cuCheck lower ctx pol i = none ∨ posixCheck lower ctx pol i = none) :
    ∀ b ∈ raw, b.map f ≠ i.text.map f := by
  intro b hbm heq
  apply badlist_case_insensitive lower ctx pol i raw hb h b hbm
  rw [hcf.1, hcf.2 b hbm, heq]

/-- **min_is_resolved_policy** (link to C35): when the policy is the one resolved from the
account's groups, an accepted password — through either gate — is at least as long as *every*
group's minimum and the built-in minimum, at least the single-factor minimum whenever second
factors are optional, and at most `PW_MAX_LENGTH_NIST` graphemes. -/
theorem min_is_resolved_policy (lower : List Nat → List Nat) (ctx : Ctx) (groups : List AccountPolicy)
    (i : Input) (hw : i.graphemes ≤ i.text.length)
    (h : cuCheck lower ctx (foldFrom groups) i = none ∨ posixCheck lower ctx (foldFrom groups) i = none) :
    (∀ p ∈ groups, p.pwMinLength ≤ i.graphemes) ∧
    Kanidm.Gen.AccountPolicy.initPwMinLength ≤ i.graphemes ∧
    ((foldFrom groups).credentialPolicy < Kanidm.Gen.AccountPolicy.credMfa →
      Kanidm.Gen.AccountPolicy.pwSfaMin ≤ i.graphemes) ∧
    i.graphemes ≤ Kanidm.Gen.AccountPolicy.initPwMaxLength := by
  have hmin : (foldFrom groups).pwMinLength ≤ i.graphemes ∧
      i.graphemes ≤ Kanidm.Gen.AccountPolicy.initPwMaxLength := by
    rcases h with h | h
    · have g := cu_accept_implies lower ctx _ i h
      exact ⟨g.1, by rw [← foldFrom_pwMax groups]; exact g.2.1⟩
    · have g := posix_accept_implies lower ctx _ i h
      have := g.2.2.2.1 hw
      exact ⟨g.1, by simp only [pwMaxNist, Kanidm.Gen.AccountPolicy.initPwMaxLength] at this ⊢; omega⟩
  have st := Kanidm.AccountPolicy.strictest groups
  have sf := Kanidm.AccountPolicy.sfa_min_enforced groups
  exact ⟨fun p hp => Nat.le_trans (st.1 p hp).2.2.1 hmin.1, Nat.le_trans st.2.2.2.1 hmin.1,
    fun hc => Nat.le_trans (sf hc) hmin.1, hmin.2⟩

/-! ## Histories of a credential update session -/

/-- A credential slot of a session started from an account holding `orig`, under policy `pol`,
with requests `ops`: still the original, empty, or a password submitted by one of the requests
that meets C31's demands under the session's policy and the badlist of that request. -/
def SlotOk (lower : List Nat → List Nat) (pol : Resolved) (orig : Option Stored)
    (sub : List (List Nat) → Input → Prop) (slot : Option Stored) : Prop :=
  slot = orig ∨ slot = none ∨ ∃ i bl, slot = some (.fresh i bl) ∧ sub bl i ∧ Good lower pol i bl

structure SessInv (lower : List Nat → List Nat) (pol : Resolved) (a : Account) (ops : List Op)
    (s0 s : Session) : Prop where
  policy : s.policy = pol
  pstate : s.primaryState = s0.primaryState
  ustate : s.unixState = s0.unixState
  primary : SlotOk lower pol a.primary (fun bl i => Op.setPrimary bl i ∈ ops) s.primary
  unix : SlotOk lower pol a.unix (fun bl i => Op.setUnix bl i ∈ ops) s.unix

theorem setPrimary_cases (lower : List Nat → List Nat) (bl : List (List Nat)) (s : Session) (i : Input) :
    (∃ e, setPrimary lower bl s i = .error e) ∨
    (cuCheck lower (s.ctx bl) s.policy i = none ∧
      setPrimary lower bl s i = .ok { s with primary := some (.fresh i bl) }) := by
  unfold setPrimary
  split
  · exact Or.inl ⟨_, rfl⟩
  · cases hq : cuCheck lower (s.ctx bl) s.policy i with
    | some r => exact Or.inl ⟨_, rfl⟩
    | none => exact Or.inr ⟨rfl, rfl⟩

theorem setUnix_cases (lower : List Nat → List Nat) (bl : List (List Nat)) (s : Session) (i : Input) :
    (∃ e, setUnix lower bl s i = .error e) ∨
    (cuCheck lower (s.ctx bl) s.policy i = none ∧
      setUnix lower bl s i = .ok { s with unix := some (.fresh i bl) }) := by
  unfold setUnix
  split
  · exact Or.inl ⟨_, rfl⟩
  · cases hq : cuCheck lower (s.ctx bl) s.policy i with
    | some r => exact Or.inl ⟨_, rfl⟩
    | none => exact Or.inr ⟨rfl, rfl⟩

theorem deletePrimary_cases (s : Session) :
    (∃ e, deletePrimary s = .error e) ∨ deletePrimary s = .ok { s with primary := none } := by
  unfold deletePrimary
  split
  · exact Or.inr rfl
  · exact Or.inl ⟨_, rfl⟩

theorem deleteUnix_cases (s : Session) :
    (∃ e, deleteUnix s = .error e) ∨ deleteUnix s = .ok { s with unix := none } := by
  unfold deleteUnix
  split
  · exact Or.inr rfl
  · exact Or.inl ⟨_, rfl⟩

theorem step_preserves (lower : List Nat → List Nat) (pol : Resolved) (a : Account) (ops : List Op)
    (s0 s : Session) (o : Op) (ho : o ∈ ops) (inv : SessInv lower pol a ops s0 s) :
    SessInv lower pol a ops s0 (step lower s o) := by
  unfold step
  cases o with
  | setPrimary bl i =>
    simp only [applyOp]
    rcases setPrimary_cases lower bl s i with ⟨e, he⟩ | ⟨hq, hok⟩
    · rw [he]; exact inv
    · rw [hok]
      have g := cu_accept_implies lower (s.ctx bl) s.policy i hq
      rw [inv.policy] at g
      exact ⟨inv.policy, inv.pstate, inv.ustate, Or.inr (Or.inr ⟨i, bl, rfl, ho, g⟩), inv.unix⟩
  | setUnix bl i =>
    simp only [applyOp]
    rcases setUnix_cases lower bl s i with ⟨e, he⟩ | ⟨hq, hok⟩
    · rw [he]; exact inv
    · rw [hok]
      have g := cu_accept_implies lower (s.ctx bl) s.policy i hq
      rw [inv.policy] at g
      exact ⟨inv.policy, inv.pstate, inv.ustate, inv.primary, Or.inr (Or.inr ⟨i, bl, rfl, ho, g⟩)⟩
  | deletePrimary =>
    simp only [applyOp]
    rcases deletePrimary_cases s with ⟨e, he⟩ | hok
    · rw [he]; exact inv
    · rw [hok]
      exact ⟨inv.policy, inv.pstate, inv.ustate, Or.inr (Or.inl rfl), inv.unix⟩
  | deleteUnix =>
    simp only [applyOp]
    rcases deleteUnix_cases s with ⟨e, he⟩ | hok
    · rw [he]; exact inv
    · rw [hok]
      exact ⟨inv.policy, inv.pstate, inv.ustate, inv.primary, Or.inr (Or.inl rfl)⟩

theorem run_preserves (lower : List Nat → List Nat) (pol : Resolved) (a : Account) (ops : List Op)
    (s0 : Session) (l : List Op) (hl : ∀ o ∈ l, o ∈ ops) (s : Session)
    (inv : SessInv lower pol a ops s0 s) : SessInv lower pol a ops s0 (run lower s l) := by
  induction l generalizing s with
  | nil => exact inv
  | cons o t ih =>
    simp only [run, List.foldl_cons]
    exact ih (fun o' ho' => hl o' (List.mem_cons_of_mem _ ho')) _
      (step_preserves lower pol a ops s0 s o (hl o List.mem_cons_self) inv)

theorem init_inv (lower : List Nat → List Nat) (pol : Resolved) (a : Account) (p : Perms)
    (ops : List Op) : SessInv lower pol a ops (initSession pol a p) (initSession pol a p) := by
  refine ⟨rfl, rfl, rfl, ?_, ?_⟩
  · by_cases hm : (initSession pol a p).primaryState = CredState.modifiable
    · exact Or.inl (if_pos hm)
    · exact Or.inr (Or.inl (if_neg hm))
  · by_cases hm : (initSession pol a p).unixState = CredState.modifiable
    · exact Or.inl (if_pos hm)
    · exact Or.inr (Or.inl (if_neg hm))

/-- **cu_history_stores_only_good**: for every account, every policy, every permission set,
every sequence of session requests (each with the badlist current at that request, failed ones
included) and either commit outcome: each password credential the account holds afterwards is the
one it held before, absent, or a password submitted in this session by a `set` request of that
slot which met the policy minimum/maximum of the session and was not in the badlist of that
request. -/
theorem cu_history_stores_only_good (lower : List Nat → List Nat) (pol : Resolved) (a : Account)
    (p : Perms) (ops : List Op) (canCommit : Bool) :
    let a' := commit (run lower (initSession pol a p) ops) a canCommit
    SlotOk lower pol a.primary (fun bl i => Op.setPrimary bl i ∈ ops) a'.primary ∧
    SlotOk lower pol a.unix (fun bl i => Op.setUnix bl i ∈ ops) a'.unix := by
  intro a'
  have inv := run_preserves lower pol a ops (initSession pol a p) ops (fun _ h => h) _
    (init_inv lower pol a p ops)
  show SlotOk _ _ _ _ (commit _ a canCommit).primary ∧ SlotOk _ _ _ _ (commit _ a canCommit).unix
  unfold commit
  cases canCommit with
  | false => exact ⟨Or.inl rfl, Or.inl rfl⟩
  | true =>
    simp only [Bool.not_true, Bool.false_eq_true, if_false]
    constructor
    · cases hs : (run lower (initSession pol a p) ops).primaryState <;> simp only []
      · exact inv.primary
      · exact Or.inr (Or.inl rfl)
      · exact Or.inl rfl
      · exact Or.inr (Or.inl rfl)
    · cases hs : (run lower (initSession pol a p) ops).unixState <;> simp only []
      · exact inv.unix
      · exact inv.unix
      · exact Or.inl rfl
      · exact Or.inr (Or.inl rfl)

/-- **posix_direct_stores_only_good**: a successful `set_unix_account_password` leaves the
primary credential alone and stores a password that is at least the policy minimum and the
single-factor minimum in graphemes, at most `PW_MAX_LENGTH_NIST` bytes and not badlisted; an
unsuccessful one stores nothing (`Except.error` carries no account). -/
theorem posix_direct_stores_only_good (lower : List Nat → List Nat) (bl : List (List Nat))
    (pol : Resolved) (a a' : Account) (allowed : Bool) (i : Input)
    (h : setUnixDirect lower bl pol a allowed i = .ok a') :
    a'.primary = a.primary ∧ a'.unix = some (.fresh i bl) ∧ a.isPosix = true ∧ allowed = true ∧
    pol.pwMinLength ≤ i.graphemes ∧ pwSfaMin ≤ i.graphemes ∧ utf8Len i.text ≤ pwMaxNist ∧
    lower i.text ∉ bl := by
  unfold setUnixDirect at h
  split at h
  · cases h
  · rename_i hp
    split at h
    · cases h
    · rename_i hal
      cases hq : posixCheck lower { badlist := bl, radius := a.radius, related := a.related } pol i with
      | some r => rw [hq] at h; cases h
      | none =>
        rw [hq] at h
        have g := posix_accept_implies lower _ pol i hq
        injection h with h
        subst h
        exact ⟨rfl, rfl, by simpa using hp, by simpa using hal, g.1, g.2.1, g.2.2.1, g.2.2.2.2.2⟩

/-! ## Case folding: the full statement, its refutation (D28), and the part that holds -/

/-- The statement's "present in the badlist ignoring case", read as simple case folding
(`caselessEq`), for the concrete lower-casing `lowerGreek` (ASCII + Greek, final-sigma rule). -/
def casefold_full : Prop :=
  ∀ (ctx : Ctx) (pol : Resolved) (i : Input) (raw : List (List Nat)),
    ctx.badlist = storeBadlist lowerGreek raw → cuCheck lowerGreek ctx pol i = none →
    ∀ b ∈ raw, caselessEq b i.text = false

/-- 14 × `X`, then `ΟΣ` — the submitted badlist entry of the witness. -/
def witnessEntry : List Nat := List.replicate 14 0x58 ++ [0x39F, 0x3A3]
/-- 14 × `x`, then `οσ` (non-final sigma in final position) — the accepted password. -/
def witnessPw : Input := ⟨List.replicate 14 0x78 ++ [0x3BF, 0x3C3], 16, 4⟩

/-- **casefold_full_false** (known finding D28, `casefold-final-sigma`): the entry `…ΟΣ` is
stored as `…ος`; the password `…οσ` lower-cases to itself, is not found, and is accepted although
it equals the entry ignoring case.  The harness replays the same shape on the real code. -/
theorem casefold_full_false : ¬ casefold_full := by
  intro h
  have := h ⟨storeBadlist lowerGreek [witnessEntry], none, []⟩ (foldFrom []) witnessPw [witnessEntry]
    rfl (by decide) witnessEntry (by simp)
  revert this
  decide

/-- **casefold_partial**: outside the recogniser's class — no Σ/σ/ς in the cleartext nor in the
submitted entries — an accepted password equals no submitted entry ignoring case. -/
theorem casefold_partial (ctx : Ctx) (pol : Resolved) (i : Input) (raw : List (List Nat))
    (hb : ctx.badlist = storeBadlist lowerGreek raw)
    (hi : ∀ c ∈ i.text, isSigma c = false) (hr : ∀ b ∈ raw, ∀ c ∈ b, isSigma c = false)
    (h : cuCheck lowerGreek ctx pol i = none ∨ posixCheck lowerGreek ctx pol i = none) :
    ∀ b ∈ raw, caselessEq b i.text = false := by
  intro b hbm
  have := badlist_caseless_partial lowerGreek fold1 ctx pol i raw hb
    ⟨lowerGreek_of_sigma_free _ hi, fun b hb' => lowerGreek_of_sigma_free _ (hr b hb')⟩ h b hbm
  simpa [caselessEq] using this

/-! ## Non-vacuity -/

def polDefault : Resolved := foldFrom []
def pol30 : Resolved :=
  foldFrom [Kanidm.AccountPolicy.fromEntry ⟨none, none, some 30, none, none, none, none, none⟩]
def ctx0 : Ctx := ⟨storeBadlist lowerGreek [witnessEntry], some [0x72, 0x61, 0x64], [[0x62, 0x6F, 0x62]]⟩
/-- a 16-grapheme, 20-scalar-value password -/
def okPw : Input := ⟨List.replicate 20 0x71, 16, 4⟩

/-- the gates do accept something (hypotheses of the `accept ⇒` theorems are satisfiable) … -/
example : cuCheck lowerGreek ctx0 polDefault okPw = none ∧ posixCheck lowerGreek ctx0 polDefault okPw = none := by
  decide
/-- … and do object: too short for a 30-minimum (the D11 witness shape: 20 < 30 through *both*
gates), too long, badlisted in another case, weak, containing the RADIUS secret / a name. -/
example :
    cuCheck lowerGreek ctx0 pol30 ⟨List.replicate 20 0x71, 20, 4⟩ = some (.tooShort 30) ∧
    posixCheck lowerGreek ctx0 pol30 ⟨List.replicate 20 0x71, 20, 4⟩ = some (.tooShort 30) ∧
    cuCheck lowerGreek ctx0 polDefault ⟨List.replicate 129 0x71, 129, 4⟩ = some (.tooLong 128) ∧
    posixCheck lowerGreek ctx0 polDefault ⟨List.replicate 43 0x20AC, 43, 4⟩ = some (.tooLong 128) ∧
    cuCheck lowerGreek ctx0 polDefault ⟨List.replicate 14 0x78 ++ [0x3BF, 0x3C2], 16, 4⟩ = some .badlisted ∧
    posixCheck lowerGreek ctx0 polDefault ⟨List.replicate 14 0x58 ++ [0x39F, 0x3A3], 16, 4⟩ = some .badlisted ∧
    cuCheck lowerGreek ctx0 polDefault ⟨List.replicate 20 0x71, 20, 3⟩ = some .weak ∧
    cuCheck lowerGreek ctx0 polDefault ⟨List.replicate 17 0x71 ++ [0x72, 0x61, 0x64], 20, 4⟩ = some .dontReuse ∧
    cuCheck lowerGreek ctx0 polDefault ⟨[0x62, 0x6F, 0x62] ++ List.replicate 17 0x71, 20, 4⟩ = some .related := by
  decide

def acct0 : Account := ⟨some (.old 0), none, true, none, []⟩
/-- a history that ends with a fresh primary and a fresh POSIX password stored -/
example :
    (commit (run lowerGreek (initSession polDefault acct0 ⟨true, true⟩)
      [.setPrimary [] ⟨[1], 3, 4⟩, .setPrimary [] okPw, .setUnix [] okPw, .deleteUnix, .setUnix [] okPw,
       .setPrimary [okPw.text] okPw]) acct0 true)
      = { acct0 with primary := some (.fresh okPw []), unix := some (.fresh okPw []) } := by
  decide

example : (setUnixDirect lowerGreek [] pol30 acct0 true ⟨List.replicate 30 0x71, 30, 4⟩).toOption
    = some { acct0 with unix := some (.fresh ⟨List.replicate 30 0x71, 30, 4⟩ []) } := by decide

end Kanidm.PwQuality
