import KanidmProofs.Lemmas.KeyObject
/-!
# C34 — Revoked keys never verify

The property theorems over `KanidmModel/KeyObject.lean` (a server = the stored key map of a key
object entry; its loaded key object is `loadObj` of that map, as `reload_key_material` makes it
after every commit, start-up and replication). Histories are lists of `Op` (write transactions
with any number of modifies carrying revoke / rotate actions at any times and cids, restarts,
incoming replication from an arbitrary partner state); sign / verify are observations.
-/
namespace Kanidm.KeyObject
open Kanidm.Gen.SessionOrd
open Kanidm.Gen.KeyObjectOps
open Kanidm.SessionMerge

/-! ## The generated tables say what the property needs -/

/-- `verify` / `decipher` hand a token to the stored verifier exactly for `Valid` and `Retained`
keys (the four token usages; `HkdfS256` has no verify entry point). -/
theorem verifyArm_spec (u : Usage) (hu : u ≠ .hkdfS256) (st : KeyStatus) :
    verifyArm u st = true ↔ st ≠ .revoked := by
  cases u <;> cases st <;> simp [verifyArm] at hu ⊢

/-- `load` puts exactly the `Valid` keys into `active` (all five usages). -/
theorem loadActivates_spec (u : Usage) (st : KeyStatus) :
    loadActivates u st = true ↔ st = .valid := by
  cases u <;> cases st <;> simp [loadActivates]

/-- `new_active` creates `Valid` keys. -/
theorem newKeyStatus_spec (u : Usage) : newKeyStatus u = .valid := by
  cases u <;> rfl

/-- Both merges replace a record only by one of strictly higher status, `Revoked` highest. -/
theorem merge_order_spec (o n : KeyStatus) :
    (entryMergeReplace o n = true ↔ o.rank > n.rank) ∧ (keyReplace o n = true ↔ o.rank > n.rank) ∧
    (∀ s : KeyStatus, s.rank ≤ KeyStatus.revoked.rank) ∧
    (∀ s : KeyStatus, s.rank = KeyStatus.revoked.rank → s = .revoked) := by
  refine ⟨by simp [entryMergeReplace], by simp [keyReplace], ?_, ?_⟩
  · intro s; cases s <;> simp [KeyStatus.rank]
  · intro s; cases s <;> simp [KeyStatus.rank]

/-! ## Verification -/

/-- A token made with key `k` is accepted iff `k` is present (with that usage) and not revoked. -/
theorem accepts_iff_present_not_revoked (s : Srv) (hs : KeysNodup s.map) (u : Usage)
    (hu : u ≠ .hkdfS256) (k : Nat) : s.accepts u k = true ↔ Usable s.map u k := by
  unfold Srv.accepts Srv.loaded
  rw [verify_eq_allOf, allOf_loadObj s.map hs]
  unfold Usable
  cases hl : lookup s.map k with
  | none => simp
  | some r =>
    by_cases hur : u = r.usage
    · subst hur
      simp only [if_true, slotOf, verifyArm_spec _ hu]
      constructor
      · intro h; exact ⟨r, rfl, rfl, h⟩
      · rintro ⟨r', hr', _, h⟩; cases hr'; exact h
    · simp only [hur, if_false]
      constructor
      · intro h; cases h
      · rintro ⟨r', hr', hu', _⟩; cases hr'; exact absurd hu'.symm hur

example : (⟨[.jwsEs256], [(7, ⟨.jwsEs256, 0, .valid, 3⟩), (9, ⟨.jwsEs256, 5, .revoked, 4⟩)], 4⟩ : Srv).accepts .jwsEs256 7 = true
    ∧ (⟨[.jwsEs256], [(7, ⟨.jwsEs256, 0, .valid, 3⟩), (9, ⟨.jwsEs256, 5, .revoked, 4⟩)], 4⟩ : Srv).accepts .jwsEs256 9 = false := by
  decide

/-- An absent or revoked key is refused for every usage. -/
theorem dead_not_accepted (s : Srv) (hs : KeysNodup s.map) (u : Usage) (k : Nat)
    (hd : Dead s.map k) : s.accepts u k = false := by
  unfold Srv.accepts Srv.loaded
  rw [verify_eq_allOf, allOf_loadObj s.map hs]
  rcases hd with hn | ⟨r, hr, hrev⟩
  · simp [hn]
  · rw [hr]
    by_cases hur : u = r.usage
    · simp only [hur, if_true, slotOf, hrev]
      cases r.usage <;> rfl
    · simp [hur]

/-! ## Signing -/

/-- New signatures / encryptions / derivations at time `t` use a `Valid` key of that usage whose
`valid_from ≤ t` and is the greatest such; there is none iff no `Valid` key has started. Hence
`Retained` and `Revoked` keys never sign. No distinctness hypothesis on `valid_from` (H2) is
needed: the loaded object is rebuilt from the stored map. -/
theorem signer_is_newest_valid_started (s : Srv) (hs : KeysNodup s.map) (u : Usage) (t : Nat) :
    (∀ k, s.sign u t = some k →
      ∃ r, lookup s.map k = some r ∧ r.usage = u ∧ r.status = .valid ∧ r.validFrom ≤ t ∧
        ∀ k' r', lookup s.map k' = some r' → r'.usage = u → r'.status = .valid →
          r'.validFrom ≤ t → r'.validFrom ≤ r.validFrom) ∧
    (s.sign u t = none ↔
      ¬ ∃ k r, lookup s.map k = some r ∧ r.usage = u ∧ r.status = .valid ∧ r.validFrom ≤ t) := by
  have hinv := actInv_loadObj s.map hs u
  have hnd := activeOf_nodup (wf_loadObj s.map) u
  have hsome : ∀ k, s.sign u t = some k →
      ∃ r, lookup s.map k = some r ∧ r.usage = u ∧ r.status = .valid ∧ r.validFrom ≤ t ∧
        ∀ k' r', lookup s.map k' = some r' → r'.usage = u → r'.status = .valid →
          r'.validFrom ≤ t → r'.validFrom ≤ r.validFrom := by
    intro k hk
    unfold Srv.sign Srv.loaded at hk
    rw [sign_eq_activeOf] at hk
    cases hp : pickSigner (activeOf (loadObj s.map) u) t with
    | none => rw [hp] at hk; cases hk
    | some e =>
      rw [hp] at hk
      simp only [Option.map_some, Option.some.injEq] at hk
      obtain ⟨h1, h2, h3⟩ := pickSigner_some hnd hp
      rw [hk] at h1
      obtain ⟨r, hr, hu, ha, hv⟩ := hinv.sound e.1 k h1
      refine ⟨r, hr, hu, (loadActivates_spec u r.status).1 ha, by omega, ?_⟩
      intro k' r' hr' hu' hs' ht'
      obtain ⟨kid', hk'⟩ := hinv.complete k' r' hr' hu' ((loadActivates_spec u r'.status).2 hs')
      have := h3 _ _ hk' ht'
      omega
  refine ⟨hsome, ?_, ?_⟩
  · intro hn ⟨k, r, hr, hu, hst, ht⟩
    unfold Srv.sign Srv.loaded at hn
    rw [sign_eq_activeOf] at hn
    cases hp : pickSigner (activeOf (loadObj s.map) u) t with
    | some e => rw [hp] at hn; cases hn
    | none =>
      obtain ⟨kid', hk'⟩ := hinv.complete k r hr hu ((loadActivates_spec u r.status).2 hst)
      exact pickSigner_none hp _ _ hk' ht
  · intro hno
    cases hsg : s.sign u t with
    | none => rfl
    | some k =>
      obtain ⟨r, hr, hu, hst, ht, _⟩ := hsome k hsg
      exact absurd ⟨k, r, hr, hu, hst, ht⟩ hno

example : (⟨[.jwsEs256], [(7, ⟨.jwsEs256, 0, .valid, 3⟩), (8, ⟨.jwsEs256, 5, .valid, 4⟩),
      (9, ⟨.jwsEs256, 5, .revoked, 4⟩), (6, ⟨.jwsEs256, 9, .retained, 4⟩)], 4⟩ : Srv).sign .jwsEs256 10 = some 8 := by
  decide

/-! ## Revocation is final -/

/-- A write transaction (any revoke / rotate actions, any times) keeps a revoked key
revoked — also when `invalidate` trimmed it from the entry: the plugin re-adds it from the
loaded object. -/
theorem txn_keeps_revoked (s : Srv) (hs : KeysNodup s.map) (k : Nat) (hr : Revoked s.map k)
    (acts : List (Action × Fresh)) (now cid trim : Nat)
    (hf : ∀ af ∈ acts, NotFresh af.2 k) :
    KeysNodup (s.txn acts now cid trim).map ∧ Revoked (s.txn acts now cid trim).map k := by
  cases acts with
  | nil => exact ⟨hs, hr⟩
  | cons af tl =>
    simp only [Srv.txn]
    cases ht : txnMap s.loaded s.classes now cid trim s.map (af :: tl) with
    | none => exact ⟨hs, hr⟩
    | some m =>
      simp only
      refine txnMap_inv (fun m => Revoked m k) s.map hs s.classes now cid trim (af :: tl)
        (fun af => NotFresh af.2 k) ?_ hf s.map m hs hr ht
      intro mi m' a f hq hi _ hm
      obtain ⟨_, hl⟩ := modifyEntry_lookup s.map mi m' hs hi s.classes a now cid trim f hm
      obtain ⟨y, hy, hm'⟩ := hl k hq
      obtain ⟨r, hr0, hrev⟩ := hr
      have hy' : ∃ ry, y = some ry ∧ ry.status = .revoked := by
        rcases hy with hy | ⟨r1, r2, h1, h2, _, _, h5, _⟩
        · exact ⟨r, by rw [← hy, hr0], hrev⟩
        · exact ⟨r2, h2, h5⟩
      obtain ⟨ry, hye, hyr⟩ := hy'
      obtain ⟨r', hp, hr', _⟩ := pickOpt_revoked_right (x := lookup (preMap a trim mi) k)
        entryRepl_spec hye hyr
      exact ⟨r', by rw [hm', hp], hr'⟩

/-- A modify that names a present key in `KeyActionRevoke` and succeeds leaves it `Revoked` in the
stored entry (whatever else the modify rotates or asserts). -/
theorem revoke_takes_effect (s : Srv) (hs : KeysNodup s.map) (k : Nat) (r : KRec)
    (hk : lookup s.map k = some r) (a : Action) (f : Fresh) (ks : List Nat)
    (ha : a.revoke = some ks) (hmem : k ∈ ks) (hf : NotFresh f k) (now cid trim : Nat) (m' : KMap)
    (hm : modifyEntry s.loaded s.classes s.map a now cid trim f = some m') : Revoked m' k := by
  unfold modifyEntry Srv.loaded at hm
  cases hp : pluginObj (loadObj s.map) s.classes a now cid f with
  | none => rw [hp] at hm; cases hm
  | some ko =>
    rw [hp] at hm
    simp only [Option.some.injEq] at hm
    subst hm
    obtain ⟨r', hr', hrev⟩ := plugin_revokes s.map hs s.classes a now cid f ko hp k hf ks ha hmem r hk
    have hl : lookup (entryMerge (some (trimMap trim s.map)) ko.toMap) k =
        pickOpt entryRepl (lookup (trimMap trim s.map) k) (lookup ko.toMap k) :=
      lookup_coreMerge entryRepl _ _ (keysNodup_toMap ko) k
    obtain ⟨r2, hp2, hr2, _⟩ := pickOpt_revoked_right (x := lookup (trimMap trim s.map) k)
      entryRepl_spec hr' hrev
    exact ⟨r2, by rw [hl, hp2], hr2⟩

/-- A write transaction never brings back an absent key id (key generation is fresh). -/
theorem txn_keeps_absent (s : Srv) (hs : KeysNodup s.map) (k : Nat) (hn : lookup s.map k = none)
    (acts : List (Action × Fresh)) (now cid trim : Nat)
    (hf : ∀ af ∈ acts, NotFresh af.2 k) :
    KeysNodup (s.txn acts now cid trim).map ∧ lookup (s.txn acts now cid trim).map k = none := by
  cases acts with
  | nil => exact ⟨hs, hn⟩
  | cons af tl =>
    simp only [Srv.txn]
    cases ht : txnMap s.loaded s.classes now cid trim s.map (af :: tl) with
    | none => exact ⟨hs, hn⟩
    | some m =>
      simp only
      refine txnMap_inv (fun m => lookup m k = none) s.map hs s.classes now cid trim (af :: tl)
        (fun af => NotFresh af.2 k) ?_ hf s.map m hs hn ht
      intro mi m' a f hq hi hp hm
      obtain ⟨_, hl⟩ := modifyEntry_lookup s.map mi m' hs hi s.classes a now cid trim f hm
      obtain ⟨y, hy, hm'⟩ := hl k hq
      have hy' : y = none := by
        rcases hy with hy | ⟨r1, _, h1, _⟩
        · rw [← hy, hn]
        · rw [hn] at h1; cases h1
      have hpre : lookup (preMap a trim mi) k = none := by
        rcases preMap_cases a trim mi hi k with ⟨h1, _⟩ | ⟨r, h1, _⟩
        · exact h1
        · rw [hp] at h1; cases h1
      rw [hm', hy', hpre]; rfl

/-- Incoming replication: a key revoked on either side is revoked or (only past the trim window)
absent afterwards — whatever else the partner's state is. -/
theorem replIn_revoked_absorbing (c sup : Srv) (hc : KeysNodup c.map) (hsup : KeysNodup sup.map)
    (trim k : Nat) (h : Revoked c.map k ∨ Revoked sup.map k) :
    KeysNodup (c.replIn sup trim).map ∧ Dead (c.replIn sup trim).map k := by
  have key : ∀ n o : KMap, KeysNodup n → KeysNodup o → (Revoked n k ∨ Revoked o k) →
      Dead (replMergeMap n o trim) k := by
    intro n o hn ho hh
    rw [Dead, Revoked, (replMergeMap_lookup n o hn ho trim k).2]
    have hp : ∃ r', pickOpt replRepl (lookup n k) (lookup o k) = some r' ∧ r'.status = .revoked := by
      rcases hh with ⟨r, hr, hrev⟩ | ⟨r, hr, hrev⟩
      · obtain ⟨r', h1, h2, _⟩ := pickOpt_revoked_left (repl := replRepl) (y := lookup o k)
          (fun o n hon => by rw [replRepl_spec] at hon; exact of_decide_eq_true hon) hr hrev
        exact ⟨r', h1, h2⟩
      · obtain ⟨r', h1, h2, _⟩ := pickOpt_revoked_right (repl := replRepl) (x := lookup n k)
          replRepl_spec hr hrev
        exact ⟨r', h1, h2⟩
    obtain ⟨r', h1, h2⟩ := hp
    rw [h1]
    by_cases hk : keepRec trim r' = true
    · right; exact ⟨r', by simp [Option.filter, hk], h2⟩
    · left; simp [Option.filter, hk]
  unfold Srv.replIn
  by_cases htl : takeLeft sup.attrCid c.attrCid = true
  · simp only [htl, if_true]
    exact ⟨(replMergeMap_lookup _ _ hsup hc trim k).1, key _ _ hsup hc h.symm⟩
  · simp only [htl]
    exact ⟨(replMergeMap_lookup _ _ hc hsup trim k).1, key _ _ hc hsup h⟩

/-- Incoming replication from a partner where the key is absent or revoked never revives it. -/
theorem replIn_keeps_dead (c sup : Srv) (hc : KeysNodup c.map) (hsup : KeysNodup sup.map)
    (trim k : Nat) (h1 : Dead c.map k) (h2 : Dead sup.map k) :
    KeysNodup (c.replIn sup trim).map ∧ Dead (c.replIn sup trim).map k := by
  rcases h1 with h1 | h1
  · rcases h2 with h2 | h2
    · have key : ∀ n o : KMap, KeysNodup n → KeysNodup o → lookup n k = none → lookup o k = none →
          Dead (replMergeMap n o trim) k := by
        intro n o hn ho h3 h4
        left
        rw [(replMergeMap_lookup n o hn ho trim k).2, h3, h4]; rfl
      unfold Srv.replIn
      by_cases htl : takeLeft sup.attrCid c.attrCid = true
      · simp only [htl, if_true]
        exact ⟨(replMergeMap_lookup _ _ hsup hc trim k).1, key _ _ hsup hc h2 h1⟩
      · simp only [htl]
        exact ⟨(replMergeMap_lookup _ _ hc hsup trim k).1, key _ _ hc hsup h1 h2⟩
    · exact replIn_revoked_absorbing c sup hc hsup trim k (Or.inr h2)
  · exact replIn_revoked_absorbing c sup hc hsup trim k (Or.inl h1)

/-- One operation of any kind: a revoked key ends up revoked or absent. -/
theorem revoked_final_step (s : Srv) (hs : KeysNodup s.map) (k : Nat) (hr : Revoked s.map k)
    (op : Op) (hop : OpFresh k op) :
    KeysNodup (s.step op).map ∧ Dead (s.step op).map k := by
  cases op with
  | txn acts now cid trim =>
    obtain ⟨h1, h2⟩ := txn_keeps_revoked s hs k hr acts now cid trim hop
    exact ⟨h1, Or.inr h2⟩
  | restart => exact ⟨hs, Or.inr hr⟩
  | replIn sup trim => exact replIn_revoked_absorbing s sup hs hop trim k (Or.inl hr)

/-- **Revoked keys never verify.** Once a key is revoked (or gone) on a server, no history of
transactions (revocations, rotations at any time, several per transaction), restarts and
replication from partners on which the key is absent or revoked makes any token made with it
acceptable again, for any usage. -/
theorem revoked_never_verifies (s : Srv) (hs : KeysNodup s.map) (k : Nat) (hd : Dead s.map k)
    (ops : List Op) (hops : ∀ op ∈ ops, OpDead k op) :
    KeysNodup (s.run ops).map ∧ Dead (s.run ops).map k ∧ ∀ u, (s.run ops).accepts u k = false := by
  suffices h : KeysNodup (s.run ops).map ∧ Dead (s.run ops).map k from
    ⟨h.1, h.2, fun u => dead_not_accepted _ h.1 u k h.2⟩
  induction ops generalizing s with
  | nil => exact ⟨hs, hd⟩
  | cons op tl ih =>
    have hop := hops op (by simp)
    have htl : ∀ op ∈ tl, OpDead k op := fun o ho => hops o (List.mem_cons_of_mem _ ho)
    have hstep : KeysNodup (s.step op).map ∧ Dead (s.step op).map k := by
      cases op with
      | txn acts now cid trim =>
        rcases hd with hn | hr
        · obtain ⟨h1, h2⟩ := txn_keeps_absent s hs k hn acts now cid trim hop
          exact ⟨h1, Or.inl h2⟩
        · obtain ⟨h1, h2⟩ := txn_keeps_revoked s hs k hr acts now cid trim hop
          exact ⟨h1, Or.inr h2⟩
      | restart => exact ⟨hs, hd⟩
      | replIn sup trim => exact replIn_keeps_dead s sup hs hop.1 trim k hd hop.2
    exact ih (s.step op) hstep.1 hstep.2 htl

example : Revoked [(7, ⟨.jwsEs256, 0, .valid, 3⟩), (9, (⟨.jwsEs256, 5, .revoked, 4⟩ : KRec))] 9 :=
  ⟨_, rfl, rfl⟩

/-! ## Rotation keeps older keys usable -/

/-- A key that is present and not revoked stays so — hence its tokens stay acceptable — through
any history in which nobody revokes it: rotations at any times (also several in the same
second), revocations of *other* keys, restarts, trims, replication with partners that
do not have it revoked. -/
theorem rotation_keeps_unrevoked_verifiable (s : Srv) (hs : KeysNodup s.map) (u : Usage)
    (k : Nat) (hu : Usable s.map u k) (ops : List Op) (hops : ∀ op ∈ ops, OpKeeps u k op) :
    KeysNodup (s.run ops).map ∧ Usable (s.run ops).map u k ∧
      (u ≠ .hkdfS256 → (s.run ops).accepts u k = true) := by
  suffices h : KeysNodup (s.run ops).map ∧ Usable (s.run ops).map u k from
    ⟨h.1, h.2, fun hne => (accepts_iff_present_not_revoked _ h.1 u hne k).2 h.2⟩
  induction ops generalizing s with
  | nil => exact ⟨hs, hu⟩
  | cons op tl ih =>
    have hop := hops op (by simp)
    have htl : ∀ op ∈ tl, OpKeeps u k op := fun o ho => hops o (List.mem_cons_of_mem _ ho)
    have hstep : KeysNodup (s.step op).map ∧ Usable (s.step op).map u k := by
      cases op with
      | restart => exact ⟨hs, hu⟩
      | txn acts now cid trim =>
        simp only [Srv.step]
        cases acts with
        | nil => exact ⟨hs, hu⟩
        | cons af rest =>
          simp only [Srv.txn]
          cases ht : txnMap s.loaded s.classes now cid trim s.map (af :: rest) with
          | none => exact ⟨hs, hu⟩
          | some m =>
            simp only
            refine txnMap_inv (fun m => Usable m u k) s.map hs s.classes now cid trim (af :: rest)
              (fun af => NotFresh af.2 k ∧ ¬ CanRevoke af.1 k) ?_ hop s.map m hs hu ht
            intro mi m' a f hq hi hp hm
            obtain ⟨_, hl⟩ := modifyEntry_lookup s.map mi m' hs hi s.classes a now cid trim f hm
            obtain ⟨y, hy, hm'⟩ := hl k hq.1
            obtain ⟨r0, hr0, hu0, hn0⟩ := hu
            have hy' : y = some r0 := by
              rcases hy with hy | ⟨_, _, _, _, _, _, _, _, hcan⟩
              · rw [← hy, hr0]
              · exact absurd hcan hq.2
            obtain ⟨ri, hri, hui, hni⟩ := hp
            have hpre : ∃ r1, lookup (preMap a trim mi) k = some r1 ∧ r1.usage = u ∧
                r1.status ≠ .revoked := by
              rcases preMap_cases a trim mi hi k with ⟨_, h1 | ⟨r, h1, h2⟩⟩ | ⟨r, h1, h2⟩
              · rw [hri] at h1; cases h1
              · rw [hri] at h1; cases h1; exact absurd h2 hni
              · rw [hri] at h1; cases h1
                exact ⟨ri, h2, hui, hni⟩
            obtain ⟨r1, hr1, hu1, hn1⟩ := hpre
            cases hpk : pickOpt entryRepl (lookup (preMap a trim mi) k) y with
            | none => rw [hr1, hy'] at hpk; simp [pickOpt] at hpk
            | some rr =>
              rcases pickOpt_mem' entryRepl _ _ rr hpk with h | h
              · rw [hr1] at h; cases h
                exact ⟨r1, by rw [hm', hpk], hu1, hn1⟩
              · rw [hy'] at h; cases h
                exact ⟨r0, by rw [hm', hpk], hu0, hn0⟩
      | replIn sup trim =>
        obtain ⟨hsup, hnr, hus⟩ := hop
        have key : ∀ n o : KMap, KeysNodup n → KeysNodup o →
            (Usable n u k ∨ Usable o u k) → ¬ Revoked n k → ¬ Revoked o k →
            (∀ r, lookup n k = some r → r.usage = u) → (∀ r, lookup o k = some r → r.usage = u) →
            Usable (replMergeMap n o trim) u k := by
          intro n o hn ho hh hrn hro hun huo
          unfold Usable
          rw [(replMergeMap_lookup n o hn ho trim k).2]
          cases hpk : pickOpt replRepl (lookup n k) (lookup o k) with
          | none =>
            rcases hh with ⟨r, hr, _⟩ | ⟨r, hr, _⟩ <;> rw [hr] at hpk <;>
              cases hx : lookup n k <;> cases hy : lookup o k <;> simp_all [pickOpt]
          | some rr =>
            have hrr : rr.usage = u ∧ rr.status ≠ .revoked := by
              rcases pickOpt_mem' replRepl _ _ rr hpk with h | h
              · exact ⟨hun rr h, fun hc => hrn ⟨rr, h, hc⟩⟩
              · exact ⟨huo rr h, fun hc => hro ⟨rr, h, hc⟩⟩
            exact ⟨rr, by simp [Option.filter, keepRec_of_not_revoked trim rr hrr.2], hrr.1, hrr.2⟩
        have hsn : ¬ Revoked s.map k := by
          obtain ⟨r0, hr0, _, hn0⟩ := hu
          rintro ⟨r, hr, hrev⟩
          rw [hr0] at hr; cases hr; exact hn0 hrev
        have hsu : ∀ r, lookup s.map k = some r → r.usage = u := by
          obtain ⟨r0, hr0, hu0, _⟩ := hu
          intro r hr; rw [hr0] at hr; cases hr; exact hu0
        simp only [Srv.step]
        unfold Srv.replIn
        by_cases htl : takeLeft sup.attrCid s.attrCid = true
        · simp only [htl, if_true]
          exact ⟨(replMergeMap_lookup _ _ hsup hs trim k).1,
            key _ _ hsup hs (Or.inr hu) hnr hsn hus hsu⟩
        · simp only [htl]
          exact ⟨(replMergeMap_lookup _ _ hs hsup trim k).1,
            key _ _ hs hsup (Or.inl hu) hsn hnr hsu hus⟩
    exact ih (s.step op) hstep.1 hstep.2 htl

example : Usable [(7, ⟨.jwsEs256, 0, .valid, 3⟩), (9, (⟨.jwsEs256, 5, .revoked, 4⟩ : KRec))] .jwsEs256 7 :=
  ⟨_, rfl, rfl, by simp⟩

/-! ## Propagation between replicas -/

/-- The attribute is offered exactly when the consumer lacks the change that *stamped* it:
the consumer's knowledge of the stamp's origin server is older than the stamp. After a merge the
stamp is the greater of the two cids (`merge_state`), whichever side the content came from. -/
theorem offered_iff (sup c : Node) :
    offered sup c = true ↔
      c.seenOf (cidOrigin sup.srv.attrCid) < cidTs sup.srv.attrCid ∧
      cidTs sup.srv.attrCid ≤ sup.seenOf (cidOrigin sup.srv.attrCid) := by
  unfold offered attrWithin
  by_cases h : c.seenOf (cidOrigin sup.srv.attrCid) < sup.seenOf (cidOrigin sup.srv.attrCid)
  · simp only [h, if_true, Bool.and_eq_true, decide_eq_true_eq]
    constructor
    · rintro ⟨h1, h2⟩; exact ⟨h2, h1⟩
    · rintro ⟨h1, h2⟩; exact ⟨h2, h1⟩
  · simp only [h, if_false]
    constructor
    · intro hh; cases hh
    · rintro ⟨h1, h2⟩; omega

/-- The strongest true propagation statement: when the supplier offers the attribute, a key it
has revoked is revoked or (past the trim window) absent on the consumer afterwards. -/
theorem revocation_propagates_when_offered (c sup : Node) (hc : KeysNodup c.srv.map)
    (hs : KeysNodup sup.srv.map) (trim k : Nat) (hoff : offered sup c = true)
    (hr : Revoked sup.srv.map k) : Dead (c.pull sup sup.srv.map trim).srv.map k := by
  unfold Node.pull
  simp only [hoff, if_true]
  exact (replIn_revoked_absorbing c.srv { sup.srv with map := sup.srv.map } hc hs trim k (Or.inr hr)).2

/-- …and when it does not, the consumer's entry is untouched. -/
theorem not_offered_unchanged (c sup : Node) (supMap : KMap) (trim : Nat)
    (h : offered sup c = false) : (c.pull sup supMap trim).srv = c.srv := by
  unfold Node.pull
  simp [h]

/-- A revocation that did arrive is final on the consumer too: after an offered pull from a
partner that has the key revoked, no later history (partners on which the key is dead) makes a
token of that key acceptable. -/
theorem propagated_revocation_is_final (c sup : Node) (hc : KeysNodup c.srv.map)
    (hs : KeysNodup sup.srv.map) (trim k : Nat) (hoff : offered sup c = true)
    (hr : Revoked sup.srv.map k) (ops : List Op) (hops : ∀ op ∈ ops, OpDead k op) (u : Usage) :
    ((c.pull sup sup.srv.map trim).srv.run ops).accepts u k = false := by
  have hd := revocation_propagates_when_offered c sup hc hs trim k hoff hr
  have hn : KeysNodup (c.pull sup sup.srv.map trim).srv.map := by
    unfold Node.pull
    simp only [hoff, if_true]
    exact (replIn_revoked_absorbing c.srv { sup.srv with map := sup.srv.map } hc hs trim k (Or.inr hr)).1
  exact (revoked_never_verifies _ hn k hd ops hops).2.2 u

/-- The full reading of "…including after the key set is replicated": in every reachable state of
two replicas, when `b` pulls from `a` and `a` has the key revoked, `b` has it revoked or absent. -/
def revocation_propagates_full : Prop :=
  ∀ (classes : List Usage) (m : KMap) (cid : Nat) (ops : List NetOp) (trim k : Nat),
    Revoked (netRun (netInit classes m cid) ops).1.srv.map k →
    Dead ((netRun (netInit classes m cid) ops).2.pull (netRun (netInit classes m cid) ops).1
      (netRun (netInit classes m cid) ops).1.srv.map trim).srv.map k

/-- It is false of the code (replayed on the real servers, class
`lost-revocation:merged-attr-keeps-later-cid`): `a` revokes key 11 (cid of `a`); `b`, not having
pulled, rotates later (cid of `b`); `a` pulls from `b` — the merged attribute on `a` holds the
revocation but is stamped with `b`'s later cid; `b` pulls from `a` — the attribute is not offered
(`b` has its own change), so `b` keeps key 11 `Valid`. -/
theorem revocation_propagates_full_false : ¬ revocation_propagates_full := by
  intro h
  have hw := h [.jwsEs256] [(11, ⟨.jwsEs256, 0, .valid, 5⟩)] 5
    [ .txnA [({ revoke := some [11] }, fun _ _ => 12)] 10 41 0,
      .txnB [({ rotate := some 11 }, fun _ _ => 13)] 11 46 0,
      .pullA 0 ] 0 11 ⟨⟨.jwsEs256, 0, .revoked, 41⟩, by decide, rfl⟩
  have hl : lookup ((netRun (netInit [.jwsEs256] [(11, ⟨.jwsEs256, 0, .valid, 5⟩)] 5)
      [ .txnA [({ revoke := some [11] }, fun _ _ => 12)] 10 41 0,
        .txnB [({ rotate := some 11 }, fun _ _ => 13)] 11 46 0,
        .pullA 0 ]).2.pull
      (netRun (netInit [.jwsEs256] [(11, ⟨.jwsEs256, 0, .valid, 5⟩)] 5)
      [ .txnA [({ revoke := some [11] }, fun _ _ => 12)] 10 41 0,
        .txnB [({ rotate := some 11 }, fun _ _ => 13)] 11 46 0,
        .pullA 0 ]).1
      (netRun (netInit [.jwsEs256] [(11, ⟨.jwsEs256, 0, .valid, 5⟩)] 5)
      [ .txnA [({ revoke := some [11] }, fun _ _ => 12)] 10 41 0,
        .txnB [({ rotate := some 11 }, fun _ _ => 13)] 11 46 0,
        .pullA 0 ]).1.srv.map 0).srv.map 11 = some ⟨.jwsEs256, 0, .valid, 5⟩ := by decide
  rcases hw with h1 | ⟨r, h1, h2⟩
  · rw [hl] at h1; cases h1
  · rw [hl] at h1; cases h1; cases h2

end Kanidm.KeyObject
