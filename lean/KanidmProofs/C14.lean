import KanidmProofs.Lemmas.Codec
/-!
# C14 — Replication wire framing survives any fragmentation

Property theorems only (helper lemmas live in `Lemmas/Codec.lean`).  `decodeStep`/`decode` are
the transcription of `decode_length_checked_json`, `encode`/`frameOf` of
`encode_length_checked_json` (server/core/src/repl/codec.rs); the header size, the length
type/endianness, every comparison, the order of the checks with the kind of their early
return, and the trim/advance amounts come from the generated module, i.e. from the source
as it is now.  `feed`/`feedAll` model the `Framed` read loop (append what was read, decode
until `Ok(None)`, a decode error ends the stream).

The payload codec (serde_json) is abstract: `print : M → Bytes`, `parse : Bytes → Option M`
with `parse (print m) = some m`.  `ValidPayload max p` = `0 < |p| ≤ max` and `|p| < 2^64`.
A *chunking* of a byte stream `s` is any `chunks : List Bytes` with `chunks.flatten = s`
(any number of reads, empty reads included).
-/
namespace Kanidm.Codec
open Kanidm.Gen.Codec

variable {M : Type}

/-- The checks of the decoder, in source order, under the regenerated operators/constants.
This is the obligation that re-reads the code: `<`→`<=`, `>`→`>=`, a dropped or reordered
check, `advance(req_len)` without the header, comparing `src.len()` instead of the payload
length — each makes this (or a theorem below) fail. -/
theorem decoder_checks_in_order (max : Nat) (src : Bytes) :
    decodeStep max src =
      if src.length < 8 then .needMore
      else if beDecode (src.take 8) = 0 then .err .invalidInput
      else if beDecode (src.take 8) > max then .err .outOfMemory
      else if src.length - 8 < beDecode (src.take 8) then .needMore
      else .frame ((src.drop 8).take (beDecode (src.take 8)))
        (src.drop (8 + beDecode (src.take 8))) :=
  decodeStep_spec max src

/-- `be64_roundtrip`: the length header written by the encoder is `hdrSplit` (= 8) bytes and
is read back by the decoder as the same number, for every `u64`. -/
theorem be64_roundtrip (n : Nat) (h : n < 2 ^ 64) :
    (encodeLen encEndian encLenBytes n).length = hdrSplit ∧
    decodeLen decEndian (encodeLen encEndian encLenBytes n) = n :=
  ⟨by rw [hdr_length]; rfl, hdr_roundtrip n h⟩

/-- No input makes the decoder panic (`split_at`, `copy_from_slice`, `assert_eq!`, `advance`
are always within bounds). -/
theorem decode_never_panics (parse : Bytes → Option M) (max : Nat) (src : Bytes) :
    decodeStep max src ≠ .panic ∧ (decode parse max src).1 ≠ .err .panic := by
  refine ⟨decodeStep_ne_panic max src, ?_⟩
  unfold decode
  have h1 := decodeStep_ne_panic max src
  have h2 := decodeStep_ne_err_panic max src
  cases hs : decodeStep max src with
  | needMore => simp
  | err e =>
    intro h; simp only at h
    injection h with h; subst h; exact h2 hs
  | panic => exact absurd hs h1
  | frame p rest => cases hp : parse p <;> simp [hp]

/-- `zero_rejected`: once the 8 header bytes are there and say length 0, `decode` fails with
`InvalidInput` — whatever else is or is not buffered — and consumes nothing. -/
theorem zero_rejected (parse : Bytes → Option M) (max : Nat) (src : Bytes)
    (h8 : hdrSplit ≤ src.length) (hz : decodeLen decEndian (src.take hdrSplit) = 0) :
    decode parse max src = (.err .invalidInput, src) := by
  simp only [hdrSplit, decodeLen, decEndian] at h8 hz
  have : decodeStep max src = .err .invalidInput := by
    rw [decodeStep_spec]
    have : ¬ src.length < 8 := by omega
    simp [this, hz]
  simp [decode, this]

/-- `oversize_rejected_early`: once the 8 header bytes are there and announce more than `max`
bytes, `decode` fails with `OutOfMemory` *for every amount of payload already buffered,
including none* (`src.length = 8`): the frame is refused before any of it is buffered. -/
theorem oversize_rejected_early (parse : Bytes → Option M) (max : Nat) (src : Bytes)
    (h8 : hdrSplit ≤ src.length) (hbig : max < decodeLen decEndian (src.take hdrSplit)) :
    decode parse max src = (.err .outOfMemory, src) := by
  simp only [hdrSplit, decodeLen, decEndian] at h8 hbig
  have : decodeStep max src = .err .outOfMemory := by
    rw [decodeStep_spec]
    have h1 : ¬ src.length < 8 := by omega
    have h2 : ¬ beDecode (List.take 8 src) = 0 := by omega
    simp [h1, h2, hbig]
  simp [decode, this]

/-- `consumes_exactly`: a successful `decode` removes exactly one frame — 8 header bytes whose
value is the payload length, then exactly that many payload bytes (non-empty, within the
limit), which are what was parsed — and leaves every later byte in place.  `Ok(None)` and the
two framing errors leave the buffer untouched. -/
theorem consumes_exactly (parse : Bytes → Option M) (max : Nat) (src : Bytes) :
    (∀ m rest, decode parse max src = (.msg m, rest) →
      ∃ hdr payload, src = hdr ++ payload ++ rest ∧ hdr.length = hdrSplit ∧
        decodeLen decEndian hdr = payload.length ∧ parse payload = some m ∧
        0 < payload.length ∧ payload.length ≤ max) ∧
    (∀ b, decode parse max src = (.needMore, b) → b = src) ∧
    (∀ e b, decode parse max src = (.err e, b) → e ≠ .badPayload → b = src) := by
  refine ⟨?_, ?_, ?_⟩
  · intro m rest h
    unfold decode at h
    cases hs : decodeStep max src with
    | needMore => simp [hs] at h
    | err e => simp [hs] at h
    | panic => simp [hs] at h
    | frame p r =>
      simp only [hs] at h
      cases hp : parse p with
      | none => simp [hp] at h
      | some m' =>
        simp only [hp, Prod.mk.injEq, Out.msg.injEq] at h
        obtain ⟨rfl, rfl⟩ := h
        obtain ⟨i1, i2, i3, i4, i5⟩ := decodeStep_frame_inv hs
        exact ⟨src.take 8, p, i1, i2, i3, hp, i4, i5⟩
  · intro b h
    unfold decode at h
    cases hs : decodeStep max src with
    | needMore => simp only [hs, Prod.mk.injEq] at h; exact h.2.symm
    | err e => simp [hs] at h
    | panic => simp [hs] at h
    | frame p r => simp only [hs] at h; cases hp : parse p <;> simp [hp] at h
  · intro e b h hne
    unfold decode at h
    cases hs : decodeStep max src with
    | needMore => simp [hs] at h
    | err e' => simp only [hs, Prod.mk.injEq] at h; exact h.2.symm
    | panic => simp only [hs, Prod.mk.injEq] at h; exact h.2.symm
    | frame p r =>
      simp only [hs] at h
      cases hp : parse p with
      | none =>
        simp only [hp, Prod.mk.injEq, Out.err.injEq] at h
        exact absurd h.1.symm hne
      | some m => simp [hp] at h

/-- `chunking_invariance` — for EVERY byte stream (well-formed or not) and EVERY way of
splitting it into reads, the connection yields the same messages in the same order and ends
with the same error (or none) as if the whole stream had arrived in one read; without an
error the bytes left pending are the same too. -/
theorem chunking_invariance (parse : Bytes → Option M) (max : Nat) (chunks : List Bytes) :
    (feedAll parse max {} chunks).2 = (feed parse max {} chunks.flatten).2 ∧
    (feedAll parse max {} chunks).1.fault = (feed parse max {} chunks.flatten).1.fault ∧
    ((feed parse max {} chunks.flatten).1.fault = none →
      (feedAll parse max {} chunks).1.buf = (feed parse max {} chunks.flatten).1.buf) := by
  cases chunks with
  | nil =>
    have h0 : decodeStep max [] = .needMore := by rw [decodeStep_spec]; simp
    simp [feedAll, feed, drain_needMore parse max h0]
  | cons x xs => exact feedAll_cons_fuse parse max xs {} x rfl

/-- One read of a stream made of whole legitimate frames followed by `t`. -/
theorem feed_stream (parse : Bytes → Option M) (print : M → Bytes)
    (hpp : ∀ m, parse (print m) = some m) (max : Nat) (msgs : List M)
    (hv : ∀ m ∈ msgs, ValidPayload max (print m)) (t : Bytes) :
    feed parse max {} (encodeAll print msgs ++ t) =
      (⟨(drain parse max t).buf, (drain parse max t).fault⟩, msgs ++ (drain parse max t).msgs) := by
  rw [feed_live parse max {} _ rfl]
  simp [drain_encodeAll parse max print hpp msgs hv t]

/-- `frames_any_split` — THE property: any sequence of messages whose payloads are non-empty
and within the limit, written back to back by the encoder, is decoded as exactly the same
sequence in the same order under every chunking of the byte stream; the connection ends
live with an empty buffer. -/
theorem frames_any_split (parse : Bytes → Option M) (print : M → Bytes)
    (hpp : ∀ m, parse (print m) = some m) (max : Nat) (msgs : List M)
    (hv : ∀ m ∈ msgs, ValidPayload max (print m))
    (chunks : List Bytes) (hc : chunks.flatten = encodeAll print msgs) :
    feedAll parse max {} chunks = (({} : Conn), msgs) := by
  obtain ⟨h1, h2, h3⟩ := chunking_invariance parse max chunks
  have h0 : decodeStep max [] = .needMore := by rw [decodeStep_spec]; simp
  have hs := feed_stream parse print hpp max msgs hv []
  rw [List.append_nil, drain_needMore parse max h0] at hs
  rw [hc, hs] at h1 h2 h3
  simp only [List.append_nil] at h1 h2 h3
  generalize feedAll parse max {} chunks = r at h1 h2 h3 ⊢
  obtain ⟨⟨b, f⟩, ms⟩ := r
  simp only [forall_const] at h1 h2 h3
  subst h1 h2 h3
  rfl

/-- `frames_any_split_pending` — the buffer invariant behind it: if what has arrived so far is
some whole frames followed by a proper prefix `t` of a further legitimate frame, then under
every chunking exactly the whole frames have been delivered, in order, no error has been
raised, and exactly `t` is pending. -/
theorem frames_any_split_pending (parse : Bytes → Option M) (print : M → Bytes)
    (hpp : ∀ m, parse (print m) = some m) (max : Nat) (msgs : List M)
    (hv : ∀ m ∈ msgs, ValidPayload max (print m))
    (next : M) (hn : ValidPayload max (print next)) (t u : Bytes) (hu : u ≠ [])
    (htu : t ++ u = frameOf (print next))
    (chunks : List Bytes) (hc : chunks.flatten = encodeAll print msgs ++ t) :
    feedAll parse max {} chunks = (⟨t, none⟩, msgs) := by
  obtain ⟨h1, h2, h3⟩ := chunking_invariance parse max chunks
  have h0 := decodeStep_strict_prefix max hn hu htu
  have hs := feed_stream parse print hpp max msgs hv t
  rw [drain_needMore parse max h0] at hs
  rw [hc, hs] at h1 h2 h3
  simp only [List.append_nil] at h1 h2 h3
  generalize feedAll parse max {} chunks = r at h1 h2 h3 ⊢
  obtain ⟨⟨b, f⟩, ms⟩ := r
  simp only [forall_const] at h1 h2 h3
  subst h1 h2 h3
  rfl

/-- `bad_frame_rejected_any_split` — a frame announcing length 0 or more than `max`, arriving
after any legitimate frames, ends the connection with the corresponding error under every
chunking, as soon as its 8 header bytes are there (`tail` may be just the header); the frames
before it are delivered, nothing of it or after it is. -/
theorem bad_frame_rejected_any_split (parse : Bytes → Option M) (print : M → Bytes)
    (hpp : ∀ m, parse (print m) = some m) (max : Nat) (msgs : List M)
    (hv : ∀ m ∈ msgs, ValidPayload max (print m))
    (tail : Bytes) (h8 : hdrSplit ≤ tail.length)
    (hbad : decodeLen decEndian (tail.take hdrSplit) = 0 ∨
      max < decodeLen decEndian (tail.take hdrSplit))
    (chunks : List Bytes) (hc : chunks.flatten = encodeAll print msgs ++ tail) :
    (feedAll parse max {} chunks).2 = msgs ∧
    (feedAll parse max {} chunks).1.fault =
      some (if decodeLen decEndian (tail.take hdrSplit) = 0 then .invalidInput else .outOfMemory) := by
  obtain ⟨h1, h2, _⟩ := chunking_invariance parse max chunks
  have hs := feed_stream parse print hpp max msgs hv tail
  have hd : drain parse max tail =
      ⟨[], tail, some (if decodeLen decEndian (tail.take hdrSplit) = 0 then .invalidInput
        else .outOfMemory)⟩ := by
    by_cases hz : decodeLen decEndian (tail.take hdrSplit) = 0
    · have := zero_rejected parse max tail h8 hz
      rw [drain_eq, this]; simp [hz]
    · have hb : max < decodeLen decEndian (tail.take hdrSplit) := by
        rcases hbad with h | h
        · exact absurd h hz
        · exact h
      have := oversize_rejected_early parse max tail h8 hb
      rw [drain_eq, this]; simp [hz]
  rw [hd] at hs
  rw [hc, hs] at h1 h2
  simpa using And.intro h1 h2

/-! ### Non-vacuity: a concrete codec and stream meeting the hypotheses -/

/-- Toy payload codec: `true ↦ "{}"`, `false ↦ "1"`. -/
def exPrint : Bool → Bytes := fun b => if b then [0x7b, 0x7d] else [0x31]
def exParse : Bytes → Option Bool := fun p =>
  if p = [0x7b, 0x7d] then some true else if p = [0x31] then some false else none

example : ∀ m, exParse (exPrint m) = some m := by decide
example : ∀ m ∈ [true, false, true], ValidPayload 2 (exPrint m) := by
  unfold ValidPayload; decide
-- the encoder's bytes, and three reads cutting through a header and through a payload
example : encodeAll exPrint [true, false] =
    [0,0,0,0,0,0,0,2,0x7b,0x7d, 0,0,0,0,0,0,0,1,0x31] := by decide
example : feedAll exParse 2 {} [[0,0,0], [0,0,0,0,2,0x7b], [0x7d,0,0,0,0,0,0,0,1,0x31]] =
    (({} : Conn), [true, false]) := by decide
-- pending prefix, zero header, oversize header with nothing buffered after it
example : feedAll exParse 2 {} [[0,0,0,0,0,0,0,2,0x7b,0x7d,0,0], [0,0,0,0]] =
    (⟨[0,0,0,0,0,0], none⟩, [true]) := by decide
example : decode exParse 2 [0,0,0,0,0,0,0,0] = (.err .invalidInput, [0,0,0,0,0,0,0,0]) := by
  exact zero_rejected exParse 2 _ (by decide) (by decide)
example : (feedAll exParse 2 {} [[0,0,0,0], [0,0,0,3]]).1.fault = some .outOfMemory := by decide
example : (3 : Nat) < 2 ^ 64 := by decide

end Kanidm.Codec
