import KanidmProofs.Lemmas.Backup
import KanidmProofs.C03
import KanidmProofs.C01
import KanidmProofs.C12
/-!
# C13 — Backup then restore reproduces the database

Property theorems only (helper lemmas: `Lemmas/Backup.lean`). The model (`KanidmModel/Backup.lean`) transcribes
`BackendTransaction::backup`, `BackendWriteTransaction::restore`, `commit`, `Backend::new`'s cache reload and the
caller `restore_server_core`; the `DbBackup` variants, which fields `backup` writes from which source, the writes
of every `match` arm of `restore`, the version comparison and the order of the `ruv` table statements are
regenerated from the source on every run (`KanidmModel/Generated/BackupOps.lean`), so the theorems below are
re-stated whenever a field is dropped on either side.

Vocabulary: `Db δ` = one backend (durable tables + the caches of the running process), `δ` = a stored entry
(`DbEntry`, opaque here — C12 proves what loading it yields); `restored pre s` = the explicit description of
what a restore of a backup of `s` leaves in a transaction begun on `pre`: `s`'s entries renumbered `1..n` in
order, `s`'s server / domain uuid, maximum change time and key handles, `s`'s RUV cids with empty id lists and
the ranges they span, no index tables, `pre`'s stale id cache.
-/
namespace Kanidm.Backup
open Kanidm.Index (aget Tables)

/-! ## 1. every field written is consumed -/

/-- the idlayer write that takes the value read by a source -/
def sinkOf : Src → Option Sink
  | .dbSUuid => some .writeSUuid
  | .dbDUuid => some .writeDUuid
  | .dbTsMax => some .setTsMax
  | .keyHandles => some .setKeyHandles
  | _ => none

/-- the tuple position that takes the value read by a source -/
def tupleOf (a : Arm) : Src → Option Field
  | .pkgSeries => a.version
  | .ruvBackup => a.repl
  | .rawEntries => a.entries
  | _ => none

/-- the arm of `restore` for the variant `backup` writes consumes each field `backup` writes exactly once, in
the place that mirrors its source: an id / time / key-handle field by the matching idlayer write, the
version, the replication metadata and the entries through the tuple; and the variant's declared fields are
exactly the fields written. -/
theorem backup_fields_consumed :
    ∃ arm, restoreArm backupVariant = some arm ∧
      (∀ p ∈ backupFields, (∃ k, sinkOf p.2 = some k ∧ arm.writes.filter (fun w => w.1 = p.1) = [(p.1, k)]) ∨
        (sinkOf p.2 = none ∧ tupleOf arm p.2 = some p.1 ∧ arm.writes.filter (fun w => w.1 = p.1) = [])) ∧
      variants.lookup backupVariant = some (backupFields.map (·.1)) ∧
      (backupFields.map (·.1)).Nodup ∧ (backupFields.map (·.2)).Nodup := by
  refine ⟨_, rfl, ?_, by decide, by decide, by decide⟩
  decide

/-- the phases run in the modelled order -/
theorem restore_steps_are_modelled :
    restoreSteps = [.parse, .deleteAll, .arms, .versionCheck, .ruvRestore, .writeEntries, .verify] ∧
      deleteAllSteps.Perm [.ruvClear, .purgeId2entry, .purgeIdxs] ∧
      commitSteps.take 2 = [.writeDbRuv, .idlCommit] := by
  decide

/-! ## 2. restore ∘ backup -/

/-- what a restore of a backup of `s` leaves in a write transaction begun on `pre` -/
def restored {δ : Type} (pre s : Db δ) : Db δ where
  rows := number firstId (s.rows.map (·.2))
  sUuid := s.sUuid
  dUuid := s.dUuid
  tsMax := s.tsMax
  keys := s.keys
  dbRuv := pre.dbRuv
  tbl := Tables.empty
  idxVer := pre.idxVer
  ruv := s.ruv.map (fun kv => (kv.1, []))
  ranged := rangedOf (s.ruv.map (·.1))
  maxid := if rawWriteRefreshesMaxId then s.rows.length else pre.maxid

/-- `backup` succeeds exactly when the three identifiers are stored -/
theorem backup_ok_iff {δ : Type} (cur : Nat) (s : Db δ) :
    (∃ d, backup cur s = .ok d) ↔ (s.sUuid.isSome ∧ s.dUuid.isSome ∧ s.tsMax.isSome) := by
  cases h1 : s.sUuid <;> cases h2 : s.dUuid <;> cases h3 : s.tsMax <;>
    simp [backup, backupFieldsOf, backupFields, srcVal, h1, h2, h3]

/-- the document `backup` writes -/
theorem backup_doc {δ : Type} (cur : Nat) (s : Db δ) (su du t : Nat)
    (h1 : s.sUuid = some su) (h2 : s.dUuid = some du) (h3 : s.tsMax = some t) :
    backup cur s = .ok ⟨false, [(.version, .nat cur), (.sUuid, .nat su), (.dUuid, .nat du), (.tsMax, .nat t),
      (.keys, .keys s.keys), (.replMeta, .cids (s.ruv.map (·.1))), (.entries, .ents (s.rows.map (·.2)))]⟩ := by
  simp [backup, backupFieldsOf, backupFields, srcVal, h1, h2, h3, tupleVariants, backupVariant]

theorem restore_of_backup_doc {δ : Type} (cur v : Nat) (ok : Bool) (s pre : Db δ) (su du t : Nat)
    (h1 : s.sUuid = some su) (h2 : s.dUuid = some du) (h3 : s.tsMax = some t)
    (hk : (s.ruv.map (·.1)).Nodup) :
    restore cur ok (some ⟨false, [(.version, .nat v), (.sUuid, .nat su), (.dUuid, .nat du), (.tsMax, .nat t),
      (.keys, .keys s.keys), (.replMeta, .cids (s.ruv.map (·.1))), (.entries, .ents (s.rows.map (·.2)))]⟩) pre =
      if v != cur then
        ({ restored pre s with rows := [], ruv := [], ranged := [], maxid := pre.maxid }, .error .mismatchedVersion)
      else (restored pre s, if ok then .ok () else .error .consistency) := by
  have hcl : classify (⟨false, [(.version, .nat v), (.sUuid, .nat su), (.dUuid, .nat du), (.tsMax, .nat t),
      (.keys, .keys s.keys), (.replMeta, .cids (s.ruv.map (·.1))), (.entries, .ents (s.rows.map (·.2)))]⟩ : Doc δ)
      = some 5 := by
    simp [classify, variants, fits, Doc.get, aget, fieldOk, tupleVariants]
  have hfst := ruvRestore_fold_fst (s.ruv.map (·.1)) ([], []) (by simpa using hk)
  have hsnd := ruvRestore_fold_snd (s.ruv.map (·.1)) ([], [])
  have hmap : (s.ruv.map (·.1)).map (fun c => (c, ([] : List Nat))) = s.ruv.map (fun kv => (kv.1, [])) := by
    simp [List.map_map, Function.comp_def]
  have hext1 : extend ([] : List (Cid × List Nat)) (s.ruv.map (fun kv => (kv.1, ([] : List Nat)))) =
      s.ruv.map (fun kv => (kv.1, [])) := by
    apply extend_nil
    simpa [List.map_map, Function.comp_def] using hk
  have hext2 : extend ([] : List (Nat × List Nat)) (rangedOf (s.ruv.map (·.1))) = rangedOf (s.ruv.map (·.1)) :=
    extend_nil _ (rangedOf_keys_nodup _)
  have hext3 : extend ([] : List (Nat × δ)) (number firstId (s.rows.map (·.2))) = number firstId (s.rows.map (·.2)) :=
    extend_nil _ (number_ids_nodup _ _)
  simp only [List.nil_append] at hfst
  have hr2 : rangedOf (s.ruv.map (·.1)) = List.foldl rangeAdd [] (s.ruv.map (·.1)) := rfl
  rw [hr2] at hext2
  have hsnd' : (List.foldl ruvRestoreStep ([], []) (s.ruv.map (·.1))).2 = List.foldl rangeAdd [] (s.ruv.map (·.1)) := hsnd
  by_cases hv : v = cur
  · simp only [restore, Option.bind_some, hcl, restoreArm, Option.map_some, deleteAll, deleteAllSteps,
      List.foldl_cons, List.foldl_nil, deleteStep, applyWrites, Doc.get, aget, applySink, versionRefuse,
      restoreTail, ruvRestore, restored, rangedOf, h1, h2, h3]
    simp [hv, hfst, hsnd', hmap, hext1, hext2, hext3, maxId_number]
  · simp only [restore, Option.bind_some, hcl, restoreArm, Option.map_some, deleteAll, deleteAllSteps,
      List.foldl_cons, List.foldl_nil, deleteStep, applyWrites, Doc.get, aget, applySink, versionRefuse,
      restoreTail, ruvRestore, restored, rangedOf, h1, h2, h3]
    simp [hv]

/-- **restore ∘ backup**: restoring (into any backend) the document `backup` wrote for any backend `s` that
holds its identifiers succeeds and leaves exactly `restored pre s`. -/
theorem restore_backup_roundtrip {δ : Type} (cur : Nat) (s pre : Db δ) (d : Doc δ)
    (hk : (s.ruv.map (·.1)).Nodup) (hb : backup cur s = .ok d) :
    restore cur true (some d) pre = (restored pre s, .ok ()) := by
  obtain ⟨h1, h2, h3⟩ := (backup_ok_iff cur s).1 ⟨d, hb⟩
  obtain ⟨su, h1⟩ := Option.isSome_iff_exists.1 h1
  obtain ⟨du, h2⟩ := Option.isSome_iff_exists.1 h2
  obtain ⟨t, h3⟩ := Option.isSome_iff_exists.1 h3
  rw [backup_doc cur s su du t h1 h2 h3] at hb
  cases hb
  rw [restore_of_backup_doc cur cur true s pre su du t h1 h2 h3 hk]
  simp

/-- the restored entries are the original entries, in the original order, numbered from 1 -/
theorem restored_entries {δ : Type} (pre s : Db δ) :
    (restored pre s).rows.map (·.2) = s.rows.map (·.2) ∧
      (restored pre s).rows.map (·.1) = List.range' 1 s.rows.length := by
  simp [restored, number_payloads, number_ids, firstId]

/-- the id cache follows the restored rows (repair of the stale id cache: before it the cache kept `pre`'s value,
the next created entry took id `pre.maxid + 1` and replaced the restored entry of that id) -/
theorem restored_id_cache {δ : Type} (pre s : Db δ) :
    (restored pre s).maxid = s.rows.length ∧ ∀ r ∈ (restored pre s).rows, r.1 ≤ (restored pre s).maxid := by
  have h : (restored pre s).maxid = s.rows.length := by simp [restored, rawWriteRefreshesMaxId]
  refine ⟨h, ?_⟩
  intro r hr
  rw [h]
  have := mem_number_id (l := s.rows.map (·.2)) (n := firstId) hr
  simp only [firstId, List.length_map] at this
  omega

/-- identifiers, maximum change time and key handles are the original's -/
theorem restored_ids {δ : Type} (pre s : Db δ) :
    (restored pre s).sUuid = s.sUuid ∧ (restored pre s).dUuid = s.dUuid ∧
      (restored pre s).tsMax = s.tsMax ∧ (restored pre s).keys = s.keys := ⟨rfl, rfl, rfl, rfl⟩

/-! ## 3. commit, and reopening the database -/

/-- the previous `ruv` table lists only cids of the previous in-memory RUV (what `ruv_reload` and every commit
maintain) -/
def Coherent {δ : Type} (pre : Db δ) : Prop := ∀ c ∈ pre.dbRuv, c ∈ pre.ruv.map (·.1)

/-- the `ruv` table after the commit of a restore, for ANY previous database: the old rows whose cid the old
in-memory RUV did not know, and every restored cid — also those that were in the old table -/
theorem commit_dbruv_mem {δ : Type} (pre s : Db δ) (c : Cid) :
    c ∈ (commitRestore pre (restored pre s)).dbRuv ↔
      (c ∈ pre.dbRuv ∧ c ∉ pre.ruv.map (·.1)) ∨ c ∈ s.ruv.map (·.1) := by
  simp only [commitRestore, dbRuvSteps, List.foldl_cons, List.foldl_nil, dbRuvStep, mem_foldl_addCid,
    List.mem_filter, restored, List.map_map, Function.comp_def]
  simp

/-- … which, for a coherent (e.g. fresh) previous database, is exactly the backed-up cid list -/
theorem commit_dbruv_exact {δ : Type} (pre s : Db δ) (hc : Coherent pre) (hk : (s.ruv.map (·.1)).Nodup) :
    (commitRestore pre (restored pre s)).dbRuv = s.ruv.map (·.1) := by
  have hnil : pre.dbRuv.filter (fun c => !(pre.ruv.map (·.1)).contains c) = [] := by
    apply List.filter_eq_nil_iff.2
    intro c hcm
    have := hc c hcm
    simp [this]
  simp only [commitRestore, dbRuvSteps, List.foldl_cons, List.foldl_nil, dbRuvStep, hnil, restored,
    List.map_map, Function.comp_def]
  have := foldl_addCid (s.ruv.map (·.1)) [] (by simpa using hk)
  simpa using this

/-- the state of a process that opens the database after restore + commit -/
def reopened {δ : Type} (cidsOf : δ → List Cid) (pre s : Db δ) : Db δ :=
  reload cidsOf (commitRestore pre (restored pre s))

/-- **the restored database, reopened** (coherent previous database): entries renumbered in order; identifiers,
time and keys as backed up; the `ruv` table and the in-memory RUV hold exactly the backed-up cids; each cid
lists exactly the restored entries whose change state mentions it; the ranges are exactly the projection of
the cids; the id cache is the entry count. -/
theorem reopened_state {δ : Type} (cidsOf : δ → List Cid) (pre s : Db δ) (hc : Coherent pre)
    (hk : (s.ruv.map (·.1)).Nodup) :
    let fin := reopened cidsOf pre s
    fin.rows = number firstId (s.rows.map (·.2)) ∧
    fin.sUuid = s.sUuid ∧ fin.dUuid = s.dUuid ∧ fin.tsMax = s.tsMax ∧ fin.keys = s.keys ∧
    fin.dbRuv = s.ruv.map (·.1) ∧
    fin.ruv.map (·.1) = s.ruv.map (·.1) ∧
    (∀ c x, x ∈ idsOf fin.ruv c ↔ (c ∈ s.ruv.map (·.1) ∧ ∃ r ∈ fin.rows, r.1 = x ∧ c ∈ cidsOf r.2)) ∧
    (∀ u t, t ∈ tsOf fin.ranged u ↔ (⟨t, u⟩ : Cid) ∈ s.ruv.map (·.1)) ∧
    fin.maxid = s.rows.length := by
  intro fin
  have hdb := commit_dbruv_exact pre s hc hk
  have hfst := ruvRestore_fold_fst (s.ruv.map (·.1)) ([], []) (by simpa using hk)
  have hsnd := ruvRestore_fold_snd (s.ruv.map (·.1)) ([], [])
  simp only [List.nil_append] at hfst
  have hknd : (((s.ruv.map (·.1)).map (fun c => (c, ([] : List Nat)))).map (·.1)).Nodup := by
    simpa [List.map_map, Function.comp_def] using hk
  have hkeys : ((s.ruv.map (·.1)).map (fun c => (c, ([] : List Nat)))).map (·.1) = s.ruv.map (·.1) := by
    simp [List.map_map, Function.comp_def]
  have hruv : fin.ruv = ruvRebuild cidsOf (number firstId (s.rows.map (·.2)))
      ((s.ruv.map (·.1)).map (fun c => (c, []))) := by
    simp only [fin, reopened, reload, ruvRestore, hdb, hfst, extend_nil _ hknd]
    rfl
  have hrng : fin.ranged = rangedOf (s.ruv.map (·.1)) := by
    simp only [fin, reopened, reload, ruvRestore, hdb, hsnd]
    exact extend_nil _ (rangedOf_keys_nodup _)
  have hrows : fin.rows = number firstId (s.rows.map (·.2)) := rfl
  refine ⟨hrows, rfl, rfl, rfl, rfl, hdb, ?_, ?_, ?_, ?_⟩
  · rw [hruv, ruvRebuild_keys, hkeys]
  · intro c x
    rw [hruv, mem_idsOf_ruvRebuild, idsOf_map_nil, hkeys, hrows]
    simp
  · intro u t
    rw [hrng, mem_rangedOf]
  · show maxId (commitRestore pre (restored pre s)).rows = _
    simp only [commitRestore, restored, maxId_number, List.length_map]

/-- the RUV invariant of `ruv.rs` on the original: distinct cids, ranges = projection of the cids -/
structure RuvWF {δ : Type} (s : Db δ) : Prop where
  nodup : (s.ruv.map (·.1)).Nodup
  ranged : ∀ u t, t ∈ tsOf s.ranged u ↔ (⟨t, u⟩ : Cid) ∈ s.ruv.map (·.1)

/-- **replication metadata is the original's**: same cids (as lists), same ranges, and the invariant holds again -/
theorem reopened_ruv_same {δ : Type} (cidsOf : δ → List Cid) (pre s : Db δ) (hc : Coherent pre) (hs : RuvWF s) :
    (reopened cidsOf pre s).ruv.map (·.1) = s.ruv.map (·.1) ∧
      (∀ u t, t ∈ tsOf (reopened cidsOf pre s).ranged u ↔ t ∈ tsOf s.ranged u) ∧
      RuvWF (reopened cidsOf pre s) ∧ Coherent (reopened cidsOf pre s) := by
  obtain ⟨_, _, _, _, _, h6, h7, _, h9, _⟩ := reopened_state cidsOf pre s hc hs.nodup
  refine ⟨h7, fun u t => by rw [h9, hs.ranged], ⟨by rw [h7]; exact hs.nodup, fun u t => by rw [h9, h7]⟩, ?_⟩
  intro c hcm
  rw [h6] at hcm
  rw [h7]; exact hcm

/-- `ReplicationUpdateVector::verify` (ruv.rs l.383): for every cid present both in the RUV and in some entry's
change state, the ids rebuilt from the entries are among the ids the RUV holds -/
def verifyRuv {δ : Type} (cidsOf : δ → List Cid) (s : Db δ) : Bool :=
  s.rows.all (fun r => (cidsOf r.2).all (fun c =>
    match aget s.ruv c with
    | some idl => idl.contains r.1
    | none => true))

/-- the RUV part of the consistency check passes on the reopened database -/
theorem reopened_verify_ruv {δ : Type} (cidsOf : δ → List Cid) (pre s : Db δ) (hc : Coherent pre)
    (hk : (s.ruv.map (·.1)).Nodup) : verifyRuv cidsOf (reopened cidsOf pre s) = true := by
  obtain ⟨_, _, _, _, _, _, h7, h8, _, _⟩ := reopened_state cidsOf pre s hc hk
  unfold verifyRuv
  rw [List.all_eq_true]
  intro r hr
  rw [List.all_eq_true]
  intro c hcm
  cases hg : aget (reopened cidsOf pre s).ruv c with
  | none => rfl
  | some idl =>
    have hmem : c ∈ (reopened cidsOf pre s).ruv.map (·.1) := (aget_isSome_iff _ c).1 (by simp [hg])
    rw [h7] at hmem
    have := (h8 c r.1).2 ⟨hmem, r, hr, rfl, hcm⟩
    simp only [idsOf, hg, Option.getD_some] at this
    simpa using this

/-! ## 4. refusals -/

/-- **a restore that succeeds read a document of the variant `backup` writes, stamped with this server's
version**: every other document — other version, older format (no version field), not deserialisable — is
refused -/
theorem restore_ok_imp_current_version {δ : Type} (cur : Nat) (ok : Bool) (doc : Option (Doc δ)) (pre : Db δ)
    (h : (restore cur ok doc pre).2 = .ok ()) :
    ∃ d, doc = some d ∧ classify d = some backupVariant ∧ d.get .version = some (.nat cur) := by
  cases doc with
  | none => simp [restore] at h
  | some d =>
    refine ⟨d, rfl, ?_⟩
    cases hc : classify d with
    | none => simp [restore, hc] at h
    | some v =>
      match v, hc with
      | 0, hc => simp [restore, hc, restoreArm] at h
      | 1, hc | 2, hc | 3, hc | 4, hc =>
        exfalso
        simp only [restore, Option.bind_some, hc, restoreArm, Option.map_some] at h
        split at h
        · simp at h
        · simp only [Option.bind_none, noVersionRefused, if_true] at h
          cases h
      | 5, hc =>
        refine ⟨rfl, ?_⟩
        simp only [restore, Option.bind_some, hc, restoreArm, Option.map_some] at h
        split at h
        · simp at h
        · cases hg : d.get .version with
          | none => simp [hg, noVersionRefused] at h
          | some x =>
            cases x with
            | nat n =>
              simp only [hg] at h
              by_cases hr : versionRefuse n cur = true
              · simp [hr] at h
              · have : n = cur := by simpa [versionRefuse] using hr
                rw [this]
            | keys k => simp [hg, noVersionRefused] at h
            | cids k => simp [hg, noVersionRefused] at h
            | ents k => simp [hg, noVersionRefused] at h
      | n + 6, hc => simp [restore, hc, restoreArm] at h

/-- the result is the refusal `e` -/
def RefusedWith (r : Except Err Unit) (e : Err) : Prop := r = Except.error e

/-- a backup written by a server of another version is refused with `DB0001MismatchedRestoreVersion` -/
theorem other_version_refused {δ : Type} (cur v : Nat) (ok : Bool) (s pre : Db δ) (d : Doc δ) (hv : v ≠ cur)
    (hk : (s.ruv.map (·.1)).Nodup) (hb : backup v s = .ok d) :
    RefusedWith (restore cur ok (some d) pre).2 .mismatchedVersion := by
  unfold RefusedWith
  obtain ⟨h1, h2, h3⟩ := (backup_ok_iff v s).1 ⟨d, hb⟩
  obtain ⟨su, h1⟩ := Option.isSome_iff_exists.1 h1
  obtain ⟨du, h2⟩ := Option.isSome_iff_exists.1 h2
  obtain ⟨t, h3⟩ := Option.isSome_iff_exists.1 h3
  rw [backup_doc v s su du t h1 h2 h3] at hb
  cases hb
  rw [restore_of_backup_doc cur v ok s pre su du t h1 h2 h3 hk]
  have : (v != cur) = true := by simpa using hv
  simp [this]

/-- what does not deserialise is refused before anything is touched -/
theorem unparseable_untouched {δ : Type} (cur : Nat) (ok : Bool) (pre : Db δ) :
    (restore cur ok none pre).1 = pre ∧ RefusedWith (restore cur ok none pre).2 .serdeJson := ⟨rfl, rfl⟩

/-- **a refused restore leaves the database as it was**: the caller commits only after `Ok` -/
theorem refused_restore_leaves_db {δ : Type} (cur : Nat) (ok : Bool) (doc : Option (Doc δ)) (pre : Db δ)
    (h : (restore cur ok doc pre).2 ≠ .ok ()) :
    (restoreServer cur ok doc pre).1 = pre ∧ (restoreServer cur ok doc pre).2 = (restore cur ok doc pre).2 := by
  unfold restoreServer
  cases hr : (restore cur ok doc pre).2 with
  | ok u => exact absurd hr h
  | error e => simp [hr, commitOnlyOnOk]

/-- … and this matters: `restore` has already emptied the transaction's entries when it refuses a version -/
theorem refused_restore_has_mutated_txn {δ : Type} (cur v : Nat) (ok : Bool) (s pre : Db δ) (d : Doc δ) (hv : v ≠ cur)
    (hk : (s.ruv.map (·.1)).Nodup) (hb : backup v s = .ok d) :
    (restore cur ok (some d) pre).1.rows = [] ∧ (restore cur ok (some d) pre).1.sUuid = s.sUuid := by
  obtain ⟨h1, h2, h3⟩ := (backup_ok_iff v s).1 ⟨d, hb⟩
  obtain ⟨su, h1⟩ := Option.isSome_iff_exists.1 h1
  obtain ⟨du, h2⟩ := Option.isSome_iff_exists.1 h2
  obtain ⟨t, h3⟩ := Option.isSome_iff_exists.1 h3
  rw [backup_doc v s su du t h1 h2 h3] at hb
  cases hb
  rw [restore_of_backup_doc cur v ok s pre su du t h1 h2 h3 hk]
  have : (v != cur) = true := by simpa using hv
  simp [this, restored]

/-- the whole caller: backup of `s`, restored by `restore_server_core` on a server of the same version -/
theorem restore_server_roundtrip {δ : Type} (cur : Nat) (s pre : Db δ) (d : Doc δ)
    (hk : (s.ruv.map (·.1)).Nodup) (hb : backup cur s = .ok d) :
    restoreServer cur true (some d) pre = (commitRestore pre (restored pre s), .ok ()) := by
  unfold restoreServer
  rw [restore_backup_roundtrip cur s pre d hk hb]

/-! ## 5. the rebuilt indexes mirror the restored entries, and every search answers as before -/

section Index
open Kanidm.Index Kanidm.Filter

/-- uuid and index keys of a stored entry: what C03's invariant and C01's semantics depend on -/
def pay (e : SEnt) : Nat × Kanidm.Filter.Entry := (e.uuid, e.attrs)

/-- the C03 / C01 view of the stored entries -/
def entsOf {δ : Type} (sview : δ → Nat × Kanidm.Filter.Entry) (s : Db δ) : List SEnt :=
  s.rows.map (fun r => ⟨r.1, (sview r.2).1, (sview r.2).2⟩)

theorem entsOf_pay {δ : Type} (sview : δ → Nat × Kanidm.Filter.Entry) (s : Db δ) :
    (entsOf sview s).map pay = s.rows.map (fun r => sview r.2) := by
  simp [entsOf, pay, List.map_map, Function.comp_def]

theorem entsOf_ids {δ : Type} (sview : δ → Nat × Kanidm.Filter.Entry) (s : Db δ) :
    (entsOf sview s).map (·.id) = s.rows.map (·.1) := by
  simp [entsOf, List.map_map, Function.comp_def]

/-- what the upper layers guarantee (C03's `WFn`) depends on uuids and attributes only, not on entry ids -/
theorem wfn_renumber {l l' : List SEnt} (hp : l.map pay = l'.map pay)
    (hid : (l.map (·.id)).Nodup) (hw : WFn l) : WFn l' := by
  have hlen : l.length = l'.length := by simpa using congrArg List.length hp
  have hinj : ∀ i j (hi : i < l.length) (hj : j < l.length), l[i] = l[j] → i = j := by
    intro i j hi hj heq
    have hpw := List.pairwise_iff_getElem.1 hid
    have hi2 : i < (l.map (·.id)).length := by simpa using hi
    have hj2 : j < (l.map (·.id)).length := by simpa using hj
    rcases Nat.lt_trichotomy i j with h | h | h
    · exact absurd (by simp [heq]) (hpw i j hi2 hj2 h)
    · exact h
    · exact absurd (by simp [heq]) (hpw j i hj2 hi2 h)
  have hpay : ∀ i (h : i < l.length) (h' : i < l'.length), pay l[i] = pay l'[i] := by
    intro i h h'
    have h1 : (l.map pay)[i]'(by simpa using h) = pay l[i] := by simp
    have h2 : (l'.map pay)[i]'(by simpa using h') = pay l'[i] := by simp
    rw [← h1, ← h2]
    congr 1
  have key : ∀ e1' ∈ l', ∀ e2' ∈ l',
      (∀ e1 ∈ l, ∀ e2 ∈ l, pay e1 = pay e1' → pay e2 = pay e2' → e1 = e2) → e1' = e2' := by
    intro e1' h1 e2' h2 hall
    obtain ⟨i, hi, rfl⟩ := List.mem_iff_getElem.1 h1
    obtain ⟨j, hj, rfl⟩ := List.mem_iff_getElem.1 h2
    have hi' : i < l.length := by omega
    have hj' : j < l.length := by omega
    have := hall l[i] (List.getElem_mem hi') l[j] (List.getElem_mem hj') (hpay i hi' hi) (hpay j hj' hj)
    have hij : i = j := hinj i j hi' hj' this
    subst hij
    rfl
  have hmask : ∀ e e' : SEnt, pay e = pay e' → masked e = masked e' := by
    intro e e' h
    have : e.attrs = e'.attrs := (Prod.mk.inj h).2
    simp only [masked, this]
  have hcands : ∀ e e' : SEnt, pay e = pay e' → cands e = cands e' := by
    intro e e' h
    have : e.attrs = e'.attrs := (Prod.mk.inj h).2
    simp only [cands, this]
  have hext : ∀ e e' : SEnt, pay e = pay e' → extId e = extId e' := by
    intro e e' h
    have : e.attrs = e'.attrs := (Prod.mk.inj h).2
    simp only [extId, this]
  refine ⟨?_, ?_, ?_, ?_⟩
  · intro e1' h1 e2' h2 m1 m2 hu
    apply key e1' h1 e2' h2
    intro e1 he1 e2 he2 p1 p2
    apply hw.uuids e1 he1 e2 he2 (by rw [hmask e1 e1' p1]; exact m1) (by rw [hmask e2 e2' p2]; exact m2)
    have a1 : e1.uuid = e1'.uuid := (Prod.mk.inj p1).1
    have a2 : e2.uuid = e2'.uuid := (Prod.mk.inj p2).1
    rw [a1, a2]; exact hu
  · intro e1' h1 e2' h2 m1 m2 n hn1 hn2
    apply key e1' h1 e2' h2
    intro e1 he1 e2 he2 p1 p2
    exact hw.names e1 he1 e2 he2 (by rw [hmask e1 e1' p1]; exact m1) (by rw [hmask e2 e2' p2]; exact m2) n
      (by rw [hcands e1 e1' p1]; exact hn1) (by rw [hcands e2 e2' p2]; exact hn2)
  · intro e1' h1 e2' h2 m1 m2 n hn1 hn2
    apply key e1' h1 e2' h2
    intro e1 he1 e2 he2 p1 p2
    exact hw.ext e1 he1 e2 he2 (by rw [hmask e1 e1' p1]; exact m1) (by rw [hmask e2 e2' p2]; exact m2) n
      (by rw [hext e1 e1' p1]; exact hn1) (by rw [hext e2 e2' p2]; exact hn2)
  · intro e' he' a
    obtain ⟨i, hi, rfl⟩ := List.mem_iff_getElem.1 he'
    have hi' : i < l.length := by omega
    have := hw.keys l[i] (List.getElem_mem hi') a
    have hattrs : l[i].attrs = l'[i].attrs := (Prod.mk.inj (hpay i hi' hi)).2
    rw [hattrs] at this
    exact this

/-- the entries an answer (a list of ids) denotes -/
def entriesOf (be : BeState) (ids : List Nat) : List (Nat × Kanidm.Filter.Entry) :=
  ids.filterMap (fun id => (be.ents.find? (fun e => decide (e.id = id))).map pay)

/-- the exact answer of C01, as entries: the stored entries satisfying the filter, in storage order -/
theorem answer_entries (S : ValSem) (be : BeState) (hids : (be.ents.map (·.id)).Nodup) (f : F) :
    entriesOf be (answer S (world be) f) = (be.ents.map pay).filter (fun p => f.matches S p.2) := by
  have hfind : ∀ e ∈ be.ents, be.ents.find? (fun x => decide (x.id = e.id)) = some e := fun e he => find_id hids he
  have hent : ∀ e ∈ be.ents, (world be).ent e.id = e.attrs := fun e he => world_ent hids he
  unfold entriesOf answer
  have hlive : (world be).live = be.ents.map (·.id) := rfl
  rw [hlive, List.filter_map, List.filterMap_map, List.filter_map]
  have h1 : be.ents.filter ((fun id => f.matches S ((world be).ent id)) ∘ fun e => e.id) =
      be.ents.filter ((fun p => f.matches S p.2) ∘ pay) := by
    apply List.filter_congr
    intro e he
    simp only [Function.comp_apply, hent e he, pay]
  rw [h1]
  have hfm : ∀ (l : List SEnt), (∀ e ∈ l, e ∈ be.ents) →
      l.filterMap ((fun id => (be.ents.find? (fun e => decide (e.id = id))).map pay) ∘ fun e => e.id) = l.map pay := by
    intro l
    induction l with
    | nil => intro _; rfl
    | cons a r ih =>
      intro hall
      simp only [List.filterMap_cons, Function.comp_apply, hfind a (hall a (by simp)), Option.map_some, List.map_cons]
      rw [ih (fun e he => hall e (by simp [he]))]
  exact hfm _ (fun e he => (List.mem_filter.1 he).1)

variable {δ : Type} (sview : δ → Nat × Kanidm.Filter.Entry) (cidsOf : δ → List Cid)

/-- the restore then reindex of `restore_server_core` never fails on the index layer -/
theorem reindex_after_restore_isSome (m : List (Nat × IType)) (pre s : Db δ) :
    (reindexDb sview m (commitRestore pre (restored pre s))).isSome = true := by
  unfold reindexDb
  have := reindex_isSome (toBe sview m (commitRestore pre (restored pre s)))
  cases h : Kanidm.Index.reindex (toBe sview m (commitRestore pre (restored pre s))) with
  | none => rw [h] at this; exact absurd this (by simp)
  | some be => simp

/-- **the consistency of the restored server**: after restore, commit, reindex and reopening, C03's invariant
holds with no stale table — ids distinct and within the id cache, every index table that the index metadata
names exists and holds exactly the ids of the entries producing each key, the name tables hold exactly the
pairs of the live entries — provided the ORIGINAL entries respect the uniqueness the upper layers guarantee. -/
theorem reopened_index_inv (m : List (Nat × IType)) (pre s s3 : Db δ)
    (hidA : (s.rows.map (·.1)).Nodup) (hw : WFn (entsOf sview s))
    (hre : reindexDb sview m (commitRestore pre (restored pre s)) = some s3) :
    Inv (fun _ _ => False) (toBe sview m (reload cidsOf s3)) ∧
      (∀ a it, tblExists (reload cidsOf s3).tbl a it ↔ (a, it) ∈ m) ∧
      (toBe sview m (reload cidsOf s3)).ents.map pay = (entsOf sview s).map pay := by
  unfold reindexDb at hre
  cases hbe : Kanidm.Index.reindex (toBe sview m (commitRestore pre (restored pre s))) with
  | none => rw [hbe] at hre; simp at hre
  | some be =>
    rw [hbe] at hre
    simp only [Option.map_some, Option.some.injEq] at hre
    subst hre
    -- `reindex` does not look at the id cache
    unfold Kanidm.Index.reindex at hbe
    cases hall : indexAll m (entsOf sview (commitRestore pre (restored pre s))) (freshTables m) with
    | none =>
      have : indexAll (toBe sview m (commitRestore pre (restored pre s))).idxmeta
          (toBe sview m (commitRestore pre (restored pre s))).ents
          (freshTables (toBe sview m (commitRestore pre (restored pre s))).idxmeta) = none := hall
      rw [this] at hbe
      simp at hbe
    | some t =>
      have hall' : indexAll (toBe sview m (commitRestore pre (restored pre s))).idxmeta
          (toBe sview m (commitRestore pre (restored pre s))).ents
          (freshTables (toBe sview m (commitRestore pre (restored pre s))).idxmeta) = some t := hall
      rw [hall'] at hbe
      simp only [Option.some.injEq] at hbe
      subst hbe
      let X0 : BeState := ⟨entsOf sview (commitRestore pre (restored pre s)), s.rows.length, m, Tables.empty, pre.idxVer⟩
      have hX : Kanidm.Index.reindex X0 = some { X0 with tbl := t } := by
        simp only [Kanidm.Index.reindex, X0, hall]
      have hrows : (commitRestore pre (restored pre s)).rows = number firstId (s.rows.map (·.2)) := rfl
      have hfin : toBe sview m (reload cidsOf { commitRestore pre (restored pre s) with tbl := t }) =
          { X0 with tbl := t } := by
        simp only [toBe, reload, ruvRestore, X0, entsOf, maxId, BeState.mk.injEq, and_true, true_and]
        refine ⟨?_, rfl⟩
        have := maxId_number (s.rows.map (·.2))
        simpa [maxId, hrows] using this
      have hpayeq : (entsOf sview (commitRestore pre (restored pre s))).map pay = (entsOf sview s).map pay := by
        rw [entsOf_pay, entsOf_pay, hrows]
        have := number_payloads (s.rows.map (·.2)) firstId
        calc (number firstId (s.rows.map (·.2))).map (fun r => sview r.2)
            = ((number firstId (s.rows.map (·.2))).map (·.2)).map sview := by simp [List.map_map, Function.comp_def]
          _ = (s.rows.map (·.2)).map sview := by rw [this]
          _ = s.rows.map (fun r => sview r.2) := by simp [List.map_map, Function.comp_def]
      have hidsB : ((entsOf sview (commitRestore pre (restored pre s))).map (·.id)).Nodup := by
        rw [entsOf_ids, hrows]; exact number_ids_nodup _ _
      have hwB : WFn (entsOf sview (commitRestore pre (restored pre s))) :=
        wfn_renumber hpayeq.symm (by rw [entsOf_ids]; exact hidA) hw
      have hle : ∀ e ∈ X0.ents, e.id ≤ X0.maxid := by
        intro e he
        have : e.id ∈ (entsOf sview (commitRestore pre (restored pre s))).map (·.id) := List.mem_map.2 ⟨e, he, rfl⟩
        rw [entsOf_ids, hrows, number_ids, List.mem_range'_1] at this
        simp only [firstId, List.length_map] at this
        show e.id ≤ s.rows.length
        omega
      have hinv := reindex_establishes_inv (s := X0) hle hidsB hwB hX
      rw [hfin]
      refine ⟨hinv.1, ?_, hpayeq⟩
      intro a it
      have hr : (reload cidsOf { commitRestore pre (restored pre s) with tbl := t }).tbl = t := rfl
      rw [hr]
      exact hinv.2 a it

/-- … and the same holds in the restoring process itself, before any reopening (`restore_server_core` starts
the server on the very backend it restored into): the id cache is already the restored maximum. -/
theorem same_process_index_inv (m : List (Nat × IType)) (pre s s3 : Db δ)
    (hidA : (s.rows.map (·.1)).Nodup) (hw : WFn (entsOf sview s))
    (hre : reindexDb sview m (commitRestore pre (restored pre s)) = some s3) :
    Inv (fun _ _ => False) (toBe sview m s3) := by
  have h := (reopened_index_inv sview (fun _ => []) m pre s s3 hidA hw hre).1
  have hs3 : s3.rows = number firstId (s.rows.map (·.2)) ∧ s3.maxid = s.rows.length := by
    unfold reindexDb at hre
    cases hbe : Kanidm.Index.reindex (toBe sview m (commitRestore pre (restored pre s))) with
    | none => rw [hbe] at hre; simp at hre
    | some be =>
      rw [hbe] at hre
      simp only [Option.map_some, Option.some.injEq] at hre
      subst hre
      exact ⟨rfl, (restored_id_cache pre s).1⟩
  have heq : toBe sview m (reload (fun _ => []) s3) = toBe sview m s3 := by
    simp only [toBe, reload, ruvRestore, BeState.mk.injEq, and_true, true_and]
    rw [hs3.2, hs3.1]
    have := maxId_number (s.rows.map (·.2))
    simpa using this
  rw [heq] at h
  exact h

/-- **every search answers as the original did**: a safe filter (C01) evaluated by `Backend::search` on the
original — under any index tables that mirror its entries, any index metadata — and on the restored,
reindexed, reopened database returns, whenever both return an answer rather than `ResourceLimit`, the same
entries (uuid and attributes) in the same order; only the entry ids differ. -/
theorem restore_search_equal (S : ValSem) (hS : SubSem S) (m : List (Nat × IType)) (pre s s3 : Db δ)
    (hidA : (s.rows.map (·.1)).Nodup) (hw : WFn (entsOf sview s))
    (hre : reindexDb sview m (commitRestore pre (restored pre s)) = some s3)
    (mA : List (Nat × IType)) (idxA : Idx) (hIA : IdxSound (world (toBe sview mA s)) idxA)
    (repA repB : Rep) (limA limB : Limits) (f : F) (hf : f.safe = true) (ra rb : List Nat)
    (hA : search S limA (world (toBe sview mA s)) idxA repA f = .ok ra)
    (hB : search S limB (world (toBe sview m (reload cidsOf s3))) (getIdl (reload cidsOf s3).tbl) repB f = .ok rb) :
    entriesOf (toBe sview mA s) ra = entriesOf (toBe sview m (reload cidsOf s3)) rb := by
  obtain ⟨hinv, _, hpayeq⟩ := reopened_index_inv sview cidsOf m pre s s3 hidA hw hre
  have hIB : IdxSound (world (toBe sview m (reload cidsOf s3))) (getIdl (reload cidsOf s3).tbl) :=
    idx_sound_of_inv hinv (fun _ _ _ h => h)
  have hra : ra = answer S (world (toBe sview mA s)) f := by
    rcases search_exact_partial S hS _ idxA repA hIA limA f hf with h | h
    · rw [h] at hA; simp [resLimit] at hA
    · rw [h] at hA; exact (Except.ok.inj hA).symm
  have hrb : rb = answer S (world (toBe sview m (reload cidsOf s3))) f := by
    rcases search_exact_partial S hS _ _ repB hIB limB f hf with h | h
    · rw [h] at hB; simp [resLimit] at hB
    · rw [h] at hB; exact (Except.ok.inj hB).symm
  rw [hra, hrb, answer_entries S _ (by exact (entsOf_ids sview s) ▸ hidA) f, answer_entries S _ hinv.idsNodup f]
  have : (toBe sview mA s).ents.map pay = (toBe sview m (reload cidsOf s3)).ents.map pay := hpayeq.symm
  rw [this]

end Index

/-! ## 6. what loading a restored row yields (C12) -/

section Load
open Kanidm.StoreCodec Kanidm.Gen.StoreCodec

/-- loading a stored entry under another id changes nothing but the id -/
theorem fromDbEntry_id (disp cst : TagPair) (single : VS → Option Nat) (uuidKey : Nat) (d : DbEntry) (i j : Nat) :
    fromDbEntry disp cst single uuidKey d j = (fromDbEntry disp cst single uuidKey d i).map (fun e => { e with id := j }) := by
  unfold fromDbEntry
  cases convCState cst.decode d.cs <;> cases mapAttrs (fromDbVS disp) (d.attrs.filter fun kv => !kv.2.elems.isEmpty) <;>
    simp
  rename_i cs as
  cases (as.lookup uuidKey).bind single <;> simp

/-- **the restored entries load as the entries that were stored** (C12's `entry_storage_roundtrip_partial`
through backup and restore): if the original rows are the stored forms of in-memory entries `es` (well formed,
without empty valuesets — C12's known finding — and holding their uuid), then the `k`-th restored row loads, under
its new id `k + 1`, as the `k`-th original entry. -/
theorem restored_rows_load (single : VS → Option Nat) (uuidKey : Nat) (pre s : Db DbEntry) (es : List Entry)
    (hstored : s.rows.map (·.2) = es.filterMap (toDbEntry valuesetDispatch changestate))
    (hlen : es.length = s.rows.length)
    (hwf : ∀ e ∈ es, e.wf ∧ (∀ kv ∈ e.attrs, kv.2.elems ≠ []) ∧ (e.attrs.lookup uuidKey).bind single = some e.uuid)
    (k : Nat) (hk : k < es.length) :
    ∃ r, (restored pre s).rows[k]? = some r ∧ r.1 = k + 1 ∧
      fromDbEntry valuesetDispatch changestate single uuidKey r.2 r.1 = some { es[k] with id := k + 1 } := by
  -- every entry stores
  have hsome : ∀ e ∈ es, ∃ d, toDbEntry valuesetDispatch changestate e = some d ∧
      fromDbEntry valuesetDispatch changestate single uuidKey d e.id = some e := by
    intro e he
    obtain ⟨h1, h2, h3⟩ := hwf e he
    have := entry_storage_roundtrip_partial single uuidKey e h1 h2 h3
    cases hd : toDbEntry valuesetDispatch changestate e with
    | none => rw [hd] at this; simp at this
    | some d => rw [hd] at this; exact ⟨d, rfl, by simpa using this⟩
  have hfm : ∀ (l : List Entry), (∀ e ∈ l, ∃ d, toDbEntry valuesetDispatch changestate e = some d) →
      ∀ k (hk : k < l.length), (l.filterMap (toDbEntry valuesetDispatch changestate))[k]? =
        toDbEntry valuesetDispatch changestate l[k] := by
    intro l
    induction l with
    | nil => intro _ k hk; simp at hk
    | cons a r ih =>
      intro hall k hk
      obtain ⟨d, hd⟩ := hall a (by simp)
      cases k with
      | zero => simp [List.filterMap_cons, hd]
      | succ n =>
        simp only [List.filterMap_cons, hd, List.getElem?_cons_succ, List.getElem_cons_succ]
        exact ih (fun e he => hall e (by simp [he])) n (by simpa using hk)
  obtain ⟨d, hd, hload⟩ := hsome es[k] (List.getElem_mem hk)
  have hrow : (s.rows.map (·.2))[k]? = some d := by
    rw [hstored, hfm es (fun e he => let ⟨d, h, _⟩ := hsome e he; ⟨d, h⟩) k hk, hd]
  have hnum : ∀ (l : List DbEntry) (n k : Nat) (d : DbEntry), l[k]? = some d → (number n l)[k]? = some (n + k, d) := by
    intro l
    induction l with
    | nil => intro n k d h; simp at h
    | cons a r ih =>
      intro n k d h
      cases k with
      | zero => simp only [List.getElem?_cons_zero, Option.some.injEq] at h; subst h; simp [number]
      | succ j =>
        simp only [List.getElem?_cons_succ] at h
        have := ih (n + 1) j d h
        simp only [number, List.getElem?_cons_succ, this]
        congr 2; omega
  refine ⟨(firstId + k, d), hnum _ firstId k d hrow, by simp [firstId]; omega, ?_⟩
  rw [fromDbEntry_id valuesetDispatch changestate single uuidKey d es[k].id (firstId + k), hload]
  simp [firstId]; omega

end Load

/-! ## 7. non-vacuity -/

section Examples

/-- a populated original: three entries with gaps in their ids, identifiers, a key handle, three RUV cids of
two servers (one of them an anchor no entry mentions), coherent ranges -/
def exA : Db Nat where
  rows := [(2, 70), (5, 71), (9, 72)]
  sUuid := some 11
  dUuid := some 12
  tsMax := some 300
  keys := [(0, 900)]
  dbRuv := [⟨100, 11⟩, ⟨200, 11⟩, ⟨150, 13⟩]
  tbl := Tables.empty
  idxVer := 1
  ruv := [(⟨100, 11⟩, [2, 5]), (⟨200, 11⟩, [9]), (⟨150, 13⟩, [])]
  ranged := [(11, [100, 200]), (13, [150])]
  maxid := 9

def exCids : Nat → List Cid
  | 70 => [⟨100, 11⟩]
  | 71 => [⟨100, 11⟩, ⟨50, 11⟩]
  | _ => [⟨200, 11⟩]

/-- a previous database that is not fresh: one entry, other identifiers, a RUV sharing a cid with the backup -/
def exPre : Db Nat where
  rows := [(4, 1)]
  sUuid := some 21
  dUuid := some 22
  tsMax := some 5
  keys := []
  dbRuv := [⟨100, 11⟩, ⟨7, 21⟩]
  tbl := Tables.empty
  idxVer := 3
  ruv := [(⟨100, 11⟩, [4]), (⟨7, 21⟩, [4])]
  ranged := [(11, [100]), (21, [7])]
  maxid := 4

example : RuvWF exA := ⟨by decide, by
  intro u t
  simp only [exA, tsOf, aget, List.map_cons, List.map_nil, List.mem_cons, List.not_mem_nil, or_false]
  by_cases h11 : u = 11
  · subst h11; simp [Cid.mk.injEq]
  · by_cases h13 : u = 13
    · subst h13; simp [Cid.mk.injEq]
    · have a : ¬ 11 = u := fun e => h11 e.symm
      have b : ¬ 13 = u := fun e => h13 e.symm
      simp [a, b, h11, h13, Cid.mk.injEq]⟩
example : Coherent exPre := by simp [Coherent, exPre]
example : Coherent (Db.fresh : Db Nat) := by simp [Coherent, Db.fresh]

/-- the hypotheses of `restore_backup_roundtrip` are met and the outcome is as stated -/
example : ∃ d, backup 7 exA = .ok d ∧ (restore 7 true (some d) exPre).2 = .ok () ∧
    (restore 7 true (some d) exPre).1.rows = [(1, 70), (2, 71), (3, 72)] ∧
    (restore 7 true (some d) exPre).1.ruv = [(⟨100, 11⟩, []), (⟨200, 11⟩, []), (⟨150, 13⟩, [])] ∧
    (restore 7 true (some d) exPre).1.ranged = [(11, [100, 200]), (13, [150])] ∧
    (restore 7 true (some d) exPre).1.maxid = 3 := by
  refine ⟨_, rfl, ?_⟩
  decide

/-- commit into the non-fresh database keeps the shared cid, and reopening fills the id lists -/
example : (reopened exCids exPre exA).dbRuv = [⟨100, 11⟩, ⟨200, 11⟩, ⟨150, 13⟩] ∧
    (reopened exCids exPre exA).ruv = [(⟨100, 11⟩, [2, 1]), (⟨200, 11⟩, [3]), (⟨150, 13⟩, [])] ∧
    (reopened exCids exPre exA).maxid = 3 ∧ verifyRuv exCids (reopened exCids exPre exA) = true := by
  decide

/-- refusals: another version, each older format, no document -/
example : ∃ d, backup 6 exA = .ok d ∧ (restoreServer 7 true (some d) exPre).2 = .error .mismatchedVersion ∧
    (restore 7 true (some d) exPre).1.rows = [] := ⟨_, rfl, by decide⟩
example : (restore 7 true (some ⟨false, [(.sUuid, .nat 1), (.dUuid, .nat 2), (.tsMax, .nat 3), (.keys, .keys []),
    (.replMeta, .cids []), (.entries, .ents [70])]⟩) exPre).2 = .error .olderVersion := by decide
example : (restore 7 true (some ⟨true, [(.entries, .ents [70])]⟩) exPre).2 = .error .olderVersion := by decide
example : (restore 7 true (some ⟨false, [(.entries, .ents [70])]⟩) exPre).2 = .error .serdeJson := by decide
example : (restore 7 true (some ⟨false, [(.version, .nat 7), (.sUuid, .nat 1), (.dUuid, .nat 2), (.tsMax, .nat 3),
    (.keys, .keys []), (.entries, .ents [70])]⟩) exPre).2 = .error .olderVersion := by decide

/-- sensitivity: with the two `ruv` statements in the other order a shared cid would be lost -/
example : [Step.dbRuvInsert, Step.dbRuvRemove].foldl
    (dbRuvStep (exPre.ruv.map (·.1)) ((restored exPre exA).ruv.map (·.1))) exPre.dbRuv =
    [⟨200, 11⟩, ⟨150, 13⟩] := by decide

end Examples

end Kanidm.Backup
