import KanidmProofs.Lemmas.Radius
/-!
# C46 — RADIUS secrets go only to members of required groups

Property theorems only (helpers in `Lemmas/Radius.lean`).  `authorise` is the transcription of
`Module::authorise` (rlm_kanidm/module/src/logic.rs); its membership predicate, quantifier,
guard polarity, early-return table, "not found" status, identity preference order and VLAN
lookup key are regenerated from the source on every run (`Generated/RadiusOps.lean`), so each
theorem below is re-proved about the code as it is now.  The right-hand sides (`Member`,
`MappedTo`, `Unmapped`) are the declarative reading of the property text.

`dir : Nat → Http` is the directory as seen through `GET /v1/account/{id}/_radius/_token`;
all theorems hold for every configuration, directory and request.
-/
namespace Kanidm.Radius
open Kanidm.Gen.Radius

/-- Which identity the module asks the directory about: certificate SAN DN CN, else
certificate CN, else the RADIUS User-Name. -/
theorem user_id_precedence (r : Request) :
    userId r = (match r.san, r.cn, r.user with
      | some a, _, _ => some a
      | none, some b, _ => some b
      | none, none, u => u) := by
  obtain ⟨san, cn, user⟩ := r
  cases san <;> cases cn <;> cases user <;> simp [userId, idOrder, Request.field]

/-- **The property, first sentence.**  The module hands out a cleartext secret `s` iff the
request identifies a user, the directory returns that user's token, some group of the token is
named in the required list by uuid or by spn, and `s` is *that token's* secret. -/
theorem secret_released_iff_member (cfg : Config) (dir : Nat → Http) (req : Request) (s : Nat) :
    (authorise cfg dir req).secret = some s ↔
      ∃ id t, userId req = some id ∧ dir id = .ok t ∧ Member cfg t ∧ s = t.secret := by
  unfold authorise
  cases hid : userId req with
  | none => simp [Outcome.secret]
  | some id =>
    simp only [Option.some.injEq]
    cases hd : dir id with
    | broken => simp [fetchToken, Outcome.secret, hd]
    | status c =>
      by_cases hc : c = notFoundStatus <;> simp [fetchToken, hc, Outcome.secret, hd]
    | ok t =>
      have hm := userInRequired_iff cfg t.groups
      by_cases hu : userInRequired cfg t.groups = true
      · have : Member cfg t := hm.mp hu
        simp [fetchToken, hu, returnWhenMember, Outcome.secret, this, hd, eq_comm]
      · have : ¬ Member cfg t := fun h => hu (hm.mpr h)
        simp [fetchToken, hu, returnWhenMember, Outcome.secret, this, hd]

/-- Access-Accept is produced under exactly the same condition, and every field of the reply
comes from the token of the identified user. -/
theorem accept_iff_member (cfg : Config) (dir : Nat → Http) (req : Request) (r : Reply) :
    authorise cfg dir req = .accept r ↔
      ∃ id t, userId req = some id ∧ dir id = .ok t ∧ Member cfg t ∧
        r = { name := t.name, uuid := t.uuid, secret := t.secret,
              vlan := (resolve cfg t.groups).vlan, attrs := (resolve cfg t.groups).attrs } := by
  unfold authorise
  cases hid : userId req with
  | none => simp
  | some id =>
    simp only [Option.some.injEq]
    cases hd : dir id with
    | broken => simp [fetchToken, hd]
    | status c =>
      by_cases hc : c = notFoundStatus <;> simp [fetchToken, hc, hd]
    | ok t =>
      have hm := userInRequired_iff cfg t.groups
      by_cases hu : userInRequired cfg t.groups = true
      · have : Member cfg t := hm.mp hu
        simp [fetchToken, hu, returnWhenMember, this, hd, eq_comm]
      · have : ¬ Member cfg t := fun h => hu (hm.mpr h)
        simp [fetchToken, hu, returnWhenMember, this, hd]

/-- **The property, second sentence.**  On Access-Accept the VLAN is the default if none of
the user's groups has a VLAN mapping, and otherwise that of the *last* of the user's groups
that has one (the mapping in force for an spn being the last `radius_groups` entry for it). -/
theorem vlan_last_mapped_else_default (cfg : Config) (dir : Nat → Http) (req : Request)
    (r : Reply) (id : Nat) (t : Token)
    (hacc : authorise cfg dir req = .accept r) (hid : userId req = some id) (hd : dir id = .ok t) :
    ((∀ g ∈ t.groups, Unmapped cfg g.spn) → r.vlan = cfg.defaultVlan) ∧
    (∀ pre g post c, t.groups = pre ++ g :: post → MappedTo cfg g.spn c →
        (∀ h ∈ post, Unmapped cfg h.spn) → r.vlan = c.vlan) := by
  obtain ⟨id', t', hid', hd', _, hr⟩ := (accept_iff_member cfg dir req r).mp hacc
  have : id' = id := by rw [hid] at hid'; exact (Option.some.inj hid').symm
  subst this
  have : t' = t := by rw [hd] at hd'; cases hd'; rfl
  subst this
  subst hr
  refine ⟨fun h => resolve_vlan_default cfg _ h, ?_⟩
  intro pre g post c hsplit hg hpost
  show (resolve cfg t'.groups).vlan = c.vlan
  rw [hsplit]
  exact resolve_vlan_last cfg pre post g c hg hpost

/-- The two cases of `vlan_last_mapped_else_default` cover every group list: the theorem
determines the VLAN of every Access-Accept. -/
theorem vlan_cases_exhaustive (cfg : Config) (gs : List Group) :
    (∀ g ∈ gs, Unmapped cfg g.spn) ∨
    ∃ pre g post c, gs = pre ++ g :: post ∧ MappedTo cfg g.spn c ∧ ∀ h ∈ post, Unmapped cfg h.spn :=
  last_mapped_split cfg gs

/-- **Not-found and errors release nothing.**  Every path other than "member" ends in the
stated `AuthError` (none of which carries a secret). -/
theorem not_found_and_failures_release_nothing (cfg : Config) (dir : Nat → Http) (req : Request) :
    (userId req = none → authorise cfg dir req = .err .fail) ∧
    (∀ id, userId req = some id → dir id = .status 404 → authorise cfg dir req = .err .notFound) ∧
    (∀ id c, userId req = some id → dir id = .status c → c ≠ 404 → authorise cfg dir req = .err .fail) ∧
    (∀ id, userId req = some id → dir id = .broken → authorise cfg dir req = .err .fail) ∧
    (∀ id t, userId req = some id → dir id = .ok t → ¬ Member cfg t →
        authorise cfg dir req = .err .reject) ∧
    (∀ e, authorise cfg dir req = .err e → (authorise cfg dir req).secret = none) := by
  refine ⟨?_, ?_, ?_, ?_, ?_, ?_⟩
  · intro h; simp [authorise, h, errNoUser]
  · intro id h1 h2; simp [authorise, h1, h2, fetchToken, notFoundStatus, errNotFound]
  · intro id c h1 h2 h3; simp [authorise, h1, h2, fetchToken, notFoundStatus, h3, errLookup]
  · intro id h1 h2; simp [authorise, h1, h2, fetchToken, errLookup]
  · intro id t h1 h2 h3
    have hu : ¬ userInRequired cfg t.groups = true := fun h => h3 ((userInRequired_iff cfg _).mp h)
    simp [authorise, h1, h2, fetchToken, hu, returnWhenMember, errGuard]
  · intro e h; rw [h]; rfl

/-! ## Non-vacuity: concrete configurations meeting the hypotheses -/

private def cfgEx : Config :=
  { required := [100, 7], defaultVlan := 1,
    groups := [⟨20, 10, [(1, 1)]⟩, ⟨21, 30, []⟩, ⟨20, 40, [(1, 2)]⟩] }
private def alice : Token := ⟨1, 2, 999, [⟨20, 5⟩, ⟨21, 7⟩, ⟨50, 6⟩]⟩   -- member by uuid 7
private def bob : Token := ⟨3, 4, 888, [⟨20, 5⟩, ⟨50, 6⟩]⟩              -- not a member
private def dirEx : Nat → Http
  | 1 => .ok alice
  | 3 => .ok bob
  | 9 => .status 500
  | _ => .status 404

example : authorise cfgEx dirEx ⟨none, some 1, some 3⟩ = .accept ⟨1, 2, 999, 30, [(1, 2)]⟩ := by decide
example : Member cfgEx alice := ⟨⟨21, 7⟩, by decide, by decide⟩
example : MappedTo cfgEx 20 ⟨20, 40, [(1, 2)]⟩ := ⟨[⟨20, 10, [(1, 1)]⟩, ⟨21, 30, []⟩], [], rfl, rfl, by simp⟩
example : Unmapped cfgEx 50 := by simp [Unmapped, cfgEx]
example : authorise cfgEx dirEx ⟨none, none, some 3⟩ = .err .reject := by decide
example : ¬ Member cfgEx bob := by simp [Member, cfgEx, bob]
example : authorise cfgEx dirEx ⟨none, none, some 4⟩ = .err .notFound := by decide
example : authorise cfgEx dirEx ⟨some 9, none, some 1⟩ = .err .fail := by decide
example : authorise cfgEx dirEx ⟨none, none, none⟩ = .err .fail := by decide
/-- an empty required list admits nobody -/
example (dir : Nat → Http) (req : Request) (s : Nat) :
    (authorise { cfgEx with required := [] } dir req).secret ≠ some s := by
  intro h
  obtain ⟨_, t, _, _, ⟨g, _, hg⟩, _⟩ := (secret_released_iff_member _ dir req s).mp h
  simp at hg

end Kanidm.Radius
