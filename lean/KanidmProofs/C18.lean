import KanidmProofs.Lemmas.DynGroup
/-!
# C18 — Dynamic groups contain exactly the matching entries

Property theorems only (lemmas: `Lemmas/DynGroup.lean`). The model (`KanidmModel/DynGroup.lean`)
transcribes `plugins/dyngroup.rs` — the incremental path (`entry_match_no_index` of the cached,
unindexed-resolved filter on the changed entries that are not dyngroups), the full path
(`apply_dyngroup_change`: the index-resolved, optimised filter through `Backend::search` over all
stored entries, then the `mask_recycled_ts` filter), the cache and its `expect` test — together
with what delete (refint) and revive (`revive_recycled`) do to `dynmember`. The add / remove tests,
the mask, the `expect` flags and the order of the two halves in both hooks are regenerated from the
source on every run (`KanidmModel/Generated/DynGroupOps.lean`); filter meaning, filter rewriting and
indexed search are C02's and C01's models and theorems, reused unchanged.

Vocabulary: `M env fc e` = the entry satisfies the stored filter (ordinary boolean reading);
`Exact env st` = every live dyngroup's `dynmember` is exactly the set of live stored entries that
satisfy its filter; `Inv` = `Exact` + distinct uuids + every live dyngroup cached with its current
filter + the hypotheses below hold of the state; `safeRunB` = the executable scope test the driver
evaluates on every real history of the harness.

The property as stated is **false of the code** in two ways, each proved from a replayed witness:
D1 (a NOT that is not guarded by a positive AND sibling means the empty set to `Backend::search` but
the complement to `entry_match_no_index`) and F1 / D33 (the hooks partition dyngroup entries out
of the candidates). `dyn_exact_partial` is the property for every history that avoids exactly
these two shapes. A third one, F2 / D34 (a revive compared the recycled entry with its revived
form under a filter that does not see the recycled state), is repaired in the source by the
`mask_recycled_ts` guards of the incremental tests, which the model regenerates; its witness is a
regression example below.
-/
namespace Kanidm.DynGroup
open Kanidm.Filter

/-! ## 0. the regenerated operators are the ones the proofs are about -/

/-- `post_modify` adds an entry iff it matches now and did not before (unless forced), removes it
iff it matched before and does not now, where "matches" is guarded by `mask_recycled_ts` on both
sides and in `post_create`; `apply_dyngroup_change` masks recycled / tombstoned entries, expects new groups to be uncached and modified groups to be cached; `post_create` tests
existing groups first, `post_modify` re-evaluates changed groups first. -/
theorem ops_as_modelled :
    (∀ post pre force, addTest post pre force = (post && (force || !pre))) ∧
    (∀ post pre force, remTest post pre force = (pre && !post)) ∧
    fullMask = true ∧ maskCreate = true ∧ maskPre = true ∧ maskPost = true ∧
    expectCreate = false ∧ expectModify = true ∧
    createIncFirst = true ∧ modifyFullFirst = true := by
  refine ⟨?_, ?_, rfl, rfl, rfl, rfl, rfl, rfl, rfl, rfl⟩
  · intro a b c; cases a <;> cases b <;> cases c <;> rfl
  · intro a b c; cases a <;> cases b <;> cases c <;> rfl

/-! ## 1. the two evaluation paths -/

/-- The incremental path (`resolve` without index metadata, `fast_optimise`,
`entry_match_no_index`) decides exactly whether the entry satisfies the filter. -/
theorem incremental_means_filter (env : Env) (fc : FC) (e : Entry) (h : fcOk fc = true) :
    matchB env fc e = M env fc e :=
  matchB_eq env fc e h

/-- The full path (`resolve` with index metadata, `optimise`, `Backend::search` through whatever
is indexed, `mask_recycled_ts`) returns exactly the live stored entries satisfying the filter —
for good filters (every NOT guarded; C01's `search_exact_partial`). -/
theorem full_means_filter (env : Env) (ents : List Ent) (hu : Uniq ents) (fc : FC) (ms : List Nat)
    (hg : goodB env fc = true) (h : fullEval env (worldOf ents) fc = some ms) :
    ∀ u, u ∈ ms ↔ ∃ e ∈ ents, e.id = u ∧ env.live e = true ∧ M env fc e.entry = true :=
  fullEval_matches env hu fc ms hg h

/-- **The two paths agree** on every stored entry, for good filters and every index layout. -/
theorem incremental_eq_full (env : Env) (ents : List Ent) (hu : Uniq ents) (fc : FC) (ms : List Nat)
    (hg : goodB env fc = true) (h : fullEval env (worldOf ents) fc = some ms) :
    ∀ e ∈ ents, e.id ∈ ms ↔ (env.live e = true ∧ matchB env fc e.entry = true) := by
  intro e he
  rw [fullEval_matches env hu fc ms hg h, matches_self hu he, matchB_eq env fc _ (goodB_fcOk hg)]

/-! ## 2. every operation keeps the invariant -/

/-- the constants of the numbering are distinct values -/
def Env.wf (env : Env) : Prop := env.vDynGroup ≠ env.vRecycled

/-- **One committed operation** — create (candidates and / or dyngroups), modify (attributes or
the filter, of candidates and / or dyngroups), delete, revive — keeps `Inv`, provided it is in the
scope `opSafeB` (good filters, no change of `class`) and reaches a state in
which no live dyngroup satisfies a live dyngroup's filter. -/
theorem step_preserves (env : Env) (hwf : env.wf) (st st' : State) (op : Op) (hI : Inv env st)
    (h : step env st op = some st') (hs : opSafeB env st op = true)
    (hn : noDynB env st'.ents = true) : Inv env st' := by
  have hnd := noDynB_sound env _ hn
  cases op with
  | create news =>
    refine create_preserves env st st' news hI h ?_ hnd
    intro e he fc hf
    simp only [opSafeB, List.all_eq_true] at hs
    have := hs e he
    simp only [hf] at this
    exact this
  | modify ids ch =>
    cases ch with
    | attrs l =>
      refine modify_preserves env st st' ids _ hI h (fun fc hc => by cases hc) ?_ hnd
      simp only [opSafeB, List.all_eq_true, Bool.not_eq_true', beq_eq_false_iff_ne] at hs
      exact hs
    | filt fc =>
      refine modify_preserves env st st' ids _ hI h ?_ trivial hnd
      intro fc' hc
      injection hc with hc
      subst hc
      exact hs
  | delete ids => exact delete_preserves env st st' ids hI h hnd
  | revive id => exact revive_preserves env st st' id hwf hI h hnd

/-! ## 3. the property, for every history in scope -/

theorem run_preserves (env : Env) (hwf : env.wf) :
    ∀ (ops : List Op) (st : State), Inv env st → safeRunB env st ops = true → Inv env (run env st ops) := by
  intro ops
  induction ops with
  | nil => intro st hI _; exact hI
  | cons op ops ih =>
    intro st hI hs
    simp only [safeRunB] at hs
    simp only [run]
    cases hstep : step env st op with
    | none =>
      simp only [hstep] at hs
      exact ih st hI hs
    | some st' =>
      simp only [hstep, Bool.and_eq_true] at hs
      exact ih st' (step_preserves env hwf st st' op hI hstep hs.1.1 hs.1.2) hs.2

/-- **C18, the part that is true.** From a freshly loaded server that satisfies the property
(`initB`), after *any* history of committed operations in scope — failed operations included,
histories of any length, any number of dyngroups and entries, any index layout — every live dynamic
group's `dynmember` is exactly the set of live entries satisfying its filter. Membership follows
changes of the candidates (create / modify / delete / revive) and of the groups' filters. -/
theorem dyn_exact_partial (env : Env) (hwf : env.wf) (ents : List Ent) (dyn mem rdmo : Nat → List Nat)
    (hinit : initB env (State.load env ents dyn mem rdmo) = true) (ops : List Op)
    (hs : safeRunB env (State.load env ents dyn mem rdmo) ops = true) :
    Exact env (run env (State.load env ents dyn mem rdmo) ops) :=
  (run_preserves env hwf ops _ (init_inv env ents dyn mem rdmo hinit) hs).exact

/-- the test the driver reports is the property -/
theorem exactB_is_exact (env : Env) (st : State) : exactB env st = true ↔ Exact env st :=
  exactB_iff env st

/-! ## 4. the property at full strength is false of the code: two witnesses, one repaired -/

/-- The statement without the scope condition. -/
def dyn_exact_full : Prop :=
  ∀ (env : Env), env.wf → ∀ (ents : List Ent) (dyn mem rdmo : Nat → List Nat),
    initB env (State.load env ents dyn mem rdmo) = true → ∀ ops : List Op,
      Exact env (run env (State.load env ents dyn mem rdmo) ops)

/-- class = attribute 0 (equality and presence indexed), description = attribute 2 (not indexed);
class values: 1 recycled, 2 tombstone, 3 dyngroup, 4 group, 5 object -/
def wEnv : Env :=
  ⟨0, ⟨9, 1⟩, .str [1], .str [2], .str [3], .num 0, fun a t => a == 0 && (t == .equality || t == .presence)⟩

def wNil : Nat → List Nat := fun _ => []

def grp (id : Nat) (desc : List Nat) : Ent := ⟨id, [(0, [.str [4], .str [5]]), (2, [.str desc])], none⟩
def dynGrp (id : Nat) (fc : FC) : Ent := ⟨id, [(0, [.str [3], .str [4], .str [5]])], some fc⟩

theorem wEnv_wf : wEnv.wf := by
  unfold Env.wf wEnv
  decide

/-- D1: `Or[class = group, AndNot(description = 7)]` — created over two groups; the full path
treats the isolated NOT as the empty set -/
def d1Ops : List Op :=
  [.create [⟨1, [(0, [.str [5]]), (2, [.str [8]])], none⟩],
   .create [dynGrp 20 (.and [.or [.eq 0 (.str [4]), .andnot (.eq 2 (.str [7]))], .andnot (.eq 0 (.str [3]))])]]

theorem d1_inexact : exactB wEnv (run wEnv (State.load wEnv [] wNil wNil wNil) d1Ops) = false := by
  decide +kernel

theorem dyn_exact_full_false_D1 : ¬ dyn_exact_full := by
  intro h
  have := (exactB_iff _ _).mpr (h wEnv wEnv_wf [] wNil wNil wNil (by decide +kernel) d1Ops)
  rw [d1_inexact] at this
  cases this

/-- F1: a dyngroup whose filter is `class = group`, then a second dyngroup is created: it is a live
group, but dyngroups are partitioned out of the candidates -/
def f1Ops : List Op :=
  [.create [dynGrp 20 (.eq 0 (.str [4]))], .create [dynGrp 21 (.eq 2 (.str [7]))]]

theorem f1_inexact : exactB wEnv (run wEnv (State.load wEnv [] wNil wNil wNil) f1Ops) = false := by
  decide +kernel

theorem dyn_exact_full_false_F1 : ¬ dyn_exact_full := by
  intro h
  have := (exactB_iff _ _).mpr (h wEnv wEnv_wf [] wNil wNil wNil (by decide +kernel) f1Ops)
  rw [f1_inexact] at this
  cases this

/-- F2 / D34 (repaired): group 1 (description 7) is deleted, the dyngroup's filter changes to
`description = 7` while it is recycled, then it is revived: it satisfies the filter before and
after, and — `pre` being guarded — it is added -/
def f2Ops : List Op :=
  [.create [grp 1 [7]],
   .create [dynGrp 20 (.and [.eq 2 (.str [8]), .andnot (.eq 0 (.str [3]))])],
   .delete [1],
   .modify [20] (.filt (.and [.eq 2 (.str [7]), .andnot (.eq 0 (.str [3]))])),
   .revive 1]

theorem f2_repaired :
    exactB wEnv (run wEnv (State.load wEnv [] wNil wNil wNil) f2Ops) = true ∧
    (run wEnv (State.load wEnv [] wNil wNil wNil) f2Ops).dyn 20 = [1] ∧
    safeRunB wEnv (State.load wEnv [] wNil wNil wNil) f2Ops = true := by
  decide +kernel

/-- each witness leaves the scope at exactly the expected hypothesis: a filter that is not good
(D1), a state in which a dyngroup satisfies a dyngroup's filter (F1) -/
theorem witnesses_out_of_scope :
    safeRunB wEnv (State.load wEnv [] wNil wNil wNil) d1Ops = false ∧
    safeRunB wEnv (State.load wEnv [] wNil wNil wNil) (d1Ops.take 1) = true ∧
    safeRunB wEnv (State.load wEnv [] wNil wNil wNil) f1Ops = false ∧
    noDynB wEnv (run wEnv (State.load wEnv [] wNil wNil wNil) f1Ops).ents = false := by
  decide +kernel

/-! ## 5. the hypotheses are satisfiable by a non-trivial history -/

/-- candidates created before and after the group, one modified into and one out of the filter, the
filter changed, a member deleted and revived, the group itself deleted and revived -/
def exOps : List Op :=
  [.create [grp 1 [7], grp 2 [8]],
   .create [dynGrp 20 (.and [.eq 2 (.str [7]), .andnot (.eq 0 (.str [3]))])],
   .create [grp 3 [7]],
   .modify [2] (.attrs [(2, [.str [7]])]),
   .modify [1] (.attrs [(2, [.str [9]])]),
   .modify [20] (.filt (.and [.or [.eq 2 (.str [9]), .eq 2 (.str [7])], .andnot (.eq 0 (.str [3]))])),
   .delete [3],
   .revive 3,
   .delete [20],
   .create [grp 4 [9]],
   .revive 20]

example : safeRunB wEnv (State.load wEnv [] wNil wNil wNil) exOps = true := by decide +kernel
example : initB wEnv (State.load wEnv [] wNil wNil wNil) = true := by decide +kernel
example : Exact wEnv (run wEnv (State.load wEnv [] wNil wNil wNil) exOps) :=
  dyn_exact_partial wEnv wEnv_wf [] wNil wNil wNil (by decide +kernel) exOps (by decide +kernel)
/-- …and the group ends up with the four live matching groups -/
example : (run wEnv (State.load wEnv [] wNil wNil wNil) exOps).dyn 20 = [1, 2, 3, 4] := by
  decide +kernel
example : ((run wEnv (State.load wEnv [] wNil wNil wNil) (exOps.take 5)).dyn 20) = [3, 2] := by
  decide +kernel

end Kanidm.DynGroup
