import KanidmProofs.Lemmas.ProtoFilterExec
import KanidmModel.ProtoFilterEnv
/-!
# C41 — LDAP and SCIM filters mean what their standards say

Property theorems only (helper lemmas: `Lemmas/ProtoFilter.lean`, `Lemmas/ProtoFilterExec.lean`).
Model: `KanidmModel/ProtoFilter.lean` (`ldapTr` = `FilterComp::from_ldap_ro`, `scimTr` =
`FilterComp::from_scim_ro`, standard meanings `ldapSem` / `scimSem`), `ProtoFilterExec.lean`
(`execSearch` = ignore-hidden → C02 `resolveIdx`/`optimise` → C01 `search`). The arms of both
translations, the SCIM rewrite templates, the alias table, the orderable syntaxes, the syntaxes
`resolve_scim_json_get` accepts and the depth constant come from
`KanidmModel/Generated/ProtoFilterTables.lean`, rewritten from the source on every run, so every
theorem below is re-stated whenever one of them changes.

All theorems hold for every environment `env` (schema, attribute interning, value parsers), every
entry, every case folding `fold`, every depth/element budget.
-/
namespace Kanidm.ProtoFilter
open Kanidm.Filter

/-! ## 1. a translated filter means what the standard says, entry by entry -/

/-- **LDAP.** If `from_ldap_ro` accepts a filter whose substring assertions have one component
each, the `FilterComp` it returns is true of an entry exactly when the RFC 4511 meaning is:
AND/OR/NOT as conjunction/disjunction/complement, an assertion holds when any value of the
(alias-mapped, case-insensitively named) attribute satisfies it. -/
theorem ldap_translation_sound_partial (fold : Nat → Nat) (env : Env) (self : Val) (uuidA : Nat)
    (lf : LF) (hsub : lf.subSingle = true) (maxElems : Nat) (fc : FC)
    (h : ldapTrTop env maxElems lf = .ok fc) (e : Entry) :
    fc.matches (foldSem fold) self uuidA e = ldapSem fold env e lf := by
  unfold ldapTrTop at h
  cases h1 : ldapTr env filterDepthMax maxElems lf with
  | error err => simp [h1] at h
  | ok r =>
    obtain ⟨g, n'⟩ := r
    simp [h1] at h
    subst h
    exact ldapTr_meaning_aux fold env self uuidA e lf hsub _ _ g n' h1

/-- **SCIM.** If `from_scim_ro` accepts a filter, the `FilterComp` it returns is true of an entry
exactly when the RFC 7644 meaning is — including the `gt`/`ge`/`le` rewrites through `LessThan`,
which are only reached for single-valued attributes of an orderable syntax (`OrdTyped`: entries
conform to the schema in that respect). -/
theorem scim_translation_sound_partial (fold : Nat → Nat) (env : Env) (self : Val) (uuidA : Nat)
    (sf : SF) (maxElems : Nat) (fc : FC) (h : scimTrTop env maxElems sf = .ok fc)
    (e : Entry) (ht : OrdTyped env e) :
    fc.matches (foldSem fold) self uuidA e = scimSem fold env e sf := by
  unfold scimTrTop at h
  cases h1 : scimTr env filterDepthMax maxElems sf with
  | error err => simp [h1] at h
  | ok r =>
    obtain ⟨g, n'⟩ := r
    simp [h1] at h
    subst h
    exact scimTr_meaning_aux fold env self uuidA e ht sf _ _ g n' h1

/-- **the executable substring match is the standard's**: `subMatchStr` (leftmost-greedy) accepts a
value exactly when the value can be split as RFC 4511 §4.5.1.7.2 demands -/
theorem subMatchStr_iff_spec (ini : Option (List Nat)) (any : List (List Nat)) (fin : Option (List Nat))
    (x : List Nat) : subMatchStr ini any fin x = true ↔ subSpec ini any fin x := by
  have key : ∀ r, (match matchAny any r with
      | none => false
      | some r' => match fin with | none => true | some f => f.isSuffixOf r') = matchAnyFin any fin r := by
    intro r; rfl
  cases ini with
  | none =>
    simp only [subMatchStr, subSpec]
    exact matchAnyFin_iff any fin x
  | some i =>
    simp only [subMatchStr, subSpec]
    by_cases hp : i.isPrefixOf x = true
    · simp only [hp, if_true]
      obtain ⟨t, ht⟩ := List.isPrefixOf_iff_prefix.mp hp
      have hd : x.drop i.length = t := by rw [← ht]; simp
      rw [hd]
      refine Iff.trans (matchAnyFin_iff any fin t) ?_
      constructor
      · intro h; exact ⟨t, ht.symm, h⟩
      · rintro ⟨r, hr, hs⟩
        have : r = t := by rw [hr] at ht; exact (List.append_cancel_left ht).symm
        rw [← this]; exact hs
    · simp only [hp, Bool.false_eq_true, if_false]
      constructor
      · intro h; cases h
      · rintro ⟨r, hr, _⟩
        exfalso; apply hp
        exact List.isPrefixOf_iff_prefix.mpr ⟨r, hr.symm⟩

/-! ## 2. what is not implemented is rejected, never answered -/

/-- LDAP `>=`, `<=`, `~=` and extensible match anywhere in the filter: the whole filter is refused. -/
theorem ldap_unsupported_rejected (env : Env) (lf : LF) (h : lf.hasUnsupported = true)
    (maxElems : Nat) : (ldapTrTop env maxElems lf).toBool = false := by
  obtain ⟨e, he⟩ := ldapTr_rejects env lf h filterDepthMax maxElems
  simp [ldapTrTop, he, Except.toBool]

/-- SCIM `ne`, a sub-attribute path or a value path anywhere in the filter: refused. -/
theorem scim_unsupported_rejected (env : Env) (sf : SF) (h : sf.hasUnsupported = true)
    (maxElems : Nat) : (scimTrTop env maxElems sf).toBool = false := by
  have := scimTr_rejects_of env SF.hasUnsupported
    (by
      intro op a sub v hb d n
      unfold scimTr
      cases he : enter d n with
      | error err => exact ⟨err, rfl⟩
      | ok r =>
        obtain ⟨nd, ne⟩ := r
        cases sub with
        | true => exact ⟨.filterGeneration, rfl⟩
        | false =>
          have hop : op = .ne := by simpa [SF.hasUnsupported] using hb
          subst hop
          exact ⟨.filterGeneration, by simp [scimArm, scimCmp]⟩)
    (fun _ => rfl) (fun _ _ => rfl) (fun _ _ => rfl)
    (fun _ d n => scimTr_complex_rejects env d n) sf h filterDepthMax maxElems
  obtain ⟨e, he⟩ := this
  simp [scimTrTop, he, Except.toBool]

/-- An accepted SCIM filter applies ordering operators only to single-valued attributes of an
orderable syntax (the guard added for defect D8). -/
theorem scim_ordering_only_single_orderable (env : Env) (sf : SF) (d n : Nat) (r : FC × Nat)
    (h : scimTr env d n sf = .ok r) :
    ∀ a ∈ sf.orderingAttrs, ∃ s, env.syn a = some (s, false) ∧ orderableSyn.contains s = true := by
  induction sf generalizing d n r with
  | cmp op a sub v =>
    intro a' ha'
    have hop : op.isOrdering = true ∧ a' = a := by
      simp only [SF.orderingAttrs] at ha'
      split at ha' <;> simp_all
    obtain ⟨hop, rfl⟩ := hop
    have guard : ∀ t g, scimCmp env (.tr true true t) a' v = .ok g → orderingSupported env a' = .ok () := by
      intro t g hg
      unfold scimCmp at hg
      simp only [if_true] at hg
      cases ho : orderingSupported env a' with
      | error err => simp [ho] at hg
      | ok u => rfl
    unfold scimTr at h
    cases he : enter d n with
    | error err => simp [he] at h
    | ok r0 =>
      obtain ⟨nd, ne⟩ := r0
      simp only [he] at h
      cases sub with
      | true => simp at h
      | false =>
        simp only [Bool.false_eq_true, if_false] at h
        cases op <;> simp [SOp.isOrdering] at hop <;> simp only [scimArm] at h
        all_goals
          split at h
          · cases h
          · rename_i g hg
            exact orderingSupported_ok (guard _ g hg)
  | not f ih =>
    intro a ha
    unfold scimTr at h
    cases he : enter d n with
    | error err => simp [he] at h
    | ok r0 =>
      obtain ⟨nd, ne⟩ := r0
      simp only [he] at h
      cases h1 : scimTr env nd ne f with
      | error err => simp [h1] at h
      | ok r1 => exact ih nd ne r1 h1 a (by simpa [SF.orderingAttrs] using ha)
  | or l r' ihl ihr =>
    intro a ha
    unfold scimTr at h
    cases he : enter d n with
    | error err => simp [he] at h
    | ok r0 =>
      obtain ⟨nd, ne⟩ := r0
      simp only [he] at h
      cases h1 : scimTr env nd ne l with
      | error err => simp [h1] at h
      | ok r1 =>
        obtain ⟨gl, ne1⟩ := r1
        simp only [h1] at h
        cases h2 : scimTr env nd ne1 r' with
        | error err => simp [h2] at h
        | ok r2 =>
          simp only [SF.orderingAttrs, List.mem_append] at ha
          rcases ha with ha | ha
          · exact ihl nd ne _ h1 a ha
          · exact ihr nd ne1 _ h2 a ha
  | and l r' ihl ihr =>
    intro a ha
    unfold scimTr at h
    cases he : enter d n with
    | error err => simp [he] at h
    | ok r0 =>
      obtain ⟨nd, ne⟩ := r0
      simp only [he] at h
      cases h1 : scimTr env nd ne l with
      | error err => simp [h1] at h
      | ok r1 =>
        obtain ⟨gl, ne1⟩ := r1
        simp only [h1] at h
        cases h2 : scimTr env nd ne1 r' with
        | error err => simp [h2] at h
        | ok r2 =>
          simp only [SF.orderingAttrs, List.mem_append] at ha
          rcases ha with ha | ha
          · exact ihl nd ne _ h1 a ha
          · exact ihr nd ne1 _ h2 a ha
  | complex => intro a ha; simp [SF.orderingAttrs] at ha

/-- In the current code no orderable syntax has an arm in `resolve_scim_json_get` (the two
regenerated lists are disjoint), so every SCIM filter containing `gt`/`ge`/`lt`/`le` is refused:
either by the ordering guard or, for orderable attributes, by the value resolution. -/
theorem scim_ordering_currently_rejected (env : Env)
    (hres : ∀ a s m j, env.syn a = some (s, m) → scimResolvableSyn.contains s = false →
      (env.scimVal a j).toBool = false)
    (sf : SF) (h : sf.hasOrdering = true) (maxElems : Nat) :
    (scimTrTop env maxElems sf).toBool = false := by
  have hres' : ∀ a s m j, env.syn a = some (s, m) → scimResolvableSyn.contains s = false →
      ∃ err, env.scimVal a j = .error err := by
    intro a s m j hs hr
    have := hres a s m j hs hr
    cases hv : env.scimVal a j with
    | error err => exact ⟨err, rfl⟩
    | ok v => simp [hv, Except.toBool] at this
  have := scimTr_rejects_of env SF.hasOrdering
    (by
      intro op a sub v hb d n
      unfold scimTr
      cases he : enter d n with
      | error err => exact ⟨err, rfl⟩
      | ok r =>
        obtain ⟨nd, ne⟩ := r
        cases sub with
        | true => exact ⟨.filterGeneration, rfl⟩
        | false =>
          simp only [Bool.false_eq_true, if_false]
          have key : ∀ t, ∃ err, scimCmp env (.tr true true t) a v = .error err := by
            intro t
            unfold scimCmp
            simp only [if_true]
            cases ho : orderingSupported env a with
            | error err => exact ⟨err, rfl⟩
            | ok u =>
              obtain ⟨s, hs, hc⟩ := orderingSupported_ok ho
              obtain ⟨err, herr⟩ := hres' a s false v hs (orderable_not_resolvable s hc)
              exact ⟨err, by simp [herr]⟩
          cases op <;> simp [SF.hasOrdering, SOp.isOrdering] at hb <;> simp only [scimArm]
          all_goals
            obtain ⟨err, herr⟩ := key _
            exact ⟨err, by rw [herr]⟩)
    (fun _ => rfl) (fun _ _ => rfl) (fun _ _ => rfl)
    (fun hc => by simp [SF.hasOrdering] at hc) sf h filterDepthMax maxElems
  obtain ⟨e, he⟩ := this
  simp [scimTrTop, he, Except.toBool]

/-- A substring assertion without any component translates to the empty `And`, which `validate`
refuses (`SchemaError::EmptyFilter`). -/
theorem ldap_empty_substring_invalid (env : Env) (a : List Nat) (maxElems : Nat) (fc : FC)
    (h : ldapTrTop env maxElems (.substring a none [] none) = .ok fc) : fcValidate env fc = false := by
  unfold ldapTrTop ldapTr at h
  cases he : enter filterDepthMax maxElems with
  | error err => simp [he] at h
  | ok r =>
    obtain ⟨nd, ne⟩ := r
    simp [he, ldapSubstringArm, subTerms, subOptTerm, subAnyTerms, GroupK.wrap] at h
    subst h
    simp [fcValidate]

/-! ## 3. attribute names: case-insensitive, aliases are canonical -/

theorem lowerByte_idem (c : Nat) : lowerByte (lowerByte c) = lowerByte c := by
  unfold lowerByte
  by_cases h : 65 ≤ c ∧ c ≤ 90
  · have h2 : ¬ (65 ≤ c + 32 ∧ c + 32 ≤ 90) := by omega
    rw [if_pos h, if_neg h2]
  · rw [if_neg h, if_neg h]

/-- RFC 4512 §2.5: attribute descriptions are case-insensitive. -/
theorem ldap_attr_case_insensitive (env : Env) (n : List Nat) :
    ldapAttrMap env (n.map lowerByte) = ldapAttrMap env n := by
  unfold ldapAttrMap ldapAttrName
  simp [List.map_map, Function.comp_def, lowerByte_idem]

/-- every alias target is its own canonical name (no alias chains; targets are lower-case) -/
theorem alias_targets_canonical : ∀ p ∈ vattrTable, ldapAttrName p.2 = p.2 := by
  decide +kernel

/-! ## 4. the executed search returns the standard answer (partial: safe resolved filter) -/

/-- **LDAP, end to end.** A filter accepted by `from_ldap_ro` (single-component substrings) is
wrapped by `into_ignore_hidden`, resolved against any index metadata, optimised with any permuting
sorts and searched over any database with any sound index layout: the backend either refuses with
`ResourceLimit` or returns exactly the visible entries the RFC 4511 meaning selects — provided the
finally resolved filter is `safe` (every NOT guarded by a positive AND sibling: defect D1; no
indexed empty substring needle: finding C01-F2). -/
theorem ldap_search_sound_partial (fold : Nat → Nat) (hS : SubSem (foldSem fold)) (env : Env)
    (w : World) (idx : Idx) (rep : Rep) (hI : IdxSound w idx) (lim : Limits)
    (c : AttrConsts) (self : Val) (m : Nat → IType → Option Nat)
    (sa sd : List F → List F) (hp : IsPerm sa) (hq : IsPerm sd) (classA : Nat) (tomb recy : Val)
    (lf : LF) (hsub : lf.subSingle = true) (maxElems : Nat) (fc : FC)
    (htr : ldapTrTop env maxElems lf = .ok fc)
    (g : F) (hg : (ignoreHidden classA tomb recy fc).resolveIdx c self m = some g)
    (hsafe : (g.optimise sa sd).safe = true) :
    execSearch (foldSem fold) lim w idx rep c self m sa sd classA tomb recy fc = some resLimit ∨
    execSearch (foldSem fold) lim w idx rep c self m sa sd classA tomb recy fc =
      some (.ok (stdAnswer w classA tomb recy (fun e => ldapSem fold env e lf))) :=
  exec_exact (foldSem fold) hS w idx rep hI lim c self m sa sd hp hq classA tomb recy fc _
    (fun e => ldap_translation_sound_partial fold env self c.uuidA lf hsub maxElems fc htr e) g hg hsafe

/-- **SCIM, end to end** (same statement; the database conforms to the schema as far as ordering
is concerned). -/
theorem scim_search_sound_partial (fold : Nat → Nat) (hS : SubSem (foldSem fold)) (env : Env)
    (w : World) (idx : Idx) (rep : Rep) (hI : IdxSound w idx) (lim : Limits)
    (c : AttrConsts) (self : Val) (m : Nat → IType → Option Nat)
    (sa sd : List F → List F) (hp : IsPerm sa) (hq : IsPerm sd) (classA : Nat) (tomb recy : Val)
    (hw : ∀ e, OrdTyped env e)
    (sf : SF) (maxElems : Nat) (fc : FC) (htr : scimTrTop env maxElems sf = .ok fc)
    (g : F) (hg : (ignoreHidden classA tomb recy fc).resolveIdx c self m = some g)
    (hsafe : (g.optimise sa sd).safe = true) :
    execSearch (foldSem fold) lim w idx rep c self m sa sd classA tomb recy fc = some resLimit ∨
    execSearch (foldSem fold) lim w idx rep c self m sa sd classA tomb recy fc =
      some (.ok (stdAnswer w classA tomb recy (fun e => scimSem fold env e sf))) :=
  exec_exact (foldSem fold) hS w idx rep hI lim c self m sa sd hp hq classA tomb recy fc _
    (fun e => scim_translation_sound_partial fold env self c.uuidA sf maxElems fc htr e (hw e)) g hg hsafe

/-- the folding the server applies (`to_lowercase`) is compatible with the substring index, and so
is no folding at all: the hypothesis `SubSem (foldSem fold)` is satisfiable -/
theorem fold_lower_sub_sem : SubSem (foldSem lowerByte) := subSem_foldLower

/-! ## 5. the full statements are false of the code -/

/-- LDAP at full strength, entry by entry: every accepted filter, no restriction on substrings -/
def ldap_translation_sound_full : Prop :=
  ∀ (fold : Nat → Nat) (env : Env) (self : Val) (uuidA : Nat) (lf : LF) (maxElems : Nat) (fc : FC),
    ldapTrTop env maxElems lf = .ok fc → ∀ e, fc.matches (foldSem fold) self uuidA e = ldapSem fold env e lf

/-- `(name=ab*ba)` -/
def f1Filter : LF := .substring [110, 97, 109, 101] (some [97, 98]) [] (some [98, 97])
/-- an entry named `aba` -/
def f1Entry : Entry := Entry.ofList [(1, [.str [97, 98, 97]])]

theorem f1_translated :
    ldapTrTop stdEnv 32 f1Filter = .ok (.and [.stw 1 (.str [97, 98]), .enw 1 (.str [98, 97])]) := by
  rfl
theorem f1_kanidm : (FC.and [.stw 1 (.str [97, 98]), .enw 1 (.str [98, 97])]).matches
    (foldSem lowerByte) (.num 0) 6 f1Entry = true := by decide +kernel
theorem f1_standard : ldapSem lowerByte stdEnv f1Entry f1Filter = false := by decide +kernel

/-- **Finding C41-F1**: `aba` starts with `ab` and ends with `ba`, but is not `ab…ba`. -/
theorem ldap_translation_sound_full_false : ¬ ldap_translation_sound_full := by
  intro h
  have := h lowerByte stdEnv (.num 0) 6 f1Filter 32 _ f1_translated f1Entry
  rw [f1_kanidm, f1_standard] at this
  cases this

/-- the search-level statement at full strength: no safety condition on the resolved filter -/
def ldap_search_sound_full : Prop :=
  ∀ (fold : Nat → Nat), SubSem (foldSem fold) → ∀ (env : Env) (w : World) (idx : Idx) (rep : Rep),
    IdxSound w idx → ∀ (lim : Limits) (c : AttrConsts) (self : Val) (m : Nat → IType → Option Nat)
    (classA : Nat) (tomb recy : Val) (lf : LF), lf.subSingle = true → ∀ (maxElems : Nat) (fc : FC),
    ldapTrTop env maxElems lf = .ok fc →
    execSearch (foldSem fold) lim w idx rep c self m sortAsc sortDesc classA tomb recy fc = some resLimit ∨
    execSearch (foldSem fold) lim w idx rep c self m sortAsc sortDesc classA tomb recy fc =
      some (.ok (stdAnswer w classA tomb recy (fun e => ldapSem fold env e lf)))

/-- three visible entries named `ga`, `gb`, `gc` -/
def d1World : World where
  live := [1, 2, 3]
  ent := fun id => Entry.ofList [(0, [.str [111]]), (1, [Val.str [103, 96 + id]])]

/-- `(!(name=gb))` -/
def d1Filter : LF := .not (.equality [110, 97, 109, 101] [103, 98])

theorem d1_translated : ldapTrTop stdEnv 32 d1Filter = .ok (.andnot (.eq 1 (.str [103, 98]))) := by
  rfl
/-- everything indexed: the server answers with no entry at all … -/
theorem d1_executed :
    execSearch (foldSem lowerByte) ⟨true, 1000, 1000⟩ d1World (idxOf d1World (fun _ _ => true)) noRep
      ⟨6, 1⟩ (.num 0) (fun _ _ => some 1) sortAsc sortDesc 0 (.str [116]) (.str [114])
      (.andnot (.eq 1 (.str [103, 98]))) = some (.ok []) := by
  decide +kernel
/-- … where RFC 4511 selects `ga` and `gc` -/
theorem d1_standard :
    stdAnswer d1World 0 (.str [116]) (.str [114]) (fun e => ldapSem lowerByte stdEnv e d1Filter) = [1, 3] := by
  decide +kernel

/-- **Defect D1** through LDAP: a top-level NOT returns nothing instead of the complement. -/
theorem ldap_search_sound_full_false : ¬ ldap_search_sound_full := by
  intro h
  have := h lowerByte subSem_foldLower stdEnv d1World (idxOf d1World (fun _ _ => true)) noRep
    (idxOf_sound _ _) ⟨true, 1000, 1000⟩ ⟨6, 1⟩ (.num 0) (fun _ _ => some 1) 0 (.str [116]) (.str [114])
    d1Filter (by decide +kernel) 32 _ d1_translated
  rw [d1_executed, d1_standard] at this
  rcases this with h | h
  · cases h
  · injection h with h; injection h with h; cases h

/-! ## 6. non-vacuity -/

/-- `(&(objectClass=Person)(|(cn=a*)(!(uidNumber=5))))` -/
def exLdap : LF :=
  .and [.equality [111, 98, 106, 101, 99, 116, 67, 108, 97, 115, 115] [80, 101, 114, 115, 111, 110],
    .or [.substring [99, 110] (some [97]) [] none, .not (.equality [117, 105, 100, 78, 117, 109, 98, 101, 114] [53])]]

example : exLdap.subSingle = true := by decide +kernel
/-- aliases `objectClass` → class, `cn` → name, `uidNumber` → gidnumber; values normalised -/
example : ldapTrTop stdEnv 32 exLdap =
    .ok (.and [.eq 0 (.str [112, 101, 114, 115, 111, 110]),
      .or [.and [.stw 1 (.str [97])], .andnot (.eq 5 (.num 5))]]) := by rfl
/-- an entry the filter selects and one it does not -/
example : ldapSem lowerByte stdEnv
    (Entry.ofList [(0, [.str [112, 101, 114, 115, 111, 110]]), (1, [.str [122]]), (5, [.num 7])]) exLdap = true := by
  decide +kernel
example : ldapSem lowerByte stdEnv
    (Entry.ofList [(0, [.str [112, 101, 114, 115, 111, 110]]), (1, [.str [122]]), (5, [.num 5])]) exLdap = false := by
  decide +kernel
/-- the element budget is real: the filter has 5 nodes -/
example : ldapTrTop stdEnv 4 exLdap = .error .resourceLimit := by rfl
/-- rejection is reachable, and for the stated reason -/
example : ldapTrTop stdEnv 32 (.greaterOrEqual [99, 110] [97]) = .error .filterGeneration := by rfl
/-- `name eq "A" and not (class co "x")` is accepted and normalised -/
example : scimTrTop stdEnv 32 (.and (.cmp .eq 1 false (.str [65])) (.not (.cmp .co 0 false (.str [120])))) =
    .ok (.and [.eq 1 (.str [97]), .andnot (.cnt 0 (.str [120]))]) := by rfl
/-- `gidnumber ge 5`: orderable and single-valued, hence past the guard, then refused by the value
resolution; `name ge "a"` is refused by the guard -/
example : scimTrTop stdEnv 32 (.cmp .ge 5 false (.num 5)) = .error .invalidAttribute := by rfl
example : scimTrTop stdEnv 32 (.cmp .ge 1 false (.str [97])) = .error .filterGeneration := by rfl
/-- `stdEnv` satisfies the hypothesis of `scim_ordering_currently_rejected` -/
example : ∀ a s m j, stdEnv.syn a = some (s, m) → scimResolvableSyn.contains s = false →
    (stdEnv.scimVal a j).toBool = false := by
  intro a s m j hs hr
  simp only [stdEnv] at hs ⊢
  cases hrow : rowOfAtom a with
  | none => simp [hrow] at hs
  | some r =>
    simp only [hrow, Option.map, Option.some.injEq, Prod.mk.injEq] at hs
    obtain ⟨rfl, rfl⟩ := hs
    have hmem : r ∈ stdAttrs := List.mem_of_find?_eq_some hrow
    simp only [stdAttrs, List.mem_cons, List.not_mem_nil, or_false] at hmem
    rcases hmem with rfl | rfl | rfl | rfl | rfl | rfl | rfl | rfl | rfl <;>
      first
      | (exfalso; revert hr; decide)
      | (cases j <;> rfl)
/-- an entry named `a` with gidnumber 7 -/
def exOrdEntry : Entry := fun a => if a = 5 then [.num 7] else if a = 1 then [.str [97]] else []

/-- `OrdTyped` is satisfiable by an entry that does carry an orderable attribute -/
example : OrdTyped stdEnv exOrdEntry where
  single := by
    intro a s hs hc
    unfold exOrdEntry
    split
    · simp
    · split <;> simp
  numE := by
    intro a s m hs hc x hx
    unfold exOrdEntry at hx
    split at hx
    · simp at hx; exact ⟨7, hx⟩
    · split at hx
      · rename_i h1
        subst h1
        exfalso
        simp [stdEnv, rowOfAtom, stdAttrs, List.find?] at hs
        obtain ⟨rfl, _⟩ := hs
        revert hc; decide
      · simp at hx
  numV := by
    intro a s m j pv hs hc hv
    simp only [stdEnv] at hs hv
    cases hrow : rowOfAtom a with
    | none => simp [hrow] at hs
    | some r =>
      simp only [hrow, Option.map, Option.some.injEq, Prod.mk.injEq] at hs
      obtain ⟨rfl, rfl⟩ := hs
      simp only [hrow] at hv
      have hmem : r ∈ stdAttrs := List.mem_of_find?_eq_some hrow
      simp only [stdAttrs, List.mem_cons, List.not_mem_nil, or_false] at hmem
      rcases hmem with rfl | rfl | rfl | rfl | rfl | rfl | rfl | rfl | rfl <;>
        first
        | (exfalso; revert hc; decide)
        | (exfalso; cases j <;> simp [scimKind] at hv)

end Kanidm.ProtoFilter
