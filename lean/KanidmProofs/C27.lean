import KanidmProofs.Lemmas.AuthSession
/-!
# C27 — Authentication needs every factor, and denial is final

Property theorems only (helpers: `Lemmas/AuthSession.lean`).  The model
(`KanidmModel/AuthSession.lean`) transcribes `AuthSession::new`, `start_session`,
`CredHandler::validate*`, `validate_creds` and the Begin/Cred arms of
`IdmServerAuthTransaction::auth`; the handler/mechanism table, the accepted
`AuthCredential` variants of every `validate_*`, the order of the `build_from_*` calls
of `new` (with the `if handlers.is_empty()` guard) and the two validity comparisons are
regenerated from the source on every run (`Generated/AuthSessionTables.lean`).

External verifiers (password hash, badlist, TOTP window, backup code, webauthn) and the
soft lock (C28) are inputs of every step, so the theorems hold for *all* verifier
behaviours and all step sequences of any length.
-/
namespace Kanidm.AuthSession
open Kanidm.Gen.AuthSession

/-! ## The generated tables say what the property text says -/

/-- The second factor each multi-factor mechanism is named after. -/
def secondFactor : HKind → Option CredKind
  | .passwordTotp => some .totp
  | .passwordBackupCode => some .backupCode
  | .passwordSecurityKey => some .securityKey
  | _ => none

/-- Re-reads the code: which `AuthCredential` variants each handler's `validate_*`
accepts.  Single-factor handlers take exactly their own credential; each `Password*`
multi-factor handler takes exactly two factors, the password and its second factor
(either order — the trace theorem below is stated for the generated order). -/
theorem factors_are_spec :
    acceptedCreds .anonymous = [.anonymous] ∧
    acceptedCreds .password = [.password] ∧
    acceptedCreds .passkey = [.passkey] ∧
    acceptedCreds .attestedPasskey = [.passkey] ∧
    (∀ k sf, secondFactor k = some sf →
      (acceptedCreds k).length = 2 ∧ .password ∈ acceptedCreds k ∧ sf ∈ acceptedCreds k) := by
  refine ⟨rfl, rfl, rfl, rfl, ?_⟩
  intro k sf h
  cases k <;> simp [secondFactor] at h <;> subst h <;> decide

/-- Re-reads the code: a handler proceeds only under its own mechanism
(`can_proceed`), which is also the one it is offered under (`allows_mech`); the
password-only mechanism belongs to the password-only handler alone. -/
theorem mech_table_is_spec :
    (∀ k, canProceed k (allowsMech k) = true) ∧
    (∀ k m, canProceed k m = true → m = allowsMech k) ∧
    (∀ k, canProceed k .password = true ↔ k = .password) := by
  refine ⟨?_, ?_, ?_⟩
  · intro k; cases k <;> decide
  · intro k m; cases k <;> cases m <;> decide
  · intro k; cases k <;> decide

/-- Re-reads the code: `check_within_valid_time` is `valid_from ≤ ct ≤ expire` with
absent bounds unconstrained. -/
theorem validity_is_spec (a : Acct) (ct : Nat) :
    withinValidTime a ct = true ↔
      (∀ vf, a.validFrom = some vf → vf ≤ ct) ∧ (∀ ex, a.expire = some ex → ct ≤ ex) := by
  unfold withinValidTime
  cases hv : a.validFrom <;> cases he : a.expire <;> simp [validFromOk, expireOk]

/-! ## Handlers built by `AuthSession::new` -/

theorem accountHandlers_fresh (a : Acct) :
    ∀ h ∈ accountHandlers a,
      fresh h = true ∧ (a.oauth2 = false → h.kind ≠ .oAuth2Trust) := by
  obtain ⟨anon, prim, pk, att, ca, o, vf, ex⟩ := a
  simp only [accountHandlers]
  rcases prim with _ | (_ | _ | ⟨t, s, b⟩ | _) <;> cases pk <;> cases att <;> cases ca <;> cases o
  all_goals first
    | decide
    | (cases t <;> cases s <;> cases b <;> decide)

theorem newHandlers_fresh (a : Acct) (ct : Nat) (hs : List Handler)
    (hnew : newHandlers a ct = .ok hs) :
    ∀ h ∈ hs, fresh h = true ∧ (a.oauth2 = false → h.kind ≠ .oAuth2Trust) := by
  unfold newHandlers at hnew
  split at hnew
  · split at hnew
    · cases hnew; intro h hh; simp at hh; subst hh; exact ⟨rfl, fun _ => by decide⟩
    · split at hnew
      · cases hnew
      · cases hnew; exact accountHandlers_fresh a
  · cases hnew

/-- **Every factor, in order, in this session.**  If any step of a session (any sequence
of steps, any verifier behaviour) returns `Success` — i.e. a token is issued — then the
steps of this session that were accepted (did not return an error) are exactly: one
`Begin` of a mechanism `m`, selecting a handler `h` that `new` built for the account and
that proceeds under `m`; followed by exactly one credential per factor of `h`, in the
handler's order, each of the right type and each verified by its verifier; and none of
them was taken while the credential was soft-locked. -/
theorem token_implies_all_factors (a : Acct) (ct : Nat) (hs : List Handler)
    (hnew : newHandlers a ct = .ok hs) (hno : a.oauth2 = false)
    (pre : List Step) (st : Step) (t : AuthType)
    (hsucc : (step (runState (newSession a ct).1 pre) st).2 = .success t) :
    ∃ (m : Mech) (h : Handler) (cs : List Cred),
      h ∈ hs ∧ canProceed h.kind m = true ∧
      (accepted (newSession a ct).1 (pre ++ [st])).map (·.act) = .begin m :: cs.map Act.cred ∧
      cs.map Cred.kind = acceptedCreds h.kind ∧
      (∀ c ∈ cs, verifiedFor h.kind c = true) ∧
      (lockConsulted h.kind = true →
        ∀ x ∈ accepted (newSession a ct).1 (pre ++ [st]), x.locked = false) := by
  have hns : (newSession a ct).1 = .init hs := by simp [newSession, hnew]
  rw [hns] at hsucc ⊢
  have hf := newHandlers_fresh a ct hs hnew
  exact init_trace t pre hs st (fun h hh => (hf h hh).2 hno) (fun h hh => (hf h hh).1) hsucc

example :
    let a : Acct := { primary := some (.passwordMfa true false true) }
    run (newSession a 5).1
      [⟨.cred (.password true false), false⟩, ⟨.begin .passwordTotp, false⟩,
       ⟨.begin .password, false⟩, ⟨.cred (.totp true), false⟩,
       ⟨.cred (.password true false), false⟩, ⟨.cred (.password true false), false⟩]
      = [.err .au0001InvalidState, .continue_ [.totp], .err .invalidAuthState,
         .continue_ [.password], .success .passwordTotp, .err .au0001InvalidState] := by
  decide

/-- **An account with a multi-factor password credential is never offered password-only
login**: `new` builds no password-only handler for it, the `password` mechanism is not in
the offered list, and asking for it anyway ends the session. -/
theorem mfa_never_password_only (a : Acct) (ct : Nat) (hs : List Handler)
    (hnew : newHandlers a ct = .ok hs) (t s b : Bool)
    (hp : a.primary = some (.passwordMfa t s b)) :
    (∀ h ∈ hs, h.kind ≠ .password) ∧
    Mech.password ∉ hs.map (fun h => allowsMech h.kind) ∧
    (∀ l, (step (.init hs) ⟨.begin .password, l⟩).1 = .denied .badCredentials) := by
  have hk : ∀ h ∈ hs, h.kind ≠ .password := by
    unfold newHandlers at hnew
    split at hnew
    · split at hnew
      · cases hnew; intro h hh; simp at hh; subst hh; decide
      · split at hnew
        · cases hnew
        · cases hnew
          obtain ⟨anon, prim, pk, att, ca, o, vf, ex⟩ := a
          simp only at hp
          subst hp
          simp only [accountHandlers]
          cases t <;> cases s <;> cases b <;> cases pk <;> cases att <;> cases ca <;> cases o <;>
            decide
    · cases hnew
  refine ⟨hk, ?_, ?_⟩
  · intro hmem
    obtain ⟨h, hh, he⟩ := List.mem_map.mp hmem
    have := hk h hh
    revert he this
    cases h.kind <;> decide
  · intro l
    rw [step_init_begin]
    have : (hs.filter fun h => canProceed h.kind .password) = [] := by
      rw [List.filter_eq_nil_iff]
      intro h hh
      have := hk h hh
      revert this
      cases h.kind <;> decide
    simp [this]

example : (newSession { primary := some (.passwordMfa true true true) } 0).2
    = .choose [.passwordTotp, .passwordBackupCode, .passwordSecurityKey] := by decide
example : (newSession { primary := some .password } 0).2 = .choose [.password] := by decide

/-- **Outside the validity window no session exists and nothing ever succeeds.** -/
theorem outside_validity_never_succeeds (a : Acct) (ct : Nat)
    (hout : withinValidTime a ct = false) :
    newSession a ct = (.noSession, .denied .accountExpired) ∧
    ∀ steps, ∀ r ∈ run (newSession a ct).1 steps, r.isErr = true := by
  have h1 : newSession a ct = (.noSession, .denied .accountExpired) := by
    simp [newSession, newHandlers, hout]
  refine ⟨h1, ?_⟩
  intro steps
  rw [h1]
  exact run_terminal .noSession rfl steps

example : withinValidTime { expire := some 10 } 11 = false := by decide
example : withinValidTime { validFrom := some 10, expire := some 10 } 10 = true := by decide

/-- A step answered `Denied` or `Success` leaves the session in a terminal state. -/
theorem final_reply_terminal (s : State) (st : Step)
    (h : (∃ r, (step s st).2 = .denied r) ∨ (∃ t, (step s st).2 = .success t)) :
    (step s st).1.terminal = true := by
  obtain ⟨act, l⟩ := st
  cases s with
  | noSession => exact congrArg State.terminal (step_terminal .noSession rfl _).1
  | success => exact congrArg State.terminal (step_terminal .success rfl _).1
  | denied r => exact congrArg State.terminal (step_terminal (.denied r) rfl _).1
  | init hs =>
    cases act with
    | cred c => simp [step_init_cred] at h
    | begin m =>
      have hb := step_init_begin hs m l
      cases hl : (hs.filter fun h => canProceed h.kind m).getLast? with
      | none => simp only [hl] at hb; rw [hb]; rfl
      | some hh =>
        simp only [hl] at hb
        cases hlk : (lockConsulted hh.kind && l) with
        | true => simp only [hlk, if_true] at hb; rw [hb]; rfl
        | false =>
          simp only [hlk, Bool.false_eq_true, if_false] at hb
          rw [hb] at h
          rcases h with ⟨r, h⟩ | ⟨t, h⟩
          · cases hh <;> simp [nextAuthState] at h
          · exact absurd h (nextAuthState_not_success _ t)
  | inProgress hd =>
    cases act with
    | begin m =>
      simp only [step, authBegin, startSession, credUuid_inProgress] at h ⊢
      split
      · rfl
      · simp_all
    | cred c =>
      simp only [step, authCred, credUuid_inProgress, validateCreds] at h ⊢
      split
      · rfl
      · cases hv : validate hd c with
        | mk h' cs => cases cs <;> simp_all [State.terminal]

/-- **Denial and success are final.**  A terminal state never changes and every further
step is an error (no token, no `Continue`); and from *any* state, once a step has been
answered `Denied` or `Success`, every later reply is an error. -/
theorem terminal_states_absorbing :
    (∀ (s : State), s.terminal = true → ∀ steps,
        runState s steps = s ∧ ∀ r ∈ run s steps, r.isErr = true) ∧
    (∀ (s : State) (st : Step) (later : List Step),
        ((∃ r, (step s st).2 = .denied r) ∨ (∃ t, (step s st).2 = .success t)) →
        ∀ r ∈ run (step s st).1 later, r.isErr = true) := by
  refine ⟨fun s hs steps => ⟨runState_terminal s hs steps, run_terminal s hs steps⟩, ?_⟩
  intro s st later h
  exact run_terminal _ (final_reply_terminal s st h) later

example : State.terminal (.denied .badTotp) = true ∧ State.terminal .success = true := by decide

/-- The decidable form of `wrong_type_denies`, checked over the whole table. -/
def wrongTypeSpec (h : Handler) (c : Cred) (l : Bool) : Bool :=
  ((remaining h).bind List.head? == some c.kind) ||
  (match step (.inProgress h) ⟨.cred c, l⟩ with
   | (.denied r, .denied r') => r == r'
   | _ => false)

theorem wrongTypeSpec_table :
    allHandlers.all (fun h => allCreds.all fun c => boolAll.all fun l => wrongTypeSpec h c l)
      = true := by
  decide +kernel

/-- **A credential of the wrong type denies.**  While a handler (other than the OAuth2
one) is in progress, any credential whose `AuthCredential` variant is not the one the
handler requires next ends the session in `Denied`. -/
theorem wrong_type_denies (h : Handler) (hne : h.kind ≠ .oAuth2Trust) (c : Cred) (l : Bool)
    (hwrong : (remaining h).bind List.head? ≠ some c.kind) :
    ∃ r, step (.inProgress h) ⟨.cred c, l⟩ = (.denied r, .denied r) := by
  have ht := wrongTypeSpec_table
  rw [List.all_eq_true] at ht
  have h1 := ht h (mem_allHandlers h hne)
  rw [List.all_eq_true] at h1
  have h2 := h1 c (mem_allCreds c)
  rw [List.all_eq_true] at h2
  have h3 := h2 l (by cases l <;> decide)
  unfold wrongTypeSpec at h3
  simp only [Bool.or_eq_true, beq_iff_eq] at h3
  rcases h3 with h3 | h3
  · exact absurd h3 hwrong
  · split at h3
    · rename_i r r' heq
      simp only [beq_iff_eq] at h3
      subst h3
      exact ⟨r, heq⟩
    · cases h3

example : step (.inProgress (.passwordTotp .init .init)) ⟨.cred (.password true false), false⟩
    = (.denied .badAuthType, .denied .badAuthType) := by decide

/-- **A step of the wrong phase is an error and changes nothing**: a credential before
`Begin`, and a `Begin` while a handler is in progress (unless that handler's credential
is soft-locked at that instant, which ends the session).  A `Begin` for a mechanism the
session does not offer is *not* a no-op: it ends the session (`auth` then answers
`AU0001InvalidState`). -/
theorem wrong_phase_is_noop :
    (∀ hs c l, step (.init hs) ⟨.cred c, l⟩ = (.init hs, .err .au0001InvalidState)) ∧
    (∀ h m l, (lockConsulted h.kind && l) = false →
        step (.inProgress h) ⟨.begin m, l⟩ = (.inProgress h, .err .invalidAuthState)) ∧
    (∀ hs m l, (∀ h ∈ hs, canProceed h.kind m = false) →
        step (.init hs) ⟨.begin m, l⟩ = (.denied .badCredentials, .err .au0001InvalidState)) := by
  refine ⟨step_init_cred, ?_, ?_⟩
  · intro h m l hl
    simp [step, authBegin, startSession, credUuid_inProgress, hl]
  · intro hs m l hnone
    rw [step_init_begin]
    have : (hs.filter fun h => canProceed h.kind m) = [] := by
      rw [List.filter_eq_nil_iff]
      intro h hh
      simp [hnone h hh]
    simp [this]

example : step (.inProgress (.passwordTotp .success .init)) ⟨.begin .passwordTotp, false⟩
    = (.inProgress (.passwordTotp .success .init), .err .invalidAuthState) := by decide

end Kanidm.AuthSession
