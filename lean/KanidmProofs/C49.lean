import KanidmProofs.Lemmas.Validity
import KanidmModel.Bearer
import KanidmModel.AuthSession
/-!
# C49 — Accounts outside their validity window cannot authenticate anywhere

Property theorems only (helpers: `Lemmas/Validity.lean`). The two gate functions and the surface
table (`Kanidm.Gen.Validity.rows`: which function contains which gate, reading which entry, and
through which gated functions its successes flow) are regenerated from the source on every run; the
right-hand sides below (`InWindow`, `StrictlyInWindow`) are written from the property text.

Every entry point is gated since the repair of the LDAP token bind (`token_auth_ldap` answered from
the token's own signature and expiry and never looked at the account: fixed D41, its witness is a
passing regression case of the harness).
-/
namespace Kanidm.Validity
open Kanidm.Gen.Validity

/-! ## The gates, operator by operator -/

/-- `Account::check_within_valid_time` accepts exactly `valid_from ≤ ct ≤ expire` (absent = unbounded). -/
theorem account_gate_is_spec (w : Window) (ct : Nat) :
    accountGate w ct = true ↔
      (∀ v, w.vf = some v → v ≤ ct) ∧ (∀ e, w.ex = some e → ct ≤ e) :=
  accountGate_iff w ct

example : accountGate ⟨some 10, some 20⟩ 10 = true ∧ accountGate ⟨some 10, some 20⟩ 20 = true ∧
    accountGate ⟨some 10, some 20⟩ 9 = false ∧ accountGate ⟨some 10, some 20⟩ 21 = false ∧
    accountGate ⟨none, none⟩ 0 = true := by decide

/-- `RadiusAccount::is_within_valid_time` accepts exactly `valid_from < ct < expire`. -/
theorem radius_gate_is_spec (w : Window) (ct : Nat) :
    radiusGate w ct = true ↔
      (∀ v, w.vf = some v → v < ct) ∧ (∀ e, w.ex = some e → ct < e) :=
  radiusGate_iff w ct

example : radiusGate ⟨some 10, some 20⟩ 10 = false ∧ radiusGate ⟨some 10, some 20⟩ 20 = false ∧
    radiusGate ⟨some 10, some 20⟩ 11 = true ∧ radiusGate ⟨some 10, some 20⟩ 19 = true := by decide

/-- Either gate refuses every instant before valid-from and every instant after expiry. -/
theorem gates_refuse_outside (g : GateKind) (w : Window) (ct : Nat)
    (hout : (∃ v, w.vf = some v ∧ ct < v) ∨ (∃ e, w.ex = some e ∧ e < ct)) :
    gateOf g w ct = false := by
  cases hg : gateOf g w ct with
  | false => rfl
  | true =>
    have h := gateOf_sound g w ct hg
    rcases hout with ⟨v, hv, hlt⟩ | ⟨e, he, hlt⟩
    · exact absurd (h.1 v hv) (Nat.not_le_of_lt hlt)
    · exact absurd (h.2 e he) (Nat.not_le_of_lt hlt)

example : gateOf .radius ⟨none, some 10⟩ 11 = false ∧ gateOf .account ⟨some 12, none⟩ 11 = false := by
  decide

/-- The same gate function is the one the bearer-token model (C32) and the login-session model
(C27) use: their theorems (`Kanidm.Bearer.outside_window_rejected`,
`Kanidm.AuthSession.outside_validity_never_succeeds`) speak about this window test. -/
theorem gate_agrees_with_bearer_model (acc : Kanidm.Bearer.Account) (ct : Nat) :
    Kanidm.Bearer.withinWindow acc ct = accountGate ⟨acc.validFrom, acc.expire⟩ ct := by
  unfold Kanidm.Bearer.withinWindow accountGate
  unfold Kanidm.Gen.Bearer.withinValidTime Kanidm.Gen.Bearer.validFromOk Kanidm.Gen.Bearer.expireOk
  unfold acctMix acctVfOk acctExOk acctCot
  cases acc.validFrom <;> cases acc.expire <;> simp

theorem gate_agrees_with_login_model (a : Kanidm.AuthSession.Acct) (ct : Nat) :
    Kanidm.AuthSession.withinValidTime a ct = accountGate ⟨a.validFrom, a.expire⟩ ct := by
  unfold Kanidm.AuthSession.withinValidTime accountGate
  unfold Kanidm.Gen.AuthSession.validFromOk Kanidm.Gen.AuthSession.expireOk
  unfold acctMix acctVfOk acctExOk acctCot
  cases a.validFrom <;> cases a.expire <;> simp

/-! ## The table -/

/-- Every gate in the table judges the *stored* entry, never the access-reduced one (the repaired
defect D3 was `to_radiusauthtoken` reading the reduced entry). -/
theorem gate_sees_stored_validity : ∀ r ∈ rows, r.gate.isSome = true → r.view = .stored := by
  decide

/-- Why the view matters: a gate applied to the reduced entry of an identity that may read neither
attribute lets an expired account through. -/
theorem reduced_view_is_unsound :
    ∃ (g : GateKind) (a : Acl) (w : Window) (ct : Nat),
      gateOf g (viewOf .reduced a w) ct = true ∧ ¬ InWindow w ct :=
  ⟨.radius, ⟨false, false⟩, ⟨none, some 10⟩, 250, by decide, by decide⟩

/-- Every row a call refers to exists (the walk never falls off the table). -/
theorem table_closed : ∀ r ∈ rows, ∀ c ∈ r.calls, (rowOf c).isSome = true := by decide

/-- Every public entry point that authenticates an account or releases a credential contains the
validity gate or reaches success only through functions that do. -/
theorem every_entry_point_gated : ∀ s ∈ entryPoints, gated depth s = true := by
  decide

example : Sid.get_radiusauthtoken ∈ entryPoints ∧ Sid.oauth2_token_exchange ∈ entryPoints ∧
    Sid.auth ∈ entryPoints ∧ entryPoints.length = 26 := by decide

/-! ## The property -/

/-- **C49.** A success at any entry point implies the stored window contains the request time — for
every asking identity and every state of the other preconditions. -/
theorem success_implies_in_window (s : Sid) (hs : s ∈ entryPoints)
    (a : Acl) (w : Window) (ct : Nat) (pre : Bool) (hok : attempt s a w ct pre = .ok) :
    (∀ v, w.vf = some v → v ≤ ct) ∧ (∀ e, w.ex = some e → ct ≤ e) := by
  unfold attempt at hok
  by_cases hp : (pre && passes depth s a w ct) = true
  · simp only [Bool.and_eq_true] at hp
    exact passes_sound depth s (every_entry_point_gated s hs) depth a w ct hp.2
  · simp [hp] at hok

/-- **C49, as a refusal.** Before valid-from or after expiry every entry point refuses — whoever asks. -/
theorem outside_window_refused (s : Sid) (hs : s ∈ entryPoints)
    (a : Acl) (w : Window) (ct : Nat) (pre : Bool)
    (hout : (∃ v, w.vf = some v ∧ ct < v) ∨ (∃ e, w.ex = some e ∧ e < ct)) :
    attempt s a w ct pre = .refused := by
  cases h : attempt s a w ct pre with
  | refused => rfl
  | ok =>
    have hw := success_implies_in_window s hs a w ct pre h
    rcases hout with ⟨v, hv, hlt⟩ | ⟨e, he, hlt⟩
    · exact absurd (hw.1 v hv) (Nat.not_le_of_lt hlt)
    · exact absurd (hw.2 e he) (Nat.not_le_of_lt hlt)

example : attempt .get_radiusauthtoken ⟨false, false⟩ ⟨none, some 10⟩ 250 true = .refused ∧
    attempt .get_radiusauthtoken ⟨false, false⟩ ⟨none, some 300⟩ 250 true = .ok ∧
    attempt .oauth2_token_exchange ⟨true, true⟩ ⟨some 5, some 10⟩ 11 true = .refused ∧
    attempt .oauth2_token_exchange ⟨true, true⟩ ⟨some 5, some 10⟩ 10 true = .ok ∧
    attempt .auth ⟨true, true⟩ ⟨some 5, none⟩ 4 true = .refused ∧
    attempt .auth ⟨true, true⟩ ⟨some 5, none⟩ 5 true = .ok ∧
    attempt .token_auth_ldap ⟨true, true⟩ ⟨none, some 10⟩ 11 true = .refused ∧
    attempt .token_auth_ldap ⟨true, true⟩ ⟨none, some 10⟩ 10 true = .ok := by decide

/-- **Whatever identity asks.** The read rights of the asking identity enter no decision. -/
theorem asking_identity_irrelevant (s : Sid) (a a' : Acl) (w : Window) (ct : Nat) (pre : Bool) :
    attempt s a w ct pre = attempt s a' w ct pre := by
  unfold attempt
  rw [passes_acl_irrelevant gate_sees_stored_validity depth s a a' w ct]

/-- The RADIUS secret is released only strictly inside the window (the gate of `radius.rs`). -/
theorem radius_release_strict (a : Acl) (w : Window) (ct : Nat) (pre : Bool)
    (hok : attempt .get_radiusauthtoken a w ct pre = .ok) :
    (∀ v, w.vf = some v → v < ct) ∧ (∀ e, w.ex = some e → ct < e) := by
  have hp : passes depth .get_radiusauthtoken a w ct = radiusGate w ct := by
    have hr1 : rowOf .get_radiusauthtoken
        = some ⟨.get_radiusauthtoken, true, none, .stored, [.to_radiusauthtoken], false⟩ := by decide
    have hr2 : rowOf .to_radiusauthtoken
        = some ⟨.to_radiusauthtoken, false, some .radius, .stored, [], false⟩ := by decide
    have hd : depth = 31 + 1 + 1 := by decide
    have step1 : ∀ n, passes (n + 1) .get_radiusauthtoken a w ct
        = passes n .to_radiusauthtoken a w ct := by
      intro n
      rw [passes]
      simp only [hr1]
      simp
    have step2 : ∀ n, passes (n + 1) .to_radiusauthtoken a w ct = radiusGate w ct := by
      intro n
      rw [passes]
      simp only [hr2]
      simp [gateOf, viewOf]
    rw [hd, step1, step2]
  unfold attempt at hok
  by_cases h : (pre && passes depth .get_radiusauthtoken a w ct) = true
  · simp only [Bool.and_eq_true] at h
    rw [hp] at h
    exact (radius_gate_is_spec w ct).mp h.2
  · simp [h] at hok

/-- Inside the window (strictly, so that the RADIUS gate agrees) the gates refuse nothing: an
`ok` is then decided by the other preconditions alone. Non-vacuity of the refusals above. -/
theorem inside_window_gate_transparent (s : Sid) (hs : s ∈ entryPoints) (a : Acl) (ct : Nat)
    (pre : Bool) : attempt s a ⟨none, none⟩ ct pre = (if pre then .ok else .refused) := by
  have this0 : ∀ s ∈ entryPoints, passes depth s ⟨true, true⟩ ⟨none, none⟩ 0 = true := by decide
  have : ∀ s ∈ entryPoints, ∀ a : Acl, passes depth s a ⟨none, none⟩ 0 = true := by
    intro s hs a
    rw [passes_acl_irrelevant gate_sees_stored_validity depth s a ⟨true, true⟩]
    exact this0 s hs
  have hct : passes depth s a ⟨none, none⟩ ct = passes depth s a ⟨none, none⟩ 0 := by
    have key : ∀ (fuel : Nat) (s : Sid), passes fuel s a ⟨none, none⟩ ct = passes fuel s a ⟨none, none⟩ 0 := by
      intro fuel
      induction fuel with
      | zero => intro s; rfl
      | succ n ih =>
        intro s
        unfold passes
        have hfun : (fun c => passes n c a ⟨none, none⟩ ct) = (fun c => passes n c a ⟨none, none⟩ 0) :=
          funext ih
        cases rowOf s with
        | none => rfl
        | some r =>
          have hg : ∀ g v, gateOf g (viewOf v a ⟨none, none⟩) ct = gateOf g (viewOf v a ⟨none, none⟩) 0 := by
            intro g v
            cases g <;> cases v <;>
              simp [gateOf, viewOf, reduce, accountGate, radiusGate, acctMix, acctVfOk, acctExOk,
                radMix, radVfOk, radExOk]
          cases hgate : r.gate with
          | none => simp only [hgate, hfun]
          | some g => simp only [hgate, hfun, hg]
    exact key depth s
  unfold attempt
  rw [hct, this s hs a]
  cases pre <;> rfl

end Kanidm.Validity
