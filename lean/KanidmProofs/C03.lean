import KanidmProofs.Lemmas.IndexMaint
/-
C03 — indexes and name lookups always mirror the stored entries.

The invariant `Inv stale s` of a backend state: entry ids are distinct and ≤ `maxid`; every index table
that exists and is not `stale` belongs to the index metadata and holds, under every key, exactly the ids
of the stored entries that produce the key (`Mirror`); `name2uuid`, `externalid2uuid`, `uuid2spn`,
`uuid2rdn` hold exactly the pairs produced by the stored entries that are neither recycled nor
tombstones (`NInv`). A table is `stale` when it existed while absent from the metadata since the last
reindex (`update_idxmeta` without `reindex`: the code no longer maintains it).

Hypotheses (`WFn`, `BatchWF`): what the layers above the backend guarantee about the entries of every
committed state — and, inside a modify batch, of every prefix of the batch: distinct uuids, pairwise
disjoint name candidates, distinct external ids among the entries that are neither recycled nor
tombstones; no value set yields an equality key twice.  Both are necessary: `dupkeys_full_false`
(known finding D35) and `handoff_full_false` (known finding D36) are replayed witnesses.
-/
namespace Kanidm.Index
open Kanidm.Filter

/-! ### the statement -/

/-- what the layers above the backend guarantee about a set of stored entries -/
structure WFn (ents : List SEnt) : Prop where
  uuids : ∀ e1 ∈ ents, ∀ e2 ∈ ents, masked e1 = false → masked e2 = false → e1.uuid = e2.uuid → e1 = e2
  names : ∀ e1 ∈ ents, ∀ e2 ∈ ents, masked e1 = false → masked e2 = false →
    ∀ n, n ∈ cands e1 → n ∈ cands e2 → e1 = e2
  ext : ∀ e1 ∈ ents, ∀ e2 ∈ ents, masked e1 = false → masked e2 = false →
    ∀ n, extId e1 = some n → extId e2 = some n → e1 = e2
  keys : ∀ e ∈ ents, KeysNodup e

/-- the invariant of a backend state -/
structure Inv (stale : Nat → IType → Prop) (s : BeState) : Prop where
  idsLe : ∀ e ∈ s.ents, e.id ≤ s.maxid
  idsNodup : (s.ents.map (·.id)).Nodup
  tables : TInv stale s.idxmeta s.ents s.tbl

theorem WFn.nuniq {ents : List SEnt} (h : WFn ents) (hids : (ents.map (·.id)).Nodup) : NUniq ents :=
  ⟨fun e1 h1 e2 h2 m1 m2 hu => by rw [h.uuids e1 h1 e2 h2 m1 m2 hu],
   fun e1 h1 e2 h2 m1 m2 n hn1 hn2 => by rw [h.names e1 h1 e2 h2 m1 m2 n hn1 hn2]; exact ⟨rfl, rfl⟩,
   fun e1 h1 e2 h2 m1 m2 n hn1 hn2 => by rw [h.ext e1 h1 e2 h2 m1 m2 n hn1 hn2]; exact ⟨rfl, rfl⟩,
   same_of_nodup_ids hids⟩

theorem WFn.subset {es es' : List SEnt} (h : ∀ e ∈ es', e ∈ es) (hw : WFn es) : WFn es' :=
  ⟨fun e1 h1 e2 h2 => hw.uuids e1 (h e1 h1) e2 (h e2 h2),
   fun e1 h1 e2 h2 => hw.names e1 (h e1 h1) e2 (h e2 h2),
   fun e1 h1 e2 h2 => hw.ext e1 (h e1 h1) e2 (h e2 h2),
   fun e he => hw.keys e (h e he)⟩

/-- every prefix of a modify batch leaves well-formed entries; `pre` is the stored entry and `post` keeps its id -/
def BatchWF : List SEnt → List (SEnt × SEnt) → Prop
  | _, [] => True
  | ents, (pre, post) :: ps =>
    pre ∈ ents ∧ post.id = pre.id ∧ WFn (putEnt ents post) ∧ BatchWF (putEnt ents post) ps

/-! ### the two-pointer loop and `idx_diff` -/

/-- on duplicate-free key lists (sorted by `sort_unstable`) the loop yields exactly `pre \ post` as removals
and `post \ pre` as additions -/
theorem sorted_merge_diff (pre post : List Val) (hp : pre.Nodup) (hq : post.Nodup) (k : Val) :
    (k ∈ (mergeLoop (sortKeys pre) (sortKeys post)).1 ↔ (k ∈ pre ∧ k ∉ post)) ∧
    (k ∈ (mergeLoop (sortKeys pre) (sortKeys post)).2 ↔ (k ∈ post ∧ k ∉ pre)) := by
  have := mergeLoop_spec _ _ (sortKeys_strict hp) (sortKeys_strict hq) k
  simpa only [mem_sortKeys] using this

/-- `generate_idx_sub_keys` never repeats a key -/
theorem sub_keys_nodup (vs : List Val) : (subKeys vs).Nodup := subKeys_nodup vs

/-- `Entry::idx_diff` emits `add (a, it, k)` exactly for the configured keys the new entry produces and the
old one does not, and `remove` exactly for the converse — in every one of its nine arms -/
theorem idx_diff_exact (idxmeta : List (Nat × IType)) (pre post : Option SEnt) (x : Act)
    (hpre : ∀ e, pre = some e → KeysNodup e) (hpost : ∀ e, post = some e → KeysNodup e) :
    x ∈ idxDiff idxmeta pre post ↔
      (x.a, x.it) ∈ idxmeta ∧
        (if x.add then hasKeyO post x.a x.it x.k ∧ ¬ hasKeyO pre x.a x.it x.k
         else hasKeyO pre x.a x.it x.k ∧ ¬ hasKeyO post x.a x.it x.k) :=
  mem_idxDiff idxmeta pre post x hpre hpost

/-- `entry_index` for the change of one stored entry (create: `none → some`, modify, uuid change, recycle,
revive, reap: `some → none`) keeps every table exact -/
theorem entry_index_inv {ents ents' : List SEnt} {i : Nat} {pre post : Option SEnt}
    (hc : Change ents ents' i pre post) {stale : Nat → IType → Prop} {idxmeta : List (Nat × IType)}
    {t t' : Tables} (hinv : TInv stale idxmeta ents t)
    (hids : (ents.map (·.id)).Nodup) (hids' : (ents'.map (·.id)).Nodup) (hw : WFn ents) (hw' : WFn ents')
    (hrun : entryIndex idxmeta pre post t = some t') : TInv stale idxmeta ents' t' :=
  entryIndex_inv hc hinv (hw.nuniq hids) (hw'.nuniq hids')
    (fun e he => hw.keys e ((hc.hpre e).2 he).1) (fun e he => hw'.keys e ((hc.hpost e).2 he).1) hrun

/-! ### one theorem per operation -/

theorem kvinv_nil {κ ν : Type} [DecidableEq κ] (kv : SEnt → List (κ × ν)) : KVInv kv [] ([] : List (κ × ν)) := by
  intro k v; simp [aget]

/-- `Backend::new` on an empty database -/
theorem inv_init (idxmeta : List (Nat × IType)) : Inv (fun _ _ => False) (BeState.init idxmeta) := by
  refine ⟨by simp [BeState.init], by simp [BeState.init], ⟨?_, ⟨kvinv_nil _, kvinv_nil _, kvinv_nil _, kvinv_nil _⟩⟩⟩
  intro a it hex
  simp [BeState.init, Tables.empty, tblExists, aget] at hex

theorem assignIds_spec : ∀ (m : Nat) (es : List (Nat × Entry)),
    (∀ e ∈ assignIds m es, m < e.id ∧ e.id ≤ m + es.length) ∧ ((assignIds m es).map (·.id)).Nodup
  | m, [] => by simp [assignIds]
  | m, (u, av) :: r => by
    obtain ⟨h1, h2⟩ := assignIds_spec (m + 1) r
    simp only [assignIds, List.mem_cons, List.map_cons, List.nodup_cons, List.mem_map, List.length_cons]
    refine ⟨?_, ?_, h2⟩
    · rintro e (rfl | he)
      · simp
      · have := h1 e he; omega
    · rintro ⟨e, he, hid⟩
      have := (h1 e he).1
      omega

/-- `create` / `refresh` / the create part of `incremental_apply` -/
theorem inv_create {stale : Nat → IType → Prop} {s s' : BeState} (es : List (Nat × Entry))
    (hinv : Inv stale s) (hw' : WFn (s.ents ++ assignIds s.maxid es))
    (hrun : create es s = some s') : Inv stale s' ∧ WFn s'.ents := by
  unfold create at hrun
  dsimp only at hrun
  split at hrun
  · exact absurd hrun (by simp)
  · cases h1 : indexAll s.idxmeta (assignIds s.maxid es) s.tbl with
    | none => rw [h1] at hrun; exact absurd hrun (by simp)
    | some t =>
      rw [h1] at hrun
      simp only [Option.some.injEq] at hrun
      subst hrun
      obtain ⟨ha1, ha2⟩ := assignIds_spec s.maxid es
      have hids : ((s.ents ++ assignIds s.maxid es).map (·.id)).Nodup := by
        rw [List.map_append]
        refine List.nodup_append.2 ⟨hinv.idsNodup, ha2, ?_⟩
        intro x hx y hy hxy
        obtain ⟨e1, he1, rfl⟩ := List.mem_map.1 hx
        obtain ⟨e2, he2, rfl⟩ := List.mem_map.1 hy
        have := hinv.idsLe e1 he1
        have := (ha1 e2 he2).1
        omega
      refine ⟨⟨?_, hids, ?_⟩, hw'⟩
      · intro e he
        rcases List.mem_append.1 he with h | h
        · have := hinv.idsLe e h; simp only; omega
        · exact (ha1 e h).2
      · exact indexAll_inv _ _ _ _ hinv.tables (hw'.nuniq hids) hids
          (fun e he => hw'.keys e (by simp [he])) h1

theorem batchWF_ok : ∀ (ps : List (SEnt × SEnt)) (ents : List SEnt), (ents.map (·.id)).Nodup → WFn ents →
    BatchWF ents ps → BatchOK ents ps ∧ WFn (ps.foldl (fun acc p => putEnt acc p.2) ents)
  | [], _, _, hw, _ => ⟨trivial, hw⟩
  | (pre, post) :: ps, ents, hids, hw, h => by
    obtain ⟨hpre, hid, hw1, hrest⟩ := h
    have hids1 : ((putEnt ents post).map (·.id)).Nodup := by rw [putEnt_ids hpre hid]; exact hids
    obtain ⟨r1, r2⟩ := batchWF_ok ps (putEnt ents post) hids1 hw1 hrest
    refine ⟨⟨hpre, hid, hw.keys pre hpre, ?_, hw1.nuniq hids1, r1⟩, by simpa using r2⟩
    exact hw1.keys post ((mem_putEnt_replace hpre hid post).2 (Or.inl rfl))

/-- `modify` / the update part of `incremental_apply`, batches included -/
theorem inv_modify {stale : Nat → IType → Prop} {s s' : BeState} (ps : List (SEnt × SEnt))
    (hinv : Inv stale s) (hw : WFn s.ents) (hb : BatchWF s.ents ps)
    (hrun : modify ps s = some s') : Inv stale s' ∧ WFn s'.ents := by
  unfold modify at hrun
  dsimp only at hrun
  split at hrun
  · exact absurd hrun (by simp)
  · cases h1 : indexPairs s.idxmeta ps s.tbl with
    | none => rw [h1] at hrun; exact absurd hrun (by simp)
    | some t =>
      rw [h1] at hrun
      simp only [Option.some.injEq] at hrun
      subst hrun
      obtain ⟨hok, hwf⟩ := batchWF_ok ps s.ents hinv.idsNodup hw hb
      obtain ⟨r1, r2⟩ := indexPairs_inv ps s.ents s.tbl t hinv.tables (hw.nuniq hinv.idsNodup) hinv.idsNodup hok h1
      refine ⟨⟨?_, by simp only; rw [r2]; exact hinv.idsNodup, r1⟩, hwf⟩
      intro e he
      have : e.id ∈ (ps.foldl (fun acc p => putEnt acc p.2) s.ents).map (·.id) := List.mem_map.2 ⟨e, he, rfl⟩
      rw [r2] at this
      obtain ⟨e0, he0, hid⟩ := List.mem_map.1 this
      have := hinv.idsLe e0 he0
      simp only at hid ⊢
      omega

/-- `reap_tombstones`, whatever ids the RUV selected -/
theorem inv_reap {stale : Nat → IType → Prop} {s s' : BeState} (ids : List Nat)
    (hinv : Inv stale s) (hw : WFn s.ents) (hrun : reap ids s = some s') : Inv stale s' ∧ WFn s'.ents := by
  unfold reap at hrun
  dsimp only at hrun
  cases h1 : unindexAll s.idxmeta (s.ents.filter (fun e => ids.contains e.id)) s.tbl with
  | none => rw [h1] at hrun; exact absurd hrun (by simp)
  | some t =>
    rw [h1] at hrun
    simp only [Option.some.injEq] at hrun
    subst hrun
    have hsub : ∀ e ∈ s.ents.filter (fun e => !ids.contains e.id), e ∈ s.ents := fun e he => (List.mem_filter.1 he).1
    refine ⟨⟨fun e he => hinv.idsLe e (hsub e he), filter_ids_nodup _ hinv.idsNodup, ?_⟩, hw.subset hsub⟩
    have := unindexAll_inv (s.ents.filter (fun e => ids.contains e.id)) s.ents s.tbl t hinv.tables
      (hw.nuniq hinv.idsNodup) hinv.idsNodup (fun e he => (List.mem_filter.1 he).1)
      (fun e he => hw.keys e (List.mem_filter.1 he).1) (filter_ids_nodup _ hinv.idsNodup) h1
    refine this.congr_ents ?_
    intro x
    simp only [List.mem_filter, Bool.not_eq_eq_eq_not, Bool.not_true, List.contains_eq_mem, List.mem_map,
      decide_eq_false_iff_not, not_exists, not_and, decide_eq_true_eq]
    constructor
    · rintro ⟨hx, hn⟩
      refine ⟨hx, fun hc => ?_⟩
      exact hn x ⟨hx, hc⟩ rfl
    · rintro ⟨hx, hn⟩
      refine ⟨hx, fun y hy hid => ?_⟩
      exact hn (hid ▸ hy.2)

/-- `update_idxmeta`: the tables that leave the metadata become stale (no longer maintained) -/
theorem inv_setMeta {stale : Nat → IType → Prop} {s : BeState} (m : List (Nat × IType)) (hinv : Inv stale s) :
    Inv (fun a it => stale a it ∨ (a, it) ∉ m) (setMeta m s) := by
  refine ⟨hinv.idsLe, hinv.idsNodup, ⟨?_, hinv.tables.names⟩⟩
  intro a it hex hst
  have h1 : ¬ stale a it := fun h => hst (Or.inl h)
  have h2 : (a, it) ∈ m := Classical.byContradiction (fun h => hst (Or.inr h))
  exact ⟨h2, (hinv.tables.idx a it hex h1).2⟩

theorem freshTables_exists (idxmeta : List (Nat × IType)) (a : Nat) (it : IType) :
    tblExists (freshTables idxmeta) a it ↔ (a, it) ∈ idxmeta := by
  have key : ∀ (l : List (Nat × IType)) (acc : List ((Nat × IType) × Rows)),
      (aget (l.foldl (fun acc k => aset acc k []) acc) (a, it)).isSome =
        (decide ((a, it) ∈ l) || (aget acc (a, it)).isSome) := by
    intro l
    induction l with
    | nil => intro acc; simp
    | cons x xs ih =>
      intro acc
      simp only [List.foldl_cons, ih, aget_aset, List.mem_cons]
      by_cases h : (a, it) = x
      · simp [h]
      · simp [h]
  simp [tblExists, freshTables, key, aget]

theorem freshTables_rows (idxmeta : List (Nat × IType)) (a : Nat) (it : IType) (k : Val) (id : Nat) :
    ¬ memIdl (freshTables idxmeta) a it k id := by
  have key : ∀ (l : List (Nat × IType)) (acc : List ((Nat × IType) × Rows)),
      (∀ r, aget acc (a, it) = some r → r = []) →
      ∀ r, aget (l.foldl (fun acc k => aset acc k []) acc) (a, it) = some r → r = [] := by
    intro l
    induction l with
    | nil => intro acc h; simpa using h
    | cons x xs ih =>
      intro acc h
      simp only [List.foldl_cons]
      apply ih
      intro r hr
      rw [aget_aset] at hr
      split at hr
      · simpa using hr.symm
      · exact h r hr
  rintro ⟨l, hl, hid⟩
  simp only [getIdl, freshTables] at hl
  cases hr : aget (idxmeta.foldl (fun acc k => aset acc k []) []) (a, it) with
  | none => rw [hr] at hl; simp at hl
  | some r =>
    rw [hr] at hl
    have := key idxmeta [] (by simp [aget]) r hr
    subst this
    simp only [Option.map_some, aget, Option.getD_none, Option.some.injEq] at hl
    subst hl
    simp at hid

/-- `reindex` establishes the invariant from ANY tables (corrupt, stale, missing) -/
theorem reindex_establishes_inv {s s' : BeState} (hle : ∀ e ∈ s.ents, e.id ≤ s.maxid)
    (hids : (s.ents.map (·.id)).Nodup) (hw : WFn s.ents) (hrun : reindex s = some s') :
    Inv (fun _ _ => False) s' ∧ ∀ a it, tblExists s'.tbl a it ↔ (a, it) ∈ s'.idxmeta := by
  unfold reindex at hrun
  cases h1 : indexAll s.idxmeta s.ents (freshTables s.idxmeta) with
  | none => rw [h1] at hrun; exact absurd hrun (by simp)
  | some t =>
    rw [h1] at hrun
    simp only [Option.some.injEq] at hrun
    subst hrun
    have h0 : TInv (fun _ _ => False) s.idxmeta [] (freshTables s.idxmeta) := by
      refine ⟨?_, ⟨kvinv_nil _, kvinv_nil _, kvinv_nil _, kvinv_nil _⟩⟩
      intro a it hex _
      refine ⟨(freshTables_exists _ a it).1 hex, fun k id => ?_⟩
      simp [freshTables_rows]
    have := indexAll_inv s.ents [] _ t h0 (by simpa using hw.nuniq hids) (by simpa using hids)
      (fun e he => hw.keys e he) h1
    refine ⟨⟨hle, hids, by simpa using this⟩, ?_⟩
    intro a it
    simp only
    rw [← freshTables_exists s.idxmeta a it]
    -- table existence is untouched by indexing
    have hex : ∀ (c : List SEnt) (t0 t1 : Tables), indexAll s.idxmeta c t0 = some t1 →
        (tblExists t1 a it ↔ tblExists t0 a it) := by
      intro c
      induction c with
      | nil => intro t0 t1 h; simp only [indexAll, Option.some.injEq] at h; subst h; rfl
      | cons e es ih =>
        intro t0 t1 h
        simp only [indexAll, entryIndex, indexHeader, if_true] at h
        rw [ih _ _ h, applyActs_exists]
        exact tblExists_congr (nameIndex_idx _ _ _ _) a it
    exact hex _ _ _ h1

/-- `upgrade_reindex` -/
theorem inv_upgradeReindex {stale : Nat → IType → Prop} {s s' : BeState} (v : Int)
    (hinv : Inv stale s) (hw : WFn s.ents) (hrun : upgradeReindex v s = some s') :
    Inv (fun a it => if s.idxVer < v then False else stale a it) s' := by
  unfold upgradeReindex at hrun
  by_cases hv : s.idxVer < v
  · simp only [hv, if_true] at hrun ⊢
    cases h1 : reindex s with
    | none => rw [h1] at hrun; exact absurd hrun (by simp)
    | some s1 =>
      rw [h1] at hrun
      simp only [Option.map_some, Option.some.injEq] at hrun
      subst hrun
      have := (reindex_establishes_inv hinv.idsLe hinv.idsNodup hw h1).1
      exact ⟨this.idsLe, this.idsNodup, this.tables⟩
  · simp only [hv, if_false, Option.some.injEq] at hrun ⊢
    subst hrun
    exact hinv

/-- what the layers above guarantee about one incoming replication entry: the entry list after the update is
well-formed — and, when the uuid is new, so is the list with the attribute-less stub `incremental_prepare` indexes first -/
def IncOK (s : BeState) (u : Nat) (av : Entry) : Prop :=
  ∀ s1 pre, incPrepare u s = some (s1, pre) →
    (pre ∈ s.ents → WFn (putEnt s.ents ⟨pre.id, u, av⟩)) ∧
    (pre ∉ s.ents → WFn (s.ents ++ [pre]) ∧ WFn (s.ents ++ [⟨pre.id, u, av⟩]))

theorem change_swap_last {ents : List SEnt} {x y : SEnt} (hid : y.id = x.id) (hfresh : ∀ e ∈ ents, e.id ≠ x.id) :
    Change (ents ++ [x]) (ents ++ [y]) x.id (some x) (some y) := by
  refine ⟨?_, ?_, ?_⟩
  · intro e
    simp only [List.mem_append, List.mem_singleton, Option.some.injEq]
    constructor
    · rintro ⟨h | h, he⟩
      · exact absurd he (hfresh e h)
      · exact h.symm
    · rintro rfl; exact ⟨Or.inr rfl, rfl⟩
  · intro e
    simp only [List.mem_append, List.mem_singleton, Option.some.injEq]
    constructor
    · rintro ⟨h | h, he⟩
      · exact absurd he (hfresh e h)
      · exact h.symm
    · rintro rfl; exact ⟨Or.inr rfl, hid⟩
  · intro e he
    simp only [List.mem_append, List.mem_singleton]
    constructor
    · rintro (h | rfl)
      · exact Or.inl h
      · exact absurd rfl he
    · rintro (h | rfl)
      · exact Or.inl h
      · exact absurd hid he

/-- `incremental_prepare` + the update part of `incremental_apply` for one incoming entry: an existing entry found
through the uuid index is modified; for a new uuid a stub is indexed, then replaced by the entry -/
theorem inv_incUpdate {stale : Nat → IType → Prop} {s s' : BeState} (u : Nat) (av : Entry)
    (hinv : Inv stale s) (hw : WFn s.ents) (hok : IncOK s u av)
    (hrun : incUpdate u av s = some s') : Inv stale s' ∧ WFn s'.ents := by
  unfold incUpdate at hrun
  cases hp : incPrepare u s with
  | none => rw [hp] at hrun; exact absurd hrun (by simp)
  | some r =>
    obtain ⟨s1, pre⟩ := r
    rw [hp] at hrun
    simp only at hrun
    obtain ⟨hin, hout⟩ := hok s1 pre hp
    unfold incPrepare at hp
    split at hp
    · -- a new uuid: stub
      rename_i hget
      dsimp only at hp
      cases h1 : entryIndex s.idxmeta none (some ⟨s.maxid + 1, u, fun _ => []⟩) s.tbl with
      | none => rw [h1] at hp; exact absurd hp (by simp)
      | some t1 =>
        rw [h1] at hp
        simp only [Option.some.injEq, Prod.mk.injEq] at hp
        obtain ⟨rfl, rfl⟩ := hp
        have hfresh : ∀ e ∈ s.ents, e.id ≠ s.maxid + 1 := by
          intro e he h; have := hinv.idsLe e he; omega
        have hnot : (⟨s.maxid + 1, u, fun _ => []⟩ : SEnt) ∉ s.ents := fun h => hfresh _ h rfl
        obtain ⟨hw1, hw2⟩ := hout hnot
        have hids1 : ((s.ents ++ [(⟨s.maxid + 1, u, fun _ => []⟩ : SEnt)]).map (·.id)).Nodup := by
          rw [List.map_append]
          refine List.nodup_append.2 ⟨hinv.idsNodup, by simp, ?_⟩
          intro x hx y hy hxy
          obtain ⟨e1, he1, rfl⟩ := List.mem_map.1 hx
          simp only [List.map_cons, List.map_nil, List.mem_singleton] at hy
          exact hfresh e1 he1 (hxy.trans hy)
        have hids2 : ((s.ents ++ [(⟨s.maxid + 1, u, av⟩ : SEnt)]).map (·.id)).Nodup := by
          simpa [List.map_append] using hids1
        have ht1 : TInv stale s.idxmeta (s.ents ++ [⟨s.maxid + 1, u, fun _ => []⟩]) t1 :=
          entry_index_inv (change_add (e := ⟨s.maxid + 1, u, fun _ => []⟩) hfresh) hinv.tables hinv.idsNodup hids1 hw hw1 h1
        -- the modify on the state that does not store the stub
        unfold modify at hrun
        dsimp only at hrun
        simp only [List.isEmpty_cons, Bool.false_eq_true, if_false, indexPairs] at hrun
        cases h2 : entryIndex s.idxmeta (some ⟨s.maxid + 1, u, fun _ => []⟩) (some ⟨s.maxid + 1, u, av⟩) t1 with
        | none => rw [h2] at hrun; exact absurd hrun (by simp)
        | some t2 =>
          rw [h2] at hrun
          simp only [List.foldl_cons, List.foldl_nil, Option.some.injEq] at hrun
          subst hrun
          have ht2 : TInv stale s.idxmeta (s.ents ++ [⟨s.maxid + 1, u, av⟩]) t2 :=
            entry_index_inv (change_swap_last (x := ⟨s.maxid + 1, u, fun _ => []⟩) (y := ⟨s.maxid + 1, u, av⟩) rfl hfresh)
              ht1 hids1 hids2 hw1 hw2 h2
          have hput : putEnt s.ents ⟨s.maxid + 1, u, av⟩ = s.ents ++ [⟨s.maxid + 1, u, av⟩] := by
            have : s.ents.any (fun x => decide (x.id = s.maxid + 1)) = false := by
              simp only [List.any_eq_false, decide_eq_true_eq]
              exact fun e he => hfresh e he
            simp [putEnt, this]
          simp only [hput]
          refine ⟨⟨?_, hids2, ht2⟩, hw2⟩
          intro e he
          rcases List.mem_append.1 he with h | h
          · have := hinv.idsLe e h; simp only; omega
          · simp only [List.mem_singleton] at h; subst h; simp
    · -- the uuid index finds one stored entry
      rename_i id hget
      cases hf : s.ents.find? (fun e => decide (e.id = id)) with
      | none => rw [hf] at hp; exact absurd hp (by simp)
      | some e =>
        rw [hf] at hp
        simp only [Option.some.injEq, Prod.mk.injEq] at hp
        obtain ⟨rfl, rfl⟩ := hp
        have he : e ∈ s.ents := List.mem_of_find?_eq_some hf
        have hb : BatchWF s.ents [(e, ⟨e.id, u, av⟩)] := by
          unfold BatchWF
          exact ⟨he, rfl, hin he, trivial⟩
        exact inv_modify _ hinv hw hb hrun
    · exact absurd hp (by simp)

theorem le_foldl_max (ents : List SEnt) : ∀ (m : Nat), (m ≤ ents.foldl (fun m e => max m e.id) m) ∧
    ∀ e ∈ ents, e.id ≤ ents.foldl (fun m e => max m e.id) m := by
  induction ents with
  | nil => intro m; simp
  | cons x xs ih =>
    intro m
    obtain ⟨h1, h2⟩ := ih (max m x.id)
    simp only [List.foldl_cons, List.mem_cons]
    refine ⟨by omega, ?_⟩
    rintro e (rfl | he)
    · omega
    · exact h2 e he

/-- restarting the server on the same database (ids of reaped entries become free again) -/
theorem inv_reopen {stale : Nat → IType → Prop} {s : BeState} (hinv : Inv stale s) : Inv stale (reopen s) :=
  ⟨(le_foldl_max s.ents 0).2, hinv.idsNodup, hinv.tables⟩

/-! ### all histories -/

/-- which tables are stale after an operation -/
def staleStep (stale : Nat → IType → Prop) (s : BeState) : Op → (Nat → IType → Prop)
  | .setMeta m => fun a it => stale a it ∨ (a, it) ∉ m
  | .reindex => fun _ _ => False
  | .upgradeReindex v => fun a it => if s.idxVer < v then False else stale a it
  | _ => stale

/-- what the layers above the backend guarantee about an operation's entries -/
def OpOK (s : BeState) : Op → Prop
  | .create es => WFn (s.ents ++ assignIds s.maxid es)
  | .modify ps => BatchWF s.ents ps
  | .incUpdate u av => IncOK s u av
  | _ => True

def RunOK : BeState → List Op → Prop
  | _, [] => True
  | s, op :: ops => OpOK s op ∧ RunOK (step s op) ops

def staleRun (stale : Nat → IType → Prop) : BeState → List Op → (Nat → IType → Prop)
  | _, [] => stale
  | s, op :: ops => staleRun (staleStep stale s op) (step s op) ops

theorem reindex_isSome (s : BeState) : (reindex s).isSome = true := by
  unfold reindex
  have := indexAll_isSome s.idxmeta s.ents (freshTables s.idxmeta)
  cases h : indexAll s.idxmeta s.ents (freshTables s.idxmeta) with
  | none => rw [h] at this; exact absurd this (by simp)
  | some t => simp

theorem inv_step {stale : Nat → IType → Prop} {s : BeState} (op : Op) (hinv : Inv stale s) (hw : WFn s.ents)
    (hok : OpOK s op) : Inv (staleStep stale s op) (step s op) ∧ WFn (step s op).ents := by
  cases op with
  | create es =>
    simp only [step, staleStep]
    cases h : create es s with
    | none => exact ⟨hinv, hw⟩
    | some s' => exact inv_create es hinv hok h
  | modify ps =>
    simp only [step, staleStep]
    cases h : modify ps s with
    | none => exact ⟨hinv, hw⟩
    | some s' => exact inv_modify ps hinv hw hok h
  | reap ids =>
    simp only [step, staleStep]
    cases h : reap ids s with
    | none => exact ⟨hinv, hw⟩
    | some s' => exact inv_reap ids hinv hw h
  | setMeta m => exact ⟨inv_setMeta m hinv, hw⟩
  | reindex =>
    simp only [step, staleStep]
    cases h : reindex s with
    | none => have := reindex_isSome s; rw [h] at this; exact absurd this (by simp)
    | some s' =>
      have hents : s'.ents = s.ents := by
        unfold reindex at h
        split at h
        · exact absurd h (by simp)
        · simp only [Option.some.injEq] at h; subst h; rfl
      exact ⟨(reindex_establishes_inv hinv.idsLe hinv.idsNodup hw h).1, hents ▸ hw⟩
  | upgradeReindex v =>
    simp only [step, staleStep]
    cases h : upgradeReindex v s with
    | none =>
      -- cannot happen (`reindex` never fails); the state is unchanged either way
      exfalso
      unfold upgradeReindex at h
      split at h
      · have := reindex_isSome s
        cases h2 : reindex s with
        | none => rw [h2] at this; exact absurd this (by simp)
        | some s1 => rw [h2] at h; exact absurd h (by simp)
      · exact absurd h (by simp)
    | some s' =>
      have hents : s'.ents = s.ents := by
        unfold upgradeReindex at h
        split at h
        · cases h2 : reindex s with
          | none => rw [h2] at h; exact absurd h (by simp)
          | some s1 =>
            rw [h2] at h
            simp only [Option.map_some, Option.some.injEq] at h
            subst h
            unfold reindex at h2
            split at h2
            · exact absurd h2 (by simp)
            · simp only [Option.some.injEq] at h2; subst h2; rfl
        · simp only [Option.some.injEq] at h; subst h; rfl
      exact ⟨inv_upgradeReindex v hinv hw h, hents ▸ hw⟩
  | incUpdate u av =>
    simp only [step, staleStep]
    cases h : incUpdate u av s with
    | none => exact ⟨hinv, hw⟩
    | some s' => exact inv_incUpdate u av hinv hw hok h
  | reopen => exact ⟨inv_reopen hinv, hw⟩

/-- THE PROPERTY: after any history of committed operations whose entries respect the uniqueness the upper
layers guarantee, under any sequence of index layouts, every non-stale index table and every name table
equals the rebuild from the stored entries -/
theorem inv_reachable : ∀ (ops : List Op) (s : BeState) (stale : Nat → IType → Prop),
    Inv stale s → WFn s.ents → RunOK s ops →
    Inv (staleRun stale s ops) (run s ops) ∧ WFn (run s ops).ents
  | [], s, stale, hinv, hw, _ => ⟨hinv, hw⟩
  | op :: ops, s, stale, hinv, hw, hok => by
    obtain ⟨h1, h2⟩ := inv_step op hinv hw hok.1
    exact inv_reachable ops (step s op) _ h1 h2 hok.2

/-! ### consequences: C01's hypothesis, and lookups equal scans -/

theorem find_id {ents : List SEnt} (hids : (ents.map (·.id)).Nodup) {e : SEnt} (he : e ∈ ents) :
    ents.find? (fun x => decide (x.id = e.id)) = some e := by
  induction ents with
  | nil => simp at he
  | cons x xs ih =>
    simp only [List.map_cons, List.nodup_cons, List.mem_map, not_exists, not_and] at hids
    rcases List.mem_cons.1 he with rfl | he'
    · simp
    · have : x.id ≠ e.id := fun h => hids.1 e he' h.symm
      simp only [List.find?_cons, this, decide_false]
      exact ih hids.2 he'

theorem world_ent {s : BeState} (hids : (s.ents.map (·.id)).Nodup) {e : SEnt} (he : e ∈ s.ents) :
    (world s).ent e.id = e.attrs := by
  simp only [world, find_id hids he]

/-- under the invariant, with no stale table left (e.g. after a reindex, or when every `update_idxmeta` is
followed by `reindex` as `QueryServerWriteTransaction::reload` does once the server runs), the tables
satisfy exactly the hypothesis C01's theorems assume -/
theorem idx_sound_of_inv {stale : Nat → IType → Prop} {s : BeState} (hinv : Inv stale s)
    (hns : ∀ a it, tblExists s.tbl a it → ¬ stale a it) : IdxSound (world s) (getIdl s.tbl) := by
  have hm : ∀ a it k l, getIdl s.tbl a it k = some l → Mirror s.ents s.tbl a it := by
    intro a it k l hl
    have hex : tblExists s.tbl a it := by
      have := getIdl_isSome s.tbl a it k
      rw [hl] at this
      simpa [tblExists] using this.symm
    exact (hinv.tables.idx a it hex (hns a it hex)).2
  have hlive : ∀ id, id ∈ (world s).live ↔ ∃ e ∈ s.ents, e.id = id := by
    intro id; simp [world]
  refine ⟨?_, ?_, ?_, ?_⟩
  · intro a v l hl id
    have := hm a .equality v l hl v id
    simp only [memIdl, hl, Option.some.injEq, exists_eq_left', hasKey, hasKeyL] at this
    rw [this, hlive]
    constructor
    · rintro ⟨e, he, rfl, hv⟩
      exact ⟨⟨e, he, rfl⟩, by rw [world_ent hinv.idsNodup he]; simpa using hv⟩
    · rintro ⟨⟨e, he, rfl⟩, hv⟩
      rw [world_ent hinv.idsNodup he] at hv
      exact ⟨e, he, rfl, by simpa using hv⟩
  · intro a l hl id
    have := hm a .presence presKey l hl presKey id
    simp only [memIdl, hl, Option.some.injEq, exists_eq_left', hasKey, hasKeyL, true_and] at this
    rw [this, hlive]
    constructor
    · rintro ⟨e, he, rfl, hv⟩
      exact ⟨⟨e, he, rfl⟩, by rw [world_ent hinv.idsNodup he]; simpa using hv⟩
    · rintro ⟨⟨e, he, rfl⟩, hv⟩
      rw [world_ent hinv.idsNodup he] at hv
      exact ⟨e, he, rfl, by simpa using hv⟩
  · intro a k l hl id
    have := hm a .substring (.str k) l hl (.str k) id
    simp only [memIdl, hl, Option.some.injEq, exists_eq_left', hasKey, hasKeyL, Val.str.injEq] at this
    rw [this, hlive]
    constructor
    · rintro ⟨e, he, rfl, x, hx, hs⟩
      exact ⟨⟨e, he, rfl⟩, x, by rw [world_ent hinv.idsNodup he]; exact hx, hs⟩
    · rintro ⟨⟨e, he, rfl⟩, x, hx, hs⟩
      rw [world_ent hinv.idsNodup he] at hx
      exact ⟨e, he, rfl, x, hx, hs⟩
  · intro a t k k'
    rw [getIdl_isSome, getIdl_isSome]

/-- … and agree, table by table and key by key, with C01's reference index of the stored entries -/
theorem idx_eq_reference {stale : Nat → IType → Prop} {s : BeState} (hinv : Inv stale s)
    (hns : ∀ a it, tblExists s.tbl a it → ¬ stale a it) (a : Nat) (it : IType) (k : Val) :
    ((getIdl s.tbl a it k).isSome = (idxOf (world s) (tableCfg s.tbl) a it k).isSome) ∧
    ∀ id, memIdl s.tbl a it k id ↔ ∃ l, idxOf (world s) (tableCfg s.tbl) a it k = some l ∧ id ∈ l := by
  have hsome : (getIdl s.tbl a it k).isSome = (idxOf (world s) (tableCfg s.tbl) a it k).isSome := by
    rw [getIdl_isSome]
    simp only [idxOf, tableCfg]
    by_cases h : (aget s.tbl.idx (a, it)).isSome = true
    · simp [h]
    · have h' : (aget s.tbl.idx (a, it)).isSome = false := by simpa using h
      simp [h']
  refine ⟨hsome, fun id => ?_⟩
  by_cases hex : tblExists s.tbl a it
  · have hmir := (hinv.tables.idx a it hex (hns a it hex)).2 k id
    have hcfg : tableCfg s.tbl a it = true := hex
    rw [hmir]
    simp only [idxOf, hcfg, if_true, Option.some.injEq, exists_eq_left']
    have hw : ∀ e ∈ s.ents, (world s).ent e.id = e.attrs := fun e he => world_ent hinv.idsNodup he
    cases it with
    | equality =>
      simp only [List.mem_filter, hasKey, hasKeyL, world, List.mem_map]
      constructor
      · rintro ⟨e, he, rfl, hv⟩
        refine ⟨⟨e, he, rfl⟩, ?_⟩
        have := hw e he; simp only [world] at this; rw [this]; simpa using hv
      · rintro ⟨⟨e, he, rfl⟩, hv⟩
        have := hw e he; simp only [world] at this; rw [this] at hv
        exact ⟨e, he, rfl, by simpa using hv⟩
    | presence =>
      simp only [hasKey, hasKeyL]
      by_cases hk : k = presKey
      · simp only [hk, if_true, List.mem_filter, true_and, world, List.mem_map]
        constructor
        · rintro ⟨e, he, rfl, hv⟩
          refine ⟨⟨e, he, rfl⟩, ?_⟩
          have := hw e he; simp only [world] at this; rw [this]; simpa using hv
        · rintro ⟨⟨e, he, rfl⟩, hv⟩
          have := hw e he; simp only [world] at this; rw [this] at hv
          exact ⟨e, he, rfl, by simpa using hv⟩
      · simp [hk]
    | substring =>
      simp only [hasKey, hasKeyL]
      cases k with
      | num n => simp
      | str ks =>
        simp only [Val.str.injEq, List.mem_filter, world, List.mem_map, List.any_eq_true, List.contains_eq_mem,
          decide_eq_true_eq]
        constructor
        · rintro ⟨e, he, rfl, s', rfl, x, hx, hs⟩
          refine ⟨⟨e, he, rfl⟩, x, ?_, hs⟩
          have := hw e he; simp only [world] at this; rw [this]; exact hx
        · rintro ⟨⟨e, he, rfl⟩, x, hx, hs⟩
          have := hw e he; simp only [world] at this; rw [this] at hx
          exact ⟨e, he, rfl, ks, rfl, x, hx, hs⟩
    | ordering => simp [hasKey, hasKeyL]
  · have h1 : ¬ memIdl s.tbl a it k id := fun h => hex (memIdl_exists h)
    have hcfg : tableCfg s.tbl a it = false := by simpa [tableCfg, tblExists] using hex
    simp [h1, idxOf, hcfg]

/-- what a full scan of the stored entries answers for a name / spn / gidnumber -/
def scanName (ents : List SEnt) (n : List Nat) : Option Nat :=
  (ents.find? (fun e => !masked e && (cands e).contains n)).map (·.uuid)

def scanExtId (ents : List SEnt) (n : List Nat) : Option Nat :=
  (ents.find? (fun e => !masked e && decide (extId e = some n))).map (·.uuid)

def scanUuid (f : SEnt → NameV) (ents : List SEnt) (u : Nat) : Option NameV :=
  (ents.find? (fun e => !masked e && decide (e.uuid = u))).map f

theorem lookup_eq_scan {κ ν : Type} [DecidableEq κ] {kv : SEnt → List (κ × ν)} {ents : List SEnt}
    {m : List (κ × ν)} (hinv : KVInv kv ents m) (p : SEnt → Bool) (g : SEnt → ν) (k : κ)
    (hp : ∀ e, p e = true ↔ (masked e = false ∧ ∃ v, (k, v) ∈ kv e))
    (hg : ∀ e v, (k, v) ∈ kv e → v = g e) : aget m k = (ents.find? p).map g := by
  cases hf : ents.find? p with
  | some e =>
    have hpe := (hp e).1 (List.find?_some hf)
    obtain ⟨hm, v, hv⟩ := hpe
    rw [Option.map_some, ← hg e v hv]
    exact (hinv k v).2 ⟨e, List.mem_of_find?_eq_some hf, hm, hv⟩
  | none =>
    cases ha : aget m k with
    | none => rfl
    | some v =>
      obtain ⟨e, he, hm, hv⟩ := (hinv k v).1 ha
      have := List.find?_eq_none.1 hf e he
      exact absurd ((hp e).2 ⟨hm, v, hv⟩) this

/-- resolving a name, spn or gidnumber returns the entry a full scan would -/
theorem name_lookup_eq_scan {stale : Nat → IType → Prop} {s : BeState} (hinv : Inv stale s) (n : List Nat) :
    aget s.tbl.n2u n = scanName s.ents n := by
  refine lookup_eq_scan hinv.tables.names.n2u _ (·.uuid) n ?_ ?_
  · intro e
    simp only [Bool.and_eq_true, Bool.not_eq_true', List.contains_eq_mem, decide_eq_true_eq, kvN2U, List.mem_map,
      Prod.mk.injEq]
    constructor
    · rintro ⟨h1, h2⟩; exact ⟨h1, e.uuid, n, h2, rfl, rfl⟩
    · rintro ⟨h1, v, n', h2, rfl, _⟩; exact ⟨h1, h2⟩
  · intro e v hv
    simp only [kvN2U, List.mem_map, Prod.mk.injEq] at hv
    obtain ⟨_, _, _, rfl⟩ := hv
    rfl

/-- resolving an external id returns the entry a full scan would -/
theorem extid_lookup_eq_scan {stale : Nat → IType → Prop} {s : BeState} (hinv : Inv stale s) (n : List Nat) :
    aget s.tbl.e2u n = scanExtId s.ents n := by
  refine lookup_eq_scan hinv.tables.names.e2u _ (·.uuid) n ?_ ?_
  · intro e
    simp only [Bool.and_eq_true, Bool.not_eq_true', decide_eq_true_eq, kvE2U, List.mem_map, Option.mem_toList,
      Prod.mk.injEq]
    constructor
    · rintro ⟨h1, h2⟩; exact ⟨h1, e.uuid, n, h2, rfl, rfl⟩
    · rintro ⟨h1, v, n', h2, rfl, _⟩; exact ⟨h1, h2⟩
  · intro e v hv
    simp only [kvE2U, List.mem_map, Prod.mk.injEq] at hv
    obtain ⟨_, _, _, rfl⟩ := hv
    rfl

/-- `uuid2spn` / `uuid2rdn` answer what a full scan would -/
theorem uuid_lookup_eq_scan {stale : Nat → IType → Prop} {s : BeState} (hinv : Inv stale s) (u : Nat) :
    aget s.tbl.u2s u = scanUuid spnOf s.ents u ∧ aget s.tbl.u2r u = scanUuid rdnOf s.ents u := by
  have key : ∀ (f : SEnt → NameV) (m : List (Nat × NameV)), KVInv (fun e => [(e.uuid, f e)]) s.ents m →
      aget m u = scanUuid f s.ents u := by
    intro f m hm
    refine lookup_eq_scan hm _ f u ?_ ?_
    · intro e
      simp only [Bool.and_eq_true, Bool.not_eq_true', decide_eq_true_eq, List.mem_singleton, Prod.mk.injEq]
      constructor
      · rintro ⟨h1, h2⟩; exact ⟨h1, f e, h2.symm, rfl⟩
      · rintro ⟨h1, v, h2, _⟩; exact ⟨h1, h2.symm⟩
    · intro e v hv
      simp only [List.mem_singleton, Prod.mk.injEq] at hv
      exact hv.2
  exact ⟨key spnOf _ hinv.tables.names.u2s, key rdnOf _ hinv.tables.names.u2r⟩

/-! ### both hypotheses are necessary (replayed witnesses) -/

namespace Witness

def cls : List Val := [.str [111]]
/-- claim map `ca -> g, cb -> g`: `generate_idx_eq_keys` = `[ca, cb, g, g]` -/
def eC1 : Entry := Entry.ofList [(0, cls), (9, [.str [99, 97], .str [99, 98], .num 900, .num 900])]
/-- after `cb / g` was removed: `[ca, g]` -/
def eC2 : Entry := Entry.ofList [(0, cls), (9, [.str [99, 97], .num 900])]
def sC : BeState := run (BeState.init [(9, .equality)]) [.reindex, .create [(1, eC1)]]
def sC' : BeState := step sC (.modify [(⟨1, 1, eC1⟩, ⟨1, 1, eC2⟩)])

def eA : Entry := Entry.ofList [(0, cls), (2, [.str [97]])]
def eB : Entry := Entry.ofList [(0, cls), (2, [.str [98]])]
def sAB : BeState := run (BeState.init []) [.reindex, .create [(1, eA), (2, eB)]]
def swap : List (SEnt × SEnt) := [(⟨1, 1, eA⟩, ⟨1, 1, eB⟩), (⟨2, 2, eB⟩, ⟨2, 2, eA⟩)]
def sAB' : BeState := step sAB (.modify swap)

end Witness

open Witness in
/-- D35: with a key list that repeats a key the loop removes a key the new entry still has -/
theorem dupkeys_diff :
    idxDiff [(9, .equality)] (some ⟨1, 1, eC1⟩) (some ⟨1, 1, eC2⟩) =
      [⟨false, 9, .equality, .str [99, 98]⟩, ⟨false, 9, .equality, .num 900⟩] ∧ Val.num 900 ∈ eC2 9 := by
  constructor
  · simp [idxDiff, diffKey, eC1, eC2, Entry.ofList, keysOf, armBothSrc, armBothEmits, sortKeys, List.mergeSort,
      List.MergeSort.Internal.splitInTwo, List.merge, keyLe, Val.cmp, cmpNatList, mergeLoop, mergeArm,
      mergeTailPreRemoves]
  · simp [eC2, Entry.ofList]

open Witness in
/-- D35 (known finding): the invariant does NOT survive a modify whose stored entry repeats an equality key —
the hypothesis `KeysNodup` of `idx_diff_exact` / `WFn.keys` is necessary -/
theorem dupkeys_full_false : ¬ Mirror sC'.ents sC'.tbl 9 .equality := by
  intro h
  have hidx : sC.tbl.idx = [((9, .equality), [(.num 900, [1]), (.str [99, 98], [1]), (.str [99, 97], [1])])] := by
    simp [sC, run, step, reindex, create, BeState.init, freshTables, indexAll, entryIndex, indexHeader, assignIds,
      idxDiff, diffKey, signed, keysOf, armEntryAdded, applyActs, applyAct, getIdl, writeIdl, aget, aset, adel, eC1,
      Entry.ofList, insertId, nameIndex, mask, masked]
  have hmeta : sC.idxmeta = [(9, .equality)] := by
    simp [sC, run, step, reindex, create, BeState.init, indexAll, entryIndex, indexHeader, assignIds]
  have hents : sC.ents = [⟨1, 1, eC1⟩] := by
    simp [sC, run, step, reindex, create, BeState.init, indexAll, entryIndex, indexHeader, assignIds]
  have hget : getIdl sC'.tbl 9 .equality (.num 900) = some [] := by
    simp [sC', step, modify, indexPairs, entryIndex, indexHeader, hmeta, dupkeys_diff.1, applyActs, applyAct, getIdl,
      writeIdl, nameIndex, hidx, aget, aset, adel, removeId]
  have hents' : (⟨1, 1, eC2⟩ : SEnt) ∈ sC'.ents := by
    simp [sC', step, modify, indexPairs, entryIndex, indexHeader, hents, putEnt]
  have := (h (.num 900) 1).2 ⟨⟨1, 1, eC2⟩, hents', rfl, dupkeys_diff.2⟩
  obtain ⟨l, hl, hm⟩ := this
  rw [hget] at hl
  cases hl
  simp at hm

open Witness in
/-- D36 (known finding): two entries swap names in ONE modify batch; the committed entries are perfectly
unique, yet `name2uuid` loses a name — `BatchWF` (every prefix of the batch well-formed) is necessary -/
theorem handoff_full_false :
    aget sAB'.tbl.n2u [98] = none ∧
    sAB'.ents.map (fun e => (e.id, e.uuid, masked e, cands e)) = [(1, 1, false, [[98]]), (2, 2, false, [[97]])] := by
  decide +kernel

/-! ### the hypotheses are satisfiable: a history with rename, recycle, layout change, reindex -/

theorem ofList_nodup {l : List (Nat × List Val)} (h : ∀ p ∈ l, p.2.Nodup) (a : Nat) : (Entry.ofList l a).Nodup := by
  unfold Entry.ofList
  cases hf : l.find? (fun p => p.1 == a) with
  | none => simp
  | some p => exact h p (List.mem_of_find?_eq_some hf)

/-- two entries with different uuids, disjoint name candidates and different external ids -/
theorem wfn_pair (x y : SEnt) (hk : KeysNodup x ∧ KeysNodup y)
    (h : masked x = false → masked y = false →
      x.uuid ≠ y.uuid ∧ (∀ n, n ∈ cands x → n ∉ cands y) ∧ (∀ n, extId x = some n → extId y ≠ some n)) :
    WFn [x, y] := by
  refine ⟨?_, ?_, ?_, ?_⟩
  · intro e1 h1 e2 h2 m1 m2 hu
    simp only [List.mem_cons, List.not_mem_nil, or_false] at h1 h2
    rcases h1 with rfl | rfl <;> rcases h2 with rfl | rfl
    · rfl
    · exact absurd hu (h m1 m2).1
    · exact absurd hu.symm (h m2 m1).1
    · rfl
  · intro e1 h1 e2 h2 m1 m2 n hn1 hn2
    simp only [List.mem_cons, List.not_mem_nil, or_false] at h1 h2
    rcases h1 with rfl | rfl <;> rcases h2 with rfl | rfl
    · rfl
    · exact absurd hn2 ((h m1 m2).2.1 n hn1)
    · exact absurd hn1 ((h m2 m1).2.1 n hn2)
    · rfl
  · intro e1 h1 e2 h2 m1 m2 n hn1 hn2
    simp only [List.mem_cons, List.not_mem_nil, or_false] at h1 h2
    rcases h1 with rfl | rfl <;> rcases h2 with rfl | rfl
    · rfl
    · exact absurd hn2 ((h m1 m2).2.2 n hn1)
    · exact absurd hn1 ((h m2 m1).2.2 n hn2)
    · rfl
  · intro e he
    simp only [List.mem_cons, List.not_mem_nil, or_false] at he
    rcases he with rfl | rfl
    · exact hk.1
    · exact hk.2

namespace Example

def cls : List Val := [.str [111]]
def rc : List Val := [.str [111], MaskClass.recycled.val]
def e1 : Entry := Entry.ofList [(0, cls), (2, [.str [97, 98]]), (4, [.num 7])]
def e2 : Entry := Entry.ofList [(0, cls), (2, [.str [98, 99]])]
def e1' : Entry := Entry.ofList [(0, cls), (2, [.str [99, 100]]), (4, [.num 7])]
def e2r : Entry := Entry.ofList [(0, rc), (2, [.str [98, 99]])]
def ops : List Op :=
  [.reindex, .create [(1, e1), (2, e2)], .modify [(⟨1, 1, e1⟩, ⟨1, 1, e1'⟩)], .modify [(⟨2, 2, e2⟩, ⟨2, 2, e2r⟩)],
   .setMeta [(2, .substring)], .reindex]
def s0 : BeState := BeState.init [(2, .equality), (2, .presence), (4, .equality)]

theorem kn (l : List (Nat × List Val)) (h : ∀ p ∈ l, p.2.Nodup) : KeysNodup ⟨1, 1, Entry.ofList l⟩ ∧
    KeysNodup ⟨2, 2, Entry.ofList l⟩ := ⟨fun a => ofList_nodup h a, fun a => ofList_nodup h a⟩

theorem ents1 : (step s0 .reindex).ents = [] := by
  simp [s0, step, reindex, BeState.init, indexAll]

theorem ents2 : (step (step s0 .reindex) (.create [(1, e1), (2, e2)])).ents = [⟨1, 1, e1⟩, ⟨2, 2, e2⟩] := by
  simp [s0, step, reindex, BeState.init, indexAll, create, assignIds, entryIndex, indexHeader]

theorem wf12 : WFn [⟨1, 1, e1⟩, ⟨2, 2, e2⟩] := by
  refine wfn_pair _ _ ⟨fun a => ofList_nodup (by simp [cls]) a, fun a => ofList_nodup (by simp [cls]) a⟩ ?_
  intro _ _
  refine ⟨by decide, ?_, ?_⟩
  · intro n hn
    simp [cands, nameCandAttrs, NameAttr.atom, aSpn, aName, aGid, e1, e2, Entry.ofList, protoStr, digits] at hn ⊢
    rcases hn with rfl | rfl <;> decide
  · intro n hn
    simp [extId, externalIdAttr, NameAttr.atom, aExtId, e1, Entry.ofList, single] at hn

theorem wf1'2 : WFn [⟨1, 1, e1'⟩, ⟨2, 2, e2⟩] := by
  refine wfn_pair _ _ ⟨fun a => ofList_nodup (by simp [cls]) a, fun a => ofList_nodup (by simp [cls]) a⟩ ?_
  intro _ _
  refine ⟨by decide, ?_, ?_⟩
  · intro n hn
    simp [cands, nameCandAttrs, NameAttr.atom, aSpn, aName, aGid, e1', e2, Entry.ofList, protoStr, digits] at hn ⊢
    rcases hn with rfl | rfl <;> decide
  · intro n hn
    simp [extId, externalIdAttr, NameAttr.atom, aExtId, e1', Entry.ofList, single] at hn

theorem wf1'2r : WFn [⟨1, 1, e1'⟩, ⟨2, 2, e2r⟩] := by
  refine wfn_pair _ _ ⟨fun a => ofList_nodup (by simp [cls]) a,
    fun a => ofList_nodup (by simp [rc, MaskClass.val]) a⟩ ?_
  intro _ hm
  exfalso
  revert hm
  decide +kernel

/-- the history satisfies every hypothesis of `inv_reachable` -/
theorem ops_ok : RunOK s0 ops := by
  refine ⟨trivial, ?_, ?_, ?_, trivial, trivial, trivial⟩
  · show WFn _
    rw [ents1]
    simpa [assignIds, s0, step, reindex, BeState.init, indexAll] using wf12
  · show BatchWF _ _
    rw [ents2]
    exact ⟨by simp, rfl, by simpa [putEnt] using wf1'2, trivial⟩
  · show BatchWF _ _
    have : (step (step (step s0 .reindex) (.create [(1, e1), (2, e2)])) (.modify [(⟨1, 1, e1⟩, ⟨1, 1, e1'⟩)])).ents
        = [⟨1, 1, e1'⟩, ⟨2, 2, e2⟩] := by
      simp [s0, step, reindex, BeState.init, indexAll, create, assignIds, entryIndex, indexHeader, modify,
        indexPairs, putEnt]
    rw [this]
    exact ⟨by simp, rfl, by simpa [putEnt] using wf1'2r, trivial⟩

/-- … so after it every table is exact, nothing is stale, and e.g. the renamed entry resolves by its new name only -/
example : Inv (fun _ _ => False) (run s0 ops) := by
  have := (inv_reachable ops s0 _ (inv_init _) (by simpa [s0, BeState.init] using
    (⟨by simp, by simp, by simp, by simp⟩ : WFn [])) ops_ok).1
  simpa [ops, staleRun, staleStep] using this

end Example

end Kanidm.Index
