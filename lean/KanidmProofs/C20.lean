import KanidmProofs.Lemmas.BaseProtect
/-
C20 — UUIDs are immutable and the system range is protected.

"No request from a user can change the UUID of an existing entry, create an entry whose UUID lies
in the reserved system range, or delete a built-in entry, regardless of the access controls
configured."

The theorems quantify over every identity of the stated kind, every set of access control
profiles (`acps`, per request), every sync agreement table, every stored state, every request
and — for the history theorems — every sequence of requests, every outcome of the stages the
model does not track (`Havoc`). The reserved range is *specified here* (`reservedBound = 2^48`,
i.e. uuids `00000000-0000-0000-0000-xxxxxxxxxxxx`) and tied to the generated constants by
`dynMin_is_reservedBound` / `ranges_agree`.
-/
namespace Kanidm.BaseProtect
open Kanidm.Filter
open Kanidm.Access.Write
open Kanidm.Gen.Access
open Kanidm.Gen.BaseProtect

/-! ## the specification's range -/

/-- `00000000-0000-0000-0001-000000000000` as a number: everything below is the system range -/
def reservedBound : Nat := 2 ^ 48

/-- the uuid lies in the reserved system range / the entry is built in -/
def Reserved (u : Nat) : Prop := u < reservedBound

instance (u : Nat) : Decidable (Reserved u) := inferInstanceAs (Decidable (u < reservedBound))

theorem dynMin_is_reservedBound : dynamicRangeMinimum = reservedBound := by decide

/-- The access gates (`uuid <= UUID_ANONYMOUS`, create.rs / delete.rs) and the plugin gate
(`uuid < DYNAMIC_RANGE_MINIMUM_UUID`, base.rs) describe one and the same range, the one specified
above; the constant is read twice (by C24's and by this property's translator item) and agrees. -/
theorem ranges_agree :
    Kanidm.Gen.BaseProtect.uuidAnonymous = Kanidm.Gen.Access.uuidAnonymous ∧
    (∀ u, u ≤ Kanidm.Gen.Access.uuidAnonymous ↔ Reserved u) ∧
    (∀ u, createRangeCmp u dynamicRangeMinimum = true ↔ Reserved u) ∧
    (∀ u, createAnonCmp u Kanidm.Gen.Access.uuidAnonymous = true ↔ Reserved u) ∧
    (∀ u, deleteAnonCmp u Kanidm.Gen.Access.uuidAnonymous = true ↔ Reserved u) := by
  have h1 : Kanidm.Gen.Access.uuidAnonymous + 1 = reservedBound := by decide
  refine ⟨by decide, ?_, ?_, ?_, ?_⟩
  · intro u; unfold Reserved; omega
  · intro u; rw [createRangeCmp_iff, dynMin_is_reservedBound]; rfl
  · intro u; unfold Reserved; simp [createAnonCmp]; omega
  · intro u; unfold Reserved; simp [deleteAnonCmp]; omega

/-- A generated (`Uuid::new_v4()`) uuid is never in the reserved range: the version nibble sits
above bit 48. -/
theorem v4_not_reserved (r : Nat) : ¬ Reserved (v4 r) := by
  unfold Reserved v4
  have h : 0x00000000000040008000000000000000 ≤
      (r % 2 ^ 128 &&& 0xffffffffffff0fff3fffffffffffffff) ||| 0x00000000000040008000000000000000 :=
    Nat.right_le_or
  have h2 : reservedBound ≤ 0x00000000000040008000000000000000 := by decide
  omega

/-! ## 1. no request changes the uuid of an existing entry -/

/-- The four variants `apply_modlist` mutates with all count as touching when aimed at `uuid`;
`Assert` does not and cannot change a value set. -/
theorem touching_kinds (v : Nat) (vs : List Nat) :
    touches A.Uuid (.present A.Uuid v) = true ∧ touches A.Uuid (.removed A.Uuid v) = true ∧
    touches A.Uuid (.purged A.Uuid) = true ∧ touches A.Uuid (.set A.Uuid vs) = true ∧
    touches A.Uuid (.assert A.Uuid v) = false ∧
    ∀ a cur, stepAva a cur (.assert A.Uuid v) = cur := by
  refine ⟨by rfl, by rfl, by rfl, by rfl, by rfl, ?_⟩
  intro a cur
  apply stepAva_noop
  simp [touches, modKind, applyMutates]

/-- `user_cannot_touch_uuid`: a modify whose modlist contains a present / removed / purged / set
of `uuid` — anywhere in the list — never gets past Base, for any identity (internal ones
included), any profiles, any candidates. -/
theorem user_cannot_touch_uuid (id : Ident) (acps : List AcpModify) (ag : List (Nat × List Nat))
    (cands : List Ent) (ml : List Mod) (h : ∃ m ∈ ml, touches A.Uuid m = true) :
    modifyStage id acps ag cands ml ≠ .proceed := by
  intro hp
  obtain ⟨m, hm, ht⟩ := h
  have := modifyStage_proceed_no_touch hp m hm
  rw [ht] at this; simp at this

/-- The same for batch modify: no modlist of the modset may touch `uuid`. -/
theorem batch_cannot_touch_uuid (id : Ident) (acps : List AcpModify) (ag : List (Nat × List Nat))
    (n : Nat) (pairs : List (Ent × Option (List Mod)))
    (h : ∃ p ∈ pairs, ∃ m ∈ p.2.getD [], touches A.Uuid m = true) :
    batchStage id acps ag n pairs ≠ .proceed := by
  intro hp
  obtain ⟨p, hpp, m, hm, ht⟩ := h
  have := batchStage_proceed_no_touch hp p hpp m hm
  rw [ht] at this; simp at this

/-- Under a profile that grants the modification, the refusal is Base's
`SystemProtectedAttribute` (not an access decision): whenever access, assertions and the
lifecycle guard pass, a touching modlist yields exactly `protectedAttr`. -/
theorem touching_uuid_yields_protectedAttr (id : Ident) (acps : List AcpModify)
    (ag : List (Nat × List Nat)) (cands : List Ent) (ml : List Mod)
    (h : ∃ m ∈ ml, touches A.Uuid m = true)
    (hne : cands ≠ [])
    (hacc : modifyAllowOperation id acps ag cands ml = true)
    (hass : ∀ e ∈ cands, assertsHold (some [e.uuid]) e.classes ml = true)
    (hmask : ∀ e ∈ cands, maskChanged e ml = false) :
    modifyStage id acps ag cands ml = .protectedAttr := by
  have hml : ml ≠ [] := by
    obtain ⟨m, hm, _⟩ := h
    intro hnil; rw [hnil] at hm; simp at hm
  have hr := runPreModify_of_touch h
  unfold modifyStage
  have h1 : ml.isEmpty = false := by cases ml <;> simp_all
  have h2 : cands.isEmpty = false := by cases cands <;> simp_all
  have h3 : (cands.any fun e => !assertsHold (some [e.uuid]) e.classes ml) = false := by
    apply Bool.eq_false_iff.mpr
    intro hany
    obtain ⟨e, he, hx⟩ := List.any_eq_true.mp hany
    rw [hass e he] at hx; simp at hx
  have h4 : (cands.any fun e => maskChanged e ml) = false := by
    apply Bool.eq_false_iff.mpr
    intro hany
    obtain ⟨e, he, hx⟩ := List.any_eq_true.mp hany
    rw [hmask e he] at hx; simp at hx
  simp [h1, h2, hacc, h3, h4, hr]

/-! ## 2. no user request creates an entry in the reserved range -/

/-- The plugin gate on its own — "regardless of the access controls configured": for a
non-internal identity `Base::pre_create_transform` rejects every request that names a reserved
uuid anywhere in any entry's `uuid` value set. -/
theorem base_gate_rejects_reserved (fresh : Nat → Nat) (db : List Nat) (cands : List Cand)
    (h : ∃ c ∈ cands, ∃ us, c.uuids = some us ∧ ∃ u ∈ us, Reserved u) :
    ∀ l, basePreCreateTransform false fresh db cands ≠ .ok l := by
  intro l hok
  obtain ⟨c, hc, us, hus, u, hu, hr⟩ := h
  have := (base_ok_user hok).2 c hc us hus u hu
  unfold Reserved at hr
  rw [dynMin_is_reservedBound] at this
  omega

/-- The access gate on its own: for a user (or the migration role) a request entry whose uuid is
reserved is denied before any profile is looked at, whatever the profiles grant. -/
theorem access_gate_rejects_reserved (id : Ident)
    (hid : (∃ u mo, id.origin = .user u mo) ∨ id.origin = .internal .migration)
    (acps : List AcpCreate) (ents : List NewEnt)
    (h : ∃ e ∈ ents, ∃ u, e.uuid = some u ∧ Reserved u) :
    createOp id acps ents = .accessDenied := by
  obtain ⟨e, he, u, hu, hr⟩ := h
  have hcmp : createAnonCmp u Kanidm.Gen.Access.uuidAnonymous = true := (ranges_agree.2.2.2.1 u).mpr hr
  have hprot : createProtectedFilterEntry id e = .deny := by
    unfold createProtectedFilterEntry
    rcases hid with ⟨u', mo, ho⟩ | ho <;> simp [ho, hu, hcmp]
  have hdeny : ∀ rel, createAllowPerEntry id rel e = false := by
    intro rel
    unfold createAllowPerEntry
    split
    · rfl
    · unfold applyCreateAccess
      simp [hprot, IRes.isDeny]
  have hall : createAllowOperation id acps ents = false := by
    unfold createAllowOperation
    apply Bool.eq_false_iff.mpr
    intro hx
    have := List.all_eq_true.mp hx e he
    rw [hdeny] at this; simp at this
  unfold createOp
  have hne : ents.isEmpty = false := by cases ents <;> simp_all
  simp [hne, hall]

/-- `user_create_reserved_rejected`: a create request of a non-internal identity (user or sync
token, any scope) that names a reserved uuid in any entry never gets past Base — for all
profiles, all stored states, all fresh-uuid streams. -/
theorem user_create_reserved_rejected (id : Ident) (hid : id.isInternal = false)
    (acps : List AcpCreate) (fresh : Nat → Nat) (db : List Nat) (reqs : List CreateReq)
    (h : ∃ r ∈ reqs, ∃ us, r.uuids = some us ∧ ∃ u ∈ us, Reserved u) :
    ∀ es, createStage id acps fresh db reqs ≠ .proceed es := by
  intro es hp
  unfold createStage at hp
  split at hp
  · simp at hp
  · split at hp
    · rename_i es' hrun
      rw [runPreCreateTransform_eq, hid] at hrun
      obtain ⟨r, hr, us, hus, u, hu, hres⟩ := h
      exact base_gate_rejects_reserved fresh db _
        ⟨r.toCand, List.mem_map.mpr ⟨r, hr, rfl⟩, us, hus, u, hu, hres⟩ es' hrun
    · simp at hp
  · simp at hp

/-- Whatever a non-internal identity does get created carries no reserved uuid — generated ones
included (`v4_not_reserved`). -/
theorem created_uuids_not_reserved (id : Ident) (hid : id.isInternal = false)
    (acps : List AcpCreate) (fresh : Nat → Nat) (db : List Nat) (reqs : List CreateReq)
    (es : List (Nat × List Nat)) (h : createStage id acps fresh db reqs = .proceed es) :
    ∀ p ∈ es, ¬ Reserved p.1 := by
  intro p hp
  unfold createStage at h
  split at h
  · simp at h
  · split at h
    · rename_i es' hrun
      simp only [CreateOut.proceed.injEq] at h
      subst h
      rw [runPreCreateTransform_eq, hid] at hrun
      have := (base_ok_user hrun).1 p hp
      unfold Reserved
      rw [dynMin_is_reservedBound] at this
      omega
    · simp at h
  · simp at h

/-! ## 3. no user request deletes a built-in entry -/

/-- `builtin_delete_denied`: a delete whose candidates include a built-in entry is refused for
every identity except the internal system role — every profile set, every scope (`deny_dominates`:
the protected gate's Deny is computed before the profiles and wins). -/
theorem builtin_delete_denied (id : Ident) (hns : id.origin ≠ .internal .system)
    (acps : List AcpDelete) (cands : List Ent) (h : ∃ e ∈ cands, Reserved e.uuid) :
    deleteStage id acps cands = .accessDenied := by
  obtain ⟨e, he, hr⟩ := h
  exact deleteOp_builtin id hns acps cands ⟨e, he, (ranges_agree.2.1 e.uuid).mpr hr⟩

/-! ## 4. histories of requests -/

/-- Uuids are immutable: after any sequence of requests of any identity under any (changing)
profiles, every position still holds the uuid it held. -/
theorem history_uuids_immutable (id : Ident) :
    ∀ (hs : List (Havoc × Req)) (st : State) (i : Nat) (e : Ent), st[i]? = some e →
      ∃ e', (run id st hs)[i]? = some e' ∧ e'.uuid = e.uuid := by
  intro hs
  induction hs with
  | nil => intro st i e he; exact ⟨e, he, rfl⟩
  | cons hr rest ih =>
    intro st i e he
    obtain ⟨h, r⟩ := hr
    obtain ⟨e1, h1, hu1⟩ := step_uuid_preserved id h st r i e he
    obtain ⟨e2, h2, hu2⟩ := ih (step id h st r) i e1 h1
    exact ⟨e2, h2, by rw [hu2, hu1]⟩

/-- The reserved range is closed: after any history of requests of a non-internal identity, an
entry with a reserved uuid was there from the start, at the same position with the same uuid. -/
theorem history_no_new_reserved (id : Ident) (hid : id.isInternal = false) :
    ∀ (hs : List (Havoc × Req)) (st : State), (∀ hr ∈ hs, hr.2.freshOk) →
      ∀ (i : Nat) (e' : Ent), (run id st hs)[i]? = some e' → Reserved e'.uuid →
        ∃ e, st[i]? = some e ∧ e.uuid = e'.uuid := by
  intro hs
  induction hs with
  | nil => intro st _ i e' he' _; exact ⟨e', he', rfl⟩
  | cons hr rest ih =>
    intro st hf i e' he' hres
    obtain ⟨h, r⟩ := hr
    obtain ⟨e1, h1, hu1⟩ := ih (step id h st r) (fun x hx => hf x (List.mem_cons_of_mem _ hx)) i e' he' hres
    rcases step_origin id hid h st r (hf (h, r) List.mem_cons_self) i e1 h1 with ⟨e0, h0, hu0⟩ | ⟨_, hge⟩
    · exact ⟨e0, h0, by rw [hu0, hu1]⟩
    · unfold Reserved at hres
      rw [dynMin_is_reservedBound] at hge
      omega

/-- Built-in entries survive: after any history of requests of any identity but the internal
system role, every built-in entry is still there with its uuid and is neither recycled nor a
tombstone if it was not before. -/
theorem history_builtin_survive (id : Ident) (hns : id.origin ≠ .internal .system) :
    ∀ (hs : List (Havoc × Req)) (st : State) (i : Nat) (e : Ent), st[i]? = some e →
      Reserved e.uuid →
      ∃ e', (run id st hs)[i]? = some e' ∧ e'.uuid = e.uuid ∧
        maskedTs e'.classes = maskedTs e.classes := by
  intro hs
  induction hs with
  | nil => intro st i e he _; exact ⟨e, he, rfl, rfl⟩
  | cons hr rest ih =>
    intro st i e he hres
    obtain ⟨h, r⟩ := hr
    have hlt : e.uuid < dynamicRangeMinimum := by rw [dynMin_is_reservedBound]; exact hres
    obtain ⟨e1, h1, hu1, hm1⟩ := step_builtin id hns h st r i e he hlt
    obtain ⟨e2, h2, hu2, hm2⟩ := ih (step id h st r) i e1 h1 (by unfold Reserved at *; omega)
    exact ⟨e2, h2, by rw [hu2, hu1], by rw [hm2, hm1]⟩

/-! ## Non-vacuity: concrete states, a grant-everything profile, and the decisions -/
namespace Example

def g1 : Nat := 0x10000000000040008000000000000100
def alice : Ident := ⟨.user 0x10000000000040008000000000000200 (some [g1]), .readWrite⟩
def allAttrs : List Nat := [A.Class, A.Uuid, A.Name, A.Description, A.DisplayName]
def allClasses : List Nat := [C.Object, C.Person, C.Account, C.Group, C.Builtin]
/-- grant-everything profiles for group g1 -/
def mAcp : AcpModify := ⟨⟨.group [g1], some (.pres A.Class)⟩, allAttrs, allAttrs, allClasses, allClasses⟩
def cAcp : AcpCreate := ⟨⟨.group [g1], some (.pres A.Class)⟩, allAttrs, allClasses⟩
def dAcp : AcpDelete := ⟨⟨.group [g1], some (.pres A.Class)⟩⟩

def fe (cs : List Nat) : Filter.Entry := Entry.ofList [(A.Class, cs.map fun c => .str [c])]
def person : Ent := ⟨0x10000000000040008000000000000300, some [C.Object, C.Person], none, none,
  fe [C.Object, C.Person]⟩
def builtinGroup : Ent := ⟨0xffffff000001, some [C.Object, C.Group, C.Builtin], none, none,
  fe [C.Object, C.Group, C.Builtin]⟩
def newUuid : Nat := 0x10000000000040008000000000000999

-- the profile really grants: a description change proceeds, every uuid modification is stopped by
-- Base with SystemProtectedAttribute (not by access), an assert of the right uuid proceeds
example : modifyStage alice [mAcp] [] [person] [.set A.Description [0]] = .proceed := by decide
example : modifyStage alice [mAcp] [] [person] [.set A.Uuid [newUuid]] = .protectedAttr := by decide
example : modifyStage alice [mAcp] [] [person] [.present A.Uuid newUuid] = .protectedAttr := by decide
example : modifyStage alice [mAcp] [] [person] [.removed A.Uuid person.uuid] = .protectedAttr := by decide
example : modifyStage alice [mAcp] [] [person] [.purged A.Uuid] = .protectedAttr := by decide
example : modifyStage alice [mAcp] [] [person]
    [.set A.Description [0], .assert A.Uuid person.uuid, .purged A.Uuid] = .protectedAttr := by decide
example : modifyStage alice [mAcp] [] [person] [.assert A.Uuid person.uuid, .set A.Description [0]]
    = .proceed := by decide
example : modifyStage alice [mAcp] [] [person] [.assert A.Uuid newUuid, .set A.Description [0]]
    = .assertFailed := by decide
example : modifyStage alice [] [] [person] [.set A.Uuid [newUuid]] = .accessDenied := by decide
example : batchStage alice [mAcp] [] 1 [(person, some [.set A.Uuid [newUuid]])] = .protectedAttr := by
  decide
example : batchStage alice [mAcp] [] 1 [(person, some [.set A.Description [0]])] = .proceed := by decide
-- what would happen without Base: the value set, and with it the entry's uuid, changes
example : validateUuid (applyAva A.Uuid (some [person.uuid]) [.set A.Uuid [newUuid]]) = some newUuid := by
  decide

def req (us : Option (List Nat)) : CreateReq :=
  ⟨us, some [C.Object, C.Person], [A.Class, A.Uuid, A.Name], fe [C.Object, C.Person]⟩
-- create: dynamic uuids proceed, the boundary is exact, two values are refused by Base
example : createStage alice [cAcp] (fun _ => newUuid) [] [req (some [newUuid + 1])]
    = .proceed [(newUuid + 1, [C.Object, C.Person])] := by decide
example : createStage alice [cAcp] (fun _ => newUuid) [] [req none]
    = .proceed [(newUuid, [C.Object, C.Person])] := by decide
example : createStage alice [cAcp] (fun _ => newUuid) [] [req (some [2 ^ 48])]
    = .proceed [(2 ^ 48, [C.Object, C.Person])] := by decide
example : createStage alice [cAcp] (fun _ => newUuid) [] [req (some [2 ^ 48 - 1])] = .accessDenied := by
  decide
example : createStage alice [cAcp] (fun _ => newUuid) [] [req (some [5, newUuid])]
    = .base .uuidCount := by decide
example : basePreCreateTransform false (fun _ => newUuid) [] [⟨some [2 ^ 48 - 1], [C.Person]⟩]
    = .error .protectedRange := by rfl
example : basePreCreateTransform false (fun _ => newUuid) [] [⟨some [2 ^ 48], [C.Person]⟩]
    = .ok [(2 ^ 48, [C.Person, C.Object])] := by rfl
example : basePreCreateTransform true (fun _ => newUuid) [] [⟨some [5], [C.Group]⟩]
    = .ok [(5, [C.Group, C.Object, C.Builtin])] := by rfl
example : basePreCreateTransform false (fun _ => newUuid) [newUuid] [⟨some [newUuid], []⟩]
    = .error .existsInDb := by rfl

-- delete: granted for the person, denied for the built-in group under the same profile
example : deleteStage alice [dAcp] [person] = .proceed := by decide
example : deleteStage alice [dAcp] [builtinGroup] = .accessDenied := by decide
example : deleteStage alice [dAcp] [person, builtinGroup] = .accessDenied := by decide

-- a history: create, modify, delete succeed on the dynamic entry; the state really changes
def hv : Havoc := ⟨true, fun _ => person⟩
example : (run alice [builtinGroup, person]
    [(hv, .create [cAcp] (fun _ => newUuid) [req none]),
     (hv, .modify [mAcp] [] (fun i => i == 1) [.present A.Class C.Account]),
     (hv, .delete [dAcp] (fun i => i == 2)),
     (hv, .delete [dAcp] (fun i => i == 0)),
     (hv, .modify [mAcp] [] (fun i => i == 1) [.set A.Uuid [newUuid + 7]])]).map
      (fun e => (e.uuid, e.classes))
    = [(builtinGroup.uuid, some [C.Object, C.Group, C.Builtin]),
       (person.uuid, some [C.Object, C.Person, C.Account]),
       (newUuid, some [C.Object, C.Person, C.Recycled])] := by decide
example : Reserved builtinGroup.uuid ∧ ¬ Reserved person.uuid := by decide

end Example

end Kanidm.BaseProtect
