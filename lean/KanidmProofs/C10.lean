import KanidmProofs.Lemmas.RangeDiff
/-!
# C10 — Replication range comparison decides supply, refresh or refusal correctly

Property theorems only (helper lemmas live in `Lemmas/RangeDiff.lean`).  The model
`rangeDiff` is the transcription of `ReplicationUpdateVector::range_diff`; its three
comparison conditions are regenerated from the source on every run.  The right-hand
sides below are the declarative specification written from the property text.

Hypothesis `hs : (supplier.map (·.1)).Nodup` (and likewise for the consumer where
needed) is the `BTreeMap` invariant: one window per server id.
-/
namespace Kanidm.RangeDiff
open Kanidm.Gen.RangeDiff

/-- The comparison conditions regenerated from the source are the ones the
specification speaks about.  This is the proof obligation that re-reads the code:
`<` → `<=` (or swapped operands) in any of the three makes it fail. -/
theorem conds_are_spec (c s : Range) :
    (c0 c s = true ↔ c.tsMax < s.tsMin) ∧
    (c1 c s = true ↔ s.tsMax < c.tsMin) ∧
    (c2 c s = true ↔ c.tsMax < s.tsMax) := by
  simp [c0, c1, c2, cond0, cond1, cond2]

/-- The loop's `valid_content_overlap` flag ⇔ some server is shared. -/
theorem shared_iff (consumer supplier : Ruv) :
    supplier.any (sharedOf consumer) = true ↔ ∃ k, Shared consumer supplier k := by
  rw [List.any_eq_true]
  constructor
  · rintro ⟨⟨k, r⟩, hmem, hsh⟩
    refine ⟨k, by simpa [sharedOf] using hsh, ?_⟩
    clear hsh
    induction supplier with
    | nil => cases hmem
    | cons hd tl ih =>
      obtain ⟨k', r'⟩ := hd
      unfold lookup
      by_cases hk : k' = k
      · simp [hk]
      · simp only [hk, if_false]
        rcases List.mem_cons.mp hmem with h' | h'
        · cases h'; exact absurd rfl hk
        · exact ih h'
  · rintro ⟨k, hc, hs⟩
    obtain ⟨r, hr⟩ := Option.isSome_iff_exists.mp hs
    exact ⟨(k, r), mem_of_lookup hr, by simpa [sharedOf] using hc⟩

/-- No shared server (including both maps empty) ⇔ `NoRUVOverlap`. -/
theorem no_overlap_iff (consumer supplier : Ruv) :
    rangeDiff consumer supplier = .noOverlap ↔
      ¬ ∃ k, Shared consumer supplier k := by
  rw [rangeDiff_classify, ← shared_iff]
  cases supplier.any (sharedOf consumer) <;>
  cases supplier.any (fun e => (lagOf consumer e).isSome) <;>
  cases supplier.any (fun e => (advOf consumer e).isSome) <;> simp [classify]

/-- A consumer-lagging server exists in the loop ⇔ spec `LagOn` for some server. -/
theorem lagging_iff (consumer supplier : Ruv) (hs : (supplier.map (·.1)).Nodup) :
    supplier.any (fun e => (lagOf consumer e).isSome) = true ↔
      ∃ k, LagOn consumer supplier k := by
  rw [List.any_eq_true]
  constructor
  · rintro ⟨⟨k, s⟩, hmem, h⟩
    unfold lagOf at h
    cases hc : lookup consumer k with
    | none => simp [hc] at h
    | some c =>
      simp only [hc] at h
      by_cases h0 : c0 c s = true
      · exact ⟨k, c, s, hc, lookup_of_mem_nodup hs hmem, (conds_are_spec c s).1.mp h0⟩
      · simp [h0] at h
  · rintro ⟨k, c, s, hc, hsup, hlt⟩
    refine ⟨(k, s), mem_of_lookup hsup, ?_⟩
    have h0 : c0 c s = true := (conds_are_spec c s).1.mpr hlt
    simp [lagOf, hc, h0]

theorem advanced_iff (consumer supplier : Ruv) (hs : (supplier.map (·.1)).Nodup) :
    supplier.any (fun e => (advOf consumer e).isSome) = true ↔
      ∃ k, AdvOn consumer supplier k := by
  rw [List.any_eq_true]
  constructor
  · rintro ⟨⟨k, s⟩, hmem, h⟩
    unfold advOf at h
    cases hc : lookup consumer k with
    | none => simp [hc] at h
    | some c =>
      simp only [hc] at h
      by_cases h0 : c0 c s = true
      · simp [h0] at h
      · by_cases h1 : c1 c s = true
        · exact ⟨k, c, s, hc, lookup_of_mem_nodup hs hmem,
            fun hlt => h0 ((conds_are_spec c s).1.mpr hlt), (conds_are_spec c s).2.1.mp h1⟩
        · simp [h0, h1] at h
  · rintro ⟨k, c, s, hc, hsup, hn, hlt⟩
    refine ⟨(k, s), mem_of_lookup hsup, ?_⟩
    have h0 : c0 c s = false := by
      rw [Bool.eq_false_iff]; exact fun h => hn ((conds_are_spec c s).1.mp h)
    have h1 : c1 c s = true := (conds_are_spec c s).2.1.mpr hlt
    simp [advOf, hc, h0, h1]

/-- **Ok ⇔ ∃ shared server ∧ no shared server's windows are disjoint**, and then
`refresh`/`unwilling`/`critical` are decided by which side is disjoint. -/
theorem outcome_iff (consumer supplier : Ruv) (hs : (supplier.map (·.1)).Nodup) :
    let lag := ∃ k, LagOn consumer supplier k
    let adv := ∃ k, AdvOn consumer supplier k
    let shared := ∃ k, Shared consumer supplier k
    ((∃ d, rangeDiff consumer supplier = .ok d) ↔ shared ∧ ¬ lag ∧ ¬ adv) ∧
    ((∃ l, rangeDiff consumer supplier = .refresh l) ↔ shared ∧ lag ∧ ¬ adv) ∧
    ((∃ a, rangeDiff consumer supplier = .unwilling a) ↔ shared ∧ ¬ lag ∧ adv) ∧
    ((∃ l a, rangeDiff consumer supplier = .critical l a) ↔ shared ∧ lag ∧ adv) := by
  intro lag adv shared
  have hsh := shared_iff consumer supplier
  have hl := lagging_iff consumer supplier hs
  have ha := advanced_iff consumer supplier hs
  rw [rangeDiff_classify]
  show (_ ↔ (∃ k, Shared consumer supplier k) ∧ ¬ (∃ k, LagOn consumer supplier k) ∧ ¬ (∃ k, AdvOn consumer supplier k)) ∧
       (_ ↔ (∃ k, Shared consumer supplier k) ∧ (∃ k, LagOn consumer supplier k) ∧ ¬ (∃ k, AdvOn consumer supplier k)) ∧
       (_ ↔ (∃ k, Shared consumer supplier k) ∧ ¬ (∃ k, LagOn consumer supplier k) ∧ (∃ k, AdvOn consumer supplier k)) ∧
       (_ ↔ (∃ k, Shared consumer supplier k) ∧ (∃ k, LagOn consumer supplier k) ∧ (∃ k, AdvOn consumer supplier k))
  rw [← hsh, ← hl, ← ha]
  cases supplier.any (sharedOf consumer) <;>
  cases supplier.any (fun e => (lagOf consumer e).isSome) <;>
  cases supplier.any (fun e => (advOf consumer e).isSome) <;> simp [classify]

/-- Overlap-form of the Ok condition, exactly as the property words it: every shared
server's windows overlap. -/
theorem ok_iff_all_overlap (consumer supplier : Ruv) (hs : (supplier.map (·.1)).Nodup) :
    (∃ d, rangeDiff consumer supplier = .ok d) ↔
      (∃ k, Shared consumer supplier k) ∧
      ∀ k c s, lookup consumer k = some c → lookup supplier k = some s → Overlap c s := by
  rw [(outcome_iff consumer supplier hs).1]
  constructor
  · rintro ⟨hsh, hl, ha⟩
    refine ⟨hsh, fun k c s hc hsup => ⟨fun h => hl ⟨k, c, s, hc, hsup, h⟩, fun h => ?_⟩⟩
    by_cases h0 : c.tsMax < s.tsMin
    · exact hl ⟨k, c, s, hc, hsup, h0⟩
    · exact ha ⟨k, c, s, hc, hsup, h0, h⟩
  · rintro ⟨hsh, hall⟩
    refine ⟨hsh, ?_, ?_⟩
    · rintro ⟨k, c, s, hc, hsup, h⟩; exact (hall k c s hc hsup).1 h
    · rintro ⟨k, c, s, hc, hsup, _, h⟩; exact (hall k c s hc hsup).2 h

/-- When replication may proceed, the supplied ranges are exactly the needed ones:
a shared server appears iff the consumer is behind, with `[c.max, s.max]`; a server the
consumer has never seen appears with `[0, s.max]`; nothing else. -/
theorem ok_ranges_exact (consumer supplier : Ruv) (hs : (supplier.map (·.1)).Nodup)
    (d : Ruv) (hok : rangeDiff consumer supplier = .ok d) (k : Nat) (r : Range) :
    (k, r) ∈ d ↔ Needed consumer supplier k r := by
  -- no server is lagging or advanced
  have hout := (outcome_iff consumer supplier hs).1.mp ⟨d, hok⟩
  obtain ⟨_, hnl, hna⟩ := hout
  rw [rangeDiff_classify] at hok
  have hd : d = supplier.filterMap (diffOf consumer) := by
    revert hok
    cases supplier.any (sharedOf consumer) <;>
    cases supplier.any (fun e => (lagOf consumer e).isSome) <;>
    cases supplier.any (fun e => (advOf consumer e).isSome) <;> simp [classify] <;>
    exact fun h => h.symm
  subst hd
  rw [List.mem_filterMap]
  constructor
  · rintro ⟨⟨k', s⟩, hmem, h⟩
    have hsup := lookup_of_mem_nodup hs hmem
    unfold diffOf at h
    cases hc : lookup consumer k' with
    | none =>
      simp only [hc, Option.some.injEq, Prod.mk.injEq] at h
      obtain ⟨rfl, rfl⟩ := h
      exact ⟨s, hsup, Or.inr ⟨hc, rfl⟩⟩
    | some c =>
      simp only [hc] at h
      split at h
      · rename_i hcond
        simp only [Option.some.injEq, Prod.mk.injEq] at h
        obtain ⟨rfl, rfl⟩ := h
        simp only [Bool.and_eq_true, Bool.not_eq_eq_eq_not, Bool.not_true] at hcond
        exact ⟨s, hsup, Or.inl ⟨c, hc, (conds_are_spec c s).2.2.mp hcond.2, rfl⟩⟩
      · cases h
  · rintro ⟨s, hsup, h⟩
    refine ⟨(k, s), mem_of_lookup hsup, ?_⟩
    rcases h with ⟨c, hc, hlt, rfl⟩ | ⟨hc, rfl⟩
    · have h0 : c0 c s = false := by
        rw [Bool.eq_false_iff]
        exact fun h => hnl ⟨k, c, s, hc, hsup, (conds_are_spec c s).1.mp h⟩
      have h1 : c1 c s = false := by
        rw [Bool.eq_false_iff]
        exact fun h => hna ⟨k, c, s, hc, hsup,
          fun hlt' => by simp [(conds_are_spec c s).1.mpr hlt'] at h0, (conds_are_spec c s).2.1.mp h⟩
      have h2 : c2 c s = true := (conds_are_spec c s).2.2.mpr hlt
      simp [diffOf, hc, h0, h1, h2]
    · simp [diffOf, hc]

/-- Refresh reports, per lagging server, `[s.min, c.max]` — the gap the consumer lost. -/
theorem refresh_ranges_exact (consumer supplier : Ruv) (hs : (supplier.map (·.1)).Nodup)
    (l : Ruv) (h : rangeDiff consumer supplier = .refresh l) (k : Nat) (r : Range) :
    (k, r) ∈ l ↔ ∃ c s, lookup consumer k = some c ∧ lookup supplier k = some s ∧
      c.tsMax < s.tsMin ∧ r = ⟨s.tsMin, c.tsMax⟩ := by
  rw [rangeDiff_classify] at h
  have hd : l = supplier.filterMap (lagOf consumer) := by
    revert h
    cases supplier.any (sharedOf consumer) <;>
    cases supplier.any (fun e => (lagOf consumer e).isSome) <;>
    cases supplier.any (fun e => (advOf consumer e).isSome) <;> simp [classify] <;>
    exact fun h => h.symm
  subst hd
  rw [List.mem_filterMap]
  constructor
  · rintro ⟨⟨k', s⟩, hmem, h⟩
    have hsup := lookup_of_mem_nodup hs hmem
    unfold lagOf at h
    cases hc : lookup consumer k' with
    | none => simp [hc] at h
    | some c =>
      simp only [hc] at h
      split at h
      · rename_i hcond
        simp only [Option.some.injEq, Prod.mk.injEq] at h
        obtain ⟨rfl, rfl⟩ := h
        exact ⟨c, s, hc, hsup, (conds_are_spec c s).1.mp hcond, rfl⟩
      · cases h
  · rintro ⟨c, s, hc, hsup, hlt, rfl⟩
    refine ⟨(k, s), mem_of_lookup hsup, ?_⟩
    simp [lagOf, hc, (conds_are_spec c s).1.mpr hlt]

/-- The five outcomes are mutually exclusive and exhaustive: `rangeDiff` is a total
function into `Status`, and the classifying conditions of `outcome_iff` partition. -/
theorem outcomes_exclusive_total (consumer supplier : Ruv) :
    (rangeDiff consumer supplier = .noOverlap) ∨
    (∃ d, rangeDiff consumer supplier = .ok d) ∨
    (∃ l, rangeDiff consumer supplier = .refresh l) ∨
    (∃ a, rangeDiff consumer supplier = .unwilling a) ∨
    (∃ l a, rangeDiff consumer supplier = .critical l a) := by
  cases h : rangeDiff consumer supplier <;> simp

/-! ## `supplier_provide_changes`: what the consumer is told

`supplierDecide consumer supplier` is the transcription of the decision part of
`QueryServerReadTransaction::supplier_provide_changes`: the `range_diff` call with the
argument order found in the source, the `match` over its status with the arms found in the
source, and the `ranges.is_empty()` test — all three regenerated into
`Kanidm.Gen.SupplierMap` on every run.  `consumer` is the `ranges` of the request,
`supplier` the supplier's own `filter_ruv_range(trim_cid)` view of its RUV. -/
section Supplier
open Kanidm.Gen.SupplierMap

/-- The proof obligation that re-reads supplier.rs: with the call order, the status arms and
the empty test as they are in the source now, the decision is the one the property states —
consumer ranges first; Ok ↦ supply (or "no changes" when nothing is needed), Refresh ↦
RefreshRequired, Unwilling / Critical / NoRUVOverlap ↦ UnwillingToSupply.  A swapped arm,
a copy-pasted reply, swapped arguments or a dropped empty test make this fail. -/
theorem supplier_map_is_spec (consumer supplier : Ruv) :
    supplierDecide consumer supplier =
      match rangeDiff consumer supplier with
      | .ok d => if d.isEmpty then .reply .noChangesAvailable else .supply d
      | .refresh _ => .reply .refreshRequired
      | .unwilling _ => .reply .unwillingToSupply
      | .critical _ _ => .reply .unwillingToSupply
      | .noOverlap => .reply .unwillingToSupply := by
  unfold supplierDecide
  simp only [consumerArgFirst, if_true]
  cases rangeDiff consumer supplier <;>
    simp [kindOf, supplierMap, payload, afterMatch, emptyRangesReply]

theorem shared_of_lag {consumer supplier : Ruv} (h : ∃ k, LagOn consumer supplier k) :
    ∃ k, Shared consumer supplier k := by
  obtain ⟨k, c, s, hc, hsup, _⟩ := h
  exact ⟨k, by simp [hc], by simp [hsup]⟩

theorem shared_of_adv {consumer supplier : Ruv} (h : ∃ k, AdvOn consumer supplier k) :
    ∃ k, Shared consumer supplier k := by
  obtain ⟨k, c, s, hc, hsup, _⟩ := h
  exact ⟨k, by simp [hc], by simp [hsup]⟩

/-- **"If the consumer is behind some window it demands a refresh"** — exactly then:
`RefreshRequired` ⇔ some shared server has the consumer's newest change older than the
supplier's oldest, and no shared server has the consumer ahead. -/
theorem supplier_refresh_iff (consumer supplier : Ruv) (hs : (supplier.map (·.1)).Nodup) :
    supplierDecide consumer supplier = .reply .refreshRequired ↔
      (∃ k, LagOn consumer supplier k) ∧ ¬ ∃ k, AdvOn consumer supplier k := by
  have ho := outcome_iff consumer supplier hs
  rw [supplier_map_is_spec]
  constructor
  · intro h
    cases hrd : rangeDiff consumer supplier with
    | refresh l => have := ho.2.1.mp ⟨l, hrd⟩; exact ⟨this.2.1, this.2.2⟩
    | ok d => rw [hrd] at h; by_cases hd : d.isEmpty <;> simp [hd] at h
    | unwilling a => rw [hrd] at h; simp at h
    | critical l a => rw [hrd] at h; simp at h
    | noOverlap => rw [hrd] at h; simp at h
  · rintro ⟨hl, ha⟩
    obtain ⟨l, hl'⟩ := ho.2.1.mpr ⟨shared_of_lag hl, hl, ha⟩
    rw [hl']

/-- The three refusals of the property, by cause: **ahead** (`Unwilling`), **both behind and
ahead** (`Critical`), **no server in common** (`NoRUVOverlap`) — each is answered
`UnwillingToSupply`, and nothing else is. -/
theorem supplier_refuse_cases (consumer supplier : Ruv) :
    supplierDecide consumer supplier = .reply .unwillingToSupply ↔
      (∃ a, rangeDiff consumer supplier = .unwilling a) ∨
      (∃ l a, rangeDiff consumer supplier = .critical l a) ∨
      rangeDiff consumer supplier = .noOverlap := by
  rw [supplier_map_is_spec]
  cases hrd : rangeDiff consumer supplier with
  | ok d => by_cases hd : d.isEmpty <;> simp [hd]
  | refresh l => simp
  | unwilling a => simp
  | critical l a => simp
  | noOverlap => simp

/-- **"if ahead it refuses, if both it refuses as critical, and if the two share no server
at all it refuses"** — exactly then: `UnwillingToSupply` ⇔ some shared server has the
consumer's oldest change newer than the supplier's newest (whether or not another one is
behind), or no server is shared (which includes an empty map on either side). -/
theorem supplier_refuse_iff (consumer supplier : Ruv) (hs : (supplier.map (·.1)).Nodup) :
    supplierDecide consumer supplier = .reply .unwillingToSupply ↔
      (∃ k, AdvOn consumer supplier k) ∨ ¬ ∃ k, Shared consumer supplier k := by
  have ho := outcome_iff consumer supplier hs
  rw [supplier_refuse_cases, ho.2.2.1, ho.2.2.2, no_overlap_iff]
  constructor
  · rintro (⟨_, _, ha⟩ | ⟨_, _, ha⟩ | h)
    · exact Or.inl ha
    · exact Or.inl ha
    · exact Or.inr h
  · rintro (ha | h)
    · by_cases hl : ∃ k, LagOn consumer supplier k
      · exact Or.inr (Or.inl ⟨shared_of_adv ha, hl, ha⟩)
      · exact Or.inl ⟨shared_of_adv ha, hl, ha⟩
    · exact Or.inr (Or.inr h)

/-- **"supplies changes only when every server both sides know about has overlapping change
windows"** — and exactly when, in addition, something is needed: `V1 { ranges }` ⇔ a server
is shared, none is behind, none is ahead, and some window is needed. -/
theorem supplier_supply_iff (consumer supplier : Ruv) (hs : (supplier.map (·.1)).Nodup) :
    (∃ d, supplierDecide consumer supplier = .supply d) ↔
      (∃ k, Shared consumer supplier k) ∧ (¬ ∃ k, LagOn consumer supplier k) ∧
      (¬ ∃ k, AdvOn consumer supplier k) ∧ ∃ k r, Needed consumer supplier k r := by
  have ho := outcome_iff consumer supplier hs
  rw [supplier_map_is_spec]
  constructor
  · rintro ⟨d', h⟩
    cases hrd : rangeDiff consumer supplier with
    | ok d =>
      rw [hrd] at h
      have hok := ho.1.mp ⟨d, hrd⟩
      by_cases hd : d.isEmpty
      · simp [hd] at h
      · refine ⟨hok.1, hok.2.1, hok.2.2, ?_⟩
        cases d with
        | nil => simp at hd
        | cons e tl =>
          exact ⟨e.1, e.2, (ok_ranges_exact consumer supplier hs _ hrd e.1 e.2).mp (by simp)⟩
    | refresh l => rw [hrd] at h; simp at h
    | unwilling a => rw [hrd] at h; simp at h
    | critical l a => rw [hrd] at h; simp at h
    | noOverlap => rw [hrd] at h; simp at h
  · rintro ⟨hsh, hl, ha, k, r, hn⟩
    obtain ⟨d, hd⟩ := ho.1.mpr ⟨hsh, hl, ha⟩
    have hmem := (ok_ranges_exact consumer supplier hs d hd k r).mpr hn
    refine ⟨d, ?_⟩
    rw [hd]
    cases d with
    | nil => cases hmem
    | cons e tl => simp

/-- **"sending for each such server exactly the window from the consumer's newest change to
the supplier's newest, plus all changes from servers the consumer has never seen"**: the
ranges of `V1` are exactly the needed ones. -/
theorem supplier_supply_exact (consumer supplier : Ruv) (hs : (supplier.map (·.1)).Nodup)
    (d : Ruv) (h : supplierDecide consumer supplier = .supply d) (k : Nat) (r : Range) :
    (k, r) ∈ d ↔ Needed consumer supplier k r := by
  rw [supplier_map_is_spec] at h
  cases hrd : rangeDiff consumer supplier with
  | ok d' =>
    rw [hrd] at h
    by_cases hd : d'.isEmpty
    · simp [hd] at h
    · simp only [hd] at h
      have : d' = d := by simpa using h
      subst this
      exact ok_ranges_exact consumer supplier hs _ hrd k r
  | refresh l => rw [hrd] at h; simp at h
  | unwilling a => rw [hrd] at h; simp at h
  | critical l a => rw [hrd] at h; simp at h
  | noOverlap => rw [hrd] at h; simp at h

/-- Overlap wording of the supply condition: whenever changes are supplied, a server is
shared and every shared server's windows overlap. -/
theorem supplier_supplies_only_if_all_overlap (consumer supplier : Ruv)
    (hs : (supplier.map (·.1)).Nodup) (d : Ruv) (h : supplierDecide consumer supplier = .supply d) :
    (∃ k, Shared consumer supplier k) ∧
      ∀ k c s, lookup consumer k = some c → lookup supplier k = some s → Overlap c s := by
  have h' := (supplier_supply_iff consumer supplier hs).mp ⟨d, h⟩
  exact (ok_iff_all_overlap consumer supplier hs).mp
    ((outcome_iff consumer supplier hs).1.mpr ⟨h'.1, h'.2.1, h'.2.2.1⟩)

/-- `NoChangesAvailable` ⇔ replication may proceed (shared server, none behind, none ahead)
and nothing is needed: the consumer already has the supplier's newest change of every server
the supplier knows. -/
theorem supplier_nochanges_iff (consumer supplier : Ruv) (hs : (supplier.map (·.1)).Nodup) :
    supplierDecide consumer supplier = .reply .noChangesAvailable ↔
      (∃ k, Shared consumer supplier k) ∧ (¬ ∃ k, LagOn consumer supplier k) ∧
      (¬ ∃ k, AdvOn consumer supplier k) ∧ ¬ ∃ k r, Needed consumer supplier k r := by
  have ho := outcome_iff consumer supplier hs
  rw [supplier_map_is_spec]
  constructor
  · intro h
    cases hrd : rangeDiff consumer supplier with
    | ok d =>
      rw [hrd] at h
      have hok := ho.1.mp ⟨d, hrd⟩
      by_cases hd : d.isEmpty
      · refine ⟨hok.1, hok.2.1, hok.2.2, ?_⟩
        rintro ⟨k, r, hn⟩
        have hmem := (ok_ranges_exact consumer supplier hs d hrd k r).mpr hn
        cases d with
        | nil => cases hmem
        | cons e tl => simp at hd
      · simp [hd] at h
    | refresh l => rw [hrd] at h; simp at h
    | unwilling a => rw [hrd] at h; simp at h
    | critical l a => rw [hrd] at h; simp at h
    | noOverlap => rw [hrd] at h; simp at h
  · rintro ⟨hsh, hl, ha, hn⟩
    obtain ⟨d, hd⟩ := ho.1.mpr ⟨hsh, hl, ha⟩
    rw [hd]
    cases d with
    | nil => simp
    | cons e tl =>
      exact absurd ⟨e.1, e.2, (ok_ranges_exact consumer supplier hs _ hd e.1 e.2).mp (by simp)⟩ hn

/-- The domain test precedes everything: a request for another domain is answered
`DomainMismatch` whatever the ranges, a request for this domain is decided by the ranges
alone, and the ranges never produce `DomainMismatch`. -/
theorem supplier_domain (consumer supplier : Ruv) :
    supplierProvide false consumer supplier = .reply .domainMismatch ∧
    supplierProvide true consumer supplier = supplierDecide consumer supplier ∧
    supplierDecide consumer supplier ≠ .reply .domainMismatch := by
  refine ⟨by simp [supplierProvide, domainMismatchReply], by simp [supplierProvide, domainMismatchReply], ?_⟩
  rw [supplier_map_is_spec]
  cases rangeDiff consumer supplier with
  | ok d => by_cases hd : d.isEmpty <;> simp [hd]
  | refresh l => simp
  | unwilling a => simp
  | critical l a => simp
  | noOverlap => simp

/-! Non-vacuity for the supplier theorems: one concrete pair of maps per reply, with the
right-hand sides of the iffs inhabited (so no hypothesis is unsatisfiable). -/

-- supply: server 1 shared and overlapping (consumer behind its newest), server 3 unseen
example : supplierDecide [(1, ⟨2, 5⟩), (2, ⟨1, 1⟩)] [(1, ⟨3, 9⟩), (3, ⟨4, 4⟩)] =
    .supply [(1, ⟨5, 9⟩), (3, ⟨0, 4⟩)] := by decide
example : Needed [(1, ⟨2, 5⟩), (2, ⟨1, 1⟩)] [(1, ⟨3, 9⟩), (3, ⟨4, 4⟩)] 3 ⟨0, 4⟩ :=
  ⟨⟨4, 4⟩, by decide, Or.inr ⟨by decide, rfl⟩⟩
-- no changes: everything the supplier has, the consumer has
example : supplierDecide [(1, ⟨2, 9⟩), (2, ⟨1, 1⟩)] [(1, ⟨3, 9⟩)] = .reply .noChangesAvailable := by decide
-- refresh: behind on 1 (3 < 4), fine on 2
example : supplierDecide [(1, ⟨2, 3⟩), (2, ⟨5, 6⟩)] [(1, ⟨4, 9⟩), (2, ⟨5, 8⟩)] =
    .reply .refreshRequired := by decide
example : LagOn [(1, ⟨2, 3⟩), (2, ⟨5, 6⟩)] [(1, ⟨4, 9⟩), (2, ⟨5, 8⟩)] 1 :=
  ⟨⟨2, 3⟩, ⟨4, 9⟩, by decide, by decide, by decide⟩
-- refuse, ahead only
example : supplierDecide [(1, ⟨7, 9⟩)] [(1, ⟨1, 4⟩)] = .reply .unwillingToSupply := by decide
example : AdvOn [(1, ⟨7, 9⟩)] [(1, ⟨1, 4⟩)] 1 :=
  ⟨⟨7, 9⟩, ⟨1, 4⟩, by decide, by decide, by decide, by decide⟩
-- refuse, critical: ahead on 1 and behind on 2
example : supplierDecide [(1, ⟨7, 9⟩), (2, ⟨1, 1⟩)] [(1, ⟨1, 4⟩), (2, ⟨5, 6⟩)] =
    .reply .unwillingToSupply := by decide
-- refuse, nothing shared (disjoint server sets; both empty; consumer empty)
example : supplierDecide [(1, ⟨1, 2⟩)] [(2, ⟨1, 2⟩)] = .reply .unwillingToSupply := by decide
example : supplierDecide [] [] = .reply .unwillingToSupply := by decide
example : supplierDecide [] [(2, ⟨1, 2⟩)] = .reply .unwillingToSupply := by decide
example : ¬ ∃ k, Shared [(1, ⟨1, 2⟩)] [(2, ⟨1, 2⟩)] k := by
  rintro ⟨k, h1, h2⟩
  by_cases hk : k = 1
  · subst hk; simp [lookup] at h2
  · simp [lookup, Ne.symm hk] at h1
-- the argument order matters: the same two maps the other way round are refused, not refreshed
example : supplierDecide [(1, ⟨4, 9⟩)] [(1, ⟨2, 3⟩)] = .reply .unwillingToSupply ∧
    supplierDecide [(1, ⟨2, 3⟩)] [(1, ⟨4, 9⟩)] = .reply .refreshRequired := by decide
example : supplierProvide false [(1, ⟨2, 3⟩)] [(1, ⟨4, 9⟩)] = .reply .domainMismatch := by decide

end Supplier

/-! ### Non-vacuity: concrete maps meeting the hypotheses, one per outcome -/

example : rangeDiff [(1, ⟨2, 5⟩), (2, ⟨1, 1⟩)] [(1, ⟨3, 9⟩), (3, ⟨4, 4⟩)] =
    .ok [(1, ⟨5, 9⟩), (3, ⟨0, 4⟩)] := by decide
example : ([(1, (⟨3, 9⟩ : Range)), (3, ⟨4, 4⟩)].map (·.1)).Nodup := by decide
example : rangeDiff [(1, ⟨2, 3⟩)] [(1, ⟨4, 9⟩)] = .refresh [(1, ⟨4, 3⟩)] := by decide
example : rangeDiff [(1, ⟨7, 9⟩)] [(1, ⟨1, 4⟩)] = .unwilling [(1, ⟨4, 7⟩)] := by decide
example : rangeDiff [(1, ⟨7, 9⟩), (2, ⟨1, 1⟩)] [(1, ⟨1, 4⟩), (2, ⟨5, 6⟩)] =
    .critical [(2, ⟨5, 1⟩)] [(1, ⟨4, 7⟩)] := by decide
example : rangeDiff [] [] = .noOverlap := by decide

end Kanidm.RangeDiff
