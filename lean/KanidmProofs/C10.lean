import KanidmProofs.Lemmas.RangeDiff
/-!
# C10 — Replication range comparison decides supply, refresh or refusal correctly

Property theorems only (helper lemmas live in `Lemmas/RangeDiff.lean`).  The model
`rangeDiff` is the transcription of `ReplicationUpdateVector::range_diff`; its three
comparison conditions are regenerated from the source on every run.  The right-hand
sides below are the declarative specification written from the property text.

Hypothesis `hs : (supplier.map (·.1)).Nodup` (and likewise for the consumer where
needed) is the `BTreeMap` invariant: one window per server id.
-/
namespace Kanidm.RangeDiff
open Kanidm.Gen.RangeDiff

/-- The comparison conditions regenerated from the source are the ones the
specification speaks about.  This is the proof obligation that re-reads the code:
`<` → `<=` (or swapped operands) in any of the three makes it fail. -/
theorem conds_are_spec (c s : Range) :
    (c0 c s = true ↔ c.tsMax < s.tsMin) ∧
    (c1 c s = true ↔ s.tsMax < c.tsMin) ∧
    (c2 c s = true ↔ c.tsMax < s.tsMax) := by
  simp [c0, c1, c2, cond0, cond1, cond2]

/-- The loop's `valid_content_overlap` flag ⇔ some server is shared. -/
theorem shared_iff (consumer supplier : Ruv) :
    supplier.any (sharedOf consumer) = true ↔ ∃ k, Shared consumer supplier k := by
  rw [List.any_eq_true]
  constructor
  · rintro ⟨⟨k, r⟩, hmem, hsh⟩
    refine ⟨k, by simpa [sharedOf] using hsh, ?_⟩
    clear hsh
    induction supplier with
    | nil => cases hmem
    | cons hd tl ih =>
      obtain ⟨k', r'⟩ := hd
      unfold lookup
      by_cases hk : k' = k
      · simp [hk]
      · simp only [hk, if_false]
        rcases List.mem_cons.mp hmem with h' | h'
        · cases h'; exact absurd rfl hk
        · exact ih h'
  · rintro ⟨k, hc, hs⟩
    obtain ⟨r, hr⟩ := Option.isSome_iff_exists.mp hs
    exact ⟨(k, r), mem_of_lookup hr, by simpa [sharedOf] using hc⟩

/-- No shared server (including both maps empty) ⇔ `NoRUVOverlap`. -/
theorem no_overlap_iff (consumer supplier : Ruv) :
    rangeDiff consumer supplier = .noOverlap ↔
      ¬ ∃ k, Shared consumer supplier k := by
  rw [rangeDiff_classify, ← shared_iff]
  cases supplier.any (sharedOf consumer) <;>
  cases supplier.any (fun e => (lagOf consumer e).isSome) <;>
  cases supplier.any (fun e => (advOf consumer e).isSome) <;> simp [classify]

/-- A consumer-lagging server exists in the loop ⇔ spec `LagOn` for some server. -/
theorem lagging_iff (consumer supplier : Ruv) (hs : (supplier.map (·.1)).Nodup) :
    supplier.any (fun e => (lagOf consumer e).isSome) = true ↔
      ∃ k, LagOn consumer supplier k := by
  rw [List.any_eq_true]
  constructor
  · rintro ⟨⟨k, s⟩, hmem, h⟩
    unfold lagOf at h
    cases hc : lookup consumer k with
    | none => simp [hc] at h
    | some c =>
      simp only [hc] at h
      by_cases h0 : c0 c s = true
      · exact ⟨k, c, s, hc, lookup_of_mem_nodup hs hmem, (conds_are_spec c s).1.mp h0⟩
      · simp [h0] at h
  · rintro ⟨k, c, s, hc, hsup, hlt⟩
    refine ⟨(k, s), mem_of_lookup hsup, ?_⟩
    have h0 : c0 c s = true := (conds_are_spec c s).1.mpr hlt
    simp [lagOf, hc, h0]

theorem advanced_iff (consumer supplier : Ruv) (hs : (supplier.map (·.1)).Nodup) :
    supplier.any (fun e => (advOf consumer e).isSome) = true ↔
      ∃ k, AdvOn consumer supplier k := by
  rw [List.any_eq_true]
  constructor
  · rintro ⟨⟨k, s⟩, hmem, h⟩
    unfold advOf at h
    cases hc : lookup consumer k with
    | none => simp [hc] at h
    | some c =>
      simp only [hc] at h
      by_cases h0 : c0 c s = true
      · simp [h0] at h
      · by_cases h1 : c1 c s = true
        · exact ⟨k, c, s, hc, lookup_of_mem_nodup hs hmem,
            fun hlt => h0 ((conds_are_spec c s).1.mpr hlt), (conds_are_spec c s).2.1.mp h1⟩
        · simp [h0, h1] at h
  · rintro ⟨k, c, s, hc, hsup, hn, hlt⟩
    refine ⟨(k, s), mem_of_lookup hsup, ?_⟩
    have h0 : c0 c s = false := by
      rw [Bool.eq_false_iff]; exact fun h => hn ((conds_are_spec c s).1.mp h)
    have h1 : c1 c s = true := (conds_are_spec c s).2.1.mpr hlt
    simp [advOf, hc, h0, h1]

/-- **Ok ⇔ ∃ shared server ∧ no shared server's windows are disjoint**, and then
`refresh`/`unwilling`/`critical` are decided by which side is disjoint. -/
theorem outcome_iff (consumer supplier : Ruv) (hs : (supplier.map (·.1)).Nodup) :
    let lag := ∃ k, LagOn consumer supplier k
    let adv := ∃ k, AdvOn consumer supplier k
    let shared := ∃ k, Shared consumer supplier k
    ((∃ d, rangeDiff consumer supplier = .ok d) ↔ shared ∧ ¬ lag ∧ ¬ adv) ∧
    ((∃ l, rangeDiff consumer supplier = .refresh l) ↔ shared ∧ lag ∧ ¬ adv) ∧
    ((∃ a, rangeDiff consumer supplier = .unwilling a) ↔ shared ∧ ¬ lag ∧ adv) ∧
    ((∃ l a, rangeDiff consumer supplier = .critical l a) ↔ shared ∧ lag ∧ adv) := by
  intro lag adv shared
  have hsh := shared_iff consumer supplier
  have hl := lagging_iff consumer supplier hs
  have ha := advanced_iff consumer supplier hs
  rw [rangeDiff_classify]
  show (_ ↔ (∃ k, Shared consumer supplier k) ∧ ¬ (∃ k, LagOn consumer supplier k) ∧ ¬ (∃ k, AdvOn consumer supplier k)) ∧
       (_ ↔ (∃ k, Shared consumer supplier k) ∧ (∃ k, LagOn consumer supplier k) ∧ ¬ (∃ k, AdvOn consumer supplier k)) ∧
       (_ ↔ (∃ k, Shared consumer supplier k) ∧ ¬ (∃ k, LagOn consumer supplier k) ∧ (∃ k, AdvOn consumer supplier k)) ∧
       (_ ↔ (∃ k, Shared consumer supplier k) ∧ (∃ k, LagOn consumer supplier k) ∧ (∃ k, AdvOn consumer supplier k))
  rw [← hsh, ← hl, ← ha]
  cases supplier.any (sharedOf consumer) <;>
  cases supplier.any (fun e => (lagOf consumer e).isSome) <;>
  cases supplier.any (fun e => (advOf consumer e).isSome) <;> simp [classify]

/-- Overlap-form of the Ok condition, exactly as the property words it: every shared
server's windows overlap. -/
theorem ok_iff_all_overlap (consumer supplier : Ruv) (hs : (supplier.map (·.1)).Nodup) :
    (∃ d, rangeDiff consumer supplier = .ok d) ↔
      (∃ k, Shared consumer supplier k) ∧
      ∀ k c s, lookup consumer k = some c → lookup supplier k = some s → Overlap c s := by
  rw [(outcome_iff consumer supplier hs).1]
  constructor
  · rintro ⟨hsh, hl, ha⟩
    refine ⟨hsh, fun k c s hc hsup => ⟨fun h => hl ⟨k, c, s, hc, hsup, h⟩, fun h => ?_⟩⟩
    by_cases h0 : c.tsMax < s.tsMin
    · exact hl ⟨k, c, s, hc, hsup, h0⟩
    · exact ha ⟨k, c, s, hc, hsup, h0, h⟩
  · rintro ⟨hsh, hall⟩
    refine ⟨hsh, ?_, ?_⟩
    · rintro ⟨k, c, s, hc, hsup, h⟩; exact (hall k c s hc hsup).1 h
    · rintro ⟨k, c, s, hc, hsup, _, h⟩; exact (hall k c s hc hsup).2 h

/-- When replication may proceed, the supplied ranges are exactly the needed ones:
a shared server appears iff the consumer is behind, with `[c.max, s.max]`; a server the
consumer has never seen appears with `[0, s.max]`; nothing else. -/
theorem ok_ranges_exact (consumer supplier : Ruv) (hs : (supplier.map (·.1)).Nodup)
    (d : Ruv) (hok : rangeDiff consumer supplier = .ok d) (k : Nat) (r : Range) :
    (k, r) ∈ d ↔ Needed consumer supplier k r := by
  -- no server is lagging or advanced
  have hout := (outcome_iff consumer supplier hs).1.mp ⟨d, hok⟩
  obtain ⟨_, hnl, hna⟩ := hout
  rw [rangeDiff_classify] at hok
  have hd : d = supplier.filterMap (diffOf consumer) := by
    revert hok
    cases supplier.any (sharedOf consumer) <;>
    cases supplier.any (fun e => (lagOf consumer e).isSome) <;>
    cases supplier.any (fun e => (advOf consumer e).isSome) <;> simp [classify] <;>
    exact fun h => h.symm
  subst hd
  rw [List.mem_filterMap]
  constructor
  · rintro ⟨⟨k', s⟩, hmem, h⟩
    have hsup := lookup_of_mem_nodup hs hmem
    unfold diffOf at h
    cases hc : lookup consumer k' with
    | none =>
      simp only [hc, Option.some.injEq, Prod.mk.injEq] at h
      obtain ⟨rfl, rfl⟩ := h
      exact ⟨s, hsup, Or.inr ⟨hc, rfl⟩⟩
    | some c =>
      simp only [hc] at h
      split at h
      · rename_i hcond
        simp only [Option.some.injEq, Prod.mk.injEq] at h
        obtain ⟨rfl, rfl⟩ := h
        simp only [Bool.and_eq_true, Bool.not_eq_eq_eq_not, Bool.not_true] at hcond
        exact ⟨s, hsup, Or.inl ⟨c, hc, (conds_are_spec c s).2.2.mp hcond.2, rfl⟩⟩
      · cases h
  · rintro ⟨s, hsup, h⟩
    refine ⟨(k, s), mem_of_lookup hsup, ?_⟩
    rcases h with ⟨c, hc, hlt, rfl⟩ | ⟨hc, rfl⟩
    · have h0 : c0 c s = false := by
        rw [Bool.eq_false_iff]
        exact fun h => hnl ⟨k, c, s, hc, hsup, (conds_are_spec c s).1.mp h⟩
      have h1 : c1 c s = false := by
        rw [Bool.eq_false_iff]
        exact fun h => hna ⟨k, c, s, hc, hsup,
          fun hlt' => by simp [(conds_are_spec c s).1.mpr hlt'] at h0, (conds_are_spec c s).2.1.mp h⟩
      have h2 : c2 c s = true := (conds_are_spec c s).2.2.mpr hlt
      simp [diffOf, hc, h0, h1, h2]
    · simp [diffOf, hc]

/-- Refresh reports, per lagging server, `[s.min, c.max]` — the gap the consumer lost. -/
theorem refresh_ranges_exact (consumer supplier : Ruv) (hs : (supplier.map (·.1)).Nodup)
    (l : Ruv) (h : rangeDiff consumer supplier = .refresh l) (k : Nat) (r : Range) :
    (k, r) ∈ l ↔ ∃ c s, lookup consumer k = some c ∧ lookup supplier k = some s ∧
      c.tsMax < s.tsMin ∧ r = ⟨s.tsMin, c.tsMax⟩ := by
  rw [rangeDiff_classify] at h
  have hd : l = supplier.filterMap (lagOf consumer) := by
    revert h
    cases supplier.any (sharedOf consumer) <;>
    cases supplier.any (fun e => (lagOf consumer e).isSome) <;>
    cases supplier.any (fun e => (advOf consumer e).isSome) <;> simp [classify] <;>
    exact fun h => h.symm
  subst hd
  rw [List.mem_filterMap]
  constructor
  · rintro ⟨⟨k', s⟩, hmem, h⟩
    have hsup := lookup_of_mem_nodup hs hmem
    unfold lagOf at h
    cases hc : lookup consumer k' with
    | none => simp [hc] at h
    | some c =>
      simp only [hc] at h
      split at h
      · rename_i hcond
        simp only [Option.some.injEq, Prod.mk.injEq] at h
        obtain ⟨rfl, rfl⟩ := h
        exact ⟨c, s, hc, hsup, (conds_are_spec c s).1.mp hcond, rfl⟩
      · cases h
  · rintro ⟨c, s, hc, hsup, hlt, rfl⟩
    refine ⟨(k, s), mem_of_lookup hsup, ?_⟩
    simp [lagOf, hc, (conds_are_spec c s).1.mpr hlt]

/-- The five outcomes are mutually exclusive and exhaustive: `rangeDiff` is a total
function into `Status`, and the classifying conditions of `outcome_iff` partition. -/
theorem outcomes_exclusive_total (consumer supplier : Ruv) :
    (rangeDiff consumer supplier = .noOverlap) ∨
    (∃ d, rangeDiff consumer supplier = .ok d) ∨
    (∃ l, rangeDiff consumer supplier = .refresh l) ∨
    (∃ a, rangeDiff consumer supplier = .unwilling a) ∨
    (∃ l a, rangeDiff consumer supplier = .critical l a) := by
  cases h : rangeDiff consumer supplier <;> simp

/-! ### Non-vacuity: concrete maps meeting the hypotheses, one per outcome -/

example : rangeDiff [(1, ⟨2, 5⟩), (2, ⟨1, 1⟩)] [(1, ⟨3, 9⟩), (3, ⟨4, 4⟩)] =
    .ok [(1, ⟨5, 9⟩), (3, ⟨0, 4⟩)] := by decide
example : ([(1, (⟨3, 9⟩ : Range)), (3, ⟨4, 4⟩)].map (·.1)).Nodup := by decide
example : rangeDiff [(1, ⟨2, 3⟩)] [(1, ⟨4, 9⟩)] = .refresh [(1, ⟨4, 3⟩)] := by decide
example : rangeDiff [(1, ⟨7, 9⟩)] [(1, ⟨1, 4⟩)] = .unwilling [(1, ⟨4, 7⟩)] := by decide
example : rangeDiff [(1, ⟨7, 9⟩), (2, ⟨1, 1⟩)] [(1, ⟨1, 4⟩), (2, ⟨5, 6⟩)] =
    .critical [(2, ⟨5, 1⟩)] [(1, ⟨4, 7⟩)] := by decide
example : rangeDiff [] [] = .noOverlap := by decide

end Kanidm.RangeDiff
