import KanidmProofs.Lemmas.FilterIdl
import KanidmProofs.C02
/-!
# C01 — Search returns exactly the matching entries, whatever is indexed

Property theorems only (helper lemmas: `Lemmas/FilterIdl.lean`). The model (`KanidmModel/Filter/Idl.lean`)
transcribes `filter2idl`, `filter2idl_sub`, `search` and `exists` of `server/lib/src/be/mod.rs`; the
arm tables of the OR fold and of the two AND loops, the thresholds and the re-test arms are
regenerated from the source on every run (`KanidmModel/Generated/FilterIdl.lean`), so every theorem
below is re-stated whenever those arms change.

Vocabulary: `World` = the stored entries; `Idx` = `get_idl`; `IdxSound w idx` = every index table
that exists mirrors the stored entries; `sem S w f id` = `id` is stored and its entry satisfies `f`
under ordinary boolean semantics (`F.matches` = `entry_match_no_index`, NOT = complement);
`Approx P il` = what an `IdList` claims (`Indexed` exact, `Partial*` superset, `AllIds` nothing);
`F.safe` = no `Inclusion`, every `AndNot` sits directly under an `And` with a positive sibling,
indexed substring needles are non-empty; `F.plain` = the filters the property quantifies over.

The theorems hold for every threshold, every slope annotation of the filter (slopes only select
`Some`/`None` = "resolve believes this term is indexed"), every per-value comparison semantics `S`
compatible with the substring index (`SubSem`), every limit setting.
-/
namespace Kanidm.Filter

/-! ## 1. the central lemma -/

/-- `filter2idl` never over-claims: for a safe filter the id list it returns approximates the set
of stored entries satisfying the filter — exactly when `Indexed`, from above when `Partial` or
`PartialThreshold` — whatever is indexed, whatever the threshold. -/
theorem filter2idl_sound (S : ValSem) (hS : SubSem S) (w : World) (idx : Idx) (rep : Rep)
    (hI : IdxSound w idx) (thres : Nat) (f : F) (hf : f.safe = true) :
    Approx (sem S w f) (f.idl idx rep thres) :=
  (filter2idl_sound_aux S hS w idx rep hI thres f).1 hf

/-- The executed per-value comparisons are compatible with the trigraph index: every index key of a
needle is an index key of every value that contains / starts with / ends with it. -/
theorem sub_trigraph_superset : SubSem ValSem.std := subSem_std

/-- `Err(OperationError::ResourceLimit)` — the explicit failure the property allows -/
def resLimit {α : Type} : Except SErr α := Except.error SErr.resourceLimit

/-- the exact answer: the stored ids whose entry satisfies the filter, in id order -/
def answer (S : ValSem) (w : World) (f : F) : List Nat :=
  w.live.filter (fun id => f.matches S (w.ent id))

theorem getIdentry_filter_exact (S : ValSem) (w : World) (f : F) (i : IdList)
    (h : Approx (sem S w f) i) :
    (getIdentry w i).filter (fun id => f.matches S (w.ent id)) = answer S w f := by
  unfold getIdentry answer
  cases hk : i.kind <;> simp only [Approx, hk] at h <;> simp only
  all_goals
    rw [List.filter_filter]
    apply List.filter_congr
    intro id hid
    cases hm : f.matches S (w.ent id) with
    | false => simp
    | true =>
      have := h id
      simp only [sem, hid, hm, true_and] at this
      first
        | simpa using this.2 trivial
        | simpa using this trivial

theorem getIdentry_indexed_exact (S : ValSem) (w : World) (f : F) (i : IdList)
    (hk : i.kind = .idxd) (h : Approx (sem S w f) i) :
    getIdentry w i = answer S w f := by
  unfold getIdentry answer
  simp only [Approx, hk] at h
  simp only [hk]
  apply List.filter_congr
  intro id hid
  have := h id
  simp only [sem, hid, true_and] at this
  cases hm : f.matches S (w.ent id) with
  | false =>
    cases hc : i.ids.contains id with
    | false => rfl
    | true => rw [hm] at this; exact absurd (this.1 (by simpa using hc)) (by simp)
  | true => simpa using this.2 hm

/-! ## 2. search and exists are exact for safe filters -/

/-- `search` with any threshold either fails with `ResourceLimit` or returns exactly the stored
entries that satisfy the filter. -/
theorem searchT_exact (S : ValSem) (hS : SubSem S) (w : World) (idx : Idx) (rep : Rep)
    (hI : IdxSound w idx)
    (thres : Nat) (lim : Limits) (f : F) (hf : f.safe = true) :
    searchT thres S lim w idx rep f = resLimit ∨
      searchT thres S lim w idx rep f = .ok (answer S w f) := by
  have hA := filter2idl_sound S hS w idx rep hI thres f hf
  unfold searchT
  simp only
  split
  · exact Or.inl rfl
  · have hfil : (if searchRetest (f.idl idx rep thres).kind = true then
          (getIdentry w (f.idl idx rep thres)).filter (fun id => f.matches S (w.ent id))
        else getIdentry w (f.idl idx rep thres)) = answer S w f := by
      cases hk : (f.idl idx rep thres).kind <;> simp only [searchRetest, if_true]
      · exact getIdentry_filter_exact S w f _ hA
      · exact getIdentry_filter_exact S w f _ hA
      · exact getIdentry_filter_exact S w f _ hA
      · simp only [Bool.false_eq_true, if_false]
        exact getIdentry_indexed_exact S w f _ hk hA
    rw [hfil]
    split
    · exact Or.inl rfl
    · exact Or.inr rfl

/-- **The property for safe filters**: `Backend::search` either fails with an explicit error or
returns exactly the stored entries satisfying the filter — for every database, every index
layout whose tables mirror the entries, every slope annotation and every limit. -/
theorem search_exact_partial (S : ValSem) (hS : SubSem S) (w : World) (idx : Idx) (rep : Rep)
    (hI : IdxSound w idx) (lim : Limits) (f : F) (hf : f.safe = true) :
    search S lim w idx rep f = resLimit ∨ search S lim w idx rep f = .ok (answer S w f) :=
  searchT_exact S hS w idx rep hI thresSearch lim f hf

theorem existsT_exact (S : ValSem) (hS : SubSem S) (w : World) (idx : Idx) (rep : Rep)
    (hI : IdxSound w idx)
    (thres : Nat) (lim : Limits) (f : F) (hf : f.safe = true) :
    existsT thres S lim w idx rep f = resLimit ∨
      existsT thres S lim w idx rep f = .ok (!(answer S w f).isEmpty) := by
  have hA := filter2idl_sound S hS w idx rep hI thres f hf
  unfold existsT
  simp only
  split
  · exact Or.inl rfl
  · refine Or.inr ?_
    cases hk : (f.idl idx rep thres).kind <;> simp only [existsRetest, if_true]
    · rw [getIdentry_filter_exact S w f _ hA]
    · rw [getIdentry_filter_exact S w f _ hA]
    · rw [getIdentry_filter_exact S w f _ hA]
    · simp only [Bool.false_eq_true, if_false]
      congr 2
      -- an `Indexed` list is empty iff the answer is
      have hx := hA
      simp only [Approx, hk] at hx
      cases hi : (f.idl idx rep thres).ids with
      | nil =>
        cases ha : answer S w f with
        | nil => rfl
        | cons id t =>
          have hmem : id ∈ answer S w f := by rw [ha]; exact List.mem_cons_self
          simp only [answer, List.mem_filter] at hmem
          have := (hx id).2 ⟨hmem.1, hmem.2⟩
          rw [hi] at this; simp at this
      | cons id t =>
        have := (hx id).1 (by rw [hi]; exact List.mem_cons_self)
        have hmem : id ∈ answer S w f := by
          simp only [answer, List.mem_filter]; exact ⟨this.1, this.2⟩
        cases ha : answer S w f with
        | nil => rw [ha] at hmem; simp at hmem
        | cons _ _ => rfl

/-- `Backend::exists` either fails with an explicit error or answers whether some stored entry
satisfies the filter. -/
theorem exists_exact_partial (S : ValSem) (hS : SubSem S) (w : World) (idx : Idx) (rep : Rep)
    (hI : IdxSound w idx) (lim : Limits) (f : F) (hf : f.safe = true) :
    «exists» S lim w idx rep f = resLimit ∨
      «exists» S lim w idx rep f = .ok (!(answer S w f).isEmpty) :=
  existsT_exact S hS w idx rep hI thresExists lim f hf

/-! ## 3. the answer does not depend on the layout, the statistics, the rewriting -/

/-- Two index layouts (any tables, as long as the existing ones mirror the entries), two resolved
forms of a filter that mean the same on every entry (different slopes, different term order,
different nesting — what `resolve_idx`/`optimise` and a stale resolve cache may produce, see C02),
two thresholds: whenever both searches succeed they return the same list. -/
theorem search_layout_independent (S : ValSem) (hS : SubSem S) (w : World)
    (idx₁ idx₂ : Idx) (rep₁ rep₂ : Rep) (h₁ : IdxSound w idx₁) (h₂ : IdxSound w idx₂)
    (t₁ t₂ : Nat) (lim : Limits) (f₁ f₂ : F) (hf₁ : f₁.safe = true) (hf₂ : f₂.safe = true)
    (hsame : ∀ e, f₁.matches S e = f₂.matches S e) (r₁ r₂ : List Nat)
    (hr₁ : searchT t₁ S lim w idx₁ rep₁ f₁ = .ok r₁) (hr₂ : searchT t₂ S lim w idx₂ rep₂ f₂ = .ok r₂) :
    r₁ = r₂ := by
  have e1 := searchT_exact S hS w idx₁ rep₁ h₁ t₁ lim f₁ hf₁
  have e2 := searchT_exact S hS w idx₂ rep₂ h₂ t₂ lim f₂ hf₂
  rw [hr₁] at e1
  rw [hr₂] at e2
  rcases e1 with e1 | e1
  · cases e1
  rcases e2 with e2 | e2
  · cases e2
  injection e1 with e1
  injection e2 with e2
  rw [e1, e2]
  unfold answer
  apply List.filter_congr
  intro id _
  exact hsame (w.ent id)

/-- **Index metadata, index statistics and cached resolutions do not matter.** Resolve one
validated filter `fc` against two index metadata `m₁`, `m₂` (any keys, any slopes — e.g. the
current one and the one a cached resolution was computed under), optimise with any two pairs of
sort procedures that merely permute, search two layouts with two thresholds: whenever both
searches succeed they return the same list. (Composition with C02's `resolveIdx_preserves` and
`optimise_preserves`.) -/
theorem search_resolution_independent (S : ValSem) (hS : SubSem S) (w : World)
    (idx₁ idx₂ : Idx) (rep₁ rep₂ : Rep) (h₁ : IdxSound w idx₁) (h₂ : IdxSound w idx₂)
    (c : AttrConsts) (self : Val) (m₁ m₂ : Nat → IType → Option Nat)
    (sa₁ sd₁ sa₂ sd₂ : List F → List F)
    (hp₁ : IsPerm sa₁) (hq₁ : IsPerm sd₁) (hp₂ : IsPerm sa₂) (hq₂ : IsPerm sd₂)
    (fc : FC) (g₁ g₂ : F) (hg₁ : fc.resolveIdx c self m₁ = some g₁)
    (hg₂ : fc.resolveIdx c self m₂ = some g₂)
    (hf₁ : (g₁.optimise sa₁ sd₁).safe = true) (hf₂ : (g₂.optimise sa₂ sd₂).safe = true)
    (t₁ t₂ : Nat) (lim : Limits) (r₁ r₂ : List Nat)
    (hr₁ : searchT t₁ S lim w idx₁ rep₁ (g₁.optimise sa₁ sd₁) = .ok r₁)
    (hr₂ : searchT t₂ S lim w idx₂ rep₂ (g₂.optimise sa₂ sd₂) = .ok r₂) :
    r₁ = r₂ := by
  refine search_layout_independent S hS w idx₁ idx₂ rep₁ rep₂ h₁ h₂ t₁ t₂ lim _ _ hf₁ hf₂ ?_ r₁ r₂ hr₁ hr₂
  intro e
  rw [optimise_preserves S e sa₁ sd₁ hp₁ hq₁, optimise_preserves S e sa₂ sd₂ hp₂ hq₂,
    resolveIdx_preserves S e c self m₁ fc g₁ hg₁, resolveIdx_preserves S e c self m₂ fc g₂ hg₂]

/-! ## 4. a sound index exists for every database and layout (non-vacuity of `IdxSound`) -/

theorem idxOf_sound (w : World) (cfg : Nat → IType → Bool) : IdxSound w (idxOf w cfg) where
  eq := by
    intro a v s h id
    unfold idxOf at h
    split at h
    · injection h with h; subst h; simp [List.mem_filter]
    · cases h
  pres := by
    intro a s h id
    unfold idxOf at h
    split at h
    · injection h with h; subst h; simp [List.mem_filter]
    · cases h
  sub := by
    intro a k s h id
    unfold idxOf at h
    split at h
    · injection h with h; subst h; simp [List.mem_filter]
    · cases h
  uniform := by
    intro a t k k'
    unfold idxOf
    split <;> rfl

/-- decidable equality of results (core has no instance), for the concrete examples below -/
instance decEqExcept {ε α : Type} [DecidableEq ε] [DecidableEq α] : DecidableEq (Except ε α)
  | .ok a, .ok b =>
    if h : a = b then isTrue (by rw [h]) else isFalse (fun h' => by injection h' with h'; exact h h')
  | .error a, .error b =>
    if h : a = b then isTrue (by rw [h]) else isFalse (fun h' => by injection h' with h'; exact h h')
  | .ok _, .error _ => isFalse (fun h => by cases h)
  | .error _, .ok _ => isFalse (fun h => by cases h)

/-! ## 5. the full statement is false of the code (defect D1), with the witness -/

/-- The property at full strength: every plain filter (nested And / Or / Not over equality,
substring, presence, ordering terms) — no guardedness condition. -/
def search_exact_full : Prop :=
  ∀ (S : ValSem), SubSem S → ∀ (w : World) (idx : Idx) (rep : Rep), IdxSound w idx →
    ∀ (lim : Limits) (f : F), f.plain = true →
      search S lim w idx rep f = resLimit ∨ search S lim w idx rep f = .ok (answer S w f)

/-- every stored id set sparse / every stored id set compressed -/
def noRep : Rep := fun _ _ _ => false
def allRep : Rep := fun _ _ _ => true

/-- the D1 witness database: three entries, attribute 0 holds `ga`, `gb`, `gc` -/
def d1World : World where
  live := [1, 2, 3]
  ent := fun id => Entry.ofList [(0, [Val.str [id]])]

/-- `Or[Eq a ga, AndNot(Eq a gb)]`, `a` indexed -/
def d1Filter : F :=
  .or [.eq 0 (.str [1]) (some 1), .andnot (.eq 0 (.str [2]) (some 1)) none] none

def d1Lim : Limits := ⟨true, 1000, 1000⟩

/-- with attribute 0 equality-indexed the search returns `[1]` … -/
theorem d1_indexed :
    search ValSem.std d1Lim d1World (idxOf d1World (fun _ _ => true)) noRep d1Filter = .ok [1] := by
  decide +kernel

/-- … and with nothing indexed (the same filter resolved without slopes) `[1, 3]` -/
theorem d1_unindexed :
    search ValSem.std d1Lim d1World (idxOf d1World (fun _ _ => false)) noRep
      (.or [.eq 0 (.str [1]) none, .andnot (.eq 0 (.str [2]) none) none] none) = .ok [1, 3] := by
  decide +kernel

theorem d1_answer : answer ValSem.std d1World d1Filter = [1, 3] := by decide +kernel

/-- **D1**: the unguarded NOT makes the full statement false. -/
theorem search_exact_full_false : ¬ search_exact_full := by
  intro h
  have := h ValSem.std subSem_std d1World (idxOf d1World (fun _ _ => true)) noRep
    (idxOf_sound _ _) d1Lim d1Filter (by decide +kernel)
  rw [d1_indexed, d1_answer] at this
  rcases this with h | h
  · cases h
  · injection h with h; revert h; decide

/-! ### the second witness: an indexed substring term with an empty needle (finding C01-F2) -/

/-- `name co ""`, resolved as substring-indexed: no NOT at all, yet not exact -/
def f2Filter : F := .cnt 0 (.str []) (some 1)

/-- with the substring table present `filter2idl_sub` answers `Indexed(∅)` … -/
theorem f2_indexed :
    search ValSem.std d1Lim d1World (idxOf d1World (fun _ _ => true)) noRep f2Filter = .ok [] := by
  decide +kernel

/-- … while every stored value contains the empty string -/
theorem f2_answer : answer ValSem.std d1World f2Filter = [1, 2, 3] := by decide +kernel

/-- … which is what the same search returns without the table -/
theorem f2_unindexed :
    search ValSem.std d1Lim d1World (idxOf d1World (fun _ _ => false)) noRep (.cnt 0 (.str []) none)
      = .ok [1, 2, 3] := by
  decide +kernel

/-- **C01-F2**: the empty needle alone makes the full statement false (so the hypothesis
"indexed substring needles are non-empty" of `F.safe` cannot be dropped either). -/
theorem search_exact_full_false_empty_needle : ¬ search_exact_full := by
  intro h
  have := h ValSem.std subSem_std d1World (idxOf d1World (fun _ _ => true)) noRep
    (idxOf_sound _ _) d1Lim f2Filter (by decide +kernel)
  rw [f2_indexed, f2_answer] at this
  rcases this with h | h
  · cases h
  · injection h with h; revert h; decide

/-! ## 6. non-vacuity -/

/-- three entries over attributes 0 (string, multi-valued) and 1 (number) -/
def exWorld : World where
  live := [1, 2, 3]
  ent := fun id =>
    if id = 1 then Entry.ofList [(0, [.str [97, 98, 99], .str [120]]), (1, [.num 5])]
    else if id = 2 then Entry.ofList [(0, [.str [97, 98]]), (1, [.num 9])]
    else Entry.ofList [(0, [.str [120]])]

/-- attribute 0 equality- and substring-indexed, attribute 1 not indexed at all -/
def exCfg : Nat → IType → Bool := fun a t => a == 0 && (t == .equality || t == .substring)

/-- `And[Or[cnt 0 "ab" (indexed), eq 0 "x" (indexed)], lt 1 7 (unindexed), AndNot(eq 0 "ab")]` -/
def exFilter : F :=
  .and [.or [.cnt 0 (.str [97, 98]) (some 2), .eq 0 (.str [120]) (some 1)] none,
        .lessThan 1 (.num 7) none,
        .andnot (.eq 0 (.str [97, 98]) (some 1)) none] none

example : exFilter.safe = true := by decide +kernel
example : IdxSound exWorld (idxOf exWorld exCfg) := idxOf_sound _ _
/-- a non-empty strict subset, reached through a `Partial` candidate set and the re-test -/
example : search ValSem.std ⟨false, 10, 10⟩ exWorld (idxOf exWorld exCfg) noRep exFilter = .ok [1] := by
  decide +kernel
example : (exFilter.idl (idxOf exWorld exCfg) noRep 0).kind = .part := by decide +kernel
example : «exists» ValSem.std ⟨false, 10, 10⟩ exWorld (idxOf exWorld exCfg) noRep exFilter = .ok true := by
  decide +kernel
/-- the limit error is reachable: nothing indexed and `unindexed_allow = false` -/
example : search ValSem.std ⟨false, 10, 10⟩ exWorld (idxOf exWorld (fun _ _ => false)) noRep
    (.eq 0 (.str [120]) none) = .error .resourceLimit := by decide +kernel
/-- the threshold early return is reachable -/
example : (exFilter.idl (idxOf exWorld exCfg) noRep 5).kind = .thres := by decide +kernel

/-- the representation matters to `below_threshold` only: an empty *compressed* candidate set takes
the threshold return even at threshold 0, an empty sparse one does not (both are sound) -/
example :
    (((F.and [.pres 0 (some 1), .lessThan 1 (.num 7) (some 1), .andnot (.pres 0 (some 1)) none,
        .andnot (.pres 1 (some 1)) none] none).idl (idxOf exWorld (fun _ _ => true)) allRep 0).kind,
     ((F.and [.pres 0 (some 1), .lessThan 1 (.num 7) (some 1), .andnot (.pres 0 (some 1)) none,
        .andnot (.pres 1 (some 1)) none] none).idl (idxOf exWorld (fun _ _ => true)) noRep 0).kind)
      = (.thres, .part) := by
  decide +kernel

/-- the same filter before resolution; resolved against "everything indexed with slope 1" and
against "nothing indexed" it is rewritten differently, yet both searches return the same list -/
def exFC : FC :=
  .and [.or [.cnt 0 (.str [97, 98]), .eq 0 (.str [120])], .lessThan 1 (.num 7),
        .andnot (.eq 0 (.str [97, 98]))]

example :
    ((exFC.resolveIdx ⟨8, 9⟩ (.num 0) (fun _ _ => some 1)).map (fun g =>
        searchT 0 ValSem.std ⟨true, 10, 10⟩ exWorld (idxOf exWorld (fun _ _ => true)) noRep
          (g.optimise sortAsc sortDesc)),
     (exFC.resolveIdx ⟨8, 9⟩ (.num 0) (fun _ _ => none)).map (fun g =>
        searchT 3 ValSem.std ⟨true, 10, 10⟩ exWorld (idxOf exWorld (fun _ _ => false)) allRep
          (g.optimise sortAsc sortDesc)))
      = (some (.ok [1]), some (.ok [1])) := by
  decide +kernel

end Kanidm.Filter
