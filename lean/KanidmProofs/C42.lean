import KanidmProofs.Lemmas.ScimFilter
/-!
# C42 — SCIM filter text round-trips and honours precedence

Property theorems only (helper lemmas: `Lemmas/ScimFilter.lean`).  `printF`/`printC` transcribe
`Display for ScimFilter / ScimComplexFilter / AttrPath` (and `serde_json`'s `Display` for scalar
values), `parse`/`parseComplex` transcribe the `peg` grammar `scimfilter` including the code
`precedence!{}` expands to; keywords, operator tables and `SCIM_FILTER_MAX_DEPTH` are regenerated
from `proto/src/scim_v1/mod.rs` on every run (`Kanidm.Gen.ScimFilter`).
-/
namespace Kanidm.ScimFilter
open Kanidm.Gen.ScimFilter

/-- attribute / sub-attribute names are SCIM names (what `rule attrstring()` accepts), number
values are JSON number tokens; strings are arbitrary sequences of Unicode scalar values. -/
def WfFilter (f : Filter) : Prop := wfT wfFLeaf f
def WfComplex (c : CFilter) : Prop := wfT wfCLeaf c

/-- nesting of the printed form: the least `d` for which `parse_depth(d)` accepts it
(each pair of parentheses, each `not (`, each `attr[` costs one level). -/
def nesting (f : Filter) : Nat := needT needF f + 1
def nestingC (c : CFilter) : Nat := needT (fun _ => 1) c + 1

/-- Round trip, at every depth limit: the printed form of a well-formed filter parses back to
the same filter whenever its nesting is within the limit. -/
theorem parseDepth_print (f : Filter) (hf : WfFilter f) (d : Nat) (hd : nesting f ≤ d) :
    parseDepth d (printF f) = some f := by
  unfold nesting at hd
  have hfuel := fuelF_le f
  have hd0 : d ≠ 0 := by omega
  unfold parseDepth
  simp only [hd0, if_false]
  obtain ⟨g, hg⟩ : ∃ g, fuelFor (printF f) = g + 2 := ⟨fuelFor (printF f) - 2, by unfold fuelFor; omega⟩
  have ha := atomF_print f hf (g + 1) (d - 1) [] (by unfold fuelFor at hg; omega) (by omega)
  rw [List.append_nil] at ha
  rw [hg]
  rw [infixP_of_atom fKwG fLeafP ha, loop_stop fKwG fLeafP _ _ _ _ (by simp [seps1])]

/-- **Round trip** (`ScimFilter`): `parse (print f) = f` for every well-formed filter of any
size whose printed nesting is within `SCIM_FILTER_MAX_DEPTH`. -/
theorem parse_print (f : Filter) (hf : WfFilter f) (hd : nesting f ≤ maxDepth) :
    parse (printF f) = some f :=
  parseDepth_print f hf maxDepth hd

/-- **Round trip** (`ScimComplexFilter`). -/
theorem parseComplex_print (c : CFilter) (hc : WfComplex c) (hd : nestingC c ≤ maxDepth) :
    parseComplex (printC c) = some c := by
  unfold nestingC at hd
  have hfuel := fuelC_le c
  have hd0 : maxDepth ≠ 0 := by omega
  unfold parseComplex parseCDepth
  simp only [hd0, if_false]
  obtain ⟨g, hg⟩ : ∃ g, fuelFor (printC c) = g + 2 := ⟨fuelFor (printC c) - 2, by unfold fuelFor; omega⟩
  have ha := atomC_print c hc (g + 1) (maxDepth - 1) [] (by unfold fuelFor at hg; omega) (by omega)
  rw [List.append_nil] at ha
  rw [hg]
  rw [infixP_of_atom cKwG cLeafP ha, loop_stop cKwG cLeafP _ _ _ _ (by simp [seps1])]

/-- **Depth limit**: text that opens more parentheses in a row than the limit allows is
rejected, whatever follows. -/
theorem depth_limit_rejects (s : Str) (h : maxDepth ≤ leadingParens s) : parse s = none := by
  unfold parse parseDepth
  split
  · rfl
  · next hd =>
    obtain ⟨g, hg⟩ : ∃ g, fuelFor s = g + 1 := ⟨fuelFor s - 1, by unfold fuelFor; omega⟩
    have hnone : atom fKwG fLeafP g (maxDepth - 1) s = none :=
      atom_deep_none fKwG fLeafP fKwOk.not_paren fLeafP_paren _ _ _ (by omega)
    rw [hg, infixP_succ, hnone]

/-- the limit is a limit on the *argument* as well: `parse_depth(0)` accepts nothing. -/
theorem parseDepth_zero (s : Str) : parseDepth 0 s = none := by simp [parseDepth]

/-! ## Precedence and associativity

Operands are printed filters (so: parenthesised groups, comparisons, `attr[…]`); the separators
are arbitrary `separator()+` runs.  `opText a w1 kw w2 b` is `a w1 kw w2 b`. -/

def opText (x w1 kw w2 y : Str) : Str := x ++ (w1 ++ (kw ++ (w2 ++ y)))

/-- an operand followed by the end of input or by something that is not a separator run:
`__infix_parse` returns it unchanged, at every `min_prec`. -/
theorem operand_alone (c : Filter) (hc : WfFilter c) (g m p : Nat) (hf : fuelT fuelF c ≤ g) (hm : needT needF c ≤ m) :
    infixP fKwG fLeafP (g + 2) m p (printF c) = some (c, []) := by
  have ha := atomF_print c hc (g + 1) m [] (by omega) hm
  rw [List.append_nil] at ha
  rw [infixP_of_atom fKwG fLeafP ha, loop_stop fKwG fLeafP _ _ _ _ (by simp [seps1])]

private theorem parse_of_infixP {s : Str} {t : Filter} (g : Nat) (hg : fuelFor s = g)
    (h : infixP fKwG fLeafP g (maxDepth - 1) 0 s = some (t, [])) (hd : maxDepth ≠ 0) : parse s = some t := by
  unfold parse parseDepth
  simp only [hd, if_false, hg, h]

theorem printF_head (f : Filter) (hf : WfFilter f) (s : Str) : HeadNot isSep (printF f ++ s) :=
  printTree_head fLeafOk f hf s

/-- **AND binds tighter than OR**: `a or b and c` is `Or a (And b c)`. -/
theorem and_tighter_than_or (a b c : Filter) (ha : WfFilter a) (hb : WfFilter b) (hc : WfFilter c)
    (da : nesting a ≤ maxDepth) (db : nesting b ≤ maxDepth) (dc : nesting c ≤ maxDepth)
    (w1 w2 w3 w4 : Str) (h1 : IsSepRun w1) (h2 : IsSepRun w2) (h3 : IsSepRun w3) (h4 : IsSepRun w4) :
    parse (opText (printF a) w1 gramOr w2 (opText (printF b) w3 gramAnd w4 (printF c)))
      = some (.or a (.and b c)) := by
  unfold nesting at da db dc
  have fa := fuelF_le a
  have fb := fuelF_le b
  have fc := fuelF_le c
  have hlen : (opText (printF a) w1 gramOr w2 (opText (printF b) w3 gramAnd w4 (printF c))).length
      ≥ (printF a).length + (printF b).length + (printF c).length := by
    simp only [opText, List.length_append]; omega
  obtain ⟨g, hg⟩ : ∃ g, fuelFor (opText (printF a) w1 gramOr w2 (opText (printF b) w3 gramAnd w4 (printF c))) = g + 6 :=
    ⟨fuelFor (opText (printF a) w1 gramOr w2 (opText (printF b) w3 gramAnd w4 (printF c))) - 6, by unfold fuelFor; omega⟩
  have hgf : fuelT fuelF a ≤ g ∧ fuelT fuelF b ≤ g ∧ fuelT fuelF c ≤ g := by
    unfold fuelFor at hg; omega
  refine parse_of_infixP _ hg ?_ (by omega)
  unfold opText
  have hA := atomF_print a ha (g + 5) (maxDepth - 1) (w1 ++ (gramOr ++ (w2 ++ (printF b ++ (w3 ++ (gramAnd ++ (w4 ++ printF c)))))))
    (by omega) (by omega)
  rw [infixP_of_atom fKwG fLeafP hA]
  have hB := atomF_print b hb (g + 3) (maxDepth - 1) (w3 ++ (gramAnd ++ (w4 ++ printF c))) (by omega) (by omega)
  have hC := operand_alone c hc g (maxDepth - 1) 2 (by omega) (by omega)
  have hcHead : HeadNot isSep (printF c) := by
    have := printF_head c hc []; rwa [List.append_nil] at this
  have hand : infixOp fKwG.and_ (infixP fKwG fLeafP (g + 2) (maxDepth - 1) 2) (w3 ++ (gramAnd ++ (w4 ++ printF c)))
      = some (c, []) := by
    rw [show fKwG.and_ = gramAnd from rfl, infixOp_run (fun _ => headNot_cons _ (by decide)) h3 h4 _ hcHead, hC]
  have hrhs : infixP fKwG fLeafP (g + 4) (maxDepth - 1) 1 (printF b ++ (w3 ++ (gramAnd ++ (w4 ++ printF c))))
      = some (.and b c, []) := by
    rw [infixP_of_atom fKwG fLeafP hB, loop_and fKwG fLeafP (by omega) (by omega) hand,
      loop_stop fKwG fLeafP _ _ _ _ (by simp [seps1])]
  have hor : infixOp fKwG.or_ (infixP fKwG fLeafP (g + 4) (maxDepth - 1) 1)
      (w1 ++ (gramOr ++ (w2 ++ (printF b ++ (w3 ++ (gramAnd ++ (w4 ++ printF c))))))) = some (.and b c, []) := by
    rw [show fKwG.or_ = gramOr from rfl, infixOp_run (fun _ => headNot_cons _ (by decide)) h1 h2 _ (printF_head b hb _), hrhs]
  rw [loop_or fKwG fLeafP hor, loop_stop fKwG fLeafP _ _ _ _ (by simp [seps1])]

private theorem gramOr_head (s : Str) : HeadNot isSep (gramOr ++ s) := headNot_cons _ (by decide)
private theorem gramAnd_head (s : Str) : HeadNot isSep (gramAnd ++ s) := headNot_cons _ (by decide)
private theorem lit_or_and (s : Str) : lit gramOr (gramAnd ++ s) = none := by simp [gramOr, gramAnd, lit]
private theorem lit_and_or (s : Str) : lit gramAnd (gramOr ++ s) = none := by simp [gramOr, gramAnd, lit]

/-- an operand followed by text on which the operator loop stops at this `min_prec`. -/
private theorem operand_then (b : Filter) (hb : WfFilter b) (g m p : Nat) (rest : Str)
    (hf : fuelT fuelF b ≤ g) (hm : needT needF b ≤ m)
    (hor : p = 0 → infixOp fKwG.or_ (infixP fKwG fLeafP g m 1) rest = none)
    (hand : p ≤ 1 → infixOp fKwG.and_ (infixP fKwG fLeafP g m 2) rest = none) :
    infixP fKwG fLeafP (g + 2) m p (printF b ++ rest) = some (b, rest) := by
  rw [infixP_of_atom fKwG fLeafP (atomF_print b hb (g + 1) m rest (by omega) hm), loop_none fKwG fLeafP hor hand]

private theorem three_setup (a b c : Filter) (k1 k2 w1 w2 w3 w4 : Str) :
    ∃ g, fuelFor (opText (printF a) w1 k1 w2 (opText (printF b) w3 k2 w4 (printF c))) = g + 6 ∧
      fuelT fuelF a ≤ g ∧ fuelT fuelF b ≤ g ∧ fuelT fuelF c ≤ g := by
  have fa := fuelF_le a
  have fb := fuelF_le b
  have fc := fuelF_le c
  have hlen : (opText (printF a) w1 k1 w2 (opText (printF b) w3 k2 w4 (printF c))).length
      ≥ (printF a).length + (printF b).length + (printF c).length := by
    simp only [opText, List.length_append]; omega
  refine ⟨fuelFor (opText (printF a) w1 k1 w2 (opText (printF b) w3 k2 w4 (printF c))) - 6, ?_, ?_, ?_, ?_⟩ <;>
    (unfold fuelFor; omega)

/-- `a and b or c` is `Or (And a b) c`. -/
theorem and_then_or (a b c : Filter) (ha : WfFilter a) (hb : WfFilter b) (hc : WfFilter c)
    (da : nesting a ≤ maxDepth) (db : nesting b ≤ maxDepth) (dc : nesting c ≤ maxDepth)
    (w1 w2 w3 w4 : Str) (h1 : IsSepRun w1) (h2 : IsSepRun w2) (h3 : IsSepRun w3) (h4 : IsSepRun w4) :
    parse (opText (printF a) w1 gramAnd w2 (opText (printF b) w3 gramOr w4 (printF c)))
      = some (.or (.and a b) c) := by
  unfold nesting at da db dc
  obtain ⟨g, hg, fa, fb, fc⟩ := three_setup a b c gramAnd gramOr w1 w2 w3 w4
  refine parse_of_infixP _ hg ?_ (by omega)
  unfold opText
  have hcHead : HeadNot isSep (printF c) := by
    have := printF_head c hc []; rwa [List.append_nil] at this
  rw [infixP_of_atom fKwG fLeafP (atomF_print a ha (g + 5) (maxDepth - 1) _ (by omega) (by omega))]
  have hB : infixP fKwG fLeafP (g + 4) (maxDepth - 1) 2 (printF b ++ (w3 ++ (gramOr ++ (w4 ++ printF c))))
      = some (b, w3 ++ (gramOr ++ (w4 ++ printF c))) :=
    operand_then b hb (g + 2) _ 2 _ (by omega) (by omega) (by omega) (by omega)
  have hand : infixOp fKwG.and_ (infixP fKwG fLeafP (g + 4) (maxDepth - 1) 2)
      (w1 ++ (gramAnd ++ (w2 ++ (printF b ++ (w3 ++ (gramOr ++ (w4 ++ printF c)))))))
      = some (b, w3 ++ (gramOr ++ (w4 ++ printF c))) := by
    rw [show fKwG.and_ = gramAnd from rfl, infixOp_run gramAnd_head h1 h2 _ (printF_head b hb _), hB]
  have hor0 : infixOp fKwG.or_ (infixP fKwG fLeafP (g + 4) (maxDepth - 1) 1)
      (w1 ++ (gramAnd ++ (w2 ++ (printF b ++ (w3 ++ (gramOr ++ (w4 ++ printF c))))))) = none :=
    infixOp_run_other gramAnd_head lit_or_and h1 _ _
  rw [loop_and fKwG fLeafP (by omega) (fun _ => hor0) hand]
  have hor : infixOp fKwG.or_ (infixP fKwG fLeafP (g + 3) (maxDepth - 1) 1) (w3 ++ (gramOr ++ (w4 ++ printF c)))
      = some (c, []) := by
    rw [show fKwG.or_ = gramOr from rfl, infixOp_run gramOr_head h3 h4 _ hcHead,
      operand_alone c hc (g + 1) _ 1 (by omega) (by omega)]
  rw [loop_or fKwG fLeafP hor, loop_stop fKwG fLeafP _ _ _ _ (by simp [seps1])]

/-- **`or` associates to the left**: `a or b or c` is `Or (Or a b) c`. -/
theorem or_left_assoc (a b c : Filter) (ha : WfFilter a) (hb : WfFilter b) (hc : WfFilter c)
    (da : nesting a ≤ maxDepth) (db : nesting b ≤ maxDepth) (dc : nesting c ≤ maxDepth)
    (w1 w2 w3 w4 : Str) (h1 : IsSepRun w1) (h2 : IsSepRun w2) (h3 : IsSepRun w3) (h4 : IsSepRun w4) :
    parse (opText (printF a) w1 gramOr w2 (opText (printF b) w3 gramOr w4 (printF c)))
      = some (.or (.or a b) c) := by
  unfold nesting at da db dc
  obtain ⟨g, hg, fa, fb, fc⟩ := three_setup a b c gramOr gramOr w1 w2 w3 w4
  refine parse_of_infixP _ hg ?_ (by omega)
  unfold opText
  have hcHead : HeadNot isSep (printF c) := by
    have := printF_head c hc []; rwa [List.append_nil] at this
  rw [infixP_of_atom fKwG fLeafP (atomF_print a ha (g + 5) (maxDepth - 1) _ (by omega) (by omega))]
  have hB : infixP fKwG fLeafP (g + 4) (maxDepth - 1) 1 (printF b ++ (w3 ++ (gramOr ++ (w4 ++ printF c))))
      = some (b, w3 ++ (gramOr ++ (w4 ++ printF c))) :=
    operand_then b hb (g + 2) _ 1 _ (by omega) (by omega) (by omega)
      (fun _ => infixOp_run_other gramOr_head lit_and_or h3 _ _)
  have hor1 : infixOp fKwG.or_ (infixP fKwG fLeafP (g + 4) (maxDepth - 1) 1)
      (w1 ++ (gramOr ++ (w2 ++ (printF b ++ (w3 ++ (gramOr ++ (w4 ++ printF c)))))))
      = some (b, w3 ++ (gramOr ++ (w4 ++ printF c))) := by
    rw [show fKwG.or_ = gramOr from rfl, infixOp_run gramOr_head h1 h2 _ (printF_head b hb _), hB]
  rw [loop_or fKwG fLeafP hor1]
  have hor2 : infixOp fKwG.or_ (infixP fKwG fLeafP (g + 3) (maxDepth - 1) 1) (w3 ++ (gramOr ++ (w4 ++ printF c)))
      = some (c, []) := by
    rw [show fKwG.or_ = gramOr from rfl, infixOp_run gramOr_head h3 h4 _ hcHead,
      operand_alone c hc (g + 1) _ 1 (by omega) (by omega)]
  rw [loop_or fKwG fLeafP hor2, loop_stop fKwG fLeafP _ _ _ _ (by simp [seps1])]

/-- **`and` associates to the left**: `a and b and c` is `And (And a b) c`. -/
theorem and_left_assoc (a b c : Filter) (ha : WfFilter a) (hb : WfFilter b) (hc : WfFilter c)
    (da : nesting a ≤ maxDepth) (db : nesting b ≤ maxDepth) (dc : nesting c ≤ maxDepth)
    (w1 w2 w3 w4 : Str) (h1 : IsSepRun w1) (h2 : IsSepRun w2) (h3 : IsSepRun w3) (h4 : IsSepRun w4) :
    parse (opText (printF a) w1 gramAnd w2 (opText (printF b) w3 gramAnd w4 (printF c)))
      = some (.and (.and a b) c) := by
  unfold nesting at da db dc
  obtain ⟨g, hg, fa, fb, fc⟩ := three_setup a b c gramAnd gramAnd w1 w2 w3 w4
  refine parse_of_infixP _ hg ?_ (by omega)
  unfold opText
  have hcHead : HeadNot isSep (printF c) := by
    have := printF_head c hc []; rwa [List.append_nil] at this
  rw [infixP_of_atom fKwG fLeafP (atomF_print a ha (g + 5) (maxDepth - 1) _ (by omega) (by omega))]
  have hB : infixP fKwG fLeafP (g + 4) (maxDepth - 1) 2 (printF b ++ (w3 ++ (gramAnd ++ (w4 ++ printF c))))
      = some (b, w3 ++ (gramAnd ++ (w4 ++ printF c))) :=
    operand_then b hb (g + 2) _ 2 _ (by omega) (by omega) (by omega) (by omega)
  have hand1 : infixOp fKwG.and_ (infixP fKwG fLeafP (g + 4) (maxDepth - 1) 2)
      (w1 ++ (gramAnd ++ (w2 ++ (printF b ++ (w3 ++ (gramAnd ++ (w4 ++ printF c)))))))
      = some (b, w3 ++ (gramAnd ++ (w4 ++ printF c))) := by
    rw [show fKwG.and_ = gramAnd from rfl, infixOp_run gramAnd_head h1 h2 _ (printF_head b hb _), hB]
  rw [loop_and fKwG fLeafP (by omega) (fun _ => infixOp_run_other gramAnd_head lit_or_and h1 _ _) hand1]
  have hand2 : infixOp fKwG.and_ (infixP fKwG fLeafP (g + 3) (maxDepth - 1) 2) (w3 ++ (gramAnd ++ (w4 ++ printF c)))
      = some (c, []) := by
    rw [show fKwG.and_ = gramAnd from rfl, infixOp_run gramAnd_head h3 h4 _ hcHead,
      operand_alone c hc (g + 1) _ 2 (by omega) (by omega)]
  rw [loop_and fKwG fLeafP (by omega) (fun _ => infixOp_run_other gramAnd_head lit_or_and h3 _ _) hand2,
    loop_stop fKwG fLeafP _ _ _ _ (by simp [seps1])]

/-! ## The hypotheses are satisfiable by non-trivial filters -/

/-- `(((mail.value eq "a \"b\" or c") and (not ((x-y_1 pr)))) or emails[((type ne null) and (primary eq true))])` -/
def exFilter : Filter :=
  .or
    (.and (.leaf (.cmp .Equal ⟨"mail".toList, some "value".toList⟩ (.str "a \"b\" or c".toList)))
          (.not (.leaf (.pres ⟨"x-y_1".toList, none⟩))))
    (.leaf (.complex "emails".toList
      (.and (.leaf (.cmp .NotEqual "type".toList .null)) (.leaf (.cmp .Equal "primary".toList (.bool true))))))

def exNum : Filter := .leaf (.cmp .GreaterOrEqual ⟨"gidnumber".toList, none⟩ (.num "-12.5e+3".toList))

theorem exFilter_wf : WfFilter exFilter ∧ nesting exFilter ≤ maxDepth := by
  refine ⟨?_, by decide⟩
  simp only [WfFilter, exFilter, wfT, wfFLeaf, wfCLeaf, validPath, wfVal]
  decide

theorem exNum_wf : WfFilter exNum ∧ nesting exNum ≤ maxDepth := by
  refine ⟨?_, by decide⟩
  simp only [WfFilter, exNum, wfT, wfFLeaf, validPath, wfVal]
  decide

example : parse (printF exFilter) = some exFilter := parse_print exFilter exFilter_wf.1 exFilter_wf.2
example : parse (printF exNum) = some exNum := parse_print exNum exNum_wf.1 exNum_wf.2
example : String.ofList (printF exFilter) =
    "(((mail.value eq \"a \\\"b\\\" or c\") and (not ((x-y_1 pr)))) or emails[((type ne null) and (primary eq true))])" := by
  decide
example : IsSepRun " \n\t".toList := by refine ⟨by decide, by decide⟩
example :
    parse (opText (printF exNum) " ".toList gramOr "\n".toList (opText (printF exFilter) "\t ".toList gramAnd " ".toList (printF exNum)))
      = some (.or exNum (.and exFilter exNum)) :=
  and_tighter_than_or exNum exFilter exNum exNum_wf.1 exFilter_wf.1 exNum_wf.1 exNum_wf.2 exFilter_wf.2 exNum_wf.2
    _ _ _ _ ⟨by decide, by decide⟩ ⟨by decide, by decide⟩ ⟨by decide, by decide⟩ ⟨by decide, by decide⟩
theorem leadingParens_replicate (n : Nat) (s : Str) : n ≤ leadingParens (List.replicate n '(' ++ s) := by
  induction n with
  | zero => exact Nat.zero_le _
  | succ n ih => simp only [List.replicate_succ, List.cons_append, leadingParens]; omega

/-- `maxDepth` opening parentheses around anything at all are rejected … -/
example (s : Str) : parse (List.replicate maxDepth '(' ++ s) = none :=
  depth_limit_rejects _ (leadingParens_replicate _ _)

end Kanidm.ScimFilter
