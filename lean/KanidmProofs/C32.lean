import KanidmProofs.Lemmas.Bearer
import KanidmProofs.Lemmas.BearerHistory
/-!
# C32 — Bearer tokens are accepted only for live sessions

Property theorems only (helpers: `Lemmas/Bearer.lean`, `Lemmas/BearerHistory.lean`).  `validate`
is the transcription of `validate_client_auth_info_to_ident` for a bearer token; every
comparison operator, the grace constant and the session/expiry match arms inside it are
regenerated from the source on every run, while the right-hand sides below are written in plain
arithmetic from the property text (`KeyOk`, `InWindow`, `SessionLive`, `Recorded`, `InGrace` with
the literal 300 s).  A changed operator or constant therefore breaks a proof here.

One place where the code accepts more than the property text allows is stated as a `…_full`
proposition and refuted (`…_full_false`): anonymous tokens never have a session record (known
finding D29).
-/
namespace Kanidm.Bearer
open Kanidm.Gen.Bearer

/-! ## Decision tables -/

/-- Login token (UAT): accepted exactly when signed by a known non-revoked key, `ct < expiry`,
the account exists inside its validity window, and — unless it is the anonymous account — the
session is recorded live with a matching expiry, or is not recorded at all and the grace window
has not passed.  The identity returned is the token's own. -/
theorem uat_accepted_iff (w : World) (k : Nat) (sig : Bool) (a s iat : Nat) (exp : Option Nat)
    (ct a' s' : Nat) :
    validate w ⟨k, sig, .uat a s iat exp⟩ ct = .ident a' s' ↔
      a' = a ∧ s' = s ∧ KeyOk w k ∧ sig = true ∧ (∀ e, exp = some e → ct < e) ∧
      ∃ acc, w.accounts a = some acc ∧ InWindow acc ct ∧
        (a = anonymous ∨
          (a ≠ anonymous ∧ (Recorded acc s exp ∨ (acc.sessions s = none ∧ InGrace iat ct)))) := by
  unfold validate parseToken
  by_cases hv : jwsVerify w ⟨k, sig, .uat a s iat exp⟩ = true
  · have hk := (jwsVerify_iff w _).mp hv
    simp only [hv, Bool.not_true, Bool.false_eq_true, if_false]
    have key : ∀ (hexp : ∀ e, exp = some e → ct < e),
        (processUat w ct a s iat exp = .ident a' s' ↔
          a' = a ∧ s' = s ∧ KeyOk w k ∧ sig = true ∧ (∀ e, exp = some e → ct < e) ∧
          ∃ acc, w.accounts a = some acc ∧ InWindow acc ct ∧
            (a = anonymous ∨
              (a ≠ anonymous ∧ (Recorded acc s exp ∨ (acc.sessions s = none ∧ InGrace iat ct))))) := by
      intro hexp
      unfold processUat
      cases hacc : w.accounts a with
      | none => simp
      | some acc =>
        by_cases hc : checkUat ct a s iat exp acc = true
        · have := (checkUat_iff ct a s iat exp acc).mp hc
          simp only [hc, if_true, Reply.ident.injEq]
          constructor
          · rintro ⟨rfl, rfl⟩
            exact ⟨rfl, rfl, hk.1, hk.2, hexp, acc, rfl, this.1, this.2⟩
          · rintro ⟨rfl, rfl, _⟩; exact ⟨rfl, rfl⟩
        · have hn : ¬ (InWindow acc ct ∧ (a = anonymous ∨ (a ≠ anonymous ∧
              (Recorded acc s exp ∨ (acc.sessions s = none ∧ InGrace iat ct))))) :=
            fun h => hc ((checkUat_iff ct a s iat exp acc).mpr h)
          simp only [hc, Bool.false_eq_true, if_false]
          constructor
          · intro h; cases h
          · rintro ⟨_, _, _, _, _, acc', hacc', h1, h2⟩
            cases hacc'
            exact absurd ⟨h1, h2⟩ hn
    cases exp with
    | none => exact key (by intro e h; cases h)
    | some e =>
      by_cases he : uatExpired e ct = true
      · have : e ≤ ct := by simpa [uatExpired] using he
        simp only [he, if_true]
        constructor
        · intro h; cases h
        · rintro ⟨_, _, _, _, h, _⟩
          have := h e rfl
          omega
      · have hle : ct < e := by
          have : ¬ e ≤ ct := by simpa [uatExpired] using he
          omega
        simp only [he, Bool.false_eq_true, if_false]
        exact key (by intro e' h; cases h; exact hle)
  · have hk : ¬ (KeyOk w k ∧ sig = true) := fun h => hv ((jwsVerify_iff w _).mpr h)
    simp only [hv, Bool.not_false, if_true]
    constructor
    · intro h; cases h
    · rintro ⟨_, _, h1, h2, _⟩; exact absurd ⟨h1, h2⟩ hk

/-- Legacy (JSON) api token: accepted exactly when signed by a known non-revoked key,
`ct < expiry`, the account exists inside its validity window, and the token's own record is
present on the account — or absent while the grace window has not passed. -/
theorem apit_accepted_iff (w : World) (k : Nat) (sig : Bool) (a tid iat : Nat) (exp : Option Nat)
    (ct a' s' : Nat) :
    validate w ⟨k, sig, .apit a tid iat exp⟩ ct = .ident a' s' ↔
      a' = a ∧ s' = tid ∧ KeyOk w k ∧ sig = true ∧ (∀ e, exp = some e → ct < e) ∧
      ∃ acc, w.accounts a = some acc ∧ InWindow acc ct ∧
        ((acc.apiTokens tid).isSome = true ∨ (acc.apiTokens tid = none ∧ InGrace iat ct)) := by
  unfold validate parseToken
  by_cases hv : jwsVerify w ⟨k, sig, .apit a tid iat exp⟩ = true
  · have hk := (jwsVerify_iff w _).mp hv
    simp only [hv, Bool.not_true, Bool.false_eq_true, if_false]
    have key : ∀ (hexp : ∀ e, exp = some e → ct < e),
        ((match (match w.accounts a with
            | none => Parsed.err .notAuthenticated
            | some _ => Parsed.api a tid iat) with
          | .uat uuid sid iat exp => processUat w ct uuid sid iat exp
          | .api a tid iat => processApit w ct a tid iat
          | .err r => r) = .ident a' s' ↔
          a' = a ∧ s' = tid ∧ KeyOk w k ∧ sig = true ∧ (∀ e, exp = some e → ct < e) ∧
          ∃ acc, w.accounts a = some acc ∧ InWindow acc ct ∧
            ((acc.apiTokens tid).isSome = true ∨ (acc.apiTokens tid = none ∧ InGrace iat ct))) := by
      intro hexp
      cases hacc : w.accounts a with
      | none => simp
      | some acc =>
        simp only [processApit, hacc]
        by_cases hc : checkApit ct tid iat acc = true
        · have := (checkApit_iff ct tid iat acc).mp hc
          simp only [hc, if_true, Reply.ident.injEq]
          constructor
          · rintro ⟨rfl, rfl⟩
            exact ⟨rfl, rfl, hk.1, hk.2, hexp, acc, rfl, this.1, this.2⟩
          · rintro ⟨rfl, rfl, _⟩; exact ⟨rfl, rfl⟩
        · have hn := fun h => hc ((checkApit_iff ct tid iat acc).mpr h)
          simp only [hc, Bool.false_eq_true, if_false]
          constructor
          · intro h; cases h
          · rintro ⟨_, _, _, _, _, acc', hacc', h1, h2⟩
            cases hacc'
            exact absurd ⟨h1, h2⟩ hn
    cases exp with
    | none =>
      simp only [Bool.false_eq_true, if_false]
      exact key (by intro e h; cases h)
    | some e =>
      by_cases he : apitExpired ct e = true
      · have : e ≤ ct := by simpa [apitExpired] using he
        simp only [he, if_true]
        constructor
        · intro h; cases h
        · rintro ⟨_, _, _, _, h, _⟩
          have := h e rfl
          omega
      · have hlt : ct < e := by
          have : ¬ e ≤ ct := by simpa [apitExpired] using he
          omega
        simp only [he, Bool.false_eq_true, if_false]
        exact key (by intro e' h; cases h; exact hlt)
  · have hk : ¬ (KeyOk w k ∧ sig = true) := fun h => hv ((jwsVerify_iff w _).mpr h)
    simp only [hv, Bool.not_false, if_true]
    constructor
    · intro h; cases h
    · rintro ⟨_, _, h1, h2, _⟩; exact absurd ⟨h1, h2⟩ hk

/-- Compact api token (the payload is the session uuid): accepted exactly when signed by a known
non-revoked key and some existing account carries a record for that id which has not expired
(`ct < expiry`), inside the account's validity window.  No grace window: the record itself is
how the token is resolved. -/
theorem apic_accepted_iff (w : World) (k : Nat) (sig : Bool) (sid ct a' s' : Nat) :
    validate w ⟨k, sig, .apic sid⟩ ct = .ident a' s' ↔
      s' = sid ∧ KeyOk w k ∧ sig = true ∧ findApiOwner w sid = some a' ∧
      ∃ acc r, w.accounts a' = some acc ∧ acc.apiTokens sid = some r ∧
        (∀ e, r.expiry = some e → ct < e) ∧ InWindow acc ct := by
  unfold validate parseToken
  by_cases hv : jwsVerify w ⟨k, sig, .apic sid⟩ = true
  · have hk := (jwsVerify_iff w _).mp hv
    simp only [hv, Bool.not_true, Bool.false_eq_true, if_false]
    cases ho : findApiOwner w sid with
    | none => simp
    | some a =>
      simp only
      cases hacc : w.accounts a with
      | none =>
        simp only
        constructor
        · intro h; cases h
        · rintro ⟨_, _, _, h, acc, r, h2, _⟩
          cases h; rw [hacc] at h2; cases h2
      | some acc =>
        simp only
        cases hr : acc.apiTokens sid with
        | none =>
          simp only
          constructor
          · intro h; cases h
          · rintro ⟨_, _, _, h, acc', r, h2, h3, _⟩
            cases h; rw [hacc] at h2; cases h2; rw [hr] at h3; cases h3
        | some r =>
          simp only
          have key : ∀ (hexp : ∀ e, r.expiry = some e → ct < e),
              (processApit w ct a sid r.issuedAt = .ident a' s' ↔
                s' = sid ∧ KeyOk w k ∧ sig = true ∧ some a = some a' ∧
                ∃ acc r, w.accounts a' = some acc ∧ acc.apiTokens sid = some r ∧
                  (∀ e, r.expiry = some e → ct < e) ∧ InWindow acc ct) := by
            intro hexp
            simp only [processApit, hacc]
            have hsome : (acc.apiTokens sid).isSome = true := by simp [hr]
            by_cases hc : checkApit ct sid r.issuedAt acc = true
            · have := (checkApit_iff ct sid r.issuedAt acc).mp hc
              simp only [hc, if_true, Reply.ident.injEq]
              constructor
              · rintro ⟨rfl, rfl⟩
                exact ⟨rfl, hk.1, hk.2, rfl, acc, r, hacc, hr, hexp, this.1⟩
              · rintro ⟨rfl, _, _, h, _⟩; cases h; exact ⟨rfl, rfl⟩
            · have hn := fun h => hc ((checkApit_iff ct sid r.issuedAt acc).mpr h)
              simp only [hc, Bool.false_eq_true, if_false]
              constructor
              · intro h; cases h
              · rintro ⟨_, _, _, h, acc', r', h2, h3, _, h5⟩
                cases h; rw [hacc] at h2; cases h2
                exact absurd ⟨h5, Or.inl hsome⟩ hn
          cases he : r.expiry with
          | none =>
            simp only [Bool.false_eq_true, if_false]
            exact key (by intro e h; rw [he] at h; cases h)
          | some e =>
            by_cases hx : apicExpired ct e = true
            · have h1 : e ≤ ct := by simpa [apicExpired] using hx
              simp only [hx, if_true]
              constructor
              · intro h; cases h
              · rintro ⟨_, _, _, h, acc', r', h2, h3, h4, _⟩
                cases h; rw [hacc] at h2; cases h2; rw [hr] at h3; cases h3
                have := h4 e he
                omega
            · have hlt : ct < e := by
                have : ¬ e ≤ ct := by simpa [apicExpired] using hx
                omega
              simp only [hx, Bool.false_eq_true, if_false]
              exact key (by intro e' h; rw [he] at h; cases h; exact hlt)
  · have hk : ¬ (KeyOk w k ∧ sig = true) := fun h => hv ((jwsVerify_iff w _).mpr h)
    simp only [hv, Bool.not_false, if_true]
    constructor
    · intro h; cases h
    · rintro ⟨_, h1, h2, _⟩; exact absurd ⟨h1, h2⟩ hk

/-- A verified payload that is none of the three token shapes is never accepted. -/
theorem other_rejected (w : World) (k : Nat) (sig : Bool) (ct : Nat) :
    validate w ⟨k, sig, .other⟩ ct = .notAuthenticated := by
  unfold validate parseToken
  by_cases hv : jwsVerify w ⟨k, sig, .other⟩ = true <;> simp [hv]

/-! ## The property -/

/-- The property's "only if" side for a token `t` answered with identity `(a, s)` at `ct`: signed
by a known, non-revoked key; the account exists inside its validity window; the identity is the
token's own; the token has not expired; and — apart from the grace window — the session is recorded
on the account (login: live with matching expiry; api: the token's own record).  The last disjunct
of the login case is the anonymous exemption the code makes (known finding D29). -/
def AcceptedOnlyIf (w : World) (t : Token) (ct a s : Nat) : Prop :=
  KeyOk w t.kid ∧ t.sigok = true ∧
  ∃ acc, w.accounts a = some acc ∧ InWindow acc ct ∧
    match t.payload with
    | .uat u sid iat exp =>
      a = u ∧ s = sid ∧ (∀ e, exp = some e → ct < e) ∧
        (InGrace iat ct ∨ Recorded acc sid exp ∨ u = anonymous)
    | .apit u tid iat exp =>
      a = u ∧ s = tid ∧ (∀ e, exp = some e → ct < e) ∧
        (InGrace iat ct ∨ (acc.apiTokens tid).isSome = true)
    | .apic sid =>
      s = sid ∧ ∃ r, acc.apiTokens sid = some r ∧ (∀ e, r.expiry = some e → ct < e)
    | .other => False

/-- **C32.** Whatever the state of the server, a bearer token that is answered with an identity
satisfies every clause of the property. -/
theorem accepted_only_live (w : World) (t : Token) (ct a s : Nat)
    (h : validate w t ct = .ident a s) : AcceptedOnlyIf w t ct a s := by
  obtain ⟨k, sig, p⟩ := t
  cases p with
  | uat u sid iat exp =>
    obtain ⟨rfl, rfl, hk, hs, he, acc, hacc, hw, hrest⟩ := (uat_accepted_iff w k sig u sid iat exp ct a s).mp h
    refine ⟨hk, hs, acc, hacc, hw, rfl, rfl, he, ?_⟩
    rcases hrest with ha | ⟨_, hr | ⟨_, hg⟩⟩
    · exact Or.inr (Or.inr ha)
    · exact Or.inr (Or.inl hr)
    · exact Or.inl hg
  | apit u tid iat exp =>
    obtain ⟨rfl, rfl, hk, hs, he, acc, hacc, hw, hrest⟩ := (apit_accepted_iff w k sig u tid iat exp ct a s).mp h
    refine ⟨hk, hs, acc, hacc, hw, rfl, rfl, he, ?_⟩
    rcases hrest with hp | ⟨_, hg⟩
    · exact Or.inr hp
    · exact Or.inl hg
  | apic sid =>
    obtain ⟨rfl, hk, hs, _, acc, r, hacc, hr, he, hw⟩ := (apic_accepted_iff w k sig sid ct a s).mp h
    exact ⟨hk, hs, acc, hacc, hw, rfl, r, hr, he⟩
  | other => rw [other_rejected] at h; cases h

/-- The property text without the anonymous exemption. -/
def accepted_requires_session_full : Prop :=
  ∀ (w : World) (k : Nat) (sig : Bool) (u sid iat : Nat) (exp : Option Nat) (ct a s : Nat),
    validate w ⟨k, sig, .uat u sid iat exp⟩ ct = .ident a s → ¬ InGrace iat ct →
      ∃ acc, w.accounts a = some acc ∧ Recorded acc sid exp

/-- A history in which it fails: the anonymous account logs in, nothing is ever recorded, and the
token is still accepted an hour later (the harness replays exactly this; finding D29). -/
def anonWorld : World := run World.empty [.addAccount anonymous none, .keyAdd 1]

theorem accepted_requires_session_full_false : ¬ accepted_requires_session_full := by
  intro h
  have hv : validate anonWorld ⟨1, true, .uat anonymous 100 0 (some 86400000000000)⟩ 3600000000000
      = .ident anonymous 100 := by decide
  obtain ⟨acc, hacc, v, hs, _⟩ := h anonWorld 1 true anonymous 100 0 (some 86400000000000)
    3600000000000 anonymous 100 hv (by unfold InGrace; omega)
  have hnone : ∀ acc, anonWorld.accounts anonymous = some acc → acc.sessions 100 = none := by
    intro acc h
    simp [anonWorld, run, step, World.empty, setAccount, anonymous] at h
    subst h; rfl
  rw [hnone acc hacc] at hs
  cases hs

/-- The strongest statement that does hold: for every account other than anonymous. -/
theorem accepted_requires_session_partial (w : World) (k : Nat) (sig : Bool) (u sid iat : Nat)
    (exp : Option Nat) (ct a s : Nat)
    (h : validate w ⟨k, sig, .uat u sid iat exp⟩ ct = .ident a s) (hu : u ≠ anonymous)
    (hg : ¬ InGrace iat ct) :
    ∃ acc, w.accounts a = some acc ∧ Recorded acc sid exp := by
  obtain ⟨rfl, rfl, _, _, _, acc, hacc, _, hrest⟩ := (uat_accepted_iff w k sig u sid iat exp ct a s).mp h
  rcases hrest with ha | ⟨_, hr | ⟨_, hg'⟩⟩
  · exact absurd ha hu
  · exact ⟨acc, hacc, hr⟩
  · exact absurd hg' hg

/-! ## Corollaries (each clause on its own, as a rejection) -/

/-- A token whose key is unknown to the domain or revoked is rejected, whatever else holds. -/
theorem revoked_key_rejected (w : World) (t : Token) (ct : Nat) (h : ¬ KeyOk w t.kid) :
    validate w t ct = .notAuthenticated := by
  have hv : jwsVerify w t = false := by
    cases hj : jwsVerify w t with
    | false => rfl
    | true => exact absurd ((jwsVerify_iff w t).mp hj).1 h
  simp [validate, parseToken, hv]

/-- A token whose signature does not verify is rejected. -/
theorem bad_signature_rejected (w : World) (t : Token) (ct : Nat) (h : t.sigok = false) :
    validate w t ct = .notAuthenticated := by
  have hv : jwsVerify w t = false := by
    cases hj : jwsVerify w t with
    | false => rfl
    | true => have := ((jwsVerify_iff w t).mp hj).2; rw [h] at this; cases this
  simp [validate, parseToken, hv]

/-- A login token at or after its expiry instant is never accepted. -/
theorem expired_rejected (w : World) (k : Nat) (sig : Bool) (u sid iat e ct a s : Nat)
    (h : e ≤ ct) : validate w ⟨k, sig, .uat u sid iat (some e)⟩ ct ≠ .ident a s := by
  intro hv
  have := ((uat_accepted_iff w k sig u sid iat (some e) ct a s).mp hv).2.2.2.2.1 e rfl
  omega

/-- A token for an account that does not exist (never created, or deleted) is never accepted. -/
theorem absent_account_rejected (w : World) (k : Nat) (sig : Bool) (u sid iat : Nat)
    (exp : Option Nat) (ct a s : Nat) (h : w.accounts u = none) :
    validate w ⟨k, sig, .uat u sid iat exp⟩ ct ≠ .ident a s := by
  intro hv
  obtain ⟨_, _, _, _, _, acc, hacc, _⟩ := (uat_accepted_iff w k sig u sid iat exp ct a s).mp hv
  rw [h] at hacc; cases hacc

/-- Outside the account's validity window nothing is accepted. -/
theorem outside_window_rejected (w : World) (t : Token) (ct a s : Nat) (acc : Account)
    (hacc : w.accounts a = some acc) (hw : ¬ InWindow acc ct) : validate w t ct ≠ .ident a s := by
  intro hv
  obtain ⟨_, _, acc', hacc', hw', _⟩ := accepted_only_live w t ct a s hv
  rw [hacc] at hacc'; cases hacc'; exact hw hw'

/-- A revoked session is rejected — even inside the grace window. -/
theorem revoked_session_rejected (w : World) (k : Nat) (sig : Bool) (u sid iat : Nat)
    (exp : Option Nat) (ct a s : Nat) (acc : Account) (c : Nat) (hu : u ≠ anonymous)
    (hacc : w.accounts u = some acc) (hs : acc.sessions sid = some ⟨.revokedAt, c⟩) :
    validate w ⟨k, sig, .uat u sid iat exp⟩ ct ≠ .ident a s := by
  intro hv
  obtain ⟨_, _, _, _, _, acc', hacc', _, hrest⟩ := (uat_accepted_iff w k sig u sid iat exp ct a s).mp hv
  rw [hacc] at hacc'; cases hacc'
  rcases hrest with ha | ⟨_, ⟨v, hv', hl⟩ | ⟨hn, _⟩⟩
  · exact hu ha
  · rw [hs] at hv'; cases hv'
    rcases hl with ⟨e, h1, _⟩ | ⟨h1, _⟩ <;> cases h1
  · rw [hs] at hn; cases hn

/-- A recorded session whose expiry differs from the token's is rejected. -/
theorem mismatched_expiry_rejected (w : World) (k : Nat) (sig : Bool) (u sid iat : Nat)
    (exp : Option Nat) (ct a s : Nat) (acc : Account) (v : Session) (hu : u ≠ anonymous)
    (hacc : w.accounts u = some acc) (hs : acc.sessions sid = some v)
    (hne : v.state ≠ stateOf exp) :
    validate w ⟨k, sig, .uat u sid iat exp⟩ ct ≠ .ident a s := by
  intro hv
  obtain ⟨_, _, _, _, _, acc', hacc', _, hrest⟩ := (uat_accepted_iff w k sig u sid iat exp ct a s).mp hv
  rw [hacc] at hacc'; cases hacc'
  rcases hrest with ha | ⟨_, ⟨v', hv', hl⟩ | ⟨hn, _⟩⟩
  · exact hu ha
  · rw [hs] at hv'; cases hv'
    rcases hl with ⟨e, h1, h2⟩ | ⟨h1, h2⟩
    · subst h2; exact hne h1
    · subst h2; exact hne h1
  · rw [hs] at hn; cases hn

/-- Without a session record a login token is accepted only strictly inside the grace window. -/
theorem no_record_only_in_grace (w : World) (k : Nat) (sig : Bool) (u sid iat : Nat)
    (exp : Option Nat) (ct a s : Nat) (acc : Account) (hu : u ≠ anonymous)
    (hacc : w.accounts u = some acc) (hs : acc.sessions sid = none)
    (hv : validate w ⟨k, sig, .uat u sid iat exp⟩ ct = .ident a s) : ct < iat + 300 * 1000000000 := by
  obtain ⟨_, _, _, _, _, acc', hacc', _, hrest⟩ := (uat_accepted_iff w k sig u sid iat exp ct a s).mp hv
  rw [hacc] at hacc'; cases hacc'
  rcases hrest with ha | ⟨_, ⟨v, hv', _⟩ | ⟨_, hg⟩⟩
  · exact absurd ha hu
  · rw [hs] at hv'; cases hv'
  · exact hg

/-- Pre-validating a request's token and then resolving the identity at the same instant decides
exactly like the direct path. -/
theorem prevalidated_same_decision (w : World) (t : Token) (ct : Nat) :
    validatePre w t ct = validate w t ct := by
  unfold validatePre preValidate validateWith validate
  cases h : parseToken w t ct with
  | uat u sid iat exp => rfl
  | api a tid iat => simp
  | err r => cases r <;> simp

/-! ## Histories -/

/-- **C32 over histories (login tokens).** Start from the empty server and run any sequence of
events.  If afterwards a login token of a non-anonymous account is accepted outside its grace
window, then the history contains a `record` event for exactly that session, with the token's
expiry, after which no event revoked it, deleted the account, removed or replaced the issuing
credential, or wrote to the account at or after the session's expiry. -/
theorem accepted_uat_has_live_history (ops : List Op) (k : Nat) (sig : Bool) (u sid iat : Nat)
    (exp : Option Nat) (ct a s : Nat)
    (h : validate (run World.empty ops) ⟨k, sig, .uat u sid iat exp⟩ ct = .ident a s)
    (hu : u ≠ anonymous) (hg : ¬ InGrace iat ct) :
    ∃ later earlier c t, ops.reverse = later ++ .record u sid c exp t :: earlier ∧
      ∀ op ∈ later, kills op u sid c (stateOf exp) = false := by
  obtain ⟨acc, hacc, v, hs, hl⟩ := accepted_requires_session_partial _ k sig u sid iat exp ct a s h hu hg
  obtain ⟨rfl, _⟩ := (uat_accepted_iff _ k sig u sid iat exp ct a s).mp h
  have hv : v.state ≠ .revokedAt := by
    rcases hl with ⟨e, h1, _⟩ | ⟨h1, _⟩ <;> rw [h1] <;> simp
  have hst : v.state = stateOf exp := by
    rcases hl with ⟨e, h1, h2⟩ | ⟨h1, h2⟩ <;> rw [h1, h2] <;> rfl
  have := sessInv_run sessInv_empty ops a acc sid v hacc hs hv
  rw [List.append_nil] at this
  obtain ⟨later, earlier, e, t, heq, hse, hall⟩ := this.decompose
  have hee : e = exp := by
    rw [hst] at hse
    cases e <;> cases exp <;> simp [stateOf] at hse <;> simp [hse]
  subst hee
  rw [hst] at hall
  exact ⟨later, earlier, v.cred, t, heq, hall⟩

/-- **C32 over histories (api tokens).** An api token (either format) accepted outside the grace
window has an `apiIssue` event for its id on that account in the history, after which it was
neither destroyed nor the account deleted. -/
theorem accepted_api_has_live_history (ops : List Op) (t : Token) (ct a s : Nat)
    (h : validate (run World.empty ops) t ct = .ident a s)
    (hp : (∃ u iat exp, t.payload = .apit u s iat exp ∧ ¬ InGrace iat ct) ∨ t.payload = .apic s) :
    ∃ later earlier e iat t', ops.reverse = later ++ .apiIssue a s e iat t' :: earlier ∧
      ∀ op ∈ later, killsApi op a s = false := by
  obtain ⟨k, sig, p⟩ := t
  have key : ∀ acc r, (run World.empty ops).accounts a = some acc → acc.apiTokens s = some r →
      ∃ later earlier e iat t', ops.reverse = later ++ .apiIssue a s e iat t' :: earlier ∧
        ∀ op ∈ later, killsApi op a s = false := by
    intro acc r hacc hr
    have := apiInv_run apiInv_empty ops a acc s r hacc hr
    rw [List.append_nil] at this
    obtain ⟨later, earlier, t', heq, hall⟩ := this.decompose
    exact ⟨later, earlier, _, _, t', heq, hall⟩
  rcases hp with ⟨u, iat, exp, hpay, hg⟩ | hpay
  · simp only at hpay; subst hpay
    obtain ⟨rfl, _, _, _, _, acc, hacc, _, hrest⟩ := (apit_accepted_iff _ k sig u s iat exp ct a s).mp h
    rcases hrest with hsome | ⟨_, hg'⟩
    · obtain ⟨r, hr⟩ := Option.isSome_iff_exists.mp hsome
      exact key acc r hacc hr
    · exact absurd hg' hg
  · simp only at hpay; subst hpay
    obtain ⟨_, _, _, _, acc, r, hacc, hr, _⟩ := (apic_accepted_iff _ k sig s ct a s).mp h
    exact key acc r hacc hr

/-- Revocation is final: once session `(a, s)` is revoked (or the account gone), no later history
makes any login token for it acceptable again — not even a replayed session record. -/
theorem revoked_session_never_accepted (w : World) (u sid : Nat) (hd : Dead w u sid)
    (hu : u ≠ anonymous) (ops : List Op) (k : Nat) (sig : Bool) (iat : Nat) (exp : Option Nat)
    (ct a s : Nat) :
    validate (run w ops) ⟨k, sig, .uat u sid iat exp⟩ ct ≠ .ident a s := by
  obtain ⟨_, hdead⟩ := run_dead hd ops
  rcases hdead with hn | ⟨acc, v, hacc, hs, hv⟩
  · exact absent_account_rejected _ k sig u sid iat exp ct a s hn
  · have : v = ⟨.revokedAt, v.cred⟩ := by cases v; simp at hv; simp [hv]
    rw [this] at hs
    exact revoked_session_rejected _ k sig u sid iat exp ct a s acc v.cred hu hacc hs

/-- From the empty server: after any history `pre`, revoking a session that is on the account at
that moment makes every token for it unacceptable in every continuation `post`. -/
theorem revoke_of_recorded_session_is_final (pre post : List Op) (u sid t : Nat) (acc : Account)
    (v : Session) (hu : u ≠ anonymous)
    (hacc : (run World.empty pre).accounts u = some acc) (hs : acc.sessions sid = some v)
    (k : Nat) (sig : Bool) (iat : Nat) (exp : Option Nat) (ct a s : Nat) :
    validate (run World.empty (pre ++ .revoke u sid t :: post)) ⟨k, sig, .uat u sid iat exp⟩ ct
      ≠ .ident a s := by
  rw [run_append, run_cons]
  apply revoked_session_never_accepted _ u sid _ hu
  have hwf := wf_run wf_empty pre
  refine ⟨step_ids_mono (hwf u (by simp [hacc])) _, Or.inr ?_⟩
  have hstep : step (run World.empty pre) (.revoke u sid t) =
      modifyAccount (run World.empty pre) u t (fun acc => removeSession acc sid) := rfl
  rw [hstep, modifyAccount_same hacc]
  refine ⟨_, sweepSession (removeSession acc sid).cred t (revokeSession v), rfl, ?_, sweep_revoked rfl⟩
  simp [touch_sessions, removeSession, hs]

/-- Key revocation is final: after `KeyActionRevoke` of a kid no token carrying that kid is ever
accepted again, whatever happens later (re-adding the kid included). -/
theorem revoked_key_never_accepted (w : World) (kid : Nat) (ops : List Op) (t : Token) (ct : Nat)
    (hk : t.kid = kid) :
    validate (run (step w (.keyRevoke kid)) ops) t ct = .notAuthenticated := by
  apply revoked_key_rejected
  have h0 : (step w (.keyRevoke kid)).keys kid = some true := by simp [step]
  have := run_key_revoked h0 ops
  unfold KeyOk; rw [hk, this]; simp

/-- Deleting an account is final for its login tokens. -/
theorem deleted_account_never_accepted (pre post : List Op) (u : Nat) (hu : u ≠ anonymous)
    (hex : ((run World.empty pre).accounts u).isSome = true)
    (k : Nat) (sig : Bool) (sid iat : Nat) (exp : Option Nat) (ct a s : Nat) :
    validate (run World.empty (pre ++ .delete u :: post)) ⟨k, sig, .uat u sid iat exp⟩ ct
      ≠ .ident a s := by
  rw [run_append, run_cons]
  apply revoked_session_never_accepted _ u sid _ hu
  refine ⟨step_ids_mono (wf_run wf_empty pre u hex) _, Or.inl ?_⟩
  simp [step]

/-- Credential removal: a login token accepted outside its grace window belongs to a session whose
issuing credential is still the account's credential — after any history. -/
theorem accepted_uat_credential_present (ops : List Op) (k : Nat) (sig : Bool) (u sid iat : Nat)
    (exp : Option Nat) (ct a s : Nat)
    (h : validate (run World.empty ops) ⟨k, sig, .uat u sid iat exp⟩ ct = .ident a s)
    (hu : u ≠ anonymous) (hg : ¬ InGrace iat ct) :
    ∃ acc v, (run World.empty ops).accounts u = some acc ∧ acc.sessions sid = some v ∧
      acc.cred = some v.cred := by
  obtain ⟨acc, hacc, v, hs, hl⟩ := accepted_requires_session_partial _ k sig u sid iat exp ct a s h hu hg
  obtain ⟨rfl, _⟩ := (uat_accepted_iff _ k sig u sid iat exp ct a s).mp h
  have hv : v.state ≠ .revokedAt := by
    rcases hl with ⟨e, h1, _⟩ | ⟨h1, _⟩ <;> rw [h1] <;> simp
  exact ⟨acc, v, hacc, hs, credInv_run credInv_empty ops a acc sid v hacc hs hv⟩

/-! ## Non-vacuity: a concrete history in which every clause is exercised -/

/-- person 1 (credential 7) logs in at t = 10 s (token: session 100, expiry 10 s + 1 day, key 1),
the session record is written at 11 s; an api token 200 is issued for service account 3. -/
def demoOps : List Op :=
  [.addAccount 1 (some 7), .addAccount 3 none, .keyAdd 1,
   .record 1 100 7 (some 86410000000000) 11000000000,
   .apiIssue 3 200 none 12000000000 12000000000]

def demoUat : Token := ⟨1, true, .uat 1 100 10000000000 (some 86410000000000)⟩
def demoApic : Token := ⟨1, true, .apic 200⟩

/-- accepted one hour later, far outside the grace window … -/
example : validate (run World.empty demoOps) demoUat 3610000000000 = .ident 1 100 := by decide
/-- … rejected at the expiry instant, after revocation, after credential removal, after deletion,
after key revocation, with a bad signature, outside the validity window … -/
example : validate (run World.empty demoOps) demoUat 86410000000000 = .sessionExpired := by decide
example : validate (run World.empty (demoOps ++ [.revoke 1 100 20000000000])) demoUat 3610000000000
    = .sessionExpired := by decide
example : validate (run World.empty (demoOps ++ [.setCred 1 none 20000000000])) demoUat 3610000000000
    = .sessionExpired := by decide
example : validate (run World.empty (demoOps ++ [.delete 1])) demoUat 3610000000000
    = .sessionExpired := by decide
example : validate (run World.empty (demoOps ++ [.keyRevoke 1])) demoUat 3610000000000
    = .notAuthenticated := by decide
example : validate (run World.empty demoOps) { demoUat with sigok := false } 3610000000000
    = .notAuthenticated := by decide
example : validate (run World.empty (demoOps ++ [.setValid 1 none (some 3600000000000) 20000000000]))
    demoUat 3610000000000 = .sessionExpired := by decide
/-- … an unrecorded login is accepted one nanosecond before the grace window ends and not at its end. -/
example : validate (run World.empty [.addAccount 1 (some 7), .keyAdd 1]) demoUat 309999999999
    = .ident 1 100 := by decide
example : validate (run World.empty [.addAccount 1 (some 7), .keyAdd 1]) demoUat 310000000000
    = .sessionExpired := by decide
/-- api tokens: accepted while the record is there, rejected once destroyed -/
example : validate (run World.empty demoOps) demoApic 3610000000000 = .ident 3 200 := by decide
example : validate (run World.empty (demoOps ++ [.apiDestroy 3 200 20000000000])) demoApic 3610000000000
    = .notAuthenticated := by decide
/-- the hypotheses of the history theorems are met by `demoOps` -/
example : ∃ later earlier c t, demoOps.reverse = later ++ .record 1 100 c (some 86410000000000) t :: earlier ∧
    ∀ op ∈ later, kills op 1 100 c (stateOf (some 86410000000000)) = false :=
  accepted_uat_has_live_history demoOps 1 true 1 100 10000000000 (some 86410000000000) 3610000000000 1 100
    (by decide) (by decide) (by unfold InGrace; omega)

end Kanidm.Bearer
