import KanidmModel.Gid
/-!
# C21 — POSIX ids never land in reserved ranges

Property theorems only.  `gen`, `accept`, `allowed` and every `GID_*` constant are regenerated from
`plugins/gidnumber.rs` on every run, so each theorem below is re-stated about the current source.
Bit arithmetic is discharged with `Nat.and_le_right`, `Nat.or_lt_two_pow`, `Nat.right_le_or` — no
`bv_decide`, no native evaluation; quantification is over all naturals (hence all 2^32 inputs).
-/
namespace Kanidm.Gid
open Kanidm.Gen.Gid

/-- Every generated id lies in `[0x70000000, 0x7fffffff]`, for every input (all 2^32 values of
the uuid bytes and beyond). -/
theorem gen_in_safe_range (x : Nat) : 1879048192 ≤ gen x ∧ gen x ≤ 2147483647 := by
  have h1 : x &&& GID_SYSTEM_NUMBER_MASK ≤ GID_SYSTEM_NUMBER_MASK := Nat.and_le_right
  have h2 : x &&& GID_SYSTEM_NUMBER_MASK < 2 ^ 31 := Nat.lt_of_le_of_lt h1 (by decide)
  have h3 : GID_SYSTEM_NUMBER_PREFIX < 2 ^ 31 := by decide
  have h4 : (x &&& GID_SYSTEM_NUMBER_MASK) ||| GID_SYSTEM_NUMBER_PREFIX < 2 ^ 31 :=
    Nat.or_lt_two_pow h2 h3
  have h5 : GID_SYSTEM_NUMBER_PREFIX ≤ (x &&& GID_SYSTEM_NUMBER_MASK) ||| GID_SYSTEM_NUMBER_PREFIX :=
    Nat.right_le_or
  exact ⟨h5, Nat.le_of_lt_succ h4⟩

example : gen 0x997ef244 = 0x797ef244 ∧ gen 0 = 0x70000000 ∧ gen 0xffffffff = 0x7fffffff := by decide

/-- The safe range is disjoint from everything reserved. -/
theorem safe_range_disjoint_reserved (g : Nat) (h : 1879048192 ≤ g ∧ g ≤ 2147483647) :
    ¬ Reserved g := by
  unfold Reserved; omega

/-- A generated id is never reserved. -/
theorem gen_not_reserved (x : Nat) : ¬ Reserved (gen x) :=
  safe_range_disjoint_reserved _ (gen_in_safe_range x)

/-- The check branch accepts exactly the listed intervals. -/
theorem accept_iff_allowed (g : Nat) :
    accept g = true ↔ ∃ iv ∈ allowed, iv.1 ≤ g ∧ g ≤ iv.2 := by
  simp [accept, allowed, or_assoc]

/-- The accepted intervals are, within `u32`, exactly the complement of the reserved ranges:
a supplied id inside a reserved range is rejected and nothing else is. -/
theorem accept_iff_not_reserved (g : Nat) (hg : g < 4294967296) :
    accept g = true ↔ ¬ Reserved g := by
  simp only [accept, Bool.or_eq_true, Bool.and_eq_true, decide_eq_true_eq]
  simp only [Reserved, GID_REGULAR_USER_MIN, GID_REGULAR_USER_MAX, GID_UNUSED_A_MIN,
    GID_UNUSED_A_MAX, GID_UNUSED_B_MIN, GID_UNUSED_B_MAX, GID_UNUSED_C_MIN, GID_UNUSED_C_MAX,
    GID_NSPAWN_MIN, GID_NSPAWN_MAX, GID_UNUSED_D_MIN, GID_UNUSED_D_MAX]
  omega

/-- No allowed interval touches a reserved number. -/
theorem allowed_disjoint_reserved (g : Nat) (iv : Nat × Nat) (hiv : iv ∈ allowed)
    (h : iv.1 ≤ g ∧ g ≤ iv.2) : ¬ Reserved g := by
  have hacc : accept g = true := (accept_iff_allowed g).mpr ⟨iv, hiv, h⟩
  have hlt : g < 4294967296 := by
    simp only [allowed, GID_REGULAR_USER_MIN, GID_REGULAR_USER_MAX, GID_UNUSED_A_MIN,
      GID_UNUSED_A_MAX, GID_UNUSED_B_MIN, GID_UNUSED_B_MAX, GID_UNUSED_C_MIN, GID_UNUSED_C_MAX,
      GID_NSPAWN_MIN, GID_NSPAWN_MAX, GID_UNUSED_D_MIN, GID_UNUSED_D_MAX, List.mem_cons,
      List.mem_nil_iff, or_false] at hiv
    rcases hiv with h' | h' | h' | h' | h' | h' <;> rw [h'] at h <;> simp at h <;> omega
  exact (accept_iff_not_reserved g hlt).mp hacc

/-- A generated id passes the plugin's own check (so a later modify of the entry keeps it). -/
theorem gen_accepted (x : Nat) : accept (gen x) = true := by
  have h := gen_in_safe_range x
  exact (accept_iff_not_reserved _ (by omega)).mpr (gen_not_reserved x)

/-- Generation is a function of bytes 12..16 of the uuid only. -/
theorem gen_deterministic (u1 u2 : List Nat)
    (h : (u1.drop 12).take 4 = (u2.drop 12).take 4) :
    gen (uuidToGid u1) = gen (uuidToGid u2) := by
  simp [uuidToGid, uuidByteLo, uuidByteHi, h]

example : uuidToGid [0x83, 0xa0, 0x92, 0x7f, 0x3d, 0xe1, 0x45, 0xec, 0xbe, 0xa0, 0x2f, 0x7b,
    0x99, 0x7e, 0xf2, 0x44] = 0x997ef244 := by decide

/-- … and of a 16-byte uuid it is below 2^32. -/
theorem beNat_lt (bs : List Nat) (hb : ∀ b ∈ bs, b < 256) : beNat bs < 256 ^ bs.length := by
  suffices h : ∀ (acc k : Nat), acc < 256 ^ k →
      bs.foldl (fun acc b => acc * 256 + b) acc < 256 ^ (k + bs.length) by
    simpa [beNat] using h 0 0 (by simp)
  induction bs with
  | nil => intro acc k h; simpa using h
  | cons b rest ih =>
    intro acc k h
    have hb0 : b < 256 := hb b (by simp)
    have := ih (fun c hc => hb c (by simp [hc])) (acc * 256 + b) (k + 1) (by
      rw [Nat.pow_succ]; omega)
    simpa [List.foldl, Nat.add_assoc, Nat.add_comm 1] using this

/-- **C21, posix entries.** Whenever the plugin lets a POSIX account or group through, the entry
carries exactly one gid number and it is not reserved (schema hypothesis: `gidnumber` is a
single-valued uint32, so `other` does not occur). -/
theorem posix_ends_outside_reserved (e : EntryView) (hp : e.posix = true) (hs : e.gid ≠ .other)
    (hu32 : ∀ g, e.gid = .single g → g < 4294967296) :
    match applyGid e with
    | .ok a => ∃ g, a = .single g ∧ ¬ Reserved g
    | .overlapsSystemRange => ∃ g, e.gid = .single g ∧ Reserved g
    | .invalidEntryState => e.uuidLow = none := by
  obtain ⟨posix, gid, uuidLow⟩ := e
  simp only at hp hs hu32
  subst hp
  cases gid with
  | absent =>
    cases uuidLow with
    | none => simp [applyGid]
    | some x => simpa [applyGid] using gen_not_reserved x
  | single g =>
    have hg := hu32 g rfl
    by_cases ha : accept g = true
    · simpa [applyGid, ha] using (accept_iff_not_reserved g hg).mp ha
    · have hr : Reserved g := by
        by_cases hr : Reserved g
        · exact hr
        · exact absurd ((accept_iff_not_reserved g hg).mpr hr) ha
      simpa [applyGid, ha] using hr
  | other => exact absurd rfl hs

/-- **C21, supplied ids.** A supplied gid number inside a reserved range is rejected — on any
entry that carries it, posix or not. -/
theorem reserved_supplied_rejected (e : EntryView) (g : Nat) (hgid : e.gid = .single g)
    (hg : g < 4294967296) (hr : Reserved g) : applyGid e = .overlapsSystemRange := by
  have ha : accept g = false := by
    cases h : accept g
    · rfl
    · exact absurd hr ((accept_iff_not_reserved g hg).mp h)
  simp [applyGid, hgid, ha]

/-- … and a supplied number outside the reserved ranges is kept unchanged. -/
theorem unreserved_supplied_kept (e : EntryView) (g : Nat) (hgid : e.gid = .single g)
    (hg : g < 4294967296) (hr : ¬ Reserved g) : applyGid e = .ok (.single g) := by
  have ha : accept g = true := (accept_iff_not_reserved g hg).mpr hr
  simp [applyGid, hgid, ha]

/-! ### Non-vacuity -/
example : applyGid ⟨true, .absent, some 0x997ef244⟩ = .ok (.single 0x797ef244) := by decide
example : applyGid ⟨true, .single 999, some 5⟩ = .overlapsSystemRange := by decide
example : applyGid ⟨true, .single 1000, some 5⟩ = .ok (.single 1000) := by decide
example : applyGid ⟨true, .single 65534, none⟩ = .overlapsSystemRange := by decide
example : applyGid ⟨false, .single 2147483648, none⟩ = .overlapsSystemRange := by decide
example : Reserved 60001 ∧ ¬ Reserved 60000 ∧ Reserved 65535 ∧ ¬ Reserved 65536 := by decide

end Kanidm.Gid
