import KanidmProofs.Lemmas.DefaultRoles
/-
C25 — Default roles cannot act on high-privilege accounts.

Everything is about the definitions `km_c25` executes: C24's write-access model
(`KanidmModel/Access/Write.lean`) at the default profiles and default group nesting
`Kanidm.Gen.Default.*`, dumped from a server booted on the current tree on every check run.

Shape of the argument:
  * general (all inputs): C24's `modify_allowed_has_grant` / `create_single_profile` /
    `delete_allowed_has_grant` reduce an allowed write to one *matching* configured profile;
    `profile_matches_not_safe` shows that a profile matching a user outside the high-privilege
    closure and a high-privilege entry (not the user's own, not delegated to the user) escapes none
    of the three structural reasons of `safeModify` / `safeProfile`;
  * finite (`decide +kernel` over the regenerated table): every default profile is safe
    (`default_*_table_safe`). A new default profile, an edited target filter that loses the
    `AndNot(HP ∨ …)` clause, a role group added to a receiver list or removed from
    `idm_high_privilege` re-states these and they stop to build.
-/
namespace Kanidm.Access.Default
open Kanidm.Filter
open Kanidm.Access.Write
open Kanidm.Gen.Access
open Kanidm.Gen

/-! ## the notions of the statement -/

/-- The entry is a member (directly or transitively: `memberof` is the closure, C17) of the
built-in high-privilege group. -/
def IsHP (fe : Filter.Entry) : Prop :=
  (fe A.MemberOf).contains (Val.num Default.uuidHighPrivilege) = true

/-- The acting user is outside the high-privilege group: its `memberof` is closed under the
default nesting of the built-in groups (whatever other groups it contains) and does not contain
`idm_high_privilege`. -/
def NonHp (id : Ident) : Prop :=
  ∀ mo, id.memberof = some mo → Closed Default.groups mo ∧ Default.uuidHighPrivilege ∉ mo

/-- The identity was built from the account's own entry: if the target *is* the caller's entry,
the groups on the entry are the groups of the identity. -/
def SelfConsistent (id : Ident) (fe : Filter.Entry) : Prop :=
  (fe A.Uuid).contains (Val.num id.uuid) = true →
    ∀ g, (fe A.MemberOf).contains (Val.num g) = true → ∃ mo, id.memberof = some mo ∧ g ∈ mo

/-- The statement's premise, seen from the acting user: every entry manager of the target is
high-privilege — so it is not the user's own account, and if it is a group the user belongs to,
the user is high-privilege. -/
def ManagersAreHP (id : Ident) (managedBy : Option (List Nat)) : Prop :=
  ∀ ems, managedBy = some ems → ∀ m, m ∈ ems →
    m ≠ id.uuid ∧ ∀ mo, id.memberof = some mo → m ∈ mo → Default.uuidHighPrivilege ∈ mo

/-! ## general lemmas -/

/-- A user outside the closure is not the high-privilege target. -/
theorem not_self_of_nonHp {id : Ident} {fe : Filter.Entry} (hn : NonHp id) (hhp : IsHP fe)
    (hc : SelfConsistent id fe) : (fe A.Uuid).contains (Val.num id.uuid) = false := by
  cases h : (fe A.Uuid).contains (Val.num id.uuid) with
  | false => rfl
  | true =>
    obtain ⟨mo, hmo, hg⟩ := hc h _ hhp
    exact absurd hg (hn mo hmo).2

/-- **A profile that matches a user outside the high-privilege closure and a high-privilege entry
is none of: handed to high-privilege groups only, an entry-manager profile, a profile whose target
excludes high-privilege entries.** -/
theorem profile_matches_not_safe {id : Ident} {p : Profile} {mb : Option (List Nat)}
    {fe : Filter.Entry} (hn : NonHp id) (hhp : IsHP fe) (hc : SelfConsistent id fe)
    (hm : ManagersAreHP id mb) (h : ProfileMatches id p mb fe) : safeProfile p = false := by
  obtain ⟨hr, f, hf, hmatch⟩ := h
  have hns := not_self_of_nonHp hn hhp hc
  have htgt : targetExcludesHP p = false := by
    unfold targetExcludesHP
    rw [hf]
    cases he : hpEval Default.uuidHighPrivilege f with
    | none => simp [he]
    | some b =>
      have := hpEval_sound ValSem.std Default.uuidHighPrivilege (Val.num id.uuid) fe hhp hns f b he
      rw [hmatch] at this
      subst this
      simp [he]
  unfold ReceiverMatches at hr
  unfold safeProfile receiverOnlyHP isEntryManager
  cases hrc : p.receiver with
  | none => rw [hrc] at hr; exact hr.elim
  | entryManager =>
    rw [hrc] at hr
    obtain ⟨ems, hems, hor⟩ := hr
    rcases hor with ⟨mo, hmo, g, hg, hge⟩ | hu
    · exact absurd ((hm ems hems g hge).2 mo hmo hg) (hn mo hmo).2
    · exact absurd rfl ((hm ems hems _ hu).1)
  | group gs =>
    rw [hrc] at hr
    obtain ⟨mo, hmo, g, hg, hgs⟩ := hr
    have hall : (gs.all fun g => hpGroups.contains g) = false := by
      cases hq : (gs.all fun g => hpGroups.contains g) with
      | false => rfl
      | true =>
        have := List.all_eq_true.mp hq g hgs
        rw [List.contains_iff_mem] at this
        exact absurd (hp_of_mem_hpGroups (hn mo hmo).1 hg this) (hn mo hmo).2
    show (((gs.all fun g => hpGroups.contains g) || false) || targetExcludesHP p) = false
    rw [hall, htgt]
    rfl

/-! ## the default table (finite; re-stated whenever the dump changes) -/

/-- Every default modify profile is safe: handed to the high-privilege closure only, or an
entry-manager profile, or its target excludes `memberof = idm_high_privilege` entries (or is the
caller's own entry), or it grants none of the sensitive attributes. -/
theorem default_modify_table_safe : Default.modifyAcps.all safeModify = true := by
  decide +kernel

theorem default_create_table_safe : Default.createAcps.all (fun p => safeProfile p.acp) = true := by
  decide +kernel

theorem default_delete_table_safe : Default.deleteAcps.all (fun p => safeProfile p.acp) = true := by
  decide +kernel

/-- No default *create* or *delete* profile is an entry-manager profile handed to everybody:
create never honours entry managers (create.rs), delete would — there is none by default. -/
theorem default_delete_no_entry_manager :
    Default.deleteAcps.all (fun p => !isEntryManager p.acp) = true := by
  decide +kernel

/-- The statement's premise holds on the freshly migrated server itself: every entry manager of a
group of the high-privilege closure is a group of that closure. -/
theorem default_hp_groups_managed_by_hp :
    Default.groupManagers.all
      (fun gm => !hpGroups.contains gm.1 || gm.2.all (fun m => hpGroups.contains m)) = true := by
  decide +kernel

/-- The model's closure is what the server's memberof plugin stored on the freshly migrated
server: for every group and builtin account, `memberof` (dumped) = closure of its parents. -/
theorem default_memberof_is_closure :
    (Default.groupMemberOf ++ Default.accounts).all
      (fun gm =>
        let mo := memberofClosure Default.groups (parentsOf Default.groups gm.1)
        subset mo gm.2 && subset gm.2 mo) = true := by
  decide +kernel

/-! ## the property -/

/-- **Modify.** With the default profiles, a user outside the high-privilege group — whatever
built-in or other groups it belongs to — whose modification of a high-privilege entry is allowed
touches no credential-, session-, validity-, naming- or membership-bearing attribute of it, nor
its classes, provided the entry is not delegated to the user (the statement's premise). -/
theorem nonhp_cannot_modify_hp (id : Ident) (hu : IsUser id) (hn : NonHp id)
    (ag : List (Nat × List Nat)) (e : Ent) (hhp : IsHP e.fe) (hc : SelfConsistent id e.fe)
    (hm : ManagersAreHP id e.managedBy) (ml : List Mod)
    (h : modifyAllowPerEntry id (modifyRelatedAcp id Default.modifyAcps) ag e ml = true) :
    (∀ m, m ∈ ml → ∀ a, m.addsAttr = some a → a ∉ sensitiveAttrs) ∧
    (∀ m, m ∈ ml → ∀ a, m.removesAttr = some a → a ∉ sensitiveAttrs) ∧
    (∀ c, ¬ AddsClass e ml c) ∧ (∀ c, ¬ RemovesClass e ml c) := by
  obtain ⟨_, hadd, hrem, haddc, hremc⟩ := modify_allowed_has_grant id hu Default.modifyAcps ag e ml h
  have key : ∀ p, p ∈ Default.modifyAcps → ProfileMatches id p.acp e.managedBy e.fe →
      modifyGrantsNothingSensitive p = true := by
    intro p hp hpm
    have hsafe := List.all_eq_true.mp default_modify_table_safe p hp
    have hns := profile_matches_not_safe hn hhp hc hm hpm
    unfold safeProfile at hns
    unfold safeModify at hsafe
    rw [hns] at hsafe
    simpa using hsafe
  have hclassP : ∀ p, p ∈ Default.modifyAcps → ProfileMatches id p.acp e.managedBy e.fe →
      A.Class ∉ p.presAttrs ∧ A.Class ∉ p.remAttrs := by
    intro p hp hpm
    have := key p hp hpm
    unfold modifyGrantsNothingSensitive at this
    rw [Bool.and_eq_true, disjoint_iff, disjoint_iff] at this
    exact ⟨fun hx => this.1 _ hx (by decide), fun hx => this.2 _ hx (by decide)⟩
  refine ⟨?_, ?_, ?_, ?_⟩
  · intro m hmem a ha hs
    obtain ⟨p, hp, hpm, hap⟩ := hadd m hmem a ha
    have := key p hp hpm
    unfold modifyGrantsNothingSensitive at this
    rw [Bool.and_eq_true, disjoint_iff, disjoint_iff] at this
    exact this.1 a hap hs
  · intro m hmem a ha hs
    obtain ⟨p, hp, hpm, hap⟩ := hrem m hmem a ha
    have := key p hp hpm
    unfold modifyGrantsNothingSensitive at this
    rw [Bool.and_eq_true, disjoint_iff, disjoint_iff] at this
    exact this.2 a hap hs
  · -- adding a class is a `Present`/`Set` on the attribute `class`
    intro c hcadd
    rcases hcadd with hpres | ⟨vs, hset, _, _⟩
    · obtain ⟨p, hp, hpm, hap⟩ := hadd _ hpres A.Class rfl
      exact (hclassP p hp hpm).1 hap
    · obtain ⟨p, hp, hpm, hap⟩ := hadd _ hset A.Class rfl
      exact (hclassP p hp hpm).1 hap
  · intro c hcrem
    rcases hcrem with hr | ⟨vs, hset, _, _⟩
    · obtain ⟨p, hp, hpm, hap⟩ := hrem _ hr A.Class rfl
      exact (hclassP p hp hpm).2 hap
    · obtain ⟨p, hp, hpm, hap⟩ := hrem _ hset A.Class rfl
      exact (hclassP p hp hpm).2 hap

/-- **Modify, as the caller observes it.** If a modify operation of such a user gets past the
access decision, then for every high-privilege candidate (not delegated to the user) the request
touches none of the sensitive attributes. -/
theorem nonhp_modify_op_spares_hp (id : Ident) (hu : IsUser id) (hn : NonHp id)
    (ag : List (Nat × List Nat)) (cands : List Ent) (ml : List Mod)
    (h : modifyOperation id ag cands ml = .proceed) :
    ∀ e, e ∈ cands → IsHP e.fe → SelfConsistent id e.fe → ManagersAreHP id e.managedBy →
      (∀ m, m ∈ ml → ∀ a, m.addsAttr = some a → a ∉ sensitiveAttrs) ∧
      (∀ m, m ∈ ml → ∀ a, m.removesAttr = some a → a ∉ sensitiveAttrs) := by
  intro e he hhp hc hm
  obtain ⟨_, _, hall, _⟩ := modifyOp_proceed id Default.modifyAcps ag cands ml h
  have := nonhp_cannot_modify_hp id hu hn ag e hhp hc hm ml (hall e he)
  exact ⟨this.1, this.2.1⟩

/-- A request that touches a sensitive attribute of a high-privilege entry is refused with
`AccessDenied` (or finds nothing): the contrapositive, for one sensitive removal or addition. -/
theorem nonhp_sensitive_modify_denied (id : Ident) (hu : IsUser id) (hn : NonHp id)
    (ag : List (Nat × List Nat)) (e : Ent) (hhp : IsHP e.fe) (hc : SelfConsistent id e.fe)
    (hm : ManagersAreHP id e.managedBy) (ml : List Mod) (m : Mod) (hmem : m ∈ ml) (a : Nat)
    (hs : a ∈ sensitiveAttrs) (hma : m.addsAttr = some a ∨ m.removesAttr = some a) :
    modifyAllowPerEntry id (modifyRelatedAcp id Default.modifyAcps) ag e ml = false := by
  cases h : modifyAllowPerEntry id (modifyRelatedAcp id Default.modifyAcps) ag e ml with
  | false => rfl
  | true =>
    have := nonhp_cannot_modify_hp id hu hn ag e hhp hc hm ml h
    rcases hma with ha | ha
    · exact absurd hs (this.1 m hmem a ha)
    · exact absurd hs (this.2.1 m hmem a ha)

/-- **Delete.** Such a user cannot delete a high-privilege entry. -/
theorem nonhp_cannot_delete_hp (id : Ident) (hu : IsUser id) (hn : NonHp id) (e : Ent)
    (hhp : IsHP e.fe) (hc : SelfConsistent id e.fe) (hm : ManagersAreHP id e.managedBy) :
    applyDeleteAccess id (deleteRelatedAcp id Default.deleteAcps) e = false := by
  cases h : applyDeleteAccess id (deleteRelatedAcp id Default.deleteAcps) e with
  | false => rfl
  | true =>
    obtain ⟨_, p, hp, hpm⟩ := delete_allowed_has_grant id hu Default.deleteAcps e h
    have hsafe := List.all_eq_true.mp default_delete_table_safe p hp
    rw [profile_matches_not_safe hn hhp hc hm hpm] at hsafe
    cases hsafe

theorem nonhp_delete_op_denied (id : Ident) (hu : IsUser id) (hn : NonHp id) (cands : List Ent)
    (e : Ent) (he : e ∈ cands) (hhp : IsHP e.fe) (hc : SelfConsistent id e.fe)
    (hm : ManagersAreHP id e.managedBy) : deleteOperation id cands ≠ .proceed := by
  intro h
  obtain ⟨_, hall, _⟩ := deleteOp_proceed id Default.deleteAcps cands h
  have := nonhp_cannot_delete_hp id hu hn e hhp hc hm
  rw [hall e he] at this
  cases this

/-- **Create.** Such a user cannot create an entry that claims membership of the high-privilege
group (create never consults entry managers: `managedBy` is `none`). -/
theorem nonhp_cannot_create_hp (id : Ident) (hu : IsUser id) (hn : NonHp id) (e : NewEnt)
    (hwf : A.Class ∈ e.attrs) (hhp : IsHP e.fe) (hc : SelfConsistent id e.fe) :
    createAllowPerEntry id (createRelatedAcp id Default.createAcps) e = false := by
  cases h : createAllowPerEntry id (createRelatedAcp id Default.createAcps) e with
  | false => rfl
  | true =>
    obtain ⟨_, cls, _, p, hp, hpm, _⟩ := create_single_profile id hu Default.createAcps e hwf h
    have hsafe := List.all_eq_true.mp default_create_table_safe p hp
    have hm : ManagersAreHP id none := by intro ems h; cases h
    rw [profile_matches_not_safe hn hhp hc hm hpm] at hsafe
    cases hsafe

/-! ## every combination of default role groups (finite, evaluated) -/

/-- all sub-lists -/
def subsetsOf : List Nat → List (List Nat)
  | [] => [[]]
  | x :: xs => (subsetsOf xs).map (x :: ·) ++ subsetsOf xs

def isClosed (gs : List (Nat × List Nat)) (mo : List Nat) : Bool :=
  mo.all fun g => (parentsOf gs g).all fun p => mo.contains p

theorem isClosed_sound {gs : List (Nat × List Nat)} {mo : List Nat} (h : isClosed gs mo = true) :
    Closed gs mo := by
  intro g hg p ms hmem hgm
  have := List.all_eq_true.mp (List.all_eq_true.mp h g hg) p (mem_parentsOf.mpr ⟨ms, hmem, hgm⟩)
  exact List.contains_iff_mem.mp this

/-- **Every combination of the default groups outside the closure** (dynamic groups included)
gives a `memberof` that is closed, contains no group of the high-privilege closure and not
`idm_high_privilege` itself: the hypothesis `NonHp` of the theorems above is met by each of them
(and the closure computation reached its fixpoint). -/
theorem every_default_role_subset_is_nonHp :
    (subsetsOf nonHpGroups).all (fun S =>
      let mo := memberofClosure Default.groups S
      isClosed Default.groups mo && !mo.contains Default.uuidHighPrivilege
        && disjoint mo hpGroups) = true := by
  decide +kernel

theorem actor_nonHp (u : Nat) (S : List Nat) (hS : S ∈ subsetsOf nonHpGroups) :
    NonHp (actor u S) := by
  intro mo hmo
  have h := List.all_eq_true.mp every_default_role_subset_is_nonHp S hS
  simp only [Bool.and_eq_true] at h
  unfold actor Ident.memberof at hmo
  simp only [] at hmo
  split at hmo
  · cases hmo
  · cases hmo
    refine ⟨isClosed_sound h.1.1, ?_⟩
    intro hc
    have := h.1.2
    rw [List.contains_iff_mem.mpr hc] at this
    cases this

/-- What the default profiles leave open on an entry, for an identity. -/
def openAttrs (id : Ident) (e : Ent) : Option (List Nat × List Nat) :=
  match applyModifyAccess id (modifyRelatedAcp id Default.modifyAcps) [] e with
  | .deny => some ([], [])
  | .grant => none
  | .allow a => some (a.pres, a.rem)

/-- nothing sensitive may be added or removed -/
def nothingSensitive (r : Option (List Nat × List Nat)) : Bool :=
  match r with
  | none => false
  | some (p, rm) => disjoint p sensitiveAttrs && disjoint rm sensitiveAttrs

/-! ### concrete entries: a person, a service account and a group that are high-privilege, the
same three without `memberof idm_high_privilege`, and a high-privilege group delegated (against
the premise) to a role group outside the closure -/

def uActor : Nat := 0x10000000000040008000000000c25001
def uPerson : Nat := 0x10000000000040008000000000c25002
def uService : Nat := 0x10000000000040008000000000c25003
def uGroup : Nat := 0x10000000000040008000000000c25004
def uuidIdmAdmins : Nat := 1
def uuidServiceDesk : Nat := 0x41
def uuidAccountMailRead : Nat := 0x39
def uuidAllPersons : Nat := 0x35
def uuidAllAccounts : Nat := 0x36

def mkFe (uuid : Nat) (classes : List Nat) (memberof : List Nat) (extra : List (Nat × List Val)) :
    Filter.Entry :=
  Entry.ofList ([(A.Class, classes.map fun c => Val.str [c]), (A.Uuid, [Val.num uuid]),
    (A.Name, [Val.str [110]])] ++
    (if memberof.isEmpty then [] else [(A.MemberOf, memberof.map Val.num)]) ++ extra)

def mkEnt (uuid : Nat) (classes : List Nat) (memberof : List Nat) (mb : Option (List Nat)) : Ent :=
  ⟨uuid, some classes, mb, none,
    mkFe uuid classes memberof (match mb with
      | some l => [(A.EntryManagedBy, l.map Val.num)]
      | none => [])⟩

def hpPerson : Ent :=
  mkEnt uPerson [C.Object, C.Account, C.Person, C.MemberOf]
    [uuidIdmAdmins, Default.uuidHighPrivilege] none
def hpService : Ent :=
  mkEnt uService [C.Object, C.Account, C.ServiceAccount, C.MemberOf]
    [uuidServiceDesk, Default.uuidHighPrivilege] (some [uuidIdmAdmins])
def hpGroup : Ent :=
  mkEnt uGroup [C.Object, C.Group, C.MemberOf] [uuidServiceDesk, Default.uuidHighPrivilege]
    (some [uuidIdmAdmins])
def plainPerson : Ent := mkEnt uPerson [C.Object, C.Account, C.Person] [] none
def plainGroupManaged : Ent :=
  mkEnt uGroup [C.Object, C.Group] [] (some [uuidAccountMailRead])
/-- against the premise: a high-privilege group whose entry manager is outside the closure -/
def hpGroupDelegated : Ent :=
  mkEnt uGroup [C.Object, C.Group, C.MemberOf] [uuidServiceDesk, Default.uuidHighPrivilege]
    (some [uuidAccountMailRead])
/-- the acting person's own entry, for the direct memberships `S` -/
def actorEntry (S : List Nat) : Ent :=
  mkEnt uActor [C.Object, C.Account, C.Person, C.MemberOf] (memberofClosure Default.groups S) none

/-- a read-write user whose `memberof` is exactly `mo` -/
def userWith (u : Nat) (mo : List Nat) : Ident := ⟨.user u (some mo), .readWrite⟩

/-- **All 2^n combinations, evaluated.** For every sub-list of the default groups outside the
closure taken as the acting user's `memberof` (the closed ones are the `memberof` of the users
holding exactly those roles, see `every_default_role_subset_is_nonHp`), the attributes the model
leaves open on a high-privilege person, service account and group contain nothing sensitive. -/
theorem every_default_role_subset_spares_hp_person :
    (subsetsOf nonHpGroups).all (fun mo =>
      nothingSensitive (openAttrs (userWith uActor mo) hpPerson)) = true := by
  decide +kernel

theorem every_default_role_subset_spares_hp_group :
    (subsetsOf nonHpGroups).all (fun mo =>
      nothingSensitive (openAttrs (userWith uActor mo) hpGroup)) = true := by
  decide +kernel

/-- the service account: every single role, none, and all of them -/
theorem every_default_role_spares_hp_service :
    (([] :: nonHpGroups :: nonHpGroups.map ([·])).all fun mo =>
      nothingSensitive (openAttrs (userWith uActor mo) hpService)) = true := by
  decide +kernel

/-! ### non-vacuity: the hypotheses are satisfiable, the model is not simply refusing -/

def allRoles : List Nat := nonHpGroups

example : allRoles ∈ subsetsOf nonHpGroups := by decide +kernel
example : IsHP hpPerson.fe := by unfold IsHP; decide +kernel
example : SelfConsistent (actor uActor allRoles) hpPerson.fe := by
  intro h; exact absurd h (by decide +kernel)
example : ManagersAreHP (actor uActor allRoles) hpGroup.managedBy := by
  intro ems h m hm
  cases h
  have : m = uuidIdmAdmins := by simpa using hm
  subst this
  refine ⟨by decide, ?_⟩
  intro mo hmo hmem
  have hmo' : mo = memberofClosure Default.groups allRoles := by
    have : (actor uActor allRoles).memberof = some (memberofClosure Default.groups allRoles) := by
      decide +kernel
    rw [this] at hmo
    cases hmo
    rfl
  subst hmo'
  exact absurd hmem (by decide +kernel)

/-- a person holding every default role outside the closure may rename itself … -/
example : modifyDecision (actor uActor allRoles) [] [actorEntry allRoles]
    [.purged A.DisplayName, .present A.DisplayName 0] = true := by decide +kernel
/-- … and reset its own credential (idm_acp_self_write) … -/
example : modifyDecision (actor uActor allRoles) [] [actorEntry allRoles]
    [.purged A.PrimaryCredential] = true := by decide +kernel
/-- … and manage the members of a group delegated to one of its roles … -/
example : modifyDecision (actor uActor [uuidAccountMailRead, uuidAllPersons, uuidAllAccounts]) []
    [plainGroupManaged] [.present A.Member 0] = true := by decide +kernel
/-- … but none of this on the high-privilege twins: -/
example : modifyDecision (actor uActor allRoles) [] [hpPerson] [.purged A.PrimaryCredential]
    = false := by decide +kernel
example : modifyDecision (actor uActor allRoles) [] [hpGroup] [.present A.Member 0] = false := by
  decide +kernel
example : deleteDecision (actor uActor allRoles) [hpPerson] = false := by decide +kernel
/-- a member of idm_people_admins (inside the closure) *can* reset a high-privilege person's
credential: the refusals above are not the model refusing everything -/
example : modifyDecision (actor uActor [0x13]) [] [hpPerson] [.purged A.PrimaryCredential]
    = true := by decide +kernel
/-- **The premise is needed**: a high-privilege group delegated to a role outside the closure
can have its members changed by that role (`idm_acp_group_entry_manager` has no HP clause). -/
example : modifyDecision (actor uActor [uuidAccountMailRead, uuidAllPersons, uuidAllAccounts]) []
    [hpGroupDelegated] [.present A.Member 0] = true := by decide +kernel
/-- nobody outside `idm_people_admins` / on-boarding creates persons: plain or high-privilege -/
example : createDecision (actor uActor allRoles)
    [⟨some uPerson, some [C.Object, C.Account, C.Person], [A.Class, A.Name, A.DisplayName],
      plainPerson.fe⟩] = false := by decide +kernel

end Kanidm.Access.Default
