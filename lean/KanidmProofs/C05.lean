import KanidmProofs.Lemmas.Crash
import KanidmProofs.C07
/-!
C05 — a crash at any point recovers to the before or after state.

Property theorems over `KanidmModel/Crash.lean`.  The orders and tables come from
`Generated/CrashOps.lean` and `Generated/CidCommit.lean` (regenerated from the source on every
run), so an edit of the commit layers or of a storage function re-states the theorems.
TRUSTED: `Kanidm.Crash.step` is SQLite's contract (a transaction is atomic and durable at COMMIT;
a statement outside a transaction commits on its own).
-/
namespace Kanidm.Crash
open Kanidm.Gen.Crash

/-! ## SQLite-level: any list of storage calls that keeps the bracket discipline -/

/-- For ANY operation list that keeps the bracket discipline (`shapeRun` does not fail) and ANY
number `k` of operations after which the process dies: the next process finds exactly the old
database when the `COMMIT` had not yet run, and exactly the final database otherwise. -/
theorem sqlite_atomic_flip (c : Nat) (ops : List Op) (q : Phase) (h : shapeRun c .idle ops = some q)
    (d : Disk) (k : Nat) :
    crashAt k ops d = if k ≤ commitIdx ops then d else after ops d := by
  have hp := pre_commit c d ops .idle (boot d) q h (Or.inl ⟨rfl, rfl⟩) rfl k
  show (run (ops.take k) (boot d)).disk
    = if k ≤ commitIdx ops then d else (run (ops.take ops.length) (boot d)).disk
  by_cases hk : k ≤ commitIdx ops
  · simp [hk, hp.1 hk]
  · rw [if_neg hk, hp.2 (by omega), List.take_length]

/-- A discipline-breaking list really loses atomicity in the model (the hypothesis above is
needed, the SQLite semantics is not trivially atomic): one write on a foreign connection in the
middle of the transaction survives a crash before `COMMIT`. -/
theorem foreign_write_breaks_atomicity :
    ∃ ops d k, crashAt k ops d ≠ d ∧ crashAt k ops d ≠ after ops d := by
  refine ⟨[.begin 0, .stmt 0 [⟨.id2entry, 1, some 1⟩], .stmt 1 [⟨.ruv, 1, some 1⟩], .commit 0], Disk.empty, 3, ?_, ?_⟩
  · intro h
    have := congrFun (congrFun h .ruv) 1
    revert this; decide
  · intro h
    have := congrFun (congrFun h .id2entry) 1
    revert this; decide

/-! ## The server's write transaction, from the regenerated orders -/

/-- In the order the source has now: every write-through call and every cache flush of the
three `commit()` layers precedes the single `COMMIT`, and only in-memory publications follow it. -/
theorem commit_layers_ok : flatOk false commitFlat = true := by decide

/-- Every function of the SQLite write transaction issues its SQL on the transaction's own
connection (`self.get_conn()`). -/
theorem all_sql_on_txn_connection : sqliteFns.all (fun f => f.conn == .txn) = true := allTxn

/-- The write transaction takes the write lock when it begins, and the database is in WAL mode
(the setting under which `H_sqlite_atomic` is claimed). -/
theorem begin_locks_and_wal : beginMode ≠ .deferred ∧ journalWal = true := by decide

/-- **everything_in_one_sql_txn.** Whatever a transaction writes (`w` arbitrary): `BEGIN` comes
first, every write — entries, index lists, name tables, `db_ruv`, `ts_max`, versions — runs on
the transaction's connection between `BEGIN` and the single `COMMIT`, nothing is written after. -/
theorem everything_in_one_sql_txn (w : Workload) (hw : w.WF) :
    shapeRun txnConn .idle (txnOps w) = some .done := by
  have h1 := shape_stmts_inTxn w.direct hw.direct
  have h2 := shape_expandAll w hw commitFlat false commit_layers_ok
  simp only [txnOps, shapeRun, shapeStep, if_true]
  rw [shapeRun_append, h1]
  simpa using h2

/-- **crash_recovers_before_or_after** (sharp form). The process dies after `k` storage /
memory operations of a write transaction: a restart finds the complete old database if `k` does
not include the `COMMIT`, the complete new one otherwise. -/
theorem crash_flip_at_commit (w : Workload) (hw : w.WF) (d : Disk) (k : Nat) :
    crashAt k (txnOps w) d = if k ≤ commitIdx (txnOps w) then d else after (txnOps w) d :=
  sqlite_atomic_flip txnConn (txnOps w) .done (everything_in_one_sql_txn w hw) d k

/-- **crash_recovers_before_or_after.** For every transaction and every crash point the
recovered database is exactly the pre-state or exactly the post-state — never a mix. -/
theorem crash_recovers_before_or_after (w : Workload) (hw : w.WF) (d : Disk) (k : Nat) :
    crashAt k (txnOps w) d = d ∨ crashAt k (txnOps w) d = after (txnOps w) d := by
  rw [crash_flip_at_commit w hw d k]
  by_cases hk : k ≤ commitIdx (txnOps w) <;> simp [hk]

/-- The post-state is complete: it is the old database with EVERY write of the transaction
applied in program order (so "after" is the state a clean run leaves, not a part of it). -/
theorem after_is_all_writes (w : Workload) (hw : w.WF) (d : Disk) :
    after (txnOps w) d = d.apply (writesOf (txnOps w)) := by
  have := final_idle txnConn (txnOps w) (boot d) (everything_in_one_sql_txn w hw) rfl
  simpa [after, crashAt, boot] using this

/-- Nothing in memory survives: whatever was published before the crash, the next process starts
from the database alone. -/
theorem memory_is_lost (k : Nat) (ops : List Op) (d : Disk) :
    boot (crashAt k ops d) = ⟨crashAt k ops d, none, []⟩ := rfl

/-- **restart_inv.** Everything the restarted server derives at startup is a function of the
database alone (`Backend::new`: `ruv_reload` = stored RUV + rebuild from ALL entries, index
metadata; `QueryServer::new`: server uuid, `ts_max`).  Hence any invariant linking the database
and the derived state that holds for the committed pre- and post-state (C03's index invariant,
`ruv = cids(entries) ∪ anchors`, …) holds after a crash at any point. -/
theorem restart_inv {σ : Type} (derive : Disk → σ) (Inv : Disk → σ → Prop)
    (w : Workload) (hw : w.WF) (d : Disk)
    (hbefore : Inv d (derive d)) (hafter : Inv (after (txnOps w) d) (derive (after (txnOps w) d))) (k : Nat) :
    Inv (crashAt k (txnOps w) d) (derive (crashAt k (txnOps w) d)) := by
  rcases crash_recovers_before_or_after w hw d k with h | h <;> rw [h] <;> assumption

/-! ## Change identifiers after the restart (on C07's machine) -/

open Kanidm.Cid Kanidm.Gen.Cid Kanidm.Gen.CidCommit

/-- The instant of the crash, after any number of `commit()` steps, satisfies C07's invariant. -/
theorem crashCommit_inv (s : Server) (t : Txn) (k : Nat) (h : Inv s) (htx : s.txn = some t) :
    Inv (crashCommit s t k) := by
  have hab := h.txnAbove t htx
  have hp := runSteps_post t.cid s.mem s.dbTs none (commitSteps.take k) 0 false false
    { mem := s.mem, dbTs := s.dbTs, dbUuid := s.dbUuid, pendingTs := none,
      pendingUuid := t.pendingUuid, durable := false }
    (orderOkAux_take commitSteps k false false commit_order_ok)
    ⟨by simp, by simp, Or.inr rfl, by simp, by simp⟩
  unfold crashCommit
  cases hd : (runSteps t.cid (commitSteps.take k) 0 none
    { mem := s.mem, dbTs := s.dbTs, dbUuid := s.dbUuid, pendingTs := none,
      pendingUuid := t.pendingUuid, durable := false }).1.durable
  · -- not durable: history and durable maximum unchanged
    have hdb := hp.notDur hd
    refine ⟨?_, ?_, ?_, ?_⟩
    · intro c hcm
      simp only [hd] at hcm
      have := h.memDom c (by simpa using hcm)
      rcases hp.memEither with hm | hm <;> simp only [hm] <;> omega
    · intro c hcm
      simp only [hd] at hcm
      simp only [hdb]
      exact h.dbDom c (by simpa using hcm)
    · intro t' ht'; simp at ht'
    · simpa [hd] using h.sorted
  · -- durable: the transaction is committed, and `ts_max` went with it
    obtain ⟨hdb, hm⟩ := hp.dur hd
    refine ⟨?_, ?_, ?_, ?_⟩
    · intro c hcm
      simp only [hd, if_true] at hcm
      simp only [hm]
      rcases List.mem_append.mp hcm with hin | hin
      · have := h.memDom c hin; omega
      · simp at hin; rw [hin]; exact Nat.le_refl _
    · intro c hcm
      simp only [hd, if_true] at hcm
      refine ⟨t.cid.ts, hdb, ?_⟩
      rcases List.mem_append.mp hcm with hin | hin
      · have := h.memDom c hin; omega
      · simp at hin; rw [hin]; exact Nat.le_refl _
    · intro t' ht'; simp at ht'
    · simp only [hd, if_true]
      rw [List.pairwise_append]
      refine ⟨h.sorted, by simp, ?_⟩
      intro a ha b hb
      simp at hb; rw [hb]
      have := h.memDom a ha
      exact ts_lt_cidLt a t.cid (by omega)

/-- **restart_cid_greater.** The process dies after `k` steps of `commit()` (any `k`), restarts
at ANY clock reading `ts` (earlier ones included), possibly runs further events, and opens a
write transaction: its change identifier is strictly greater than every identifier the server
had committed — including the crashed transaction's own, if its `COMMIT` got through. -/
theorem restart_cid_greater (s : Server) (t : Txn) (h : Inv s) (htx : s.txn = some t)
    (k ts : Nat) (evs : List Event) (t' : Txn)
    (ht' : (Kanidm.Cid.run (crashCommit s t k) (.restart ts :: evs)).txn = some t') :
    ∀ c ∈ (Kanidm.Cid.run (crashCommit s t k) (.restart ts :: evs)).hist, cidLt c t'.cid = true :=
  stamped_gt_all_committed (crashCommit s t k) (crashCommit_inv s t k h htx) (.restart ts :: evs) t' ht'

/-- The committed history after the crash is the old one, or the old one plus exactly the crashed
transaction — and in that case the durable `ts_max` is that transaction's timestamp. -/
theorem crash_history_before_or_after (s : Server) (t : Txn) (k : Nat) :
    ((crashCommit s t k).hist = s.hist ∧ (crashCommit s t k).dbTs = s.dbTs) ∨
    ((crashCommit s t k).hist = s.hist ++ [t.cid] ∧ (crashCommit s t k).dbTs = some t.cid.ts) := by
  have hp := runSteps_post t.cid s.mem s.dbTs none (commitSteps.take k) 0 false false
    { mem := s.mem, dbTs := s.dbTs, dbUuid := s.dbUuid, pendingTs := none,
      pendingUuid := t.pendingUuid, durable := false }
    (orderOkAux_take commitSteps k false false commit_order_ok)
    ⟨by simp, by simp, Or.inr rfl, by simp, by simp⟩
  unfold crashCommit
  cases hd : (runSteps t.cid (commitSteps.take k) 0 none
    { mem := s.mem, dbTs := s.dbTs, dbUuid := s.dbUuid, pendingTs := none,
      pendingUuid := t.pendingUuid, durable := false }).1.durable
  · left; simp [hd, hp.notDur hd]
  · right; simp [hd, (hp.dur hd).1]

/-! ## Non-vacuity -/

/-- A transaction touching every layer: a read and an index-table creation while the operation
runs, `ts_max`, two RUV rows, two entries, an index list, a name row. -/
def demoW : Workload where
  direct := [⟨1, []⟩, ⟨39, [⟨.idx, 7, some 0⟩]⟩]
  tsMax := [⟨.dbOpTs, 1, some 50⟩]
  beDirect := [⟨.ruv, 40, none⟩, ⟨.ruv, 50, some 50⟩]
  flush := fun i => match i with
    | 0 => [⟨22, [⟨.id2entry, 3, some 33⟩]⟩, ⟨23, [⟨.id2entry, 2, none⟩]⟩]
    | 1 => [⟨24, [⟨.idx, 7, some 3⟩]⟩]
    | 2 => [⟨26, [⟨.name2uuid, 9, some 3⟩]⟩]
    | _ => []

def demoD : Disk := fun t k => if t = .id2entry ∧ k = 2 then some 22 else if t = .ruv ∧ k = 40 then some 40 else none

theorem demoW_wf : demoW.WF := by
  refine ⟨?_, ?_⟩
  · intro s hs
    simp [demoW] at hs
    rcases hs with rfl | rfl <;> decide
  · intro i s hs
    match i with
    | 0 => simp [demoW] at hs; rcases hs with rfl | rfl <;> decide
    | 1 => simp [demoW] at hs; subst hs; decide
    | 2 => simp [demoW] at hs; subst hs; decide
    | n + 3 => simp [demoW] at hs

/-- 14 operations precede the `COMMIT` of the demo transaction; the list has 25. -/
example : commitIdx (txnOps demoW) = 14 ∧ (txnOps demoW).length = 25 := by decide

/-- Dying right before the `COMMIT` the new entry, the deleted entry, the RUV and `ts_max` are all
still old; one operation later all are new. -/
example : crashAt 14 (txnOps demoW) demoD .id2entry 3 = none ∧ crashAt 14 (txnOps demoW) demoD .id2entry 2 = some 22 ∧
    crashAt 14 (txnOps demoW) demoD .ruv 40 = some 40 ∧ crashAt 14 (txnOps demoW) demoD .dbOpTs 1 = none ∧
    crashAt 15 (txnOps demoW) demoD .id2entry 3 = some 33 ∧ crashAt 15 (txnOps demoW) demoD .id2entry 2 = none ∧
    crashAt 15 (txnOps demoW) demoD .ruv 40 = none ∧ crashAt 15 (txnOps demoW) demoD .ruv 50 = some 50 ∧
    crashAt 15 (txnOps demoW) demoD .dbOpTs 1 = some 50 ∧ crashAt 15 (txnOps demoW) demoD .name2uuid 9 = some 3 := by
  decide

/-- C07's demo server with an open transaction, killed after 0, 6 and 7 commit steps and restarted at
an EARLIER clock: the history is unchanged, unchanged, extended; the next cid is above it each time. -/
example :
    let s : Server := ⟨⟨5, 1⟩, some 5, 1, some ⟨⟨9, 1⟩, none⟩, [⟨5, 1⟩]⟩
    (crashCommit s ⟨⟨9, 1⟩, none⟩ 0).hist = [⟨5, 1⟩] ∧ (crashCommit s ⟨⟨9, 1⟩, none⟩ 6).hist = [⟨5, 1⟩] ∧
    (crashCommit s ⟨⟨9, 1⟩, none⟩ 7).hist = [⟨5, 1⟩, ⟨9, 1⟩] ∧
    (Kanidm.Cid.run (crashCommit s ⟨⟨9, 1⟩, none⟩ 7) [.restart 3, .begin 3]).txn = some ⟨⟨11, 1⟩, none⟩ ∧
    (Kanidm.Cid.run (crashCommit s ⟨⟨9, 1⟩, none⟩ 6) [.restart 3, .begin 3]).txn = some ⟨⟨7, 1⟩, none⟩ := by
  decide

end Kanidm.Crash
