import KanidmProofs.Lemmas.Privilege
/-!
# C33 — Write privilege is bounded in time and by login type

Property theorems only (helper lemmas and the history invariant `Inv`: `Lemmas/Privilege.lean`).
The model (`KanidmModel/Privilege.lean`) is the control flow of `issue_uat`, `to_userauthtoken`,
`to_reissue_userauthtoken`, the token's wire round trip, `process_authsessionrecord`,
`validate_and_parse_token_to_identity_token`, `check_user_auth_token_valid`,
`process_uat_to_identity`, `reauth_init` and `new_reauth`; every table, time sum and comparison
inside it is a *generated* definition (`Generated/AuthTypes.lean`) re-read from the source on
each run, so the statements below are about the current source.

Histories: any list of `Op` — `auth` (a login of any `AuthType`, privileged or not, any
policy), `reauth` (with any held token, any request, any credential type, any policy),
`advance` (time passes), `use`, `revoke` — from an empty world at any start instant.  `log` is
the ghost list of the successful logins / re-authentications of the history.
-/
namespace Kanidm.Privilege
open Kanidm.Gen.AuthTypes

/-- The auth types of an "ordinary" interactive login, written from the property statement:
everything except anonymous, OAuth2 trust (always read-only) and the generated service-account
password (always privileged). -/
def ordinaryTypes : List AuthType :=
  [.password, .passwordTotp, .passwordBackupCode, .passwordSecurityKey, .passkey, .attestedPasskey]

/-- The regenerated tables and comparisons are the ones the property speaks about.  Adding an
auth type to the privilege-capable set, letting another stored scope re-authenticate, or
weakening `cot < expiry` makes this fail. -/
theorem scope_tables_are_spec :
    (∀ t p, initialScope t p = .readWrite ↔ (t = .generatedPassword ∨ (p = true ∧ t ∈ ordinaryTypes))) ∧
    (∀ t p, initialScope t p = .privilegeCapable ↔ (p = false ∧ t ∈ ordinaryTypes)) ∧
    (∀ t, reauthScope t = some .privilegeCapable ↔ t ∈ ordinaryTypes) ∧
    (∀ t, t ∉ ordinaryTypes → reauthScope t = none) ∧
    (∀ s, reauthAllowed s = true ↔ s = .privilegeCapable) ∧
    (∀ r, reauthRequestRw r = true ↔ r = .grantReadWrite) ∧
    (∀ p cot, uatAccessScope p cot = .readWrite ↔ ∃ x, p = .readWrite (some x) ∧ cot < x) ∧
    (∀ exp cot, exp < cot → uatExpired exp cot = true) := by
  refine ⟨?_, ?_, ?_, ?_, ?_, ?_, ?_, ?_⟩
  · intro t p; cases t <;> cases p <;> simp [initialScope, ordinaryTypes]
  · intro t p; cases t <;> cases p <;> simp [initialScope, ordinaryTypes]
  · intro t; cases t <;> simp [reauthScope, ordinaryTypes]
  · intro t; cases t <;> simp [reauthScope, ordinaryTypes]
  · intro s; cases s <;> simp [reauthAllowed]
  · intro r; cases r <;> simp [reauthRequestRw]
  · intro p cot
    cases p with
    | readOnly => simp [uatAccessScope]
    | readWrite e =>
      cases e with
      | none => simp [uatAccessScope]
      | some x =>
        by_cases h : cot < x <;> simp [uatAccessScope, h]
  · -- strictly after its expiry a token is refused (either strictness at the instant itself)
    intro exp cot h; simp only [uatExpired, decide_eq_true_eq]; omega

/-- **Write access only inside a privilege window.**  For every history and every token ever
handed out: if presenting it *now* yields a read-write identity, then the history contains a
login or re-authentication `e` of the same session that grants privilege (`Event.grants`: a
login whose scope is `ReadWrite`, or a re-auth that asked for read-write with a credential
`issue_uat` re-issues for), and `e.time ≤ now < e.time + e.window`. -/
theorem rw_only_inside_window (now0 : Nat) (ops : List Op) (u : Uat)
    (hu : u ∈ (run (World.init now0) ops).tokens)
    (hrw : useUat (run (World.init now0) ops).sessions u (run (World.init now0) ops).now
            = .ok .readWrite) :
    ∃ e ∈ (run (World.init now0) ops).log,
      e.sessionId = u.sessionId ∧ e.grants = true ∧
      e.time ≤ (run (World.init now0) ops).now ∧
      (run (World.init now0) ops).now < e.time + e.window := by
  have hinv := (Inv.init now0).run ops
  obtain ⟨x, hp, hlt⟩ := useUat_rw hrw
  obtain ⟨e, he, h1, h2, h3⟩ := hinv.rwTok u hu x hp
  exact ⟨e, he, h1, h2, hinv.timeLog e he, by omega⟩

/-- Non-vacuity: an ordinary login, a re-authentication 10 s later, and 599.999999999 s after
that the re-issued token is read-write (hypotheses of the theorem hold) while the login's own
token is read-only; one nanosecond later the window has closed. -/
def exWindow : World :=
  run (World.init 2000000000500000000)
    [.auth .password false false true ⟨86400, 600⟩, .advance 10000000000,
     .reauth 0 .grantReadWrite .password ⟨86400, 600⟩, .advance 599499999999]

example :
    (step exWindow (.use 1)).2 = .scope .readWrite ∧ (step exWindow (.use 0)).2 = .scope .readOnly ∧
    (step (step exWindow (.advance 1)).1 (.use 1)).2 = .scope .readOnly ∧
    exWindow.log.map (·.time) = [2000000000500000000, 2000000010500000000] := by
  decide +kernel

/-- **The window is bounded**: `min(authsession_expiry, LIMITED)` after a login, the policy's
`privilege_expiry` after a re-authentication; with the resolved policy's privilege expiry at
most `MAXIMUM_AUTH_PRIVILEGE_EXPIRY` (the start value of `fold_from`, C35) that is one hour. -/
theorem privilege_window_bounded (e : Event) :
    e.window ≤ max limitedExpirySecs e.pol.privSecs * nsPerSec ∧
    (e.pol.privSecs ≤ maxPrivilegeExpirySecs → e.window ≤ 3600 * nsPerSec) := by
  unfold Event.window
  cases e.reauth <;> simp only [limitedExpirySecs, maxPrivilegeExpirySecs, nsPerSec] <;>
    constructor <;> (try intro h) <;> simp <;> omega

/-- **Anonymous and OAuth2-trust sessions are always read-only** — at every instant, whatever
re-authentications were attempted: a token whose session was opened by such a login never maps
to a read-write identity.  Certificate identities, LDAP binds and read-only API tokens have a
constant read-only scope. -/
theorem listed_types_always_readonly (now0 : Nat) (ops : List Op) (u : Uat) (e0 : Event)
    (hu : u ∈ (run (World.init now0) ops).tokens)
    (he0 : e0 ∈ (run (World.init now0) ops).log) (hlogin : e0.reauth = false)
    (hsid : e0.sessionId = u.sessionId)
    (hlisted : e0.authType = .anonymous ∨ e0.authType = .oAuth2Trust) (ct : Nat) :
    useUat (run (World.init now0) ops).sessions u ct ≠ .ok .readWrite := by
  intro hrw
  have hinv := (Inv.init now0).run ops
  obtain ⟨x, hp, _⟩ := useUat_rw hrw
  obtain ⟨e, he, h1, h2, _⟩ := hinv.rwTok u hu x hp
  have hro : ∀ f, initialScope e0.authType f = .readOnly := by
    intro f; rcases hlisted with h | h <;> rw [h] <;> cases f <;> rfl
  cases hr : e.reauth with
  | false =>
    have := hinv.uniq e he e0 he0 hr hlogin (by rw [h1, hsid])
    subst this
    simp [Event.grants, hr, hro] at h2
  | true =>
    obtain ⟨_, e', he', g1, g2, g3, _⟩ := hinv.reauthLog e he hr
    have := hinv.uniq e' he' e0 he0 g1 hlogin (by rw [g2, h1, hsid])
    subst this
    rw [hro] at g3
    simp [reauthAllowed] at g3

theorem constant_scopes_readonly :
    certScope = .readOnly ∧ ldapScope = .readOnly ∧ (∀ ct, certUatAccess ct = .readOnly) ∧
    apiTokenAccess false = .readOnly := by
  refine ⟨rfl, rfl, ?_, rfl⟩
  intro ct; rfl

/-- Non-vacuity: privileged anonymous and OAuth2-trust logins, each followed by a re-auth attempt. -/
def exListed : World :=
  run (World.init 2000000000000000000)
    [.auth .anonymous true true true ⟨86400, 600⟩, .advance 5,
     .reauth 0 .grantReadWrite .password ⟨86400, 600⟩,
     .auth .oAuth2Trust true false true ⟨86400, 600⟩,
     .reauth 1 .grantReadWrite .password ⟨86400, 600⟩]

example :
    exListed.tokens.length = 2 ∧ exListed.log.map (·.authType) = [.anonymous, .oAuth2Trust] ∧
    (step exListed (.use 0)).2 = .scope .readOnly ∧ (step exListed (.use 1)).2 = .scope .readOnly := by
  decide

/-- **An ordinary (non-privileged) login is read-only until re-authentication**: if a token of
a session opened by a login whose scope was `PrivilegeCapable` maps to read-write now, then the
history contains a *re-authentication* of that session that asked for read-write with a
privilege-capable credential, and now lies within `privilege_expiry` of it. -/
theorem ordinary_login_ro_until_reauth (now0 : Nat) (ops : List Op) (u : Uat) (e0 : Event)
    (hu : u ∈ (run (World.init now0) ops).tokens)
    (he0 : e0 ∈ (run (World.init now0) ops).log) (hlogin : e0.reauth = false)
    (hsid : e0.sessionId = u.sessionId)
    (hord : initialScope e0.authType e0.flag = .privilegeCapable)
    (hrw : useUat (run (World.init now0) ops).sessions u (run (World.init now0) ops).now
            = .ok .readWrite) :
    ∃ e ∈ (run (World.init now0) ops).log,
      e.reauth = true ∧ e.sessionId = u.sessionId ∧ e.flag = true ∧
      reauthScope e.authType = some .privilegeCapable ∧
      e.time ≤ (run (World.init now0) ops).now ∧
      (run (World.init now0) ops).now < e.time + e.pol.privSecs * nsPerSec := by
  have hinv := (Inv.init now0).run ops
  obtain ⟨e, he, h1, h2, h3, h4⟩ := rw_only_inside_window now0 ops u hu hrw
  cases hr : e.reauth with
  | false =>
    have := hinv.uniq e he e0 he0 hr hlogin (by rw [h1, hsid])
    subst this
    simp [Event.grants, hr, hord] at h2
  | true =>
    simp only [Event.grants, hr, if_true, Bool.and_eq_true, decide_eq_true_eq] at h2
    simp only [Event.window, hr, if_true] at h4
    exact ⟨e, he, hr, h1, h2.1, h2.2, h3, h4⟩

/-- The token an ordinary login itself returns (`PrivilegeCapable` ⇒ `ReadWrite{None}`) is
read-only at every instant, in every world. -/
theorem ordinary_login_token_readonly (sid : Nat) (anon : Bool) (ct : Nat) (pol : Policy) (u : Uat)
    (h : toUat sid anon .privilegeCapable ct pol = some u)
    (sessions : List (Nat × Session)) (ct' : Nat) :
    useUat sessions (wire u) ct' ≠ .ok .readWrite := by
  intro hrw
  obtain ⟨x, hp, _⟩ := useUat_rw hrw
  obtain ⟨y, hy, _⟩ := wire_rw hp
  obtain ⟨_, _, _, h4⟩ := toUat_spec h
  cases (h4 y hy).1

example :
    (step (run (World.init 2000000000000000000)
            [.auth .passwordTotp false false true ⟨86400, 600⟩, .advance 86399000000000]) (.use 0)).2
      = .scope .readOnly := by
  decide

/-- **Re-authentication never extends the session expiry**: every token of a session carries
exactly the expiry fixed by the login that opened it — at most `authsession_expiry` after that
login — and is refused (no identity is built) after it. -/
theorem reauth_keeps_session_expiry (now0 : Nat) (ops : List Op) (u : Uat)
    (hu : u ∈ (run (World.init now0) ops).tokens) :
    ∃ e0 ∈ (run (World.init now0) ops).log, e0.reauth = false ∧ e0.sessionId = u.sessionId ∧
      ∃ x, u.expiry = some x ∧ e0.expiry = some x ∧ x ≤ e0.time + e0.pol.sessSecs * nsPerSec ∧
        ∀ ct, x < ct → ∀ s, useUat (run (World.init now0) ops).sessions u ct ≠ .ok s := by
  have hinv := (Inv.init now0).run ops
  obtain ⟨e0, he0, h1, h2, h3⟩ := hinv.origTok u hu
  obtain ⟨x, hx, hle⟩ := hinv.origExp e0 he0 h1
  refine ⟨e0, he0, h1, h2, x, by rw [h3, hx], hx, hle, ?_⟩
  intro ct hct s
  have : expiredAt u ct = true := by
    simp only [expiredAt, h3, hx]; exact scope_tables_are_spec.2.2.2.2.2.2.2 x ct hct
  simp [useUat, this]

/-- All tokens of one session — the login's and every re-issued one — expire together. -/
theorem session_tokens_share_expiry (now0 : Nat) (ops : List Op) (u1 u2 : Uat)
    (h1 : u1 ∈ (run (World.init now0) ops).tokens) (h2 : u2 ∈ (run (World.init now0) ops).tokens)
    (hs : u1.sessionId = u2.sessionId) : u1.expiry = u2.expiry := by
  have hinv := (Inv.init now0).run ops
  obtain ⟨e1, he1, a1, a2, a3⟩ := hinv.origTok u1 h1
  obtain ⟨e2, he2, b1, b2, b3⟩ := hinv.origTok u2 h2
  have := hinv.uniq e1 he1 e2 he2 a1 b1 (by rw [a2, b2, hs])
  subst this
  rw [a3, b3]

/-- Non-vacuity: a 1000 s session, re-authenticated after 900 s under a policy that would allow
a day: the re-issued token still expires at login + 1000 s, is read-write one nanosecond before
that instant and refused one nanosecond after it. -/
def exExpiry : World :=
  run (World.init 2000000000000000000)
    [.auth .password false false true ⟨1000, 600⟩, .advance 900000000000,
     .reauth 0 .grantReadWrite .password ⟨86400, 3600⟩, .advance 99999999999]

example :
    exExpiry.tokens.map (·.expiry) = [some 2000001000000000000, some 2000001000000000000] ∧
    (step exExpiry (.use 1)).2 = .scope .readWrite ∧
    (step (step exExpiry (.advance 2)).1 (.use 1)).2 = .err .sessionExpired := by
  decide +kernel

/-- Non-vacuity of the `persist = false` histories: a privileged login whose session record is
lost is read-write inside the grace window and refused after it; it cannot re-authenticate. -/
def exLost : World :=
  run (World.init 2000000000000000000)
    [.auth .password true false false ⟨86400, 600⟩, .advance 299999999999]

example :
    (step exLost (.use 0)).2 = .scope .readWrite ∧
    (step (step exLost (.advance 1)).1 (.use 0)).2 = .err .sessionExpired ∧
    (stepReauth exLost 0 .grantReadWrite .password ⟨86400, 600⟩).2 = .err .invalidState := by
  decide +kernel

/-- **Re-authentication needs a live `PrivilegeCapable` session and a privilege-capable
credential**: whenever `reauth` returns a token, the presented token was valid, its session is
stored with scope `PrivilegeCapable` and not revoked, and the credential's auth type is one
`issue_uat` re-issues for; the new token belongs to the same session. -/
theorem reauth_requires_privilege_capable (w w' : World) (tok : Nat) (req : ReauthRequest)
    (t : AuthType) (pol : Policy) (u' : Uat)
    (h : stepReauth w tok req t pol = (w', .token u')) :
    ∃ u s sc, w.tokens[tok]? = some u ∧ useUat w.sessions u w.now = .ok sc ∧
      lookup u.sessionId w.sessions = some s ∧ s.scope = .privilegeCapable ∧
      s.state ≠ .revokedAt ∧ reauthScope t = some .privilegeCapable ∧ t ∈ ordinaryTypes ∧
      u'.sessionId = u.sessionId := by
  unfold stepReauth at h
  cases htok : w.tokens[tok]? with
  | none => simp [htok] at h
  | some u =>
    simp only [htok] at h
    cases huse : useUat w.sessions u w.now with
    | error e => simp [huse] at h
    | ok sc =>
      simp only [huse] at h
      cases hl : lookup u.sessionId w.sessions with
      | none => simp [hl] at h
      | some s =>
        simp only [hl] at h
        by_cases hal : reauthAllowed s.scope = true
        · simp only [hal, Bool.not_true, Bool.false_eq_true, if_false] at h
          cases hse : reauthSessionExpiry s.state with
          | none => simp [hse] at h
          | some sessionExpiry =>
            simp only [hse] at h
            cases hi : issueUat (.reauth (reauthRequestRw req) u.sessionId sessionExpiry) t w.now pol
                        w.nextSid u.anon with
            | error e => simp [hi] at h
            | ok r =>
              obtain ⟨uat, rec⟩ := r
              simp only [hi] at h
              injection h with _ h
              injection h with h
              obtain ⟨scope, hscope, hre⟩ := issueUat_reauth hi
              obtain ⟨hsid, _, _, hpc, _⟩ := toReissue_spec hre
              subst hpc
              refine ⟨u, s, sc, rfl, huse, hl, (scope_tables_are_spec.2.2.2.2.1 _).mp hal, ?_, hscope,
                (scope_tables_are_spec.2.2.1 t).mp hscope, ?_⟩
              · intro hrev; rw [hrev] at hse; simp [reauthSessionExpiry] at hse
              · rw [← h, wire_sessionId, hsid]
        · simp [hal] at h

def exReauth : World :=
  run (World.init 2000000000000000000) [.auth .passkey false false true ⟨86400, 600⟩]

example :
    (stepReauth exReauth 0 .grantReadWrite .passkey ⟨86400, 600⟩).2
      = .token ⟨0, 2000000000000000000, some 2000086400000000000,
                .readWrite (some 2000000600000000000), false⟩ ∧
    (stepReauth exReauth 0 .grantReadWrite .generatedPassword ⟨86400, 600⟩).2 = .err .au0006 ∧
    (stepReauth (step exReauth (.revoke 0)).1 0 .grantReadWrite .passkey ⟨86400, 600⟩).2
      = .err .sessionExpired := by
  decide

/-- **No other place hands out write access.**  Every non-test function under `idm/` and in
`server/identity.rs` that *produces* the value `AccessScope::ReadWrite` or calls
`project_with_scope`, re-scanned on every run: the UAT mapping (modelled above), the two `From`
impls (`&ApiTokenPurpose`: modelled; `&UatPurpose`: not called anywhere), the internal identities
(`migration`, `message_queue`, `from_internal`, `from_impersonate_entry_readwrite` — never built
from a token), and `account_destroy_session_token`, which projects the caller's identity to
read-write so that a read-only session can end *itself* (the one deliberate exception, limited
to removing the caller-named session value). A new site changes this list and fails here. -/
theorem rw_scope_sites_are_known :
    rwScopeSites =
      [("idm/account.rs", "account_destroy_session_token", 2),
       ("idm/server.rs", "process_uat_to_identity", 1),
       ("server/identity.rs", "from", 2),
       ("server/identity.rs", "from_impersonate_entry_readwrite", 1),
       ("server/identity.rs", "from_internal", 1),
       ("server/identity.rs", "message_queue", 1),
       ("server/identity.rs", "migration", 1)] := rfl

/-- **API tokens are read-write exactly when issued so**: the identity scope of an API token is
`ReadWrite` iff `read_write` was requested at generation, and never `Synchronise`. -/
theorem api_rw_explicit (readWrite : Bool) :
    (apiTokenAccess readWrite = .readWrite ↔ readWrite = true) ∧
    apiTokenAccess readWrite ≠ .synchronise := by
  cases readWrite <;> simp [apiTokenAccess, apiScopeOfFlag, apiPurposeOfScope, apiAccessScope]

end Kanidm.Privilege
