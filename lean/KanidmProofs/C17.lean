import KanidmProofs.Lemmas.MemberOf
/-!
# C17 — Group membership closure is always exact

The model (`KanidmModel/MemberOf.lean`) transcribes `apply_memberof` as coded: a synchronous
worklist over the *stored* memberof of parent groups.  What the code maintains is **local
consistency** (`LC`: every live entry's stored values equal the recomputation from its parents'
stored values), not the least fixpoint.  Hence:

* `closure_exact_partial` — for every history (any length, any graph, cycles included) whose
  operations are create / member change / delete / revive of an entry that lists no members,
  after the last operation: directmemberof is exact, memberof ⊇ closure, and memberof = closure
  whenever the *current* graph is acyclic (has a topological ranking);
* `closure_exact_full` (the property as stated) is **false** of the code: `closure_exact_full_false`
  (D6: a stale value sustained by a cycle), `closure_exact_full_false_revive` (D16: reviving a group
  does not re-propagate to its members);
* `worklist_terminates_ranked` / `worklist_livelock` (D21): the loop ends within `R+1` rounds on a
  graph ranked below `R`, and never ends on the recorded cyclic witness.
-/
namespace Kanidm.MemberOf
open Kanidm.Gen.MemberOf

/-! ## the operators regenerated from the source are the ones the proofs rely on -/

/-- The tie of the proofs to `memberof.rs` / `plugins/mod.rs`: the change test is a
disjunction, the modify delta is the symmetric difference, parents are merged into memberof in
both passes, a changed group enqueues its members, `pre_delete` stashes dmo and purges mo, and
referential integrity runs before memberof. -/
theorem ops_as_modelled :
    (∀ a b, changedComb a b = (a || b)) ∧ modifyDeltaOp = .symmetricDifference ∧
    mergeDmoIntoMo = true ∧ leafInheritsGroupMo = true ∧ enqueueMembersOnChange = true ∧
    preDeleteStashesDmo = true ∧ preDeletePurgesMo = true ∧ refintBeforeMemberOf = true :=
  ⟨fun _ _ => rfl, rfl, rfl, rfl, rfl, rfl, rfl, rfl⟩

/-! ## local consistency versus the closure -/

/-- Local consistency gives the closure as a lower bound, on any graph. -/
theorem lc_superset {s : State} (hlc : LC s) :
    ∀ e ∈ s, e.live = true → ∀ q, Reach s q e.id → q ∈ e.mo := by
  intro e he hl q hr
  generalize hx : e.id = x at hr
  induction hr generalizing e with
  | edge hedge =>
    obtain ⟨g, hg, hp, hid⟩ := hedge
    rw [(hlc e he hl).1 q, hx]
    exact mem_moOf.mpr ⟨g, hg, hp, Or.inl hid⟩
  | step _ hedge ih =>
    obtain ⟨g, hg, hp, hid⟩ := hedge
    have hgl : g.live = true := (isPar_iff.mp hp).2.1
    have hq : q ∈ g.mo := ih g hg hgl hid
    rw [(hlc e he hl).1 q, hx]
    exact mem_moOf.mpr ⟨g, hg, hp, Or.inr hq⟩

/-- Local consistency makes directmemberof exact, on any graph. -/
theorem lc_dmo_exact {s : State} (hlc : LC s) :
    ∀ e ∈ s, e.live = true → ∀ p, p ∈ e.dmo ↔ Edge s p e.id :=
  fun e he hl p => ((hlc e he hl).2 p).trans mem_dmoOf_iff_edge

/-- On an acyclic (ranked) graph local consistency is exactness. -/
theorem exact_of_lc_ranked {s : State} {rank : Nat → Nat} (hlc : LC s) (hr : Ranked s rank) :
    Exact s := by
  intro e he hl
  refine ⟨fun q => ⟨?_, lc_superset hlc e he hl q⟩, lc_dmo_exact hlc e he hl⟩
  -- memberof ⊆ closure, by induction on the rank of the entry
  have key : ∀ n, ∀ e ∈ s, e.live = true → rank e.id = n → ∀ q, q ∈ e.mo → Reach s q e.id := by
    intro n
    induction n using Nat.strongRecOn with
    | _ n ih =>
      intro e he hl hn q hq
      obtain ⟨g, hg, hp, hq'⟩ := mem_moOf.mp (((hlc e he hl).1 q).mp hq)
      have hedge : Edge s g.id e.id := ⟨g, hg, hp, rfl⟩
      rcases hq' with hq' | hq'
      · exact hq' ▸ Reach.edge hedge
      · have hlt : rank g.id < n := hn ▸ hr _ _ hedge
        exact Reach.step (ih _ hlt g hg (isPar_iff.mp hp).2.1 rfl q hq') hedge
  exact key _ e he hl rfl q

/-- The executable reference closure of the driver (`closureIter`, breadth-first rounds over
direct parents) computes exactly the specification's reachability. -/
theorem closure_is_reach (s : State) (x p : Nat) :
    Reach s p x ↔ ∃ k, p ∈ closureIter s x k :=
  ⟨mem_closureIter_of_reach, fun ⟨k, h⟩ => reach_of_mem_closureIter k p h⟩

/-- A ranked graph has no entry that reaches itself. -/
theorem ranked_no_self_reach {s : State} {rank : Nat → Nat} (h : Ranked s rank) (x : Nat) :
    ¬ Reach s x x :=
  fun hr => Nat.lt_irrefl _ (ranked_acyclic h x x hr)

/-! ## histories -/

/-- The state after one operation of a history (`none` = the operation does not finish). -/
def next (fuel : Nat) (s : State) (op : Op) : Option State :=
  match step fuel s op with
  | .ok s' => some s'
  | .err => some s
  | .diverge => none

/-- Every operation of the history is safe at the state it is applied to (`SafeOp`: not a
revive of a group that still lists members — the D16 shape). -/
def Safe (fuel : Nat) : State → List Op → Prop
  | _, [] => True
  | s, op :: ops => SafeOp s op ∧ ∀ s', next fuel s op = some s' → Safe fuel s' ops

instance decSafeOp (s : State) (op : Op) : Decidable (SafeOp s op) := by
  cases op <;> simp only [SafeOp] <;> infer_instance

instance decSafe (fuel : Nat) : (s : State) → (ops : List Op) → Decidable (Safe fuel s ops)
  | _, [] => isTrue trivial
  | s, op :: ops =>
    match h : next fuel s op with
    | none => decidable_of_iff (SafeOp s op) (by simp [Safe, h])
    | some s1 =>
      have := decSafe fuel s1 ops
      decidable_of_iff (SafeOp s op ∧ Safe fuel s1 ops) (by simp [Safe, h])

/-- Histories without any revive are safe. -/
theorem safe_of_no_revive (fuel : Nat) : ∀ (ops : List Op) (s : State),
    (∀ op ∈ ops, ∀ x, op ≠ .revive x) → Safe fuel s ops := by
  intro ops
  induction ops with
  | nil => intro _ _; trivial
  | cons op ops ih =>
    intro s h
    have hops : ∀ o ∈ ops, ∀ x, o ≠ .revive x := fun o ho => h o (List.mem_cons_of_mem _ ho)
    refine ⟨?_, fun s' _ => ih s' hops⟩
    cases op with
    | revive x => exact absurd rfl (h _ List.mem_cons_self x)
    | _ => trivial

/-- The invariant (local consistency, one entry per uuid) holds after every safe history. -/
theorem inv_of_history (fuel : Nat) : ∀ (ops : List Op) (s s' : State),
    Inv s → Safe fuel s ops → run fuel s ops = some s' → Inv s' := by
  intro ops
  induction ops with
  | nil => intro s s' hinv _ h; simp only [run, Option.some.injEq] at h; exact h ▸ hinv
  | cons op ops ih =>
    intro s s' hinv hsafe h
    obtain ⟨hop, hrest⟩ := hsafe
    simp only [run] at h
    cases hst : step fuel s op with
    | ok s1 =>
      rw [hst] at h
      exact ih s1 s' (step_inv hinv hop hst) (hrest s1 (by simp [next, hst])) h
    | err =>
      rw [hst] at h
      exact ih s s' hinv (hrest s (by simp [next, hst])) h
    | diverge => rw [hst] at h; cases h

theorem inv_empty : Inv [] := ⟨(fun _ h => nomatch h), List.nodup_nil⟩

/-- **C17, the part that holds.**  After any safe history from the empty directory, whatever
the graphs it went through (cycles included): directmemberof is exact and memberof contains
the closure; if the graph is acyclic *now*, memberof is exactly the closure. -/
theorem closure_exact_partial (fuel : Nat) (ops : List Op) (s : State)
    (hsafe : Safe fuel [] ops) (hrun : run fuel [] ops = some s) :
    (∀ e ∈ s, e.live = true →
        (∀ p, p ∈ e.dmo ↔ Edge s p e.id) ∧ (∀ q, Reach s q e.id → q ∈ e.mo)) ∧
    (∀ rank, Ranked s rank → Exact s) := by
  have hinv := inv_of_history fuel ops [] s inv_empty hsafe hrun
  exact ⟨fun e he hl => ⟨lc_dmo_exact hinv.1 e he hl, lc_superset hinv.1 e he hl⟩,
         fun _ hr => exact_of_lc_ranked hinv.1 hr⟩

/-- Same, from any consistent state (e.g. a migrated database) instead of the empty one. -/
theorem closure_exact_partial_from (fuel : Nat) (ops : List Op) (s0 s : State) (h0 : Inv s0)
    (hsafe : Safe fuel s0 ops) (hrun : run fuel s0 ops = some s) :
    (∀ e ∈ s, e.live = true →
        (∀ p, p ∈ e.dmo ↔ Edge s p e.id) ∧ (∀ q, Reach s q e.id → q ∈ e.mo)) ∧
    (∀ rank, Ranked s rank → Exact s) := by
  have hinv := inv_of_history fuel ops s0 s h0 hsafe hrun
  exact ⟨fun e he hl => ⟨lc_dmo_exact hinv.1 e he hl, lc_superset hinv.1 e he hl⟩,
         fun _ hr => exact_of_lc_ranked hinv.1 hr⟩

/-! ### non-vacuity: a nested acyclic history with removal, delete and a (safe) revive -/

def demoOps : List Op :=
  [.create 13 false [], .create 3 true [13], .create 2 true [3], .create 1 true [2, 13],
   .setMembers 2 [], .setMembers 2 [3, 13], .delete [13], .revive 13, .delete [1]]

def demoState : State :=
  [⟨13, false, true, [], [2, 3], [2, 3], []⟩, ⟨3, true, true, [13], [2], [2], []⟩,
   ⟨2, true, true, [3, 13], [], [], []⟩, ⟨1, true, false, [2, 13], [], [], []⟩]

def demoRank : Nat → Nat
  | 2 => 1 | 3 => 2 | 13 => 3 | _ => 0

theorem demo_run : run 8 [] demoOps = some demoState := by rfl

theorem demo_safe : Safe 8 [] demoOps := by decide

theorem demo_ranked : Ranked demoState demoRank := by
  intro p x ⟨g, hg, hp, hid⟩
  simp only [demoState, List.mem_cons, List.not_mem_nil, or_false] at hg
  obtain ⟨_, _, hx⟩ := isPar_iff.mp hp
  rcases hg with rfl | rfl | rfl | rfl
  · simp at hx
  · simp at hx; subst hx; subst hid; decide
  · simp at hx; rcases hx with rfl | rfl <;> subst hid <;> decide
  · simp [isPar] at hp

/-- The hypotheses of `closure_exact_partial` are satisfiable by a nested history with removal,
delete and revive; its conclusion gives exactness of the final state. -/
example : Exact demoState :=
  (closure_exact_partial 8 demoOps demoState demo_safe demo_run).2 demoRank demo_ranked

/-! ## the property as stated is false of the code -/

/-- The property as stated: after *any* committed history, stored values are the closure. -/
def closure_exact_full : Prop :=
  ∀ (fuel : Nat) (ops : List Op) (s : State), run fuel [] ops = some s → Exact s

/-- A set of entries closed under "parent of": nothing outside reaches inside. -/
theorem reach_closed {s : State} (S : List Nat)
    (hS : ∀ g ∈ s, g.grp = true → g.live = true → ∀ x ∈ g.member, x ∈ S → g.id ∈ S) :
    ∀ p x, Reach s p x → x ∈ S → p ∈ S := by
  intro p x hr
  induction hr with
  | edge he =>
    obtain ⟨g, hg, hp, rfl⟩ := he
    obtain ⟨h1, h2, h3⟩ := isPar_iff.mp hp
    exact hS g hg h1 h2 _ h3
  | step _ he ih =>
    obtain ⟨g, hg, hp, rfl⟩ := he
    obtain ⟨h1, h2, h3⟩ := isPar_iff.mp hp
    exact fun hx => ih (hS g hg h1 h2 _ h3 hx)

/-- D6 witness: D ∋ A, A ∋ B, B ∋ A; remove A from D. -/
def d6Ops : List Op :=
  [.create 4 true [], .create 1 true [], .create 2 true [1], .setMembers 1 [2],
   .setMembers 4 [1], .setMembers 4 []]

def d6State : State :=
  [⟨4, true, true, [], [], [], []⟩, ⟨1, true, true, [2], [1, 2, 4], [2], []⟩,
   ⟨2, true, true, [1], [1, 2, 4], [1], []⟩]

theorem d6_run : run 8 [] d6Ops = some d6State := by rfl

/-- D6: after removing the only link from group 4 into the cycle {1, 2}, group 1 still
stores 4 in memberof although 4 no longer reaches it. -/
theorem stale_in_cycle_D6 :
    (∃ e ∈ d6State, e.id = 1 ∧ e.live = true ∧ 4 ∈ e.mo) ∧ ¬ Reach d6State 4 1 := by
  refine ⟨by decide, ?_⟩
  intro h
  have := reach_closed (s := d6State) [1, 2] (by decide) 4 1 h (by decide)
  revert this; decide

theorem closure_exact_full_false : ¬ closure_exact_full := by
  intro h
  have hex := h 8 d6Ops d6State d6_run
  obtain ⟨⟨e, he, hid, hl, hmo⟩, hnr⟩ := stale_in_cycle_D6
  exact hnr (hid ▸ ((hex e he hl).1 4).mp hmo)

/-- D16 witness: person 13 in group 1; delete the group; revive it. -/
def d16Ops : List Op := [.create 13 false [], .create 1 true [13], .delete [1], .revive 1]

def d16State : State :=
  [⟨13, false, true, [], [], [], []⟩, ⟨1, true, true, [13], [], [], []⟩]

theorem d16_run : run 8 [] d16Ops = some d16State := by rfl

/-- D16: the revived group lists the person again, the person's memberof and
directmemberof do not mention the group. -/
theorem revive_group_members_stale :
    Edge d16State 1 13 ∧ ∃ e ∈ d16State, e.id = 13 ∧ e.live = true ∧ 1 ∉ e.mo ∧ 1 ∉ e.dmo := by
  refine ⟨⟨⟨1, true, true, [13], [], [], []⟩, by decide, by decide, rfl⟩, by decide⟩

theorem closure_exact_full_false_revive : ¬ closure_exact_full := by
  intro h
  have hex := h 8 d16Ops d16State d16_run
  obtain ⟨hedge, e, he, hid, hl, _, hdmo⟩ := revive_group_members_stale
  exact hdmo (((hex e he hl).2 1).mpr (hid ▸ hedge))

/-- The D16 history is exactly what `Safe` excludes. -/
example : ¬ Safe 8 [] d16Ops := by decide

/-! ## termination of the worklist -/

/-- On a graph with a topological ranking bounded by `R`, `apply_memberof` finishes within
`R + 1` iterations of its loop, from any affected set ranked below `R`. -/
theorem worklist_terminates_ranked (rank : Nat → Nat) (R : Nat) (s : State) (aff : List Nat)
    (hr : Ranked s rank) (hm : ∀ g ∈ s, ∀ m ∈ g.member, rank m ≤ R)
    (ha : ∀ x ∈ aff, rank x ≤ R) :
    ∃ s', applyMemberOf (R + 1) s aff = some s' := by
  obtain ⟨r, hr'⟩ := applyGroups_terminates_ranked rank R (R + 1) 0 s aff aff hr hm
    (fun x hx => ⟨Nat.zero_le _, ha x hx⟩) (by omega)
  obtain ⟨s1, all1⟩ := r
  exact ⟨s1.map (leafUpd s1 all1), by simp [applyMemberOf, hr']⟩

example : ∃ s', applyMemberOf 4 demoState [2, 3, 13] = some s' := ⟨_, rfl⟩

/-- D21 witness: the state before the last modify (group 1 holds the D6-stale value 10,
sustained only by its self link) and the modify `member(1) := {2}` closing the cycle 1→2→3→1. -/
def d21Prefix : List Op :=
  [.create 10 true [], .create 1 true [1], .setMembers 10 [1], .setMembers 10 [],
   .create 3 true [1], .create 2 true [3]]

def d21State : State :=
  [⟨10, true, true, [], [], [], []⟩, ⟨1, true, true, [1], [1, 2, 3, 10], [1, 3], []⟩,
   ⟨3, true, true, [1], [2], [2], []⟩, ⟨2, true, true, [3], [], [], []⟩]

theorem d21_prefix_run : run 8 [] d21Prefix = some d21State := by rfl

/-- The worklist configurations the loop goes through: three rounds of lead-in, then a
period of three in which the stale value 10 rotates round the new cycle 1→2→3→1. -/
def d21c0 : State × List Nat := (setMem d21State 1 [2], modifyAffected 1 [1] [2])
def d21c1 : State × List Nat := roundStep d21c0.1 d21c0.2
def d21c2 : State × List Nat := roundStep d21c1.1 d21c1.2
def d21c3 : State × List Nat := roundStep d21c2.1 d21c2.2
def d21c4 : State × List Nat := roundStep d21c3.1 d21c3.2
def d21c5 : State × List Nat := roundStep d21c4.1 d21c4.2

def d21Orbit : List (State × List Nat) := [d21c0, d21c1, d21c2, d21c3, d21c4, d21c5]

theorem d21_period : roundStep d21c5.1 d21c5.2 = d21c3 := by rfl

theorem d21_nonempty : d21c0.2 ≠ [] ∧ d21c1.2 ≠ [] ∧ d21c2.2 ≠ [] ∧ d21c3.2 ≠ [] ∧
    d21c4.2 ≠ [] ∧ d21c5.2 ≠ [] := by
  refine ⟨?_, ?_, ?_, ?_, ?_, ?_⟩ <;> decide

theorem d21_orbit_closed : ∀ c ∈ d21Orbit, c.2 ≠ [] ∧ roundStep c.1 c.2 ∈ d21Orbit := by
  obtain ⟨h0, h1, h2, h3, h4, h5⟩ := d21_nonempty
  intro c hc
  simp only [d21Orbit, List.mem_cons, List.not_mem_nil, or_false] at hc
  rcases hc with rfl | rfl | rfl | rfl | rfl | rfl
  · exact ⟨h0, by simp [d21Orbit, d21c1]⟩
  · exact ⟨h1, by simp [d21Orbit, d21c2]⟩
  · exact ⟨h2, by simp [d21Orbit, d21c3]⟩
  · exact ⟨h3, by simp [d21Orbit, d21c4]⟩
  · exact ⟨h4, by simp [d21Orbit, d21c5]⟩
  · exact ⟨h5, by rw [d21_period]; simp [d21Orbit]⟩

/-- **D21.**  With any fuel the modify never finishes: `apply_memberof` livelocks. -/
theorem worklist_livelock (fuel : Nat) :
    step fuel d21State (.setMembers 1 [2]) = .diverge := by
  have horb := applyGroups_none_of_orbit d21Orbit d21_orbit_closed fuel
    (setMem d21State 1 [2]) (modifyAffected 1 [1] [2]) (modifyAffected 1 [1] [2])
    (by simp [d21Orbit, d21c0])
  have hfind : find d21State 1 = some ⟨1, true, true, [1], [1, 2, 3, 10], [1, 3], []⟩ := by decide
  have hcheck : (!((sdiff (norm [2]) [1]).all fun m => m == 1 || isLive d21State m)) = false := by
    decide
  simp only [step, opSet, hfind, Bool.not_true, Bool.false_eq_true, if_false, hcheck, applyMod,
    applyMemberOf]
  have hn : norm [2] = [2] := by decide
  rw [hn, horb]

/-- Whatever the fuel, the whole D21 history has no resulting state. -/
theorem worklist_livelock_history (fuel : Nat) :
    ∀ s, run fuel d21State [.setMembers 1 [2]] ≠ some s := by
  intro s h
  simp [run, worklist_livelock fuel] at h

end Kanidm.MemberOf
