import KanidmProofs.Lemmas.Unique
/-!
# C19 — unique values stay unique

No two live entries ever share a UUID or a value of any attribute the schema marks unique, whether
the duplicates arrive in one request, in separate transactions, or concurrently on different
replicas; in the replicated case every entry involved in a clash is moved to the conflict state,
identically on every replica.

The theorems are about `Kanidm.Unique.step` / `conflictStep` / `resolveAdd` — the functions the
driver `km_c19` runs against real servers — and depend on the operators regenerated from the
source into `KanidmModel/Generated/UniqueOps.lean`.
-/
namespace Kanidm.Unique
open Kanidm.Gen

/-! ## one server: every operation preserves uniqueness -/

theorem of_not_not {b : Bool} (h : ¬ (!b) = true) : b = true := by cases b <;> simp_all

theorem create_uniq {s s' : State} {cands : List Entry} (hu : Uniq s)
    (h : create s cands = .ok s') : Uniq s' := by
  unfold create at h
  simp only at h
  split at h
  · cases h
  · split at h
    · cases h
    · next hbase =>
      split at h
      · cases h
      · next hun =>
        cases h
        have hbase' := (baseOk_iff _ _).mp (of_not_not hbase)
        have hun' := (enforceUnique_iff _ _).mp (by rw [← uniqueHook_iff]; exact of_not_not hun)
        obtain ⟨hnd, hfresh⟩ := hbase'
        obtain ⟨hin, hdb⟩ := hun'
        refine ⟨?_, ?_⟩
        · -- uuids: old ones distinct, new ones distinct, new ones unknown
          unfold IdsNodup
          rw [List.map_append, List.nodup_append]
          refine ⟨hu.1, hnd, ?_⟩
          intro a ha b hb hab
          obtain ⟨e, he, rfl⟩ := List.mem_map.mp ha
          obtain ⟨c, hc, rfl⟩ := List.mem_map.mp hb
          exact hfresh c hc e he hab
        · intro e1 h1 e2 h2 hl1 hl2 k hk1 hk2
          rcases List.mem_append.mp h1 with h1 | h1 <;> rcases List.mem_append.mp h2 with h2 | h2
          · exact hu.2 e1 h1 e2 h2 hl1 hl2 k hk1 hk2
          · exact hdb e2 h2 hl2 e1 h1 hl1 k hk2 hk1
          · exact (hdb e1 h1 hl1 e2 h2 hl2 k hk1 hk2).symm
          · exact hin e1 h1 e2 h2 hl1 hl2 k hk1 hk2

theorem modify_uniq {s s' : State} {ids : List Nat} {sets : List (Nat × List Nat)} (hu : Uniq s)
    (h : modify s ids sets = .ok s') : Uniq s' := by
  unfold modify at h
  simp only at h
  split at h
  · cases h; exact hu
  · split at h
    · cases h
    · next hun =>
      cases h
      have hun' := (enforceUnique_iff _ _).mp (by rw [← uniqueHook_iff]; exact of_not_not hun)
      obtain ⟨hin, hdb⟩ := hun'
      refine ⟨?_, ?_⟩
      · unfold IdsNodup
        rw [map_id_congr (by intro e; split <;> rfl)]
        exact hu.1
      · intro e1' h1 e2' h2 hl1 hl2 k hk1 hk2
        obtain ⟨e1, m1, rfl⟩ := List.mem_map.mp h1
        obtain ⟨e2, m2, rfl⟩ := List.mem_map.mp h2
        by_cases c1 : (e1.isLive && ids.contains e1.id) = true <;>
          by_cases c2 : (e2.isLive && ids.contains e2.id) = true
        · -- both rewritten: the in-request rule
          simp only [c1, c2, if_true] at hl1 hl2 hk1 hk2 ⊢
          have f1 : setKeys e1 sets ∈ (s.filter (fun e => e.isLive && ids.contains e.id)).map (fun e => setKeys e sets) :=
            List.mem_map.mpr ⟨e1, List.mem_filter.mpr ⟨m1, c1⟩, rfl⟩
          have f2 : setKeys e2 sets ∈ (s.filter (fun e => e.isLive && ids.contains e.id)).map (fun e => setKeys e sets) :=
            List.mem_map.mpr ⟨e2, List.mem_filter.mpr ⟨m2, c2⟩, rfl⟩
          exact hin _ f1 _ f2 hl1 hl2 k hk1 hk2
        · -- e1 rewritten, e2 untouched: the database rule
          simp only [c1, c2, if_true] at hl1 hl2 hk1 hk2 ⊢
          have f1 : setKeys e1 sets ∈ (s.filter (fun e => e.isLive && ids.contains e.id)).map (fun e => setKeys e sets) :=
            List.mem_map.mpr ⟨e1, List.mem_filter.mpr ⟨m1, c1⟩, rfl⟩
          simp only [Bool.false_eq_true, if_false] at hl2 hk2 ⊢
          exact (hdb _ f1 hl1 e2 m2 hl2 k hk1 hk2).symm
        · simp only [c1, c2, if_true] at hl1 hl2 hk1 hk2 ⊢
          have f2 : setKeys e2 sets ∈ (s.filter (fun e => e.isLive && ids.contains e.id)).map (fun e => setKeys e sets) :=
            List.mem_map.mpr ⟨e2, List.mem_filter.mpr ⟨m2, c2⟩, rfl⟩
          simp only [Bool.false_eq_true, if_false] at hl1 hk1 ⊢
          exact hdb _ f2 hl2 e1 m1 hl1 k hk2 hk1
        · simp only [c1, c2, Bool.false_eq_true, if_false] at hl1 hl2 hk1 hk2 ⊢
          exact hu.2 e1 m1 e2 m2 hl1 hl2 k hk1 hk2

theorem delete_uniq {s s' : State} {ids : List Nat} (hu : Uniq s)
    (h : delete s ids = .ok s') : Uniq s' := by
  unfold delete at h
  simp only at h
  split at h
  · cases h
  · cases h
    refine ⟨?_, ?_⟩
    · unfold IdsNodup
      rw [map_id_congr (by intro e; split <;> rfl)]
      exact hu.1
    · intro e1' h1 e2' h2 hl1 hl2 k hk1 hk2
      obtain ⟨e1, m1, rfl⟩ := List.mem_map.mp h1
      obtain ⟨e2, m2, rfl⟩ := List.mem_map.mp h2
      by_cases c1 : (e1.isLive && ids.contains e1.id) = true
      · simp only [c1, if_true] at hl1
        exact absurd hl1 (by simp [Entry.isLive])
      · by_cases c2 : (e2.isLive && ids.contains e2.id) = true
        · simp only [c2, if_true] at hl2
          exact absurd hl2 (by simp [Entry.isLive])
        · simp only [c1, c2, Bool.false_eq_true, if_false] at hl1 hl2 hk1 hk2 ⊢
          exact hu.2 e1 m1 e2 m2 hl1 hl2 k hk1 hk2

theorem revive_uniq {s s' : State} {ids : List Nat} (hu : Uniq s)
    (h : revive s ids = .ok s') : Uniq s' := by
  unfold revive at h
  simp only [UniqueOps.reviveRunsPreModify, Bool.true_and] at h
  split at h
  · cases h
  · split at h
    · cases h
    · next hun =>
      cases h
      have hun' := (enforceUnique_iff _ _).mp (by rw [← uniqueHook_iff]; exact of_not_not hun)
      obtain ⟨hin, hdb⟩ := hun'
      refine ⟨?_, ?_⟩
      · unfold IdsNodup
        rw [map_id_congr (by intro e; split <;> rfl)]
        exact hu.1
      · intro e1' h1 e2' h2 hl1 hl2 k hk1 hk2
        obtain ⟨e1, m1, rfl⟩ := List.mem_map.mp h1
        obtain ⟨e2, m2, rfl⟩ := List.mem_map.mp h2
        by_cases c1 : ((e1.st == .recycled || e1.st == .conflict) && ids.contains e1.id) = true <;>
          by_cases c2 : ((e2.st == .recycled || e2.st == .conflict) && ids.contains e2.id) = true
        · simp only [c1, c2, if_true] at hl1 hl2 hk1 hk2 ⊢
          have f1 : ({ e1 with st := .live } : Entry) ∈ (s.filter (fun e => (e.st == .recycled || e.st == .conflict) && ids.contains e.id)).map (fun e => { e with st := .live }) :=
            List.mem_map.mpr ⟨e1, List.mem_filter.mpr ⟨m1, c1⟩, rfl⟩
          have f2 : ({ e2 with st := .live } : Entry) ∈ (s.filter (fun e => (e.st == .recycled || e.st == .conflict) && ids.contains e.id)).map (fun e => { e with st := .live }) :=
            List.mem_map.mpr ⟨e2, List.mem_filter.mpr ⟨m2, c2⟩, rfl⟩
          exact hin { e1 with st := .live } f1 { e2 with st := .live } f2 rfl rfl k hk1 hk2
        · simp only [c1, c2, if_true] at hl1 hl2 hk1 hk2 ⊢
          have f1 : ({ e1 with st := .live } : Entry) ∈ (s.filter (fun e => (e.st == .recycled || e.st == .conflict) && ids.contains e.id)).map (fun e => { e with st := .live }) :=
            List.mem_map.mpr ⟨e1, List.mem_filter.mpr ⟨m1, c1⟩, rfl⟩
          simp only [Bool.false_eq_true, if_false] at hl2 hk2 ⊢
          exact (hdb _ f1 rfl e2 m2 hl2 k hk1 hk2).symm
        · simp only [c1, c2, if_true] at hl1 hl2 hk1 hk2 ⊢
          have f2 : ({ e2 with st := .live } : Entry) ∈ (s.filter (fun e => (e.st == .recycled || e.st == .conflict) && ids.contains e.id)).map (fun e => { e with st := .live }) :=
            List.mem_map.mpr ⟨e2, List.mem_filter.mpr ⟨m2, c2⟩, rfl⟩
          simp only [Bool.false_eq_true, if_false] at hl1 hk1 ⊢
          exact hdb _ f2 rfl e1 m1 hl1 k hk2 hk1
        · simp only [c1, c2, Bool.false_eq_true, if_false] at hl1 hl2 hk1 hk2 ⊢
          exact hu.2 e1 m1 e2 m2 hl1 hl2 k hk1 hk2

/-- **Invariant step.** Whatever the operation — a create of several candidates, a modify of
several entries, a delete, a revive — and whether it succeeds or fails, uuids stay pairwise
distinct and live entries share no unique value. -/
theorem unique_inv_step (s : State) (op : Op) (hu : Uniq s) : Uniq (step s op) := by
  unfold step
  cases hres : stepRes s op with
  | err k => exact hu
  | ok s' =>
    simp only
    cases op with
    | create cands => exact create_uniq hu hres
    | modify ids sets => exact modify_uniq hu hres
    | delete ids => exact delete_uniq hu hres
    | revive ids => exact revive_uniq hu hres

/-- **Invariant over histories** (duplicates arriving in separate transactions). -/
theorem unique_inv_history (ops : List Op) (s : State) (hu : Uniq s) : Uniq (run s ops) := by
  induction ops generalizing s with
  | nil => exact hu
  | cons op ops ih => exact ih (step s op) (unique_inv_step s op hu)

/-- **The property on one server.** After any history, two live entries with the same uuid, or
sharing a value of a unique attribute, are one and the same entry. -/
theorem unique_values_stay_unique (s : State) (ops : List Op) (hu : Uniq s) (e1 e2 : Entry)
    (h1 : e1 ∈ run s ops) (h2 : e2 ∈ run s ops) :
    (e1.id = e2.id → e1 = e2) ∧
    (e1.isLive = true → e2.isLive = true → (∃ k, k ∈ e1.keys ∧ k ∈ e2.keys) → e1 = e2) := by
  have hr := unique_inv_history ops s hu
  refine ⟨fun hid => eq_of_nodup_map_id hr.1 h1 h2 hid, ?_⟩
  rintro hl1 hl2 ⟨k, hk1, hk2⟩
  exact eq_of_nodup_map_id hr.1 h1 h2 (hr.2 e1 h1 e2 h2 hl1 hl2 k hk1 hk2)

/-- **Duplicates in one request / against the database are refused, and nothing else is.**
`enforce_unique` accepts exactly the candidate sets that are clash-free among themselves and
against the live entries of the database (other uuids). -/
theorem enforce_unique_exact (db cands : List Entry) :
    enforceUnique db cands = true ↔
      (∀ c1 ∈ cands, ∀ c2 ∈ cands, c1.isLive = true → c2.isLive = true →
        ∀ k, k ∈ c1.keys → k ∈ c2.keys → c1.id = c2.id) ∧
      (∀ c ∈ cands, c.isLive = true → ∀ e ∈ db, e.isLive = true →
        ∀ k, k ∈ c.keys → k ∈ e.keys → e.id = c.id) := enforceUnique_iff db cands

/-- Base refuses a create exactly when a uuid is repeated in the request or known to the
database in any state (live, recycled, conflict, tombstone). -/
theorem base_uuid_exact (db cands : List Entry) :
    baseOk db cands = true ↔ (cands.map (·.id)).Nodup ∧ ∀ c ∈ cands, ∀ e ∈ db, e.id ≠ c.id :=
  baseOk_iff db cands

/-! ## replicas: value clashes -/

/-- **After the conflict step live entries are unique again**, provided every clash involves an
entry that arrived (the consumer was consistent before the replication step). -/
theorem repl_conflict_restores_unique (db : List Entry) (candIds : List Nat) (hids : IdsNodup db)
    (hcov : Covered db candIds) : Uniq (conflictStep db candIds) := by
  refine ⟨?_, ?_⟩
  · unfold IdsNodup
    rw [conflictStep_ids]
    exact hids
  · intro e1' h1 e2' h2 hl1 hl2 k hk1 hk2
    unfold conflictStep at h1 h2
    obtain ⟨e1, m1, rfl⟩ := List.mem_map.mp h1
    obtain ⟨e2, m2, rfl⟩ := List.mem_map.mp h2
    by_cases c1 : ((conflictSet db candIds).contains e1.id && e1.isLive && UniqueOps.toConflictHides) = true
    · simp only [c1, if_true] at hl1
      exact absurd hl1 (by simp [Entry.isLive])
    · by_cases c2 : ((conflictSet db candIds).contains e2.id && e2.isLive && UniqueOps.toConflictHides) = true
      · simp only [c2, if_true] at hl2
        exact absurd hl2 (by simp [Entry.isLive])
      · simp only [c1, c2, Bool.false_eq_true, if_false] at hl1 hl2 hk1 hk2 ⊢
        by_cases hid : e1.id = e2.id
        · exact hid
        · exfalso
          have hcl : Clash db e1 e2 := ⟨m1, m2, hl1, hl2, hid, k, hk1, hk2⟩
          have hin : e1.id ∈ conflictSet db candIds := (conflictSet_iff hcov _).mpr ⟨e1, e2, hcl, rfl⟩
          apply c1
          simp [hin, hl1, UniqueOps.toConflictHides]

/-- The hypothesis `Covered` is what a consistent consumer gives: if live entries were unique
before the step and `incremental_apply` rewrote or added only the arrived uuids, every clash of the
merged database involves an arrived entry. -/
theorem covered_of_consistent_consumer (pre db : List Entry) (candIds : List Nat)
    (hpre : KeysUnique pre) (hsame : ∀ e ∈ db, e.id ∉ candIds → e ∈ pre) : Covered db candIds := by
  intro e1 e2 ⟨h1, h2, l1, l2, hne, k, hk1, hk2⟩
  by_cases c1 : e1.id ∈ candIds
  · exact Or.inl c1
  · by_cases c2 : e2.id ∈ candIds
    · exact Or.inr c2
    · exact absurd (hpre e1 (hsame e1 h1 c1) e2 (hsame e2 h2 c2) l1 l2 k hk1 hk2) hne

/-- **A replication step preserves uniqueness** on a consumer that satisfied it before: whatever
`incremental_apply` wrote for the arrived uuids (any merge result, any number of new entries, uuids
still pairwise distinct), after `post_repl_incremental_conflict` no two live entries share a
unique value. -/
theorem repl_step_preserves_unique (pre db : List Entry) (candIds : List Nat) (hpre : Uniq pre)
    (hids : IdsNodup db) (hsame : ∀ e ∈ db, e.id ∉ candIds → e ∈ pre) :
    Uniq (conflictStep db candIds) :=
  repl_conflict_restores_unique db candIds hids
    (covered_of_consistent_consumer pre db candIds hpre.2 hsame)

/-- **Every entry involved in a clash becomes a conflict, and only those.** -/
theorem repl_conflict_exact (db : List Entry) (candIds : List Nat) (hids : IdsNodup db)
    (hcov : Covered db candIds) (e : Entry) (he : e ∈ db) (hl : e.isLive = true) :
    (∃ e' ∈ conflictStep db candIds, e'.id = e.id ∧ e'.st = .conflict) ↔ ∃ e2, Clash db e e2 := by
  have hst : e.st = .live := by simpa [Entry.isLive] using hl
  constructor
  · rintro ⟨e', hmem, hid, hc⟩
    unfold conflictStep at hmem
    obtain ⟨y, hy, rfl⟩ := List.mem_map.mp hmem
    have hyid : y.id = e.id := by
      split at hid <;> exact hid
    have hye : y = e := eq_of_nodup_map_id hids hy he hyid
    subst hye
    by_cases c : ((conflictSet db candIds).contains y.id && y.isLive && UniqueOps.toConflictHides) = true
    · simp only [Bool.and_eq_true, List.contains_eq_mem, decide_eq_true_eq] at c
      obtain ⟨e1, e2, hcl, hid1⟩ := (conflictSet_iff hcov _).mp c.1.1
      have : e1 = y := eq_of_nodup_map_id hids hcl.1 hy hid1.symm
      subst this
      exact ⟨e2, hcl⟩
    · simp only [c, Bool.false_eq_true, if_false] at hc
      rw [hst] at hc; cases hc
  · rintro ⟨e2, hcl⟩
    have hin : e.id ∈ conflictSet db candIds := (conflictSet_iff hcov _).mpr ⟨e, e2, hcl, rfl⟩
    refine ⟨{ e with st := .conflict }, ?_, rfl, rfl⟩
    unfold conflictStep
    refine List.mem_map.mpr ⟨e, he, ?_⟩
    simp [hin, hl, UniqueOps.toConflictHides]

/-- **Identically on every replica.** The set of uuids that become conflicts is determined by the
merged live value set alone: two replicas holding the same entries (in any order) mark the same
uuids, whichever entries arrived on which of them. -/
theorem repl_conflict_symmetric (db1 db2 : List Entry) (c1 c2 : List Nat)
    (hsame : ∀ e, e ∈ db1 ↔ e ∈ db2) (h1 : Covered db1 c1) (h2 : Covered db2 c2) (u : Nat) :
    u ∈ conflictSet db1 c1 ↔ u ∈ conflictSet db2 c2 := by
  rw [conflictSet_iff h1, conflictSet_iff h2]
  constructor
  · rintro ⟨e1, e2, ⟨a, b, r⟩, hu⟩
    exact ⟨e1, e2, ⟨(hsame _).mp a, (hsame _).mp b, r⟩, hu⟩
  · rintro ⟨e1, e2, ⟨a, b, r⟩, hu⟩
    exact ⟨e1, e2, ⟨(hsame _).mpr a, (hsame _).mpr b, r⟩, hu⟩

/-- … and on one replica the outcome does not depend on which clashing entries are reported as
arrived. -/
theorem repl_conflict_step_indep (db : List Entry) (c1 c2 : List Nat)
    (h1 : Covered db c1) (h2 : Covered db c2) : conflictStep db c1 = conflictStep db c2 := by
  unfold conflictStep
  apply List.map_congr_left
  intro e _
  have : (conflictSet db c1).contains e.id = (conflictSet db c2).contains e.id := by
    have := repl_conflict_symmetric db db c1 c2 (fun _ => Iff.rfl) h1 h2 e.id
    by_cases h : e.id ∈ conflictSet db c1
    · simp [h, this.mp h]
    · have h' : e.id ∉ conflictSet db c2 := fun x => h (this.mpr x)
      simp [h, h']
  rw [this]

/-! ## replicas: the same uuid created twice -/

/-- **One survivor, the same everywhere.** When two servers created the same uuid (distinct
creation ids), each of them — receiving the other's entry — keeps the entry with the smaller
creation id. -/
theorem resolve_add_symmetric (a b : Nat) (x y : AtEntry) (hne : x.cat ≠ y.cat) :
    (resolveAdd a x y).1 = (resolveAdd b y x).1 ∧
    (resolveAdd a x y).1 = (if x.cat < y.cat then x else y) := by
  simp only [resolveAdd, UniqueOps.addConflictWhen, UniqueOps.incomingLoses, UniqueOps.copyOnlyAtOrigin]
  have hne' : y.cat ≠ x.cat := fun h => hne h.symm
  by_cases h : x.cat < y.cat
  · have h1 : ¬ x.cat > y.cat := by omega
    have h2 : y.cat > x.cat := h
    simp [hne, hne', h, h1, h2]
  · have h1 : x.cat > y.cat := by omega
    have h2 : ¬ y.cat > x.cat := by omega
    simp [hne, hne', h, h1, h2]

/-- The conflict copy of the loser is written only by the server the loser was created on. -/
theorem resolve_add_copy_at_origin (self : Nat) (incoming db : AtEntry)
    (h : (resolveAdd self incoming db).2 = true) :
    db.origin = self ∧ incoming.cat < db.cat ∧ (resolveAdd self incoming db).1 = incoming := by
  simp only [resolveAdd, UniqueOps.addConflictWhen, UniqueOps.incomingLoses,
    UniqueOps.copyOnlyAtOrigin, if_true] at h ⊢
  by_cases hne : incoming.cat = db.cat
  · simp [hne] at h
  · by_cases hgt : incoming.cat > db.cat
    · simp [hne, hgt] at h
    · simp only [hne, hgt, ne_eq, not_false_eq_true, decide_true, decide_false, if_true,
        Bool.false_eq_true, if_false, beq_iff_eq] at h ⊢
      exact ⟨h, by omega, trivial⟩

/-! ## the hypotheses are what the driver evaluates on the real servers' state -/

theorem keysUniqueB_iff (s : State) : keysUniqueB s = true ↔ KeysUnique s := by
  simp only [keysUniqueB, KeysUnique, List.all_eq_true, Bool.or_eq_true, Bool.not_eq_true',
    Bool.and_eq_false_iff, beq_iff_eq, List.contains_eq_mem, decide_eq_false_iff_not]
  constructor
  · intro h e1 h1 e2 h2 hl1 hl2 k hk1 hk2
    rcases h e1 h1 e2 h2 with (hf | hid) | hk
    · rcases hf with hf | hf
      · rw [hl1] at hf; cases hf
      · rw [hl2] at hf; cases hf
    · exact hid
    · exact absurd hk2 (hk k hk1)
  · intro h e1 h1 e2 h2
    by_cases hl1 : e1.isLive = true
    · by_cases hl2 : e2.isLive = true
      · by_cases hshare : ∃ k, k ∈ e1.keys ∧ k ∈ e2.keys
        · obtain ⟨k, hk1, hk2⟩ := hshare
          exact Or.inl (Or.inr (h e1 h1 e2 h2 hl1 hl2 k hk1 hk2))
        · exact Or.inr (fun k hk1 hk2 => hshare ⟨k, hk1, hk2⟩)
      · exact Or.inl (Or.inl (Or.inr (by simpa using hl2)))
    · exact Or.inl (Or.inl (Or.inl (by simpa using hl1)))

/-- The `uniq=` flag printed by the driver (`uniqB`) decides `Uniq`. -/
theorem driver_uniq_flag (s : State) : uniqB s = true ↔ Uniq s := by
  simp only [uniqB, Uniq, Bool.and_eq_true, idsNodupB, nodupB_iff, keysUniqueB_iff, IdsNodup]

/-! ## non-vacuity: concrete states and histories -/

/-- two groups and a recycled person; attribute 0 = name, 1 = spn, 2 = gidnumber -/
def exState : State :=
  [⟨1, .live, [(0, 10), (1, 10), (2, 2000)]⟩, ⟨2, .live, [(0, 11), (1, 11)]⟩,
   ⟨3, .recycled, [(0, 10), (1, 10)]⟩]

example : Uniq exState := (driver_uniq_flag _).mp (by decide)

/-- a fresh entry with a free name; a second one with the taken name 11 (refused); two
candidates with the same new name in one request (refused); a rename onto a taken name (refused);
a rename of two entries to one name (refused); revive of 3 while 1 holds its name (refused);
rename 1 away; revive 3 (now fine); re-use of a recycled uuid (refused) -/
def exOps : List Op :=
  [ .create [⟨4, .live, [(0, 12), (1, 12)]⟩],
    .create [⟨5, .live, [(0, 11), (1, 11)]⟩],
    .create [⟨5, .live, [(0, 13), (1, 13)]⟩, ⟨6, .live, [(0, 13), (1, 13)]⟩],
    .modify [4] [(0, [11]), (1, [11])],
    .modify [2, 4] [(0, [14]), (1, [14])],
    .revive [3],
    .modify [1] [(0, [15]), (1, [15])],
    .revive [3],
    .create [⟨3, .live, [(0, 16), (1, 16)]⟩] ]

example : (exOps.foldl (fun (acc : State × List Bool) op =>
    (step acc.1 op, acc.2 ++ [match stepRes acc.1 op with | .ok _ => true | .err _ => false]))
    (exState, [])).2 = [true, false, false, false, false, false, true, true, false] := by decide

example : run exState exOps =
    [⟨1, .live, [(2, 2000), (0, 15), (1, 15)]⟩, ⟨2, .live, [(0, 11), (1, 11)]⟩,
     ⟨3, .live, [(0, 10), (1, 10)]⟩, ⟨4, .live, [(0, 12), (1, 12)]⟩] := by decide

/-- replication: entries 2 and 3 arrive; 3 clashes with the resident 1 on name 10, 2 and 4 are
unaffected — exactly 1 and 3 become conflicts, whichever of them is reported as arrived -/
def exDb : List Entry :=
  [⟨1, .live, [(0, 10)]⟩, ⟨2, .live, [(0, 11)]⟩, ⟨3, .live, [(0, 10)]⟩, ⟨4, .live, [(0, 12)]⟩]

example : conflictStep exDb [2, 3] =
    [⟨1, .conflict, [(0, 10)]⟩, ⟨2, .live, [(0, 11)]⟩, ⟨3, .conflict, [(0, 10)]⟩, ⟨4, .live, [(0, 12)]⟩] := by
  decide

example : conflictStep exDb [1] = conflictStep exDb [2, 3] := by decide

example : uniqB exDb = false ∧ uniqB (conflictStep exDb [2, 3]) = true := by decide

example : Covered exDb [2, 3] := by
  rintro e1 e2 ⟨h1, h2, _, _, hne, k, hk1, hk2⟩
  simp only [exDb, List.mem_cons, List.mem_nil_iff, or_false] at h1 h2
  rcases h1 with rfl | rfl | rfl | rfl <;> rcases h2 with rfl | rfl | rfl | rfl <;>
    simp_all

example : (resolveAdd 1 ⟨⟨7, .live, [(0, 20)]⟩, 5, 2⟩ ⟨⟨7, .live, [(0, 21)]⟩, 9, 1⟩) =
    (⟨⟨7, .live, [(0, 20)]⟩, 5, 2⟩, true) := by decide

end Kanidm.Unique
