import KanidmProofs.Lemmas.Migration
/-!
# C48 — upgrading the domain level preserves data and consistency

Property theorems over `KanidmModel/Migration.lean` (which runs on the regenerated
`Generated/MigrationOps.lean`).  Three groups:

1. the upsert of one definition (`internal_migrate_or_create` through `gen_modlist_assert`): exactly which
   values of the stored entry are kept, replaced, added; idempotence;
2. the database: a migration level touches only the uuids it defines or deletes — every other entry keeps
   its state and every value, for every starting database, every schema table and every plugin verdict,
   whether or not a batch fails; uuids stay unique; a batch that reports no error leaves every definition
   present with its values;
3. the driver (`initialise_helper`, `reload_domain_info_version`): refuses downgrades and skips, never lowers
   the level, runs exactly the migrations between the two levels in order, refuses levels in development,
   and the same level again is either nothing or a re-run of the target migration.
-/
namespace Kanidm.Migration
open Kanidm.Gen.Migration

/-- `r` is the refusal `c` -/
def FailsWith {ε α : Type} (r : Except ε α) (c : ε) : Prop := r = Except.error c

/-! ## 1. the upsert of one definition -/

/-- attributes the migrate arm never asserts: not named by the definition, the uuid, `member_create_once`,
    the ignore list (`credential_type_minimum`) -/
def Unasserted (d : Def) (a : Nat) : Prop :=
  a ∉ keys d ∨ a = attrUuid ∨ a = attrMemberCreateOnce ∨ a ∈ ignoreAttrs

/-- what the definition asserts of attribute `a` -/
def Asserted (d : Def) (a : Nat) (vs : List Nat) : Prop :=
  (a, vs) ∈ d ∧ a ≠ attrUuid ∧ a ≠ attrMemberCreateOnce ∧ a ∉ ignoreAttrs

/-- Every attribute the definition does not assert keeps exactly its stored values. -/
theorem upsert_unnamed_kept (multi : Nat → Option Bool) (d : Def) (ms : List Mod) (e : Ent) (a : Nat)
    (h : genModlistAssert multi (stripForMigrate d) = some ms) (ha : Unasserted d a) :
    applyMods e ms a = e a := by
  apply gen_untouched multi _ ms e a h
  rcases ha with ha | ha | ha | ha
  · exact Or.inl (fun hk => ha (keys_strip_sub d a hk))
  · exact Or.inr ha
  · exact Or.inl (not_mem_keys_strip d a (Or.inl ha))
  · exact Or.inl (not_mem_keys_strip d a (Or.inr ha))

/-- The exact values of an asserted attribute afterwards: the definition's values only if the attribute is
    single-valued or on the purge list of `gen_modlist_assert`, stored ∪ defined otherwise. -/
theorem upsert_defined_exact (multi : Nat → Option Bool) (d : Def) (ms : List Mod) (e : Ent)
    (h : genModlistAssert multi (stripForMigrate d) = some ms) (hnd : (keys d).Nodup)
    (a : Nat) (vs : List Nat) (r : Bool) (ha : Asserted d a vs) (hr : multi a = some r) (v : Nat) :
    v ∈ applyMods e ms a ↔
      (if purgeWhen r (forcePurgeAttrs.contains a) then v ∈ vs else (v ∈ e a ∨ v ∈ vs)) :=
  gen_defined multi _ ms e h (keys_strip_nodup d hnd) a vs r
    (mem_strip d a vs ha.1 ha.2.2.1 ha.2.2.2) ha.2.1 hr v

/-- The entry carries every value its definition specifies. -/
theorem upsert_defined_superset (multi : Nat → Option Bool) (d : Def) (ms : List Mod) (e : Ent)
    (h : genModlistAssert multi (stripForMigrate d) = some ms) (hnd : (keys d).Nodup)
    (a : Nat) (vs : List Nat) (ha : Asserted d a vs) (v : Nat) (hv : v ∈ vs) :
    v ∈ applyMods e ms a := by
  have hk : a ∈ keys (stripForMigrate d) :=
    List.mem_map.mpr ⟨(a, vs), mem_strip d a vs ha.1 ha.2.2.1 ha.2.2.2, rfl⟩
  obtain ⟨r, hr⟩ := gen_multi_known multi _ ms h a hk ha.2.1
  rw [upsert_defined_exact multi d ms e h hnd a vs r ha hr v]
  split
  · exact hv
  · exact Or.inr hv

/-- Values an administrator added to a multi-valued attribute that is not on the purge list stay. -/
theorem upsert_user_multi_kept (multi : Nat → Option Bool) (d : Def) (ms : List Mod) (e : Ent)
    (h : genModlistAssert multi (stripForMigrate d) = some ms) (hnd : (keys d).Nodup)
    (a : Nat) (vs : List Nat) (ha : Asserted d a vs) (hr : multi a = some true)
    (hp : forcePurgeAttrs.contains a = false) (v : Nat) (hv : v ∈ e a) :
    v ∈ applyMods e ms a := by
  rw [upsert_defined_exact multi d ms e h hnd a vs true ha hr v, hp]
  simp [purgeWhen, hv]

/-- A single-valued attribute, or one on the purge list, ends with exactly the definition's values. -/
theorem upsert_single_replaced (multi : Nat → Option Bool) (d : Def) (ms : List Mod) (e : Ent)
    (h : genModlistAssert multi (stripForMigrate d) = some ms) (hnd : (keys d).Nodup)
    (a : Nat) (vs : List Nat) (r : Bool) (ha : Asserted d a vs) (hr : multi a = some r)
    (hp : r = false ∨ forcePurgeAttrs.contains a = true) (v : Nat) :
    v ∈ applyMods e ms a ↔ v ∈ vs := by
  rw [upsert_defined_exact multi d ms e h hnd a vs r ha hr v]
  rcases hp with hp | hp
  · subst hp; simp [purgeWhen]
  · rw [hp]; simp [purgeWhen]

/-- Asserting the same definition twice equals once (as sets of values, attribute by attribute). -/
theorem upsert_idempotent (multi : Nat → Option Bool) (d : Def) (ms : List Mod) (e : Ent)
    (h : genModlistAssert multi (stripForMigrate d) = some ms) (hnd : (keys d).Nodup) (a v : Nat) :
    v ∈ applyMods (applyMods e ms) ms a ↔ v ∈ applyMods e ms a := by
  by_cases hk : a ∈ keys (stripForMigrate d) ∧ a ≠ attrUuid
  · obtain ⟨hk, hu⟩ := hk
    obtain ⟨p, hp, hpa⟩ := List.mem_map.mp hk
    obtain ⟨a', vs⟩ := p
    simp at hpa
    subst hpa
    obtain ⟨r, hr⟩ := gen_multi_known multi _ ms h a' hk hu
    have hnd' := keys_strip_nodup d hnd
    rw [gen_defined multi _ ms (applyMods e ms) h hnd' a' vs r hp hu hr v,
      gen_defined multi _ ms e h hnd' a' vs r hp hu hr v]
    split
    · exact Iff.rfl
    · constructor
      · intro h'
        rcases h' with h' | h'
        · exact h'
        · exact Or.inr h'
      · intro h'
        exact Or.inl h'
  · have hu : a ∉ keys (stripForMigrate d) ∨ a = attrUuid := by
      by_cases h1 : a ∈ keys (stripForMigrate d)
      · by_cases h2 : a = attrUuid
        · exact Or.inr h2
        · exact absurd ⟨h1, h2⟩ hk
      · exact Or.inl h1
    rw [gen_untouched multi _ ms (applyMods e ms) a h hu]

/-! ## 2. the database -/

theorem mem_setAttrs_of_ne (db : List DbEntry) (u : Nat) (e : Ent) (x : DbEntry)
    (hx : x ∈ db) (hne : x.uuid ≠ u) : x ∈ setAttrs db u e := by
  unfold setAttrs
  apply List.mem_map.mpr
  refine ⟨x, hx, ?_⟩
  have : (x.uuid == u) = false := by simp [hne]
  simp [this]

theorem setAttrs_uuids (db : List DbEntry) (u : Nat) (e : Ent) :
    (setAttrs db u e).map (·.uuid) = db.map (·.uuid) := by
  unfold setAttrs
  rw [List.map_map]
  apply List.map_congr_left
  intro y _
  simp only [Function.comp]
  split <;> rfl

/-- One upsert changes or creates only the entry with the definition's uuid. -/
theorem migrateOrCreate_frame (env : Env) (db db' : List DbEntry) (u : Nat) (d : Def)
    (h : migrateOrCreate env db u d = .ok db') (x : DbEntry) (hx : x ∈ db) (hne : x.uuid ≠ u) :
    x ∈ db' := by
  unfold migrateOrCreate at h
  split at h
  · simp only at h
    split at h
    · cases h
    · injection h with h
      subst h
      exact List.mem_append_left _ hx
  · split at h
    · cases h
    · simp only at h
      split at h
      · injection h with h
        subst h
        exact mem_setAttrs_of_ne db u _ x hx hne
      · cases h
  · cases h

/-- The uuids of the database after an upsert: the same, or one new uuid that no entry had. -/
theorem migrateOrCreate_uuids (env : Env) (db db' : List DbEntry) (u : Nat) (d : Def)
    (h : migrateOrCreate env db u d = .ok db') :
    db'.map (·.uuid) = db.map (·.uuid) ∨
      (db'.map (·.uuid) = db.map (·.uuid) ++ [u] ∧ u ∉ db.map (·.uuid)) := by
  unfold migrateOrCreate at h
  split at h
  · simp only at h
    split at h
    · cases h
    · rename_i hc
      injection h with h
      subst h
      right
      refine ⟨by simp, ?_⟩
      intro hmem
      apply hc
      rcases List.mem_map.mp hmem with ⟨y, hy, hyu⟩
      have : db.any (fun x => x.uuid == u) = true := List.any_eq_true.mpr ⟨y, hy, by simp [hyu]⟩
      simp [this]
  · split at h
    · cases h
    · simp only at h
      split at h
      · injection h with h
        subst h
        exact Or.inl (setAttrs_uuids db u _)
      · cases h
  · cases h

def UuidNodup (db : List DbEntry) : Prop := (db.map (·.uuid)).Nodup

/-- uuid uniqueness (over every state of entry) survives an upsert -/
theorem migrateOrCreate_nodup (env : Env) (db db' : List DbEntry) (u : Nat) (d : Def)
    (h : migrateOrCreate env db u d = .ok db') (hn : UuidNodup db) : UuidNodup db' := by
  unfold UuidNodup at *
  rcases migrateOrCreate_uuids env db db' u d h with h1 | ⟨h1, h2⟩
  · rw [h1]; exact hn
  · rw [h1]
    apply List.nodup_append.mpr
    refine ⟨hn, by simp, ?_⟩
    intro a ha b hb
    simp at hb
    subst hb
    exact fun hab => h2 (hab ▸ ha)

/-- with unique uuids the `InvalidDbState` arm of the upsert is unreachable -/
theorem no_invalid_state (env : Env) (db : List DbEntry) (u : Nat) (d : Def) (hn : UuidNodup db) :
    ¬ FailsWith (migrateOrCreate env db u d) Err.invalidDbState := by
  unfold FailsWith
  have hlen : (hits db u).length ≤ 1 := by
    unfold UuidNodup at hn
    unfold hits
    induction db with
    | nil => simp
    | cons y ys ih =>
      have hn' := List.nodup_cons.mp hn
      by_cases hy : (y.live && y.uuid == u) = true
      · have hyu : y.uuid = u := by
          simp at hy; exact hy.2
        have : List.filter (fun x => x.live && x.uuid == u) ys = [] := by
          apply List.filter_eq_nil_iff.mpr
          intro z hz hzz
          simp at hzz
          exact hn'.1 (List.mem_map.mpr ⟨z, hz, by simp [hzz.2, hyu]⟩)
        simp [hy, this]
      · simp only [List.filter_cons, hy]
        exact ih hn'.2
  unfold migrateOrCreate
  split
  · simp only
    split <;> simp
  · split
    · simp
    · simp only
      split <;> simp
  · rename_i hne1 hne2
    exfalso
    match hh : hits db u, hlen with
    | [], _ => exact hne1 hh
    | [x], _ => exact hne2 x hh
    | _ :: _ :: _, hl => simp at hl

/-- A batch — failing or not — leaves every entry it does not define exactly as it was. -/
theorem batch_frame (env : Env) : ∀ (defs : List (Nat × Def)) (db : List DbEntry) (x : DbEntry),
    x ∈ db → (∀ p ∈ defs, p.1 ≠ x.uuid) → x ∈ (batch env db defs).1
  | [], db, x, hx, _ => by simpa [batch] using hx
  | (u, d) :: rest, db, x, hx, hd => by
    unfold batch
    cases h : migrateOrCreate env db u d with
    | error e => simpa using hx
    | ok db' =>
      simp only
      apply batch_frame env rest db' x
      · exact migrateOrCreate_frame env db db' u d h x hx
          (fun heq => hd (u, d) (List.mem_cons_self) heq.symm)
      · exact fun p hp => hd p (List.mem_cons_of_mem _ hp)

theorem batch_nodup (env : Env) : ∀ (defs : List (Nat × Def)) (db : List DbEntry),
    UuidNodup db → UuidNodup (batch env db defs).1
  | [], db, hn => by simpa [batch] using hn
  | (u, d) :: rest, db, hn => by
    unfold batch
    cases h : migrateOrCreate env db u d with
    | error e => simpa using hn
    | ok db' =>
      simp only
      exact batch_nodup env rest db' (migrateOrCreate_nodup env db db' u d h hn)

/-- `y` is `x` up to references to entries the migration deleted. -/
structure Kept (isRef : Nat → Bool) (gone : List Nat) (x y : DbEntry) : Prop where
  uuid : y.uuid = x.uuid
  live : y.live = x.live
  sub : ∀ a v, v ∈ y.attrs a → v ∈ x.attrs a
  sup : ∀ a v, v ∈ x.attrs a → v ∈ y.attrs a ∨ (isRef a = true ∧ v ∈ gone)

theorem Kept.refl (isRef : Nat → Bool) (gone : List Nat) (x : DbEntry) : Kept isRef gone x x :=
  ⟨rfl, rfl, fun _ _ h => h, fun _ _ h => Or.inl h⟩

theorem Kept.mono {isRef : Nat → Bool} {g g' : List Nat} {x y : DbEntry} (h : Kept isRef g x y)
    (hg : ∀ v ∈ g, v ∈ g') : Kept isRef g' x y :=
  ⟨h.uuid, h.live, h.sub, fun a v hv => (h.sup a v hv).imp id (fun ⟨h1, h2⟩ => ⟨h1, hg v h2⟩)⟩

theorem Kept.trans {isRef : Nat → Bool} {g : List Nat} {x y z : DbEntry} (h1 : Kept isRef g x y)
    (h2 : Kept isRef g y z) : Kept isRef g x z :=
  ⟨h2.uuid.trans h1.uuid, h2.live.trans h1.live, fun a v hv => h1.sub a v (h2.sub a v hv),
   fun a v hv => by
    rcases h1.sup a v hv with h | h
    · exact h2.sup a v h
    · exact Or.inr h⟩

/-- A delete step keeps every entry it does not match, up to references to what it deleted. -/
theorem deleteWhere_kept (isRef : Nat → Bool) (p : DbEntry → Bool) (s : St) (x : DbEntry)
    (hx : x ∈ s.db) (hp : (x.live && p x) = false) :
    ∃ y ∈ (deleteWhere isRef p s).db, Kept isRef (deleteHits p s.db) x y := by
  refine ⟨{ x with attrs := unref isRef (deleteHits p s.db) x.attrs }, ?_, ?_⟩
  · unfold deleteWhere
    apply List.mem_map.mpr
    exact ⟨x, hx, by simp [hp]⟩
  · refine ⟨rfl, rfl, ?_, ?_⟩
    · intro a v hv
      simp only [unref] at hv
      split at hv
      · exact (List.mem_filter.mp hv).1
      · exact hv
    · intro a v hv
      by_cases hr : isRef a = true
      · by_cases hg : v ∈ deleteHits p s.db
        · exact Or.inr ⟨hr, hg⟩
        · left
          simp only [unref, hr, if_true]
          apply List.mem_filter.mpr
          refine ⟨hv, ?_⟩
          simp [hg]
      · left
        simp only [unref]
        rw [if_neg hr]
        exact hv

/-- the entry is none of the migration's business: no batch of `steps` defines its uuid, the delete list
    does not name it, the db-schema delete filter does not match it -/
def Untouched (env : Env) (ld : LevelData) (steps : List Step) (x : DbEntry) : Prop :=
  (∀ n, Step.batch n ∈ steps → ∀ p ∈ ld.batches n, p.1 ≠ x.uuid) ∧
  (Step.deleteBatch ∈ steps → ld.dels.contains x.uuid = false) ∧
  (Step.deleteDbSchema ∈ steps → matchesDbSchema env x = false)

theorem matchesDbSchema_congr (env : Env) (x y : DbEntry) (hc : env.isRef attrClass = false)
    (g : List Nat) (h : Kept env.isRef g x y) : matchesDbSchema env y = matchesDbSchema env x := by
  have hiff : ∀ v, v ∈ y.attrs attrClass ↔ v ∈ x.attrs attrClass := by
    intro v
    constructor
    · exact h.sub attrClass v
    · intro hv
      rcases h.sup attrClass v hv with h' | h'
      · exact h'
      · rw [hc] at h'; exact absurd h'.1 (by simp)
  have hcont : ∀ v, (y.attrs attrClass).contains v = (x.attrs attrClass).contains v := by
    intro v
    rw [Bool.eq_iff_iff]
    simp [hiff v]
  unfold matchesDbSchema
  simp only [hcont]

/-- **User data is unchanged by a whole migration level**, for every starting database, schema table and
    plugin verdict: an entry the level neither defines nor deletes is still there in the same state, and it
    has exactly its values — except references to entries the level deleted (referential integrity). -/
theorem runSteps_user_data (env : Env) (ld : LevelData) (hc : env.isRef attrClass = false)
    (x : DbEntry) : ∀ (steps : List Step) (s : St) (y : DbEntry), Untouched env ld steps x →
      y ∈ s.db → Kept env.isRef s.gone x y →
      ∃ z ∈ (runSteps env ld s steps).db, Kept env.isRef (runSteps env ld s steps).gone x z
  | [], s, y, _, hy, hk => ⟨y, by simpa [runSteps] using hy, by simpa [runSteps] using hk⟩
  | st :: rest, s, y, hu, hy, hk => by
    have hu' : Untouched env ld rest x :=
      ⟨fun n hn => hu.1 n (List.mem_cons_of_mem _ hn), fun h => hu.2.1 (List.mem_cons_of_mem _ h),
       fun h => hu.2.2 (List.mem_cons_of_mem _ h)⟩
    have hstep : ∃ z ∈ (runStep env ld s st).db, Kept env.isRef (runStep env ld s st).gone x z := by
      cases st with
      | batch n =>
        refine ⟨y, ?_, hk⟩
        show y ∈ (batch env s.db (ld.batches n)).1
        apply batch_frame env _ s.db y hy
        intro p hp
        rw [hk.uuid]
        exact hu.1 n (List.mem_cons_self) p hp
      | deleteBatch =>
        have hp : (y.live && ld.dels.contains y.uuid) = false := by
          rw [hk.uuid, hu.2.1 (List.mem_cons_self)]; simp
        obtain ⟨z, hz, hkz⟩ := deleteWhere_kept env.isRef (fun x => ld.dels.contains x.uuid) s y hy hp
        refine ⟨z, hz, ?_⟩
        show Kept env.isRef (s.gone ++ deleteHits _ s.db) x z
        exact (hk.mono (fun v hv => List.mem_append_left _ hv)).trans
          (hkz.mono (fun v hv => List.mem_append_right _ hv))
      | deleteDbSchema =>
        have hp : (y.live && matchesDbSchema env y) = false := by
          rw [matchesDbSchema_congr env x y hc s.gone hk, hu.2.2 (List.mem_cons_self)]; simp
        obtain ⟨z, hz, hkz⟩ := deleteWhere_kept env.isRef (matchesDbSchema env) s y hy hp
        refine ⟨z, hz, ?_⟩
        show Kept env.isRef (s.gone ++ deleteHits _ s.db) x z
        exact (hk.mono (fun v hv => List.mem_append_left _ hv)).trans
          (hkz.mono (fun v hv => List.mem_append_right _ hv))
      | schemaInMemory => exact ⟨y, hy, hk⟩
      | reload => exact ⟨y, hy, hk⟩
      | reindex => exact ⟨y, hy, hk⟩
      | phase p => exact ⟨y, hy, hk⟩
      | fixup => exact ⟨y, hy, hk⟩
    obtain ⟨z, hz, hkz⟩ := hstep
    have := runSteps_user_data env ld hc x rest (runStep env ld s st) z hu' hz hkz
    simpa [runSteps] using this

/-- The instance the property talks about: the steps of the migration to `DOMAIN_TGT_LEVEL`, from the
    database as it is (nothing deleted yet). -/
theorem target_level_keeps_user_data (env : Env) (ld : LevelData) (hc : env.isRef attrClass = false)
    (db : List DbEntry) (x : DbEntry) (hx : x ∈ db) (hu : Untouched env ld targetSteps x) :
    ∃ z ∈ (runSteps env ld ⟨db, []⟩ targetSteps).db,
      Kept env.isRef (runSteps env ld ⟨db, []⟩ targetSteps).gone x z :=
  runSteps_user_data env ld hc x targetSteps ⟨db, []⟩ x hu hx (Kept.refl _ _ x)

/-- With the filter as written (`f_and` of both schema classes) an entry that has only one of the two
    classes — every real schema entry, hence every user-defined schema extension — is not deleted. -/
theorem custom_schema_entries_survive (env : Env) (x : DbEntry)
    (h : (x.attrs attrClass).contains env.valClassType ≠ (x.attrs attrClass).contains env.valAttributeType) :
    matchesDbSchema env x = false := by
  unfold matchesDbSchema
  simp only [dbSchemaFilterIsAnd, if_true]
  cases h1 : (x.attrs attrClass).contains env.valClassType <;>
    cases h2 : (x.attrs attrClass).contains env.valAttributeType <;> simp_all

/-- the deletes keep uuids unique as well -/
theorem deleteWhere_nodup (isRef : Nat → Bool) (p : DbEntry → Bool) (s : St) (hn : UuidNodup s.db) :
    UuidNodup (deleteWhere isRef p s).db := by
  unfold UuidNodup deleteWhere at *
  simp only
  rw [List.map_map]
  have : (List.map ((fun x : DbEntry => x.uuid) ∘ fun x =>
      if (x.live && p x) = true then { x with live := false }
      else { x with attrs := unref isRef (deleteHits p s.db) x.attrs }) s.db) = s.db.map (·.uuid) := by
    apply List.map_congr_left
    intro y _
    simp only [Function.comp]
    split <;> rfl
  rw [this]
  exact hn

/-- **Consistency invariant carried by the model**: uuids stay unique through a whole level. -/
theorem runSteps_nodup (env : Env) (ld : LevelData) : ∀ (steps : List Step) (s : St),
    UuidNodup s.db → UuidNodup (runSteps env ld s steps).db
  | [], s, hn => by simpa [runSteps] using hn
  | st :: rest, s, hn => by
    have : UuidNodup (runStep env ld s st).db := by
      cases st with
      | batch n => exact batch_nodup env _ s.db hn
      | deleteBatch => exact deleteWhere_nodup _ _ s hn
      | deleteDbSchema => exact deleteWhere_nodup _ _ s hn
      | schemaInMemory => exact hn
      | reload => exact hn
      | reindex => exact hn
      | phase p => exact hn
      | fixup => exact hn
    have := runSteps_nodup env ld rest (runStep env ld s st) this
    simpa [runSteps] using this

/-- What is trusted of schema validation and the plugins for a consistency invariant `Inv` of the database
    (the relatives' invariants: membership closure C17, references C16, unique names C19, spn C22 — as far as
    they are statements about the stored state): a create / modify they ACCEPT keeps `Inv`, and so does a
    delete with its reference clean-up. -/
structure PluginsKeep (env : Env) (Inv : List DbEntry → Prop) : Prop where
  create : ∀ db u e, Inv db → env.acceptCreate db u e = true → Inv (db ++ [⟨u, true, e⟩])
  modify : ∀ db x e, Inv db → x ∈ db → env.acceptModify db x e = true → Inv (setAttrs db x.uuid e)
  delete : ∀ p s, Inv s.db → Inv (deleteWhere env.isRef p s).db

theorem migrateOrCreate_inv (env : Env) (Inv : List DbEntry → Prop) (hk : PluginsKeep env Inv)
    (db db' : List DbEntry) (u : Nat) (d : Def) (h : migrateOrCreate env db u d = .ok db') (hi : Inv db) :
    Inv db' := by
  unfold migrateOrCreate at h
  split at h
  · simp only at h
    split at h
    · cases h
    · rename_i hc
      injection h with h
      subst h
      apply hk.create db u _ hi
      simp at hc
      exact hc.2
  · rename_i x hx
    split at h
    · cases h
    · simp only at h
      split at h
      · rename_i hacc
        injection h with h
        subst h
        have hxin : x ∈ hits db u := by rw [hx]; simp
        have hx' := List.mem_filter.mp hxin
        have hu : x.uuid = u := by
          have := hx'.2; simp at this; exact this.2
        have := hk.modify db x _ hi hx'.1 hacc
        rw [hu] at this
        exact this
      · cases h
  · cases h

theorem batch_inv (env : Env) (Inv : List DbEntry → Prop) (hk : PluginsKeep env Inv) :
    ∀ (defs : List (Nat × Def)) (db : List DbEntry), Inv db → Inv (batch env db defs).1
  | [], db, hi => by simpa [batch] using hi
  | (u, d) :: rest, db, hi => by
    unfold batch
    cases h : migrateOrCreate env db u d with
    | error e => simpa using hi
    | ok db' =>
      simp only
      exact batch_inv env Inv hk rest db' (migrateOrCreate_inv env Inv hk db db' u d h hi)

/-- **Every consistency invariant the plugins keep write by write is kept by a whole migration level** —
    a failing batch included (its completed upserts were accepted ones). -/
theorem runSteps_preserves_invariant (env : Env) (ld : LevelData) (Inv : List DbEntry → Prop)
    (hk : PluginsKeep env Inv) : ∀ (steps : List Step) (s : St), Inv s.db → Inv (runSteps env ld s steps).db
  | [], s, hi => by simpa [runSteps] using hi
  | st :: rest, s, hi => by
    have : Inv (runStep env ld s st).db := by
      cases st with
      | batch n => exact batch_inv env Inv hk _ s.db hi
      | deleteBatch => exact hk.delete _ s hi
      | deleteDbSchema => exact hk.delete _ s hi
      | schemaInMemory => exact hi
      | reload => exact hi
      | reindex => exact hi
      | phase p => exact hi
      | fixup => exact hi
    have := runSteps_preserves_invariant env ld Inv hk rest (runStep env ld s st) this
    simpa [runSteps] using this

/-- non-vacuity of `PluginsKeep`: uuid uniqueness, for any environment whose create refuses a uuid that is
    already there (the base plugin) -/
theorem pluginsKeep_uuidNodup (env : Env)
    (hfresh : ∀ db u e, env.acceptCreate db u e = true → u ∉ db.map (·.uuid)) :
    PluginsKeep env UuidNodup := by
  refine ⟨?_, ?_, ?_⟩
  · intro db u e hn hacc
    unfold UuidNodup at *
    simp only [List.map_append, List.map_cons, List.map_nil]
    apply List.nodup_append.mpr
    refine ⟨hn, by simp, ?_⟩
    intro a ha b hb
    simp at hb
    subst hb
    exact fun hab => hfresh db b e hacc (hab ▸ ha)
  · intro db x e hn _ _
    unfold UuidNodup at *
    rw [setAttrs_uuids]
    exact hn
  · intro p s hn
    exact deleteWhere_nodup env.isRef p s hn

/-- the entry with `uuid`, live, carrying the asserted values of `d` -/
def Carries (db : List DbEntry) (u : Nat) (d : Def) : Prop :=
  ∃ y ∈ db, y.uuid = u ∧ y.live = true ∧
    ∀ a vs, Asserted d a vs → a ≠ attrMember → ∀ v ∈ vs, v ∈ y.attrs a

theorem lookup_of_mem_nodup : ∀ (d : Def) (a : Nat) (vs : List Nat), (keys d).Nodup → (a, vs) ∈ d →
    d.lookup a = some vs
  | [], _, _, _, h => by simp at h
  | (k, ws) :: rest, a, vs, hn, h => by
    have hn' := List.nodup_cons.mp hn
    rcases List.mem_cons.mp h with heq | hin
    · injection heq with h1 h2
      subst h1; subst h2
      simp [List.lookup]
    · have hne : a ≠ k := by
        intro hak
        apply hn'.1
        rw [← hak]
        exact List.mem_map.mpr ⟨(a, vs), hin, rfl⟩
      have : (a == k) = false := by simp [hne]
      simp only [List.lookup, this]
      exact lookup_of_mem_nodup rest a vs hn'.2 hin

theorem lookup_filter_ne (d : Def) (b a : Nat) (h : a ≠ b) :
    (d.filter (fun p => !(p.1 == b))).lookup a = d.lookup a := by
  induction d with
  | nil => rfl
  | cons p rest ih =>
    obtain ⟨k, ws⟩ := p
    by_cases hk : k = b
    · subst hk
      have : (a == k) = false := by simp [h]
      simp [List.filter, List.lookup, this, ih]
    · have hkb : (k == b) = false := by simp [hk]
      simp only [List.filter, hkb, Bool.not_false, List.lookup]
      split
      · rfl
      · exact ih

theorem lookup_map_member_ne (d : Def) (f : List Nat → List Nat) (a : Nat) (h : a ≠ attrMember) :
    (d.map (fun p => if p.1 == attrMember then (p.1, f p.2) else p)).lookup a = d.lookup a := by
  induction d with
  | nil => rfl
  | cons p rest ih =>
    obtain ⟨k, ws⟩ := p
    simp only [List.map_cons]
    by_cases hk : (k == attrMember) = true
    · have hkk : k = attrMember := by simpa using hk
      have hak : (a == k) = false := by rw [hkk]; simp [h]
      rw [if_pos hk]
      simp only [List.lookup_cons, hak]
      exact ih
    · rw [if_neg hk]
      simp only [List.lookup_cons]
      rw [ih]

theorem lookup_append_ne (d : Def) (b a : Nat) (ws : List Nat) (h : a ≠ b) :
    (d ++ [(b, ws)]).lookup a = d.lookup a := by
  induction d with
  | nil =>
    have : (a == b) = false := by simp [h]
    simp [List.lookup, this]
  | cons p rest ih =>
    obtain ⟨k, vs⟩ := p
    simp only [List.cons_append, List.lookup]
    split
    · rfl
    · exact ih

/-- a created entry carries the definition's values of every attribute but `member_create_once` / `member` -/
theorem entOfDef_merge (d : Def) (hnd : (keys d).Nodup) (a : Nat) (vs : List Nat) (h : (a, vs) ∈ d)
    (h1 : a ≠ attrMemberCreateOnce) (h2 : a ≠ attrMember) :
    entOfDef (mergeCreateOnce d) a = vs := by
  have hl := lookup_of_mem_nodup d a vs hnd h
  have key : (mergeCreateOnce d).lookup a = some vs := by
    unfold mergeCreateOnce
    cases h3 : d.lookup attrMemberCreateOnce with
    | none => simpa using hl
    | some once =>
      simp only
      cases h4 : (d.filter (fun p => !(p.1 == attrMemberCreateOnce))).lookup attrMember with
      | some ms =>
        simp only
        rw [lookup_map_member_ne _ (fun _ => ms ++ once.filter (fun v => !ms.contains v)) a h2,
          lookup_filter_ne d _ a h1, hl]
      | none =>
        simp only
        rw [lookup_append_ne _ _ a _ h2, lookup_filter_ne d _ a h1, hl]
  unfold entOfDef lookupVals
  rw [key]

/-- After a successful upsert the definition's entry exists, live, with the asserted values (the `member`
    attribute of the create arm is the union with `member_create_once`, stated by `mergeCreateOnce`). -/
theorem migrateOrCreate_carries (env : Env) (db db' : List DbEntry) (u : Nat) (d : Def)
    (hnd : (keys d).Nodup) (h : migrateOrCreate env db u d = .ok db') : Carries db' u d := by
  unfold migrateOrCreate at h
  split at h
  · simp only at h
    split at h
    · cases h
    · injection h with h
      subst h
      refine ⟨⟨u, true, entOfDef (mergeCreateOnce d)⟩, List.mem_append_right _ (by simp), rfl, rfl, ?_⟩
      intro a vs ha hm v hv
      show v ∈ entOfDef (mergeCreateOnce d) a
      rw [entOfDef_merge d hnd a vs ha.1 ha.2.2.1 hm]
      exact hv
  · rename_i x hx
    split at h
    · cases h
    · rename_i ms hms
      simp only at h
      split at h
      · injection h with h
        subst h
        have hxin : x ∈ hits db u := by rw [hx]; simp
        have hx' := List.mem_filter.mp hxin
        have hcond : (x.live && x.uuid == u) = true := hx'.2
        refine ⟨{ x with attrs := applyMods x.attrs ms }, ?_, ?_, ?_, ?_⟩
        · unfold setAttrs
          apply List.mem_map.mpr
          exact ⟨x, hx'.1, by simp [hcond]⟩
        · simp at hcond; exact hcond.2
        · simp at hcond; exact hcond.1
        · intro a vs ha _ v hv
          exact upsert_defined_superset env.multi d ms x.attrs hms hnd a vs ha v hv
      · cases h
  · cases h

/-- **Every built-in entry of a batch that reports no error exists afterwards with its values**
    (definitions of distinct uuids, as the data of a level are). -/
theorem batch_carries (env : Env) : ∀ (defs : List (Nat × Def)) (db : List DbEntry),
    (defs.map (·.1)).Nodup → (∀ p ∈ defs, (keys p.2).Nodup) → (batch env db defs).2 = none →
    ∀ p ∈ defs, Carries (batch env db defs).1 p.1 p.2
  | [], _, _, _, _ => by intro p hp; simp at hp
  | (u, d) :: rest, db, hn, hk, hok => by
    have hn' := List.nodup_cons.mp hn
    unfold batch at hok ⊢
    cases h : migrateOrCreate env db u d with
    | error e => simp [h] at hok
    | ok db' =>
      simp only [h] at hok ⊢
      intro p hp
      rcases List.mem_cons.mp hp with heq | hin
      · subst heq
        obtain ⟨y, hy, hyu, hyl, hyv⟩ :=
          migrateOrCreate_carries env db db' u d (hk (u, d) (List.mem_cons_self)) h
        refine ⟨y, ?_, hyu, hyl, hyv⟩
        apply batch_frame env rest db' y hy
        intro q hq heq
        apply hn'.1
        rw [← hyu, ← heq]
        exact List.mem_map.mpr ⟨q, hq, rfl⟩
      · exact batch_carries env rest db' hn'.2 (fun q hq => hk q (List.mem_cons_of_mem _ hq)) hok p hin

/-! ## 3. the driver -/

/-- **A downgrade is refused.** -/
theorem init_refuses_downgrade (dbv tgt : Nat) (taint : Bool) (patch : Nat) (h : tgt < dbv) :
    FailsWith (initialiseExisting dbv tgt taint patch) Code.MG0010 := by
  unfold FailsWith initialiseExisting
  have h1 : needsUpgrade dbv tgt = false := by simp [needsUpgrade]; omega
  have h2 : isDowngrade dbv tgt = true := by simp [isDowngrade]; omega
  simp [h1, h2]

/-- **An upgrade from below the supported minimum is refused** (no skipping). -/
theorem init_refuses_skip (dbv tgt : Nat) (taint : Bool) (patch : Nat) (h : dbv < tgt)
    (hs : dbv < domainMigrationFromMin) : FailsWith (initialiseExisting dbv tgt taint patch) Code.MG0008 := by
  unfold FailsWith initialiseExisting
  have h1 : needsUpgrade dbv tgt = true := by simp [needsUpgrade]; omega
  have h2 : skipRefused dbv = true := by simp [skipRefused]; omega
  simp [h1, h2]

theorem finishInit_level (patch level memv : Nat) (ran : List Nat) (rr : Bool) (l : Nat) (fs : List Nat)
    (h : finishInit patch level memv ran rr = .ok (l, fs)) : l = level := by
  unfold finishInit at h
  simp only at h
  split at h
  · split at h
    · cases h
    · injection h with h; injection h with h1 _; exact h1.symm
  · injection h with h; injection h with h1 _; exact h1.symm

/-- **The driver never lowers the level**: a successful start ends exactly at the requested level, which is
    not below the database's. -/
theorem init_ok_level (dbv tgt : Nat) (taint : Bool) (patch : Nat) (l : Nat) (fs : List Nat)
    (h : initialiseExisting dbv tgt taint patch = .ok (l, fs)) : l = tgt ∧ dbv ≤ l := by
  unfold initialiseExisting at h
  by_cases h1 : needsUpgrade dbv tgt = true
  · rw [if_pos h1] at h
    have hlt : dbv < tgt := by simpa [needsUpgrade] using h1
    split at h
    · cases h
    · split at h
      · cases h
      · have := finishInit_level _ _ _ _ _ _ _ h
        exact ⟨this, by omega⟩
  · rw [if_neg h1] at h
    have hge : ¬ dbv < tgt := by simpa [needsUpgrade] using h1
    by_cases h2 : isDowngrade dbv tgt = true
    · rw [if_pos h2] at h; cases h
    · rw [if_neg h2] at h
      have hle : ¬ dbv > tgt := by simpa [isDowngrade] using h2
      have heq : dbv = tgt := by omega
      split at h
      · have := finishInit_level _ _ _ _ _ _ _ h
        exact ⟨by omega, by omega⟩
      · have := finishInit_level _ _ _ _ _ _ _ h
        exact ⟨by omega, by omega⟩

def okFns (r : Except Code (List Nat)) : Option (List Nat) :=
  match r with
  | .ok l => some l
  | .error _ => none

def okLevelFns (r : Except Code (Nat × List Nat)) : Option (Nat × List Nat) :=
  match r with
  | .ok l => some l
  | .error _ => none

/-- the migration functions whose level lies in `(prev, new]`, in table order -/
def expectedFns (prev new : Nat) : List Nat :=
  (migrationLevel.filter (fun p => decide (prev < p.2) && decide (p.2 ≤ new))).map (·.1)

def gatesCoverB : Bool :=
  (List.range 24).all fun prev => (List.range 24).all fun new =>
    !(decide (domainMinRemigrationLevel ≤ prev) && decide (prev < new) && decide (new ≤ domainTgtLevel)) ||
      decide (okFns (reloadVersion prev new domainTgtPatchLevel domainTgtPatchLevel false) =
        some (expectedFns prev new))

theorem gatesCoverB_true : gatesCoverB = true := by decide +kernel

/-- **The gate chain runs exactly the migrations between the two levels, in order** — for every pair of
    levels from the re-migration floor up to the target level (levels are bounded by the table). -/
theorem gates_cover_range (prev new : Nat) (hp : prev < 24) (hn : new < 24)
    (h1 : domainMinRemigrationLevel ≤ prev) (h2 : prev < new) (h3 : new ≤ domainTgtLevel) :
    okFns (reloadVersion prev new domainTgtPatchLevel domainTgtPatchLevel false) =
      some (expectedFns prev new) := by
  have h := gatesCoverB_true
  unfold gatesCoverB at h
  have h' := List.all_eq_true.mp h prev (List.mem_range.mpr hp)
  have h'' := List.all_eq_true.mp h' new (List.mem_range.mpr hn)
  simp only [h1, h2, h3, decide_true, Bool.and_self, Bool.not_true, Bool.false_or, decide_eq_true_eq] at h''
  exact h''

/-- **The upgrade the property is about**: from the previous level to the target level the driver runs the
    target level's migration function, once, and ends at the target level (tainted or not). -/
theorem previous_to_target_runs_target_migration : ∀ taint : Bool,
    okLevelFns (initialiseExisting domainPreviousTgtLevel domainTgtLevel taint domainTgtPatchLevel) =
      targetMigration.map (fun f => (domainTgtLevel, [f])) := by
  decide +kernel

def beyondTargetB : Bool :=
  (List.range 24).all fun dbv => (List.range 24).all fun tgt => [true, false].all fun taint =>
    (List.range 4).all fun patch =>
      !(decide (0 < dbv) && decide (dbv ≤ domainTgtLevel) && decide (domainTgtLevel < tgt)) ||
        decide (okLevelFns (initialiseExisting dbv tgt taint patch) = none)

theorem beyondTargetB_true : beyondTargetB = true := by decide +kernel

/-- **Levels in development are refused**: from any supported level no start ends above the target level. -/
theorem beyond_target_refused (dbv tgt : Nat) (taint : Bool) (patch : Nat) (hd : dbv < 24) (ht : tgt < 24)
    (hp : patch < 4) (h1 : 0 < dbv) (h2 : dbv ≤ domainTgtLevel) (h3 : domainTgtLevel < tgt) :
    okLevelFns (initialiseExisting dbv tgt taint patch) = none := by
  have h := beyondTargetB_true
  unfold beyondTargetB at h
  have ha := List.all_eq_true.mp h dbv (List.mem_range.mpr hd)
  have hb := List.all_eq_true.mp ha tgt (List.mem_range.mpr ht)
  have hc := List.all_eq_true.mp hb taint (by cases taint <;> simp)
  have he := List.all_eq_true.mp hc patch (List.mem_range.mpr hp)
  simp only [h1, h2, h3, decide_true, Bool.and_self, Bool.not_true, Bool.false_or, decide_eq_true_eq] at he
  exact he

/-- **The same level again without the development taint does nothing.** -/
theorem same_level_untainted_noop (l : Nat) :
    initialiseExisting l l false domainTgtPatchLevel = .ok (l, []) := by
  unfold initialiseExisting finishInit
  simp [needsUpgrade, isDowngrade, patchNeeded]

/-- **The same level again with the development taint re-runs exactly the target migration** — the case the
    idempotence theorem (`upsert_idempotent`) is about. -/
theorem same_level_tainted_reruns_target :
    okLevelFns (initialiseExisting domainTgtLevel domainTgtLevel true domainTgtPatchLevel) =
      targetMigration.map (fun f => (domainTgtLevel, [f])) := by
  decide +kernel

def isBatch : Step → Bool
  | .batch _ => true
  | _ => false

/-- every `batch` is preceded (since the last batch of a lower phase number) by the reload that loads what it
    needs: the statement list has the shape schema → reload → reindex → … with a reload between batch 3, batch 4
    and batch 5, no data fix-up, and the deletes after the last batch -/
def wellOrdered (steps : List Step) : Bool :=
  steps == [.schemaInMemory, .reload, .reindex, .deleteDbSchema, .phase 1, .batch 3, .reload, .batch 4,
    .reload, .phase 2, .batch 5, .batch 6, .batch 7, .deleteBatch, .reload]

/-- **Order of the target migration**: the schema is extended and reloaded before any data batch, key
    providers are reloaded before the system entries, those before the built-in accounts, groups and access
    controls; there is no hand-written data fix-up; the level ends with a reload. -/
theorem target_steps_shape :
    targetMigration.isSome = true ∧ wellOrdered targetSteps = true ∧
      targetSteps.all (fun s => s != Step.fixup) = true := by
  decide +kernel

/-! ## non-vacuity -/

/-- a definition with a single-valued (5), a multi-valued (6), a purge-listed (20), an ignored (10) attribute,
    `member_create_once` and the uuid -/
def exDef : Def := [(0, [77]), (1, [9]), (5, [50]), (6, [60, 61]), (10, [1]), (20, [7])]
def exMulti : Nat → Option Bool := fun a => if a = 5 then some false else if a < 30 then some true else none
def exEnt : Ent := fun a => if a = 5 then [51] else if a = 6 then [62] else if a = 10 then [2] else if a = 20 then [8] else if a = 40 then [4] else []

example : (keys exDef).Nodup := by decide
example : ∃ ms, genModlistAssert exMulti (stripForMigrate exDef) = some ms ∧
    applyMods exEnt ms 5 = [50] ∧ applyMods exEnt ms 6 = [62, 60, 61] ∧ applyMods exEnt ms 10 = [2] ∧
    applyMods exEnt ms 20 = [7] ∧ applyMods exEnt ms 40 = [4] ∧ applyMods exEnt ms 1 = [] :=
  ⟨_, rfl, by decide, by decide, by decide, by decide, by decide, by decide⟩
example : Asserted exDef 6 [60, 61] := by unfold Asserted; decide
example : Unasserted exDef 10 := by unfold Unasserted; decide

def exEnv : Env :=
  { multi := exMulti, acceptCreate := fun _ _ _ => true, acceptModify := fun _ _ _ => true,
    isRef := fun a => a == 2, valClassType := 1, valAttributeType := 2 }
/-- a database with a built-in entry (uuid 77), a user group (uuid 500) that has the to-be-deleted entry 90
    as a member, and entry 90 -/
def exDb : List DbEntry :=
  [⟨77, true, exEnt⟩, ⟨500, true, fun a => if a = 2 then [90, 77] else if a = 3 then [1] else []⟩, ⟨90, true, fun _ => []⟩]
def exLd : LevelData := { batches := fun n => if n = 5 then [(77, exDef)] else [], dels := [90] }

example : Untouched exEnv exLd targetSteps ⟨500, true, fun a => if a = 2 then [90, 77] else if a = 3 then [1] else []⟩ := by
  refine ⟨?_, ?_, ?_⟩
  · intro n _ p hp
    simp only [exLd] at hp
    split at hp
    · simp at hp; subst hp; decide
    · simp at hp
  · intro _; decide
  · intro _; decide
example : ((runSteps exEnv exLd ⟨exDb, []⟩ targetSteps).db.map (fun x => (x.uuid, x.live, x.attrs 2, x.attrs 5))) =
    [(77, true, [], [50]), (500, true, [77], []), (90, false, [], [])] := by decide
example : UuidNodup exDb := by unfold UuidNodup; decide

end Kanidm.Migration
