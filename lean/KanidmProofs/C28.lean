import KanidmProofs.Lemmas.SoftLock
/-!
# C28 — Failed credentials are rate limited

Property theorems only (helper lemmas: `Lemmas/SoftLock.lean`).  The model
(`KanidmModel/SoftLock.lean`) transcribes `credential/softlock.rs`; thresholds, delays, `ONEDAY`,
the `failure_next_state` wrapper guard, every comparison of `apply_time_step` and the counts of
`record_failure` are regenerated from the source on every run
(`KanidmModel/Generated/SoftLockTable.lean`), so each theorem below is re-proved about the
current source.

Time is in nanoseconds; `applyTimeStep s t none` is a time step without administrator-set
expiry; `attempt` is the server's protocol (time step, `is_valid`, credential check only if valid,
`record_failure` on denial, nothing on success).
-/
namespace Kanidm.SoftLock
open Kanidm.Gen.SoftLock

/-! ## 1. After a failure the credential is refused until its unlock time -/

/-- **locked_until_unlock**: a recorded failure (any previous state, any time `ct`, any policy
that locks at all) leaves the lock `Locked` with `ct < unlock_at ≤ reset_at`, and any number of
later time steps at times `≤ unlock_at` (in any order, without admin expiry) leave exactly that
state: the credential is refused until its unlock time.

Before the repair of D18 (`reset_at` could be earlier than `unlock_at` for a failure just before a
window boundary) this statement was false: see `d18_regression`. -/
theorem locked_until_unlock (s : SoftLock) (ct : Nat) (hwf : s.policy.WF)
    (hp : s.policy ≠ .unrestricted) :
    ∃ c r u, (recordFailure s ct).state = .locked c r u ∧ ct < u ∧ u ≤ r ∧
      ∀ ts : List Nat, (∀ t ∈ ts, t ≤ u) →
        (ts.foldl (fun a t => applyTimeStep a t none) (recordFailure s ct)).state = .locked c r u ∧
        isValid (ts.foldl (fun a t => applyTimeStep a t none) (recordFailure s ct)) = false := by
  have hst := recordFailure_state s ct
  have hin := failureNextStateInner_eq hp (nextCount s.state) ct
  obtain ⟨r, hr, _, _⟩ := clamp_locked (nextCount s.state) (windowEndOf s.policy ct)
    (unlockOf s.policy (nextCount s.state) ct)
  have hur := clamp_ge_unlock hr
  rw [← hin] at hr
  refine ⟨_, r, _, hst.trans hr, unlockOf_gt hwf hp _ ct, hur, ?_⟩
  intro ts
  have key : ∀ (a : SoftLock), a.state = .locked (nextCount s.state) r
      (unlockOf s.policy (nextCount s.state) ct) →
      (∀ t ∈ ts, t ≤ unlockOf s.policy (nextCount s.state) ct) →
      (ts.foldl (fun a t => applyTimeStep a t none) a).state = .locked (nextCount s.state) r
        (unlockOf s.policy (nextCount s.state) ct) := by
    induction ts with
    | nil => intro a ha _; exact ha
    | cons t ts ih =>
      intro a ha hts
      have ht := hts t List.mem_cons_self
      exact ih _ (locked_stays ha (by omega) ht) (fun x hx => hts x (List.mem_cons_of_mem _ hx))
  intro hts
  have := key _ (hst.trans hr) hts
  exact ⟨this, by simp [isValid, this]⟩

/-- Non-vacuity + D18 regression: the 3rd password failure one second before UTC midnight locks
until `86402 s` and is still refused at `86401 s` (the unrepaired code answered "valid"). -/
example :
    let s : SoftLock := { state := .unlocked 2 (fromSecs 86400), policy := .password, lastExpireAt := 0 }
    (recordFailure s (fromSecs 86399)).state = .locked 3 (fromSecs 86402) (fromSecs 86402) ∧
    isValid (applyTimeStep (recordFailure s (fromSecs 86399)) (fromSecs 86401) none) = false := by
  decide

/-! ## 2. Further failures never shorten the lock -/

/-- **failure_never_shortens_lock**: take any history under monotone time from a fresh lock
(attempts, time steps with or without admin expiry, even raw failures recorded while locked), then a
further failure at `ct`.  At no time `t` inside that failure's own window is the credential valid
if it would have been refused at `t` without the failure. -/
theorem failure_never_shortens_lock (p : Policy) (hp : p ≠ .unrestricted)
    (es : List Event) (hm : Mono 0 es) (ct t : Nat) (h1 : lastTime 0 es ≤ ct)
    (h3 : t ≤ windowEndOf p ct)
    (href : isValid (applyTimeStep (run (new p) es) t none) = false) :
    isValid (applyTimeStep (recordFailure (run (new p) es) ct) t none) = false := by
  have hinv : Inv (lastTime 0 es) (run (new p) es) := inv_run (by simp [Inv, new]) es hm
  have hpol : (run (new p) es).policy = p := run_policy _ _
  exact fail_keeps_refusal (by rw [hpol]; exact hp) hinv h1 (by rw [hpol]; exact h3) href

/-- Non-vacuity: two failures 1 s apart, the second one recorded while still locked. -/
example :
    isValid (applyTimeStep (run (new .password) [.fail (fromSecs 10)]) (fromSecs 11) none) = false ∧
    isValid (applyTimeStep (recordFailure (run (new .password) [.fail (fromSecs 10)]) (fromSecs 10)) (fromSecs 11) none) = false := by
  decide

/-- Kept, not claimed: with time running backwards a failure does shorten the lock. -/
theorem nonmonotone_counterexample :
    isValid (applyTimeStep (run (new .password) [.fail (fromSecs 100)]) (fromSecs 100) none) = false ∧
    isValid (applyTimeStep (recordFailure (run (new .password) [.fail (fromSecs 100)]) (fromSecs 50))
      (fromSecs 100) none) = true := by
  decide

/-! ## 3. The count resets only after the reset time or by admin expiry, never by success -/

/-- Stored `reset_at` of a state. -/
def resetAtOf : LockState → Option Nat
  | .init => none
  | .locked _ r _ => some r
  | .unlocked _ r => some r

/-- **count_resets_only_after_reset_or_admin**: a time step (the only operation besides
`record_failure` that touches the lock) either keeps the failure count, or resets the lock to
`Init` — and then the time is strictly after the stored `reset_at`, or the step carried a *new*
administrator-set expiry `x` with `x < reset_at` and `x < ct`.  For every state, time and expiry. -/
theorem count_resets_only_after_reset_or_admin (s : SoftLock) (ct : Nat) (e : Option Nat) :
    countOf (applyTimeStep s ct e).state = countOf s.state ∨
    ((applyTimeStep s ct e).state = .init ∧
      ((∃ r, resetAtOf s.state = some r ∧ r < ct) ∨
       (∃ x c r u, e = some x ∧ x ≠ s.lastExpireAt ∧ s.state = .locked c r u ∧ x < r ∧ x < ct))) := by
  rw [applyTimeStep_state]
  cases hs : s.state with
  | init => exact Or.inl rfl
  | unlocked c r =>
    by_cases h : unlockedResets ct r = true
    · refine Or.inr ⟨by simp [h], Or.inl ⟨r, rfl, ?_⟩⟩
      simpa [unlockedResets] using h
    · exact Or.inl (by simp [h, countOf])
  | locked c r u =>
    by_cases h : lockedResets ct (boundReset s.lastExpireAt r e).2 = true
    · refine Or.inr ⟨by simp [h], ?_⟩
      have hlt : (boundReset s.lastExpireAt r e).2 < ct := by simpa [lockedResets] using h
      cases e with
      | none => exact Or.inl ⟨r, rfl, by simpa [boundReset] using hlt⟩
      | some x =>
        unfold boundReset at hlt
        by_cases h1 : expiryChanged s.lastExpireAt x = true
        · by_cases h2 : resetBeyondExpiry r x = true
          · simp only [h1, h2, if_true] at hlt
            refine Or.inr ⟨x, c, r, u, rfl, ?_, rfl, ?_, hlt⟩
            · have := h1; simp [expiryChanged] at this; exact fun h => this h.symm
            · simpa [resetBeyondExpiry] using h2
          · simp only [h1, h2, if_true] at hlt
            exact Or.inl ⟨r, rfl, by simpa using hlt⟩
        · simp only [h1] at hlt
          exact Or.inl ⟨r, rfl, by simpa using hlt⟩
    · by_cases h2 : lockedUnlocks ct u = true
      · exact Or.inl (by simp [h, h2, countOf])
      · exact Or.inl (by simp [h, h2, countOf])

/-- Non-vacuity of both disjuncts of the reset case. -/
example :
    let s : SoftLock := { state := .locked 5 100 50, policy := .password, lastExpireAt := 0 }
    (applyTimeStep s 101 none).state = .init ∧ (applyTimeStep s 60 (some 55)).state = .init ∧
    countOf (applyTimeStep s 60 none).state = 5 := by decide

/-- **failure_increments_count**: `record_failure` never resets or lowers the count. -/
theorem failure_increments_count (s : SoftLock) (ct : Nat) (hp : s.policy ≠ .unrestricted) :
    countOf (recordFailure s ct).state = countOf s.state + 1 := by
  obtain ⟨r, hr, _, _⟩ := failureNextState_eq hp (nextCount s.state) ct
  rw [recordFailure_state, hr]
  cases s.state <;> simp [countOf, nextCount, failCountInit, failCountLocked, failCountUnlocked]

/-- **success_never_resets**: an attempt whose credential check succeeds leaves exactly the state
of a bare time step — nothing is recorded, in particular the count is not reset by the success
(it changes only as `count_resets_only_after_reset_or_admin` allows); an attempt of either
outcome never yields a smaller count than the bare time step. -/
theorem success_never_resets (s : SoftLock) (ct : Nat) (e : Option Nat) :
    (attempt s ct e true).1 = applyTimeStep s ct e ∧
    ∀ ok, countOf (applyTimeStep s ct e).state ≤ countOf (attempt s ct e ok).1.state ∨
      s.policy = .unrestricted := by
  refine ⟨by simp only [attempt]; split <;> rfl, fun ok => ?_⟩
  by_cases hp : s.policy = .unrestricted
  · exact Or.inr hp
  · refine Or.inl ?_
    unfold attempt
    simp only
    split
    · split
      · exact Nat.le_refl _
      · rw [failure_increments_count _ _ (by rw [applyTimeStep_policy]; exact hp)]; omega
    · exact Nat.le_refl _

example :
    let s : SoftLock := { state := .unlocked 7 (fromSecs 86400), policy := .password, lastExpireAt := 0 }
    (attempt s (fromSecs 500) none true) = (s, .success) := by decide

/-! ## 4. Budgets -/

/-- The generated Password table caps at 100 failures and its window is the UTC day. -/
theorem password_table_budget : passwordCap = 100 ∧ oneDay = 86400 ∧ totpCap = 3 := by decide

/-- **password_at_most_100_per_utc_day**: for a password-only credential, from *any* lock state,
over any history under monotone time that follows the server's protocol and carries no
administrator-set expiry, the number of failures recorded at times within UTC day `day`
(`ct.as_secs() / 86400 = day`) is at most 100. -/
theorem password_at_most_100_per_utc_day (s : SoftLock) (hs : s.policy = .password)
    (es : List Event) (now day : Nat) (hm : Mono now es) (hna : NoAdmin es) (hpr : Protocol es) :
    failsIn 86400 day s es ≤ 100 := by
  have h := window_budget windowed_password (by decide) s hs es now day hm hna hpr
  rw [password_table_budget.1, password_table_budget.2.1] at h
  exact h

/-- **totp_at_most_3_per_step**: for a TOTP-protected credential with step `step > 0`, at most 3
failures are recorded within any one TOTP step (`ct.as_secs() / step = k`). -/
theorem totp_at_most_3_per_step (s : SoftLock) (step : Nat) (hstep : 0 < step)
    (hs : s.policy = .totp step) (es : List Event) (now k : Nat) (hm : Mono now es)
    (hna : NoAdmin es) (hpr : Protocol es) : failsIn step k s es ≤ 3 := by
  have h := window_budget (windowed_totp hstep) (by decide) s hs es now k hm hna hpr
  rw [password_table_budget.2.2] at h
  exact h

/-- An attacker trying every 11 s from midnight (every allowed try fails). -/
def attack (n : Nat) : List Event := (List.range n).map fun i => .attempt (fromSecs (11 * i)) none false

/-- The bounds are attained (so the hypotheses are satisfiable and the numbers tight): 100 of the
300 tries are recorded, none of the others is even checked; 3 per TOTP step. -/
example : failsIn 86400 0 (new .password) (attack 300) = 100 := by decide +kernel
example : failsIn 30 0 (new (.totp 30)) ((List.range 30).map fun i => .attempt (fromSecs i + i) none false) = 3 := by
  decide +kernel

/-- With an administrator-set expiry the budget can be exceeded (why `NoAdmin` is assumed):
one expiry update re-opens the lock after the 3rd failure of a TOTP step. -/
example : failsIn 30 0 (new (.totp 30))
    [.attempt (fromSecs 1) none false, .attempt (fromSecs 3) none false, .attempt (fromSecs 5) none false,
     .attempt (fromSecs 7) (some (fromSecs 6)) false] = 4 := by decide

end Kanidm.SoftLock
